import Qv.Proofs.Expr
import Qv.Model.Info
/-!
# `create_from_info ∘ get_info` reproduces the model
-/
namespace Qv

/-- rebuilding a canonical dict through `self[k] += v` appends its items in order -/
theorem iaddD_append {sq : Sq} {p acc : Poly} (h : WF sq (acc ++ p)) :
    iaddD sq acc p = .ok (acc ++ p) := by
  induction p generalizing acc with
  | nil => simp [iaddD]
  | cons kv r ih =>
    obtain ⟨k, v⟩ := kv
    have hk : sq k = .ok k := h.fixed k (by simp [keys])
    have hv : v ≠ 0 := h.nonzero (k, v) (by simp)
    have hnd := h.nodup
    simp only [keys, List.map_append, List.map_cons] at hnd
    have hnot : k ∉ keys acc := by
      intro hm
      have := List.nodup_append.1 hnd
      exact this.2.2 k hm k List.mem_cons_self rfl
    have hget : get acc k = 0 := by
      clear ih h hnd
      induction acc with
      | nil => rfl
      | cons kv' t iht =>
        obtain ⟨k', v'⟩ := kv'
        simp only [keys, List.map_cons, List.mem_cons, not_or] at hnot
        simp only [get]
        rw [if_neg (fun e => hnot.1 e.symm)]
        exact iht hnot.2
    have hput : put acc k v = acc ++ [(k, v)] := by
      clear ih h hnd hget
      induction acc with
      | nil => rfl
      | cons kv' t iht =>
        obtain ⟨k', v'⟩ := kv'
        simp only [keys, List.map_cons, List.mem_cons, not_or] at hnot
        simp only [put]
        rw [if_neg (fun e => hnot.1 e.symm), iht hnot.2]; rfl
    have h1 : addTerm sq acc k v = .ok (acc ++ [(k, v)]) := by
      unfold addTerm
      simp only [hk, bind, Except.bind, pure, Except.pure, hget, zero_add]
      unfold set
      rw [if_neg hv, hput]
    simp only [iaddD, h1, bind, Except.bind]
    have : acc ++ (k, v) :: r = (acc ++ [(k, v)]) ++ r := by simp
    rw [this] at h ⊢
    exact ih h

theorem construct_wf {sq : Sq} {p : Poly} (h : WF sq p) : construct sq p = .ok p := by
  have := iaddD_append (sq := sq) (p := p) (acc := []) (by simpa using h)
  simpa [construct] using this

/-! ### constraints -/

def consKeys (cs : List (Rel × List Poly)) : List Rel := cs.map Prod.fst

theorem appendCons_new {cs : List (Rel × List Poly)} {r : Rel} (h : r ∉ consKeys cs) (p : Poly) :
    appendCons cs r p = cs ++ [(r, [p])] := by
  induction cs with
  | nil => rfl
  | cons c t ih =>
    obtain ⟨r', l⟩ := c
    simp only [consKeys, List.map_cons, List.mem_cons, not_or] at h
    simp only [appendCons]
    rw [if_neg (fun e => h.1 e.symm), ih h.2]; rfl

theorem appendCons_last {cs : List (Rel × List Poly)} {r : Rel} (h : r ∉ consKeys cs) (l : List Poly)
    (p : Poly) : appendCons (cs ++ [(r, l)]) r p = cs ++ [(r, l ++ [p])] := by
  induction cs with
  | nil => simp [appendCons]
  | cons c t ih =>
    obtain ⟨r', l'⟩ := c
    simp only [consKeys, List.map_cons, List.mem_cons, not_or] at h
    simp only [List.cons_append, appendCons]
    rw [if_neg (fun e => h.1 e.symm), ih h.2]

/-- the stored form of a constraint polynomial is canonical for the PUBO resp. PUSO type -/
def ConsWF (κ : Kind) (x : Poly) : Prop := WF (squash (if κ.isSpin then .puso else .pubo)) x

theorem storeCons_wf {κ : Kind} {x : Poly} (h : ConsWF κ x) : storeCons κ x = .ok x :=
  construct_wf h

theorem readdList_last {κ : Kind} {r : Rel} {cs : List (Rel × List Poly)} (hr : r ∉ consKeys cs)
    (l : List Poly) {t : List Poly} (ht : ∀ x ∈ t, ConsWF κ x) :
    readdList κ r (cs ++ [(r, l)]) t = .ok (cs ++ [(r, l ++ t)]) := by
  induction t generalizing l with
  | nil => simp [readdList]
  | cons x t ih =>
    simp only [readdList, storeCons_wf (ht x List.mem_cons_self), bind, Except.bind]
    rw [appendCons_last hr, ih (l ++ [x]) (fun y hy => ht y (List.mem_cons_of_mem _ hy))]
    simp

theorem readdList_new {κ : Kind} {r : Rel} {cs : List (Rel × List Poly)} (hr : r ∉ consKeys cs)
    {t : List Poly} (hne : t ≠ []) (ht : ∀ x ∈ t, ConsWF κ x) :
    readdList κ r cs t = .ok (cs ++ [(r, t)]) := by
  cases t with
  | nil => exact absurd rfl hne
  | cons x t =>
    simp only [readdList, storeCons_wf (ht x List.mem_cons_self), bind, Except.bind]
    rw [appendCons_new hr, readdList_last hr [x] (fun y hy => ht y (List.mem_cons_of_mem _ hy))]
    simp

/-- the recorded constraints as the code keeps them: distinct relation keys, no empty list
(`_pop_constraint` deletes a key whose list becomes empty), canonical polynomials -/
structure ConsOK (κ : Kind) (cs : List (Rel × List Poly)) : Prop where
  nodup : (consKeys cs).Nodup
  nonempty : ∀ c ∈ cs, c.2 ≠ []
  wf : ∀ c ∈ cs, ∀ x ∈ c.2, ConsWF κ x

theorem readdAll_append {κ : Kind} {acc cs : List (Rel × List Poly)} (h : ConsOK κ (acc ++ cs)) :
    readdAll κ acc cs = .ok (acc ++ cs) := by
  induction cs generalizing acc with
  | nil => simp [readdAll]
  | cons c t ih =>
    obtain ⟨r, l⟩ := c
    have hnd := h.nodup
    simp only [consKeys, List.map_append, List.map_cons] at hnd
    have hr : r ∉ consKeys acc := by
      intro hm
      exact (List.nodup_append.1 hnd).2.2 r hm r List.mem_cons_self rfl
    have h1 := readdList_new (κ := κ) hr (h.nonempty (r, l) (by simp)) (h.wf (r, l) (by simp))
    simp only [readdAll, h1, bind, Except.bind]
    have : acc ++ (r, l) :: t = (acc ++ [(r, l)]) ++ t := by simp
    rw [this] at h ⊢
    exact ih h

/-- well-formed observable state of a model object -/
structure MObj.OK (m : MObj) : Prop where
  terms : WF (squash m.kind) m.terms
  cons : ConsOK m.kind m.cons
  unconstrained : m.kind.isConstrained = false → m.anc = 0 ∧ m.cons = []
  unlabelled : m.kind.isLabelled = false → m.mapping = []

theorem createFromInfo_getInfo {m : MObj} (h : m.OK) : createFromInfo (getInfo m) = .ok m := by
  obtain ⟨kind, terms, name, mapping, anc, cons⟩ := m
  have ht := construct_wf h.terms
  simp only at ht
  by_cases hc : kind.isConstrained = true
  · have hl : kind.isLabelled = true := by cases kind <;> simp_all [Kind.isConstrained, Kind.isLabelled]
    have hall := readdAll_append (κ := kind) (acc := []) (cs := cons) (by simpa using h.cons)
    simp only [createFromInfo, getInfo, hc, hl, if_true, ht, bind, Except.bind, pure, Except.pure]
    simp only [List.nil_append] at hall
    simp [hall]
  · have hc' : kind.isConstrained = false := by simpa using hc
    obtain ⟨ha, hcs⟩ := h.unconstrained hc'
    simp only at ha hcs
    subst ha; subst hcs
    by_cases hl : kind.isLabelled = true
    · simp [createFromInfo, getInfo, hc', hl, ht, bind, Except.bind, pure, Except.pure]
    · have hl' : kind.isLabelled = false := by simpa using hl
      have hm := h.unlabelled hl'
      simp only at hm
      subst hm
      simp [createFromInfo, getInfo, hc', hl', ht, bind, Except.bind, pure, Except.pure]

end Qv
