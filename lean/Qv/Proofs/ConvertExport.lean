import Qv.Proofs.Convert
/-!
# Helper lemmas for C04: exports (`Q`, `h`, `J`, `matrix_to_qubo`) and `convert_solution`
-/
namespace Qv

/-! ### the constant term -/

/-- sum of the coefficients stored under the key `()` -/
def constSum (p : Poly) : Rat :=
  match p with
  | [] => 0
  | (k, v) :: r => (if k = [] then v else 0) + constSum r

theorem constSum_eq_zero {p : Poly} (h : [] ∉ keys p) : constSum p = 0 := by
  induction p with
  | nil => rfl
  | cons kv r ih =>
    obtain ⟨k, v⟩ := kv
    simp only [keys, List.map_cons, List.mem_cons, not_or] at h
    have hk : ¬ k = [] := fun e => h.1 e.symm
    simp only [constSum, hk, if_false, zero_add]
    exact ih h.2

/-- with distinct keys the constant part is `self[()]` (the `offset`) -/
theorem constSum_eq_get {p : Poly} (h : (keys p).Nodup) : constSum p = get p [] := by
  induction p with
  | nil => rfl
  | cons kv r ih =>
    obtain ⟨k, v⟩ := kv
    simp only [keys, List.map_cons, List.nodup_cons] at h
    by_cases hk : k = []
    · subst hk
      simp only [constSum, get, if_true]
      rw [constSum_eq_zero h.1]; ring
    · simp only [constSum, get, hk, if_false, zero_add]
      exact ih h.2

/-! ### `h` and `J` -/

/-- `Σ h_i z_i` -/
def evalLin (z : Var → Rat) (h : Assign) : Rat :=
  match h with
  | [] => 0
  | (i, v) :: r => v * z i + evalLin z r

theorem eval_hJ_aux (z : Var → Rat) (p : Poly) (hp : ∀ kv ∈ p, kv.1.length ≤ 2) :
    evalLin z (exportH p) + eval z (exportJ p) + constSum p = eval z p := by
  induction p with
  | nil => simp [exportH, exportJ, evalLin, constSum]
  | cons kv r ih =>
    obtain ⟨k, v⟩ := kv
    have ih := ih (fun kv h => hp kv (List.mem_cons_of_mem _ h))
    have hk := hp (k, v) List.mem_cons_self
    simp only [exportH, exportJ] at ih ⊢
    match k, hk with
    | [], _ =>
      simp only [List.filterMap_cons, List.filter_cons, List.length_nil, constSum, if_true, eval_cons, mon_nil]
      simp only [show ((0 : Nat) == 2) = false from rfl]
      simp only [Bool.false_eq_true, if_false]
      linarith
    | [i], _ =>
      simp only [List.filterMap_cons, List.filter_cons, List.length_cons, List.length_nil, constSum, eval_cons,
        mon_cons, mon_nil, evalLin]
      simp only [show ((0 + 1 : Nat) == 2) = false from rfl, show ¬ ([i] = ([] : Key)) from by simp]
      simp only [Bool.false_eq_true, if_false]
      linarith
    | [i, j], _ =>
      simp only [List.filterMap_cons, List.filter_cons, List.length_cons, List.length_nil, constSum, eval_cons,
        mon_cons, mon_nil]
      simp only [show ((0 + 1 + 1 : Nat) == 2) = true from rfl, show ¬ ([i, j] = ([] : Key)) from by simp]
      simp only [if_true, if_false, eval_cons, mon_cons, mon_nil]
      linarith
    | _ :: _ :: _ :: _, hk => simp at hk

/-! ### `Q` -/

theorem mon_repKey_bool {x : Var → Rat} (hx : IsBool x) {k : Key} (h0 : k ≠ []) (h2 : k.length ≤ 2) :
    mon x (repKey k (3 - k.length)) = mon x k := by
  match k, h0, h2 with
  | [], h0, _ => exact absurd rfl h0
  | [i], _, _ =>
    show mon x ([i] ++ ([i] ++ [])) = _
    simp only [List.append_nil, List.cons_append, List.nil_append, mon_cons, mon_nil, mul_one]
    exact hx.sq i
  | [i, j], _, _ =>
    show mon x ([i, j] ++ []) = _
    simp
  | _ :: _ :: _ :: _, _, h2 => simp at h2

theorem repKey_inj {k k' : Key} (h0 : k ≠ []) (h0' : k' ≠ []) (h2 : k.length ≤ 2) (h2' : k'.length ≤ 2)
    (hn : k.Nodup) (hn' : k'.Nodup) (h : repKey k (3 - k.length) = repKey k' (3 - k'.length)) : k = k' := by
  match k, k', h0, h0', h2, h2' with
  | [], _, h0, _, _, _ => exact absurd rfl h0
  | _, [], _, h0', _, _ => exact absurd rfl h0'
  | _ :: _ :: _ :: _, _, _, _, h2, _ => simp at h2
  | _, _ :: _ :: _ :: _, _, _, _, h2' => simp at h2'
  | [i], [i'], _, _, _, _ =>
    have : [i] ++ ([i] ++ []) = [i'] ++ ([i'] ++ []) := h
    simp at this; simp [this]
  | [i], [a, b], _, _, _, _ =>
    have : [i] ++ ([i] ++ []) = [a, b] ++ [] := h
    simp at this hn'
    exact absurd (this.1.symm.trans this.2) hn'
  | [a, b], [i], _, _, _, _ =>
    have : [a, b] ++ [] = [i] ++ ([i] ++ []) := h
    simp at this hn
    exact absurd (this.1.trans this.2.symm) hn
  | [a, b], [a', b'], _, _, _, _ =>
    have : [a, b] ++ [] = [a', b'] ++ [] := h
    simpa using this

theorem eval_exportQ_aux {x : Var → Rat} (hx : IsBool x) (p acc : Poly)
    (hnd : (keys p).Nodup) (hk : ∀ k ∈ keys p, k.length ≤ 2 ∧ k.Nodup)
    (hfresh : ∀ k ∈ keys p, k ≠ [] → get acc (repKey k (3 - k.length)) = 0) :
    eval x (exportQ acc p) + constSum p = eval x acc + eval x p := by
  induction p generalizing acc with
  | nil => simp [exportQ, constSum]
  | cons kv r ih =>
    obtain ⟨k, v⟩ := kv
    simp only [keys, List.map_cons, List.nodup_cons] at hnd
    have hk' : ∀ k ∈ keys r, k.length ≤ 2 ∧ k.Nodup := fun k h => hk k (List.mem_cons_of_mem _ h)
    by_cases hke : k = []
    · subst hke
      simp only [exportQ, if_true, constSum, eval_cons, mon_nil]
      have := ih acc hnd.2 hk' (fun k h => hfresh k (List.mem_cons_of_mem _ h))
      linarith
    · simp only [exportQ, hke, if_false, constSum, eval_cons, zero_add]
      have hkk := hk k List.mem_cons_self
      have hf : ∀ k2 ∈ keys r, k2 ≠ [] →
          get (put acc (repKey k (3 - k.length)) v) (repKey k2 (3 - k2.length)) = 0 := by
        intro k2 h2 h20
        have hne : repKey k2 (3 - k2.length) ≠ repKey k (3 - k.length) := by
          intro e
          have := repKey_inj h20 hke (hk' k2 h2).1 hkk.1 (hk' k2 h2).2 hkk.2 e
          exact hnd.1 (this ▸ h2)
        rw [get_put_ne _ _ hne]
        exact hfresh k2 (List.mem_cons_of_mem _ h2) h20
      have := ih (put acc (repKey k (3 - k.length)) v) hnd.2 hk' hf
      rw [eval_put, hfresh k List.mem_cons_self hke, mon_repKey_bool hx hke hkk.1] at this
      linarith

/-! ### `matrix_to_qubo` -/

/-- `Σ_j A[i][j] x_i x_j` over a row given as a list, starting at column `j` -/
def rowForm (x : Var → Rat) (i : Nat) (row : List Rat) (j : Nat) : Rat :=
  match row with
  | [] => 0
  | a :: r => a * (x i * x j) + rowForm x i r (j + 1)

/-- `xᵀ A x` for a matrix given by its rows, starting at row `i` -/
def quadForm (x : Var → Rat) (rows : List (List Rat)) (i : Nat) : Rat :=
  match rows with
  | [] => 0
  | row :: rs => rowForm x i row 0 + quadForm x rs (i + 1)

theorem eval_m2qRow {sq : Sq} {x : Var → Rat} (hs : SqOK sq x) {row : List Rat} {Q Q' : Poly} {i j : Nat}
    (h : m2qRow sq Q i row j = .ok Q') : eval x Q' = eval x Q + rowForm x i row j := by
  induction row generalizing Q j with
  | nil => simp [m2qRow] at h; subst h; simp [rowForm]
  | cons a r ih =>
    simp only [m2qRow, bind_ok_iff] at h
    obtain ⟨Q1, h1, h2⟩ := h
    rw [ih h2, eval_addTerm hs h1]; simp [rowForm]; ring

theorem eval_m2qRows {sq : Sq} {x : Var → Rat} (hs : SqOK sq x) {rows : List (List Rat)} {Q Q' : Poly} {i : Nat}
    (h : m2qRows sq Q rows i = .ok Q') : eval x Q' = eval x Q + quadForm x rows i := by
  induction rows generalizing Q i with
  | nil => simp [m2qRows] at h; subst h; simp [quadForm]
  | cons row rs ih =>
    simp only [m2qRows, bind_ok_iff] at h
    obtain ⟨Q1, h1, h2⟩ := h
    rw [ih h2, eval_m2qRow hs h1]; simp [quadForm]; ring

theorem m2qRow_total {sq : Sq} (ht : SqShort sq) (row : List Rat) (Q : Poly) (i j : Nat) :
    ∃ Q', m2qRow sq Q i row j = .ok Q' := by
  induction row generalizing Q j with
  | nil => exact ⟨Q, rfl⟩
  | cons a r ih =>
    obtain ⟨Q1, h1⟩ := addTerm_ok_of (ht [i, j] (by simp)) Q a
    obtain ⟨Q2, h2⟩ := ih Q1 (j + 1)
    exact ⟨Q2, by simp only [m2qRow, bind_ok_iff]; exact ⟨Q1, h1, h2⟩⟩

theorem m2qRows_total {sq : Sq} (ht : SqShort sq) (rows : List (List Rat)) (Q : Poly) (i : Nat) :
    ∃ Q', m2qRows sq Q rows i = .ok Q' := by
  induction rows generalizing Q i with
  | nil => exact ⟨Q, rfl⟩
  | cons row rs ih =>
    obtain ⟨Q1, h1⟩ := m2qRow_total ht row Q i 0
    obtain ⟨Q2, h2⟩ := ih Q1 (i + 1)
    exact ⟨Q2, by simp only [m2qRows, bind_ok_iff]; exact ⟨Q1, h1, h2⟩⟩

/-! ### `convert_solution` -/

def SolBool (vals : List Rat) : Prop := ∀ v ∈ vals, v = 0 ∨ v = 1
def SolSpin (vals : List Rat) : Prop := ∀ v ∈ vals, v = 1 ∨ v = -1

theorem isSolutionSpin_bool {vals : List Rat} (h : SolBool vals) (flag : Bool) :
    isSolutionSpin vals flag = if (0 : Rat) ∈ vals then false else flag := by
  induction vals with
  | nil => simp [isSolutionSpin]
  | cons v r ih =>
    have ih := ih (fun w hw => h w (List.mem_cons_of_mem _ hw))
    rcases h v List.mem_cons_self with hv | hv
    · subst hv; simp [isSolutionSpin]
    · subst hv
      have h1 : ¬ ((1 : Rat) = 0) := by norm_num
      have h2 : ¬ ((1 : Rat) = -1) := by norm_num
      have h3 : ¬ ((0 : Rat) = 1) := by norm_num
      simp only [isSolutionSpin, h1, h2, if_false, ih, List.mem_cons, h3, false_or]

theorem isSolutionSpin_spin {vals : List Rat} (h : SolSpin vals) (flag : Bool) :
    isSolutionSpin vals flag = if (-1 : Rat) ∈ vals then true else flag := by
  induction vals with
  | nil => simp [isSolutionSpin]
  | cons v r ih =>
    have ih := ih (fun w hw => h w (List.mem_cons_of_mem _ hw))
    rcases h v List.mem_cons_self with hv | hv
    · subst hv
      have h1 : ¬ ((1 : Rat) = 0) := by norm_num
      have h2 : ¬ ((1 : Rat) = -1) := by norm_num
      have h3 : ¬ ((-1 : Rat) = 1) := by norm_num
      simp only [isSolutionSpin, h1, h2, if_false, ih, List.mem_cons, h3, false_or]
    · subst hv
      have h1 : ¬ ((-1 : Rat) = 0) := by norm_num
      simp [isSolutionSpin, h1]

theorem aget_aput_eq (d : Assign) (k : Var) (v : Rat) : aget (aput d k v) k = some v := by
  induction d with
  | nil => simp [aput, aget]
  | cons kv r ih =>
    obtain ⟨k', v'⟩ := kv
    unfold aput; split
    · simp [aget]
    · rename_i hne; simp [aget, hne, ih]

theorem aget_aput_ne (d : Assign) {k k2 : Var} (v : Rat) (h : k2 ≠ k) : aget (aput d k v) k2 = aget d k2 := by
  induction d with
  | nil => simp [aput, aget, Ne.symm h]
  | cons kv r ih =>
    obtain ⟨k', v'⟩ := kv
    unfold aput; split
    · rename_i he; subst he; simp [aget, Ne.symm h]
    · simp only [aget]; rw [ih]

theorem solLoop_notin {rev : Mapping} {s : Sol} {d : Bool} {is : List Nat} {acc a : Assign} {l : Var}
    (h : solLoop rev s d acc is = .ok a) (hn : ∀ j ∈ is, mapGet rev j ≠ .ok l) : aget a l = aget acc l := by
  induction is generalizing acc with
  | nil => simp [solLoop] at h; subst h; rfl
  | cons j r ih =>
    simp only [solLoop, bind_ok_iff] at h
    obtain ⟨lj, hlj, vj, _, h⟩ := h
    rw [ih h (fun j' hj' => hn j' (List.mem_cons_of_mem _ hj'))]
    apply aget_aput_ne
    intro e; subst e
    exact hn j List.mem_cons_self hlj

theorem solLoop_lookup {rev : Mapping} {s : Sol} {d : Bool} {is : List Nat} {acc a : Assign} {l : Var} {i : Nat}
    (h : solLoop rev s d acc is = .ok a) (hi : i ∈ is) (hl : mapGet rev i = .ok l)
    (hu : ∀ j ∈ is, mapGet rev j = .ok l → j = i) :
    ∃ v, solGet s d i = .ok v ∧ aget a l = some v := by
  induction is generalizing acc with
  | nil => cases hi
  | cons j r ih =>
    simp only [solLoop, bind_ok_iff] at h
    obtain ⟨lj, hlj, vj, hvj, h⟩ := h
    by_cases hir : i ∈ r
    · exact ih h hir (fun j' hj' => hu j' (List.mem_cons_of_mem _ hj'))
    · have hij : i = j := by
        rcases List.mem_cons.mp hi with e | e
        · exact e
        · exact absurd e hir
      subst hij
      have : lj = l := by rw [hl] at hlj; injection hlj with e; exact e.symm
      subst this
      refine ⟨vj, hvj, ?_⟩
      rw [solLoop_notin h (fun j' hj' e => hir ((hu j' (List.mem_cons_of_mem _ hj') e) ▸ hj'))]
      exact aget_aput_eq acc lj vj

/-- the keys of the dict built by the comprehension are exactly the `reverse_mapping[i]` -/
theorem solLoop_dom {rev : Mapping} {s : Sol} {d : Bool} {is : List Nat} {acc a : Assign} (l : Var)
    (h : solLoop rev s d acc is = .ok a) :
    (aget a l).isSome = true ↔ ((aget acc l).isSome = true ∨ ∃ i ∈ is, mapGet rev i = .ok l) := by
  induction is generalizing acc with
  | nil => simp [solLoop] at h; subst h; simp
  | cons j r ih =>
    simp only [solLoop, bind_ok_iff] at h
    obtain ⟨lj, hlj, vj, _, h⟩ := h
    rw [ih h]
    by_cases e : l = lj
    · subst e
      simp only [aget_aput_eq, Option.isSome_some, true_or, true_iff]
      exact Or.inr ⟨j, List.mem_cons_self, hlj⟩
    · rw [aget_aput_ne acc vj e]
      constructor
      · rintro (h1 | ⟨i, hi, hil⟩)
        · exact Or.inl h1
        · exact Or.inr ⟨i, List.mem_cons_of_mem _ hi, hil⟩
      · rintro (h1 | ⟨i, hi, hil⟩)
        · exact Or.inl h1
        · rcases List.mem_cons.mp hi with rfl | hi
          · rw [hlj] at hil; injection hil with hil; exact absurd hil.symm e
          · exact Or.inr ⟨i, hi, hil⟩

theorem convertSolution_dom {spinModel : Bool} {rev : Mapping} {n : Nat} {s : Sol} {isDict flag : Bool}
    {a : Assign} (hc : convertSolution spinModel rev n s isDict flag = .ok a) (l : Var) :
    (aget a l).isSome = true ↔ ∃ i, i < n ∧ mapGet rev i = .ok l := by
  have key : ∀ s', solLoop rev s' isDict [] (List.range n) = .ok a →
      ((aget a l).isSome = true ↔ ∃ i, i < n ∧ mapGet rev i = .ok l) := by
    intro s' hloop
    rw [solLoop_dom l hloop]
    simp [aget, List.mem_range]
  unfold convertSolution at hc
  cases spinModel <;> cases hsp : isSolutionSpin (s.map Prod.snd) flag <;>
    simp only [hsp, Bool.false_eq_true, if_false, if_true, Bool.not_false, Bool.not_true, pure, Except.pure,
      bind_ok_iff] at hc <;> obtain ⟨s', _, hloop⟩ := hc <;> exact key s' hloop

theorem solMap_get {f : Rat → Except Err Rat} {s s' : Sol} (h : solMap f s = .ok s') {d : Bool} {i : Nat} {v' : Rat}
    (hg : solGet s' d i = .ok v') : ∃ v, solGet s d i = .ok v ∧ f v = .ok v' := by
  induction s generalizing s' with
  | nil => simp [solMap] at h; subst h; simp [solGet] at hg
  | cons jv r ih =>
    obtain ⟨j, v⟩ := jv
    simp only [solMap, bind_ok_iff, pure, Except.pure] at h
    obtain ⟨w, hw, r', hr', hs'⟩ := h
    injection hs' with hs'
    subst hs'
    by_cases hji : j = i
    · subst hji
      simp only [solGet, if_true] at hg ⊢
      injection hg with hg
      subst hg
      exact ⟨v, rfl, hw⟩
    · simp only [solGet, hji, if_false] at hg ⊢
      exact ih hr' hg

/-- a value of the given solution, read in the model's own form; `sp` is the outcome of
`is_solution_spin` -/
def ownOf (spinModel sp : Bool) (v : Rat) : Rat :=
  if spinModel then (if sp then v else 1 - 2 * v) else (if sp then (1 - v) / 2 else v)

theorem b2sVal_eq {v v' : Rat} (h : b2sVal v = .ok v') : v' = 1 - 2 * v := by
  unfold b2sVal at h
  split at h
  · injection h with h; subst h; rename_i hv; rw [hv]; norm_num
  · split at h
    · injection h with h; subst h; rename_i hv; rw [hv]; norm_num
    · cases h

theorem s2bVal_eq {v v' : Rat} (h : s2bVal v = .ok v') : v' = (1 - v) / 2 := by
  unfold s2bVal at h
  split at h
  · injection h with h; subst h; rename_i hv; rw [hv]; norm_num
  · split at h
    · injection h with h; subst h; rename_i hv; rw [hv]; norm_num
    · cases h

theorem convertSolution_lookup {spinModel : Bool} {rev : Mapping} {n : Nat} {s : Sol} {isDict flag : Bool}
    {a : Assign} (hc : convertSolution spinModel rev n s isDict flag = .ok a)
    {i : Nat} (hi : i < n) {l : Var} (hl : mapGet rev i = .ok l)
    (hu : ∀ j, j < n → mapGet rev j = .ok l → j = i) :
    ∃ v, solGet s isDict i = .ok v ∧
      aget a l = some (ownOf spinModel (isSolutionSpin (s.map Prod.snd) flag) v) := by
  have key : ∀ s', solLoop rev s' isDict [] (List.range n) = .ok a →
      ∃ v', solGet s' isDict i = .ok v' ∧ aget a l = some v' := fun s' hloop =>
    solLoop_lookup hloop (List.mem_range.mpr hi) hl (fun j hj => hu j (List.mem_range.mp hj))
  unfold convertSolution at hc
  cases spinModel <;> cases hsp : isSolutionSpin (s.map Prod.snd) flag <;>
    simp only [hsp, Bool.false_eq_true, if_false, if_true, Bool.not_false, Bool.not_true, pure, Except.pure,
      bind_ok_iff] at hc <;> obtain ⟨s', hs', hloop⟩ := hc <;> obtain ⟨v', hv', ha⟩ := key s' hloop
  · injection hs' with hs'; subst hs'
    exact ⟨v', hv', by simpa [ownOf] using ha⟩
  · obtain ⟨v, hv, hf⟩ := solMap_get hs' hv'
    exact ⟨v, hv, by rw [ha, s2bVal_eq hf]; simp [ownOf]⟩
  · obtain ⟨v, hv, hf⟩ := solMap_get hs' hv'
    exact ⟨v, hv, by rw [ha, b2sVal_eq hf]; simp [ownOf]⟩
  · injection hs' with hs'; subst hs'
    exact ⟨v', hv', by simpa [ownOf] using ha⟩

/-- the given solution as an assignment of `0..n-1` in the model's own form -/
def ownSol (spinModel sp : Bool) (s : Sol) (isDict : Bool) : Nat → Rat := fun i =>
  match solGet s isDict i with
  | .ok v => ownOf spinModel sp v
  | .error _ => if spinModel then 1 else 0

end Qv
