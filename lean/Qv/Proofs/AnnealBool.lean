import Qv.Proofs.AnnealObj
/-!
# Matrix inputs and the boolean front ends: values over the input's own terms (C11, T11.3 extended)
-/
namespace Qv.Anneal
open Qv Qv.Kernel

/-! ## Matrix input -/

theorem maxIndex_none_iff (o : Obj) : o.maxIndex = none ↔ o.vars = [] := by
  unfold Obj.maxIndex
  cases o.vars <;> simp

theorem range_getD (N i : Nat) (h : i < N) : (List.range N).getD i 0 = i := by
  simp [List.getD, List.getElem?_range h]

/-- consistency with `relabelState (range N) s` pins an assignment on `0..N-1` -/
theorem cons_range {N : Nat} {s : List Int} (hs : s.length = N) {x : Var → Rat}
    (hcons : ∀ p ∈ relabelState (List.range N) s, x p.1 = p.2) : ∀ i, i < N → x i = assign s i := by
  intro i hi
  have hmem : (i, s.getD i 0) ∈ relabelState (List.range N) s := by
    simp only [relabelState, List.mem_map, List.mem_range]
    exact ⟨i, by omega, by rw [range_getD N i hi]⟩
  have := hcons _ hmem
  simpa [assign] using this

theorem dispatchQuso_not_pusom (L : Obj) (h : ¬ L.kind = .pusom) : dispatchQuso L = dispatchQusoCore L := by
  unfold dispatchQuso; rw [if_neg h]

/-- the Matrix branch of the dispatch of `anneal_quso` -/
theorem dispatchCore_matrix (M : Obj) (hk : M.kind = .qusom) (N : Nat) (model : Poly) (rev : List Var)
    (h : dispatchQusoCore M = .ok (N, model, rev)) :
    model = M.terms ∧ rev = List.range N ∧ N = M.maxIndex.elim 0 (· + 1) := by
  unfold dispatchQusoCore at h
  rw [if_pos hk] at h
  cases hm : M.maxIndex with
  | none =>
    simp only [hm, bind, Except.bind, pure, Except.pure] at h
    injection h with h; injection h with h1 h2; injection h2 with h2 h3
    subst h1; subst h2; subst h3
    exact ⟨rfl, rfl, rfl⟩
  | some m =>
    simp only [hm, bind, Except.bind, pure, Except.pure] at h
    injection h with h; injection h with h1 h2; injection h2 with h2 h3
    subst h1; subst h2; subst h3
    exact ⟨rfl, rfl, rfl⟩

theorem dispatch_matrix_quso (L : Obj) (hk : L.kind = .qusom) (N : Nat) (model : Poly) (rev : List Var)
    (h : dispatchQuso L = .ok (N, model, rev)) :
    model = L.terms ∧ rev = List.range N ∧ (N = 0 → L.vars = []) := by
  rw [dispatchQuso_not_pusom L (by rw [hk]; decide)] at h
  obtain ⟨h1, h2, h3⟩ := dispatchCore_matrix L hk N model rev h
  refine ⟨h1, h2, fun h0 => ?_⟩
  cases hm : L.maxIndex with
  | none => exact (maxIndex_none_iff L).mp hm
  | some m => rw [hm] at h3; simp at h3; omega

/-- `anneal_quso` on a `PUSOMatrix`: the dispatch is that of `QUSOMatrix(L)` -/
theorem dispatch_pusom_quso (L : Obj) (hk : L.kind = .pusom) (N : Nat) (model : Poly) (rev : List Var)
    (h : dispatchQuso L = .ok (N, model, rev)) :
    ∃ M, Obj.build .qusom L.terms = .ok M ∧ dispatchQusoCore M = .ok (N, model, rev) := by
  unfold dispatchQuso at h
  rw [if_pos hk] at h
  simp only [bind_ok_iff] at h
  exact h

theorem dispatch_matrix_puso (H : Obj) (hk : H.kind = .qusom ∨ H.kind = .pusom) (N : Nat) (model : Poly)
    (rev : List Var) (h : dispatchPuso H = .ok (N, model, rev)) :
    model = H.terms ∧ rev = List.range N ∧ (N = 0 → H.vars = []) := by
  unfold dispatchPuso at h
  rw [if_pos hk] at h
  cases hm : H.maxIndex with
  | none =>
    simp only [hm, bind, Except.bind, pure, Except.pure] at h
    injection h with h; injection h with h1 h2; injection h2 with h2 h3
    subst h1; subst h2; subst h3
    exact ⟨rfl, rfl, fun _ => (maxIndex_none_iff H).mp hm⟩
  | some m =>
    simp only [hm, bind, Except.bind, pure, Except.pure] at h
    injection h with h; injection h with h1 h2; injection h2 with h2 h3
    subst h1; subst h2; subst h3
    exact ⟨rfl, rfl, fun h0 => by omega⟩

theorem keys_nil_of_no_vars {o : Obj} (hI : ObjInv o) (hv : o.vars = []) : ∀ kv ∈ o.terms, kv.1 = [] := by
  intro kv hkv
  cases hk : kv.1 with
  | nil => rfl
  | cons a r =>
    have := hI.tv kv hkv a (by rw [hk]; exact List.mem_cons_self)
    rw [hv] at this; cases this

/-- **`QUSOMatrix` through `anneal_quso`** (with the bookkeeping invariant): value over its own terms -/
theorem annealQuso_matrix {ρ : Type} (src : Src ρ Rat) (L : Obj) (P : Params ρ Rat) (rs : List Res)
    (hk : L.kind = .qusom) (hI : ObjInv L) (h : Anneal.annealQuso (ratCfg src) L P = .ok rs)
    (hinit : ∀ d, P.init = some d → ∀ p ∈ d, p.2 = 1 ∨ p.2 = -1) :
    ∀ r ∈ rs, ∀ x : Var → Rat, (∀ p ∈ r.state, x p.1 = p.2) → r.value = eval x L.terms := by
  have h' := h
  unfold Anneal.annealQuso at h'
  simp only [bind_ok_iff] at h'
  obtain ⟨pr, hp, hm⟩ := h'
  rcases prep_cases _ _ _ _ hp with ⟨hle, rfl⟩ | ⟨_, Ts, N, model, rev, _, hd, _⟩
  · injection hm with hm; subst hm; intro r hr; cases hr
  · obtain ⟨e1, e2, hN0⟩ := dispatch_matrix_quso L hk N model rev hd
    subst e1; subst e2
    obtain ⟨hnd, hkc⟩ := hI.canonical (by rw [hk]; decide)
    have hkc' : ∀ kv ∈ L.terms, SSorted kv.1 ∧ kv.1.length ≤ 2 :=
      fun kv hkv => ⟨(hkc kv hkv).1, (hkc kv hkv).2 (by rw [hk]; rfl)⟩
    intro r hr x hcons
    obtain ⟨s, hg, hst, hv, hb⟩ := annealQuso_value_bound src L P rs N L.terms _ h hd hnd hkc'
      (fun h0 => keys_nil_of_no_vars hI (hN0 h0)) hinit r hr
    rw [hv]
    apply eval_congr
    intro kv hkv i hi
    exact (cons_range hg.1 (hst ▸ hcons) i (hb kv hkv i hi)).symm

/-- **`QUSOMatrix` / `PUSOMatrix` through `anneal_puso`** -/
theorem annealPuso_matrix {ρ : Type} (src : Src ρ Rat) (H : Obj) (P : Params ρ Rat) (rs : List Res)
    (hk : H.kind = .qusom ∨ H.kind = .pusom) (hI : ObjInv H) (h : Anneal.annealPuso (ratCfg src) H P = .ok rs)
    (hinit : ∀ d, P.init = some d → ∀ p ∈ d, p.2 = 1 ∨ p.2 = -1) :
    ∀ r ∈ rs, ∀ x : Var → Rat, (∀ p ∈ r.state, x p.1 = p.2) → r.value = eval x H.terms := by
  have h' := h
  unfold Anneal.annealPuso at h'
  simp only [bind_ok_iff] at h'
  obtain ⟨pr, hp, hm⟩ := h'
  rcases prep_cases _ _ _ _ hp with ⟨hle, rfl⟩ | ⟨_, Ts, N, model, rev, _, hd, _⟩
  · injection hm with hm; subst hm; intro r hr; cases hr
  · obtain ⟨e1, e2, hN0⟩ := dispatch_matrix_puso H hk N model rev hd
    subst e1; subst e2
    obtain ⟨hnd, _⟩ := hI.canonical (by rcases hk with h | h <;> rw [h] <;> decide)
    intro r hr x hcons
    obtain ⟨s, hg, hst, hv, hb⟩ := annealPuso_value_bound src H P rs N H.terms _ h hd hnd
      (fun h0 => keys_nil_of_no_vars hI (hN0 h0)) hinit r hr
    rw [hv]
    apply eval_congr
    intro kv hkv i hi
    exact (cons_range hg.1 (hst ▸ hcons) i (hb kv hkv i hi)).symm

/-! ## the conversions of the boolean front ends, as the term-level conversions of `Qv.Model.Convert` -/

theorem genKV_eq : ∀ k : Key, genKV k = genB2S k
  | [] => rfl
  | a :: k => by simp [genKV, genB2S, genKV_eq k]

theorem quboToQuso_fold (κ κt : Kind) : ∀ (items : Poly) (L0 L : Obj), ObjInv L0 → L0.kind = κt →
    items.foldlM (fun (L : Obj) (kv : Key × Rat) => do
      let k ← srcSquashQubo κ kv.1
      let v := kv.2
      match k with
      | [] => L.iadd k v
      | [_] => do
        let L ← L.iadd k (-(v / 2))
        L.iadd [] (v / 2)
      | [i, j] => do
        let L ← L.iadd k (v / 4)
        let L ← L.iadd [i] (-(v / 4))
        let L ← L.iadd [j] (-(v / 4))
        L.iadd [] (v / 4)
      | _ => .error .value) L0 = .ok L →
    ObjInv L ∧ L.kind = κt ∧ closedLoop quboToQusoTerm (srcSquashQubo κ) (squash κt) L0.terms items = .ok L.terms
  | [], L0, L, hI, hk, h => by
    simp only [List.foldlM_nil, pure, Except.pure] at h
    injection h with h; subst h
    exact ⟨hI, hk, rfl⟩
  | (kp, v) :: rest, L0, L, hI, hk, h => by
    simp only [List.foldlM_cons, bind_ok_iff] at h
    obtain ⟨L1, ⟨k, hsq, hstep⟩, h⟩ := h
    have key : ObjInv L1 ∧ L1.kind = κt ∧ quboToQusoTerm (squash κt) L0.terms k v = .ok L1.terms := by
      match k, hstep with
      | [], hstep =>
        obtain ⟨i1, k1, a1⟩ := iadd_inv hI hstep
        exact ⟨i1, k1.trans hk, by rw [← hk]; exact a1⟩
      | [a], hstep =>
        simp only [bind_ok_iff] at hstep
        obtain ⟨M1, hs1, hs2⟩ := hstep
        obtain ⟨i1, k1, a1⟩ := iadd_inv hI hs1
        obtain ⟨i2, k2, a2⟩ := iadd_inv i1 hs2
        rw [k1, hk] at a2; rw [hk] at a1
        exact ⟨i2, by rw [k2, k1, hk], by simp only [quboToQusoTerm, bind_ok_iff]; exact ⟨_, a1, a2⟩⟩
      | [a, b], hstep =>
        simp only [bind_ok_iff] at hstep
        obtain ⟨M1, hs1, M2, hs2, M3, hs3, hs4⟩ := hstep
        obtain ⟨i1, k1, a1⟩ := iadd_inv hI hs1
        obtain ⟨i2, k2, a2⟩ := iadd_inv i1 hs2
        obtain ⟨i3, k3, a3⟩ := iadd_inv i2 hs3
        obtain ⟨i4, k4, a4⟩ := iadd_inv i3 hs4
        rw [hk] at a1; rw [k1, hk] at a2; rw [k2, k1, hk] at a3; rw [k3, k2, k1, hk] at a4
        exact ⟨i4, by rw [k4, k3, k2, k1, hk],
          by simp only [quboToQusoTerm, bind_ok_iff]; exact ⟨_, a1, _, a2, _, a3, a4⟩⟩
      | _ :: _ :: _ :: _, hstep => cases hstep
    obtain ⟨i1, k1, t1⟩ := key
    obtain ⟨iL, kL, tL⟩ := quboToQuso_fold κ κt rest L1 L i1 k1 h
    refine ⟨iL, kL, ?_⟩
    simp only [closedLoop, bind_ok_iff]
    exact ⟨k, hsq, L1.terms, t1, tL⟩

theorem quboToQuso_spec (Q L : Obj) (h : Anneal.quboToQuso Q = .ok L) :
    ObjInv L ∧ L.kind = kindQuboToQuso Q.kind ∧ Qv.quboToQuso Q.kind Q.terms = .ok L.terms := by
  unfold Anneal.quboToQuso at h
  exact quboToQuso_fold Q.kind (kindQuboToQuso Q.kind) Q.terms _ L (objInv_empty _) rfl h

theorem addGen_fold (κt : Kind) (v : Rat) : ∀ (g : List (Key × Rat)) (H0 H : Obj), ObjInv H0 → H0.kind = κt →
    g.foldlM (fun (H : Obj) (kv' : Key × Rat) => H.iadd kv'.1 (kv'.2 * v)) H0 = .ok H →
    ObjInv H ∧ H.kind = κt ∧ addGen (squash κt) H0.terms g v = .ok H.terms
  | [], H0, H, hI, hk, h => by
    simp only [List.foldlM_nil, pure, Except.pure] at h
    injection h with h; subst h
    exact ⟨hI, hk, rfl⟩
  | (key, value) :: g, H0, H, hI, hk, h => by
    simp only [List.foldlM_cons, bind_ok_iff] at h
    obtain ⟨H1, hs, h⟩ := h
    obtain ⟨i1, k1, a1⟩ := iadd_inv hI hs
    rw [hk] at a1
    obtain ⟨iH, kH, tH⟩ := addGen_fold κt v g H1 H i1 (k1.trans hk) h
    refine ⟨iH, kH, ?_⟩
    simp only [addGen, bind_ok_iff]
    exact ⟨H1.terms, a1, tH⟩

theorem puboToPuso_fold (κt : Kind) : ∀ (items : Poly) (H0 H : Obj), ObjInv H0 → H0.kind = κt →
    items.foldlM (fun (H : Obj) (kv : Key × Rat) =>
      (genKV kv.1).foldlM (fun (H : Obj) (kv' : Key × Rat) => H.iadd kv'.1 (kv'.2 * kv.2)) H) H0 = .ok H →
    ObjInv H ∧ H.kind = κt ∧ convLoop genB2S (squash κt) H0.terms items = .ok H.terms
  | [], H0, H, hI, hk, h => by
    simp only [List.foldlM_nil, pure, Except.pure] at h
    injection h with h; subst h
    exact ⟨hI, hk, rfl⟩
  | (k, v) :: rest, H0, H, hI, hk, h => by
    simp only [List.foldlM_cons, bind_ok_iff] at h
    obtain ⟨H1, hs, h⟩ := h
    obtain ⟨i1, k1, a1⟩ := addGen_fold κt v (genKV k) H0 H1 hI hk hs
    obtain ⟨iH, kH, tH⟩ := puboToPuso_fold κt rest H1 H i1 k1 h
    refine ⟨iH, kH, ?_⟩
    simp only [convLoop, bind_ok_iff]
    exact ⟨H1.terms, by rw [← genKV_eq]; exact a1, tH⟩

theorem puboToPuso_spec (Pm H : Obj) (h : Anneal.puboToPuso Pm = .ok H) :
    ObjInv H ∧ H.kind = kindPuboToPuso Pm.kind ∧ Qv.puboToPuso Pm.kind Pm.terms = .ok H.terms := by
  unfold Anneal.puboToPuso at h
  exact puboToPuso_fold (kindPuboToPuso Pm.kind) Pm.terms _ H (objInv_empty _) rfl h

/-! ## `to_boolean` on the states -/

theorem toBoolean_state : ∀ (st bst : List (Var × Int)),
    st.mapM (fun p => if p.2 = 1 then Except.ok (p.1, (0 : Int)) else if p.2 = -1 then Except.ok (p.1, (1 : Int))
      else Except.error Err.key) = .ok bst →
    ∀ q ∈ st, ∃ p ∈ bst, p.1 = q.1 ∧ ((q.2 = 1 ∧ p.2 = 0) ∨ (q.2 = -1 ∧ p.2 = 1))
  | [], bst, _ => by intro q hq; cases hq
  | a :: st, bst, h => by
    simp only [List.mapM_cons, bind_ok_iff, pure, Except.pure] at h
    obtain ⟨b, hb, bs, hbs, h⟩ := h
    injection h with h; subst h
    intro q hq
    rcases List.mem_cons.mp hq with rfl | hq
    · refine ⟨b, List.mem_cons_self, ?_⟩
      split at hb
      · rename_i h1; injection hb with hb; subst hb; exact ⟨rfl, Or.inl ⟨h1, rfl⟩⟩
      · split at hb
        · rename_i h1; injection hb with hb; subst hb; exact ⟨rfl, Or.inr ⟨h1, rfl⟩⟩
        · cases hb
    · obtain ⟨p, hp, hpq⟩ := toBoolean_state st bs hbs q hq
      exact ⟨p, List.mem_cons_of_mem _ hp, hpq⟩

/-- a boolean assignment agreeing with the boolean state gives a spin assignment agreeing with the spin state -/
theorem toBoolean_cons (rs bs : List Res) (h : toBoolean rs = .ok bs) :
    ∀ b ∈ bs, ∃ r ∈ rs, b.value = r.value ∧
      ∀ x : Var → Rat, (∀ p ∈ b.state, x p.1 = p.2) → ∀ q ∈ r.state, b2s x q.1 = q.2 := by
  unfold toBoolean at h
  obtain ⟨_, h2⟩ := mapM_ok _ rs bs h
  intro b hb
  obtain ⟨r, hr, hf⟩ := h2 b hb
  simp only [bind_ok_iff, pure, Except.pure] at hf
  obtain ⟨st, hst, hf⟩ := hf
  injection hf with hf; subst hf
  refine ⟨r, hr, rfl, ?_⟩
  intro x hx q hq
  obtain ⟨p, hp, hp1, hcase⟩ := toBoolean_state r.state st hst q hq
  have := hx p hp
  rw [hp1] at this
  rcases hcase with ⟨hq2, hp2⟩ | ⟨hq2, hp2⟩
  · simp [b2s, this, hp2, hq2]
  · simp [b2s, this, hp2, hq2]; norm_num

/-! ## objects built by a history of `self[k] += v` -/

theorem build_fold : ∀ (ops : Poly) (o0 o : Obj), ObjInv o0 →
    ops.foldlM (fun (o : Obj) (kv : Key × Rat) => o.iadd kv.1 kv.2) o0 = .ok o → ObjInv o ∧ o.kind = o0.kind
  | [], o0, o, hI, h => by
    simp only [List.foldlM_nil, pure, Except.pure] at h
    injection h with h; subst h; exact ⟨hI, rfl⟩
  | (k, v) :: ops, o0, o, hI, h => by
    simp only [List.foldlM_cons, bind_ok_iff] at h
    obtain ⟨o1, hs, h⟩ := h
    obtain ⟨i1, k1, _⟩ := iadd_inv hI hs
    obtain ⟨i2, k2⟩ := build_fold ops o1 o i1 h
    exact ⟨i2, k2.trans k1⟩

/-- `cls()` followed by any sequence of `self[k] += v` satisfies the bookkeeping invariant -/
theorem build_inv (κ : Kind) (ops : Poly) (o : Obj) (h : Obj.build κ ops = .ok o) : ObjInv o ∧ o.kind = κ :=
  build_fold ops _ o (objInv_empty κ) h

/-! ## inputs that `anneal_quso` / `anneal_puso` rebuild first (`QUSOMatrix(L)`, `QUSO(L)`, `PUSO(H)`) -/

theorem build_fold_terms : ∀ (ops : Poly) (o0 o : Obj), ObjInv o0 →
    ops.foldlM (fun (o : Obj) (kv : Key × Rat) => o.iadd kv.1 kv.2) o0 = .ok o →
    iaddD (squash o0.kind) o0.terms ops = .ok o.terms
  | [], o0, o, _, h => by
    simp only [List.foldlM_nil, pure, Except.pure] at h
    injection h with h; subst h; rfl
  | (k, v) :: ops, o0, o, hI, h => by
    simp only [List.foldlM_cons, bind_ok_iff] at h
    obtain ⟨o1, hs, h⟩ := h
    obtain ⟨i1, k1, a1⟩ := iadd_inv hI hs
    have := build_fold_terms ops o1 o i1 h
    rw [k1] at this
    simp only [iaddD, bind_ok_iff]
    exact ⟨o1.terms, a1, this⟩

/-- `cls(d)` has the value of `d` at every spin assignment (spin kinds) -/
theorem build_eval_spin (κ : Kind) (hκ : κ.isSpin = true) (ops : Poly) (o : Obj) (h : Obj.build κ ops = .ok o)
    (x : Var → Rat) (hx : IsSpin x) : eval x o.terms = eval x ops := by
  have := build_fold_terms ops _ o (objInv_empty κ) h
  exact eval_construct (sqOK_spin hκ hx) this

theorem prep_congr {ρ α : Type} (d : Obj → Except Err (Nat × Poly × List Var)) (L M : Obj) (P : Params ρ α)
    (h : d L = d M) : prep d L P = prep d M P := by
  unfold prep; rw [h]

/-- for every kind other than `QUSOMatrix` / `QUSO`, `anneal_quso` works on a rebuilt object:
`QUSOMatrix(L)` for a `PUSOMatrix`, `QUSO(L)` otherwise (dict, `PUSO`, `PCSO`, …) -/
theorem annealQuso_rebuilt {ρ α : Type} [Add α] [Mul α] [OfInt α] (cfg : Cfg ρ α) (L : Obj) (P : Params ρ α)
    (hk : L.kind ≠ .qusom ∧ L.kind ≠ .quso) (N : Nat) (model : Poly) (rev : List Var)
    (hd : dispatchQuso L = .ok (N, model, rev)) :
    ∃ M, Obj.build (if L.kind = .pusom then .qusom else .quso) L.terms = .ok M ∧
      Anneal.annealQuso cfg L P = Anneal.annealQuso cfg M P := by
  by_cases hp : L.kind = .pusom
  · obtain ⟨M, hb, hc⟩ := dispatch_pusom_quso L hp N model rev hd
    refine ⟨M, by rw [if_pos hp]; exact hb, ?_⟩
    have hM : M.kind = .qusom := (build_inv .qusom L.terms M hb).2
    have e : dispatchQuso L = dispatchQuso M := by
      rw [hd, dispatchQuso_not_pusom M (by rw [hM]; decide), hc]
    unfold Anneal.annealQuso
    rw [prep_congr dispatchQuso L M P e]
  · rw [dispatchQuso_not_pusom L hp] at hd
    have hd0 := hd
    unfold dispatchQusoCore at hd
    rw [if_neg hk.1, if_neg hk.2] at hd
    simp only [bind_ok_iff] at hd
    obtain ⟨M, hb, _⟩ := hd
    refine ⟨M, by rw [if_neg hp]; exact hb, ?_⟩
    have hM : M.kind = .quso := (build_inv .quso L.terms M hb).2
    have e : dispatchQuso L = dispatchQuso M := by
      rw [dispatchQuso_not_pusom L hp, dispatchQuso_not_pusom M (by rw [hM]; decide)]
      unfold dispatchQusoCore
      rw [if_neg hk.1, if_neg hk.2, hb, if_neg (by rw [hM]; decide), if_pos hM]
      rfl
    unfold Anneal.annealQuso
    rw [prep_congr dispatchQuso L M P e]

/-- `anneal_puso` on anything but the five spin types works on `PUSO(H)` -/
theorem annealPuso_rebuilt {ρ α : Type} [Add α] [Mul α] [OfInt α] (cfg : Cfg ρ α) (H : Obj) (P : Params ρ α)
    (hk : ¬ (H.kind = .qusom ∨ H.kind = .pusom) ∧ ¬ (H.kind = .quso ∨ H.kind = .puso ∨ H.kind = .pcso))
    (N : Nat) (model : Poly) (rev : List Var) (hd : dispatchPuso H = .ok (N, model, rev)) :
    ∃ M, Obj.build .puso H.terms = .ok M ∧ Anneal.annealPuso cfg H P = Anneal.annealPuso cfg M P := by
  have hd0 := hd
  unfold dispatchPuso at hd
  rw [if_neg hk.1, if_neg hk.2] at hd
  simp only [bind_ok_iff] at hd
  obtain ⟨M, hb, _⟩ := hd
  refine ⟨M, hb, ?_⟩
  have hM : M.kind = .puso := (build_inv .puso H.terms M hb).2
  have e : dispatchPuso H = dispatchPuso M := by
    unfold dispatchPuso
    rw [if_neg hk.1, if_neg hk.2, hb, if_neg (by rw [hM]; decide), if_pos (Or.inr (Or.inl hM))]
    rfl
  unfold Anneal.annealPuso
  rw [prep_congr dispatchPuso H M P e]

end Qv.Anneal
