import Qv.Proofs.ProblemsJSGround3
/-!
# JobSequencing ground states, part 4: the ground-state theorems (G, DEF) for the closed energy form
-/
namespace Qv.Prob
open Qv

/-- **(G)** strict threshold `B > 0`, `A > B · maxL`, natural lengths, `Σ L ≤ M`, `m ≥ 1`: a ground state `x` of the
closed energy is one-hot, its energy is `B ·` its makespan (`load x w1`, the largest load), and no boolean one-hot `y`
has a smaller makespan. -/
theorem js_ground_states (p : JS) (A B : Rat) (hm : 1 ≤ p.m) (hB : 0 < B) (hA : B * p.maxL < A)
    (hN : p.NatLengths) (hF : p.Fits) (x : Var → Rat) (hx : IsBool x)
    (hg : ∀ x'', IsBool x'' → p.energy A B x ≤ p.energy A B x'') :
    p.OneHot x ∧ ∃ w1, w1 < p.m ∧ p.energy A B x = B * p.load x w1 ∧ (∀ w, w < p.m → p.load x w ≤ p.load x w1) ∧
      ∀ y, IsBool y → p.OneHot y → ∃ w', w' < p.m ∧ p.load x w1 ≤ p.load y w' := by
  have hB0 : 0 ≤ B := le_of_lt hB
  have hA' : B * p.maxL ≤ A := le_of_lt hA
  have hoh : p.OneHot x := by
    by_contra hno
    obtain ⟨y, hy, hyoh, hlb⟩ := js_LB p A B hm hB0 hA' hN x hx
    have hpen := js_pen_ge_one p hx hno
    obtain ⟨x', hx', _, w0, hw0, _, he, _, _⟩ := js_ENC p A B hm hN hF y hy hyoh
    have h1 := hlb w0 hw0
    have h2 := hg x' hx'
    rw [he] at h2
    have h3 : 0 < A - B * p.maxL := by linarith
    nlinarith
  obtain ⟨x', hx', _, w1, hw1, hmax, he, _, _⟩ := js_ENC p A B hm hN hF x hx hoh
  have hup := hg x' hx'
  rw [he] at hup
  have hlow := js_L1 p A B hB0 hA' hN x hx w1 hw1
  rw [js_pen_zero p hoh] at hlow
  have heq : p.energy A B x = B * p.load x w1 := by linarith
  refine ⟨hoh, w1, hw1, heq, hmax, fun y hy hyoh => ?_⟩
  obtain ⟨y', hy', _, w', hw', _, he', _, _⟩ := js_ENC p A B hm hN hF y hy hyoh
  have h1 := hg y' hy'
  rw [he', heq] at h1
  exact ⟨w', hw', le_of_mul_le_mul_left h1 hB⟩

/-- **(DEF)** weak threshold `B ≥ 0`, `A ≥ B · maxL` (the default `A = B · maxL` included): the encoding `x'` of an
optimal boolean one-hot `y` (no one-hot `y'` has a smaller makespan) is a ground state of the closed energy, and its
energy is `B ·` the makespan of `y`. -/
theorem js_default (p : JS) (A B : Rat) (hm : 1 ≤ p.m) (hB : 0 ≤ B) (hA : B * p.maxL ≤ A)
    (hN : p.NatLengths) (hF : p.Fits) (y : Var → Rat) (hy : IsBool y) (hoh : p.OneHot y)
    (hopt : ∀ y', IsBool y' → p.OneHot y' → ∃ w', w' < p.m ∧ ∀ w, w < p.m → p.load y w ≤ p.load y' w') :
    ∃ x', IsBool x' ∧ p.OneHot x' ∧ ∃ w0, w0 < p.m ∧ (∀ w, w < p.m → p.load y w ≤ p.load y w0) ∧
      p.energy A B x' = B * p.load y w0 ∧ p.load x' 0 = p.load y w0 ∧ (∀ w, w < p.m → p.load x' w ≤ p.load y w0) ∧
      ∀ x'', IsBool x'' → p.energy A B x' ≤ p.energy A B x'' := by
  obtain ⟨x', hx', hxoh, w0, hw0, hmax, he, hl0, hlw⟩ := js_ENC p A B hm hN hF y hy hoh
  refine ⟨x', hx', hxoh, w0, hw0, hmax, he, hl0, hlw, fun x'' hx'' => ?_⟩
  obtain ⟨y'', hy'', hyoh'', hlb⟩ := js_LB p A B hm hB hA hN x'' hx''
  obtain ⟨w', hw', hle⟩ := hopt y'' hy'' hyoh''
  have h1 := hlb w' hw'
  have h2 := hle w0 hw0
  have h3 := js_pen_nonneg p x''
  have h4 : 0 ≤ (A - B * p.maxL) * p.pen x'' := mul_nonneg (by linarith) h3
  have h5 := mul_le_mul_of_nonneg_left h2 hB
  rw [he]; linarith

/-- the ground energy under the weak threshold: every boolean point has energy at least `B ·` (the least makespan) -/
theorem js_energy_lower (p : JS) (A B : Rat) (hm : 1 ≤ p.m) (hB : 0 ≤ B) (hA : B * p.maxL ≤ A)
    (hN : p.NatLengths) (x : Var → Rat) (hx : IsBool x) :
    ∃ y, IsBool y ∧ p.OneHot y ∧ ∀ w, w < p.m → B * p.load y w ≤ p.energy A B x := by
  obtain ⟨y, hy, hyoh, hlb⟩ := js_LB p A B hm hB hA hN x hx
  refine ⟨y, hy, hyoh, fun w hw => ?_⟩
  have h1 := hlb w hw
  have h4 : 0 ≤ (A - B * p.maxL) * p.pen x := mul_nonneg (by linarith) (js_pen_nonneg p x)
  linarith

end Qv.Prob
