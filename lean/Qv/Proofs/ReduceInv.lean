import Qv.Proofs.ReduceSpec
/-!
# C01: the invariant on `red` (T1.1), the consistent extension (T1.3), degree and labels of `D` (T1.6)
-/
namespace Qv.Reduce
open Qv

/-- `omega` after unfolding the abbreviation `Var := Nat` (which `omega` does not see through) -/
macro "vomega" : tactic => `(tactic| ((try unfold Var at *); omega))

/-- T1.1: the ancillas are exactly the labels `n .. next-1`, one per reduction, created in increasing order,
each larger than the two labels it stands for -/
structure Inv (n : Nat) (st : RSt) : Prop where
  next_eq : st.next = n + st.red.length
  ents : ∀ e ∈ st.red, (e.1.1 : Nat) < e.2 ∧ (e.1.2 : Nat) < e.2 ∧ n ≤ e.2 ∧ (e.2 : Nat) < st.next
  incr : (st.red.map (fun e => (e.2 : Nat))).Pairwise (· < ·)

def KeyLt (b : Nat) (key : Key) : Prop := ∀ i ∈ key, (i : Nat) < b

theorem mem_remove2 {key : Key} {x y i : Var} (h : i ∈ remove2 key x y) : i ∈ key :=
  (List.mem_filter.mp h).1

theorem mem_insertU {a i : Var} {l : Key} (h : i ∈ insertU a l) : i = a ∨ i ∈ l := by
  induction l with
  | nil => simpa [insertU] using h
  | cons b bs ih =>
    unfold insertU at h
    split at h
    · simpa using h
    · split at h
      · exact Or.inr h
      · rcases List.mem_cons.mp h with rfl | h
        · exact Or.inr (List.mem_cons_self)
        · rcases ih h with h | h
          · exact Or.inl h
          · exact Or.inr (List.mem_cons_of_mem _ h)

theorem specStep_inv {n : Nat} {lam : Rat} {st st' : RSt} {key key' : Key} {s : Step}
    (hI : Inv n st) (hk : KeyLt st.next key) (h : specStep lam st key s = .ok (st', key')) :
    Inv n st' ∧ KeyLt st'.next key' ∧ st.next ≤ st'.next ∧
      (s.x : Nat) < st'.next ∧ (s.y : Nat) < st'.next ∧ (s.z : Nat) < st'.next := by
  obtain ⟨_, hx, hy, hkey, _, h6⟩ := specStep_ok h
  have hxlt := hk _ hx
  have hylt := hk _ hy
  rcases h6 with ⟨_, hz, hn, hr⟩ | ⟨_, hm, hn, hr⟩
  · have hzn : (s.z : Nat) = st.next := hz
    refine ⟨⟨?_, ?_, ?_⟩, ?_, ?_, ?_, ?_, ?_⟩
    · rw [hn, hr, List.length_append, hI.next_eq]; simp; vomega
    · intro e he
      rw [hr] at he
      rw [hn]
      rcases List.mem_append.mp he with he | he
      · obtain ⟨a, b, c, d⟩ := hI.ents e he
        exact ⟨a, b, c, Nat.lt_succ_of_lt d⟩
      · have : e = ((s.x, s.y), s.z) := by simpa using he
        subst this
        have := hI.next_eq
        refine ⟨?_, ?_, ?_, ?_⟩ <;> simp only [] <;> vomega
    · rw [hr, List.map_append, List.pairwise_append]
      refine ⟨hI.incr, by simp, ?_⟩
      intro a ha b hb
      have hb : b = s.z := by simpa using hb
      obtain ⟨e, he, rfl⟩ := List.mem_map.mp ha
      have := (hI.ents e he).2.2.2
      vomega
    · intro i hi
      rw [hkey] at hi
      rw [hn]
      rcases mem_insertU hi with rfl | hi
      · vomega
      · exact Nat.lt_succ_of_lt (hk i (mem_remove2 hi))
    · vomega
    · vomega
    · vomega
    · vomega
  · have hzlt := (hI.ents _ hm).2.2.2
    refine ⟨⟨?_, ?_, ?_⟩, ?_, ?_, ?_, ?_, ?_⟩
    · rw [hn, hr]; exact hI.next_eq
    · rw [hn, hr]; exact hI.ents
    · rw [hr]; exact hI.incr
    · intro i hi
      rw [hkey] at hi
      rw [hn]
      rcases mem_insertU hi with rfl | hi
      · exact hzlt
      · exact hk i (mem_remove2 hi)
    · vomega
    · vomega
    · vomega
    · simpa [hn] using hzlt

theorem specSteps_inv {n : Nat} {lam : Rat} {steps : List Step} {st st' : RSt} {key key' : Key}
    (hI : Inv n st) (hk : KeyLt st.next key) (h : specSteps lam st key steps = .ok (st', key')) :
    Inv n st' ∧ KeyLt st'.next key' ∧ st.next ≤ st'.next := by
  induction steps generalizing st key with
  | nil =>
    simp only [specSteps] at h; injection h with h; injection h with h1 h2; subst h1 h2
    exact ⟨hI, hk, Nat.le_refl _⟩
  | cons s r ih =>
    obtain ⟨st1, key1, h1, h2⟩ := specSteps_cons h
    obtain ⟨a, b, c, _⟩ := specStep_inv hI hk h1
    obtain ⟨a', b', c'⟩ := ih a b h2
    exact ⟨a', b', Nat.le_trans c c'⟩

theorem specTerm_inv {n deg : Nat} {st st' : RSt} {c : TermCert} (hI : Inv n st)
    (h : specTerm n deg st c = .ok st') : Inv n st' ∧ st.next ≤ st'.next := by
  obtain ⟨st1, key1, hlab, _, hs, _, _, rfl⟩ := specTerm_ok h
  have hk : KeyLt st.next c.key := fun i hi => by
    have := hlab i hi; have := hI.next_eq; vomega
  obtain ⟨a, _, c'⟩ := specSteps_inv hI hk hs
  exact ⟨⟨a.next_eq, a.ents, a.incr⟩, c'⟩

theorem specTerms_inv {n deg : Nat} {certs : List TermCert} {st st' : RSt} (hI : Inv n st)
    (h : specTerms n deg st certs = .ok st') : Inv n st' := by
  induction certs generalizing st with
  | nil => simp only [specTerms] at h; injection h with h; subst h; exact hI
  | cons c r ih =>
    obtain ⟨st1, h1, h2⟩ := specTerms_cons h
    exact ih (specTerm_inv hI h1).1 h2

theorem inv_init (n : Nat) : Inv n { next := n, red := [], D := [] } :=
  ⟨by simp, by simp, by simp⟩

/-! ### the consistent extension (T1.3) -/

def upd (s : Var → Rat) (z : Var) (v : Rat) : Var → Rat := fun i => if i = z then v else s i

/-- set every ancilla to the product of its pair, in creation order -/
def ext : Reds → (Var → Rat) → (Var → Rat)
  | [], s => s
  | e :: r, s => ext r (upd s e.2 (s e.1.1 * s e.1.2))

theorem ext_not_mem {r : Reds} {s : Var → Rat} {w : Var} (h : ∀ e ∈ r, e.2 ≠ w) : ext r s w = s w := by
  induction r generalizing s with
  | nil => rfl
  | cons e r ih =>
    simp only [ext]
    rw [ih (fun e' he' => h e' (List.mem_cons_of_mem _ he'))]
    have : w ≠ e.2 := fun hw => h e (List.mem_cons_self) hw.symm
    simp [upd, this]

theorem upd_bool {s : Var → Rat} (hs : IsBool s) (z a b : Var) : IsBool (upd s z (s a * s b)) := by
  intro i
  unfold upd
  split
  · rcases hs a with h | h <;> rcases hs b with h2 | h2 <;> simp [h, h2]
  · exact hs i

theorem ext_bool {r : Reds} {s : Var → Rat} (hs : IsBool s) : IsBool (ext r s) := by
  induction r generalizing s with
  | nil => exact hs
  | cons e r ih => exact ih (upd_bool hs _ _ _)

theorem ext_consistent {r : Reds} (s : Var → Rat)
    (hincr : (r.map (fun e => (e.2 : Nat))).Pairwise (· < ·))
    (hlt : ∀ e ∈ r, (e.1.1 : Nat) < e.2 ∧ (e.1.2 : Nat) < e.2) : ConsOn (ext r s) r := by
  induction r generalizing s with
  | nil => intro e he; cases he
  | cons e r ih =>
    rw [List.map_cons, List.pairwise_cons] at hincr
    obtain ⟨hhead, htail⟩ := hincr
    have hgt : ∀ e' ∈ r, (e.2 : Nat) < e'.2 := fun e' he' => hhead _ (List.mem_map.mpr ⟨e', he', rfl⟩)
    obtain ⟨ha, hb⟩ := hlt e (List.mem_cons_self)
    intro e0 he0
    rcases List.mem_cons.mp he0 with rfl | he0
    · simp only [ext]
      have h1 : ∀ e' ∈ r, e'.2 ≠ e0.2 := fun e' he' hh => by have := hgt e' he'; vomega
      have h2 : ∀ e' ∈ r, e'.2 ≠ e0.1.1 := fun e' he' hh => by have := hgt e' he'; vomega
      have h3 : ∀ e' ∈ r, e'.2 ≠ e0.1.2 := fun e' he' hh => by have := hgt e' he'; vomega
      rw [ext_not_mem h1, ext_not_mem h2, ext_not_mem h3]
      have na : e0.1.1 ≠ e0.2 := by vomega
      have nb : e0.1.2 ≠ e0.2 := by vomega
      simp [upd, na, nb]
    · simp only [ext]
      exact ih _ htail (fun e' he' => hlt e' (List.mem_cons_of_mem _ he')) e0 he0

/-! ### keys of `D` (T1.6) -/

def AllKeys (P : Key → Prop) (p : Poly) : Prop := ∀ kv ∈ p, P kv.1

theorem allKeys_set {P : Key → Prop} {p : Poly} (h : AllKeys P p) {k : Key} (hk : P k) (v : Rat) :
    AllKeys P (set p k v) := by
  intro kv hkv
  unfold set at hkv
  split at hkv
  · exact h kv (mem_erase_sub p k kv hkv)
  · rcases mem_put p k _ kv hkv with rfl | h'
    · exact hk
    · exact h kv h'

theorem allKeys_addTermB {P : Key → Prop} {p : Poly} (h : AllKeys P p) {k : Key} (hk : P (squashB k))
    (v : Rat) : AllKeys P (addTermB p k v) := allKeys_set h hk _

theorem allKeys_iaddB {P : Key → Prop} {q p : Poly} (h : AllKeys P p)
    (hq : ∀ kv ∈ q, P (squashB kv.1)) : AllKeys P (iaddB p q) := by
  unfold iaddB
  induction q generalizing p with
  | nil => exact h
  | cons kv r ih =>
    simp only [List.foldl_cons]
    exact ih (allKeys_addTermB h (hq kv (List.mem_cons_self)) _)
      (fun kv' h' => hq kv' (List.mem_cons_of_mem _ h'))

theorem allKeys_scaleB_aux {P : Key → Prop} (c : Rat) {q acc : Poly} (h : AllKeys P acc)
    (hq : ∀ kv ∈ q, P (squashB kv.1)) :
    AllKeys P (q.foldl (fun acc kv => addTermB acc kv.1 (c * kv.2)) acc) := by
  induction q generalizing acc with
  | nil => exact h
  | cons kv r ih =>
    simp only [List.foldl_cons]
    exact ih (allKeys_addTermB h (hq kv (List.mem_cons_self)) _)
      (fun kv' h' => hq kv' (List.mem_cons_of_mem _ h'))

theorem allKeys_nil (P : Key → Prop) : AllKeys P [] := fun _ h => by cases h

theorem mem_squashB {i : Var} {k : Key} (h : i ∈ squashB k) : i ∈ k := by
  induction k with
  | nil => simpa [squashB] using h
  | cons a k ih =>
    have h : i ∈ insertU a (squashB k) := h
    rcases mem_insertU h with rfl | h
    · exact List.mem_cons_self
    · exact List.mem_cons_of_mem _ (ih h)

theorem length_insertU_le (a : Var) (l : Key) : (insertU a l).length ≤ l.length + 1 := by
  induction l with
  | nil => simp [insertU]
  | cons b bs ih =>
    unfold insertU
    split
    · simp
    · split
      · simp
      · simp only [List.length_cons]; vomega

theorem length_squashB_le (k : Key) : (squashB k).length ≤ k.length := by
  induction k with
  | nil => simp [squashB]
  | cons a k ih =>
    have : squashB (a :: k) = insertU a (squashB k) := rfl
    rw [this]
    have := length_insertU_le a (squashB k)
    simp only [List.length_cons]; vomega

/-- keys with at most `deg` labels, all below `b` -/
def KeyOK (deg b : Nat) (k : Key) : Prop := k.length ≤ deg ∧ ∀ i ∈ k, (i : Nat) < b

theorem keyOK_squashB {deg b : Nat} {k : Key} (h : KeyOK deg b k) : KeyOK deg b (squashB k) :=
  ⟨Nat.le_trans (length_squashB_le k) h.1, fun i hi => h.2 i (mem_squashB hi)⟩

theorem keyOK_mono {deg b b' : Nat} (hb : b ≤ b') {k : Key} (h : KeyOK deg b k) : KeyOK deg b' k :=
  ⟨h.1, fun i hi => Nat.lt_of_lt_of_le (h.2 i hi) hb⟩

theorem allKeys_gadget {deg b : Nat} (hd : 2 ≤ deg) {x y z : Var} (hx : (x : Nat) < b) (hy : (y : Nat) < b)
    (hz : (z : Nat) < b) : AllKeys (KeyOK deg b) (gadget z x y) := by
  unfold gadget
  simp only [List.foldl_cons, List.foldl_nil]
  have ok : ∀ k : Key, k.length ≤ 2 → (∀ i ∈ k, i = x ∨ i = y ∨ i = z) → KeyOK deg b (squashB k) := by
    intro k hl hm
    refine keyOK_squashB ⟨Nat.le_trans hl hd, fun i hi => ?_⟩
    rcases hm i hi with rfl | rfl | rfl <;> assumption
  refine allKeys_addTermB (allKeys_addTermB (allKeys_addTermB (allKeys_addTermB (allKeys_nil _)
    (ok _ ?_ ?_) _) (ok _ ?_ ?_) _) (ok _ ?_ ?_) _) (ok _ ?_ ?_) _ <;> simp

theorem allKeys_addGadget {deg b : Nat} (hd : 2 ≤ deg) {D : Poly} (h : AllKeys (KeyOK deg b) D) (lam : Rat)
    {x y z : Var} (hx : (x : Nat) < b) (hy : (y : Nat) < b) (hz : (z : Nat) < b) :
    AllKeys (KeyOK deg b) (addGadget D lam x y z) := by
  unfold addGadget
  split
  · exact h
  · have g := allKeys_gadget hd hx hy hz
    have g1 : AllKeys (KeyOK deg b) (scaleB lam (gadget z x y)) :=
      allKeys_scaleB_aux lam (allKeys_nil _) (fun kv hkv => keyOK_squashB (g kv hkv))
    have g2 : AllKeys (KeyOK deg b) (iaddB [] (scaleB lam (gadget z x y))) :=
      allKeys_iaddB (allKeys_nil _) (fun kv hkv => keyOK_squashB (g1 kv hkv))
    exact allKeys_iaddB h (fun kv hkv => keyOK_squashB (g2 kv hkv))

theorem allKeys_mono {deg b b' : Nat} (hb : b ≤ b') {D : Poly} (h : AllKeys (KeyOK deg b) D) :
    AllKeys (KeyOK deg b') D := fun kv hkv => keyOK_mono hb (h kv hkv)

theorem specStep_keys {n deg : Nat} (hd : 2 ≤ deg) {lam : Rat} {st st' : RSt} {key key' : Key} {s : Step}
    (hI : Inv n st) (hk : KeyLt st.next key) (hD : AllKeys (KeyOK deg st.next) st.D)
    (h : specStep lam st key s = .ok (st', key')) : AllKeys (KeyOK deg st'.next) st'.D := by
  obtain ⟨_, _, hle, hx, hy, hz⟩ := specStep_inv hI hk h
  obtain ⟨_, _, _, _, hDeq, _⟩ := specStep_ok h
  rw [hDeq]
  exact allKeys_addGadget hd (allKeys_mono hle hD) lam hx hy hz

theorem specSteps_keys {n deg : Nat} {lam : Rat} {steps : List Step} (hd : steps ≠ [] → 2 ≤ deg)
    {st st' : RSt} {key key' : Key}
    (hI : Inv n st) (hk : KeyLt st.next key) (hD : AllKeys (KeyOK deg st.next) st.D)
    (h : specSteps lam st key steps = .ok (st', key')) : AllKeys (KeyOK deg st'.next) st'.D := by
  induction steps generalizing st key with
  | nil => simp only [specSteps] at h; injection h with h; injection h with h1 h2; subst h1 h2; exact hD
  | cons s r ih =>
    obtain ⟨st1, key1, h1, h2⟩ := specSteps_cons h
    have hd2 : 2 ≤ deg := hd (by simp)
    obtain ⟨a, b, _⟩ := specStep_inv hI hk h1
    exact ih (fun _ => hd2) a b (specStep_keys hd2 hI hk hD h1) h2

theorem specTerm_keys {n deg : Nat} {st st' : RSt} {c : TermCert} (hI : Inv n st)
    (hD : AllKeys (KeyOK deg st.next) st.D) (h : specTerm n deg st c = .ok st') :
    AllKeys (KeyOK deg st'.next) st'.D := by
  obtain ⟨st1, key1, hlab, hd, hs, hf, hlen, rfl⟩ := specTerm_ok h
  have hk : KeyLt st.next c.key := fun i hi => by
    have := hlab i hi; have := hI.next_eq; vomega
  obtain ⟨_, hk1, _⟩ := specSteps_inv hI hk hs
  have hD1 := specSteps_keys hd hI hk hD hs
  refine allKeys_addTermB hD1 ⟨Nat.le_trans (length_squashB_le _) hlen, fun i hi => ?_⟩ _
  rw [hf] at hi
  exact hk1 i (mem_squashB hi)

theorem specTerms_keys {n deg : Nat} {certs : List TermCert} {st st' : RSt} (hI : Inv n st)
    (hD : AllKeys (KeyOK deg st.next) st.D) (h : specTerms n deg st certs = .ok st') :
    AllKeys (KeyOK deg st'.next) st'.D := by
  induction certs generalizing st with
  | nil => simp only [specTerms] at h; injection h with h; subst h; exact hD
  | cons c r ih =>
    obtain ⟨st1, h1, h2⟩ := specTerms_cons h
    exact ih (specTerm_inv hI h1).1 (specTerm_keys hI hD h1) h2

/-- labels of the reduced polynomial are below `n` -/
theorem certTerms_labels {n deg : Nat} {certs : List TermCert} {st st' : RSt}
    (h : specTerms n deg st certs = .ok st') : ∀ kv ∈ certTerms certs, ∀ i ∈ kv.1, (i : Nat) < n := by
  induction certs generalizing st with
  | nil => intro kv hkv; cases hkv
  | cons c r ih =>
    obtain ⟨st1, h1, h2⟩ := specTerms_cons h
    obtain ⟨_, _, hlab, _⟩ := specTerm_ok h1
    intro kv hkv
    simp only [certTerms, List.map_cons] at hkv
    rcases List.mem_cons.mp hkv with rfl | hkv
    · exact hlab
    · exact ih h2 kv hkv

end Qv.Reduce
