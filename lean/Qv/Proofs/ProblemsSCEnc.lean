import Qv.Proofs.ProblemsSCGround
/-!
# SetCover: the assignment that encodes a cover (decision bits + counter registers) has energy `B · weight`

`SC.enc c` keeps the `N` decision bits of `c` and writes into the counter register of the element with index `ia` the
number `k` of chosen sets that contain it: unary counter — the single bit `m = k`; binary counter (`log_trick`) — the
binary digits of `k - 1`.  When every element is hit and `k` fits into the register (`SC.Fits`) all penalties vanish.
-/
namespace Qv.Prob
open Qv

theorem sumMap_append {α : Type} (l r : List α) (f : α → Rat) : sumMap (l ++ r) f = sumMap l f + sumMap r f := by
  induction l with
  | nil => simp [sumMap]
  | cons a s ih => simp only [List.cons_append, sumMap, ih]; ring

theorem sumMap_map {α β : Type} (l : List α) (g : α → β) (f : β → Rat) : sumMap (l.map g) f = sumMap l (fun a => f (g a)) := by
  induction l with
  | nil => rfl
  | cons a s ih => simp only [List.map_cons, sumMap, ih]

/-- a sum with a single non-zero summand -/
theorem sumMap_range_single (M k : Nat) (hk : k < M) (h : Nat → Rat) :
    sumMap (List.range M) (fun j => if j = k then h j else 0) = h k := by
  induction M with
  | zero => omega
  | succ M ih =>
    rw [List.range_succ, sumMap_append]
    simp only [sumMap]
    by_cases hkM : k = M
    · subst hkM
      have : sumMap (List.range k) (fun j => if j = k then h j else 0) = 0 :=
        sumMap_zero _ _ (fun j hj => by
          have : j < k := List.mem_range.mp hj
          simp [Nat.ne_of_lt this])
      rw [this]; simp
    · rw [ih (by omega)]
      simp [Ne.symm hkM]

/-- binary digits: `Σ_{m<K} 2^m · digit_m(v) = v mod 2^K` -/
theorem sumMap_bits (K v : Nat) :
    sumMap (List.range K) (fun m => (2 : Rat) ^ m * (((v / 2 ^ m % 2 : Nat)) : Rat)) = ((v % 2 ^ K : Nat) : Rat) := by
  induction K with
  | zero => simp [sumMap, Nat.mod_one]
  | succ K ih =>
    rw [List.range_succ, sumMap_append, ih]
    simp only [sumMap]
    rw [Nat.mod_pow_succ]
    push_cast
    ring

theorem dotFrom_congr {x y : Var → Rat} (ws : List Rat) (off : Nat)
    (h : ∀ i, off ≤ i → i < off + ws.length → x i = y i) : dotFrom x ws off = dotFrom y ws off := by
  induction ws generalizing off with
  | nil => rfl
  | cons a r ih =>
    simp only [dotFrom]
    rw [h off (Nat.le_refl _) (by simp), ih (off + 1) (fun i h1 h2 => h i (by omega) (by simp; omega))]

/-! ## the encoding -/

/-- number of chosen sets that contain `alpha` -/
def SC.cnt (p : SC) (c : Var → Rat) (alpha : Var) : Nat :=
  ((p.filtered alpha 0).filter (fun i => decide (c i = 1))).length

/-- largest value a counter register can hold: `M` (unary, bits `m = 1..M`) or `2^(log M + 1)` (binary,
`1 + Σ_{m ≤ log M} 2^m`) -/
def SC.Cap (p : SC) : Nat := if p.logTrick then 2 ^ (p.logM + 1) else p.M

/-- no element lies in more sets than its counter can count (true for the default `M`) -/
def SC.Fits (p : SC) : Prop := ∀ a ∈ p.U, (p.filtered a 0).length ≤ p.Cap

def SC.enc (p : SC) (c : Var → Rat) : Var → Rat := fun v =>
  if v < p.N then c v
  else if p.logTrick then
    (((p.cnt c (p.U.getD ((v - p.N) % p.n) 0) - 1) / 2 ^ ((v - p.N) / p.n) % 2 : Nat) : Rat)
  else if (v - p.N) / p.n + 1 = p.cnt c (p.U.getD ((v - p.N) % p.n) 0) then 1 else 0

theorem sc_isBool_enc (p : SC) {c : Var → Rat} (hc : IsBool c) : IsBool (p.enc c) := by
  intro v
  unfold SC.enc
  split
  · exact hc v
  · split
    · rcases Nat.mod_two_eq_zero_or_one ((p.cnt c (p.U.getD ((v - p.N) % p.n) 0) - 1) / 2 ^ ((v - p.N) / p.n)) with h | h
      · left; rw [h]; simp
      · right; rw [h]; simp
    · split
      · right; rfl
      · left; rfl

theorem sc_enc_dec (p : SC) (c : Var → Rat) {i : Nat} (hi : i < p.N) : p.enc c i = c i := by
  unfold SC.enc; simp [hi]

theorem sc_filtered_lt (p : SC) (a : Var) {i : Nat} (hi : i ∈ p.filtered a 0) : i < p.N := by
  unfold SC.filtered at hi
  exact List.mem_range.mp (List.mem_filter.mp hi).1

theorem sc_X_enc (p : SC) (c : Var → Rat) (a : Var) : p.X (p.enc c) a = p.X c a := by
  unfold SC.X
  exact sumMap_congr _ (fun i hi => sc_enc_dec p c (sc_filtered_lt p a hi))

theorem sc_hit_enc (p : SC) (c : Var → Rat) (a : Var) : p.Hit (p.enc c) a ↔ p.Hit c a := by
  unfold SC.Hit
  constructor
  · rintro ⟨i, hi, h⟩; exact ⟨i, hi, by rwa [sc_enc_dec p c (sc_filtered_lt p a hi)] at h⟩
  · rintro ⟨i, hi, h⟩; exact ⟨i, hi, by rwa [sc_enc_dec p c (sc_filtered_lt p a hi)]⟩

theorem sc_covers_enc (p : SC) (c : Var → Rat) : p.Covers (p.enc c) ↔ p.Covers c := by
  unfold SC.Covers
  exact ⟨fun h a ha => (sc_hit_enc p c a).mp (h a ha), fun h a ha => (sc_hit_enc p c a).mpr (h a ha)⟩

theorem sc_cost_enc (p : SC) (c : Var → Rat) (hwl : p.weights.length ≤ p.N) :
    dotFrom (p.enc c) p.weights 0 = dotFrom c p.weights 0 :=
  dotFrom_congr _ _ (fun i _ h => sc_enc_dec p c (by omega))

theorem sc_X_cnt (p : SC) {c : Var → Rat} (hc : IsBool c) (a : Var) : p.X c a = (p.cnt c a : Rat) :=
  sumMap_bool_count hc _

theorem sc_cnt_pos {p : SC} {c : Var → Rat} {a : Var} (h : p.Hit c a) : 1 ≤ p.cnt c a := by
  obtain ⟨i, hi, h1⟩ := h
  unfold SC.cnt
  exact List.length_pos_of_mem (List.mem_filter.mpr ⟨hi, by simpa using h1⟩)

theorem sc_cnt_le (p : SC) (c : Var → Rat) (a : Var) : p.cnt c a ≤ (p.filtered a 0).length :=
  List.length_filter_le _ _

/-- the counter bit `(ia, m)` of the encoding, binary counter -/
theorem sc_enc_x_log (p : SC) (hlog : p.logTrick = true) (c : Var → Rat) {ia : Nat} (hia : ia < p.n) (m : Nat) :
    p.enc c (p.x ia m) = (((p.cnt c (p.U.getD ia 0) - 1) / 2 ^ m % 2 : Nat) : Rat) := by
  have hn : 0 < p.n := by omega
  have e1 : p.x ia m - p.N = ia + p.n * m := by unfold SC.x; simp [hlog]; omega
  have e2 : ¬ p.x ia m < p.N := by unfold SC.x; omega
  unfold SC.enc
  simp only [e2, if_false, hlog, if_true, e1, Nat.add_mul_mod_self_left, Nat.mod_eq_of_lt hia,
    Nat.add_mul_div_left _ _ hn, Nat.div_eq_of_lt hia, Nat.zero_add]

/-- the counter bit `(ia, m)`, `m ≥ 1`, of the encoding, unary counter -/
theorem sc_enc_x_unary (p : SC) (hlog : p.logTrick = false) (c : Var → Rat) {ia : Nat} (hia : ia < p.n) (j : Nat) :
    p.enc c (p.x ia (j + 1)) = if j + 1 = p.cnt c (p.U.getD ia 0) then 1 else 0 := by
  have hn : 0 < p.n := by omega
  have e1 : p.x ia (j + 1) - p.N = ia + p.n * j := by unfold SC.x; simp [hlog]; omega
  have e2 : ¬ p.x ia (j + 1) < p.N := by unfold SC.x; omega
  unfold SC.enc
  simp only [e2, if_false, hlog, Bool.false_eq_true, e1, Nat.add_mul_mod_self_left, Nat.mod_eq_of_lt hia,
    Nat.add_mul_div_left _ _ hn, Nat.div_eq_of_lt hia, Nat.zero_add]

/-- unary register holding `k`: exactly one bit is set … -/
theorem unary_T (M k : Nat) (hk1 : 1 ≤ k) (hkM : k ≤ M) :
    sumMap (List.range M) (fun j => if j + 1 = k then (1 : Rat) else 0) = 1 := by
  have := sumMap_range_single M (k - 1) (by omega) (fun _ => (1 : Rat))
  refine Eq.trans (sumMap_congr _ (fun j _ => ?_)) this
  by_cases h : j + 1 = k
  · have h' : j = k - 1 := by omega
    rw [if_pos h, if_pos h']
  · have h' : ¬ j = k - 1 := by omega
    rw [if_neg h, if_neg h']

/-- … and its value is `k` -/
theorem unary_Z (M k : Nat) (hk1 : 1 ≤ k) (hkM : k ≤ M) :
    sumMap (List.range M) (fun j => ((j + 1 : Nat) : Rat) * (if j + 1 = k then (1 : Rat) else 0)) = (k : Rat) := by
  have := sumMap_range_single M (k - 1) (by omega) (fun j => ((j + 1 : Nat) : Rat))
  have e : ((k - 1 + 1 : Nat) : Rat) = (k : Rat) := by congr 1; omega
  rw [e] at this
  refine Eq.trans (sumMap_congr _ (fun j _ => ?_)) this
  by_cases h : j + 1 = k
  · have h' : j = k - 1 := by omega
    rw [if_pos h, if_pos h']; ring
  · have h' : ¬ j = k - 1 := by omega
    rw [if_neg h, if_neg h']; ring

/-- the penalty of a hit element vanishes at the encoding -/
theorem sc_penalty_enc (p : SC) {c : Var → Rat} (hc : IsBool c) {ia : Nat} (hia : ia < p.n)
    (hhit : p.Hit c (p.U.getD ia 0)) (hfit : p.cnt c (p.U.getD ia 0) ≤ p.Cap) :
    p.elemPenalty (p.enc c) (p.U.getD ia 0) ia = 0 := by
  have hk1 := sc_cnt_pos hhit
  unfold SC.elemPenalty
  rw [sc_X_enc, sc_X_cnt p hc]
  cases hlog : p.logTrick
  · -- unary counter
    simp only [Bool.false_eq_true, if_false]
    have hcap : p.cnt c (p.U.getD ia 0) ≤ p.M := by simpa [SC.Cap, hlog] using hfit
    have hT : p.T (p.enc c) ia = 1 := by
      unfold SC.T
      rw [sumMap_map, sumMap_congr _ (fun j _ => sc_enc_x_unary p hlog c hia j)]
      exact unary_T _ _ hk1 hcap
    have hZ : p.Z (p.enc c) ia = (p.cnt c (p.U.getD ia 0) : Rat) := by
      unfold SC.Z
      rw [sumMap_map, sumMap_congr _ (fun j _ => by rw [sc_enc_x_unary p hlog c hia j])]
      exact unary_Z _ _ hk1 hcap
    rw [hT, hZ]; ring
  · -- binary counter
    simp only [if_true]
    have hcap : p.cnt c (p.U.getD ia 0) ≤ 2 ^ (p.logM + 1) := by simpa [SC.Cap, hlog] using hfit
    have hY : p.Ylog (p.enc c) ia = (p.cnt c (p.U.getD ia 0) : Rat) - 1 := by
      unfold SC.Ylog
      rw [sumMap_congr _ (fun m _ => by rw [sc_enc_x_log p hlog c hia m])]
      rw [sumMap_bits, Nat.mod_eq_of_lt (by omega)]
      rw [Nat.cast_sub hk1]; simp
    rw [hY]; ring

/-- `Σ` with running index vanishes when every paired term does -/
theorem sumIdx_zero (f : Var → Nat → Rat) (U : List Var) (i : Nat)
    (h : ∀ j (hj : j < U.length), f U[j] (i + j) = 0) : sumIdx f U i = 0 := by
  induction U generalizing i with
  | nil => rfl
  | cons a r ih =>
    simp only [sumIdx]
    have h0 := h 0 (by simp)
    simp only [List.getElem_cons_zero, Nat.add_zero] at h0
    rw [h0, ih (i + 1) (fun j hj => by
      have := h (j + 1) (by simp; omega)
      simp only [List.getElem_cons_succ] at this
      rw [← this]; congr 1; omega)]
    ring

/-- **energy at an encoded feasible solution** (penalty part): all penalties vanish at the encoding of a cover -/
theorem sc_penalties_enc (p : SC) (hfit : p.Fits) {c : Var → Rat} (hc : IsBool c) (hcov : p.Covers c) :
    sumIdx (p.elemPenalty (p.enc c)) p.U 0 = 0 := by
  refine sumIdx_zero _ _ _ (fun j hj => ?_)
  have hget : p.U.getD j 0 = p.U[j] := by simp [List.getD, hj]
  have hmem : p.U[j] ∈ p.U := List.getElem_mem hj
  rw [Nat.zero_add, ← hget]
  refine sc_penalty_enc p hc hj ?_ ?_
  · rw [hget]; exact hcov _ hmem
  · rw [hget]; exact le_trans (sc_cnt_le p c _) (hfit _ hmem)

end Qv.Prob
