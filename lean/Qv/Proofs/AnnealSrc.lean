import Qv.Model.AnnealSrc
import Qv.Proofs.KernelMemFront
/-!
# Qv.Proofs.AnnealSrc — the model of the annealer front ends is the composition of its source segments

`annealQuso_eq_segments` / `annealPuso_eq_segments`: `Anneal.annealQuso` / `annealPuso` (the functions the theorems of
C11, C12 and C17 are about) equal `segmentsQuso` / `segmentsPuso` of `Qv/Model/AnnealSrc.lean`, the composition in source
order of the parts that `Qv/Proofs/GenEq/Anneal*.lean` tie to the text of `qubovert/sim/_anneal.py`.
-/
namespace Qv.Anneal
open Qv Qv.Kernel Qv.KMem

variable {ρ α : Type} [Add α] [Mul α] [OfInt α]

theorem annealQuso_eq_segments (cfg : Cfg ρ α) (rngOf : Int → ρ) (L : Obj) (n : Int) (init : Option (List (Var × Int)))
    (s : Schedule α) (io : Bool) (seed : Option Int) :
    annealQuso cfg L { numAnneals := n, schedule := s, init := init, inOrder := io, rng := rngOf (seedArg seed) } =
      segmentsQuso cfg rngOf L n init s io seed := by
  unfold annealQuso segmentsQuso prep srcEntry srcState
  by_cases hn : n ≤ 0
  · simp [hn, pure, Except.pure, bind, Except.bind]
  · simp only [hn, if_false]
    cases hs : createSchedule s with
    | error e => rfl
    | ok Ts =>
      cases hd : dispatchQuso L with
      | error e => simp [hs, hd, pure, Except.pure, bind, Except.bind]
      | ok r =>
        obtain ⟨N, model, rev⟩ := r
        by_cases hN : N = 0
        · simp [hs, hd, hN, pure, Except.pure, bind, Except.bind]
        · cases hr : relabelInit N rev init with
          | error e => simp [hs, hd, hN, hr, pure, Except.pure, bind, Except.bind]
          | ok st =>
            simp only [hs, hd, hN, hr, pure, Except.pure, bind, Except.bind, if_false]
            unfold runQuso srcFlattenQuso srcCallQuso
            cases hf : flattenQuso N model with
            | error e => simp [hf, pure, Except.pure, bind, Except.bind]
            | ok ha =>
              obtain ⟨hR, adj⟩ := ha
              have hlen : hR.length = N := (flattenQuso_flat hf).1
              simp [hf, pure, Except.pure, bind, Except.bind, qusoArgs, hlen]

theorem annealPuso_eq_segments (cfg : Cfg ρ α) (rngOf : Int → ρ) (H : Obj) (n : Int) (init : Option (List (Var × Int)))
    (s : Schedule α) (io : Bool) (seed : Option Int) :
    annealPuso cfg H { numAnneals := n, schedule := s, init := init, inOrder := io, rng := rngOf (seedArg seed) } =
      segmentsPuso cfg rngOf H n init s io seed := by
  unfold annealPuso segmentsPuso prep srcEntry srcState
  by_cases hn : n ≤ 0
  · simp [hn, pure, Except.pure, bind, Except.bind]
  · simp only [hn, if_false]
    cases hs : createSchedule s with
    | error e => rfl
    | ok Ts =>
      cases hd : dispatchPuso H with
      | error e => simp [hs, hd, pure, Except.pure, bind, Except.bind]
      | ok r =>
        obtain ⟨N, model, rev⟩ := r
        by_cases hN : N = 0
        · simp [hs, hd, hN, pure, Except.pure, bind, Except.bind]
        · cases hr : relabelInit N rev init with
          | error e => simp [hs, hd, hN, hr, pure, Except.pure, bind, Except.bind]
          | ok st =>
            simp only [hs, hd, hN, hr, pure, Except.pure, bind, Except.bind, if_false]
            unfold runPuso srcFlattenPuso srcCallPuso
            by_cases ht : (flattenPuso cfg.toNum model).terms.any (· ≥ N) = true
            · simp [ht, pure, Except.pure, bind, Except.bind, throw, throwThe, MonadExceptOf.throw]
            · simp [ht, pure, Except.pure, bind, Except.bind]

end Qv.Anneal
