import Qv.Proofs.Expr
import Qv.Model.Sat
/-!
# When can a gate builder fail?

`Res E P r` is a Hoare-style triple for `Except`: a successful result satisfies `P`, an error satisfies `E`.
Every arithmetic operation, every gate and the tree evaluator `build` are shown to satisfy
`Res E …` as soon as the key squashing functions of the model types involved do.  Two instances:

* `E = (· = KeyError)`, all model types: the only exception `build` can raise on a tree whose `BUFFER`/`NOT`
  nodes have exactly one operand is the `KeyError` of a degree-2 type's `squash_key`;
* `E = False`, model types without the degree check (`PUBO`, `PCBO`, `PUBOMatrix`, …): `build` never fails.
-/
namespace Qv

def Res {α : Type} (E : Err → Prop) (P : α → Prop) : Except Err α → Prop
  | .ok a => P a
  | .error e => E e

/-- trivial postcondition -/
abbrev T {α : Type} : α → Prop := fun _ => True

section
variable {E : Err → Prop}

theorem Res.bind {α β : Type} {P : α → Prop} {Q : β → Prop} {a : Except Err α}
    {f : α → Except Err β} (ha : Res E P a) (hf : ∀ a', P a' → Res E Q (f a')) :
    Res E Q (a >>= f) := by
  cases a with
  | error e => exact ha
  | ok a' => exact hf a' ha

theorem Res.pure {α : Type} {P : α → Prop} {a : α} (h : P a) : Res E P (Pure.pure a : Except Err α) := h

theorem Res.ok {α : Type} {P : α → Prop} {a : α} (h : P a) : Res E P (.ok a : Except Err α) := h

theorem Res.mono {α : Type} {P Q : α → Prop} {r : Except Err α} (h : Res E P r)
    (hpq : ∀ a, P a → Q a) : Res E Q r := by
  cases r with
  | error e => exact h
  | ok a => exact hpq a h

theorem Res.err_of {α : Type} {P : α → Prop} {r : Except Err α} (h : Res E P r) {e : Err}
    (he : r = .error e) : E e := by subst he; exact h

theorem Res.ok_of {α : Type} {P : α → Prop} {r : Except Err α} (h : Res E P r) {a : α}
    (he : r = .ok a) : P a := by subst he; exact h

theorem Res.isOk {α : Type} {P : α → Prop} {r : Except Err α} (h : Res (fun _ => False) P r) :
    ∃ a, r = .ok a ∧ P a := by
  cases r with
  | error e => exact absurd h id
  | ok a => exact ⟨a, rfl, h⟩

/-! ### dict arithmetic -/
section arith
variable {sq : Sq} (hsq : ∀ k, Res E (T (α := Key)) (sq k))
include hsq

theorem addTerm_res (p : Poly) (k : Key) (v : Rat) : Res E (T (α := Poly)) (addTerm sq p k v) := by
  simp only [addTerm]
  exact Res.bind (hsq k) (fun _ _ => Res.pure trivial)

theorem mulItem_res (p : Poly) (k : Key) (c : Rat) : Res E (T (α := Poly)) (mulItem sq p k c) := by
  simp only [mulItem]
  exact Res.bind (hsq k) (fun _ _ => Res.pure trivial)

theorem iaddD_res : ∀ (q p : Poly), Res E (T (α := Poly)) (iaddD sq p q)
  | [], p => by simp only [iaddD]; exact Res.ok trivial
  | (k, v) :: r, p => by
    simp only [iaddD]
    exact Res.bind (addTerm_res hsq p k v) (fun p' _ => iaddD_res r p')

theorem isubD_res : ∀ (q p : Poly), Res E (T (α := Poly)) (isubD sq p q)
  | [], p => by simp only [isubD]; exact Res.ok trivial
  | (k, v) :: r, p => by
    simp only [isubD]
    exact Res.bind (addTerm_res hsq p k (-v)) (fun p' _ => isubD_res r p')

theorem iaddC_res (p : Poly) (c : Rat) : Res E (T (α := Poly)) (iaddC sq p c) :=
  addTerm_res hsq p [] c

theorem construct_res (d : Poly) : Res E (T (α := Poly)) (construct sq d) := iaddD_res hsq d []

theorem mulRow_res (k : Key) (v : Rat) : ∀ (q acc : Poly), Res E (T (α := Poly)) (mulRow sq acc k v q)
  | [], acc => by simp only [mulRow]; exact Res.ok trivial
  | (ko, vo) :: r, acc => by
    simp only [mulRow]
    exact Res.bind (addTerm_res hsq acc (k ++ ko) (v * vo)) (fun a' _ => mulRow_res k v r a')

theorem mulRows_res (q : Poly) : ∀ (p acc : Poly), Res E (T (α := Poly)) (mulRows sq acc p q)
  | [], acc => by simp only [mulRows]; exact Res.ok trivial
  | (k, v) :: r, acc => by
    simp only [mulRows]
    exact Res.bind (mulRow_res hsq k v q acc) (fun a' _ => mulRows_res q r a')

theorem imulD_res (p q : Poly) : Res E (T (α := Poly)) (imulD sq p q) := mulRows_res hsq q p []

theorem scaleKeys_res (c : Rat) : ∀ (ks : List Key) (p : Poly), Res E (T (α := Poly)) (scaleKeys sq p ks c)
  | [], p => by simp only [scaleKeys]; exact Res.ok trivial
  | k :: r, p => by
    simp only [scaleKeys]
    exact Res.bind (mulItem_res hsq p k c) (fun p' _ => scaleKeys_res c r p')

theorem imulC_res (p : Poly) (c : Rat) : Res E (T (α := Poly)) (imulC sq p c) :=
  scaleKeys_res hsq c _ p

theorem powLoop_res (old : Poly) : ∀ (n : Nat) (p : Poly), Res E (T (α := Poly)) (powLoop sq p old n)
  | 0, p => by simp only [powLoop]; exact Res.ok trivial
  | n + 1, p => by
    simp only [powLoop]
    exact Res.bind (imulD_res hsq p old) (fun p' _ => powLoop_res old n p')

theorem ipow_res (p : Poly) {e : Int} (he : 0 < e) : Res E (T (α := Poly)) (ipow sq p e) := by
  simp only [ipow, if_neg (Int.not_le.mpr he)]
  exact Res.bind (construct_res hsq p) (fun old _ => powLoop_res hsq old _ p)

end arith

/-! ### values -/
section vals
variable {K : Kind → Prop} (hK : ∀ κ, K κ → ∀ k, Res E (T (α := Key)) (squash κ k))

/-- a model of an admissible type -/
def Val.MK (K : Kind → Prop) : Val → Prop
  | .mdl κ _ => K κ
  | _ => False

/-- an admissible operand: a number, a plain dict, or a model of an admissible type -/
def Val.AK (K : Kind → Prop) : Val → Prop
  | .mdl κ _ => K κ
  | _ => True

omit hK in
theorem Val.AK_of_MK {v : Val} (h : v.MK K) : v.AK K := by
  cases v <;> first | exact h | exact trivial

include hK

theorem mulModel_res {κ : Kind} (hκ : K κ) (p : Poly) (b : Val) : Res E (Val.MK K) (mulModel κ p b) := by
  have hsq := hK κ hκ
  cases b with
  | num c =>
    simp only [mulModel]
    exact Res.bind (construct_res hsq p) (fun d _ => Res.bind (imulC_res hsq d c) (fun _ _ => Res.pure hκ))
  | raw q =>
    simp only [mulModel]
    exact Res.bind (construct_res hsq p) (fun d _ => Res.bind (imulD_res hsq d q) (fun _ _ => Res.pure hκ))
  | mdl κ2 q =>
    simp only [mulModel]
    exact Res.bind (construct_res hsq p) (fun d _ => Res.bind (imulD_res hsq d q) (fun _ _ => Res.pure hκ))

theorem addC_res {κ : Kind} (hκ : K κ) (p : Poly) (c : Rat) :
    Res E (Val.MK K) (do pure (Val.mdl κ (← iaddC (squash κ) (← construct (squash κ) p) c))) :=
  Res.bind (construct_res (hK κ hκ) p) (fun d _ => Res.bind (iaddC_res (hK κ hκ) d c) (fun _ _ => Res.pure hκ))

theorem addD_res {κ : Kind} (hκ : K κ) (p q : Poly) :
    Res E (Val.MK K) (do pure (Val.mdl κ (← iaddD (squash κ) (← construct (squash κ) p) q))) :=
  Res.bind (construct_res (hK κ hκ) p) (fun d _ => Res.bind (iaddD_res (hK κ hκ) q d) (fun _ _ => Res.pure hκ))

theorem subD_res {κ : Kind} (hκ : K κ) (p q : Poly) :
    Res E (Val.MK K) (do pure (Val.mdl κ (← isubD (squash κ) (← construct (squash κ) p) q))) :=
  Res.bind (construct_res (hK κ hκ) p) (fun d _ => Res.bind (isubD_res (hK κ hκ) q d) (fun _ _ => Res.pure hκ))

theorem Val.add_res {a b : Val} (ha : a.AK K) (hb : b.AK K) (hm : a.MK K ∨ b.MK K) :
    Res E (Val.MK K) (Val.add a b) := by
  cases a with
  | num c =>
    cases b with
    | num c2 => exact absurd hm (by simp [Val.MK])
    | raw q => exact absurd hm (by simp [Val.MK])
    | mdl κ p => simp only [Val.add]; exact addC_res hK hb p c
  | raw q =>
    cases b with
    | num c2 => exact absurd hm (by simp [Val.MK])
    | raw q2 => exact absurd hm (by simp [Val.MK])
    | mdl κ p => simp only [Val.add]; exact addD_res hK hb p q
  | mdl κ p =>
    cases b with
    | num c => simp only [Val.add]; exact addC_res hK ha p c
    | raw q => simp only [Val.add]; exact addD_res hK ha p q
    | mdl κ2 q => simp only [Val.add]; exact addD_res hK ha p q

theorem Val.mul_res {a b : Val} (ha : a.AK K) (hb : b.AK K) (hm : a.MK K ∨ b.MK K) :
    Res E (Val.MK K) (Val.mul a b) := by
  cases a with
  | num c =>
    cases b with
    | num c2 => exact absurd hm (by simp [Val.MK])
    | raw q => exact absurd hm (by simp [Val.MK])
    | mdl κ p => simp only [Val.mul]; exact mulModel_res hK hb p _
  | raw q =>
    cases b with
    | num c2 => exact absurd hm (by simp [Val.MK])
    | raw q2 => exact absurd hm (by simp [Val.MK])
    | mdl κ p => simp only [Val.mul]; exact mulModel_res hK hb p _
  | mdl κ p => simp only [Val.mul]; exact mulModel_res hK ha p _

theorem Val.sub_res {a b : Val} (ha : a.AK K) (hb : b.AK K) (hm : a.MK K ∨ b.MK K) :
    Res E (Val.MK K) (Val.sub a b) := by
  cases a with
  | num c =>
    cases b with
    | num c2 => exact absurd hm (by simp [Val.MK])
    | raw q => exact absurd hm (by simp [Val.MK])
    | mdl κ p =>
      simp only [Val.sub]
      exact Res.bind (mulModel_res hK hb p _)
        (fun m hm' => Val.add_res hK (Val.AK_of_MK hm') trivial (Or.inl hm'))
  | raw q =>
    cases b with
    | num c2 => exact absurd hm (by simp [Val.MK])
    | raw q2 => exact absurd hm (by simp [Val.MK])
    | mdl κ p =>
      simp only [Val.sub]
      exact Res.bind (mulModel_res hK hb p _)
        (fun m hm' => Val.add_res hK (Val.AK_of_MK hm') trivial (Or.inl hm'))
  | mdl κ p =>
    cases b with
    | num c => simp only [Val.sub]; exact addC_res hK ha p (-c)
    | raw q => simp only [Val.sub]; exact subD_res hK ha p q
    | mdl κ2 q => simp only [Val.sub]; exact subD_res hK ha p q

theorem Val.pow_res {a : Val} (ha : a.MK K) {e : Int} (he : 0 < e) : Res E (Val.MK K) (Val.pow a e) := by
  cases a with
  | num c => exact absurd ha id
  | raw q => exact absurd ha id
  | mdl κ p =>
    simp only [Val.pow]
    exact Res.bind (construct_res (hK κ ha) p)
      (fun d _ => Res.bind (ipow_res (hK κ ha) d he) (fun _ _ => Res.pure ha))

theorem Val.pos_res {a : Val} (ha : a.MK K) : Res E (Val.MK K) (Val.pos a) := by
  cases a with
  | num c => exact absurd ha id
  | raw q => exact absurd ha id
  | mdl κ p =>
    simp only [Val.pos]
    exact Res.bind (construct_res (hK κ ha) p) (fun _ _ => Res.pure ha)

/-! ### gates -/

/-- an admissible evaluated operand: a label, a plain dict, or a model of an admissible type -/
def SVal.AK (K : Kind → Prop) : SVal → Prop
  | .lbl _ => True
  | .val (.num _) => False
  | .val (.raw _) => True
  | .val (.mdl κ _) => K κ

variable (hpubo : K .pubo)
include hpubo

theorem bufferV_res {sv : SVal} (h : sv.AK K) : Res E (Val.MK K) (bufferV sv) := by
  cases sv with
  | lbl i =>
    simp only [bufferV]
    exact Res.bind (construct_res (hK _ hpubo) _) (fun _ _ => Res.pure hpubo)
  | val v =>
    cases v with
    | num c => exact absurd h id
    | raw p =>
      simp only [bufferV, Val.cast]
      exact Res.bind (construct_res (hK _ hpubo) _) (fun _ _ => Res.pure hpubo)
    | mdl κ p =>
      simp only [bufferV]
      exact Val.pos_res hK (a := .mdl κ p) h

theorem notV_res {sv : SVal} (h : sv.AK K) : Res E (Val.MK K) (notV sv) := by
  simp only [notV]
  exact Res.bind (bufferV_res hK hpubo h)
    (fun b hb => Val.sub_res hK (a := .num 1) trivial (Val.AK_of_MK hb) (Or.inr hb))

theorem notV_val_res {v : Val} (h : v.MK K) : Res E (Val.MK K) (notV (.val v)) := by
  apply notV_res hK hpubo
  cases v with
  | num c => exact absurd h id
  | raw q => exact absurd h id
  | mdl κ p => exact h

theorem satOne_res : Res E (Val.MK K) satOne := by
  simp only [satOne]
  exact Val.add_res hK (a := .mdl .pubo []) (b := .num 1) hpubo trivial (Or.inl hpubo)

theorem andLoop_res : ∀ (vs : List SVal) (acc : Val), acc.MK K → (∀ v ∈ vs, SVal.AK K v) →
    Res E (Val.MK K) (andLoop acc vs)
  | [], acc, ha, _ => by simp only [andLoop]; exact Res.ok ha
  | v :: r, acc, ha, hv => by
    simp only [andLoop]
    exact Res.bind (bufferV_res hK hpubo (hv v (List.mem_cons_self ..)))
      (fun b hb => Res.bind (Val.mul_res hK (Val.AK_of_MK ha) (Val.AK_of_MK hb) (Or.inl ha))
        (fun m hm => andLoop_res r m hm (fun w hw => hv w (List.mem_cons_of_mem _ hw))))

theorem andV_res (vs : List SVal) (hv : ∀ v ∈ vs, SVal.AK K v) : Res E (Val.MK K) (andV vs) := by
  cases vs with
  | nil => simp only [andV]; exact satOne_res hK hpubo
  | cons v r =>
    simp only [andV, andLoop]
    exact Res.bind (bufferV_res hK hpubo (hv v (List.mem_cons_self ..)))
      (fun b hb => Res.bind (Val.mul_res hK (a := .num 1) trivial (Val.AK_of_MK hb) (Or.inr hb))
        (fun m hm => andLoop_res hK hpubo r m hm (fun w hw => hv w (List.mem_cons_of_mem _ hw))))

theorem orStep_res {acc : Val} {v : SVal} (ha : acc.MK K) (hv : v.AK K) :
    Res E (Val.MK K) (orStep acc v) := by
  simp only [orStep]
  have haa := Val.AK_of_MK ha
  exact Res.bind (bufferV_res hK hpubo hv) (fun b hb =>
    Res.bind (Val.sub_res hK (a := .num 1) trivial haa (Or.inr ha)) (fun d hd =>
      Res.bind (Val.mul_res hK (Val.AK_of_MK hb) (Val.AK_of_MK hd) (Or.inl hb)) (fun m hm =>
        Val.add_res hK haa (Val.AK_of_MK hm) (Or.inl ha))))

theorem xorStep_res {acc : Val} {v : SVal} (ha : acc.MK K) (hv : v.AK K) :
    Res E (Val.MK K) (xorStep acc v) := by
  simp only [xorStep]
  exact Res.bind (bufferV_res hK hpubo hv) (fun b hb =>
    Res.bind (Val.sub_res hK (Val.AK_of_MK ha) (Val.AK_of_MK hb) (Or.inl ha)) (fun d hd =>
      Val.pow_res hK hd (by decide)))

omit hK hpubo in
theorem foldSteps_res {step : Val → SVal → Except Err Val}
    (hstep : ∀ {acc : Val} {v : SVal}, acc.MK K → v.AK K → Res E (Val.MK K) (step acc v)) :
    ∀ (vs : List SVal) (acc : Val), acc.MK K → (∀ v ∈ vs, SVal.AK K v) →
      Res E (Val.MK K) (foldSteps step acc vs)
  | [], acc, ha, _ => by simp only [foldSteps]; exact Res.ok ha
  | v :: r, acc, ha, hv => by
    simp only [foldSteps]
    exact Res.bind (hstep ha (hv v (List.mem_cons_self ..)))
      (fun m hm => foldSteps_res hstep r m hm (fun w hw => hv w (List.mem_cons_of_mem _ hw)))

theorem orV_res (vs : List SVal) (hv : ∀ v ∈ vs, SVal.AK K v) : Res E (Val.MK K) (orV vs) := by
  cases vs with
  | nil => simp only [orV]; exact satOne_res hK hpubo
  | cons v r =>
    simp only [orV]
    exact Res.bind (bufferV_res hK hpubo (hv v (List.mem_cons_self ..)))
      (fun b hb => foldSteps_res (orStep_res hK hpubo) r b hb (fun w hw => hv w (List.mem_cons_of_mem _ hw)))

theorem xorV_res (vs : List SVal) (hv : ∀ v ∈ vs, SVal.AK K v) : Res E (Val.MK K) (xorV vs) := by
  cases vs with
  | nil => simp only [xorV]; exact satOne_res hK hpubo
  | cons v r =>
    simp only [xorV]
    exact Res.bind (bufferV_res hK hpubo (hv v (List.mem_cons_self ..)))
      (fun b hb => foldSteps_res (xorStep_res hK hpubo) r b hb (fun w hw => hv w (List.mem_cons_of_mem _ hw)))

/-- `BUFFER` / `NOT` have exactly one parameter -/
def ArityOk (g : Gate) (n : Nat) : Prop := (g = .buffer ∨ g = .not) → n = 1

theorem applyGate_res {g : Gate} {vs : List SVal} (hv : ∀ v ∈ vs, SVal.AK K v)
    (har : ArityOk g vs.length) : Res E (Val.MK K) (applyGate g vs) := by
  cases g with
  | buffer =>
    have := har (Or.inl rfl)
    match vs, this with
    | [v], _ => simp only [applyGate]; exact bufferV_res hK hpubo (hv v (List.mem_cons_self ..))
  | not =>
    have := har (Or.inr rfl)
    match vs, this with
    | [v], _ => simp only [applyGate]; exact notV_res hK hpubo (hv v (List.mem_cons_self ..))
  | and => simp only [applyGate]; exact andV_res hK hpubo vs hv
  | nand =>
    simp only [applyGate]
    exact Res.bind (andV_res hK hpubo vs hv) (fun m hm => notV_val_res hK hpubo hm)
  | or => simp only [applyGate]; exact orV_res hK hpubo vs hv
  | nor =>
    simp only [applyGate]
    exact Res.bind (orV_res hK hpubo vs hv) (fun m hm => notV_val_res hK hpubo hm)
  | xor => simp only [applyGate]; exact xorV_res hK hpubo vs hv
  | xnor =>
    simp only [applyGate]
    exact Res.bind (xorV_res hK hpubo vs hv) (fun m hm => notV_val_res hK hpubo hm)

end vals
end

/-! ### trees -/

mutual
/-- shape condition on a tree: `BUFFER`/`NOT` nodes have exactly one operand and every model leaf is of
a type satisfying `K` -/
def SExpr.Shape (K : Kind → Prop) : SExpr → Prop
  | .lbl _ => True
  | .raw _ => True
  | .mdl κ _ => K κ
  | .gate g args => ArityOk g args.length ∧ SExpr.ShapeList K args
def SExpr.ShapeList (K : Kind → Prop) : List SExpr → Prop
  | [] => True
  | a :: r => SExpr.Shape K a ∧ SExpr.ShapeList K r
end

section
variable {E : Err → Prop} {K : Kind → Prop} (hK : ∀ κ, K κ → ∀ k, Res E (T (α := Key)) (squash κ k))
  (hpubo : K .pubo)
include hK hpubo

mutual
theorem buildArg_res : ∀ (e : SExpr), e.Shape K → Res E (SVal.AK K) (buildArg e)
  | .lbl i, _ => by simp only [buildArg]; exact Res.ok trivial
  | .raw p, _ => by simp only [buildArg]; exact Res.ok trivial
  | .mdl κ p, h => by
    simp only [buildArg]
    simp only [SExpr.Shape] at h
    exact Res.bind (construct_res (hK κ h) p) (fun _ _ => Res.pure h)
  | .gate g args, h => by
    simp only [buildArg]
    simp only [SExpr.Shape] at h
    refine Res.bind (buildArgs_res args h.2) (fun svs hs => ?_)
    refine Res.bind (applyGate_res hK hpubo hs.1 (by rw [hs.2]; exact h.1)) (fun v hv => Res.pure ?_)
    cases v with
    | num c => exact absurd hv id
    | raw q => exact absurd hv id
    | mdl κ p => exact hv
theorem buildArgs_res : ∀ (es : List SExpr), SExpr.ShapeList K es →
    Res E (fun svs => (∀ v ∈ svs, SVal.AK K v) ∧ svs.length = es.length) (buildArgs es)
  | [], _ => by simp only [buildArgs]; exact Res.ok ⟨by simp, rfl⟩
  | a :: r, h => by
    simp only [buildArgs]
    simp only [SExpr.ShapeList] at h
    refine Res.bind (buildArg_res a h.1) (fun sv hsv => ?_)
    refine Res.bind (buildArgs_res r h.2) (fun svs hs => Res.pure ⟨?_, by simp [hs.2]⟩)
    intro v hv
    rcases List.mem_cons.mp hv with rfl | hv
    · exact hsv
    · exact hs.1 v hv
end

omit hK hpubo in
theorem buildArg_val {e : SExpr} (hne : ∀ i, e ≠ .lbl i) {sv : SVal} (h : buildArg e = .ok sv) :
    ∃ v, sv = .val v := by
  cases e with
  | lbl i => exact absurd rfl (hne i)
  | raw p => simp only [buildArg] at h; injection h with h; exact ⟨_, h.symm⟩
  | mdl κ p =>
    simp only [buildArg, bind_ok_iff, pure, Except.pure] at h
    obtain ⟨r, _, h⟩ := h
    injection h with h; exact ⟨_, h.symm⟩
  | gate g args =>
    simp only [buildArg, bind_ok_iff, pure, Except.pure] at h
    obtain ⟨svs, _, v, _, h⟩ := h
    injection h with h; exact ⟨_, h.symm⟩

theorem build_res {e : SExpr} (h : e.Shape K) (hne : ∀ i, e ≠ .lbl i) : Res E (T (α := Val)) (build e) := by
  have hr := buildArg_res hK hpubo e h
  cases hb : buildArg e with
  | error err =>
    rw [hb] at hr
    have : build e = .error err := by simp [build, hb, bind, Except.bind]
    rw [this]; exact hr
  | ok sv =>
    obtain ⟨v, rfl⟩ := buildArg_val hne hb
    have : build e = .ok v := by simp [build, hb, bind, Except.bind, pure, Except.pure]
    rw [this]; exact trivial

end

/-! ### the two instances -/

theorem squash_res_key (κ : Kind) (k : Key) : Res (fun e => e = Err.key) (T (α := Key)) (squash κ k) := by
  unfold squash
  split
  · exact trivial
  · dsimp only
    split <;> split <;> first | exact rfl | exact trivial

theorem squash_res_total {κ : Kind} (h : κ.isDeg2 = false) (k : Key) :
    Res (fun _ => False) (T (α := Key)) (squash κ k) := by
  unfold squash
  split
  · exact trivial
  · dsimp only
    rw [h]
    simp only [Bool.false_and, Bool.false_eq_true, if_false, Res]
    exact trivial

/-- with "any error" allowed the squashing functions satisfy the triple trivially: used to learn the
*shape* of successful results (a gate returns a model) -/
theorem squash_res_any (κ : Kind) (k : Key) : Res (fun _ => True) (T (α := Key)) (squash κ k) := by
  cases squash κ k <;> exact trivial

theorem applyGate_ok_arity {g : Gate} {vs : List SVal} {r : Val} (h : applyGate g vs = .ok r) :
    ArityOk g vs.length := by
  intro hg
  rcases hg with rfl | rfl
  · match vs, h with
    | [v], _ => rfl
    | [], h => simp [applyGate] at h
    | _ :: _ :: _, h => simp [applyGate] at h
  · match vs, h with
    | [v], _ => rfl
    | [], h => simp [applyGate] at h
    | _ :: _ :: _, h => simp [applyGate] at h

/-- a successful gate application on admissible operands returns a model object -/
theorem applyGate_isModel {g : Gate} {vs : List SVal} {r : Val}
    (hv : ∀ v ∈ vs, SVal.AK (fun _ => True) v) (h : applyGate g vs = .ok r) :
    r.MK (fun _ => True) :=
  (applyGate_res (E := fun _ => True) (K := fun _ => True) (fun κ _ k => squash_res_any κ k) trivial hv
    (applyGate_ok_arity h)).ok_of h

end Qv
