import Qv.Proofs.LogicEqMethods
/-!
# Operands given as (nested) sat expressions (namespace `Qv.Logic`)

`SExprOK e`: every leaf of the operand expression is a label, a `{0,1}`-valued plain dict, or the constructor of a
boolean model type applied to a `{0,1}`-valued dict.  Then the evaluated operand `buildArg e` is admissible
(`OpOK`) — for every nesting depth and every gate arity.
-/
namespace Qv.Logic
open Qv

mutual
def SExprOK : SExpr → Prop
  | .lbl _ => True
  | .raw p => ∀ y, IsBool y → (eval y p = 0 ∨ eval y p = 1)
  | .mdl κ p => κ ≠ .dict ∧ κ.isSpin = false ∧ ∀ y, IsBool y → (eval y p = 0 ∨ eval y p = 1)
  | .gate _ args => SExprsOK args
def SExprsOK : List SExpr → Prop
  | [] => True
  | a :: r => SExprOK a ∧ SExprsOK r
end

mutual
theorem buildArg_ok : ∀ (e : SExpr) {v : SVal}, SExprOK e → buildArg e = .ok v → OpOK v
  | .lbl i, v, _, h => by
    simp only [buildArg] at h
    injection h with h; subst h; trivial
  | .raw p, v, ho, h => by
    simp only [buildArg] at h
    injection h with h; subst h
    exact ⟨trivial, ho⟩
  | .mdl κ p, v, ho, h => by
    simp only [buildArg, bind_ok_iff, pure, Except.pure] at h
    obtain ⟨r, hr, h⟩ := h
    injection h with h; subst h
    simp only [SExprOK] at ho
    refine ⟨⟨ho.1, ho.2.1, wf_construct (squash_idem κ) hr⟩, fun y hy => ?_⟩
    simp only [Val.eval]
    rw [eval_construct (sqOK_bool ho.2.1 hy) hr]
    exact ho.2.2 y hy
  | .gate g args, v, ho, h => by
    simp only [buildArg, bind_ok_iff, pure, Except.pure] at h
    obtain ⟨vs, hvs, w, hw, h⟩ := h
    injection h with h; subst h
    simp only [SExprOK] at ho
    exact applyGate_ok (buildArgs_ok args ho hvs) hw
theorem buildArgs_ok : ∀ (es : List SExpr) {vs : List SVal}, SExprsOK es → buildArgs es = .ok vs →
    ∀ v ∈ vs, OpOK v
  | [], vs, _, h => by
    simp only [buildArgs] at h
    injection h with h; subst h
    intro v hv; cases hv
  | a :: r, vs, ho, h => by
    simp only [buildArgs, bind_ok_iff, pure, Except.pure] at h
    obtain ⟨va, hva, vr, hvr, h⟩ := h
    injection h with h; subst h
    simp only [SExprsOK] at ho
    intro v hv
    rcases List.mem_cons.1 hv with rfl | hv
    · exact buildArg_ok a ho.1 hva
    · exact buildArgs_ok r ho.2 hvr v hv
end

end Qv.Logic
