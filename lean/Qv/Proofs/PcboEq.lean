import Qv.Proofs.PcboNum
/-!
# C02: `add_constraint_eq_zero` (all six bounds branches and `_special_constraints_eq_zero`)
-/
namespace Qv.PcboP

/-- the value at `s` of the terms a call added: `eval` is additive over `St.plus` / `St.minus`
(see `Struct.added`: the new terms *are* `st.terms += q`) -/
def FPen (st st' : St) (s : Var → Rat) : Rat := eval s st'.terms - eval s st.terms

/-- the ancilla labels `"__a<k>"`, `st.anc ≤ k < st'.anc`, created between two states -/
def InA (st st' : St) (i : Var) : Prop := ∃ k, st.anc ≤ k ∧ k < st'.anc ∧ i = ANC + k

/-- structural effect of a call: the counter only grows, and the new term dict is `terms += q` for a
polynomial `q` whose labels are labels of `P` or ancillas created by this call -/
structure Struct (st st' : St) (P : Poly) : Prop where
  anc_le : st.anc ≤ st'.anc
  added : ∃ q, st'.terms = iaddB st.terms q ∧
    ∀ V : Var → Prop, LabelsIn V P → (∀ k, st.anc ≤ k → k < st'.anc → V (ANC + k)) → LabelsIn V q

theorem FPen_of_added {st st' : St} {q : Poly} (h : st'.terms = iaddB st.terms q) {s : Var → Rat} (hs : IsBool s) :
    FPen st st' s = eval s q := by
  unfold FPen; rw [h, eval_iaddB hs]; ring

/-! ## the AND gadget -/

theorem eval_gadget {x : Var → Rat} (hx : IsBool x) (a b c : Var) :
    eval x (gadget a b c) = 3 * x a + x b * x c - 2 * (x a * x b) - 2 * (x a * x c) := by
  simp only [gadget, List.foldl, eval_addTermB hx, eval_nil, mon_cons, mon_nil]; ring

theorem labelsIn_gadget {V : Var → Prop} {a b c : Var} (ha : V a) (hb : V b) (hc : V c) :
    LabelsIn V (gadget a b c) := by
  simp only [gadget, List.foldl]
  refine labelsIn_addTermB _ (labelsIn_addTermB _ (labelsIn_addTermB _ (labelsIn_addTermB _ (labelsIn_nil V) ?_) ?_) ?_) ?_
    <;> intro i hi <;> simp at hi <;> rcases hi with rfl | rfl <;> assumption

theorem gadget_facts {a b c : Rat} (ha : a = 0 ∨ a = 1) (hb : b = 0 ∨ b = 1) (hc : c = 0 ∨ c = 1) :
    0 ≤ 3 * a + b * c - 2 * (a * b) - 2 * (a * c) ∧
    (a = b * c → 3 * a + b * c - 2 * (a * b) - 2 * (a * c) = 0) ∧
    (a ≠ b * c → 1 ≤ 3 * a + b * c - 2 * (a * b) - 2 * (a * c)) := by
  rcases ha with rfl | rfl <;> rcases hb with rfl | rfl <;> rcases hc with rfl | rfl <;> norm_num

/-! ## `_special_constraints_eq_zero` -/

theorem specialEq_some {s s' : St} {P : Poly} {lam : Rat} (h : specialEq s P lam = some s') :
    ∃ a b c v0 v1, v0 = -v1 ∧ (P = [([a], v0), ([b, c], v1)] ∨ P = [([b, c], v0), ([a], v1)]) ∧
      (varsOf P).length = 3 ∧ s' = (s.plus (scaleB lam (gadget a b c))).tag "eq-special-and" := by
  unfold specialEq at h
  split at h
  · rename_i k0 v0 k1 v1
    split at h
    · rename_i hc
      split at h
      · rename_i a b c
        injection h with h
        exact ⟨a, b, c, v0, v1, hc.2.2, Or.inl rfl, hc.2.1, h.symm⟩
      · rename_i b c a
        injection h with h
        exact ⟨a, b, c, v0, v1, hc.2.2, Or.inr rfl, hc.2.1, h.symm⟩
      · cases h
    · cases h
  · cases h

/-! ## structure of `addEqZero` -/

theorem addEqZero_anc (s : St) (P : Poly) (lam : Rat) (b : Option Rat × Option Rat) (sup : Bool) :
    (addEqZero s P lam b sup).anc = s.anc := by
  unfold addEqZero
  simp only []
  split
  · rfl
  · split
    · rename_i s' h
      obtain ⟨a, b, c, v0, v1, _, _, _, rfl⟩ := specialEq_some h
      rfl
    · split_ifs <;> simp

theorem addEqZero_cons (s : St) (P : Poly) (lam : Rat) (b : Option Rat × Option Rat) (sup : Bool) :
    (addEqZero s P lam b sup).cons = s.cons ++ [(.eq, P)] := by
  unfold addEqZero
  simp only []
  split
  · rfl
  · split
    · rename_i s' h
      obtain ⟨a, b, c, v0, v1, _, _, _, rfl⟩ := specialEq_some h
      rfl
    · split_ifs <;> simp

theorem addEqZero_added (s : St) (P : Poly) (lam : Rat) (b : Option Rat × Option Rat) (sup : Bool) :
    ∃ q, (addEqZero s P lam b sup).terms = iaddB s.terms q ∧ ∀ V : Var → Prop, LabelsIn V P → LabelsIn V q := by
  unfold addEqZero
  simp only []
  split
  · exact ⟨[], rfl, fun V _ => labelsIn_nil V⟩
  · split
    · rename_i s' h
      obtain ⟨a, b, c, v0, v1, _, hP, _, rfl⟩ := specialEq_some h
      refine ⟨scaleB lam (gadget a b c), rfl, fun V hV => labelsIn_scaleB _ ?_⟩
      rcases hP with rfl | rfl
      · exact labelsIn_gadget (hV _ List.mem_cons_self a List.mem_cons_self)
          (hV _ (List.mem_cons_of_mem _ List.mem_cons_self) b List.mem_cons_self)
          (hV _ (List.mem_cons_of_mem _ List.mem_cons_self) c (List.mem_cons_of_mem _ List.mem_cons_self))
      · exact labelsIn_gadget (hV _ (List.mem_cons_of_mem _ List.mem_cons_self) a List.mem_cons_self)
          (hV _ List.mem_cons_self b List.mem_cons_self)
          (hV _ List.mem_cons_self c (List.mem_cons_of_mem _ List.mem_cons_self))
    · split_ifs
      · exact ⟨[], by simp [iaddB_nil], fun V _ => labelsIn_nil V⟩
      · exact ⟨scaleB lam P, by simp, fun V hV => labelsIn_scaleB _ hV⟩
      · exact ⟨negPoly (scaleB lam P), by simp [isubB_eq_iaddB], fun V hV => labelsIn_negPoly (labelsIn_scaleB _ hV)⟩
      · exact ⟨scaleB lam P, by simp, fun V hV => labelsIn_scaleB _ hV⟩
      · exact ⟨negPoly (scaleB lam P), by simp [isubB_eq_iaddB], fun V hV => labelsIn_negPoly (labelsIn_scaleB _ hV)⟩
      · exact ⟨mulB (scaleB lam P) P, by simp, fun V hV => labelsIn_mulB (labelsIn_scaleB _ hV) hV⟩

theorem addEqZero_struct (s : St) (P : Poly) (lam : Rat) (b : Option Rat × Option Rat) (sup : Bool) :
    Struct s (addEqZero s P lam b sup) P := by
  refine ⟨by rw [addEqZero_anc], ?_⟩
  obtain ⟨q, h1, h2⟩ := addEqZero_added s P lam b sup
  exact ⟨q, h1, fun V hV _ => h2 V hV⟩

/-! ## semantics of `addEqZero` -/

/-- **eq, pointwise.**  With valid bounds, an integer-valued zero-free `P` and `lam > 0`, at every boolean
assignment the added terms are non-negative, vanish when `P = 0`, and are at least `lam` when `P ≠ 0` — in
every branch, including the ones that warn. -/
theorem addEqZero_sem {st : St} {P : Poly} {lam : Rat} {b : Option Rat × Option Rat} {sup : Bool}
    (hlam : 0 < lam) (hint : IntValued P) (hnz : NoZero P) (hb : ValidBounds P b)
    {s : Var → Rat} (hs : IsBool s) :
    0 ≤ FPen st (addEqZero st P lam b sup) s ∧
    (eval s P = 0 → FPen st (addEqZero st P lam b sup) s = 0) ∧
    (eval s P ≠ 0 → lam ≤ FPen st (addEqZero st P lam b sup) s) := by
  have hbd := getBounds_sound hb hs
  have hi := hint s hs
  unfold addEqZero
  simp only []
  split
  · rename_i h0; exact absurd h0 (ne_of_gt hlam)
  · split
    · rename_i s' h
      obtain ⟨a, b, c, v0, v1, hv, hP, hvars, rfl⟩ := specialEq_some h
      have hF : FPen st ((((st.append .eq P).plus (scaleB lam (gadget a b c))).tag "eq-special-and")) s
          = lam * (3 * s a + s b * s c - 2 * (s a * s b) - 2 * (s a * s c)) := by
        simp only [FPen, St.tag_terms, St.plus_terms, St.append_terms, eval_iaddB hs, eval_scaleB hs,
          eval_gadget hs]; ring
      rw [hF]
      obtain ⟨g0, g1, g2⟩ := gadget_facts (hs a) (hs b) (hs c)
      have hPv : ∃ w : Rat, w ≠ 0 ∧ eval s P = w * (s a - s b * s c) := by
        rcases hP with rfl | rfl
        · refine ⟨v0, hnz ([a], v0) List.mem_cons_self, ?_⟩
          simp only [eval_cons, eval_nil, mon_cons, mon_nil]
          have : v1 = -v0 := by rw [hv]; ring
          rw [this]; ring
        · refine ⟨v1, hnz ([a], v1) (List.mem_cons_of_mem _ List.mem_cons_self), ?_⟩
          simp only [eval_cons, eval_nil, mon_cons, mon_nil]
          rw [hv]; ring
      obtain ⟨w, hv0, hPv⟩ := hPv
      refine ⟨by positivity, fun h0 => ?_, fun h0 => ?_⟩
      · rw [hPv] at h0
        rcases mul_eq_zero.1 h0 with h0 | h0
        · exact absurd h0 hv0
        · rw [g1 (by linarith)]; ring
      · have : s a ≠ s b * s c := by
          intro he; apply h0; rw [hPv, he]; ring
        have := g2 this
        nlinarith
    · obtain ⟨hlo, hhi⟩ := hbd
      split_ifs with c1 c2 c3 c4 c5
      · -- always
        have hv : eval s P = 0 := by rw [c1.1] at hlo; rw [c1.2] at hhi; linarith
        simp [FPen, hv]
      · -- unsat-pos
        have hv : 1 ≤ eval s P := int_pos_ge_one hi (by linarith)
        simp only [FPen, St.tag_terms, St.plus_terms, St.warn_terms, St.append_terms, eval_iaddB hs, eval_scaleB hs]
        refine ⟨by nlinarith, fun h0 => by linarith, fun _ => by nlinarith⟩
      · -- unsat-neg
        have hv : eval s P ≤ -1 := int_neg_le_neg_one hi (by linarith)
        simp only [FPen, St.tag_terms, St.minus_terms, St.warn_terms, St.append_terms, eval_isubB hs, eval_scaleB hs]
        refine ⟨by nlinarith, fun h0 => by linarith, fun _ => by nlinarith⟩
      · -- min0
        rw [c4] at hlo
        simp only [FPen, St.tag_terms, St.plus_terms, St.append_terms, eval_iaddB hs, eval_scaleB hs]
        refine ⟨by nlinarith, fun h0 => by rw [h0]; ring, fun h0 => ?_⟩
        have := int_pos_ge_one hi (lt_of_le_of_ne hlo (Ne.symm h0))
        nlinarith
      · -- max0
        rw [c5] at hhi
        simp only [FPen, St.tag_terms, St.minus_terms, St.append_terms, eval_isubB hs, eval_scaleB hs]
        refine ⟨by nlinarith, fun h0 => by rw [h0]; ring, fun h0 => ?_⟩
        have := int_neg_le_neg_one hi (lt_of_le_of_ne hhi h0)
        nlinarith
      · -- square
        simp only [FPen, St.tag_terms, St.plus_terms, St.append_terms, eval_iaddB hs, eval_scaleB hs, eval_mulB hs]
        refine ⟨by nlinarith [mul_self_nonneg (eval s P)], fun h0 => by rw [h0]; ring, fun h0 => ?_⟩
        have := int_sq_ge_one hi h0
        nlinarith

end Qv.PcboP
