import Qv.Model.Convert3
/-!
# Qv.Proofs.DecimalRT — round trips of the decimal ↔ boolean / spin helpers (`Qv/Model/Convert3.lean`)

ADDITIONS BEYOND `Qv/Props/C04.lean`: C04's property theorems do not mention `decimal_to_boolean`,
`boolean_to_decimal`, `decimal_to_spin`, `spin_to_decimal`; this file states what "preserve" means for them —
decoding what was encoded gives the number back, for every `d ≥ 0` and every admissible width — and
`Qv/Proofs/GenEq/Conv3Dec.lean` ties the model functions used here to the source.  Core Lean tactics only.
-/
namespace Qv

theorem bits_lt_two (n : Nat) : ∀ k ∈ bits n, k < 2 := by
  induction n using Nat.strongRecOn with
  | _ n ih =>
    intro k hk
    unfold bits at hk
    split at hk
    · simp only [List.mem_singleton] at hk; omega
    · rcases List.mem_append.mp hk with h | h
      · exact ih (n / 2) (by omega) k h
      · simp only [List.mem_singleton] at h; omega

theorem bits_ne_nil (n : Nat) : bits n ≠ [] := by
  unfold bits; split <;> simp

theorem fromBits_append (l : List Int) (b : Int) : fromBits (l ++ [b]) = 2 * fromBits l + b := by
  simp [fromBits, List.foldl_append]

/-- the digits of `n` denote `n` -/
theorem fromBits_bits (n : Nat) : fromBits ((bits n).map Int.ofNat) = (n : Int) := by
  induction n using Nat.strongRecOn with
  | _ n ih =>
    unfold bits
    split
    · simp [fromBits]
    · rw [List.map_append, List.map_singleton, fromBits_append, ih (n / 2) (by omega)]
      simp only [Int.ofNat_eq_natCast]
      omega

/-- leading zeros do not change the number -/
theorem fromBits_zeros (k : Nat) (l : List Int) : fromBits (List.replicate k 0 ++ l) = fromBits l := by
  induction k with
  | zero => simp
  | succ k ih =>
    simp only [fromBits, List.replicate_succ, List.cons_append, List.foldl_cons] at ih ⊢
    simpa using ih

/-- **round trip (boolean).**  `boolean_to_decimal(decimal_to_boolean(d, num_bits)) == d` whenever the encoding
succeeds (i.e. `d ≥ 0` and `num_bits` is `None` or large enough) -/
theorem decimal_boolean_round_trip (d : Int) (nb : Option Int) (l : List Int) (h : decimalToBoolean d nb = .ok l) :
    booleanToDecimal l = d := by
  unfold decimalToBoolean at h
  split at h
  · cases h
  · rename_i hd
    have hnat : ((d.toNat : Nat) : Int) = d := Int.toNat_of_nonneg (by omega)
    cases nb with
    | none =>
      simp only [Except.ok.injEq] at h
      subst h
      rw [booleanToDecimal, fromBits_bits, hnat]
    | some m =>
      simp only at h
      split at h
      · cases h
      · simp only [Except.ok.injEq] at h
        subst h
        rw [booleanToDecimal, fromBits_zeros, fromBits_bits, hnat]

/-- the encoding has exactly the requested width -/
theorem decimal_to_boolean_length (d : Int) (m : Int) (l : List Int) (h : decimalToBoolean d (some m) = .ok l) :
    (l.length : Int) = m := by
  unfold decimalToBoolean at h
  split at h
  · cases h
  · simp only at h
    split at h
    · cases h
    · rename_i hm
      simp only [Except.ok.injEq] at h
      subst h
      simp only [List.length_append, List.length_replicate, List.length_map] at hm ⊢
      omega

/-- every entry of the encoding is a bit -/
theorem decimal_to_boolean_bits (d : Int) (nb : Option Int) (l : List Int) (h : decimalToBoolean d nb = .ok l) :
    ∀ b ∈ l, b = 0 ∨ b = 1 := by
  have hb : ∀ b ∈ (bits d.toNat).map Int.ofNat, b = 0 ∨ b = 1 := by
    intro b hb
    obtain ⟨k, hk, rfl⟩ := List.mem_map.mp hb
    have := bits_lt_two _ k hk
    simp only [Int.ofNat_eq_natCast]
    omega
  unfold decimalToBoolean at h
  split at h
  · cases h
  · cases nb with
    | none => simp only [Except.ok.injEq] at h; subst h; exact hb
    | some m =>
      simp only at h
      split at h
      · cases h
      · simp only [Except.ok.injEq] at h
        subst h
        intro b hmem
        rcases List.mem_append.mp hmem with h1 | h1
        · left; exact (List.mem_replicate.mp h1).2
        · exact hb b h1

/-- **round trip (spin).**  `spin_to_decimal(decimal_to_spin(d, num_spins)) == d` -/
theorem decimal_spin_round_trip (d : Int) (nb : Option Int) (z : List Int) (h : decimalToSpin d nb = .ok z) :
    spinToDecimal z = d := by
  unfold decimalToSpin at h
  cases hl : decimalToBoolean d nb with
  | error e => rw [hl] at h; cases h
  | ok l =>
    rw [hl] at h
    simp only [bind, Except.bind, Except.ok.injEq] at h
    subst h
    have hid : (l.map (fun b => 1 - 2 * b)).map (fun z => (1 - z) / 2) = l := by
      rw [List.map_map]
      have : ((fun z : Int => (1 - z) / 2) ∘ fun b => 1 - 2 * b) = id := by
        funext b; simp only [Function.comp, id]; omega
      rw [this, List.map_id]
    rw [spinToDecimal, hid]
    exact decimal_boolean_round_trip d nb l hl

example : (decimalToBoolean 10 (some 7)).toOption = some [0, 0, 0, 1, 0, 1, 0] := by decide +kernel
example : (decimalToBoolean 10 none).toOption = some [1, 0, 1, 0] := by decide +kernel
example : (decimalToSpin 10 none).toOption = some [-1, 1, -1, 1] := by decide +kernel
example : booleanToDecimal [1, 1, 0] = 6 ∧ spinToDecimal [-1, -1, 1] = 6 := by decide +kernel
example : (decimalToBoolean 10 (some 3)).toOption = none ∧ (decimalToBoolean (-1) none).toOption = none := by decide +kernel

end Qv
