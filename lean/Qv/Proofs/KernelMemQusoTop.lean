import Qv.Proofs.KernelMemWrap
/-!
# Qv.Proofs.KernelMemQusoTop — `c_anneal_quso` end to end on `WF` arguments
-/
namespace Qv.KMem
open Qv.Kernel (Src OfInt ofInt)

theorem le_mul_left' {a b : Nat} (hb : 1 ≤ b) : a ≤ a * b := Nat.le_mul_of_pos_right a hb
theorem le_mul_right' {a b : Nat} (ha : 1 ≤ a) : b ≤ a * b := Nat.le_mul_of_pos_left b ha

section
variable {α ρ : Type} [Add α] [Mul α] [OfInt α]

/-- the result type of the wrappers: one `(state, value)` per anneal, every state of length `N` with spins -/
def GoodOut (na N : Nat) (out : List (List Int × α)) : Prop :=
  out.length = na ∧ ∀ sv ∈ out, sv.1.length = N ∧ ∀ x ∈ sv.1, x = 1 ∨ x = -1

theorem cAnnealQuso_ok (src : Src ρ α) (h : List α) (nn nb : List Int) (J Ts : List α) (numAnneals : Int)
    (inOrder : Bool) (init : List Int) (rng : ρ) (hsrc : IndexOK src h.length)
    (wf : WFQuso h nn nb J Ts numAnneals init) :
    Ok (cAnnealQuso src h nn nb J Ts numAnneals inOrder init rng) (GoodOut numAnneals.toNat h.length) := by
  obtain ⟨hN1, hnnlen, hnnnn, hnnsum, hnblen, hnblt, hinit, hna, htot, hJ, hTs⟩ := wf
  obtain ⟨na, rfl⟩ : ∃ na : Nat, numAnneals = (na : Int) := ⟨numAnneals.toNat, by omega⟩
  simp only [INT_MAX] at htot hJ hTs
  generalize hNdef : h.length = N at *
  have htot' : na * N ≤ 2147483647 := by
    have : ((na * N : Nat) : Int) = (na : Int) * (N : Int) := by simp
    omega
  have hna' : 1 ≤ na := by omega
  have hNle : N ≤ 2147483647 := Nat.le_trans (le_mul_right' hna') htot'
  have hnale : na ≤ 2147483647 := Nat.le_trans (le_mul_left' hN1) htot'
  unfold cAnnealQuso
  rw [hNdef]
  refine Ok.bind (toInt_ok (by omega)) fun lenState e => ?_
  subst e
  refine Ok.bind (toInt_ok (by omega)) fun lenJ e => ?_
  subst e
  refine Ok.bind (toInt_ok (by omega)) fun lenTs e => ?_
  subst e
  refine Ok.bind (malloc_nat_ok N 8 Any (by omega)) fun hB0 hhB0 => ?_
  refine Ok.bind (malloc_nat_ok N 4 Any (by omega)) fun nnB0 hnnB0 => ?_
  refine Ok.bind (malloc_nat_ok J.length 4 Any (by omega)) fun nbB0 hnbB0 => ?_
  refine Ok.bind (malloc_nat_ok J.length 8 Any (by omega)) fun JB0 hJB0 => ?_
  refine Ok.bind (malloc_nat_ok Ts.length 8 Any (by omega)) fun TsB0 hTsB0 => ?_
  simp only [Int.toNat_natCast]
  refine Ok.bind (marshal_ok (p := Any) hhB0 (by omega) fun i v _ _ => Ok.pure trivial) fun hB hhB => ?_
  have hnn_le : ∀ x ∈ nn, x ≤ 2147483647 := fun x hx => by
    have := le_sum_of_mem hnnnn x hx
    omega
  refine Ok.bind (marshal_ok (p := fun i v => nn[i]? = some v) hnnB0 (by omega) fun i v _ hv => ?_) fun nnB hnnB => ?_
  · have hm := mem_of_getElem? hv
    refine (toInt_ok ⟨by have := hnnnn v hm; omega, hnn_le v hm⟩).mono fun w hw => by rw [hw]; exact hv
  refine Ok.bind (marshal_ok (p := fun _ v => 0 ≤ v ∧ v < (N : Int)) hnbB0 (by omega) fun i v _ hv => ?_)
    fun nbB hnbB => ?_
  · have hm := hnblt v (mem_of_getElem? hv)
    refine (toInt_ok (by omega)).mono fun w hw => by rw [hw]; exact hm
  refine Ok.bind (marshal_ok (p := Any) hJB0 (by omega) fun i v _ _ => Ok.pure trivial) fun JB hJB => ?_
  refine Ok.bind (marshal_ok (p := Any) hTsB0 (by omega) fun i v _ _ => Ok.pure trivial) fun TsB hTsB => ?_
  refine Ok.bind (malloc_nat_ok na 8 Any (by omega)) fun values0 hvalues0 => ?_
  refine Ok.bind (imul_flat (Nat.le_refl _) htot') fun total e => ?_
  subst e
  refine Ok.bind (malloc_nat_ok (na * N) 4 Spins (by omega)) fun states0 hstates0 => ?_
  have hinitlen : init.length ≤ 2147483647 := by
    rcases hinit with rfl | ⟨hl, _⟩
    · simp
    · omega
  refine Ok.bind (toInt_ok (by omega)) fun provided e => ?_
  subst e
  have ctx : QCtx { h := hB, nn := nnB, nb := nbB, J := JB } N nn J.length :=
    { h := hhB, nnB := hnnB, nb := hnbB, J := hJB, nn_nonneg := hnnnn, nn_sum := hnnsum,
      lenJ_le := by omega, N_le := by omega }
  -- the rest of the function, for a `states` buffer filled up to `k0`
  have rest : ∀ (states : Buf Int) (k0 : Nat) (prov : Bool), states.Upto (na * N) k0 Spins →
      (prov = true → k0 = na * N) →
      Ok (do
        let sv ← annealQuso src (na : Int) states values0 N { h := hB, nn := nnB, nb := nbB, J := JB }
          Ts.length TsB inOrder prov rng
        let out ← buildPy (na : Int) N sv.1 sv.2
        let hB ← hB.free
        let nnB ← nnB.free
        let nbB ← nbB.free
        let JB ← JB.free
        let TsB ← TsB.free
        let states ← sv.1.free
        let values ← sv.2.free
        noLeak [hB.live, nnB.live, nbB.live, JB.live, TsB.live, states.live, values.live]
        pure out) (GoodOut (na : Int).toNat N) := by
    intro states k0 prov hst hprov
    have hA := annealQuso_ok (src := src) ctx hN1 hsrc inOrder prov hTsB (na : Int)
      (by simpa using htot') (states := states) (k0 := k0) (by simpa using hst) (by simpa using hprov)
      (values := values0) (by simpa using hvalues0) rng
    simp only [Int.toNat_natCast] at hA ⊢
    refine Ok.bind hA fun sv hsv => ?_
    refine Ok.bind (buildPy_ok htot' hsv.1 hsv.2) fun out hout => ?_
    refine Ok.bind (free_ok hhB.live) fun b1 h1 => ?_
    refine Ok.bind (free_ok hnnB.live) fun b2 h2 => ?_
    refine Ok.bind (free_ok hnbB.live) fun b3 h3 => ?_
    refine Ok.bind (free_ok hJB.live) fun b4 h4 => ?_
    refine Ok.bind (free_ok hTsB.live) fun b5 h5 => ?_
    refine Ok.bind (free_ok hsv.1.live) fun b6 h6 => ?_
    refine Ok.bind (free_ok hsv.2.live) fun b7 h7 => ?_
    refine Ok.bind (noLeak_ok (by
      intro b hb
      simp at hb
      rcases hb with rfl | rfl | rfl | rfl | rfl | rfl | rfl
      · exact h1.1
      · exact h2.1
      · exact h3.1
      · exact h4.1
      · exact h5.1
      · exact h6.1
      · exact h7.1)) fun _ _ => ?_
    exact Ok.pure hout
  split
  · rename_i hp
    have hne : init ≠ [] := fun e => hp (by simp [e])
    obtain ⟨hl, hsp⟩ := hinit.resolve_left hne
    refine Ok.bind (encodeInit_ok false (by omega) hsp htot' hstates0) fun states hst => ?_
    have hd : decide ((init.length : Int) ≠ 0) = true := by simpa using hp
    rw [hd]
    exact rest states (na * N) true hst (fun _ => rfl)
  · rename_i hp
    have hd : decide ((init.length : Int) ≠ 0) = false := by simpa using hp
    rw [hd]
    exact rest states0 0 false hstates0 (fun h => by simp at h)

end

end Qv.KMem
