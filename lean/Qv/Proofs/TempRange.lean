import Qv.Proofs.Extrema
import Qv.Model.TempRange
/-!
# Helper lemmas for C15: the rational part of `anneal_temperature_range`

Main facts: the variable set the function reads is the set of labels of the current keys, so it covers
them (`Cover`), hence `max_del_energy ≥ min_del_energy ≥ 0` whenever the function returns; the core raises
`ValueError` exactly when the variable set is non-empty while no term has a label, which cannot happen
for the set computed from the keys: on admissible probabilities the function never raises (defect D6,
repaired in /repo, was the stale cache `_variables` being read instead).
-/
namespace Qv

private theorem exc_bind_ok {α β : Type} {a : Except Err α} {f : α → Except Err β} {b : β} :
    (a >>= f) = .ok b ↔ ∃ a', a = .ok a' ∧ f a' = .ok b := by
  cases a with
  | error e => simp [bind, Except.bind]
  | ok a' => simp [bind, Except.bind]

/-! ### the cache -/

theorem mem_addVars (i : Var) (k : Key) (vars : List Var) :
    i ∈ addVars vars k ↔ i ∈ vars ∨ i ∈ k := by
  induction k generalizing vars with
  | nil => simp [addVars]
  | cons j r ih =>
    simp only [addVars, ih, List.mem_cons]
    split
    · rename_i hj
      constructor
      · rintro (h | h)
        · exact Or.inl h
        · exact Or.inr (Or.inr h)
      · rintro (h | h | h)
        · exact Or.inl h
        · subst h; exact Or.inl hj
        · exact Or.inr h
    · simp only [List.mem_cons]
      constructor
      · rintro ((h | h) | h)
        · exact Or.inr (Or.inl h)
        · exact Or.inl h
        · exact Or.inr (Or.inr h)
      · rintro (h | h | h)
        · exact Or.inl (Or.inr h)
        · exact Or.inl (Or.inl h)
        · exact Or.inr h

theorem addVars_nil_key (vars : List Var) : addVars vars [] = vars := rfl

/-- every label of every current key is in the variable set -/
def Cover (p : Poly) (vars : List Var) : Prop := ∀ kv ∈ p, ∀ i ∈ kv.1, i ∈ vars

theorem mem_erase_sub {p : Poly} {k : Key} {kv : Key × Rat} (h : kv ∈ erase p k) : kv ∈ p := by
  induction p with
  | nil => simp [erase] at h
  | cons a r ih =>
    obtain ⟨k', v'⟩ := a
    unfold erase at h
    split at h
    · exact List.mem_cons_of_mem _ h
    · rcases List.mem_cons.1 h with h | h
      · subst h; exact List.mem_cons_self ..
      · exact List.mem_cons_of_mem _ (ih h)

theorem mem_put_sub {p : Poly} {k : Key} {v : Rat} {kv : Key × Rat} (h : kv ∈ put p k v) :
    kv ∈ p ∨ kv = (k, v) := by
  induction p with
  | nil => simp [put] at h; exact Or.inr h
  | cons a r ih =>
    obtain ⟨k', v'⟩ := a
    unfold put at h
    split at h
    · rcases List.mem_cons.1 h with h | h
      · exact Or.inr h
      · exact Or.inl (List.mem_cons_of_mem _ h)
    · rcases List.mem_cons.1 h with h | h
      · subst h; exact Or.inl (List.mem_cons_self ..)
      · rcases ih h with h | h
        · exact Or.inl (List.mem_cons_of_mem _ h)
        · exact Or.inr h

theorem cover_setItemV {sq : Sq} {s s' : MState} {k : Key} {v : Rat} (hc : Cover s.p s.vars)
    (h : setItemV sq s k v = .ok s') : Cover s'.p s'.vars := by
  simp only [setItemV, exc_bind_ok, pure, Except.pure] at h
  obtain ⟨k', _, h⟩ := h
  injection h with h
  subst h
  intro kv hkv i hi
  simp only [set] at hkv
  by_cases hv : v = 0
  · simp only [hv, if_true] at hkv ⊢
    exact hc kv (mem_erase_sub hkv) i hi
  · simp only [hv, if_false] at hkv ⊢
    rw [mem_addVars]
    rcases mem_put_sub hkv with h | h
    · exact Or.inl (hc kv h i hi)
    · subst h; exact Or.inr hi

theorem cover_addTermV {sq : Sq} {s s' : MState} {k : Key} {v : Rat} (hc : Cover s.p s.vars)
    (h : addTermV sq s k v = .ok s') : Cover s'.p s'.vars := by
  simp only [addTermV, exc_bind_ok] at h
  obtain ⟨k', _, h⟩ := h
  exact cover_setItemV hc h

theorem cover_iaddV {sq : Sq} {d : Poly} {s s' : MState} (hc : Cover s.p s.vars)
    (h : iaddV sq s d = .ok s') : Cover s'.p s'.vars := by
  induction d generalizing s with
  | nil => simp [iaddV] at h; subst h; exact hc
  | cons kv r ih =>
    obtain ⟨k, v⟩ := kv
    simp only [iaddV, exc_bind_ok] at h
    obtain ⟨s1, h1, h2⟩ := h
    exact ih (cover_addTermV hc h1) h2

theorem cover_applyEdits {sq : Sq} {es : List Edit} {s s' : MState} (hc : Cover s.p s.vars)
    (h : applyEdits sq s es = .ok s') : Cover s'.p s'.vars := by
  induction es generalizing s with
  | nil => simp [applyEdits] at h; subst h; exact hc
  | cons e r ih =>
    cases e with
    | setE k v =>
      simp only [applyEdits, exc_bind_ok] at h
      obtain ⟨s1, h1, h2⟩ := h
      exact ih (cover_setItemV hc h1) h2
    | addE k v =>
      simp only [applyEdits, exc_bind_ok] at h
      obtain ⟨s1, h1, h2⟩ := h
      exact ih (cover_addTermV hc h1) h2

theorem cover_empty : Cover ([] : Poly) ([] : List Var) := by
  intro kv h; simp at h

theorem cover_buildObj {κ : Kind} {d : Poly} {es : List Edit} {s : MState}
    (h : buildObj κ d es = .ok s) : Cover s.p s.vars := by
  simp only [buildObj, exc_bind_ok] at h
  obtain ⟨s1, h1, h2⟩ := h
  exact cover_applyEdits (cover_iaddV cover_empty h1) h2

theorem cover_p2sRow {l : List (Key × Rat)} {v : Rat} {s s' : MState} (hc : Cover s.p s.vars)
    (h : p2sRow s v l = .ok s') : Cover s'.p s'.vars := by
  induction l generalizing s with
  | nil => simp [p2sRow] at h; subst h; exact hc
  | cons kv r ih =>
    obtain ⟨key, value⟩ := kv
    simp only [p2sRow, exc_bind_ok] at h
    obtain ⟨s1, h1, h2⟩ := h
    exact ih (cover_addTermV hc h1) h2

theorem cover_p2sRows {d : Poly} {s s' : MState} (hc : Cover s.p s.vars)
    (h : p2sRows s d = .ok s') : Cover s'.p s'.vars := by
  induction d generalizing s with
  | nil => simp [p2sRows] at h; subst h; exact hc
  | cons kv r ih =>
    obtain ⟨k, v⟩ := kv
    simp only [p2sRows, exc_bind_ok] at h
    obtain ⟨s1, h1, h2⟩ := h
    exact ih (cover_p2sRow hc h1) h2

theorem mem_keysVars (i : Var) (p : Poly) (vars : List Var) :
    i ∈ keysVars vars p ↔ i ∈ vars ∨ ∃ kv ∈ p, i ∈ kv.1 := by
  induction p generalizing vars with
  | nil => simp [keysVars]
  | cons kv r ih =>
    obtain ⟨k, v⟩ := kv
    simp only [keysVars, ih, mem_addVars, List.mem_cons]
    constructor
    · rintro ((h | h) | ⟨kv, h, hi⟩)
      · exact Or.inl h
      · exact Or.inr ⟨(k, v), Or.inl rfl, h⟩
      · exact Or.inr ⟨kv, Or.inr h, hi⟩
    · rintro (h | ⟨kv, h | h, hi⟩)
      · exact Or.inl (Or.inl h)
      · subst h; exact Or.inl (Or.inr hi)
      · exact Or.inr ⟨kv, h, hi⟩

/-- the variable set read is the one computed from the keys of the terms read -/
theorem readModel_vars {inp : Input} {spin : Bool} {s : MState} (h : readModel inp spin = .ok s) :
    s.vars = keysVars [] s.p := by
  cases inp with
  | raw d =>
    cases spin with
    | true =>
      simp only [readModel] at h
      injection h with h; subst h; rfl
    | false =>
      simp only [readModel, exc_bind_ok, pure, Except.pure] at h
      obtain ⟨h', _, h⟩ := h
      injection h with h; subst h; rfl
  | obj κ d es =>
    cases spin with
    | true =>
      simp only [readModel, exc_bind_ok, pure, Except.pure] at h
      obtain ⟨s1, _, h⟩ := h
      injection h with h; subst h; rfl
    | false =>
      simp only [readModel, exc_bind_ok, pure, Except.pure] at h
      obtain ⟨s1, _, h', _, h⟩ := h
      injection h with h; subst h; rfl

theorem cover_keysVars (p : Poly) : Cover p (keysVars [] p) := by
  intro kv hkv i hi
  exact (mem_keysVars i p []).2 (Or.inr ⟨kv, hkv, hi⟩)

theorem cover_readModel {inp : Input} {spin : Bool} {s : MState} (h : readModel inp spin = .ok s) :
    Cover s.p s.vars := by
  rw [readModel_vars h]; exact cover_keysVars s.p

/-! ### min / max of a generator -/

theorem minList_none {l : List Rat} : minList l = none ↔ l = [] := by
  cases l with
  | nil => simp [minList]
  | cons a r => simp only [minList]; split <;> simp

theorem maxList_none {l : List Rat} : maxList l = none ↔ l = [] := by
  cases l with
  | nil => simp [maxList]
  | cons a r => simp only [maxList]; split <;> simp

theorem minList_mem {l : List Rat} {m : Rat} (h : minList l = some m) : m ∈ l := by
  induction l generalizing m with
  | nil => simp [minList] at h
  | cons a r ih =>
    simp only [minList] at h
    split at h
    · injection h with h; subst h; exact List.mem_cons_self ..
    · rename_i b hb
      injection h with h
      split at h
      · subst h; exact List.mem_cons_of_mem _ (ih hb)
      · subst h; exact List.mem_cons_self ..

theorem maxList_ge {l : List Rat} {M : Rat} (h : maxList l = some M) : ∀ x ∈ l, x ≤ M := by
  induction l generalizing M with
  | nil => simp [maxList] at h
  | cons a r ih =>
    simp only [maxList] at h
    split at h
    · rename_i hn
      injection h with h; subst h
      rw [maxList_none] at hn; subst hn
      intro x hx; simp at hx; subst hx; exact le_refl _
    · rename_i b hb
      injection h with h
      have ihb := ih hb
      intro x hx
      rcases List.mem_cons.1 hx with hx | hx
      · subst hx; split at h <;> subst h
        · exact le_of_lt (by assumption)
        · exact le_refl _
      · have := ihb x hx
        split at h <;> subst h
        · exact this
        · rename_i hlt; exact le_trans this (not_lt.1 hlt)

theorem mem_absNonconst {p : Poly} {m : Rat} (h : m ∈ absNonconst p) :
    ∃ k c, (k, c) ∈ p ∧ k ≠ [] ∧ m = absR c := by
  induction p with
  | nil => simp [absNonconst] at h
  | cons kv r ih =>
    obtain ⟨k, c⟩ := kv
    simp only [absNonconst] at h
    split at h
    · obtain ⟨k', c', h1, h2, h3⟩ := ih h
      exact ⟨k', c', List.mem_cons_of_mem _ h1, h2, h3⟩
    · rename_i hk
      rcases List.mem_cons.1 h with h | h
      · exact ⟨k, c, List.mem_cons_self .., hk, h⟩
      · obtain ⟨k', c', h1, h2, h3⟩ := ih h
        exact ⟨k', c', List.mem_cons_of_mem _ h1, h2, h3⟩

theorem absNonconst_nil_iff {p : Poly} : absNonconst p = [] ↔ ∀ kv ∈ p, kv.1 = [] := by
  induction p with
  | nil => simp [absNonconst]
  | cons kv r ih =>
    obtain ⟨k, c⟩ := kv
    simp only [absNonconst]
    split
    · rename_i hk
      rw [ih]
      constructor
      · intro h kv hkv
        rcases List.mem_cons.1 hkv with h' | h'
        · subst h'; exact hk
        · exact h kv h'
      · intro h kv hkv; exact h kv (List.mem_cons_of_mem _ hkv)
    · rename_i hk
      constructor
      · intro h; simp at h
      · intro h; exact absurd (h (k, c) (List.mem_cons_self ..)) hk

theorem absSum_nonneg (v : Var) (p : Poly) : 0 ≤ absSum v p := by
  induction p with
  | nil => simp [absSum]
  | cons kv r ih =>
    obtain ⟨k, c⟩ := kv
    simp only [absSum]
    have := absR_nonneg c
    split <;> linarith

theorem absSum_ge {v : Var} {p : Poly} {k : Key} {c : Rat} (h : (k, c) ∈ p) (hv : v ∈ k) :
    absR c ≤ absSum v p := by
  induction p with
  | nil => simp at h
  | cons kv r ih =>
    obtain ⟨k', c'⟩ := kv
    simp only [absSum]
    rcases List.mem_cons.1 h with h | h
    · injection h with h1 h2
      subst h1; subst h2
      simp only [hv, if_true]
      have := absSum_nonneg v r
      linarith
    · have := ih h
      have := absR_nonneg c'
      split <;> linarith

/-! ### the core -/

/-- shape of a successful return: either `(0, 0)` because the variable set read is empty, or the two
energy changes with `max ≥ min ≥ 0` (each replaced by the literal 0 when its probability is 0) -/
theorem tempRangeCore_ok {p : Poly} {vars : List Var} {ps pe : Rat} {t0 tf : Temp}
    (hc : Cover p vars) (h : tempRangeCore p vars ps pe = .ok (t0, tf)) :
    (vars = [] ∧ t0 = .zero ∧ tf = .zero) ∨
    (vars ≠ [] ∧ ∃ M m : Rat, 0 ≤ m ∧ m ≤ M ∧
      t0 = (if ps = 0 then .zero else .ofDelta M) ∧ tf = (if pe = 0 then .zero else .ofDelta m)) := by
  unfold tempRangeCore at h
  split at h
  · rename_i hv
    injection h with h; injection h with h1 h2
    exact Or.inl ⟨hv, h1.symm, h2.symm⟩
  · rename_i hv
    right
    refine ⟨hv, ?_⟩
    split at h
    · cases h
    · rename_i m hm
      split at h
      · cases h
      · rename_i M hM
        injection h with h; injection h with h1 h2
        obtain ⟨k, c, hkc, hk, hmc⟩ := mem_absNonconst (minList_mem hm)
        obtain ⟨i, r, rfl⟩ : ∃ i r, k = i :: r := by
          cases k with
          | nil => exact absurd rfl hk
          | cons i r => exact ⟨i, r, rfl⟩
        have hi : i ∈ vars := hc (i :: r, c) hkc i (List.mem_cons_self ..)
        have h3 : absSum i p ≤ M := maxList_ge hM _ (List.mem_map.2 ⟨i, hi, rfl⟩)
        have h4 : absR c ≤ absSum i p := absSum_ge hkc (List.mem_cons_self ..)
        have h5 := absR_nonneg c
        refine ⟨2 * M, 2 * m, by rw [hmc]; linarith, by rw [hmc]; linarith, h1.symm, h2.symm⟩

/-- `ValueError` out of the core happens exactly on a stale variable set -/
theorem tempRangeCore_error_iff {p : Poly} {vars : List Var} {ps pe : Rat} {e : Err} :
    tempRangeCore p vars ps pe = .error e ↔ e = .value ∧ vars ≠ [] ∧ ∀ kv ∈ p, kv.1 = [] := by
  unfold tempRangeCore
  split
  · rename_i hv; simp [hv]
  · rename_i hv
    split
    · rename_i hm
      rw [minList_none, absNonconst_nil_iff] at hm
      constructor
      · intro h; injection h with h; exact ⟨h.symm, hv, hm⟩
      · rintro ⟨rfl, _, _⟩; rfl
    · rename_i m hm
      have hne : ¬ ∀ kv ∈ p, kv.1 = [] := by
        rw [← absNonconst_nil_iff, ← minList_none, hm]; simp
      split
      · rename_i hM
        rw [maxList_none] at hM
        exact absurd (List.map_eq_nil_iff.1 hM) hv
      · constructor
        · intro h; cases h
        · rintro ⟨_, _, h⟩; exact absurd h hne

/-! ### the whole function -/

theorem tempRange_admissible {inp : Input} {ps pe : Rat} {spin : Bool} {r : Temp × Temp}
    (h : tempRange inp ps pe spin = .ok r) : 0 ≤ pe ∧ pe ≤ ps ∧ ps < 1 := by
  unfold tempRange at h
  split at h
  · cases h
  · rename_i h1
    split at h
    · cases h
    · rename_i h2
      simp only [not_or, not_lt, not_le] at h1 h2
      exact ⟨h1.2.2.1, h2, h1.2.1⟩

theorem tempRange_eq {inp : Input} {ps pe : Rat} {spin : Bool}
    (h0 : 0 ≤ pe) (h1 : pe ≤ ps) (h2 : ps < 1) :
    tempRange inp ps pe spin = (readModel inp spin >>= fun s => tempRangeCore s.p s.vars ps pe) := by
  unfold tempRange
  have hps : 0 ≤ ps := le_trans h0 h1
  have hpe : pe < 1 := lt_of_le_of_lt h1 h2
  rw [if_neg (by simp only [not_or, not_lt, not_le]; exact ⟨hps, h2, h0, hpe⟩), if_neg (not_lt.2 h1)]

theorem tempRange_ok {inp : Input} {ps pe : Rat} {spin : Bool} {t0 tf : Temp}
    (h : tempRange inp ps pe spin = .ok (t0, tf)) :
    (0 ≤ pe ∧ pe ≤ ps ∧ ps < 1) ∧
    ((t0 = .zero ∧ tf = .zero) ∨
     (∃ M m : Rat, 0 ≤ m ∧ m ≤ M ∧
      t0 = (if ps = 0 then .zero else .ofDelta M) ∧ tf = (if pe = 0 then .zero else .ofDelta m))) := by
  have ha := tempRange_admissible h
  refine ⟨ha, ?_⟩
  rw [tempRange_eq ha.1 ha.2.1 ha.2.2, exc_bind_ok] at h
  obtain ⟨s, hs, h⟩ := h
  rcases tempRangeCore_ok (cover_readModel hs) h with ⟨_, h1, h2⟩ | ⟨_, h'⟩
  · exact Or.inl ⟨h1, h2⟩
  · exact Or.inr h'

/-! ### models without variables -/

theorem keysVars_const {d : Poly} (hd : ∀ kv ∈ d, kv.1 = []) (vars : List Var) :
    keysVars vars d = vars := by
  induction d generalizing vars with
  | nil => rfl
  | cons kv r ih =>
    obtain ⟨k, v⟩ := kv
    have hk : k = [] := hd (k, v) (List.mem_cons_self ..)
    subst hk
    simp only [keysVars, addVars_nil_key]
    exact ih (fun kv h => hd kv (List.mem_cons_of_mem _ h)) vars

/-- all keys are `()` -/
def AllConst (p : Poly) : Prop := ∀ kv ∈ p, kv.1 = []

theorem allConst_set {p : Poly} (hp : AllConst p) (v : Rat) : AllConst (set p [] v) := by
  intro kv hkv
  unfold set at hkv
  split at hkv
  · exact hp kv (mem_erase_sub hkv)
  · rcases mem_put_sub hkv with h | h
    · exact hp kv h
    · subst h; rfl

/-- `pubo_to_puso` of a model whose keys are all `()` yields a model whose keys are all `()` -/
theorem p2sRows_const {d : Poly} (hd : AllConst d) (s : MState) (hs : AllConst s.p) :
    ∃ s', p2sRows s d = .ok s' ∧ AllConst s'.p := by
  induction d generalizing s with
  | nil => exact ⟨s, rfl, hs⟩
  | cons kv r ih =>
    obtain ⟨k, v⟩ := kv
    have hk : k = [] := hd (k, v) (List.mem_cons_self ..)
    subst hk
    obtain ⟨s', h1, h2⟩ := ih (fun kv h => hd kv (List.mem_cons_of_mem _ h))
      ⟨set s.p [] (get s.p [] + 1 * v), if get s.p [] + 1 * v = 0 then s.vars else s.vars⟩
      (allConst_set hs _)
    refine ⟨s', ?_, h2⟩
    rw [← h1]
    simp [p2sRows, genKV, p2sRow, addTermV, setItemV, squash, Kind.isSpin, Kind.isDeg2, squashS,
      bind, Except.bind, pure, Except.pure, addVars_nil_key]

theorem allConst_nil : AllConst ([] : Poly) := by intro kv h; simp at h

theorem tempRangeCore_nil (p : Poly) (ps pe : Rat) :
    tempRangeCore p [] ps pe = .ok (.zero, .zero) := by
  simp [tempRangeCore]

/-- whatever is read from a model whose (converted) terms have only `()` keys: empty variable set -/
theorem readModel_raw_const {d : Poly} (hd : AllConst d) (spin : Bool) :
    ∃ s, readModel (.raw d) spin = .ok s ∧ s.vars = [] := by
  cases spin with
  | true => exact ⟨⟨d, keysVars [] d⟩, rfl, keysVars_const hd []⟩
  | false =>
    obtain ⟨s', h1, h2⟩ := p2sRows_const hd ⟨[], []⟩ allConst_nil
    refine ⟨⟨s'.p, keysVars [] s'.p⟩, ?_, keysVars_const h2 []⟩
    simp only [readModel, puboToPusoV, h1, bind, Except.bind, pure, Except.pure]

theorem readModel_obj_const {κ : Kind} {d : Poly} {es : List Edit} {s : MState}
    (hb : buildObj κ d es = .ok s) (hd : AllConst s.p) (spin : Bool) :
    ∃ s', readModel (.obj κ d es) spin = .ok s' ∧ s'.vars = [] := by
  cases spin with
  | true =>
    refine ⟨⟨s.p, keysVars [] s.p⟩, ?_, keysVars_const hd []⟩
    simp only [readModel, hb, bind, Except.bind, pure, Except.pure]
  | false =>
    obtain ⟨s', h1, h2⟩ := p2sRows_const hd ⟨[], []⟩ allConst_nil
    refine ⟨⟨s'.p, keysVars [] s'.p⟩, ?_, keysVars_const h2 []⟩
    simp only [readModel, hb, puboToPusoV, h1, bind, Except.bind, pure, Except.pure]

theorem tempRange_raw_const {d : Poly} (hd : ∀ kv ∈ d, kv.1 = []) {ps pe : Rat}
    (h0 : 0 ≤ pe) (h1 : pe ≤ ps) (h2 : ps < 1) (spin : Bool) :
    tempRange (.raw d) ps pe spin = .ok (.zero, .zero) := by
  obtain ⟨s, hs, hv⟩ := readModel_raw_const hd spin
  rw [tempRange_eq h0 h1 h2, hs]
  show tempRangeCore s.p s.vars ps pe = _
  rw [hv, tempRangeCore_nil]

/-- an object whose current keys are all `()` gives `(0, 0)` whatever its history, on both paths -/
theorem tempRange_obj_const {κ : Kind} {d : Poly} {es : List Edit} {s : MState}
    (hb : buildObj κ d es = .ok s) (hd : ∀ kv ∈ s.p, kv.1 = []) {ps pe : Rat}
    (h0 : 0 ≤ pe) (h1 : pe ≤ ps) (h2 : ps < 1) (spin : Bool) :
    tempRange (.obj κ d es) ps pe spin = .ok (.zero, .zero) := by
  obtain ⟨s', hs, hv⟩ := readModel_obj_const hb hd spin
  rw [tempRange_eq h0 h1 h2, hs]
  show tempRangeCore s'.p s'.vars ps pe = _
  rw [hv, tempRangeCore_nil]

/-! ### the function never raises on admissible probabilities -/

theorem addTermV_puso_ok (s : MState) (k : Key) (v : Rat) :
    ∃ s', addTermV (squash .puso) s k v = .ok s' := by
  simp [addTermV, setItemV, squash, Kind.isSpin, Kind.isDeg2, bind, Except.bind, pure, Except.pure]

theorem p2sRow_ok (l : List (Key × Rat)) (s : MState) (v : Rat) : ∃ s', p2sRow s v l = .ok s' := by
  induction l generalizing s with
  | nil => exact ⟨s, rfl⟩
  | cons kv r ih =>
    obtain ⟨key, value⟩ := kv
    obtain ⟨s1, h1⟩ := addTermV_puso_ok s key (value * v)
    obtain ⟨s2, h2⟩ := ih s1
    exact ⟨s2, by simp only [p2sRow, h1, bind, Except.bind]; exact h2⟩

theorem p2sRows_ok (d : Poly) (s : MState) : ∃ s', p2sRows s d = .ok s' := by
  induction d generalizing s with
  | nil => exact ⟨s, rfl⟩
  | cons kv r ih =>
    obtain ⟨k, v⟩ := kv
    obtain ⟨s1, h1⟩ := p2sRow_ok (genKV k) s v
    obtain ⟨s2, h2⟩ := ih s1
    exact ⟨s2, by simp only [p2sRows, h1, bind, Except.bind]; exact h2⟩

/-- reading the model fails only if the object could not be constructed in the first place -/
theorem readModel_ok (inp : Input) (spin : Bool)
    (hb : ∀ κ d es, inp = .obj κ d es → ∃ s, buildObj κ d es = .ok s) :
    ∃ s, readModel inp spin = .ok s := by
  cases inp with
  | raw d =>
    cases spin with
    | true => exact ⟨_, rfl⟩
    | false =>
      obtain ⟨h, hh⟩ := p2sRows_ok d ⟨[], []⟩
      exact ⟨⟨h.p, keysVars [] h.p⟩, by
        simp only [readModel, puboToPusoV, hh, bind, Except.bind, pure, Except.pure]⟩
  | obj κ d es =>
    obtain ⟨s, hs⟩ := hb κ d es rfl
    cases spin with
    | true =>
      exact ⟨⟨s.p, keysVars [] s.p⟩, by
        simp only [readModel, hs, bind, Except.bind, pure, Except.pure]⟩
    | false =>
      obtain ⟨h, hh⟩ := p2sRows_ok s.p ⟨[], []⟩
      exact ⟨⟨h.p, keysVars [] h.p⟩, by
        simp only [readModel, hs, puboToPusoV, hh, bind, Except.bind, pure, Except.pure]⟩

/-- the core never raises on the variable set computed from the keys -/
theorem tempRangeCore_keys_ok (p : Poly) (ps pe : Rat) :
    ∃ r, tempRangeCore p (keysVars [] p) ps pe = .ok r := by
  cases h : tempRangeCore p (keysVars [] p) ps pe with
  | ok r => exact ⟨r, rfl⟩
  | error e =>
    obtain ⟨_, hv, hc⟩ := tempRangeCore_error_iff.1 h
    exact absurd (keysVars_const hc []) hv

theorem tempRange_never_raises (inp : Input) (spin : Bool) {ps pe : Rat}
    (hb : ∀ κ d es, inp = .obj κ d es → ∃ s, buildObj κ d es = .ok s)
    (h0 : 0 ≤ pe) (h1 : pe ≤ ps) (h2 : ps < 1) :
    ∃ t0 tf, tempRange inp ps pe spin = .ok (t0, tf) := by
  obtain ⟨s, hs⟩ := readModel_ok inp spin hb
  rw [tempRange_eq h0 h1 h2, hs]
  show ∃ t0 tf, tempRangeCore s.p s.vars ps pe = _
  rw [readModel_vars hs]
  obtain ⟨⟨t0, tf⟩, hr⟩ := tempRangeCore_keys_ok s.p ps pe
  exact ⟨t0, tf, hr⟩

theorem tempRange_inadmissible (inp : Input) (ps pe : Rat) (spin : Bool)
    (h : ¬ (0 ≤ pe ∧ pe ≤ ps ∧ ps < 1)) : tempRange inp ps pe spin = .error .value := by
  unfold tempRange
  split
  · rfl
  · rename_i h1
    split
    · rfl
    · rename_i h2
      simp only [not_or, not_lt, not_le] at h1 h2
      exact absurd ⟨h1.2.2.1, h2, h1.2.1⟩ h

end Qv
