import Qv.Proofs.Expr
import Qv.Model.Convert
/-!
# Helper lemmas for C04: conversions preserve the function
-/
namespace Qv

/-- boolean → spin: `0 ↦ 1`, `1 ↦ -1` -/
def b2s (x : Var → Rat) : Var → Rat := fun i => 1 - 2 * x i
/-- spin → boolean: `1 ↦ 0`, `-1 ↦ 1` -/
def s2b (z : Var → Rat) : Var → Rat := fun i => (1 - z i) / 2

theorem isBool_s2b {z : Var → Rat} (hz : IsSpin z) : IsBool (s2b z) := by
  intro i; rcases hz i with h | h <;> simp [s2b, h] <;> norm_num

theorem isSpin_b2s {x : Var → Rat} (hx : IsBool x) : IsSpin (b2s x) := by
  intro i; rcases hx i with h | h <;> simp [b2s, h] <;> norm_num

theorem b2s_s2b (z : Var → Rat) : b2s (s2b z) = z := by
  funext i; simp [b2s, s2b]; ring

theorem s2b_b2s (x : Var → Rat) : s2b (b2s x) = x := by
  funext i; simp [b2s, s2b]

theorem eval_append (x : Var → Rat) (p q : Poly) : eval x (p ++ q) = eval x p + eval x q := by
  induction p with
  | nil => simp
  | cons kv r ih => obtain ⟨k, v⟩ := kv; simp [ih]; ring

/-- `eval` only looks at the labels that occur -/
theorem mon_congr {x y : Var → Rat} {k : Key} (h : ∀ i ∈ k, x i = y i) : mon x k = mon y k := by
  induction k with
  | nil => rfl
  | cons i r ih =>
    simp only [mon_cons]
    rw [h i List.mem_cons_self, ih (fun j hj => h j (List.mem_cons_of_mem _ hj))]

theorem eval_congr_keys {x y : Var → Rat} {p : Poly} (h : ∀ kv ∈ p, ∀ i ∈ kv.1, x i = y i) :
    eval x p = eval y p := by
  induction p with
  | nil => rfl
  | cons kv r ih =>
    obtain ⟨k, v⟩ := kv
    simp only [eval_cons]
    rw [mon_congr (h (k, v) List.mem_cons_self), ih (fun kv hkv => h kv (List.mem_cons_of_mem _ hkv))]

/-! ### `generate_new_key_value` -/

theorem eval_genB2S (z : Var → Rat) (k : Key) : eval z (genB2S k) = mon (s2b z) k := by
  induction k with
  | nil => simp [genB2S]
  | cons i r ih =>
    have key : ∀ g : List (Key × Rat),
        eval z (g.flatMap (fun kv => [(i :: kv.1, -kv.2 / 2), (kv.1, kv.2 / 2)])) = s2b z i * eval z g := by
      intro g
      induction g with
      | nil => simp
      | cons kv g ihg =>
        obtain ⟨k', v'⟩ := kv
        simp only [List.flatMap_cons, eval_append, ihg, eval_cons, mon_cons, eval_nil, s2b]
        ring
    simp only [genB2S, key, ih, mon_cons]

theorem eval_genS2B (x : Var → Rat) (k : Key) : eval x (genS2B k) = mon (b2s x) k := by
  induction k with
  | nil => simp [genS2B]
  | cons i r ih =>
    have key : ∀ g : List (Key × Rat),
        eval x (g.flatMap (fun kv => [(i :: kv.1, -2 * kv.2), (kv.1, kv.2)])) = b2s x i * eval x g := by
      intro g
      induction g with
      | nil => simp
      | cons kv g ihg =>
        obtain ⟨k', v'⟩ := kv
        simp only [List.flatMap_cons, eval_append, ihg, eval_cons, mon_cons, eval_nil, b2s]
        ring
    simp only [genS2B, key, ih, mon_cons]

/-! ### the loops of `pubo_to_puso` / `puso_to_pubo` -/

theorem eval_addGen {sq : Sq} {x : Var → Rat} (hs : SqOK sq x) {g : List (Key × Rat)} {acc acc' : Poly}
    {v : Rat} (h : addGen sq acc g v = .ok acc') : eval x acc' = eval x acc + v * eval x g := by
  induction g generalizing acc with
  | nil => simp [addGen] at h; subst h; simp
  | cons kv r ih =>
    obtain ⟨key, value⟩ := kv
    simp only [addGen, bind, Except.bind] at h
    cases h1 : addTerm sq acc key (value * v) with
    | error e => simp [h1] at h
    | ok a1 =>
      simp [h1] at h
      rw [ih h, eval_addTerm hs h1, eval_cons]; ring

theorem eval_convLoop {gen : Key → List (Key × Rat)} {sq : Sq} {x y : Var → Rat}
    (hgen : ∀ k, eval x (gen k) = mon y k) (hs : SqOK sq x) {p acc r : Poly}
    (h : convLoop gen sq acc p = .ok r) : eval x r = eval x acc + eval y p := by
  induction p generalizing acc with
  | nil => simp [convLoop] at h; subst h; simp
  | cons kv rest ih =>
    obtain ⟨k, v⟩ := kv
    simp only [convLoop, bind, Except.bind] at h
    cases h1 : addGen sq acc (gen k) v with
    | error e => simp [h1] at h
    | ok a1 =>
      simp [h1] at h
      rw [ih h, eval_addGen hs h1, hgen, eval_cons]; ring

/-- a squash function that never raises -/
def SqTotal (sq : Sq) : Prop := ∀ k, ∃ k', sq k = .ok k'

theorem addTerm_total {sq : Sq} (ht : SqTotal sq) (p : Poly) (k : Key) (v : Rat) :
    ∃ p', addTerm sq p k v = .ok p' := by
  obtain ⟨k', hk⟩ := ht k
  exact ⟨set p k' (get p k' + v), by simp [addTerm, hk, bind, Except.bind, pure, Except.pure]⟩

theorem addGen_total {sq : Sq} (ht : SqTotal sq) (g : List (Key × Rat)) (acc : Poly) (v : Rat) :
    ∃ r, addGen sq acc g v = .ok r := by
  induction g generalizing acc with
  | nil => exact ⟨acc, rfl⟩
  | cons kv r ih =>
    obtain ⟨key, value⟩ := kv
    obtain ⟨a1, h1⟩ := addTerm_total ht acc key (value * v)
    obtain ⟨r', hr⟩ := ih a1
    exact ⟨r', by simp [addGen, h1, hr, bind, Except.bind]⟩

theorem convLoop_total {gen : Key → List (Key × Rat)} {sq : Sq} (ht : SqTotal sq) (p acc : Poly) :
    ∃ r, convLoop gen sq acc p = .ok r := by
  induction p generalizing acc with
  | nil => exact ⟨acc, rfl⟩
  | cons kv rest ih =>
    obtain ⟨k, v⟩ := kv
    obtain ⟨a1, h1⟩ := addGen_total ht (gen k) acc v
    obtain ⟨r', hr⟩ := ih a1
    exact ⟨r', by simp [convLoop, h1, hr, bind, Except.bind]⟩

theorem sqTotal_of_not_deg2 {κ : Kind} (h : κ.isDeg2 = false) : SqTotal (squash κ) := by
  intro k
  cases κ <;> simp [squash, Kind.isDeg2] at h ⊢

theorem kindPuboToPuso_spin (κ : Kind) : (kindPuboToPuso κ).isSpin = true ∧ (kindPuboToPuso κ).isDeg2 = false := by
  unfold kindPuboToPuso; split <;> simp [Kind.isSpin, Kind.isDeg2]

theorem kindPusoToPubo_bool (κ : Kind) : (kindPusoToPubo κ).isSpin = false ∧ (kindPusoToPubo κ).isDeg2 = false := by
  unfold kindPusoToPubo; split <;> simp [Kind.isSpin, Kind.isDeg2]

theorem kindQuboToQuso_spin (κ : Kind) : (kindQuboToQuso κ).isSpin = true := by
  unfold kindQuboToQuso; split <;> simp [Kind.isSpin]

theorem kindQusoToQubo_bool (κ : Kind) : (kindQusoToQubo κ).isSpin = false := by
  unfold kindQusoToQubo; split <;> simp [Kind.isSpin]

theorem eval_puboToPuso {κ : Kind} {p r : Poly} {z : Var → Rat} (hz : IsSpin z)
    (h : puboToPuso κ p = .ok r) : eval z r = eval (s2b z) p := by
  have := eval_convLoop (eval_genB2S z) (sqOK_spin (kindPuboToPuso_spin κ).1 hz) h
  simpa using this

theorem eval_pusoToPubo {κ : Kind} {p r : Poly} {x : Var → Rat} (hx : IsBool x)
    (h : pusoToPubo κ p = .ok r) : eval x r = eval (b2s x) p := by
  have := eval_convLoop (eval_genS2B x) (sqOK_bool (kindPusoToPubo_bool κ).1 hx) h
  simpa using this

/-! ### closed forms -/

theorem eval_quboToQusoTerm {sq : Sq} {z : Var → Rat} (hs : SqOK sq z) {L L' : Poly} {k : Key} {v : Rat}
    (h : quboToQusoTerm sq L k v = .ok L') : k.length ≤ 2 ∧ eval z L' = eval z L + v * mon (s2b z) k := by
  match k with
  | [] =>
    simp only [quboToQusoTerm] at h
    refine ⟨by simp, ?_⟩
    rw [eval_addTerm hs h]; simp
  | [i] =>
    simp only [quboToQusoTerm, bind_ok_iff] at h
    obtain ⟨L1, h1, h2⟩ := h
    refine ⟨by simp, ?_⟩
    rw [eval_addTerm hs h2, eval_addTerm hs h1]; simp [s2b]; ring
  | [i, j] =>
    simp only [quboToQusoTerm, bind_ok_iff] at h
    obtain ⟨L1, h1, L2, h2, L3, h3, h4⟩ := h
    refine ⟨by simp, ?_⟩
    rw [eval_addTerm hs h4, eval_addTerm hs h3, eval_addTerm hs h2, eval_addTerm hs h1]; simp [s2b]; ring
  | _ :: _ :: _ :: _ => simp [quboToQusoTerm] at h

theorem eval_qusoToQuboTerm {sq : Sq} {x : Var → Rat} (hs : SqOK sq x) {Q Q' : Poly} {k : Key} {v : Rat}
    (h : qusoToQuboTerm sq Q k v = .ok Q') : k.length ≤ 2 ∧ eval x Q' = eval x Q + v * mon (b2s x) k := by
  match k with
  | [] =>
    simp only [qusoToQuboTerm] at h
    refine ⟨by simp, ?_⟩
    rw [eval_addTerm hs h]; simp
  | [i] =>
    simp only [qusoToQuboTerm, bind_ok_iff] at h
    obtain ⟨L1, h1, h2⟩ := h
    refine ⟨by simp, ?_⟩
    rw [eval_addTerm hs h2, eval_addTerm hs h1]; simp [b2s]; ring
  | [i, j] =>
    simp only [qusoToQuboTerm, bind_ok_iff] at h
    obtain ⟨L1, h1, L2, h2, L3, h3, h4⟩ := h
    refine ⟨by simp, ?_⟩
    rw [eval_addTerm hs h4, eval_addTerm hs h3, eval_addTerm hs h2, eval_addTerm hs h1]; simp [b2s]; ring
  | _ :: _ :: _ :: _ => simp [qusoToQuboTerm] at h

theorem eval_closedLoop {term : Sq → Poly → Key → Rat → Except Err Poly} {src sq : Sq} {x y : Var → Rat}
    (hterm : ∀ {L L' : Poly} {k : Key} {v : Rat}, term sq L k v = .ok L' →
      k.length ≤ 2 ∧ eval x L' = eval x L + v * mon y k)
    (hsrc : SqOK src y) {p acc r : Poly}
    (h : closedLoop term src sq acc p = .ok r) : eval x r = eval x acc + eval y p := by
  induction p generalizing acc with
  | nil => simp [closedLoop] at h; subst h; simp
  | cons kv rest ih =>
    obtain ⟨kp, v⟩ := kv
    simp only [closedLoop, bind_ok_iff] at h
    obtain ⟨k, hk, a1, h1, h2⟩ := h
    rw [ih h2, (hterm h1).2, hsrc kp k hk, eval_cons]; ring

theorem sqOK_pure (x : Var → Rat) : SqOK (pure : Sq) x := by
  intro k k' h
  have : k' = k := by injection h with h; exact h.symm
  rw [this]

theorem sqOK_srcSquashQubo (κ : Kind) {x : Var → Rat} (hx : IsBool x) : SqOK (srcSquashQubo κ) x := by
  unfold srcSquashQubo; split
  · exact sqOK_pure x
  · exact sqOK_bool rfl hx

theorem sqOK_srcSquashQuso (κ : Kind) {z : Var → Rat} (hz : IsSpin z) : SqOK (srcSquashQuso κ) z := by
  unfold srcSquashQuso; split
  · exact sqOK_pure z
  · exact sqOK_spin rfl hz

theorem eval_quboToQuso {κ : Kind} {p r : Poly} {z : Var → Rat} (hz : IsSpin z)
    (h : quboToQuso κ p = .ok r) : eval z r = eval (s2b z) p := by
  have := eval_closedLoop (x := z) (y := s2b z)
    (fun h => eval_quboToQusoTerm (sqOK_spin (kindQuboToQuso_spin κ) hz) h)
    (sqOK_srcSquashQubo κ (isBool_s2b hz)) h
  simpa using this

theorem eval_qusoToQubo {κ : Kind} {p r : Poly} {x : Var → Rat} (hx : IsBool x)
    (h : qusoToQubo κ p = .ok r) : eval x r = eval (b2s x) p := by
  have := eval_closedLoop (x := x) (y := b2s x)
    (fun h => eval_qusoToQuboTerm (sqOK_bool (kindQusoToQubo_bool κ) hx) h)
    (sqOK_srcSquashQuso κ (isSpin_b2s hx)) h
  simpa using this

/-! ### when the closed forms succeed -/

theorem toggleU_length_le (a : Var) (k : Key) : (toggleU a k).length ≤ k.length + 1 := by
  induction k with
  | nil => simp [toggleU]
  | cons b bs ih =>
    unfold toggleU; split
    · simp
    · split
      · simp; omega
      · simp; omega

theorem squashS_length_le (k : Key) : (squashS k).length ≤ k.length := by
  induction k with
  | nil => simp [squashS]
  | cons a k ih =>
    show (toggleU a (squashS k)).length ≤ _
    have := toggleU_length_le a (squashS k)
    simp; omega

theorem insertU_length_le (a : Var) (k : Key) : (insertU a k).length ≤ k.length + 1 := by
  induction k with
  | nil => simp [insertU]
  | cons b bs ih =>
    unfold insertU; split
    · simp
    · split
      · simp
      · simp; omega

theorem squashB_length_le (k : Key) : (squashB k).length ≤ k.length := by
  induction k with
  | nil => simp [squashB]
  | cons a k ih =>
    show (insertU a (squashB k)).length ≤ _
    have := insertU_length_le a (squashB k)
    simp; omega

/-- `sq` accepts every key with at most two entries -/
def SqShort (sq : Sq) : Prop := ∀ k : Key, k.length ≤ 2 → ∃ k', sq k = .ok k'

theorem sqShort_squash (κ : Kind) : SqShort (squash κ) := by
  intro k hk
  have h1 := squashS_length_le k
  have h2 := squashB_length_le k
  cases κ <;> simp [squash, Kind.isDeg2, Kind.isSpin] <;>
    (split <;> first | (exfalso; omega) | exact ⟨_, rfl⟩)

theorem addTerm_ok_of {sq : Sq} {k : Key} (h : ∃ k', sq k = .ok k') (p : Poly) (v : Rat) :
    ∃ p', addTerm sq p k v = .ok p' := by
  obtain ⟨k', hk⟩ := h
  exact ⟨set p k' (get p k' + v), by simp [addTerm, hk, bind, Except.bind, pure, Except.pure]⟩

theorem quboToQusoTerm_total {sq : Sq} (ht : SqShort sq) (L : Poly) {k : Key} (hk : k.length ≤ 2) (v : Rat) :
    ∃ L', quboToQusoTerm sq L k v = .ok L' := by
  match k, hk with
  | [], _ => exact addTerm_ok_of (ht [] (by simp)) L v
  | [i], _ =>
    obtain ⟨L1, h1⟩ := addTerm_ok_of (ht [i] (by simp)) L (-(v / 2))
    obtain ⟨L2, h2⟩ := addTerm_ok_of (ht [] (by simp)) L1 (v / 2)
    exact ⟨L2, by simp [quboToQusoTerm, h1, h2, bind, Except.bind]⟩
  | [i, j], _ =>
    obtain ⟨L1, h1⟩ := addTerm_ok_of (ht [i, j] (by simp)) L (v / 4)
    obtain ⟨L2, h2⟩ := addTerm_ok_of (ht [i] (by simp)) L1 (-(v / 4))
    obtain ⟨L3, h3⟩ := addTerm_ok_of (ht [j] (by simp)) L2 (-(v / 4))
    obtain ⟨L4, h4⟩ := addTerm_ok_of (ht [] (by simp)) L3 (v / 4)
    exact ⟨L4, by simp [quboToQusoTerm, h1, h2, h3, h4, bind, Except.bind]⟩
  | _ :: _ :: _ :: _, hk => simp at hk

theorem qusoToQuboTerm_total {sq : Sq} (ht : SqShort sq) (Q : Poly) {k : Key} (hk : k.length ≤ 2) (v : Rat) :
    ∃ Q', qusoToQuboTerm sq Q k v = .ok Q' := by
  match k, hk with
  | [], _ => exact addTerm_ok_of (ht [] (by simp)) Q v
  | [i], _ =>
    obtain ⟨L1, h1⟩ := addTerm_ok_of (ht [i] (by simp)) Q (-(2 * v))
    obtain ⟨L2, h2⟩ := addTerm_ok_of (ht [] (by simp)) L1 v
    exact ⟨L2, by simp [qusoToQuboTerm, h1, h2, bind, Except.bind]⟩
  | [i, j], _ =>
    obtain ⟨L1, h1⟩ := addTerm_ok_of (ht [i, j] (by simp)) Q (4 * v)
    obtain ⟨L2, h2⟩ := addTerm_ok_of (ht [i] (by simp)) L1 (-(2 * v))
    obtain ⟨L3, h3⟩ := addTerm_ok_of (ht [j] (by simp)) L2 (-(2 * v))
    obtain ⟨L4, h4⟩ := addTerm_ok_of (ht [] (by simp)) L3 v
    exact ⟨L4, by simp [qusoToQuboTerm, h1, h2, h3, h4, bind, Except.bind]⟩
  | _ :: _ :: _ :: _, hk => simp at hk

/-- the loop succeeds exactly when every source key squashes (without error) to at most two labels -/
theorem closedLoop_ok_iff {term : Sq → Poly → Key → Rat → Except Err Poly} {src sq : Sq}
    (htot : ∀ (L : Poly) {k : Key}, k.length ≤ 2 → ∀ v, ∃ L', term sq L k v = .ok L')
    (hshort : ∀ {L L' : Poly} {k : Key} {v : Rat}, term sq L k v = .ok L' → k.length ≤ 2)
    (p acc : Poly) :
    (∃ r, closedLoop term src sq acc p = .ok r) ↔ ∀ kv ∈ p, ∃ k, src kv.1 = .ok k ∧ k.length ≤ 2 := by
  induction p generalizing acc with
  | nil => simp [closedLoop]
  | cons kv rest ih =>
    obtain ⟨kp, v⟩ := kv
    constructor
    · rintro ⟨r, h⟩
      simp only [closedLoop, bind_ok_iff] at h
      obtain ⟨k, hk, a1, h1, h2⟩ := h
      intro kv hkv
      rcases List.mem_cons.mp hkv with rfl | hm
      · exact ⟨k, hk, hshort h1⟩
      · exact (ih a1).mp ⟨r, h2⟩ kv hm
    · intro h
      obtain ⟨k, hk, hlen⟩ := h (kp, v) List.mem_cons_self
      obtain ⟨a1, h1⟩ := htot acc hlen v
      obtain ⟨r, hr⟩ := (ih a1).mpr (fun kv hkv => h kv (List.mem_cons_of_mem _ hkv))
      exact ⟨r, by simp only [closedLoop, bind_ok_iff]; exact ⟨k, hk, a1, h1, hr⟩⟩

/-- if the source squash only ever raises `KeyError` and only returns short keys, the loop only raises `KeyError` -/
theorem closedLoop_error {term : Sq → Poly → Key → Rat → Except Err Poly} {src sq : Sq}
    (htot : ∀ (L : Poly) {k : Key}, k.length ≤ 2 → ∀ v, ∃ L', term sq L k v = .ok L')
    (hsrc : ∀ kp, (∃ k, src kp = .ok k ∧ k.length ≤ 2) ∨ src kp = .error .key)
    {p acc : Poly} {e : Err} (h : closedLoop term src sq acc p = .error e) : e = .key := by
  induction p generalizing acc with
  | nil => simp [closedLoop] at h
  | cons kv rest ih =>
    obtain ⟨kp, v⟩ := kv
    simp only [closedLoop, bind, Except.bind] at h
    rcases hsrc kp with ⟨k, hk, hlen⟩ | hk
    · obtain ⟨a1, h1⟩ := htot acc hlen v
      simp [hk, h1] at h
      exact ih h
    · simp [hk] at h; exact h.symm

theorem squash_qubo_cases (kp : Key) :
    (squash .qubo kp = .ok (squashB kp) ∧ (squashB kp).length ≤ 2) ∨
    (squash .qubo kp = .error .key ∧ 2 < (squashB kp).length) := by
  by_cases h : (squashB kp).length > 2
  · right; simp [squash, Kind.isDeg2, Kind.isSpin, h]
  · left; simp [squash, Kind.isDeg2, Kind.isSpin, h]; omega

theorem squash_quso_cases (kp : Key) :
    (squash .quso kp = .ok (squashS kp) ∧ (squashS kp).length ≤ 2) ∨
    (squash .quso kp = .error .key ∧ 2 < (squashS kp).length) := by
  by_cases h : (squashS kp).length > 2
  · right; simp [squash, Kind.isDeg2, Kind.isSpin, h]
  · left; simp [squash, Kind.isDeg2, Kind.isSpin, h]; omega

/-! ### relabelling through a mapping -/

/-- the mapping dict read as a total function (labels outside it are never looked up successfully) -/
def mapFn (m : Mapping) : Var → Var := fun i => match mapGet m i with | .ok a => a | .error _ => 0

/-- the assignment of the original labels induced by an assignment `s` of the integer labels -/
def relab (m : Mapping) (s : Var → Rat) : Var → Rat := fun l => s (mapFn m l)

theorem isBool_relab {m : Mapping} {s : Var → Rat} (h : IsBool s) : IsBool (relab m s) := fun l => h _
theorem isSpin_relab {m : Mapping} {s : Var → Rat} (h : IsSpin s) : IsSpin (relab m s) := fun l => h _

theorem mon_mapKey {m : Mapping} {k key : Key} (h : mapKey m k = .ok key) (s : Var → Rat) :
    mon s key = mon (relab m s) k := by
  induction k generalizing key with
  | nil => simp [mapKey] at h; subst h; rfl
  | cons i r ih =>
    simp only [mapKey, bind_ok_iff, pure, Except.pure] at h
    obtain ⟨a, ha, r', hr, hkey⟩ := h
    injection hkey with hkey
    subst hkey
    simp only [mon_cons, ih hr]
    congr 1
    simp [relab, mapFn, ha]

theorem mon_insSorted (s : Var → Rat) (a : Var) (k : Key) : mon s (insSorted a k) = s a * mon s k := by
  induction k with
  | nil => simp [insSorted]
  | cons b bs ih =>
    unfold insSorted; split
    · simp
    · simp only [mon_cons, ih]; ring

theorem mon_sortKey (s : Var → Rat) (k : Key) : mon s (sortKey k) = mon s k := by
  induction k with
  | nil => rfl
  | cons a k ih =>
    show mon s (insSorted a (sortKey k)) = _
    rw [mon_insSorted, ih]; rfl

theorem eval_relabel {sq : Sq} {s : Var → Rat} (hs : SqOK sq s) {m : Mapping} {srt : Bool} {p acc r : Poly}
    (h : relabel sq m srt acc p = .ok r) : eval s r = eval s acc + eval (relab m s) p := by
  induction p generalizing acc with
  | nil => simp [relabel] at h; subst h; simp
  | cons kv rest ih =>
    obtain ⟨k, v⟩ := kv
    simp only [relabel, bind_ok_iff] at h
    obtain ⟨key, hkey, a1, h1, h2⟩ := h
    rw [ih h2, eval_addTerm hs h1, eval_cons, ← mon_mapKey hkey s]
    cases srt <;> simp [mon_sortKey] <;> ring

theorem eval_mappedSelf (s : Var → Rat) {m : Mapping} {p acc ms : Poly}
    (h : mappedSelf m acc p = .ok ms) : eval s ms = eval s acc + eval (relab m s) p := by
  induction p generalizing acc with
  | nil => simp [mappedSelf] at h; subst h; simp
  | cons kv rest ih =>
    obtain ⟨k, v⟩ := kv
    simp only [mappedSelf, bind_ok_iff] at h
    obtain ⟨key, hkey, h2⟩ := h
    rw [ih h2, eval_put, eval_cons, ← mon_mapKey hkey s, mon_sortKey]; ring

theorem eval_reduceNoop {sqD : Sq} {s : Var → Rat} (hs : SqOK sqD s) {m : Mapping} {deg : Option Int}
    {p D : Poly} (h : reduceNoop sqD m deg p = .ok D) : eval s D = eval (relab m s) p := by
  have key : ∀ {D : Poly}, (do let ms ← mappedSelf m [] p; iaddD sqD [] ms) = Except.ok D →
      eval s D = eval (relab m s) p := by
    intro D h
    simp only [bind_ok_iff] at h
    obtain ⟨ms, h1, h2⟩ := h
    rw [eval_iaddD hs h2, eval_mappedSelf s h1]; simp
  unfold reduceNoop at h
  cases deg with
  | none => exact key h
  | some d =>
    simp only at h
    split at h
    · cases h
    · exact key h

/-! ### the `to_*` chains -/

def Target.isSpin : Target → Bool
  | .quso | .puso => true
  | _ => false

/-- an assignment `s` of the target's integer labels, read as an assignment of the source's labels:
relabelling, composed with `x = (1 - z)/2` (boolean source, spin target) or `z = 1 - 2x`
(spin source, boolean target) -/
def pull (srcSpin tgtSpin : Bool) (m : Mapping) (s : Var → Rat) : Var → Rat :=
  match srcSpin, tgtSpin with
  | false, true => relab m (s2b s)
  | true, false => relab m (b2s s)
  | _, _ => relab m s

theorem eval_quboTo {t : Target} {m : Mapping} {p r : Poly} {s : Var → Rat} (hs : Fam t.isSpin s)
    (h : quboTo t m p = .ok r) : eval s r = eval (pull false t.isSpin m s) p := by
  simp only [quboTo, bind_ok_iff] at h
  obtain ⟨Q, hQ, h⟩ := h
  have hQ' : ∀ x, IsBool x → eval x Q = eval (relab m x) p := fun x hx => by
    have := eval_relabel (sqOK_bool (κ := .qubom) rfl hx) hQ; simpa using this
  cases t with
  | qubo =>
    simp only [pure, Except.pure] at h; injection h with h; subst h
    exact hQ' s (by simpa [Fam, Target.isSpin] using hs)
  | pubo =>
    have hx : IsBool s := by simpa [Fam, Target.isSpin] using hs
    simp only at h
    rw [eval_construct (sqOK_bool (κ := .pubom) rfl hx) h]; exact hQ' s hx
  | quso =>
    have hz : IsSpin s := by simpa [Fam, Target.isSpin] using hs
    simp only at h
    rw [eval_quboToQuso hz h]; exact hQ' _ (isBool_s2b hz)
  | puso =>
    have hz : IsSpin s := by simpa [Fam, Target.isSpin] using hs
    simp only [bind_ok_iff] at h
    obtain ⟨P, hP, h⟩ := h
    rw [eval_puboToPuso hz h, eval_construct (sqOK_bool (κ := .pubom) rfl (isBool_s2b hz)) hP]
    exact hQ' _ (isBool_s2b hz)

theorem eval_qusoTo {t : Target} {m : Mapping} {p r : Poly} {s : Var → Rat} (hs : Fam t.isSpin s)
    (h : qusoTo t m p = .ok r) : eval s r = eval (pull true t.isSpin m s) p := by
  simp only [qusoTo, bind_ok_iff] at h
  obtain ⟨L, hL, h⟩ := h
  have hL' : ∀ z, IsSpin z → eval z L = eval (relab m z) p := fun z hz => by
    have := eval_relabel (sqOK_spin (κ := .qusom) rfl hz) hL; simpa using this
  cases t with
  | quso =>
    simp only [pure, Except.pure] at h; injection h with h; subst h
    exact hL' s (by simpa [Fam, Target.isSpin] using hs)
  | puso =>
    have hz : IsSpin s := by simpa [Fam, Target.isSpin] using hs
    simp only at h
    rw [eval_construct (sqOK_spin (κ := .pusom) rfl hz) h]; exact hL' s hz
  | qubo =>
    have hx : IsBool s := by simpa [Fam, Target.isSpin] using hs
    simp only at h
    rw [eval_qusoToQubo hx h]; exact hL' _ (isSpin_b2s hx)
  | pubo =>
    have hx : IsBool s := by simpa [Fam, Target.isSpin] using hs
    simp only [bind_ok_iff] at h
    obtain ⟨H, hH, h⟩ := h
    rw [eval_pusoToPubo hx h, eval_construct (sqOK_spin (κ := .pusom) rfl (isSpin_b2s hx)) hH]
    exact hL' _ (isSpin_b2s hx)

theorem eval_puboTo {t : Target} {m : Mapping} {deg : Option Int} {p r : Poly} {s : Var → Rat}
    (hs : Fam t.isSpin s) (h : puboTo t m deg p = .ok r) : eval s r = eval (pull false t.isSpin m s) p := by
  cases t with
  | pubo =>
    have hx : IsBool s := by simpa [Fam, Target.isSpin] using hs
    exact eval_reduceNoop (sqOK_bool (κ := .pubom) rfl hx) h
  | qubo =>
    have hx : IsBool s := by simpa [Fam, Target.isSpin] using hs
    exact eval_reduceNoop (deg := some 2) (sqOK_bool (κ := .qubom) rfl hx) h
  | puso =>
    have hz : IsSpin s := by simpa [Fam, Target.isSpin] using hs
    simp only [puboTo, bind_ok_iff] at h
    obtain ⟨P, hP, h⟩ := h
    rw [eval_puboToPuso hz h]
    exact eval_reduceNoop (sqOK_bool (κ := .pubom) rfl (isBool_s2b hz)) hP
  | quso =>
    have hz : IsSpin s := by simpa [Fam, Target.isSpin] using hs
    simp only [puboTo, bind_ok_iff] at h
    obtain ⟨Q, hQ, h⟩ := h
    rw [eval_quboToQuso hz h]
    exact eval_reduceNoop (sqOK_bool (κ := .qubom) rfl (isBool_s2b hz)) hQ

theorem relab_b2s (m : Mapping) (x : Var → Rat) : b2s (relab m x) = relab m (b2s x) := rfl

/-- through `_create_pubo`: `puso_to_pubo(self)` followed by a `PUBO.to_*` -/
theorem eval_via_pubo {κ : Kind} {t : Target} {m : Mapping} {deg : Option Int} {p P r : Poly} {s : Var → Rat}
    (hs : Fam t.isSpin s) (hP : pusoToPubo κ p = .ok P) (h : puboTo t m deg P = .ok r) :
    eval s r = eval (pull true t.isSpin m s) p := by
  rw [eval_puboTo hs h]
  cases t with
  | pubo =>
    have hx : IsBool s := by simpa [Fam, Target.isSpin] using hs
    exact eval_pusoToPubo (isBool_relab hx) hP
  | qubo =>
    have hx : IsBool s := by simpa [Fam, Target.isSpin] using hs
    exact eval_pusoToPubo (isBool_relab hx) hP
  | puso =>
    have hz : IsSpin s := by simpa [Fam, Target.isSpin] using hs
    show eval (relab m (s2b s)) P = eval (relab m s) p
    rw [eval_pusoToPubo (isBool_relab (isBool_s2b hz)) hP, relab_b2s, b2s_s2b]
  | quso =>
    have hz : IsSpin s := by simpa [Fam, Target.isSpin] using hs
    show eval (relab m (s2b s)) P = eval (relab m s) p
    rw [eval_pusoToPubo (isBool_relab (isBool_s2b hz)) hP, relab_b2s, b2s_s2b]

theorem eval_pusoTo {κ : Kind} {t : Target} {m : Mapping} {deg : Option Int} {p r : Poly} {s : Var → Rat}
    (hs : Fam t.isSpin s) (h : pusoTo κ t m deg p = .ok r) : eval s r = eval (pull true t.isSpin m s) p := by
  have hrel : ∀ {r : Poly}, relabel (squash .pusom) m true [] p = .ok r → IsSpin s →
      eval s r = eval (relab m s) p := fun h hz => by
    have := eval_relabel (sqOK_spin (κ := .pusom) rfl hz) h; simpa using this
  cases t with
  | puso =>
    have hz : IsSpin s := by simpa [Fam, Target.isSpin] using hs
    unfold pusoTo at h
    cases deg with
    | none => exact hrel h hz
    | some d =>
      simp only at h
      split at h
      · exact hrel h hz
      · simp only [bind_ok_iff] at h
        obtain ⟨P, hP, h⟩ := h
        exact eval_via_pubo hs hP h
  | pubo =>
    simp only [pusoTo, bind_ok_iff] at h
    obtain ⟨P, hP, h⟩ := h
    exact eval_via_pubo hs hP h
  | qubo =>
    simp only [pusoTo, bind_ok_iff] at h
    obtain ⟨P, hP, h⟩ := h
    exact eval_via_pubo hs hP h
  | quso =>
    have hz : IsSpin s := by simpa [Fam, Target.isSpin] using hs
    unfold pusoTo at h
    simp only at h
    split at h
    · simp only [bind_ok_iff] at h
      obtain ⟨H, hH, h⟩ := h
      rw [eval_construct (sqOK_spin (κ := .qusom) rfl hz) h]
      exact hrel hH hz
    · simp only [bind_ok_iff] at h
      obtain ⟨P, hP, Q, hQ, h⟩ := h
      rw [eval_quboToQuso hz h]
      have := eval_via_pubo (t := .qubo) (s := s2b s) (by simpa [Fam, Target.isSpin] using isBool_s2b hz) hP hQ
      rw [this]
      show eval (relab m (b2s (s2b s))) p = eval (relab m s) p
      rw [b2s_s2b]

theorem eval_toMethod {κ : Kind} {t : Target} {m : Mapping} {deg : Option Int} {p r : Poly} {s : Var → Rat}
    (hs : Fam t.isSpin s) (h : toMethod κ t m deg p = .ok r) :
    eval s r = eval (pull κ.isSpin t.isSpin m s) p := by
  cases κ <;> simp only [toMethod] at h <;>
    first
    | exact eval_quboTo hs h
    | exact eval_qusoTo hs h
    | exact eval_puboTo hs h
    | exact eval_pusoTo hs h
    | cases h

end Qv
