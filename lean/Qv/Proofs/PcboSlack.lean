import Qv.Proofs.PcboEq
/-!
# C02: the semantic specification `Sem`, transport lemmas, and the two slack loops
-/
namespace Qv.PcboP

/-- the three value clauses of the property for one call (`R` is the relation against zero) -/
structure Sem (R : Rat → Prop) (st st' : St) (P : Poly) (lam : Rat) : Prop where
  nonneg : ∀ s, IsBool s → 0 ≤ FPen st st' s
  sat : ∀ x, IsBool x → R (eval x P) →
    ∃ s, (∀ i, ¬ InA st st' i → s i = x i) ∧ IsBool s ∧ FPen st st' s = 0
  viol : ∀ s, IsBool s → ¬ R (eval s P) → lam ≤ FPen st st' s

theorem FPen_congr {a a' b b' : St} (h1 : a'.terms = a.terms) (h2 : b'.terms = b.terms) (s : Var → Rat) :
    FPen a' b' s = FPen a b s := by unfold FPen; rw [h1, h2]

theorem InA_congr {a a' b b' : St} (h1 : a'.anc = a.anc) (h2 : b'.anc = b.anc) (i : Var) :
    InA a' b' i ↔ InA a b i := by unfold InA; rw [h1, h2]

theorem Sem.congr {R : Rat → Prop} {a a' b b' : St} {P : Poly} {lam : Rat} (h : Sem R a b P lam)
    (t1 : a'.terms = a.terms) (t2 : b'.terms = b.terms) (n1 : a'.anc = a.anc) (n2 : b'.anc = b.anc) :
    Sem R a' b' P lam := by
  refine ⟨fun s hs => ?_, fun x hx hr => ?_, fun s hs hr => ?_⟩
  · rw [FPen_congr t1 t2]; exact h.nonneg s hs
  · obtain ⟨s, h1, h2, h3⟩ := h.sat x hx hr
    exact ⟨s, fun i hi => h1 i (fun hA => hi ((InA_congr n1 n2 i).2 hA)), h2, by rw [FPen_congr t1 t2]; exact h3⟩
  · rw [FPen_congr t1 t2]; exact h.viol s hs hr

theorem Struct.congr {a a' b b' : St} {P : Poly} (h : Struct a b P)
    (t1 : a'.terms = a.terms) (t2 : b'.terms = b.terms) (n1 : a'.anc = a.anc) (n2 : b'.anc = b.anc) :
    Struct a' b' P := by
  obtain ⟨h1, q, h2, h3⟩ := h
  refine ⟨by rw [n1, n2]; exact h1, q, by rw [t1, t2]; exact h2, fun V hV hA => h3 V hV ?_⟩
  intro k hk1 hk2
  exact hA k (by rw [n1]; exact hk1) (by rw [n2]; exact hk2)

/-- a call that adds nothing and creates no ancilla -/
theorem Struct.refl_of {a b : St} (P : Poly) (t : b.terms = a.terms) (n : b.anc = a.anc) : Struct a b P :=
  ⟨by rw [n], [], by rw [t]; rfl, fun V _ _ => labelsIn_nil V⟩

/-- relations with the same truth value on the values of `P` have the same `Sem` -/
theorem Sem.rel_congr {R R' : Rat → Prop} {a b : St} {P : Poly} {lam : Rat} (h : Sem R a b P lam)
    (hr : ∀ x, IsBool x → (R' (eval x P) ↔ R (eval x P))) : Sem R' a b P lam :=
  ⟨h.nonneg, fun x hx r => h.sat x hx ((hr x hx).1 r), fun s hs r => h.viol s hs (fun r' => r ((hr s hs).2 r'))⟩

/-- a boolean `s` that differs from `x` only on ancillas `≥ ANC + n` gives `P` (labels `< ANC + n`) the same value -/
theorem eval_off_anc {P : Poly} {n : Nat} (hP : Below (ANC + n) P) {s x : Var → Rat}
    (h : ∀ i, i < ANC + n → s i = x i) : eval s P = eval x P :=
  eval_congr hP h

/-! ## `slackTot` -/

theorem slackTot_false (i n : Nat) : slackTot false i n = (n : Rat) := by
  induction n generalizing i with
  | zero => simp [slackTot]
  | succ n ih => simp only [slackTot, ih, wgt]; push_cast; ring

theorem slackVal_false_snoc (s : Var → Rat) (base i n : Nat) :
    slackVal false s base i (n + 1) = slackVal false s base i n + s (ANC + (base + n)) := by
  induction n generalizing base i with
  | zero => simp [slackVal, wgt]
  | succ n ih =>
    have := ih (base + 1) (i + 1)
    simp only [slackVal] at this ⊢
    rw [this]
    have e : base + 1 + n = base + (n + 1) := by omega
    rw [e]; ring

theorem ceilNat_natCast (m : Nat) : ceilNat (m : Rat) = m := by
  unfold ceilNat
  have : ((m : Nat) : Rat) = ((m : Int) : Rat) := by simp
  rw [this, Rat.ceil_intCast]; simp

/-! ## the unary ancilla loop of `_special_constraints_le_zero` -/

theorem unaryAncillas_spec (s : St) (n : Nat) :
    (unaryAncillas s n).1.anc = s.anc + n ∧ (unaryAncillas s n).1.terms = s.terms ∧
    (unaryAncillas s n).1.cons = s.cons ∧ (unaryAncillas s n).1.warns = s.warns ∧
    (∀ x, IsBool x → eval x (unaryAncillas s n).2 = slackVal false x s.anc 0 n) ∧
    (∀ V : Var → Prop, (∀ k, s.anc ≤ k → k < s.anc + n → V (ANC + k)) → LabelsIn V (unaryAncillas s n).2) := by
  induction n with
  | zero => exact ⟨rfl, rfl, rfl, rfl, fun x _ => rfl, fun V _ => labelsIn_nil V⟩
  | succ n ih =>
    obtain ⟨h1, h2, h3, h4, h5, h6⟩ := ih
    simp only [unaryAncillas]
    refine ⟨?_, ?_, ?_, ?_, ?_, ?_⟩
    · simp [h1]; omega
    · simp [h2]
    · simp [h3]
    · simp [h4]
    · intro x hx
      rw [eval_addTermB hx, h5 x hx, slackVal_false_snoc]
      simp [h1]
    · intro V hV
      refine labelsIn_addTermB _ (h6 V (fun k hk1 hk2 => hV k hk1 (by omega))) ?_
      intro i hi
      simp only [St.nextAnc_label, List.mem_singleton] at hi
      subst hi
      rw [h1]
      exact hV _ (by omega) (by omega)

/-! ## the slack loop of `add_constraint_le_zero` -/

theorem slackLoop_spec (lt : Bool) (n : Nat) : ∀ (s : St) (P : Poly) (hi : Rat) (i : Nat),
    (slackLoop lt s P hi i n).1.anc = s.anc + n ∧ (slackLoop lt s P hi i n).1.terms = s.terms ∧
    (slackLoop lt s P hi i n).1.cons = s.cons ∧ (slackLoop lt s P hi i n).1.warns = s.warns ∧
    (∀ x, IsBool x → eval x (slackLoop lt s P hi i n).2.1 = eval x P + slackVal lt x s.anc i n) ∧
    (slackLoop lt s P hi i n).2.2 = hi + slackTot lt i n ∧
    (∀ V : Var → Prop, LabelsIn V P → (∀ k, s.anc ≤ k → k < s.anc + n → V (ANC + k)) →
      LabelsIn V (slackLoop lt s P hi i n).2.1) ∧
    (NoZero P → NoZero (slackLoop lt s P hi i n).2.1) := by
  induction n with
  | zero =>
    intro s P hi i
    exact ⟨rfl, rfl, rfl, rfl, fun x _ => by simp [slackLoop, slackVal], by simp [slackLoop, slackTot],
      fun V hV _ => hV, fun h => h⟩
  | succ n ih =>
    intro s P hi i
    obtain ⟨h1, h2, h3, h4, h5, h6, h7, h8⟩ :=
      ih s.nextAnc.1 (addTermB P [s.nextAnc.2] (if lt then ((2 ^ i : Nat) : Rat) else 1))
        (hi + (if lt then ((2 ^ i : Nat) : Rat) else 1)) (i + 1)
    simp only [slackLoop]
    refine ⟨?_, ?_, ?_, ?_, ?_, ?_, ?_, ?_⟩
    · rw [h1]; simp; omega
    · rw [h2]; rfl
    · rw [h3]; rfl
    · rw [h4]; rfl
    · intro x hx
      rw [h5 x hx, eval_addTermB hx]
      simp only [slackVal, wgt, St.nextAnc_label, St.nextAnc_anc, mon_cons, mon_nil]; ring
    · rw [h6]; simp only [slackTot, wgt]; ring
    · intro V hV hA
      refine h7 V (labelsIn_addTermB _ hV ?_) (fun k hk1 hk2 => hA k ?_ ?_)
      · intro j hj
        simp only [St.nextAnc_label, List.mem_singleton] at hj
        subst hj
        exact hA _ (Nat.le_refl _) (by omega)
      · simp only [St.nextAnc_anc] at hk1; omega
      · simp only [St.nextAnc_anc] at hk2; omega
    · intro hz
      exact h8 (noZero_addTermB _ _ hz)

end Qv.PcboP
