import Qv.Proofs.ProblemsVC
import Qv.Model.Problems2
/-!
# SetCover, JobSequencing, GraphPartitioning: the partial results
-/
namespace Qv.Prob
open Qv

/-- `Σ_e (w_e B / 2) z_u z_v` over the (non-loop) edges, with vertices replaced by their variable indices -/
def cutSum (order : List Var) (B : Rat) (z : Var → Rat) : List ((Var × Var) × Rat) → Rat
  | [] => 0
  | ((u, v), w) :: r => (w * B / 2) * (z (idxD order u) * z (idxD order v)) + cutSum order B z r

theorem gp_cutLoop_eval {order : List Var} {B : Rat} {z : Var → Rat} (hz : IsSpin z)
    (es : List ((Var × Var) × Rat)) (L L' : Poly) (h : GP.cutLoop order B L es = .ok L') :
    eval z L' = eval z L - cutSum order B z es := by
  induction es generalizing L with
  | nil => simp [GP.cutLoop] at h; subst h; simp [cutSum]
  | cons e r ih =>
    obtain ⟨⟨u, v⟩, w⟩ := e
    simp only [GP.cutLoop, bind_ok_iff] at h
    obtain ⟨iu, hiu, iv, hiv, L1, h1, h2⟩ := h
    have e1 := eval_addTerm (sqOK_spin (κ := .qusom) rfl hz) h1
    have hu : idxD order u = iu := by simp [idxD, hiu]
    have hv : idxD order v = iv := by simp [idxD, hiv]
    rw [ih L1 h2, e1]
    simp only [cutSum, hu, hv, mon_cons, mon_nil]; ring

/-- the weight `A` actually used by `JobSequencing.to_qubo`: the argument, or `B * max(lengths)` for `None` -/
def JS.weightA (p : JS) (A : Option Rat) (B : Rat) : Rat :=
  match A with | some a => a | none => B * p.maxL

theorem js_build_eval (p : JS) (A : Option Rat) (B : Rat) (Q : Poly) (h : p.toQubo A B = .ok Q) (x : Var → Rat)
    (hx : IsBool x) : eval x Q = eval x (p.ops (p.weightA A B) B) := by
  cases A <;>
  · have := eval_build (sqOK_bool (κ := .qubom) rfl hx) h
    simpa [JS.weightA] using this

end Qv.Prob
