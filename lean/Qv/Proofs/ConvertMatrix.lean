import Qv.Proofs.ConvertExport
/-!
# Helper lemmas for C04: `qubo_to_matrix`
-/
namespace Qv

/-- `Σ_{t = j}^{j+m-1} f t` -/
def sumFrom (j : Nat) : Nat → (Nat → Rat) → Rat
  | 0, _ => 0
  | m + 1, f => f j + sumFrom (j + 1) m f

theorem sumFrom_add (j m : Nat) (f g : Nat → Rat) :
    sumFrom j m (fun t => f t + g t) = sumFrom j m f + sumFrom j m g := by
  induction m generalizing j with
  | zero => simp [sumFrom]
  | succ m ih => simp only [sumFrom, ih]; ring

theorem sumFrom_congr {j m : Nat} {f g : Nat → Rat} (h : ∀ t, j ≤ t → t < j + m → f t = g t) :
    sumFrom j m f = sumFrom j m g := by
  induction m generalizing j with
  | zero => rfl
  | succ m ih =>
    simp only [sumFrom]
    rw [h j (Nat.le_refl _) (by omega), ih (fun t h1 h2 => h t (by omega) (by omega))]

theorem sumFrom_single (j m a : Nat) (c : Rat) :
    sumFrom j m (fun t => if t = a then c else 0) = if j ≤ a ∧ a < j + m then c else 0 := by
  induction m generalizing j with
  | zero => simp [sumFrom]
  | succ m ih =>
    simp only [sumFrom, ih]
    by_cases h1 : j = a
    · subst h1
      have : ¬ (j + 1 ≤ j ∧ j < j + 1 + m) := by omega
      have h2 : j ≤ j ∧ j < j + (m + 1) := by omega
      simp [this, h2]
    · by_cases h2 : j + 1 ≤ a ∧ a < j + 1 + m
      · have : j ≤ a ∧ a < j + (m + 1) := by omega
        simp [h1, h2, this]
      · have : ¬ (j ≤ a ∧ a < j + (m + 1)) := by omega
        simp [h1, h2, this]

/-- `Σ_{i<n} Σ_{j<n} f i j x_i x_j` -/
def gridForm (x : Var → Rat) (n : Nat) (f : Nat → Nat → Rat) : Rat :=
  sumFrom 0 n (fun i => sumFrom 0 n (fun j => f i j * (x i * x j)))

theorem gridForm_add_single (x : Var → Rat) (n : Nat) (f : Nat → Nat → Rat) {a b : Nat} (ha : a < n) (hb : b < n)
    (c : Rat) :
    gridForm x n (fun i j => f i j + (if i = a ∧ j = b then c else 0)) = gridForm x n f + c * (x a * x b) := by
  unfold gridForm
  have inner : ∀ i, sumFrom 0 n (fun j => (f i j + (if i = a ∧ j = b then c else 0)) * (x i * x j)) =
      sumFrom 0 n (fun j => f i j * (x i * x j)) + (if i = a then c * (x a * x b) else 0) := by
    intro i
    have : (fun j => (f i j + (if i = a ∧ j = b then c else 0)) * (x i * x j)) =
        (fun j => f i j * (x i * x j) + (if j = b then (if i = a then c * (x a * x b) else 0) else 0)) := by
      funext j
      by_cases h1 : i = a <;> by_cases h2 : j = b <;> simp [h1, h2] <;> ring
    rw [this, sumFrom_add, sumFrom_single]
    have : 0 ≤ b ∧ b < 0 + n := by omega
    rw [if_pos this]
  simp only [inner]
  rw [sumFrom_add, sumFrom_single]
  have : 0 ≤ a ∧ a < 0 + n := by omega
  rw [if_pos this]

/-- the quadratic form of the matrix whose entries are read from the dict `e` -/
def G (x : Var → Rat) (n : Nat) (e : Poly) : Rat := gridForm x n (fun i j => get e [i, j])

theorem G_put (x : Var → Rat) (n : Nat) (e : Poly) {a b : Nat} (ha : a < n) (hb : b < n) (v : Rat) :
    G x n (put e [a, b] v) = G x n e + (v - get e [a, b]) * (x a * x b) := by
  unfold G
  rw [← gridForm_add_single x n _ ha hb]
  congr 1
  funext i j
  by_cases h : i = a ∧ j = b
  · obtain ⟨rfl, rfl⟩ := h
    simp [get_put_eq]
  · have hne : [i, j] ≠ [a, b] := by
      intro e; injection e with e1 e2; injection e2 with e2 _; exact h ⟨e1, e2⟩
    simp [h, get_put_ne _ _ hne]

/-! ### the table -/

theorem rowForm_map_range' (x : Var → Rat) (i : Nat) (g : Nat → Rat) (j m : Nat) :
    rowForm x i ((List.range' j m).map g) j = sumFrom j m (fun t => g t * (x i * x t)) := by
  induction m generalizing j with
  | zero => simp [rowForm, sumFrom]
  | succ m ih =>
    rw [List.range'_succ]
    simp only [List.map_cons, rowForm, sumFrom, ih]

theorem quadForm_map_range' (x : Var → Rat) (row : Nat → List Rat) (i m : Nat) :
    quadForm x ((List.range' i m).map row) i = sumFrom i m (fun t => rowForm x t (row t) 0) := by
  induction m generalizing i with
  | zero => simp [quadForm, sumFrom]
  | succ m ih =>
    rw [List.range'_succ]
    simp only [List.map_cons, quadForm, sumFrom, ih]

theorem quadForm_tabulate (x : Var → Rat) (n : Nat) (f : Nat → Nat → Rat) :
    quadForm x (tabulate n f) 0 = gridForm x n f := by
  unfold tabulate gridForm
  rw [List.range_eq_range', quadForm_map_range']
  apply sumFrom_congr
  intro t _ _
  exact rowForm_map_range' x t (f t) 0 n

/-! ### `fillMatrix` -/

theorem ne_pair {a b c d : Nat} (h : ¬ (a = c ∧ b = d)) : ([a, b] : Key) ≠ [c, d] := by
  intro e; injection e with e1 e2; injection e2 with e2 _; exact h ⟨e1, e2⟩

/-- the positions written for the keys still to come hold 0 -/
def Fresh (acc : Poly) (Q : Poly) : Prop :=
  (∀ i, [i] ∈ keys Q → get acc [i, i] = 0) ∧
  (∀ i j, [i, j] ∈ keys Q → get acc [i, j] = 0 ∧ get acc [j, i] = 0)

theorem G_fillMatrix {x : Var → Rat} (hx : IsBool x) (n : Nat) (sym : Bool) {Q acc e : Poly}
    (h : fillMatrix sym acc Q = .ok e) (hnd : (keys Q).Nodup)
    (hk : ∀ k ∈ keys Q, SSorted k ∧ ∀ l ∈ k, l < n) (hf : Fresh acc Q) :
    G x n e = G x n acc + eval x Q := by
  induction Q generalizing acc with
  | nil => simp [fillMatrix] at h; subst h; simp
  | cons kv r ih =>
    obtain ⟨k, v⟩ := kv
    simp only [keys, List.map_cons, List.nodup_cons] at hnd
    have hk' : ∀ k ∈ keys r, SSorted k ∧ ∀ l ∈ k, l < n := fun k h => hk k (List.mem_cons_of_mem _ h)
    have hkk := hk k List.mem_cons_self
    match k, hkk with
    | [], _ => simp [fillMatrix] at h
    | [i], ⟨_, hl⟩ =>
      have hi : i < n := hl i (by simp)
      simp only [fillMatrix] at h
      have hfr : Fresh (put acc [i, i] v) r := by
        refine ⟨fun i' hi' => ?_, fun a b hab => ?_⟩
        · have hne : i' ≠ i := fun e => hnd.1 (e ▸ hi')
          rw [get_put_ne _ _ (ne_pair (fun e => hne e.1))]
          exact hf.1 i' (List.mem_cons_of_mem _ hi')
        · have hlt : @LT.lt Nat instLTNat a b := (hk' _ hab).1.1
          have h1 : [a, b] ≠ [i, i] := ne_pair (by omega)
          have h2 : [b, a] ≠ [i, i] := ne_pair (by omega)
          rw [get_put_ne _ _ h1, get_put_ne _ _ h2]
          exact hf.2 a b (List.mem_cons_of_mem _ hab)
      rw [ih h hnd.2 hk' hfr, G_put x n acc hi hi, hf.1 i List.mem_cons_self, eval_cons]
      simp only [mon_cons, mon_nil, mul_one, sub_zero]
      rw [hx.sq i]; ring
    | [i, j], ⟨hs, hl⟩ =>
      have hi : i < n := hl i (by simp)
      have hj : j < n := hl j (by simp)
      have hij : @LT.lt Nat instLTNat i j := hs.1
      have h0 := hf.2 i j List.mem_cons_self
      cases sym with
      | false =>
        simp only [fillMatrix, Bool.false_eq_true, if_false] at h
        have hfr : Fresh (put acc [i, j] v) r := by
          refine ⟨fun i' hi' => ?_, fun a b hab => ?_⟩
          · rw [get_put_ne _ _ (ne_pair (by omega))]
            exact hf.1 i' (List.mem_cons_of_mem _ hi')
          · have hlt : @LT.lt Nat instLTNat a b := (hk' _ hab).1.1
            have h1 : [a, b] ≠ [i, j] := fun e => hnd.1 (e ▸ hab)
            have h2 : [b, a] ≠ [i, j] := ne_pair (by omega)
            rw [get_put_ne _ _ h1, get_put_ne _ _ h2]
            exact hf.2 a b (List.mem_cons_of_mem _ hab)
        rw [ih h hnd.2 hk' hfr, G_put x n acc hi hj, h0.1, eval_cons]
        simp only [mon_cons, mon_nil, mul_one, sub_zero]; ring
      | true =>
        simp only [fillMatrix, if_true] at h
        have hfr : Fresh (put (put acc [i, j] (v / 2)) [j, i] (v / 2)) r := by
          refine ⟨fun i' hi' => ?_, fun a b hab => ?_⟩
          · rw [get_put_ne _ _ (ne_pair (by omega)), get_put_ne _ _ (ne_pair (by omega))]
            exact hf.1 i' (List.mem_cons_of_mem _ hi')
          · have hlt : @LT.lt Nat instLTNat a b := (hk' _ hab).1.1
            have h1 : [a, b] ≠ [i, j] := fun e => hnd.1 (e ▸ hab)
            have h2 : [b, a] ≠ [i, j] := ne_pair (by omega)
            have h3 : [a, b] ≠ [j, i] := ne_pair (by omega)
            have h4 : [b, a] ≠ [j, i] := by
              intro e; injection e with e1 e2; injection e2 with e2 _
              exact h1 (by rw [e1, e2])
            rw [get_put_ne _ _ h3, get_put_ne _ _ h1, get_put_ne _ _ h4, get_put_ne _ _ h2]
            exact hf.2 a b (List.mem_cons_of_mem _ hab)
        have hji : [j, i] ≠ [i, j] := ne_pair (by omega)
        rw [ih h hnd.2 hk' hfr, G_put x n _ hj hi, G_put x n acc hi hj, get_put_ne _ _ hji, h0.1, h0.2, eval_cons]
        simp only [mon_cons, mon_nil, mul_one, sub_zero]; ring
    | _ :: _ :: _ :: _, _ => simp [fillMatrix] at h

/-! ### the constructor loop with `_variables` -/

theorem constructVars_fst {sq : Sq} {d acc Q : Poly} {vars vs : List Var}
    (h : constructVars sq acc vars d = .ok (Q, vs)) : iaddD sq acc d = .ok Q := by
  induction d generalizing acc vars with
  | nil => simp [constructVars] at h; simp [iaddD, h.1]
  | cons kv r ih =>
    obtain ⟨k, v⟩ := kv
    simp only [constructVars, bind_ok_iff] at h
    obtain ⟨k', hk', h⟩ := h
    simp only [iaddD, bind_ok_iff]
    exact ⟨_, by simp only [addTerm, bind_ok_iff, pure, Except.pure]; exact ⟨k', hk', rfl⟩, ih h⟩

theorem constructVars_vars {sq : Sq} {d acc Q : Poly} {vars vs : List Var}
    (h : constructVars sq acc vars d = .ok (Q, vs))
    (hI : ∀ k ∈ keys acc, ∀ l ∈ k, l ∈ vars) : ∀ k ∈ keys Q, ∀ l ∈ k, l ∈ vs := by
  induction d generalizing acc vars with
  | nil => simp [constructVars] at h; obtain ⟨rfl, rfl⟩ := h; exact hI
  | cons kv r ih =>
    obtain ⟨k, v⟩ := kv
    simp only [constructVars, bind_ok_iff] at h
    obtain ⟨k', hk', h⟩ := h
    apply ih h
    intro k2 hk2 l hl
    unfold set at hk2
    by_cases hz : get acc k' + v = 0
    · simp only [hz, if_true] at hk2 ⊢
      exact hI k2 (keys_erase_sub _ _ _ hk2) l hl
    · simp only [hz, if_false] at hk2 ⊢
      rcases keys_put _ _ _ _ hk2 with e | e
      · subst e; exact List.mem_append_right _ hl
      · exact List.mem_append_left _ (hI k2 e l hl)

theorem le_foldl_max (r : List Nat) (a : Nat) : a ≤ r.foldl max a ∧ ∀ l ∈ r, l ≤ r.foldl max a := by
  induction r generalizing a with
  | nil => simp
  | cons b r ih =>
    simp only [List.foldl_cons]
    obtain ⟨h1, h2⟩ := ih (max a b)
    refine ⟨by omega, fun l hl => ?_⟩
    rcases List.mem_cons.mp hl with e | e
    · subst e; omega
    · exact h2 l e

theorem maxIndex_ge {vars : List Var} {mx : Nat} (h : maxIndex vars = some mx) : ∀ l ∈ vars, l ≤ mx := by
  cases vars with
  | nil => cases h
  | cons a r =>
    simp only [maxIndex] at h
    injection h with h
    subst h
    intro l hl
    rcases List.mem_cons.mp hl with e | e
    · subst e; exact (le_foldl_max r l).1
    · exact (le_foldl_max r a).2 l e

theorem sumFrom_zero (j m : Nat) : sumFrom j m (fun _ => 0) = 0 := by
  induction m generalizing j with
  | zero => rfl
  | succ m ih => simp [sumFrom, ih]

theorem G_nil (x : Var → Rat) (n : Nat) : G x n [] = 0 := by
  unfold G gridForm
  simp [get, sumFrom_zero]

theorem eval_quboToMatrix {p : Poly} {isObj sym : Bool} {A : List (List Rat)} {x : Var → Rat} (hx : IsBool x)
    (h : quboToMatrix p isObj sym = .ok A) : quadForm x A 0 = eval x p := by
  simp only [quboToMatrix, bind_ok_iff, pure, Except.pure] at h
  obtain ⟨⟨n, e⟩, hfn, hA⟩ := h
  injection hA with hA
  subst hA
  unfold quboToMatrixFn at hfn
  split at hfn
  · cases hfn
  · simp only [bind_ok_iff] at hfn
    obtain ⟨⟨Q, vars⟩, hcv, hfn⟩ := hfn
    simp only at hfn
    split at hfn
    · cases hfn
    · split at hfn
      · cases hfn
      · split at hfn
        · cases hfn
        · rename_i mx hmx
          simp only [bind_ok_iff, pure, Except.pure] at hfn
          obtain ⟨e', he', hfn⟩ := hfn
          injection hfn with hfn
          injection hfn with hn he
          subst hn; subst he
          have hadd := constructVars_fst hcv
          have hwf : WF (squash .qubom) Q := wf_iaddD (squash_idem .qubom) (wf_nil _) hadd
          have hev : eval x Q = eval x p := by
            have := eval_iaddD (sqOK_bool (κ := .qubom) rfl hx) hadd; simpa using this
          have hvars := constructVars_vars hcv (by simp [keys])
          have hle := maxIndex_ge hmx
          have hk : ∀ k ∈ keys Q, SSorted k ∧ ∀ l ∈ k, l < mx + 1 := by
            intro k hkQ
            refine ⟨?_, fun l hl => Nat.lt_succ_of_le (hle l (hvars k hkQ l hl))⟩
            rcases squash_canon (hwf.fixed k hkQ) with hd | hc
            · cases hd
            · exact hc.1
          rw [quadForm_tabulate]
          have := G_fillMatrix hx (mx + 1) sym he' hwf.nodup hk ⟨fun _ _ => rfl, fun _ _ _ => ⟨rfl, rfl⟩⟩
          rw [G_nil, zero_add, hev] at this
          exact this

end Qv
