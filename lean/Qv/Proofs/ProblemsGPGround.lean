import Qv.Proofs.ProblemsRest
import Mathlib.Tactic.Ring
import Mathlib.Tactic.Linarith
import Mathlib.Tactic.NormNum
/-!
# GraphPartitioning ground states (Lucas 2.2): definitions, parity, symmetry, and the descent argument from an
abstract bound on the cost of moving one vertex across the cut
-/
namespace Qv.Prob
open Qv

/-- `B Σ_e w_e (1 - z_u z_v)/2 = B ·` (weight of the cut) -/
def GP.cutCost (p : GP) (B : Rat) (z : Var → Rat) : Rat :=
  B * sumL (p.edges.map Prod.snd) / 2 - cutSum p.order B z p.edges

/-- the closed form of `to_quso(A, B)` on spins (`gp_toQuso_eval`) -/
def GP.energy (p : GP) (A B : Rat) (z : Var → Rat) : Rat := A * (sumTo z p.numVars) ^ 2 + p.cutCost B z

/-- both sides have the same number of vertices -/
def GP.Balanced (p : GP) (z : Var → Rat) : Prop := sumTo z p.numVars = 0

/-- `order` enumerates the vertex set without repetition -/
def GP.WF (p : GP) : Prop := p.order.Nodup ∧ ∀ e ∈ p.input, e.1.1 ∈ p.order ∧ e.1.2 ∈ p.order

/-- unweighted graphs (an edge set: all weights `1`) or weights in `[0, 1]` -/
def GP.UnitWeights (p : GP) : Prop := ∀ e ∈ p.edges, 0 ≤ e.2 ∧ e.2 ≤ 1

/-- no edge twice, in either direction -/
def GP.Simple (p : GP) : Prop :=
  p.edges.Pairwise (fun e f => ¬ (e.1 = f.1 ∨ (e.1.1 = f.1.2 ∧ e.1.2 = f.1.1)))

/-- move vertex `i` to the other side -/
def gpFlip (z : Var → Rat) (i : Nat) : Var → Rat := fun j => if j = i then -(z j) else z j

/-- exchange the two sides -/
def gpNeg (z : Var → Rat) : Var → Rat := fun j => -(z j)

theorem isSpin_gpFlip {z : Var → Rat} (hz : IsSpin z) (i : Nat) : IsSpin (gpFlip z i) := by
  intro j; unfold gpFlip; split
  · rcases hz j with h | h <;> rw [h] <;> norm_num
  · exact hz j

theorem isSpin_gpNeg {z : Var → Rat} (hz : IsSpin z) : IsSpin (gpNeg z) := by
  intro j; unfold gpNeg
  rcases hz j with h | h <;> rw [h] <;> norm_num

/-! ### (PAR) -/

/-- the sum of `n` spins is `n - 2c`, `c` the number of `-1` -/
theorem gp_sumTo_parity {z : Var → Rat} (hz : IsSpin z) (n : Nat) :
    ∃ c : Nat, c ≤ n ∧ sumTo z n = (n : Rat) - 2 * (c : Rat) := by
  induction n with
  | zero => exact ⟨0, le_refl _, by simp [sumTo]⟩
  | succ n ih =>
    obtain ⟨c, hc, h⟩ := ih
    rcases hz n with h1 | h1
    · exact ⟨c, Nat.le_succ_of_le hc, by simp only [sumTo, h, h1]; push_cast; ring⟩
    · exact ⟨c + 1, Nat.succ_le_succ hc, by simp only [sumTo, h, h1]; push_cast; ring⟩

/-- a positive sum has a `+1` entry -/
theorem gp_exists_plus {z : Var → Rat} (hz : IsSpin z) (n : Nat) (h : 0 < sumTo z n) :
    ∃ i, i < n ∧ z i = 1 := by
  induction n with
  | zero => simp [sumTo] at h
  | succ n ih =>
    rcases hz n with h1 | h1
    · exact ⟨n, Nat.lt_succ_self n, h1⟩
    · simp only [sumTo, h1] at h
      obtain ⟨i, hi, hzi⟩ := ih (by linarith)
      exact ⟨i, Nat.lt_succ_of_lt hi, hzi⟩

/-- for an even number of spins the sum is `2k` or `-2k` -/
theorem gp_sumTo_even {z : Var → Rat} (hz : IsSpin z) (h : Nat) :
    ∃ k : Nat, sumTo z (2 * h) = 2 * (k : Rat) ∨ sumTo z (2 * h) = -(2 * (k : Rat)) := by
  obtain ⟨c, _, hs⟩ := gp_sumTo_parity hz (2 * h)
  rcases Nat.le_total c h with hle | hle
  · refine ⟨h - c, Or.inl ?_⟩
    rw [hs, Nat.cast_sub hle]; push_cast; ring
  · refine ⟨c - h, Or.inr ?_⟩
    rw [hs, Nat.cast_sub hle]; push_cast; ring

/-! ### (SYM) -/

theorem gp_sumTo_neg (z : Var → Rat) (n : Nat) : sumTo (gpNeg z) n = - sumTo z n := by
  induction n with
  | zero => simp [sumTo]
  | succ n ih => simp only [sumTo, ih, gpNeg]; ring

theorem gp_cutSum_neg (order : List Var) (B : Rat) (z : Var → Rat) (es : List ((Var × Var) × Rat)) :
    cutSum order B (gpNeg z) es = cutSum order B z es := by
  induction es with
  | nil => rfl
  | cons e r ih =>
    obtain ⟨⟨u, v⟩, w⟩ := e
    simp only [cutSum, ih, gpNeg]; ring

theorem gp_cutCost_neg (p : GP) (B : Rat) (z : Var → Rat) : p.cutCost B (gpNeg z) = p.cutCost B z := by
  simp only [GP.cutCost, gp_cutSum_neg]

theorem gp_energy_neg (p : GP) (A B : Rat) (z : Var → Rat) : p.energy A B (gpNeg z) = p.energy A B z := by
  simp only [GP.energy, gp_cutCost_neg, gp_sumTo_neg]; ring

/-! ### (FLIP), the balance part -/

theorem gp_sumTo_flip (z : Var → Rat) (i n : Nat) :
    sumTo (gpFlip z i) n = sumTo z n - (if i < n then 2 * z i else 0) := by
  induction n with
  | zero => simp [sumTo]
  | succ n ih =>
    simp only [sumTo, ih]
    by_cases h : n = i
    · subst h; simp [gpFlip]; ring
    · have h' : ¬ i = n := fun e => h e.symm
      by_cases hlt : i < n
      · have h3 : i < n + 1 := Nat.lt_succ_of_lt hlt
        simp only [gpFlip, h, hlt, h3, if_true, if_false]; ring
      · have h3 : ¬ i < n + 1 := fun hc => (Nat.lt_succ_iff_lt_or_eq.mp hc).elim hlt h'
        simp only [gpFlip, h, hlt, h3, if_false]; ring

/-! ### (STEP), (DESC), (G), (DEF) from an abstract bound on the flip cost -/

/-- moving a `+1` vertex of a state with surplus `s ≥ 2` across the cut costs at most `thr (4 s - 4)` -/
def GP.FlipOK (p : GP) (B thr : Rat) : Prop :=
  ∀ z : Var → Rat, IsSpin z → ∀ i, i < p.numVars → z i = 1 → 2 ≤ sumTo z p.numVars →
    p.cutCost B (gpFlip z i) - p.cutCost B z ≤ thr * (4 * sumTo z p.numVars - 4)

theorem gp_step {p : GP} {A B thr : Rat} (hF : p.FlipOK B thr) (hA : thr ≤ A) {z : Var → Rat} (hz : IsSpin z)
    {i : Nat} (hi : i < p.numVars) (hzi : z i = 1) (hs : 2 ≤ sumTo z p.numVars) :
    p.energy A B (gpFlip z i) ≤ p.energy A B z ∧ (thr < A → p.energy A B (gpFlip z i) < p.energy A B z) := by
  have hc := hF z hz i hi hzi hs
  have hsum : sumTo (gpFlip z i) p.numVars = sumTo z p.numVars - 2 := by
    rw [gp_sumTo_flip, if_pos hi, hzi]; ring
  simp only [GP.energy, hsum]
  have e : A * (sumTo z p.numVars - 2) ^ 2 = A * (sumTo z p.numVars) ^ 2 - A * (4 * sumTo z p.numVars - 4) := by ring
  have h4 : (0 : Rat) < 4 * sumTo z p.numVars - 4 := by linarith
  constructor
  · have := mul_nonneg (sub_nonneg.mpr hA) (le_of_lt h4)
    rw [e]; linarith [sub_mul A thr (4 * sumTo z p.numVars - 4)]
  · intro hlt
    have := mul_pos (sub_pos.mpr hlt) h4
    rw [e]; linarith [sub_mul A thr (4 * sumTo z p.numVars - 4)]

/-- descent from surplus `2k` -/
theorem gp_desc_nat {p : GP} {A B thr : Rat} (hF : p.FlipOK B thr) (hA : thr ≤ A) (k : Nat) :
    ∀ z : Var → Rat, IsSpin z → sumTo z p.numVars = 2 * (k : Rat) →
      ∃ z', IsSpin z' ∧ p.Balanced z' ∧ p.energy A B z' ≤ p.energy A B z ∧
        (thr < A → 0 < k → p.energy A B z' < p.energy A B z) := by
  induction k with
  | zero =>
    intro z hz hs
    exact ⟨z, hz, by simpa [GP.Balanced] using hs, le_refl _, fun _ h => absurd h (Nat.lt_irrefl 0)⟩
  | succ k ih =>
    intro z hz hs
    have hk : (0 : Rat) ≤ (k : Rat) := Nat.cast_nonneg k
    have hs2 : 2 ≤ sumTo z p.numVars := by rw [hs]; push_cast; linarith
    obtain ⟨i, hi, hzi⟩ := gp_exists_plus hz p.numVars (by linarith)
    have hsum : sumTo (gpFlip z i) p.numVars = 2 * (k : Rat) := by
      rw [gp_sumTo_flip, if_pos hi, hzi, hs]; push_cast; ring
    obtain ⟨z', hz', hb, hle, hlt⟩ := ih (gpFlip z i) (isSpin_gpFlip hz i) hsum
    obtain ⟨s1, s2⟩ := gp_step hF hA hz hi hzi hs2
    exact ⟨z', hz', hb, le_trans hle s1, fun h _ => lt_of_le_of_lt hle (s2 h)⟩

/-- **(DESC)** every spin state is dominated by a balanced one, strictly when it is unbalanced and `A > thr` -/
theorem gp_desc {p : GP} {A B thr : Rat} (hF : p.FlipOK B thr) (hA : thr ≤ A) {h : Nat} (hN : p.numVars = 2 * h)
    {z : Var → Rat} (hz : IsSpin z) :
    ∃ z', IsSpin z' ∧ p.Balanced z' ∧ p.energy A B z' ≤ p.energy A B z ∧
      (thr < A → ¬ p.Balanced z → p.energy A B z' < p.energy A B z) := by
  obtain ⟨k, hk⟩ := gp_sumTo_even hz h
  rw [← hN] at hk
  have hpos : ¬ p.Balanced z → 0 < k := by
    intro hb
    rcases Nat.eq_zero_or_pos k with h0 | h0
    · exfalso; apply hb; subst h0
      rcases hk with hk | hk <;> simpa [GP.Balanced] using hk
    · exact h0
  rcases hk with hk | hk
  · obtain ⟨z', hz', hb, hle, hlt⟩ := gp_desc_nat hF hA k z hz hk
    exact ⟨z', hz', hb, hle, fun h1 h2 => hlt h1 (hpos h2)⟩
  · have hk' : sumTo (gpNeg z) p.numVars = 2 * (k : Rat) := by rw [gp_sumTo_neg, hk]; ring
    obtain ⟨z', hz', hb, hle, hlt⟩ := gp_desc_nat (A := A) hF hA k (gpNeg z) (isSpin_gpNeg hz) hk'
    rw [gp_energy_neg] at hle hlt
    exact ⟨z', hz', hb, hle, fun h1 h2 => hlt h1 (hpos h2)⟩

theorem gp_energy_balanced {p : GP} (A B : Rat) {z : Var → Rat} (hb : p.Balanced z) :
    p.energy A B z = p.cutCost B z := by
  unfold GP.Balanced at hb
  simp [GP.energy, hb]

/-- **(G)**, abstract form -/
theorem gp_ground_of_flipOK {p : GP} {A B thr : Rat} (hF : p.FlipOK B thr) (hA : thr < A) {h : Nat}
    (hN : p.numVars = 2 * h) {z : Var → Rat} (hz : IsSpin z)
    (hmin : ∀ z'' : Var → Rat, IsSpin z'' → p.energy A B z ≤ p.energy A B z'') :
    p.Balanced z ∧ p.energy A B z = p.cutCost B z ∧
      ∀ y : Var → Rat, IsSpin y → p.Balanced y → p.cutCost B z ≤ p.cutCost B y := by
  have hb : p.Balanced z := by
    by_contra hb
    obtain ⟨z', hz', _, _, hlt⟩ := gp_desc hF (le_of_lt hA) hN hz
    exact absurd (hmin z' hz') (not_le.mpr (hlt hA hb))
  refine ⟨hb, gp_energy_balanced A B hb, fun y hy hyb => ?_⟩
  have := hmin y hy
  rwa [gp_energy_balanced A B hb, gp_energy_balanced A B hyb] at this

/-- **(DEF)**, abstract form -/
theorem gp_default_of_flipOK {p : GP} {A B thr : Rat} (hF : p.FlipOK B thr) (hA : thr ≤ A) {h : Nat}
    (hN : p.numVars = 2 * h) {y : Var → Rat} (hyb : p.Balanced y)
    (hopt : ∀ y' : Var → Rat, IsSpin y' → p.Balanced y' → p.cutCost B y ≤ p.cutCost B y') :
    (∀ z : Var → Rat, IsSpin z → p.energy A B y ≤ p.energy A B z) ∧ p.energy A B y = p.cutCost B y := by
  refine ⟨fun z hz => ?_, gp_energy_balanced A B hyb⟩
  obtain ⟨z', hz', hb, hle, _⟩ := gp_desc hF hA hN hz
  have := hopt z' hz' hb
  rw [gp_energy_balanced A B hyb]
  rw [gp_energy_balanced A B hb] at hle
  linarith

end Qv.Prob
