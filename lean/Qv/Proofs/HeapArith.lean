import Qv.Proofs.HeapGood
/-!
# Qv.Proofs.HeapArith — footprints of the in-place operators, freshness of everything the other operators, the sat
gates and the free utilities return
-/
namespace Qv.Hp
open Qv

theorem allocAttrs_fresh {n : Nat} {h : Heap} (κ : Kind) (pl : Payload) (hn : n ≤ h.length) :
    FreshExt n h (allocAttrs h κ pl).heap ∧
      ∀ r ∈ (allocAttrs h κ pl).m.toList ++ (allocAttrs h κ pl).rm.toList ++ [(allocAttrs h κ pl).v],
        h.length ≤ r ∧ r < (allocAttrs h κ pl).heap.length := by
  cases hl : κ.isLabelled
  · simp only [allocAttrs, allocIf, alloc, hl, Bool.false_eq_true, if_false]
    exact ⟨FreshExt.alloc (by simp [Cell.refs]), by simp⟩
  · simp only [allocAttrs, allocIf, alloc, hl, if_true]
    refine ⟨(((FreshExt.refl n h).alloc' (c := .map pl.mapping) (by simp [Cell.refs])).alloc'
      (c := .map pl.rmapping) (by simp [Cell.refs])).alloc' (c := .set pl.vars) (by simp [Cell.refs]), ?_⟩
    intro r hr
    simp only [Option.toList, List.mem_append, List.mem_cons, List.not_mem_nil, or_false] at hr
    rcases hr with (rfl | rfl) | rfl <;> simp <;> omega

theorem allocIf_fresh {n : Nat} {h : Heap} (b : Bool) {cell : Cell} (hr : cell.refs = []) :
    FreshExt n h (allocIf h b cell).1 ∧ ∀ r ∈ (allocIf h b cell).2.toList, h.length ≤ r ∧ r < (allocIf h b cell).1.length := by
  cases b
  · simp only [allocIf, Bool.false_eq_true, if_false]
    exact ⟨FreshExt.refl _ _, by simp⟩
  · simp only [allocIf, if_true]
    exact ⟨FreshExt.alloc (by rw [hr]; intro r hr'; cases hr'), by simp⟩

/-! ### in place -/

theorem iupdH_good {n : Nat} {h h' : Heap} {recv : Nat} {other : Option Nat} {u : Upd}
    (he : iupdH h recv other u = some h') : Good n (mutFootprint h recv) h h' := by
  unfold iupdH at he
  split at he
  · exact applyUpd_good he
  · cases he

/-- the shape shared by `clear`, `*=` by a dict and `refresh`: fresh bookkeeping cells, then one write of the object
cell whose references are those fresh cells, cells at or above `n`, or the constraint dict it held before -/
theorem rebind_good {n : Nat} {h g : Heap} {recv : Nat} {d d' : ObjData} {m rm : Option Nat} {v : Nat}
    {c c' : Option Nat} {am arm : Option Nat} {av : Nat} (hn : n ≤ h.length)
    (hcell : h[recv]? = some (Cell.obj d m rm v c)) (hg : FreshExt n h g)
    (ha : ∀ r ∈ am.toList ++ arm.toList ++ [av], n ≤ r ∧ r < g.length)
    (hc' : ∀ r ∈ c'.toList, r ∈ c.toList ∨ (n ≤ r ∧ r < g.length)) :
    Good n [recv] h (write g recv (Cell.obj d' am arm av c')) := by
  have hrlt := get_some_lt hcell
  have hgcell : g[recv]? = some (Cell.obj d m rm v c) := by rw [hg.old hrlt]; exact hcell
  refine (Good.of_fresh [recv] hn hg).trans (Good.write (fun _ => by simp) ?_ ?_)
  · intro hcl q hq
    simp only [Cell.refs, List.mem_append] at hq
    rcases hq with hq | hq
    · exact (ha q (by simp only [List.mem_append]; exact hq)).2
    · rcases hc' q hq with h1 | h1
      · exact hcl recv _ hgcell q (by simp only [Cell.refs, List.mem_append]; exact Or.inr h1)
      · exact h1.2
  · intro old hold q hq
    rw [hgcell] at hold
    cases hold
    simp only [Cell.refs, List.mem_append] at hq ⊢
    rcases hq with hq | hq
    · exact Or.inr (ha q (by simp only [List.mem_append]; exact hq)).1
    · rcases hc' q hq with h1 | h1
      · exact Or.inl (Or.inr h1)
      · exact Or.inr h1.1

theorem clearH_good {n : Nat} {h h' : Heap} {recv : Nat} (hn : n ≤ h.length) (he : clearH h recv = some h') :
    Good n [recv] h h' := by
  unfold clearH at he
  split at he
  · rename_i d m rm v c hcell
    simp only [Option.some.injEq] at he
    subst he
    have ha := allocAttrs_fresh (n := n) (h := h) d.kind {} hn
    have hg := allocIf_fresh (n := n) (h := (allocAttrs h d.kind {}).heap) d.kind.isConstrained
      (cell := Cell.cdict []) rfl
    have hl := hg.1.len
    refine rebind_good hn hcell (ha.1.trans hg.1) ?_ ?_
    · intro r hr
      have := ha.2 r hr
      omega
    · intro r hr
      cases hk : d.kind.isConstrained
      · simp only [hk, Bool.false_eq_true, if_false] at hr
        exact Or.inl hr
      · simp only [hk, if_true] at hr hg hl ⊢
        have := hg.2 r hr
        have := ha.1.len
        right; omega
  · cases he

theorem imulDictH_good {n : Nat} {h h' : Heap} {recv other : Nat} {u : Upd} (hn : n ≤ h.length)
    (he : imulDictH h recv other u = some h') : Good n [recv] h h' := by
  unfold imulDictH at he
  split at he
  · rename_i d m rm v c hcell
    split at he
    · simp only [Option.some.injEq] at he
      subst he
      have ha := allocAttrs_fresh (n := n) (h := h) d.kind
        { mapping := u.mapping, rmapping := u.rmapping, vars := u.vars } hn
      have hg := allocIf_fresh (n := n)
        (h := (allocAttrs h d.kind { mapping := u.mapping, rmapping := u.rmapping, vars := u.vars }).heap)
        d.kind.isConstrained (cell := Cell.cdict []) rfl
      have hl := hg.1.len
      refine rebind_good hn hcell (ha.1.trans hg.1) ?_ (fun r hr => Or.inl hr)
      intro r hr
      have := ha.2 r hr
      omega
    · cases he
  · cases he

theorem imulIter_good {n : Nat} {recv old : Nat} : ∀ (us : List Upd) (h h' : Heap), n ≤ h.length →
    imulIter h recv old us = some h' → Good n [recv] h h'
  | [], h, h', _, he => by
    simp only [imulIter, Option.some.injEq] at he
    subst he; exact Good.refl _ _ _
  | u :: us, h, h', hn, he => by
    simp only [imulIter] at he
    cases h1 : imulDictH h recv old u with
    | none => simp [h1] at he
    | some g =>
      simp only [h1] at he
      have g1 := imulDictH_good (n := n) hn h1
      exact g1.trans (imulIter_good us g h' (Nat.le_trans hn g1.len) he)

theorem ipowH_good (F : Ctor) {n : Nat} {h h' : Heap} {recv : Nat} {us : List Upd} (hn : n ≤ h.length)
    (he : ipowH F h recv us = some h') : Good n [recv] h h' := by
  unfold ipowH at he
  split at he
  · split at he
    · simp only [Option.some.injEq] at he
      subst he; exact Good.refl _ _ _
    · cases he
  · cases hc : copyM F h recv with
    | none => simp [hc] at he
    | some p =>
      obtain ⟨h1, old⟩ := p
      simp only [hc] at he
      have f := copyM_fresh (n := n) F hn hc
      exact (Good.of_fresh [recv] hn f.1).trans (imulIter_good _ h1 h' (Nat.le_trans hn f.len) he)

theorem refreshH_good (F : Ctor) {n : Nat} {h h' : Heap} {recv : Nat} (hn : n ≤ h.length)
    (he : refreshH F h recv = some h') : Good n [recv] h h' := by
  unfold refreshH at he
  split at he
  · rename_i d m rm v c hcell
    cases hc : copyM F h recv with
    | none => simp [hc] at he
    | some p =>
      obtain ⟨h1, dref⟩ := p
      simp only [hc] at he
      have f := copyM_fresh (n := n) F hn hc
      split at he
      · cases hg : getConstraints F h1 dref with
        | none => simp [hg] at he
        | some q =>
          obtain ⟨h2, c'⟩ := q
          simp only [hg, Option.some.injEq] at he
          subst he
          have f2 := getConstraints_fresh (n := n) F (Nat.le_trans hn f.len) hg
          have ha := allocAttrs_fresh (n := n) (h := h2) d.kind (F d.kind d.terms) (Nat.le_trans hn (Nat.le_trans f.len f2.len))
          have hl := ha.1.len
          refine rebind_good hn hcell ((f.1.trans f2.1).trans ha.1) ?_ ?_
          · intro r hr
            have := ha.2 r hr
            have := f.len
            have := f2.len
            omega
          · intro r hr
            simp only [Option.toList, List.mem_singleton] at hr
            subst hr
            have := f2.2
            have := f.len
            right; omega
      · simp only [Option.some.injEq] at he
        subst he
        have ha := allocAttrs_fresh (n := n) (h := h1) d.kind (F d.kind d.terms) (Nat.le_trans hn f.len)
        refine rebind_good hn hcell (f.1.trans ha.1) ?_ (fun r hr => Or.inl hr)
        intro r hr
        have := ha.2 r hr
        have := f.len
        omega
  · cases he

/-! ### not in place -/

theorem binopH_fresh (F : Ctor) {h h' : Heap} {a r : Nat} {other : Option Nat} {u : Upd} (hc : Closed h)
    (he : binopH F h a other u = some (h', r)) : FreshResult h.length h h' r := by
  unfold binopH at he
  cases h1 : copyM F h a with
  | none => simp [h1] at he
  | some p =>
    obtain ⟨g, d⟩ := p
    simp only [h1] at he
    cases h2 : iupdH g d other u with
    | none => simp [h2] at he
    | some g' =>
      simp only [h2, Option.some.injEq, Prod.mk.injEq] at he
      obtain ⟨rfl, rfl⟩ := he
      have f := copyM_fresh (n := h.length) F (Nat.le_refl _) h1
      exact f.good hc (iupdH_good h2) f.footprint_fresh

theorem FreshResult.chain {h h1 h2 : Heap} {r1 r2 : Nat} (f1 : FreshResult h.length h h1 r1)
    (f2 : FreshResult h1.length h1 h2 r2) : FreshResult h.length h h2 r2 :=
  FreshResult.after f1.1 ⟨f2.1.mono f1.len, f2.2⟩

theorem rsubH_fresh (F : Ctor) {h h' : Heap} {a r : Nat} {other : Option Nat} {u1 u2 : Upd} (hc : Closed h)
    (he : rsubH F h a other u1 u2 = some (h', r)) : FreshResult h.length h h' r := by
  unfold rsubH at he
  cases h1 : binopH F h a none u1 with
  | none => simp [h1] at he
  | some p =>
    obtain ⟨g, d1⟩ := p
    simp only [h1] at he
    have f1 := binopH_fresh F hc h1
    exact f1.chain (binopH_fresh F (hc.fresh f1.1) he)

theorem mulDictH_fresh (F : Ctor) {h h' : Heap} {a b r : Nat} {u : Upd} (hc : Closed h)
    (he : mulDictH F h a b u = some (h', r)) : FreshResult h.length h h' r := by
  unfold mulDictH at he
  cases h1 : copyM F h a with
  | none => simp [h1] at he
  | some p =>
    obtain ⟨g, d⟩ := p
    simp only [h1] at he
    cases h2 : imulDictH g d b u with
    | none => simp [h2] at he
    | some g' =>
      simp only [h2, Option.some.injEq, Prod.mk.injEq] at he
      obtain ⟨rfl, rfl⟩ := he
      have f := copyM_fresh (n := h.length) F (Nat.le_refl _) h1
      exact f.good hc (imulDictH_good f.len h2) (by
        intro t ht; simp only [List.mem_singleton] at ht; subst ht; exact f.2.1)

theorem powH_fresh (F : Ctor) {h h' : Heap} {a r : Nat} {us : List Upd} (hc : Closed h)
    (he : powH F h a us = some (h', r)) : FreshResult h.length h h' r := by
  unfold powH at he
  cases h1 : copyM F h a with
  | none => simp [h1] at he
  | some p =>
    obtain ⟨g, d⟩ := p
    simp only [h1] at he
    cases h2 : ipowH F g d us with
    | none => simp [h2] at he
    | some g' =>
      simp only [h2, Option.some.injEq, Prod.mk.injEq] at he
      obtain ⟨rfl, rfl⟩ := he
      have f := copyM_fresh (n := h.length) F (Nat.le_refl _) h1
      exact f.good hc (ipowH_good F f.len h2) (by
        intro t ht; simp only [List.mem_singleton] at ht; subst ht; exact f.2.1)

theorem rebuildH_fresh (F : Ctor) {n : Nat} {h h' : Heap} {a r : Nat} {pl : Payload} (hn : n ≤ h.length)
    (he : rebuildH F h a pl = some (h', r)) : FreshResult n h h' r := by
  unfold rebuildH at he
  split at he
  · rename_i d _ _ _ _ _
    split at he
    · simp only [alloc] at he
      have ha : FreshExt n h (h ++ [Cell.cdict []]) := FreshExt.alloc (by simp [Cell.refs])
      cases hg : getConstraints F (h ++ [Cell.cdict []]) a with
      | none => simp [hg] at he
      | some q =>
        obtain ⟨h1, c'⟩ := q
        simp only [hg, Option.some.injEq] at he
        have f := getConstraints_fresh (n := n) F (by simp; omega) hg
        have hm := mkObj_fresh (n := n) (h := h1) d.kind pl none d.anc (some c') (by
          have := f.len; simp at this; omega) (by
          intro r hr
          simp only [Option.toList, List.mem_singleton] at hr
          subst hr
          have := f.2.1
          simp at this
          exact ⟨by omega, f.2.2⟩)
        rw [Prod.ext_iff] at he
        obtain ⟨rfl, rfl⟩ := he
        exact FreshResult.after (ha.trans f.1) hm
    · simp only [Option.some.injEq] at he
      have hm := mkObj_fresh (n := n) (h := h) d.kind pl none 0 none hn (by simp)
      rw [Prod.ext_iff] at he
      obtain ⟨rfl, rfl⟩ := he
      exact hm
  · cases he

theorem newLikeH_fresh {n : Nat} {h h' : Heap} {a r : Nat} {extras : List Nat} {pl : Payload} (hn : n ≤ h.length)
    (he : newLikeH h a extras pl = some (h', r)) : FreshResult n h h' r := by
  unfold newLikeH at he
  split at he
  · split at he
    · rename_i d _ _ _ _ _
      split at he
      · simp only [alloc, Option.some.injEq] at he
        have ha : FreshExt n h (h ++ [Cell.cdict []]) := FreshExt.alloc (by simp [Cell.refs])
        have hm := mkObj_fresh (n := n) (h := h ++ [Cell.cdict []]) d.kind pl none 0 (some h.length)
          (by simp; omega) (by
            intro r hr
            simp only [Option.toList, List.mem_singleton] at hr
            subst hr
            simp; omega)
        rw [Prod.ext_iff] at he
        obtain ⟨rfl, rfl⟩ := he
        exact FreshResult.after ha hm
      · simp only [Option.some.injEq] at he
        have hm := mkObj_fresh (n := n) (h := h) d.kind pl none 0 none hn (by simp)
        rw [Prod.ext_iff] at he
        obtain ⟨rfl, rfl⟩ := he
        exact hm
    · simp only [alloc, Option.some.injEq, Prod.mk.injEq] at he
      obtain ⟨rfl, rfl⟩ := he
      exact ⟨FreshExt.alloc (by simp [Cell.refs]), Nat.le_refl _, by simp⟩
    · cases he
  · cases he

theorem readOnlyH_fresh {n : Nat} {h h' : Heap} {args rs : List Nat} {nres : Nat}
    (he : readOnlyH h args nres = some (h', rs)) :
    FreshExt n h h' ∧ ∀ r ∈ rs, h.length ≤ r ∧ r < h'.length := by
  unfold readOnlyH at he
  split at he
  · simp only [Option.some.injEq] at he
    rw [Prod.ext_iff] at he
    obtain ⟨rfl, rfl⟩ := he
    exact allocPlains_fresh nres h
  · cases he

/-! ### sat gates -/

theorem bufferH_fresh (F : Ctor) {n : Nat} {h h' : Heap} {x r : Nat} (hn : n ≤ h.length)
    (he : bufferH F h x = some (h', r)) : FreshResult n h h' r := by
  unfold bufferH at he
  split at he
  · exact copyM_fresh F hn he
  · exact copyCtor_fresh F hn he
  · cases he

theorem bufferAll_fresh (F : Ctor) {n : Nat} : ∀ (l : List Nat) (h h' : Heap), n ≤ h.length →
    bufferAll F h l = some h' → FreshExt n h h'
  | [], h, h', _, he => by
    simp only [bufferAll, Option.some.injEq] at he
    subst he; exact FreshExt.refl _ _
  | x :: t, h, h', hn, he => by
    simp only [bufferAll] at he
    cases hb : bufferH F h x with
    | none => simp [hb] at he
    | some p =>
      obtain ⟨h1, r⟩ := p
      simp only [hb] at he
      have f := bufferH_fresh (n := n) F hn hb
      exact f.1.trans (bufferAll_fresh F t h1 h' (Nat.le_trans hn f.len) he)

theorem satH_fresh (F : Ctor) {h h' : Heap} {first : Option Nat} {others : List Nat} {u : Upd} {r : Nat}
    (hc : Closed h) (he : satH F h first others u = some (h', r)) : FreshResult h.length h h' r := by
  unfold satH at he
  cases hb : bufferAll F h others with
  | none => simp [hb] at he
  | some h1 =>
    simp only [hb] at he
    have f1 := bufferAll_fresh (n := h.length) F others h h1 (Nat.le_refl _) hb
    have hres : ∀ h2 r', (match first with
        | none => some (mkObj h1 .pubo {} none 0 none)
        | some x => bufferH F h1 x) = some (h2, r') → FreshResult h.length h h2 r' := by
      intro h2 r' hr
      cases first with
      | none =>
        simp only [Option.some.injEq] at hr
        rw [Prod.ext_iff] at hr
        obtain ⟨rfl, rfl⟩ := hr
        exact FreshResult.after f1 (mkObj_fresh _ _ _ _ _ f1.len (by simp))
      | some x => exact FreshResult.after f1 (bufferH_fresh F f1.len hr)
    split at he
    · cases he
    · rename_i h2 r' hr
      cases ha : applyUpd h2 r' u with
      | none => simp [ha] at he
      | some h3 =>
        simp only [ha, Option.some.injEq, Prod.mk.injEq] at he
        obtain ⟨rfl, rfl⟩ := he
        have f := hres h2 r' hr
        exact f.good hc (applyUpd_good ha) f.footprint_fresh

end Qv.Hp
