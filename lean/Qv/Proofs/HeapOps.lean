import Qv.Proofs.Heap
/-!
# Qv.Proofs.HeapOps — every API entry of C19 that returns an object builds it from fresh cells only
-/
namespace Qv.Hp
open Qv

/-- the result `r` of a call that took the heap from `h` to `h'`: the old cells are untouched, `r` is a fresh
cell, and the fresh cells refer only to cells at or above `n` -/
def FreshResult (n : Nat) (h h' : Heap) (r : Nat) : Prop :=
  FreshExt n h h' ∧ h.length ≤ r ∧ r < h'.length

theorem FreshExt.alloc' {n : Nat} {h h1 : Heap} {c : Cell} (e : FreshExt n h h1)
    (hr : ∀ r ∈ c.refs, n ≤ r ∧ r < h1.length) : FreshExt n h (h1 ++ [c]) :=
  e.trans (FreshExt.alloc hr)

theorem FreshExt.mono {n n' : Nat} {h h' : Heap} (e : FreshExt n h h') (hn : n' ≤ n) : FreshExt n' h h' :=
  ⟨e.pre, fun c cell hc hg r hr => by
    have := e.up c cell hc hg r hr
    exact ⟨Nat.le_trans hn this.1, this.2⟩⟩

theorem mkObj_fresh {n : Nat} {h : Heap} (κ : Kind) (pl : Payload) (name : Option String) (anc : Nat)
    (cons : Option Nat) (hn : n ≤ h.length) (hc : ∀ r ∈ cons.toList, n ≤ r ∧ r < h.length) :
    FreshResult n h (mkObj h κ pl name anc cons).1 (mkObj h κ pl name anc cons).2 := by
  unfold FreshResult
  cases hl : κ.isLabelled
  · simp only [mkObj, allocIf, alloc, hl, Bool.false_eq_true, if_false]
    refine ⟨?_, by simp, by simp⟩
    refine ((FreshExt.refl n h).alloc' (c := .set pl.vars) (by simp [Cell.refs])).alloc' ?_
    intro r hr
    simp only [Cell.refs, Option.toList, List.nil_append, List.mem_append, List.mem_singleton] at hr
    rcases hr with rfl | hr
    · simp; omega
    · have := hc r hr
      simp; omega
  · simp only [mkObj, allocIf, alloc, hl, if_true]
    refine ⟨?_, by simp, by simp⟩
    refine ((((FreshExt.refl n h).alloc' (c := .map pl.mapping) (by simp [Cell.refs])).alloc'
      (c := .map pl.rmapping) (by simp [Cell.refs])).alloc' (c := .set pl.vars) (by simp [Cell.refs])).alloc' ?_
    intro r hr
    simp only [Cell.refs, Option.toList, List.mem_append, List.mem_cons,
      List.not_mem_nil, or_false] at hr
    rcases hr with ((rfl | rfl) | rfl) | hr
    · simp; omega
    · simp; omega
    · simp; omega
    · have := hc r hr
      simp; omega

theorem FreshResult.len {n : Nat} {h h' : Heap} {r : Nat} (f : FreshResult n h h' r) : h.length ≤ h'.length :=
  f.1.len

/-! ### `constraints` -/

theorem copyList_fresh (F : Ctor) {n : Nat} : ∀ (xs : List Nat) (h h' : Heap) (rs : List Nat), n ≤ h.length →
    copyList F h xs = some (h', rs) → FreshExt n h h' ∧ ∀ r ∈ rs, h.length ≤ r ∧ r < h'.length
  | [], h, h', rs, _, he => by
    simp only [copyList, Option.some.injEq, Prod.mk.injEq] at he
    obtain ⟨rfl, rfl⟩ := he
    exact ⟨FreshExt.refl _ _, by simp⟩
  | x :: t, h, h', rs, hn, he => by
    simp only [copyList] at he
    cases hp : consPolyOf h x with
    | none => simp [hp] at he
    | some kt =>
      obtain ⟨κ, ts⟩ := kt
      simp only [hp] at he
      have hm := mkObj_fresh (n := n) (h := h) κ (F κ ts) none 0 none hn (by simp)
      cases hr : copyList F (mkObj h κ (F κ ts) none 0 none).1 t with
      | none => simp [hr] at he
      | some p =>
        obtain ⟨h2, rs2⟩ := p
        simp only [hr, Option.some.injEq, Prod.mk.injEq] at he
        obtain ⟨rfl, rfl⟩ := he
        have ih := copyList_fresh F t _ _ _ (Nat.le_trans hn hm.len) hr
        refine ⟨hm.1.trans ih.1, ?_⟩
        intro r hr'
        simp only [List.mem_cons] at hr'
        rcases hr' with rfl | hr'
        · have := ih.1.len
          have := hm.2.2
          exact ⟨hm.2.1, by omega⟩
        · have := ih.2 r hr'
          have := hm.len
          omega

theorem copyGroups_fresh (F : Ctor) {n : Nat} : ∀ (g : List (Rel × Nat)) (h h' : Heap) (g' : List (Rel × Nat)),
    n ≤ h.length → copyGroups F h g = some (h', g') →
    FreshExt n h h' ∧ ∀ e ∈ g', h.length ≤ e.2 ∧ e.2 < h'.length
  | [], h, h', g', _, he => by
    simp only [copyGroups, Option.some.injEq, Prod.mk.injEq] at he
    obtain ⟨rfl, rfl⟩ := he
    exact ⟨FreshExt.refl _ _, by simp⟩
  | e :: t, h, h', g', hn, he => by
    simp only [copyGroups] at he
    cases hc : h[e.2]? with
    | none => simp [hc] at he
    | some cell =>
      cases cell with
      | list xs =>
        simp only [hc] at he
        cases hl : copyList F h xs with
        | none => simp [hl] at he
        | some p =>
          obtain ⟨h1, rs⟩ := p
          simp only [hl] at he
          have h1f := copyList_fresh (n := n) F xs h h1 rs hn hl
          have ha : FreshExt n h (h1 ++ [Cell.list rs]) := h1f.1.alloc' (by
            intro r hr
            have := h1f.2 r (by simpa [Cell.refs] using hr)
            omega)
          cases hg : copyGroups F (alloc h1 (Cell.list rs)).1 t with
          | none => simp [hg] at he
          | some q =>
            obtain ⟨h3, gs⟩ := q
            simp only [hg, Option.some.injEq, Prod.mk.injEq] at he
            obtain ⟨rfl, rfl⟩ := he
            have hlen1 := h1f.1.len
            have hn1 : n ≤ (h1 ++ [Cell.list rs]).length := by simp; omega
            have ih := copyGroups_fresh F t (h1 ++ [Cell.list rs]) _ _ hn1 hg
            refine ⟨ha.trans ih.1, ?_⟩
            intro e' he'
            simp only [List.mem_cons] at he'
            have hlen3 := ih.1.len
            simp at hlen3
            rcases he' with rfl | he'
            · simp only [alloc]; omega
            · have := ih.2 e' he'
              simp at this
              omega
      | _ => simp [hc] at he

theorem getConstraints_fresh (F : Ctor) {n : Nat} {h h' : Heap} {o r : Nat} (hn : n ≤ h.length)
    (he : getConstraints F h o = some (h', r)) : FreshResult n h h' r := by
  unfold getConstraints at he
  split at he
  · split at he
    · rename_i g _
      cases hg : copyGroups F h g with
      | none => simp [hg] at he
      | some p =>
        obtain ⟨h1, g'⟩ := p
        simp only [hg, alloc, Option.some.injEq, Prod.mk.injEq] at he
        obtain ⟨rfl, rfl⟩ := he
        have hf := copyGroups_fresh (n := n) F g h h1 g' hn hg
        refine ⟨hf.1.alloc' ?_, hf.1.len, by simp⟩
        intro r hr
        simp only [Cell.refs, List.mem_map] at hr
        obtain ⟨e, he, rfl⟩ := hr
        have := hf.2 e he
        omega
    · cases he
  · cases he

/-! ### `mapping`, `reverse_mapping`, `variables` -/

theorem getMapping_fresh {n : Nat} {h h' : Heap} {o r : Nat} (_hn : n ≤ h.length)
    (he : getMapping h o = some (h', r)) : FreshResult n h h' r := by
  unfold getMapping at he
  split at he
  · split at he
    · simp only [alloc, Option.some.injEq, Prod.mk.injEq] at he
      obtain ⟨rfl, rfl⟩ := he
      exact ⟨FreshExt.alloc (by simp [Cell.refs]), Nat.le_refl _, by simp⟩
    · cases he
  · cases he

theorem getRMapping_fresh {n : Nat} {h h' : Heap} {o r : Nat} (_hn : n ≤ h.length)
    (he : getRMapping h o = some (h', r)) : FreshResult n h h' r := by
  unfold getRMapping at he
  split at he
  · split at he
    · simp only [alloc, Option.some.injEq, Prod.mk.injEq] at he
      obtain ⟨rfl, rfl⟩ := he
      exact ⟨FreshExt.alloc (by simp [Cell.refs]), Nat.le_refl _, by simp⟩
    · cases he
  · cases he

theorem getVariables_fresh {n : Nat} {h h' : Heap} {o r : Nat} (_hn : n ≤ h.length)
    (he : getVariables h o = some (h', r)) : FreshResult n h h' r := by
  unfold getVariables at he
  split at he
  · split at he
    · simp only [alloc, Option.some.injEq, Prod.mk.injEq] at he
      obtain ⟨rfl, rfl⟩ := he
      exact ⟨FreshExt.alloc (by simp [Cell.refs]), Nat.le_refl _, by simp⟩
    · cases he
  · cases he

/-! ### copy constructors, `copy()` -/

theorem FreshResult.after {n : Nat} {h h1 h' : Heap} {r : Nat} (e : FreshExt n h h1) (f : FreshResult n h1 h' r) :
    FreshResult n h h' r :=
  ⟨e.trans f.1, Nat.le_trans e.len f.2.1, f.2.2⟩

theorem copyCtor_fresh (F : Ctor) {n : Nat} {h h' : Heap} {κ : Kind} {a r : Nat} (hn : n ≤ h.length)
    (he : copyCtor F h κ a = some (h', r)) : FreshResult n h h' r := by
  unfold copyCtor at he
  cases ht : termsOf h a with
  | none => simp [ht] at he
  | some kt =>
    obtain ⟨κa, ts⟩ := kt
    simp only [ht] at he
    split at he
    · split at he
      · cases hg : getConstraints F h a with
        | none => simp [hg] at he
        | some p =>
          obtain ⟨h1, c⟩ := p
          simp only [hg, Option.some.injEq] at he
          have hf := getConstraints_fresh (n := n) F hn hg
          have hm := mkObj_fresh (n := n) (h := h1) κ (F κ ts) none (ancOf h a) (some c)
            (Nat.le_trans hn hf.len) (by
              intro r hr
              simp only [Option.toList, List.mem_singleton] at hr
              subst hr
              exact ⟨Nat.le_trans hn hf.2.1, hf.2.2⟩)
          rw [Prod.ext_iff] at he
          obtain ⟨rfl, rfl⟩ := he
          exact FreshResult.after hf.1 hm
      · simp only [alloc, Option.some.injEq] at he
        have ha : FreshExt n h (h ++ [Cell.cdict []]) := FreshExt.alloc (by simp [Cell.refs])
        have hm := mkObj_fresh (n := n) (h := h ++ [Cell.cdict []]) κ (F κ ts) none 0 (some h.length)
          (by simp; omega) (by
            intro r hr
            simp only [Option.toList, List.mem_singleton] at hr
            subst hr
            simp; omega)
        rw [Prod.ext_iff] at he
        obtain ⟨rfl, rfl⟩ := he
        exact FreshResult.after ha hm
    · simp only [Option.some.injEq] at he
      have hm := mkObj_fresh (n := n) (h := h) κ (F κ ts) none 0 none hn (by simp)
      rw [Prod.ext_iff] at he
      obtain ⟨rfl, rfl⟩ := he
      exact hm

theorem copyM_fresh (F : Ctor) {n : Nat} {h h' : Heap} {o r : Nat} (hn : n ≤ h.length)
    (he : copyM F h o = some (h', r)) : FreshResult n h h' r := by
  unfold copyM at he
  split at he
  · exact copyCtor_fresh F hn he
  · cases he

end Qv.Hp
