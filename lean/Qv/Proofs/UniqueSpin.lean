import Qv.Proofs.Unique
/-!
# Canonical spin dicts denoting the same function are equal (T5.4, spin family)

A canonical spin dict (distinct, strictly sorted keys, no zero coefficient) that vanishes on every
spin assignment is empty.  Proof: split on the smallest possible label `m`:
`r(z) = z_m * g(z) + h(z)` where `g` collects the entries whose key starts with `m` (head removed) and
`h` the others; neither mentions `m`, so evaluating at `z_m = 1` and `z_m = -1` gives `g = h = 0`
as functions, and both are canonical dicts over the labels `> m`.  Induction on the width of the
label window.  (The same argument does not need sums over assignments or the boolean/spin
conversion.)
-/
namespace Qv.USpin
open Qv

/-- entries whose key starts with `m`, with that head removed -/
def splitG (m : Var) : Poly → Poly
  | [] => []
  | ([], _) :: r => splitG m r
  | (a :: t, v) :: r => if a = m then (t, v) :: splitG m r else splitG m r

/-- entries whose key does not start with `m` -/
def splitH (m : Var) : Poly → Poly
  | [] => []
  | ([], v) :: r => ([], v) :: splitH m r
  | (a :: t, v) :: r => if a = m then splitH m r else (a :: t, v) :: splitH m r

theorem eval_split (z : Var → Rat) (m : Var) (r : Poly) :
    eval z r = z m * eval z (splitG m r) + eval z (splitH m r) := by
  induction r with
  | nil => simp [splitG, splitH]
  | cons kv rest ih =>
    obtain ⟨k, v⟩ := kv
    cases k with
    | nil => simp only [splitG, splitH, eval_cons, mon_nil, ih]; ring
    | cons a t =>
      by_cases ha : a = m
      · subst ha
        simp only [splitG, splitH, if_true, eval_cons, mon_cons, ih]; ring
      · simp only [splitG, splitH, if_neg ha, eval_cons, mon_cons, ih]; ring

theorem mem_splitG {m : Var} {r : Poly} {t : Key} {v : Rat} (h : (t, v) ∈ splitG m r) :
    (m :: t, v) ∈ r := by
  induction r with
  | nil => simp [splitG] at h
  | cons kv rest ih =>
    obtain ⟨k, v'⟩ := kv
    cases k with
    | nil => exact List.mem_cons_of_mem _ (ih (by simpa [splitG] using h))
    | cons a t' =>
      by_cases ha : a = m
      · subst ha
        simp only [splitG, if_true] at h
        rcases List.mem_cons.1 h with h | h
        · injection h with h1 h2; subst h1; subst h2; exact List.mem_cons_self
        · exact List.mem_cons_of_mem _ (ih h)
      · simp only [splitG, if_neg ha] at h
        exact List.mem_cons_of_mem _ (ih h)

theorem mem_keys_splitG {m : Var} {r : Poly} {t : Key} (h : t ∈ keys (splitG m r)) :
    (m :: t) ∈ keys r := by
  simp only [keys, List.mem_map] at h
  obtain ⟨⟨t', v⟩, hm, rfl⟩ := h
  exact List.mem_map_of_mem (f := Prod.fst) (mem_splitG hm)

theorem mem_splitH {m : Var} {r : Poly} {kv : Key × Rat} (h : kv ∈ splitH m r) :
    kv ∈ r ∧ ∀ t, kv.1 ≠ m :: t := by
  induction r with
  | nil => simp [splitH] at h
  | cons kv' rest ih =>
    obtain ⟨k, v'⟩ := kv'
    cases k with
    | nil =>
      simp only [splitH] at h
      rcases List.mem_cons.1 h with h | h
      · subst h; exact ⟨List.mem_cons_self, fun t e => by cases e⟩
      · exact ⟨List.mem_cons_of_mem _ (ih h).1, (ih h).2⟩
    | cons a t' =>
      by_cases ha : a = m
      · subst ha
        simp only [splitH, if_true] at h
        exact ⟨List.mem_cons_of_mem _ (ih h).1, (ih h).2⟩
      · simp only [splitH, if_neg ha] at h
        rcases List.mem_cons.1 h with h | h
        · subst h
          exact ⟨List.mem_cons_self, fun t e => by injection e with e1 _; exact ha e1⟩
        · exact ⟨List.mem_cons_of_mem _ (ih h).1, (ih h).2⟩

theorem mem_keys_splitH {m : Var} {r : Poly} {k : Key} (h : k ∈ keys (splitH m r)) :
    k ∈ keys r ∧ ∀ t, k ≠ m :: t := by
  simp only [keys, List.mem_map] at h
  obtain ⟨⟨k', v⟩, hm, rfl⟩ := h
  exact ⟨List.mem_map_of_mem (f := Prod.fst) (mem_splitH hm).1, (mem_splitH hm).2⟩

theorem nodup_splitG {m : Var} {r : Poly} (h : (keys r).Nodup) : (keys (splitG m r)).Nodup := by
  induction r with
  | nil => simp [splitG, keys]
  | cons kv rest ih =>
    obtain ⟨k, v⟩ := kv
    simp only [keys, List.map_cons, List.nodup_cons] at h
    cases k with
    | nil => simpa [splitG] using ih h.2
    | cons a t =>
      by_cases ha : a = m
      · subst ha
        simp only [splitG, if_true, keys, List.map_cons, List.nodup_cons]
        exact ⟨fun hm => h.1 (mem_keys_splitG hm), ih h.2⟩
      · simp only [splitG, if_neg ha]
        exact ih h.2

theorem nodup_splitH {m : Var} {r : Poly} (h : (keys r).Nodup) : (keys (splitH m r)).Nodup := by
  induction r with
  | nil => simp [splitH, keys]
  | cons kv rest ih =>
    obtain ⟨k, v⟩ := kv
    simp only [keys, List.map_cons, List.nodup_cons] at h
    cases k with
    | nil =>
      simp only [splitH, keys, List.map_cons, List.nodup_cons]
      exact ⟨fun hm => h.1 (mem_keys_splitH hm).1, ih h.2⟩
    | cons a t =>
      by_cases ha : a = m
      · subst ha
        simp only [splitH, if_true]
        exact ih h.2
      · simp only [splitH, if_neg ha, keys, List.map_cons, List.nodup_cons]
        exact ⟨fun hm => h.1 (mem_keys_splitH hm).1, ih h.2⟩

theorem split_nil {m : Var} {r : Poly} (hg : splitG m r = []) (hh : splitH m r = []) : r = [] := by
  cases r with
  | nil => rfl
  | cons kv rest =>
    obtain ⟨k, v⟩ := kv
    cases k with
    | nil => simp [splitH] at hh
    | cons a t =>
      by_cases ha : a = m
      · subst ha; simp [splitG] at hg
      · simp [splitH, ha] at hh

/-! ### changing one coordinate of an assignment -/

/-- `z` with the value at `m` replaced by `c` -/
def upd (z : Var → Rat) (m : Var) (c : Rat) : Var → Rat := fun i => if i = m then c else z i

theorem upd_self (z : Var → Rat) (m : Var) (c : Rat) : upd z m c m = c := by simp [upd]

theorem upd_spin {z : Var → Rat} (hz : IsSpin z) (m : Var) {c : Rat} (hc : c = 1 ∨ c = -1) :
    IsSpin (upd z m c) := by
  intro i
  unfold upd
  by_cases h : i = m
  · simp [h, hc]
  · simp [h, hz i]

theorem mon_upd (z : Var → Rat) (m : Var) (c : Rat) {k : Key} (h : ∀ i ∈ k, i ≠ m) :
    mon (upd z m c) k = mon z k := by
  induction k with
  | nil => rfl
  | cons a t ih =>
    have ha : a ≠ m := h a List.mem_cons_self
    simp only [mon_cons, ih (fun i hi => h i (List.mem_cons_of_mem _ hi))]
    simp [upd, ha]

theorem eval_upd (z : Var → Rat) (m : Var) (c : Rat) {p : Poly}
    (h : ∀ k ∈ keys p, ∀ i ∈ k, i ≠ m) : eval (upd z m c) p = eval z p := by
  induction p with
  | nil => rfl
  | cons kv rest ih =>
    obtain ⟨k, v⟩ := kv
    simp only [eval_cons]
    rw [mon_upd z m c (h k (by simp [keys])),
      ih (fun k' hk' => h k' (by simp only [keys, List.map_cons]; exact List.mem_cons_of_mem _ hk'))]

/-! ### the induction -/

/-- every key is strictly sorted and all its labels lie in the window `[m, m + d)` -/
def Bnd (m d : Nat) (r : Poly) : Prop :=
  ∀ k ∈ keys r, SSorted k ∧ ∀ i : Nat, i ∈ k → m ≤ i ∧ i < m + d

theorem spin_zero_aux : ∀ (d m : Nat) (r : Poly), (keys r).Nodup → Bnd m d r →
    (∀ kv ∈ r, kv.2 ≠ 0) → (∀ z, IsSpin z → eval z r = 0) → r = [] := by
  intro d
  induction d with
  | zero =>
    intro m r hn hb hnz hz
    -- every key is empty
    have hk : ∀ k ∈ keys r, k = [] := by
      intro k hk
      cases k with
      | nil => rfl
      | cons a t =>
        have := (hb _ hk).2 a List.mem_cons_self
        omega
    cases r with
    | nil => rfl
    | cons kv rest =>
      obtain ⟨k, v⟩ := kv
      have h1 : k = [] := hk k (by simp [keys])
      subst h1
      cases rest with
      | nil =>
        have := hz (fun _ => 1) (fun _ => Or.inl rfl)
        simp at this
        exact absurd this (hnz _ List.mem_cons_self)
      | cons kv2 rest2 =>
        obtain ⟨k2, v2⟩ := kv2
        have h2 : k2 = [] := hk k2 (by simp [keys])
        subst h2
        simp [keys] at hn
  | succ d ih =>
    intro m r hn hb hnz hz
    -- the two halves are canonical over the window `[m+1, m+1+d)`
    have bG : Bnd (m + 1) d (splitG m r) := by
      intro t ht
      have hm := mem_keys_splitG ht
      obtain ⟨hs, hr⟩ := hb _ hm
      refine ⟨hs.tail, fun i hi => ?_⟩
      have h1 : m < (i : Nat) := ssorted_head_lt hs i hi
      have h2 := (hr i (List.mem_cons_of_mem _ hi)).2
      omega
    have bH : Bnd (m + 1) d (splitH m r) := by
      intro k hk
      obtain ⟨hm, hne⟩ := mem_keys_splitH hk
      obtain ⟨hs, hr⟩ := hb _ hm
      refine ⟨hs, fun i hi => ?_⟩
      have h2 := hr i hi
      cases k with
      | nil => cases hi
      | cons a t =>
        have ha : a ≠ m := fun e => hne t (by rw [e])
        have ha2 := (hr a List.mem_cons_self).1
        have ha3 : m < (a : Nat) := Nat.lt_of_le_of_ne ha2 (fun e => ha e.symm)
        rcases List.mem_cons.1 hi with rfl | hi'
        · omega
        · have : (a : Nat) < (i : Nat) := ssorted_head_lt hs i hi'
          unfold Var at *
          omega
    have fG : ∀ k ∈ keys (splitG m r), ∀ i ∈ k, i ≠ m := by
      intro k hk i hi e
      have : m + 1 ≤ (i : Nat) := ((bG k hk).2 i hi).1
      have e' : (i : Nat) = m := e
      unfold Var at *
      omega
    have fH : ∀ k ∈ keys (splitH m r), ∀ i ∈ k, i ≠ m := by
      intro k hk i hi e
      have : m + 1 ≤ (i : Nat) := ((bH k hk).2 i hi).1
      have e' : (i : Nat) = m := e
      unfold Var at *
      omega
    -- both halves vanish on every spin assignment
    have both : ∀ z, IsSpin z → eval z (splitG m r) = 0 ∧ eval z (splitH m r) = 0 := by
      intro z hzs
      have e1 := hz (upd z m 1) (upd_spin hzs m (Or.inl rfl))
      have e2 := hz (upd z m (-1)) (upd_spin hzs m (Or.inr rfl))
      rw [eval_split _ m r, upd_self, eval_upd z m _ fG, eval_upd z m _ fH] at e1 e2
      constructor <;> linarith
    have gnil : splitG m r = [] :=
      ih (m + 1) _ (nodup_splitG hn) bG
        (fun kv hkv => hnz (m :: kv.1, kv.2) (mem_splitG hkv)) (fun z hzs => (both z hzs).1)
    have hnil : splitH m r = [] :=
      ih (m + 1) _ (nodup_splitH hn) bH
        (fun kv hkv => hnz kv (mem_splitH hkv).1) (fun z hzs => (both z hzs).2)
    exact split_nil gnil hnil

theorem key_bound (k : Key) : ∃ N : Nat, ∀ i ∈ k, i < N := by
  induction k with
  | nil => exact ⟨0, fun i hi => by cases hi⟩
  | cons a t ih =>
    obtain ⟨N, hN⟩ := ih
    refine ⟨max N (a + 1), fun i hi => ?_⟩
    rcases List.mem_cons.1 hi with rfl | hi
    · exact Nat.lt_of_lt_of_le (Nat.lt_succ_self _) (Nat.le_max_right _ _)
    · exact Nat.lt_of_lt_of_le (hN i hi) (Nat.le_max_left _ _)

theorem poly_bound (r : Poly) : ∃ N : Nat, ∀ k ∈ keys r, ∀ i ∈ k, i < N := by
  induction r with
  | nil => exact ⟨0, fun k hk => by simp [keys] at hk⟩
  | cons kv rest ih =>
    obtain ⟨k0, v⟩ := kv
    obtain ⟨N, hN⟩ := ih
    obtain ⟨M, hM⟩ := key_bound k0
    refine ⟨max N M, fun k hk i hi => ?_⟩
    simp only [keys, List.map_cons, List.mem_cons] at hk
    rcases hk with rfl | hk
    · exact Nat.lt_of_lt_of_le (hM i hi) (Nat.le_max_right _ _)
    · exact Nat.lt_of_lt_of_le (hN k hk i hi) (Nat.le_max_left _ _)

/-- **a canonical spin dict that vanishes on every spin assignment is empty** -/
theorem spin_eq_nil_of_eval_zero {r : Poly} (hn : (keys r).Nodup) (hs : ∀ k ∈ keys r, SSorted k)
    (hnz : ∀ kv ∈ r, kv.2 ≠ 0) (h : ∀ z, IsSpin z → eval z r = 0) : r = [] := by
  obtain ⟨N, hN⟩ := poly_bound r
  exact spin_zero_aux N 0 r hn
    (fun k hk => ⟨hs k hk, fun i hi => ⟨Nat.zero_le _, by
      have : (i : Nat) < N := hN k hk i hi
      omega⟩⟩) hnz h

/-! ### coefficients of a difference, for any key-squashing function -/

theorem get_isubD {sq : Sq} (hi : SqIdem sq) {q p r : Poly} (hp : WF sq p) (hq : WF sq q)
    (h : isubD sq p q = .ok r) (k : Key) : get r k = get p k - get q k := by
  induction q generalizing p with
  | nil => simp [isubD] at h; subst h; simp [get]
  | cons kv rest ih =>
    obtain ⟨k1, v1⟩ := kv
    simp only [isubD, bind_ok_iff] at h
    obtain ⟨p1, h1, h2⟩ := h
    have hk1 : sq k1 = .ok k1 := hq.fixed k1 (by simp [keys])
    have hq' : WF sq rest :=
      ⟨(List.nodup_cons.1 hq.nodup).2, fun k' hk' => hq.fixed k' (List.mem_cons_of_mem _ hk'),
       fun kv hkv => hq.nonzero kv (List.mem_cons_of_mem _ hkv)⟩
    have hp1 : WF sq p1 := wf_addTerm hi hp h1
    rw [ih hp1 hq' h2]
    unfold addTerm at h1
    simp [hk1, bind, Except.bind, pure, Except.pure] at h1
    subst h1
    by_cases hkk : k = k1
    · subst hkk
      have : get rest k = 0 := get_eq_zero_of_not_mem (List.nodup_cons.1 hq.nodup).1
      rw [get_set_eq hp.nodup, this]; simp [get]; ring
    · rw [get_set_ne p _ hkk]
      simp [get, Ne.symm hkk]

theorem isubD_ok {sq : Sq} (ht : ∀ k, ∃ k', sq k = .ok k') (p q : Poly) :
    ∃ r, isubD sq p q = .ok r := by
  induction q generalizing p with
  | nil => exact ⟨p, rfl⟩
  | cons kv rest ih =>
    obtain ⟨k1, v1⟩ := kv
    obtain ⟨k', hk'⟩ := ht k1
    have : ∃ p1, addTerm sq p k1 (-v1) = .ok p1 := by
      unfold addTerm
      simp [hk', bind, Except.bind, pure, Except.pure]
    obtain ⟨p1, h1⟩ := this
    obtain ⟨r, hr⟩ := ih p1
    exact ⟨r, by simp [isubD, h1, hr, bind, Except.bind]⟩

theorem squash_puso_total (k : Key) : ∃ k', squash .puso k = .ok k' := by
  simp [squash, Kind.isSpin, Kind.isDeg2]

/-- **T5.4 (spin)** two canonical spin dicts that agree on every spin assignment have equal
coefficients -/
theorem coeff_eq_of_eval_eq_spin {p q : Poly} (hp : WF (squash .puso) p) (hq : WF (squash .puso) q)
    (h : ∀ z, IsSpin z → eval z p = eval z q) : ∀ k, get p k = get q k := by
  obtain ⟨r, hr⟩ := isubD_ok squash_puso_total p q
  have wr : WF (squash .puso) r := wf_isubD (squash_idem .puso) hp hr
  have sorted_of_fixed : ∀ {k : Key}, squash .puso k = .ok k → SSorted k := by
    intro k hk
    rcases squash_canon hk with h' | h'
    · cases h'
    · exact h'.1
  have hz : r = [] := by
    apply spin_eq_nil_of_eval_zero wr.nodup (fun k hk => sorted_of_fixed (wr.fixed k hk)) wr.nonzero
    intro z hzs
    rw [eval_isubD (sqOK_spin rfl hzs) hr, h z hzs]; ring
  subst hz
  intro k
  have := get_isubD (squash_idem .puso) hp hq hr k
  simp [get] at this; linarith

/-! ### from equal coefficients to equal items -/

theorem get_of_mem {p : Poly} (hn : (keys p).Nodup) {k : Key} {v : Rat} (h : (k, v) ∈ p) :
    get p k = v := by
  induction p with
  | nil => cases h
  | cons kv rest ih =>
    obtain ⟨k', v'⟩ := kv
    simp only [keys, List.map_cons, List.nodup_cons] at hn
    rcases List.mem_cons.1 h with h | h
    · injection h with h1 h2; subst h1; subst h2; simp [get]
    · have hne : k' ≠ k := fun e => hn.1 (e ▸ List.mem_map_of_mem (f := Prod.fst) h)
      simp only [get, if_neg hne]
      exact ih hn.2 h

theorem mem_of_mem_keys {p : Poly} {k : Key} (h : k ∈ keys p) : (k, get p k) ∈ p := by
  induction p with
  | nil => simp [keys] at h
  | cons kv rest ih =>
    obtain ⟨k', v'⟩ := kv
    by_cases e : k' = k
    · subst e; simp [get]
    · simp only [keys, List.map_cons, List.mem_cons] at h
      rcases h with h | h
      · exact absurd h.symm e
      · simp only [get, if_neg e]
        exact List.mem_cons_of_mem _ (ih h)

/-- two dicts with distinct keys, no zero value and the same `get` have the same items -/
theorem items_eq_of_get_eq {p q : Poly} (hp : (keys p).Nodup) (hpz : ∀ kv ∈ p, kv.2 ≠ 0)
    (h : ∀ k, get p k = get q k) {kv : Key × Rat} (hm : kv ∈ p) : kv ∈ q := by
  obtain ⟨k, v⟩ := kv
  have h1 := get_of_mem hp hm
  have h2 : get q k = v := by rw [← h k, h1]
  have hv : v ≠ 0 := hpz _ hm
  have hk : k ∈ keys q := mem_of_get_ne_zero (by rw [h2]; exact hv)
  have := mem_of_mem_keys hk
  rwa [h2] at this

end Qv.USpin
