import Qv.Proofs.ProblemsJS
/-!
# SetCover: the closed penalty form of `to_qubo` (Lucas 5.1, unary and binary counters as written)
-/
namespace Qv.Prob
open Qv

/-- `Σ_{a before b in l} f a b` -/
def pairSumF {α : Type} (f : α → α → Rat) : List α → Rat
  | [] => 0
  | a :: r => sumMap r (f a) + pairSumF f r

theorem pairSumF_congr {α : Type} {f g : α → α → Rat} (l : List α) (h : ∀ a b, f a b = g a b) :
    pairSumF f l = pairSumF g l := by
  have : f = g := by funext a b; exact h a b
  rw [this]

theorem pairSumF_mul_left {α : Type} (c : Rat) (f : α → α → Rat) (l : List α) :
    pairSumF (fun a b => c * f a b) l = c * pairSumF f l := by
  induction l with
  | nil => simp [pairSumF]
  | cons a r ih => simp only [pairSumF, ih, sumMap_mul_left]; ring

/-- `(Σ c)^2 = Σ c^2 + 2 Σ_{a<b} c_a c_b` -/
theorem sq_sumMap {α : Type} (l : List α) (c : α → Rat) :
    (sumMap l c) ^ 2 = sumMap l (fun a => c a ^ 2) + 2 * pairSumF (fun a b => c a * c b) l := by
  induction l with
  | nil => simp [sumMap, pairSumF]
  | cons a r ih =>
    simp only [sumMap, pairSumF, sumMap_mul_left]
    have : (c a + sumMap r c) ^ 2 = c a ^ 2 + 2 * (c a * sumMap r c) + (sumMap r c) ^ 2 := by ring
    rw [this, ih]; ring

theorem eval_triOps {α : Type} (x : Var → Rat) (head : α → Ops) (pair : α → α → Ops) (l : List α) :
    eval x (triOps head pair l) =
      sumMap l (fun a => eval x (head a)) + pairSumF (fun a b => eval x (pair a b)) l := by
  induction l with
  | nil => simp [triOps, sumMap, pairSumF]
  | cons a r ih => simp only [triOps, eval_append, eval_flatMap, ih, sumMap, pairSumF]; ring

/-- in a strictly increasing list, "the later elements" are the larger ones -/
theorem sumMap_filter_gt (l : List Nat) (hl : l.Pairwise (· < ·)) (g : Nat → Nat → Rat) :
    sumMap l (fun m => sumMap (l.filter (fun mp => decide (m < mp))) (g m)) = pairSumF g l := by
  induction l with
  | nil => rfl
  | cons a r ih =>
    obtain ⟨ha, hr⟩ := List.pairwise_cons.mp hl
    simp only [sumMap, pairSumF]
    have h1 : (a :: r).filter (fun mp => decide (a < mp)) = r := by
      rw [List.filter_cons_of_neg (by simp)]
      exact List.filter_eq_self.mpr (fun b hb => by simpa using ha b hb)
    have h2 : ∀ m ∈ r, sumMap ((a :: r).filter (fun mp => decide (m < mp))) (g m) =
        sumMap (r.filter (fun mp => decide (m < mp))) (g m) := by
      intro m hm
      have : ¬ m < a := Nat.not_lt.mpr (Nat.le_of_lt (ha m hm))
      rw [List.filter_cons_of_neg (by simpa using this)]
    rw [h1, sumMap_congr r h2, ih hr]

/-! ## the blocks of one pass of `for alpha in self._U` -/

/-- a counter register: diagonal terms, pairs `m < mp`, and the cross terms with the sets containing `alpha` -/
theorem sc_register {x : Var → Rat} (hx : IsBool x) (ms : List Nat) (hms : ms.Pairwise (· < ·)) (F : List Nat)
    (lab : Nat → Nat) (d : Nat → Rat) (e : Nat → Nat → Rat) (f : Nat → Rat) :
    eval x (ms.flatMap (fun m =>
      [([lab m, lab m], d m)] ++
      (ms.filter (fun mp => decide (m < mp))).map (fun mp => ([lab m, lab mp], e m mp)) ++
      F.map (fun j => ([j, lab m], f m)))) =
      sumMap ms (fun m => d m * x (lab m)) + pairSumF (fun m mp => e m mp * (x (lab m) * x (lab mp))) ms +
        sumMap ms (fun m => f m * x (lab m)) * sumMap F x := by
  rw [eval_flatMap]
  have h1 : ∀ m ∈ ms, eval x ([([lab m, lab m], d m)] ++
      (ms.filter (fun mp => decide (m < mp))).map (fun mp => ([lab m, lab mp], e m mp)) ++
      F.map (fun j => ([j, lab m], f m))) =
      d m * x (lab m) + sumMap (ms.filter (fun mp => decide (m < mp))) (fun mp => e m mp * (x (lab m) * x (lab mp))) +
        (f m * x (lab m)) * sumMap F x := by
    intro m _
    rw [eval_append, eval_append, eval_mapOps, eval_mapOps, ← sumMap_mul_left]
    simp only [eval_cons, eval_nil, mon_cons, mon_nil, mul_one, add_zero]
    rw [hx.sq (lab m)]
    congr 1
    exact sumMap_congr _ (fun j _ => by ring)
  rw [sumMap_congr ms h1, sumMap_add, sumMap_add, sumMap_filter_gt ms hms, sumMap_mul_right]

/-- `for i in F: Q[(i,)] += s; for j in (later elements of F): Q[(i, j)] += 2A` -/
theorem sc_fblock (x : Var → Rat) (s A : Rat) (F : List Nat) :
    eval x (triOps (fun i => [([i], s)]) (fun i j => [([i, j], 2 * A)]) F) =
      s * sumMap F x + 2 * A * pairSumF (fun i j => x i * x j) F := by
  rw [eval_triOps, ← sumMap_mul_left, ← pairSumF_mul_left]
  congr 1
  · exact sumMap_congr _ (fun i _ => by simp only [eval_cons, eval_nil, mon_cons, mon_nil]; ring)
  · exact pairSumF_congr _ (fun i j => by simp only [eval_cons, eval_nil, mon_cons, mon_nil]; ring)

theorem sumMap_bool_sq {x : Var → Rat} (hx : IsBool x) (F : List Nat) :
    sumMap F (fun i => x i ^ 2) = sumMap F x :=
  sumMap_congr _ (fun i _ => by rw [pow_two, hx.sq])

/-- number of chosen sets that contain `alpha`: `Σ_{i ∈ F} x_i` -/
def SC.X (p : SC) (x : Var → Rat) (alpha : Var) : Rat := sumMap (p.filtered alpha 0) x
/-- value of the binary counter of the element with index `ia`: `Σ_{m ≤ log M} 2^m x_{alpha,m}` -/
def SC.Ylog (p : SC) (x : Var → Rat) (ia : Nat) : Rat :=
  sumMap (List.range (p.logM + 1)) (fun m => (2 : Rat) ^ m * x (p.x ia m))
/-- the unary counter: `Σ_{m=1..M} x_{alpha,m}` (how many of its bits are set) and `Σ m x_{alpha,m}` (its value) -/
def SC.T (p : SC) (x : Var → Rat) (ia : Nat) : Rat :=
  sumMap ((List.range p.M).map (· + 1)) (fun m => x (p.x ia m))
def SC.Z (p : SC) (x : Var → Rat) (ia : Nat) : Rat :=
  sumMap ((List.range p.M).map (· + 1)) (fun (m : Nat) => (m : Rat) * x (p.x ia m))

/-- one pass with `log_trick`: `A ((1 + Y - X)^2 - 1)` -/
theorem sc_alpha_log (p : SC) (hlog : p.logTrick = true) (A : Rat) (alpha : Var) (ia : Nat) {x : Var → Rat}
    (hx : IsBool x) :
    eval x (p.alphaOps A alpha ia) = A * ((1 + p.Ylog x ia - p.X x alpha) ^ 2 - 1) := by
  unfold SC.alphaOps
  simp only [hlog, Bool.not_true, Bool.false_eq_true, if_false]
  rw [eval_append, sc_register hx _ List.pairwise_lt_range, sc_fblock]
  have hY2 := sq_sumMap (List.range (p.logM + 1)) (fun m => (2 : Rat) ^ m * x (p.x ia m))
  have hX2 := sq_sumMap (p.filtered alpha 0) x
  rw [sumMap_bool_sq hx] at hX2
  have e1 : sumMap (List.range (p.logM + 1)) (fun m => A * ((2 : Rat) ^ (2 * m) + 2 * (2 : Rat) ^ m) * x (p.x ia m)) =
      A * sumMap (List.range (p.logM + 1)) (fun m => ((2 : Rat) ^ m * x (p.x ia m)) ^ 2) + 2 * A * p.Ylog x ia := by
    rw [SC.Ylog, ← sumMap_mul_left, ← sumMap_mul_left, ← sumMap_add]
    refine sumMap_congr _ (fun m _ => ?_)
    have hsq := hx.sq (p.x ia m)
    have h2 : (2 : Rat) ^ (2 * m) = ((2 : Rat) ^ m) ^ 2 := by rw [pow_mul']
    rw [h2, mul_pow, pow_two (x (p.x ia m)), hsq]; ring
  have e2 : pairSumF (fun m mp => 2 * A * (2 : Rat) ^ (m + mp) * (x (p.x ia m) * x (p.x ia mp))) (List.range (p.logM + 1)) =
      2 * A * pairSumF (fun m mp => (2 : Rat) ^ m * x (p.x ia m) * ((2 : Rat) ^ mp * x (p.x ia mp))) (List.range (p.logM + 1)) := by
    rw [← pairSumF_mul_left]
    exact pairSumF_congr _ (fun m mp => by rw [pow_add]; ring)
  have e3 : sumMap (List.range (p.logM + 1)) (fun m => -(2 * A * (2 : Rat) ^ m) * x (p.x ia m)) =
      -(2 * A) * p.Ylog x ia := by
    rw [SC.Ylog, ← sumMap_mul_left]
    exact sumMap_congr _ (fun m _ => by ring)
  rw [e1, e2, e3]
  have hexp : (1 + p.Ylog x ia - p.X x alpha) ^ 2 - 1 =
      (p.Ylog x ia) ^ 2 + (p.X x alpha) ^ 2 + 2 * p.Ylog x ia - 2 * p.X x alpha - 2 * (p.Ylog x ia * p.X x alpha) := by ring
  rw [hexp]
  simp only [SC.Ylog, SC.X] at *
  rw [hY2, hX2]
  ring

/-- `for m in ms: Q[(x_m, x_m)] += s; for mp in (later): Q[(x_m, x_mp)] += c` on boolean points -/
theorem sc_unary_first {x : Var → Rat} (hx : IsBool x) (s c : Rat) (lab : Nat → Nat) (ms : List Nat) :
    eval x (triOps (fun m => [([lab m, lab m], s)]) (fun m mp => [([lab m, lab mp], c)]) ms) =
      s * sumMap ms (fun m => x (lab m)) + c * pairSumF (fun m mp => x (lab m) * x (lab mp)) ms := by
  rw [eval_triOps, ← sumMap_mul_left, ← pairSumF_mul_left]
  congr 1
  · exact sumMap_congr _ (fun m _ => by
      simp only [eval_cons, eval_nil, mon_cons, mon_nil, mul_one, add_zero]; rw [hx.sq])
  · exact pairSumF_congr _ (fun m mp => by simp only [eval_cons, eval_nil, mon_cons, mon_nil]; ring)

theorem pairwise_succ_range (n : Nat) : ((List.range n).map (· + 1)).Pairwise (· < ·) :=
  List.Pairwise.map _ (fun _ _ h => Nat.succ_lt_succ h) List.pairwise_lt_range

/-- one pass without `log_trick`: `A ((1 - T)^2 - 1) + A (Z - X)^2` -/
theorem sc_alpha_unary (p : SC) (hlog : p.logTrick = false) (A : Rat) (alpha : Var) (ia : Nat) {x : Var → Rat}
    (hx : IsBool x) :
    eval x (p.alphaOps A alpha ia) =
      A * ((1 - p.T x ia) ^ 2 - 1) + A * (p.Z x ia - p.X x alpha) ^ 2 := by
  unfold SC.alphaOps
  simp only [hlog, Bool.not_false, if_true]
  rw [eval_append, eval_append, sc_unary_first hx, sc_register hx _ (pairwise_succ_range p.M), sc_fblock]
  have hT2 := sq_sumMap ((List.range p.M).map (· + 1)) (fun m => x (p.x ia m))
  have hZ2 := sq_sumMap ((List.range p.M).map (· + 1)) (fun (m : Nat) => (m : Rat) * x (p.x ia m))
  have hX2 := sq_sumMap (p.filtered alpha 0) x
  rw [sumMap_bool_sq hx] at hX2
  have hTb : sumMap ((List.range p.M).map (· + 1)) (fun m => x (p.x ia m) ^ 2) =
      sumMap ((List.range p.M).map (· + 1)) (fun m => x (p.x ia m)) :=
    sumMap_congr _ (fun m _ => by rw [pow_two, hx.sq])
  rw [hTb] at hT2
  have e1 : sumMap ((List.range p.M).map (· + 1)) (fun (m : Nat) => A * (m : Rat) * (m : Rat) * x (p.x ia m)) =
      A * sumMap ((List.range p.M).map (· + 1)) (fun (m : Nat) => ((m : Rat) * x (p.x ia m)) ^ 2) := by
    rw [← sumMap_mul_left]
    refine sumMap_congr _ (fun m _ => ?_)
    have hsq := hx.sq (p.x ia m)
    rw [mul_pow, pow_two (x (p.x ia m)), hsq]; ring
  have e2 : pairSumF (fun (m mp : Nat) => 2 * A * (m : Rat) * (mp : Rat) * (x (p.x ia m) * x (p.x ia mp)))
        ((List.range p.M).map (· + 1)) =
      2 * A * pairSumF (fun (m mp : Nat) => (m : Rat) * x (p.x ia m) * ((mp : Rat) * x (p.x ia mp)))
        ((List.range p.M).map (· + 1)) := by
    rw [← pairSumF_mul_left]
    exact pairSumF_congr _ (fun m mp => by ring)
  have e3 : sumMap ((List.range p.M).map (· + 1)) (fun (m : Nat) => -(2 * A * (m : Rat)) * x (p.x ia m)) =
      -(2 * A) * p.Z x ia := by
    rw [SC.Z, ← sumMap_mul_left]
    exact sumMap_congr _ (fun m _ => by ring)
  rw [e1, e2, e3]
  have hexp : A * ((1 - p.T x ia) ^ 2 - 1) + A * (p.Z x ia - p.X x alpha) ^ 2 =
      A * ((p.T x ia) ^ 2 - 2 * p.T x ia) +
      A * ((p.Z x ia) ^ 2 + (p.X x alpha) ^ 2 - 2 * (p.Z x ia * p.X x alpha)) := by ring
  rw [hexp]
  simp only [SC.T, SC.Z, SC.X] at *
  rw [hT2, hZ2, hX2]
  ring

/-! ## all passes -/

/-- `Σ` over a list with the running index -/
def sumIdx (f : Var → Nat → Rat) : List Var → Nat → Rat
  | [], _ => 0
  | a :: r, i => f a i + sumIdx f r (i + 1)

theorem eval_allAlpha (p : SC) (A : Rat) (x : Var → Rat) (g : Var → Nat → Rat)
    (h : ∀ a i, eval x (p.alphaOps A a i) = g a i) (U : List Var) (i : Nat) :
    eval x (p.allAlphaOps A U i) = sumIdx g U i := by
  induction U generalizing i with
  | nil => rfl
  | cons a r ih => simp only [SC.allAlphaOps, eval_append, h, ih, sumIdx]

theorem sumIdx_affine (A : Rat) (q : Var → Nat → Rat) (U : List Var) (i : Nat) :
    sumIdx (fun a j => A * (q a j - 1)) U i = A * sumIdx q U i - (U.length : Rat) * A := by
  induction U generalizing i with
  | nil => simp [sumIdx]
  | cons a r ih => simp only [sumIdx, ih, List.length_cons]; push_cast; ring

theorem dotFrom_map_mul_right (x : Var → Rat) (b : Rat) (c : List Rat) (off : Nat) :
    dotFrom x (c.map (fun v => v * b)) off = b * dotFrom x c off := by
  induction c generalizing off with
  | nil => simp [dotFrom]
  | cons a r ih => simp [dotFrom, ih]; ring

/-- the penalty of one element, as a function of its index in `U` -/
def SC.elemPenalty (p : SC) (x : Var → Rat) (alpha : Var) (ia : Nat) : Rat :=
  if p.logTrick then (1 + p.Ylog x ia - p.X x alpha) ^ 2
  else (1 - p.T x ia) ^ 2 + (p.Z x ia - p.X x alpha) ^ 2

/-- **T10.1 (SetCover).** the sum of all executed statements is `B Σ_i w_i x_i + A Σ_α penalty_α` with
`penalty_α = (1 + Σ_m 2^m x_{α,m} - Σ_{i∋α} x_i)^2` (binary counter) or
`(1 - Σ_m x_{α,m})^2 + (Σ_m m x_{α,m} - Σ_{i∋α} x_i)^2` (unary counter) -/
theorem sc_ops_eval (p : SC) (A B : Rat) {x : Var → Rat} (hx : IsBool x) :
    eval x (p.ops A B) = B * dotFrom x p.weights 0 + A * sumIdx (p.elemPenalty x) p.U 0 := by
  unfold SC.ops
  rw [eval_append, eval_append, eval_linOps, dotFrom_map_mul_right]
  have hα : ∀ a i, eval x (p.alphaOps A a i) = A * (p.elemPenalty x a i - 1) := by
    intro a i
    unfold SC.elemPenalty
    cases hlog : p.logTrick
    · rw [sc_alpha_unary p hlog A a i hx]; simp; ring
    · rw [sc_alpha_log p hlog A a i hx]; simp
  rw [eval_allAlpha p A x _ hα, sumIdx_affine]
  simp only [eval_cons, eval_nil, mon_nil, SC.n]; ring

end Qv.Prob
