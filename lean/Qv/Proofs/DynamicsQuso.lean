import Qv.Proofs.DynamicsSweep
import Qv.Proofs.AnnealFront
/-!
# C12, part D — `single_anneal_quso`, `anneal_quso` (C) and `anneal_quso` (Python) as instances

The abstract sweep lemmas of `DynamicsSweep` instantiated with the QUSO kernel on the arrays the front end
builds, then lifted through the `num_anneals` loop (`annealLoop`, with a supplied initial state) and the
packaging of the results.
-/
namespace Qv.Kernel
open Qv Qv.Anneal

/-! ## a supplied initial state is copied unchanged into every anneal -/

theorem initState_provided {ρ α : Type} (src : Src ρ α) (N : Nat) (init : List Int) (rng : ρ) (hl : init.length = N) :
    (initState src N init rng).1 = init := by
  unfold initState forN
  have := forFrom_inv_idx (fun j (s : List Int × ρ) => s.1 = init.take j)
    (fun j (s : List Int × ρ) =>
      if init.length ≠ 0 then (s.1 ++ [init.getD j 0], s.2)
      else ((s.1 ++ [if (src.coin s.2).2 then 1 else -1], (src.coin s.2).1)))
    N 0 ([], rng) (by simp)
    (by
      intro j s _ hj hs
      simp only [Nat.zero_add] at hj
      have hne : init.length ≠ 0 := by omega
      rw [if_pos hne]
      simp only [hs]
      have hjl : j < init.length := by omega
      rw [List.take_add_one, List.getD, List.getElem?_eq_getElem hjl]
      simp)
  simp only [Nat.zero_add] at this
  rw [this, ← hl, List.take_length]

/-- with a supplied initial state every result of the `num_anneals` loop is one anneal started from it -/
theorem annealLoop_provided {ρ α : Type} (src : Src ρ α) (N : Nat) (init : List Int)
    (single : List Int → ρ → List Int × ρ) (value : List Int → α) (hl : init.length = N) :
    ∀ (k : Nat) (rng : ρ), ∀ sv ∈ annealLoop src N init single value k rng,
      ∃ r, sv.1 = (single init r).1 ∧ sv.2 = value sv.1
  | 0, _ => by simp [annealLoop]
  | k + 1, rng => by
    intro sv hsv
    simp only [annealLoop] at hsv
    rcases List.mem_cons.mp hsv with h | h
    · subst h
      refine ⟨(initState src N init rng).2, ?_, rfl⟩
      show (single (initState src N init rng).1 (initState src N init rng).2).1 = _
      rw [initState_provided src N init rng hl]
    · exact annealLoop_provided src N init single value hl k _ sv h

/-! ## `single_anneal_quso` -/

section
variable {ρ : Type} (src : Src ρ Rat) (h : List Rat) (adj : List (List (Nat × Rat))) (N : Nat)

/-- the sweep state of `single_anneal_quso` after the whole schedule -/
def qusoRun (Ts : List Rat) (inOrder : Bool) (s0 : List Int) (rng : ρ) : List Int × List Rat × ρ :=
  Ts.foldl (fun s T => forN N s (qusoStep src (qOf h adj) (idxOf adj) N inOrder T))
    (s0, computeFlipDE (qOf h adj) (idxOf adj) N s0, rng)

theorem singleAnnealQuso_eq (Ts : List Rat) (inOrder : Bool) (s0 : List Int) (rng : ρ) :
    (singleAnnealQuso src (qOf h adj) (idxOf adj) N Ts inOrder s0 rng).1 = (qusoRun src h adj N Ts inOrder s0 rng).1 :=
  rfl

/-- **T12.1** the cache is exact after every sweep of every schedule, any temperatures, either order -/
theorem qusoRun_cache (hadj : adj.length = N) (hsym : SymAdj adj) (Ts : List Rat) (inOrder : Bool)
    (s0 : List Int) (hs0 : s0.length = N) (rng : ρ) :
    CacheExact h adj N (qusoRun src h adj N Ts inOrder s0 rng).1 (qusoRun src h adj N Ts inOrder s0 rng).2.1 :=
  run_inv (fun s : List Int × List Rat × ρ => CacheExact h adj N s.1 s.2.1) N
    (fun T j s => qusoStep src (qOf h adj) (idxOf adj) N inOrder T j s)
    (fun T j s hs => qusoStep_cache src h adj N hadj hsym inOrder T j s hs) Ts _
    (computeFlipDE_cache h adj N hadj s0 hs0)

/-- **T12.2** for `single_anneal_quso` -/
theorem singleAnnealQuso_le (hm : Metropolis src) (hadj : adj.length = N) (hsym : SymAdj adj) (E : List Int → Rat)
    (hE : ∀ s i, s.length = N → i < N → dESpec s h adj i = E (flipAt s i) - E s)
    (Ts : List Rat) (hT : ∀ T ∈ Ts, T = 0) (inOrder : Bool) (s0 : List Int) (hs0 : s0.length = N) (rng : ρ) :
    E (singleAnnealQuso src (qOf h adj) (idxOf adj) N Ts inOrder s0 rng).1 ≤ E s0 :=
  run_le (fun s : List Int × List Rat × ρ => s.1) (fun s => CacheExact h adj N s.1 s.2.1) E N inOrder
    (fun T j s => qusoStep src (qOf h adj) (idxOf adj) N inOrder T j s)
    (fun _ hs => hs.1)
    (fun T j s hs => ⟨qusoStep_cache src h adj N hadj hsym inOrder T j s hs,
      qusoStep_spec src h adj N hm E hE inOrder T j s hs⟩)
    Ts hT _ (computeFlipDE_cache h adj N hadj s0 hs0)

/-- **T12.3** for `single_anneal_quso` -/
theorem singleAnnealQuso_ref (hm : Metropolis src) (hadj : adj.length = N) (hsym : SymAdj adj) (E : List Int → Rat)
    (hE : ∀ s i, s.length = N → i < N → dESpec s h adj i = E (flipAt s i) - E s)
    (Ts : List Rat) (hT : ∀ T ∈ Ts, T = 0) (s0 : List Int) (hs0 : s0.length = N) (rng : ρ) :
    (singleAnnealQuso src (qOf h adj) (idxOf adj) N Ts true s0 rng).1 = refRun E N Ts.length s0 :=
  run_ref (fun s : List Int × List Rat × ρ => s.1) (fun s => CacheExact h adj N s.1 s.2.1) E N
    (fun T j s => qusoStep src (qOf h adj) (idxOf adj) N true T j s)
    (fun T j s hs => ⟨qusoStep_cache src h adj N hadj hsym true T j s hs,
      qusoStep_spec src h adj N hm E hE true T j s hs⟩)
    Ts hT _ (computeFlipDE_cache h adj N hadj s0 hs0)

end

/-! ## on the arrays of a canonical model -/

section
variable {ρ : Type} (src : Src ρ Rat)

/-- the energy of the model the arrays were built from -/
def energy (model : Poly) (s : List Int) : Rat := eval (assign s) model

theorem energy_diff (N : Nat) (model : Poly) (h : List Rat) (adj : List (List (Nat × Rat)))
    (hflat : flattenQuso N model = .ok (h, adj)) (hd : (keys model).Nodup)
    (hk : ∀ kv ∈ model, SSorted kv.1 ∧ kv.1.length ≤ 2) :
    ∀ s i, s.length = N → i < N → dESpec s h adj i = energy model (flipAt s i) - energy model s :=
  fun s i hs hi => dESpec_eq_energy N model h adj hflat hd hk s i (by omega)

/-- C `anneal_quso` with a supplied initial state at `T = 0`: every returned value is `≤` the C value of the
initial state -/
theorem annealQuso_le (hm : Metropolis src) (N : Nat) (model : Poly) (h : List Rat) (adj : List (List (Nat × Rat)))
    (hflat : flattenQuso N model = .ok (h, adj)) (hd : (keys model).Nodup)
    (hk : ∀ kv ∈ model, SSorted kv.1 ∧ kv.1.length ≤ 2)
    (Ts : List Rat) (hT : ∀ T ∈ Ts, T = 0) (inOrder : Bool) (init : List Int) (hl : init.length = N)
    (k : Nat) (rng : ρ) :
    ∀ sv ∈ Kernel.annealQuso src (qusoArgs (fun v => v) h adj) N Ts inOrder init k rng,
      sv.2 ≤ qusoValueC (qusoArgs (fun v => v) h adj) (mkIndex (adj.map List.length)) N init := by
  intro sv hsv
  obtain ⟨hsym, hadj⟩ := flattenQuso_sym N model h adj hflat hk
  unfold Kernel.annealQuso at hsv
  obtain ⟨r, h1, h2⟩ := annealLoop_provided src N init _ _ hl k rng sv hsv
  have hv := flattenQuso_value N model h adj hflat hd hk
  have hle := singleAnnealQuso_le src h adj N hm hadj hsym (energy model)
    (energy_diff N model h adj hflat hd hk) Ts hT inOrder init hl r
  simp only [qusoArgs_id] at h1 h2 hv ⊢
  change sv.1 = (singleAnnealQuso src (qOf h adj) (idxOf adj) N Ts inOrder init r).1 at h1
  change sv.2 = qusoValueC (qOf h adj) (idxOf adj) N sv.1 at h2
  rw [h2, hv, hv, h1]
  simp only [energy] at hle
  linarith

/-- C `anneal_quso`, in order, `T = 0`, supplied initial state: every returned state is the iterated
reference sweep -/
theorem annealQuso_ref (hm : Metropolis src) (N : Nat) (model : Poly) (h : List Rat) (adj : List (List (Nat × Rat)))
    (hflat : flattenQuso N model = .ok (h, adj)) (hd : (keys model).Nodup)
    (hk : ∀ kv ∈ model, SSorted kv.1 ∧ kv.1.length ≤ 2)
    (Ts : List Rat) (hT : ∀ T ∈ Ts, T = 0) (init : List Int) (hl : init.length = N) (k : Nat) (rng : ρ) :
    ∀ sv ∈ Kernel.annealQuso src (qusoArgs (fun v => v) h adj) N Ts true init k rng,
      sv.1 = refRun (energy model) N Ts.length init := by
  intro sv hsv
  obtain ⟨hsym, hadj⟩ := flattenQuso_sym N model h adj hflat hk
  unfold Kernel.annealQuso at hsv
  obtain ⟨r, h1, _⟩ := annealLoop_provided src N init _ _ hl k rng sv hsv
  have href := singleAnnealQuso_ref src h adj N hm hadj hsym (energy model)
    (energy_diff N model h adj hflat hd hk) Ts hT init hl r
  simp only [qusoArgs_id] at h1
  change sv.1 = (singleAnnealQuso src (qOf h adj) (idxOf adj) N Ts true init r).1 at h1
  rw [h1, href]

end

end Qv.Kernel

/-! ## the Python front end -/

namespace Qv.Anneal
open Qv Qv.Kernel

theorem relabelInit_some_length (N : Nat) (rev : List Var) (d : List (Var × Int)) (st : List Int)
    (h : relabelInit N rev (some d) = .ok st) : st.length = N := by
  simp only [relabelInit] at h
  have key : ∀ (ks : List Nat) (s0 s1 : List Int), s0.length = N →
      ks.foldlM (fun st k => do
        let x ← lookupInit d (rev.getD k 0)
        if k < N then pure (st.set k x) else Except.error Err.index) s0 = .ok s1 → s1.length = N := by
    intro ks
    induction ks with
    | nil =>
      intro s0 s1 hg hf
      simp only [List.foldlM_nil, pure, Except.pure] at hf
      injection hf with hf; subst hf; exact hg
    | cons k ks ih =>
      intro s0 s1 hg hf
      simp only [List.foldlM_cons, bind_ok_iff, pure, Except.pure] at hf
      obtain ⟨s2, ⟨x, _, hs2⟩, hf⟩ := hf
      refine ih s2 s1 ?_ hf
      split at hs2
      · injection hs2 with hs2; subst hs2; simp [hg]
      · cases hs2
  exact key _ _ st (by simp) h

section
variable {ρ : Type} (src : Src ρ Rat)

/-- the C call and the packaging, at `T = 0` with a supplied initial state: values -/
theorem runQuso_le (hm : Metropolis src) (P : Params ρ Rat) (c : Call Rat) (rs : List Res)
    (h : runQuso (ratCfg src) P c = .ok rs) (hl : c.init.length = c.N) (hd : (keys c.model).Nodup)
    (hk : ∀ kv ∈ c.model, SSorted kv.1 ∧ kv.1.length ≤ 2) (hT : ∀ T ∈ c.Ts, T = 0) :
    ∀ r ∈ rs, r.value ≤ eval (assign c.init) c.model := by
  unfold runQuso at h
  simp only [bind_ok_iff] at h
  obtain ⟨⟨hh, adj⟩, hflat, h⟩ := h
  intro r hr
  obtain ⟨sv, hsv, _, hval, _⟩ := (package_spec _ _ _ _ _ h).2 r hr
  simp only [ratCfg] at hval hsv
  have hle := annealQuso_le src hm c.N c.model hh adj hflat hd hk c.Ts hT P.inOrder c.init hl _ _ sv hsv
  rw [flattenQuso_value c.N c.model hh adj hflat hd hk c.init] at hle
  rw [hval]
  linarith

/-- the C call and the packaging, at `T = 0`, in order, with a supplied initial state: states -/
theorem runQuso_ref (hm : Metropolis src) (P : Params ρ Rat) (c : Call Rat) (rs : List Res)
    (h : runQuso (ratCfg src) P c = .ok rs) (hl : c.init.length = c.N) (hd : (keys c.model).Nodup)
    (hk : ∀ kv ∈ c.model, SSorted kv.1 ∧ kv.1.length ≤ 2) (hT : ∀ T ∈ c.Ts, T = 0) (hio : P.inOrder = true) :
    ∀ r ∈ rs, r.state = relabelState c.rev (refRun (energy c.model) c.N c.Ts.length c.init) := by
  unfold runQuso at h
  simp only [bind_ok_iff] at h
  obtain ⟨⟨hh, adj⟩, hflat, h⟩ := h
  intro r hr
  obtain ⟨sv, hsv, hst, _, _⟩ := (package_spec _ _ _ _ _ h).2 r hr
  simp only [ratCfg, hio] at hsv
  rw [hst, annealQuso_ref src hm c.N c.model hh adj hflat hd hk c.Ts hT c.init hl _ _ sv hsv]

end

end Qv.Anneal
