import Qv.Proofs.ProblemsJSGround4
import Qv.Proofs.ProblemsRest
/-!
# JobSequencing ground states: the theorems about `to_qubo` (Lucas 6.3)

`js_ground_states_top` (strict threshold `A > B · max length`, `B > 0`) and `js_default_top` (weak threshold
`A ≥ B · max length`, `B ≥ 0`, which covers the default `A = None`), both about the model's `JS.toQubo`.
Hypotheses beyond the documented threshold: the lengths are natural numbers (`JS.NatLengths`, "the lengths must be
integers"), at least one worker, and `Σ_j L_j ≤ M` (`JS.Fits`; true for the default `M = N · max length`).
-/
namespace Qv.Prob
open Qv

/-- the closed energy form of `to_qubo(A, B)` on boolean points (`Qv.C10.js_energy`) -/
theorem js_energy' (p : JS) (A : Option Rat) (B : Rat) (Q : Poly) (h : p.toQubo A B = .ok Q) (x : Var → Rat)
    (hx : IsBool x) : eval x Q = p.energy (p.weightA A B) B x := by
  rw [js_build_eval p A B Q h x hx, js_ops_eval]; rfl

/-- **T10.3 (JobSequencing), strict threshold.** `B > 0`, `A > B · max length`, natural lengths, `m ≥ 1`, `Σ L ≤ M`:
every ground state `x` of `to_qubo(A, B)` assigns every job to exactly one worker, its energy is `B ·` its makespan
(`load x w1` with `w1` a worker of largest load), and no assignment of every job to exactly one worker has a smaller
makespan. -/
theorem js_ground_states_top (p : JS) (A : Option Rat) (B : Rat) (hm : 1 ≤ p.m) (hB : 0 < B)
    (hA : B * p.maxL < p.weightA A B) (hN : p.NatLengths) (hF : p.Fits)
    (Q : Poly) (h : p.toQubo A B = .ok Q) (x : Var → Rat) (hx : IsBool x)
    (hg : ∀ x'', IsBool x'' → eval x Q ≤ eval x'' Q) :
    p.OneHot x ∧ ∃ w1, w1 < p.m ∧ eval x Q = B * p.load x w1 ∧ (∀ w, w < p.m → p.load x w ≤ p.load x w1) ∧
      ∀ y, IsBool y → p.OneHot y → ∃ w', w' < p.m ∧ p.load x w1 ≤ p.load y w' := by
  have ev := fun (y : Var → Rat) (hy : IsBool y) => js_energy' p A B Q h y hy
  have := js_ground_states p (p.weightA A B) B hm hB hA hN hF x hx
    (fun x'' hx'' => by rw [← ev x hx, ← ev x'' hx'']; exact hg x'' hx'')
  rw [ev x hx]; exact this

/-- **T10.3 (JobSequencing), weak threshold / default weights.** `B ≥ 0`, `A ≥ B · max length`: for every optimal
assignment `y` of every job to exactly one worker there is a ground state `x'` of `to_qubo(A, B)` that encodes it (the
same loads with workers `0` and `w0` exchanged, `w0` a worker of largest load), and the ground energy is `B ·` the
makespan of `y`. -/
theorem js_default_top (p : JS) (A : Option Rat) (B : Rat) (hm : 1 ≤ p.m) (hB : 0 ≤ B)
    (hA : B * p.maxL ≤ p.weightA A B) (hN : p.NatLengths) (hF : p.Fits)
    (Q : Poly) (h : p.toQubo A B = .ok Q) (y : Var → Rat) (hy : IsBool y) (hoh : p.OneHot y)
    (hopt : ∀ y', IsBool y' → p.OneHot y' → ∃ w', w' < p.m ∧ ∀ w, w < p.m → p.load y w ≤ p.load y' w') :
    ∃ x', IsBool x' ∧ p.OneHot x' ∧ ∃ w0, w0 < p.m ∧ (∀ w, w < p.m → p.load y w ≤ p.load y w0) ∧
      eval x' Q = B * p.load y w0 ∧ p.load x' 0 = p.load y w0 ∧ (∀ w, w < p.m → p.load x' w ≤ p.load y w0) ∧
      ∀ x'', IsBool x'' → eval x' Q ≤ eval x'' Q := by
  have ev := fun (y : Var → Rat) (hy : IsBool y) => js_energy' p A B Q h y hy
  obtain ⟨x', hx', hxoh, w0, hw0, hmax, he, hl0, hlw, hgr⟩ :=
    js_default p (p.weightA A B) B hm hB hA hN hF y hy hoh hopt
  refine ⟨x', hx', hxoh, w0, hw0, hmax, by rw [ev x' hx']; exact he, hl0, hlw, fun x'' hx'' => ?_⟩
  rw [ev x' hx', ev x'' hx'']; exact hgr x'' hx''

/-- the default `A = None` (`A = B · max length`) satisfies the weak threshold -/
theorem js_default_none_top (p : JS) (B : Rat) (hm : 1 ≤ p.m) (hB : 0 ≤ B) (hN : p.NatLengths) (hF : p.Fits)
    (Q : Poly) (h : p.toQubo none B = .ok Q) (y : Var → Rat) (hy : IsBool y) (hoh : p.OneHot y)
    (hopt : ∀ y', IsBool y' → p.OneHot y' → ∃ w', w' < p.m ∧ ∀ w, w < p.m → p.load y w ≤ p.load y' w') :
    ∃ x', IsBool x' ∧ p.OneHot x' ∧ ∃ w0, w0 < p.m ∧ (∀ w, w < p.m → p.load y w ≤ p.load y w0) ∧
      eval x' Q = B * p.load y w0 ∧ p.load x' 0 = p.load y w0 ∧ (∀ w, w < p.m → p.load x' w ≤ p.load y w0) ∧
      ∀ x'', IsBool x'' → eval x' Q ≤ eval x'' Q :=
  js_default_top p none B hm hB (le_refl _) hN hF Q h y hy hoh hopt

/-- under the weak threshold every boolean point has energy at least `B ·` every load of some one-hot assignment -/
theorem js_energy_lower_top (p : JS) (A : Option Rat) (B : Rat) (hm : 1 ≤ p.m) (hB : 0 ≤ B)
    (hA : B * p.maxL ≤ p.weightA A B) (hN : p.NatLengths) (Q : Poly) (h : p.toQubo A B = .ok Q)
    (x : Var → Rat) (hx : IsBool x) :
    ∃ y, IsBool y ∧ p.OneHot y ∧ ∀ w, w < p.m → B * p.load y w ≤ eval x Q := by
  rw [js_energy' p A B Q h x hx]
  exact js_energy_lower p (p.weightA A B) B hm hB hA hN x hx

/-! ## non-vacuity: two jobs of lengths 1 and 2 on two workers -/

/-- lengths `{0: 1, 1: 2}`, two workers, `M = 4`, with / without `log_trick` -/
def jsEx (lt : Bool) : JS := ⟨[(0, 1), (1, 2)], 2, lt, 4⟩

/-- job 0 on worker 0 (variable 0), job 1 on worker 1 (variable 3) -/
def jsExY : Var → Rat := fun v => if v = 0 ∨ v = 3 then 1 else 0

theorem jsEx_nat (lt : Bool) : (jsEx lt).NatLengths := by
  intro jl hjl
  simp only [jsEx, List.mem_cons, List.not_mem_nil, or_false] at hjl
  rcases hjl with rfl | rfl
  · exact ⟨1, by norm_num⟩
  · exact ⟨2, by norm_num⟩

theorem jsEx_fits (lt : Bool) : (jsEx lt).Fits := by
  cases lt <;> unfold JS.Fits <;> decide +kernel

theorem jsEx_maxL (lt : Bool) : (jsEx lt).maxL = 2 := by cases lt <;> decide +kernel

theorem jsExY_bool : IsBool jsExY := by
  intro v; unfold jsExY; split
  · right; rfl
  · left; rfl

theorem jsEx_S (lt : Bool) (y : Var → Rat) (j : Nat) : (jsEx lt).S y j = y (j * 2) + y (j * 2 + 1) := by
  simp [JS.S, jsEx, JS.x, List.range_succ, sumMap]

theorem jsEx_load (lt : Bool) (y : Var → Rat) (w : Nat) : (jsEx lt).load y w = y w + 2 * y (2 + w) := by
  simp [JS.load, JS.jobs, JS.N, jsEx, JS.x, List.range_succ, sumMap]

theorem jsExY_onehot (lt : Bool) : (jsEx lt).OneHot jsExY := by
  intro j hj
  have hj' : j < 2 := hj
  rw [jsEx_S]
  rcases j with _ | _ | j
  · simp [jsExY]
  · simp [jsExY]
  · omega

/-- `jsExY` has the least makespan (`2`: job 1 is somewhere) -/
theorem jsExY_opt (lt : Bool) (y' : Var → Rat) (hy' : IsBool y') (hoh : (jsEx lt).OneHot y') :
    ∃ w', w' < (jsEx lt).m ∧ ∀ w, w < (jsEx lt).m → (jsEx lt).load jsExY w ≤ (jsEx lt).load y' w' := by
  have h1 := hoh 1 (by show 1 < 2; omega)
  rw [jsEx_S] at h1
  have hb0 := js_bool_bounds hy' 0
  have hb1 := js_bool_bounds hy' 1
  have key : ∀ w, w < 2 → (jsEx lt).load jsExY w ≤ 2 := by
    intro w hw
    rw [jsEx_load]
    rcases w with _ | _ | w
    · simp [jsExY]
    · simp [jsExY]
    · omega
  rcases hy' 2 with h2 | h2
  · refine ⟨1, by show 1 < 2; omega, fun w hw => le_trans (key w hw) ?_⟩
    rw [jsEx_load]
    have : y' 3 = 1 := by
      have : y' (1 * 2) = 0 := h2
      rw [this] at h1; simpa using h1
    show (2 : Rat) ≤ y' 1 + 2 * y' 3
    rw [this]; linarith [hb1.1]
  · refine ⟨0, by show 0 < 2; omega, fun w hw => le_trans (key w hw) ?_⟩
    rw [jsEx_load]
    show (2 : Rat) ≤ y' 0 + 2 * y' 2
    rw [h2]; linarith [hb0.1]

/-- the hypotheses of `js_ENC` and `js_LB` hold for the example -/
example (lt : Bool) : ∃ x', IsBool x' ∧ (jsEx lt).OneHot x' ∧ (jsEx lt).energy 2 1 x' = 1 * 2 := by
  obtain ⟨w0, hw0, hmax⟩ := js_argmax (jsEx lt).m (by show 1 ≤ 2; omega) ((jsEx lt).load jsExY)
  refine ⟨(jsEx lt).enc jsExY w0, js_enc_bool _ jsExY_bool w0, js_enc_onehot _ (jsExY_onehot lt) hw0, ?_⟩
  rw [js_enc_energy (jsEx lt) 2 1 (jsEx_nat lt) (jsEx_fits lt) jsExY_bool (jsExY_onehot lt) hw0 hmax]
  have h1 := hmax 1 (by show 1 < 2; omega)
  have hw : w0 = 0 ∨ w0 = 1 := by have : w0 < 2 := hw0; omega
  rw [jsEx_load, jsEx_load] at h1
  rcases hw with rfl | rfl
  · simp [jsExY] at h1
  · rw [jsEx_load]; simp [jsExY]
example (lt : Bool) (x : Var → Rat) (hx : IsBool x) :
    ∃ y, IsBool y ∧ (jsEx lt).OneHot y ∧
      ∀ w, w < (jsEx lt).m → 1 * (jsEx lt).load y w + (2 - 1 * (jsEx lt).maxL) * (jsEx lt).pen x ≤ (jsEx lt).energy 2 1 x :=
  js_LB (jsEx lt) 2 1 (by show 1 ≤ 2; omega) (by norm_num) (by rw [jsEx_maxL]; norm_num) (jsEx_nat lt) x hx

example : ((jsEx true).toQubo none 1).toOption.isSome = true := by decide +kernel
example : ((jsEx false).toQubo none 1).toOption.isSome = true := by decide +kernel
example : ((jsEx true).toQubo (some 3) 1).toOption.isSome = true := by decide +kernel

/-- the hypotheses of `js_default_top` hold for the example with the default `A = None`, `B = 1` -/
example (lt : Bool) (Q : Poly) (h : (jsEx lt).toQubo none 1 = .ok Q) :
    ∃ x', IsBool x' ∧ (jsEx lt).OneHot x' ∧ ∀ x'', IsBool x'' → eval x' Q ≤ eval x'' Q := by
  obtain ⟨x', h1, h2, _, _, _, _, _, _, h3⟩ := js_default_none_top (jsEx lt) 1 (by show 1 ≤ 2; omega) (by norm_num)
    (jsEx_nat lt) (jsEx_fits lt) Q h jsExY jsExY_bool (jsExY_onehot lt) (jsExY_opt lt)
  exact ⟨x', h1, h2, h3⟩

/-- the hypotheses of `js_ground_states_top` are satisfiable: with `A = 3 > B · max length = 2` a ground state exists
(and by the theorem every ground state is one-hot with energy `2 = B ·` the optimal makespan) -/
example (lt : Bool) (Q : Poly) (h : (jsEx lt).toQubo (some 3) 1 = .ok Q) :
    ∃ x, IsBool x ∧ (∀ x'', IsBool x'' → eval x Q ≤ eval x'' Q) ∧
      (1 : Rat) * (jsEx lt).maxL < (jsEx lt).weightA (some 3) 1 ∧ (jsEx lt).OneHot x := by
  have hthr : (1 : Rat) * (jsEx lt).maxL < (jsEx lt).weightA (some 3) 1 := by
    rw [jsEx_maxL]; show (1 : Rat) * 2 < 3; norm_num
  obtain ⟨x', h1, _, _, _, _, _, _, _, h3⟩ := js_default_top (jsEx lt) (some 3) 1 (by show 1 ≤ 2; omega) (by norm_num)
    (le_of_lt hthr) (jsEx_nat lt) (jsEx_fits lt) Q h jsExY jsExY_bool (jsExY_onehot lt) (jsExY_opt lt)
  exact ⟨x', h1, h3, hthr,
    (js_ground_states_top (jsEx lt) (some 3) 1 (by show 1 ≤ 2; omega) (by norm_num) hthr (jsEx_nat lt) (jsEx_fits lt)
      Q h x' h1 h3).1⟩

end Qv.Prob
