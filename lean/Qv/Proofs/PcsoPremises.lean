import Qv.Proofs.PcsoTransfer
/-!
# C03: premises carried from `H` to its boolean image; labels; validity; the `eq` relation outright
(namespace `Qv.Pcso`)
-/
namespace Qv.Pcso
open Qv Qv.Logic

/-! ### the boolean image is a canonical PUBO -/

theorem wf_addGen {sq : Sq} (hi : SqIdem sq) {g : List (Key × Rat)} {acc acc' : Poly} {v : Rat} (h : WF sq acc)
    (ha : addGen sq acc g v = .ok acc') : WF sq acc' := by
  induction g generalizing acc with
  | nil => simp only [addGen] at ha; injection ha with ha; subst ha; exact h
  | cons kv r ih =>
    obtain ⟨key, value⟩ := kv
    simp only [addGen, bind_ok_iff] at ha
    obtain ⟨a1, h1, ha⟩ := ha
    exact ih (wf_addTerm hi h h1) ha

theorem wf_convLoop {gen : Key → List (Key × Rat)} {sq : Sq} (hi : SqIdem sq) {p acc r : Poly} (h : WF sq acc)
    (ha : convLoop gen sq acc p = .ok r) : WF sq r := by
  induction p generalizing acc with
  | nil => simp only [convLoop] at ha; injection ha with ha; subst ha; exact h
  | cons kv rest ih =>
    obtain ⟨k, v⟩ := kv
    simp only [convLoop, bind_ok_iff] at ha
    obtain ⟨a1, h1, ha⟩ := ha
    exact ih (wf_addGen hi h h1) ha

theorem addTermB_eq (p : Poly) (k : Key) (v : Rat) : addTerm (squash .pubo) p k v = .ok (addTermB p k v) := by
  simp [addTerm, addTermB, squash, Kind.isSpin, Kind.isDeg2, bind, Except.bind, pure, Except.pure]

theorem wf_addTermB {p : Poly} (h : WF (squash .pubo) p) (k : Key) (v : Rat) : WF (squash .pubo) (addTermB p k v) :=
  wf_addTerm (squash_idem .pubo) h (addTermB_eq p k v)

theorem wf_iaddB {p : Poly} (h : WF (squash .pubo) p) (q : Poly) : WF (squash .pubo) (iaddB p q) := by
  unfold iaddB
  induction q generalizing p with
  | nil => exact h
  | cons kv r ih => exact ih (wf_addTermB h _ _)

/-- the polynomial the helper PCBO works with is a canonical PUBO (distinct sorted duplicate-free keys, no zero
coefficient) -/
theorem boolImage_wf {H P : Poly} (h : boolImage H = .ok P) : WF (squash .pubo) P := by
  simp only [boolImage, bind_ok_iff, pure, Except.pure] at h
  obtain ⟨P0, _, h⟩ := h
  injection h with h; subst h
  exact wf_iaddB (wf_nil _) P0

/-! ### labels through the two conversions -/

section
variable {S : Var → Prop}

theorem keyIn_genS2B {k : Key} (hk : KeyIn S k) : ∀ kv ∈ genS2B k, KeyIn S kv.1 := by
  induction k with
  | nil => intro kv h; simp only [genS2B, List.mem_singleton] at h; subst h; exact keyIn_nil
  | cons i r ih =>
    intro kv h
    simp only [genS2B, List.mem_flatMap] at h
    obtain ⟨kv0, h0, h⟩ := h
    have hr := ih (fun j hj => hk j (List.mem_cons_of_mem _ hj)) kv0 h0
    simp only [List.mem_cons, List.not_mem_nil, or_false] at h
    rcases h with rfl | rfl
    · intro j hj
      rcases List.mem_cons.1 hj with rfl | hj
      · exact hk _ List.mem_cons_self
      · exact hr j hj
    · exact hr

theorem keyIn_genB2S {k : Key} (hk : KeyIn S k) : ∀ kv ∈ genB2S k, KeyIn S kv.1 := by
  induction k with
  | nil => intro kv h; simp only [genB2S, List.mem_singleton] at h; subst h; exact keyIn_nil
  | cons i r ih =>
    intro kv h
    simp only [genB2S, List.mem_flatMap] at h
    obtain ⟨kv0, h0, h⟩ := h
    have hr := ih (fun j hj => hk j (List.mem_cons_of_mem _ hj)) kv0 h0
    simp only [List.mem_cons, List.not_mem_nil, or_false] at h
    rcases h with rfl | rfl
    · intro j hj
      rcases List.mem_cons.1 hj with rfl | hj
      · exact hk _ List.mem_cons_self
      · exact hr j hj
    · exact hr

theorem varsIn_addGen {sq : Sq} (hq : SqSub sq) {g : List (Key × Rat)} {acc acc' : Poly} {v : Rat}
    (h : VarsIn S acc) (hg : ∀ kv ∈ g, KeyIn S kv.1) (ha : addGen sq acc g v = .ok acc') : VarsIn S acc' := by
  induction g generalizing acc with
  | nil => simp only [addGen] at ha; injection ha with ha; subst ha; exact h
  | cons kv r ih =>
    obtain ⟨key, value⟩ := kv
    simp only [addGen, bind_ok_iff] at ha
    obtain ⟨a1, h1, ha⟩ := ha
    exact ih (varsIn_addTerm hq h (hg (key, value) List.mem_cons_self) h1)
      (fun kv' h' => hg kv' (List.mem_cons_of_mem _ h')) ha

theorem varsIn_convLoop {gen : Key → List (Key × Rat)} {sq : Sq} (hq : SqSub sq)
    (hgen : ∀ k, KeyIn S k → ∀ kv ∈ gen k, KeyIn S kv.1) {p acc r : Poly} (h : VarsIn S acc) (hp : VarsIn S p)
    (ha : convLoop gen sq acc p = .ok r) : VarsIn S r := by
  induction p generalizing acc with
  | nil => simp only [convLoop] at ha; injection ha with ha; subst ha; exact h
  | cons kv rest ih =>
    obtain ⟨k, v⟩ := kv
    simp only [convLoop, bind_ok_iff] at ha
    obtain ⟨a1, h1, ha⟩ := ha
    exact ih (varsIn_addGen hq h (hgen k (hp (k, v) List.mem_cons_self)) h1)
      (fun kv' h' => hp kv' (List.mem_cons_of_mem _ h')) ha

theorem spinCopy_vars {H H' : Poly} (h : spinCopy H = .ok H') (hH : VarsIn S H) : VarsIn S H' :=
  varsIn_construct (sqSub_squash _) hH h

theorem boolImage_vars {H P : Poly} (h : boolImage H = .ok P) (hH : VarsIn S H) : VarsIn S P := by
  simp only [boolImage, bind_ok_iff, pure, Except.pure] at h
  obtain ⟨P0, h0, h⟩ := h
  injection h with h; subst h
  exact varsIn_iaddB varsIn_nil (varsIn_convLoop (sqSub_squash _) (fun k hk => keyIn_genS2B hk) varsIn_nil hH h0)

theorem absorb_vars {s s' : PSt} {h : St} (ha : absorb s h = .ok s') (hs : VarsIn S s.terms)
    (hh : VarsIn S h.terms) : VarsIn S s'.terms := by
  obtain ⟨F, t, hF, ht, rfl⟩ := absorb_ok ha
  exact varsIn_iaddD (sqSub_squash _) hs
    (varsIn_convLoop (sqSub_squash _) (fun k hk => keyIn_genB2S hk) varsIn_nil hh hF) ht

end

/-! ### T3.3: counter and labels of the PCSO call (unconditional) -/

theorem addConstraint_anc_mono {r : Rel} {s s' : PSt} {H : Poly} {lam : Rat} {lt : Bool}
    {b : Option Rat × Option Rat} {sup : Bool} (h : addConstraint r s H lam lt b sup = .ok s') :
    s.anc ≤ s'.anc := by
  by_cases hl : lam = 0
  · subst hl
    obtain ⟨H', _, rfl⟩ := addConstraint_zero h
    exact Nat.le_refl _
  · obtain ⟨H', P, _, _, h3⟩ := addConstraint_ok hl h
    rw [absorb_anc h3]
    exact addConstraint_anc r (emptyPcbo s) P lam lt b sup

theorem addConstraint_labels {S : Var → Prop} {r : Rel} {s s' : PSt} {H : Poly} {lam : Rat} {lt : Bool}
    {b : Option Rat × Option Rat} {sup : Bool} (h : addConstraint r s H lam lt b sup = .ok s')
    (hs : VarsIn S s.terms) (hH : VarsIn S H) (hS : ∀ k, s.anc ≤ k → k < s'.anc → S (ANC + k)) :
    VarsIn S s'.terms := by
  by_cases hl : lam = 0
  · subst hl
    obtain ⟨H', _, rfl⟩ := addConstraint_zero h
    exact hs
  · obtain ⟨H', P, h1, h2, h3⟩ := addConstraint_ok hl h
    have hP := boolImage_vars h2 (spinCopy_vars h1 hH)
    rw [absorb_anc h3] at hS
    exact absorb_vars h3 hs (addConstraint_vars r (emptyPcbo s) P lam lt b sup varsIn_nil hP hS)

/-! ### T3.4: validity (unconditional) -/

theorem addConstraint_cons {r : Rel} {s s' : PSt} {H : Poly} {lam : Rat} {lt : Bool}
    {b : Option Rat × Option Rat} {sup : Bool} (h : addConstraint r s H lam lt b sup = .ok s') :
    ∃ H', spinCopy H = .ok H' ∧ s'.cons = s.cons ++ [(r, H')] := by
  by_cases hl : lam = 0
  · subst hl
    obtain ⟨H', h1, rfl⟩ := addConstraint_zero h
    exact ⟨H', h1, rfl⟩
  · obtain ⟨H', P, h1, _, h3⟩ := addConstraint_ok hl h
    exact ⟨H', h1, absorb_cons h3⟩

theorem addConstraint_valid {r : Rel} {s s' : PSt} {H : Poly} {lam : Rat} {lt : Bool}
    {b : Option Rat × Option Rat} {sup : Bool} (h : addConstraint r s H lam lt b sup = .ok s')
    {z : Var → Rat} (hz : IsSpin z) :
    isValid s' z = true ↔ (isValid s z = true ∧ r.holds (eval z H) = true) := by
  obtain ⟨H', h1, hc⟩ := addConstraint_cons h
  simp only [isValid, Qv.isValid, hc, List.all_append, List.all_cons, List.all_nil, Bool.and_true,
    Bool.and_eq_true, spinCopy_eval h1 hz]

/-! ### premises: from the spin polynomial to its boolean image -/

theorem boolImage_int {H H' P : Poly} (h1 : spinCopy H = .ok H') (h2 : boolImage H' = .ok P)
    (hint : ∀ z, IsSpin z → ∃ n : Int, eval z H = n) : ∀ x, IsBool x → ∃ n : Int, eval x P = n := by
  intro x hx
  rw [boolImage_eval h2 hx, spinCopy_eval h1 (isSpin_b2s hx)]
  exact hint _ (isSpin_b2s hx)

theorem boolImage_bounds {H H' P : Poly} (h1 : spinCopy H = .ok H') (h2 : boolImage H' = .ok P)
    {b : Option Rat × Option Rat}
    (hlo : ∀ l, b.1 = some l → ∀ z, IsSpin z → l ≤ eval z H)
    (hhi : ∀ u, b.2 = some u → ∀ z, IsSpin z → eval z H ≤ u) {x : Var → Rat} (hx : IsBool x) :
    (getBounds P b).1 ≤ eval x P ∧ eval x P ≤ (getBounds P b).2 := by
  have he : eval x P = eval (b2s x) H := by rw [boolImage_eval h2 hx, spinCopy_eval h1 (isSpin_b2s hx)]
  exact getBounds_encloses hx P b (fun l hl => he ▸ hlo l hl _ (isSpin_b2s hx))
    (fun u hu => he ▸ hhi u hu _ (isSpin_b2s hx))

/-! ### the `eq` relation outright: `BoolPenaltyOK` from L6.0 -/

theorem agreeOff_empty {a : Nat} {y x : Var → Rat} (h : AgreeOff a a y x) : y = x := by
  funext i
  exact h i (fun ⟨k, h1, h2, _⟩ => absurd h1 (by omega))

/-- **T2.1/T2.2 for `add_constraint_eq_zero`** on any PCBO state, for a canonical integer-valued `P` whose
working bounds (`getBounds`: declared where given, computed otherwise) are valid: no ancilla is drawn, the added
terms vanish exactly where `P = 0` and are `≥ lam` elsewhere — whether or not the library warned (any `unsat`). -/
theorem penaltyOK_eq {s0 : St} {P : Poly} {lam : Rat} {lt : Bool} {b : Option Rat × Option Rat} {sup : Bool}
    (hlam : 0 < lam) (hnz : ∀ kv ∈ P, kv.2 ≠ 0) (hint : ∀ x, IsBool x → ∃ n : Int, eval x P = n)
    (hb : ∀ x, IsBool x → (getBounds P b).1 ≤ eval x P ∧ eval x P ≤ (getBounds P b).2) (unsat : Prop) :
    PenaltyOK IsBool (fun x => Rel.eq.holds (eval x P)) (addedB .eq s0 P lam lt b sup)
      s0.anc (Qv.addConstraint .eq s0 P lam lt b sup).anc lam unsat := by
  have hpt : ∀ x, IsBool x → (addedB .eq s0 P lam lt b sup x = 0 ↔ eval x P = 0) ∧
      (eval x P ≠ 0 → lam ≤ addedB .eq s0 P lam lt b sup x) := fun x hx =>
    addEqZero_point hx hnz hlam (hint x hx) (hb x hx).1 (hb x hx).2
  have hanc : (Qv.addConstraint .eq s0 P lam lt b sup).anc = s0.anc := addEqZero_anc s0 P lam b sup
  rw [hanc]
  refine ⟨fun x hx => ?_, fun _ x hx hh => ⟨x, hx, fun _ _ => rfl, ?_⟩, fun _ x hx hh y hy hag => ?_⟩
  · by_cases h0 : eval x P = 0
    · exact le_of_eq ((hpt x hx).1.2 h0).symm
    · exact le_trans (le_of_lt hlam) ((hpt x hx).2 h0)
  · exact (hpt x hx).1.2 (by simpa [Rel.holds] using hh)
  · have := agreeOff_empty hag
    subst this
    exact (hpt y hy).2 (by simpa [Rel.holds] using hh)

theorem boolPenaltyOK_eq {s0 : St} {P : Poly} {lam : Rat} {lt : Bool} {b : Option Rat × Option Rat} {sup : Bool}
    (hlam : 0 < lam) (hnz : ∀ kv ∈ P, kv.2 ≠ 0) (hint : ∀ x, IsBool x → ∃ n : Int, eval x P = n)
    (hb : ∀ x, IsBool x → (getBounds P b).1 ≤ eval x P ∧ eval x P ≤ (getBounds P b).2) :
    BoolPenaltyOK .eq s0 P lam lt b sup :=
  penaltyOK_eq hlam hnz hint hb _

/-! ### the premises of C03 and of C02 -/

/-- the premises of C03 on one call: `lam > 0`, `H` integer-valued on spin assignments, given bounds valid for the
range of `H` (which is the range of its boolean image), `H` mentions user labels only -/
structure SpinPremises (H : Poly) (lam : Rat) (b : Option Rat × Option Rat) : Prop where
  lam_pos : 0 < lam
  int : ∀ z, IsSpin z → ∃ n : Int, eval z H = n
  lo : ∀ l, b.1 = some l → ∀ z, IsSpin z → l ≤ eval z H
  hi : ∀ u, b.2 = some u → ∀ z, IsSpin z → eval z H ≤ u
  user : VarsIn (fun i => i < ANC) H

/-- the premises of C02 on one call: `lam > 0`, `P` a canonical PUBO, integer-valued on boolean assignments, given
bounds valid, user labels only -/
structure BoolPremises (P : Poly) (lam : Rat) (b : Option Rat × Option Rat) : Prop where
  lam_pos : 0 < lam
  canon : WF (squash .pubo) P
  int : ∀ x, IsBool x → ∃ n : Int, eval x P = n
  lo : ∀ l, b.1 = some l → ∀ x, IsBool x → l ≤ eval x P
  hi : ∀ u, b.2 = some u → ∀ x, IsBool x → eval x P ≤ u
  user : VarsIn (fun i => i < ANC) P

theorem BoolPremises.bounds {P : Poly} {lam : Rat} {b : Option Rat × Option Rat} (h : BoolPremises P lam b)
    {x : Var → Rat} (hx : IsBool x) : (getBounds P b).1 ≤ eval x P ∧ eval x P ≤ (getBounds P b).2 :=
  getBounds_encloses hx P b (fun l hl => h.lo l hl x hx) (fun u hu => h.hi u hu x hx)

/-- the premises of C03 for `H` give the premises of C02 for the boolean image the helper PCBO receives -/
theorem premises_transfer {H H' P : Poly} {lam : Rat} {b : Option Rat × Option Rat} (hp : SpinPremises H lam b)
    (h1 : spinCopy H = .ok H') (h2 : boolImage H' = .ok P) : BoolPremises P lam b := by
  have he : ∀ x, IsBool x → eval x P = eval (b2s x) H := fun x hx => by
    rw [boolImage_eval h2 hx, spinCopy_eval h1 (isSpin_b2s hx)]
  exact ⟨hp.lam_pos, boolImage_wf h2, boolImage_int h1 h2 hp.int,
    fun l hl x hx => he x hx ▸ hp.lo l hl _ (isSpin_b2s hx),
    fun u hu x hx => he x hx ▸ hp.hi u hu _ (isSpin_b2s hx),
    boolImage_vars h2 (spinCopy_vars h1 hp.user)⟩

end Qv.Pcso
