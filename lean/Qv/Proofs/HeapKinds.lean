import Qv.Proofs.HeapCapture
/-!
# Qv.Proofs.HeapKinds — the info round trip re-creates every recorded constraint as a polynomial of the model's own
kind (`PUBO` in a boolean, `PUSO` in a spin model), each a fresh object without constraints of its own
-/
namespace Qv.Hp
open Qv

/-- `x` is a constraint polynomial object of kind `κp` -/
def IsPoly (κp : Kind) (h : Heap) (x : Nat) : Prop :=
  ∃ d m rm v, h[x]? = some (Cell.obj d m rm v none) ∧ d.kind = κp

theorem IsPoly.mono {κp : Kind} {n : Nat} {h h' : Heap} {x : Nat} (p : IsPoly κp h x) (e : FreshExt n h h') :
    IsPoly κp h' x := by
  obtain ⟨d, m, rm, v, hg, hk⟩ := p
  exact ⟨d, m, rm, v, by rw [e.old (get_some_lt hg)]; exact hg, hk⟩

theorem mkObj_get (h : Heap) (κ : Kind) (pl : Payload) (name : Option String) (anc : Nat) (cons : Option Nat) :
    ∃ m rm v, (mkObj h κ pl name anc cons).1[(mkObj h κ pl name anc cons).2]? =
      some (Cell.obj { kind := κ, terms := pl.terms, name := name, anc := anc } m rm v cons) := by
  cases hl : κ.isLabelled
  · simp only [mkObj, allocIf, alloc, hl, Bool.false_eq_true, if_false]
    exact ⟨none, none, h.length, by simp⟩
  · simp only [mkObj, allocIf, alloc, hl, if_true]
    exact ⟨some h.length, some (h.length + 1), h.length + 2, by simp⟩

theorem appendRef_all (P : Nat → Prop) {rel : Rel} {p : Nat} (hp : P p) :
    ∀ (acc : List (Rel × List Nat)), (∀ e ∈ acc, ∀ x ∈ e.2, P x) → ∀ e ∈ appendRef acc rel p, ∀ x ∈ e.2, P x
  | [], _ => by
    intro e he x hx
    simp only [appendRef, List.mem_singleton] at he
    subst he
    simp only [List.mem_singleton] at hx
    subst hx
    exact hp
  | e0 :: t, a => by
    intro e he x hx
    simp only [appendRef] at he
    split at he
    · simp only [List.mem_cons] at he
      rcases he with rfl | he
      · simp only [List.mem_append, List.mem_singleton] at hx
        rcases hx with hx | rfl
        · exact a e0 (by simp) x hx
        · exact hp
      · exact a e (by simp [he]) x hx
    · simp only [List.mem_cons] at he
      rcases he with rfl | he
      · exact a _ (by simp) x hx
      · exact appendRef_all P hp t (fun e' he' => a e' (by simp [he'])) e he x hx

theorem readdList_kind (F : Ctor) (κp : Kind) (rel : Rel) :
    ∀ (xs : List Nat) (h h' : Heap) (acc acc' : List (Rel × List Nat)),
    (∀ e ∈ acc, ∀ x ∈ e.2, IsPoly κp h x) → readdList F κp rel h acc xs = some (h', acc') →
    ∀ e ∈ acc', ∀ x ∈ e.2, IsPoly κp h' x
  | [], h, h', acc, acc', ha, he => by
    simp only [readdList, Option.some.injEq, Prod.mk.injEq] at he
    obtain ⟨rfl, rfl⟩ := he
    exact ha
  | x :: t, h, h', acc, acc', ha, he => by
    simp only [readdList] at he
    cases ht : termsOf h x with
    | none => simp [ht] at he
    | some kt =>
      obtain ⟨κ, ts⟩ := kt
      simp only [ht] at he
      have hm := mkObj_fresh (n := 0) (h := h) κp (F κp ts) none 0 none (Nat.zero_le _) (by simp)
      obtain ⟨m, rm, v, hg⟩ := mkObj_get h κp (F κp ts) none 0 none
      refine readdList_kind F κp rel t _ _ _ _ ?_ he
      apply appendRef_all (IsPoly κp (mkObj h κp (F κp ts) none 0 none).1)
      · exact ⟨_, m, rm, v, hg, rfl⟩
      · exact fun e he' y hy => (ha e he' y hy).mono hm.1

theorem readdGroups_kind (F : Ctor) (κp : Kind) :
    ∀ (g : List (Rel × Nat)) (h h' : Heap) (acc acc' : List (Rel × List Nat)),
    (∀ e ∈ acc, ∀ x ∈ e.2, IsPoly κp h x) → readdGroups F κp h acc g = some (h', acc') →
    ∀ e ∈ acc', ∀ x ∈ e.2, IsPoly κp h' x
  | [], h, h', acc, acc', ha, he => by
    simp only [readdGroups, Option.some.injEq, Prod.mk.injEq] at he
    obtain ⟨rfl, rfl⟩ := he
    exact ha
  | e :: t, h, h', acc, acc', ha, he => by
    simp only [readdGroups] at he
    split at he
    · rename_i xs _
      cases hl : readdList F κp e.1 h acc xs with
      | none => simp [hl] at he
      | some p =>
        obtain ⟨h1, acc1⟩ := p
        simp only [hl] at he
        exact readdGroups_kind F κp t h1 h' acc1 acc' (readdList_kind F κp e.1 xs h h1 acc acc1 ha hl) he
    · cases he

theorem allocLists_prefix : ∀ (acc : List (Rel × List Nat)) (h : Heap), ∃ l, (allocLists h acc).1 = h ++ l
  | [], h => ⟨[], by simp [allocLists]⟩
  | e :: t, h => by
    obtain ⟨l, hl⟩ := allocLists_prefix t (h ++ [Cell.list e.2])
    exact ⟨[Cell.list e.2] ++ l, by simp only [allocLists, alloc]; rw [hl]; simp⟩

/-- every entry of the new `_constraints` points to a list cell holding the references collected for its relation -/
theorem allocLists_spec : ∀ (acc : List (Rel × List Nat)) (h : Heap),
    ∀ e ∈ (allocLists h acc).2, ∃ rs, (e.1, rs) ∈ acc ∧ (allocLists h acc).1[e.2]? = some (Cell.list rs)
  | [], h => by simp [allocLists]
  | e :: t, h => by
    intro e' he'
    simp only [allocLists, alloc, List.mem_cons] at he'
    rcases he' with rfl | he'
    · refine ⟨e.2, by simp, ?_⟩
      obtain ⟨l, hl⟩ := allocLists_prefix t (h ++ [Cell.list e.2])
      simp only [allocLists, alloc]
      rw [hl, get_append_old (by simp), get_alloc_new]
    · obtain ⟨rs, hin, hg⟩ := allocLists_spec t (h ++ [Cell.list e.2]) e' he'
      exact ⟨rs, by simp [hin], by simpa only [allocLists, alloc] using hg⟩

/-- **`create_from_info`** on the info of a constrained model of kind `κ`: the result is a `κ` object whose
`_constraints` lists hold only fresh `consKind κ` objects (`PUSO` for a spin, `PUBO` for a boolean model) -/
theorem createFromInfoH_kinds (F : Ctor) {h h' : Heap} {i r : Nat} {κ : Kind} {name : Option String} {anc t : Nat}
    {m c : Option Nat} (hi : h[i]? = some (Cell.info κ name anc t m c)) (hcon : κ.isConstrained = true)
    (he : createFromInfoH F h i = some (h', r)) :
    ∃ d mm rm v cd g, h'[r]? = some (Cell.obj d mm rm v (some cd)) ∧ d.kind = κ ∧ h'[cd]? = some (Cell.cdict g) ∧
      ∀ e ∈ g, ∃ rs, h'[e.2]? = some (Cell.list rs) ∧ ∀ x ∈ rs, IsPoly (consKind κ) h' x := by
  unfold createFromInfoH at he
  simp only [hi] at he
  cases ht : termsOf h t with
  | none => simp [ht] at he
  | some kt =>
    obtain ⟨κt, ts⟩ := kt
    simp only [ht] at he
    split at he
    · cases he
    · rename_i pl' _
      simp only [hcon, if_true] at he
      split at he
      · cases he
      · rename_i g _
        cases hr : readdGroups F (consKind κ) h [] g with
        | none => simp [hr] at he
        | some p =>
          obtain ⟨h1, acc⟩ := p
          simp only [hr, alloc, Option.some.injEq] at he
          have h1f := readdGroups_fresh (n := 0) F (consKind κ) g h h1 [] acc (Nat.zero_le _)
            (by intro e he; simp at he) hr
          have hk := readdGroups_kind F (consKind κ) g h h1 [] acc (by intro e he; simp at he) hr
          have hlf := allocLists_fresh (n := 0) acc h1 h1f.2
          have hls := allocLists_spec acc h1
          have hcd : FreshExt 0 (allocLists h1 acc).1 ((allocLists h1 acc).1 ++ [Cell.cdict (allocLists h1 acc).2]) :=
            FreshExt.alloc (by
              intro r hr'
              simp only [Cell.refs, List.mem_map] at hr'
              obtain ⟨e, he', rfl⟩ := hr'
              exact ⟨Nat.zero_le _, (hlf.2 e he').2⟩)
          have hm := mkObj_fresh (n := 0) (h := (allocLists h1 acc).1 ++ [Cell.cdict (allocLists h1 acc).2])
            κ pl' name anc (some (allocLists h1 acc).1.length) (Nat.zero_le _) (by
              intro r hr'
              simp only [Option.toList, List.mem_singleton] at hr'
              subst hr'
              simp)
          obtain ⟨mm, rm, v, hg⟩ := mkObj_get ((allocLists h1 acc).1 ++ [Cell.cdict (allocLists h1 acc).2])
            κ pl' name anc (some (allocLists h1 acc).1.length)
          rw [Prod.ext_iff] at he
          obtain ⟨rfl, rfl⟩ := he
          refine ⟨_, mm, rm, v, _, (allocLists h1 acc).2, hg, rfl, ?_, ?_⟩
          · rw [hm.1.old (by simp), get_alloc_new]
          · intro e he'
            obtain ⟨rs, hin, hgl⟩ := hls e he'
            refine ⟨rs, ?_, ?_⟩
            · rw [hm.1.old (Nat.lt_of_lt_of_le (get_some_lt hgl) hcd.len), hcd.old (get_some_lt hgl)]
              exact hgl
            · intro x hx
              exact (((hk (e.1, rs) hin x hx).mono hlf.1).mono hcd).mono hm.1

theorem getInfoH_info (F : Ctor) {h h1 : Heap} {o i : Nat} {d : ObjData} {m rm : Option Nat} {v : Nat} {c : Option Nat}
    (ho : h[o]? = some (Cell.obj d m rm v c)) (he : getInfoH F h o = some (h1, i)) :
    ∃ t m' c', h1[i]? = some (Cell.info d.kind d.name d.anc t m' c') := by
  unfold getInfoH at he
  simp only [ho, alloc] at he
  cases hm : copyMapIf (h ++ [Cell.plain d.terms]) m with
  | none => simp [hm] at he
  | some p =>
    obtain ⟨h2, m'⟩ := p
    simp only [hm] at he
    cases hc : consIf F h2 o c with
    | none => simp [hc] at he
    | some q =>
      obtain ⟨h3, c'⟩ := q
      simp only [hc, Option.some.injEq, Prod.mk.injEq] at he
      obtain ⟨rfl, rfl⟩ := he
      exact ⟨_, m', c', get_alloc_new _ _⟩

/-- **the info round trip keeps the kind of the recorded constraints**: in `create_from_info(get_info(M))` of a
`PCBO` / `PCSO` `M`, every recorded constraint is a fresh `PUBO` / `PUSO` object (`consKind` of `M`'s kind) -/
theorem roundTrip_kinds (F : Ctor) {h h' : Heap} {o r : Nat} {d : ObjData} {m rm : Option Nat} {v : Nat} {c : Option Nat}
    (ho : h[o]? = some (Cell.obj d m rm v c)) (hcon : d.kind.isConstrained = true)
    (he : roundTrip F h o = some (h', r)) :
    ∃ d' mm rm' v' cd g, h'[r]? = some (Cell.obj d' mm rm' v' (some cd)) ∧ d'.kind = d.kind ∧
      h'[cd]? = some (Cell.cdict g) ∧
      ∀ e ∈ g, ∃ rs, h'[e.2]? = some (Cell.list rs) ∧ ∀ x ∈ rs, IsPoly (consKind d.kind) h' x := by
  unfold roundTrip at he
  cases hg : getInfoH F h o with
  | none => simp [hg] at he
  | some p =>
    obtain ⟨h1, i⟩ := p
    simp only [hg] at he
    obtain ⟨t, m', c', hi⟩ := getInfoH_info F ho hg
    exact createFromInfoH_kinds F hi hcon he

end Qv.Hp
