import Qv.Model.Reduce
import Qv.Proofs.Basic
import Qv.Proofs.Canon
import Mathlib.Tactic.NormNum
import Mathlib.Tactic.Positivity
import Mathlib.Algebra.Order.AbsoluteValue.Basic
/-!
# Helper lemmas for C01 (degree reduction): boolean arithmetic, the AND gadget, one reduction step
-/
namespace Qv.Reduce
open Qv

/-! ### evaluation of the PUBO operations used by the reduction -/

theorem eval_addTermB {x : Var → Rat} (hx : IsBool x) (p : Poly) (k : Key) (v : Rat) :
    eval x (addTermB p k v) = eval x p + v * mon x k := by
  unfold addTermB
  simp only []
  rw [eval_set, mon_squashB hx]; ring

theorem eval_iaddB {x : Var → Rat} (hx : IsBool x) (q p : Poly) :
    eval x (iaddB p q) = eval x p + eval x q := by
  unfold iaddB
  induction q generalizing p with
  | nil => simp
  | cons kv r ih =>
    obtain ⟨k, v⟩ := kv
    simp only [List.foldl_cons, eval_cons]
    rw [ih, eval_addTermB hx]; ring

theorem eval_scaleB_aux {x : Var → Rat} (hx : IsBool x) (c : Rat) (q acc : Poly) :
    eval x (q.foldl (fun acc kv => addTermB acc kv.1 (c * kv.2)) acc) = eval x acc + c * eval x q := by
  induction q generalizing acc with
  | nil => simp
  | cons kv r ih =>
    obtain ⟨k, v⟩ := kv
    simp only [List.foldl_cons, eval_cons]
    rw [ih, eval_addTermB hx]; ring

theorem eval_scaleB {x : Var → Rat} (hx : IsBool x) (c : Rat) (q : Poly) :
    eval x (scaleB c q) = c * eval x q := by
  unfold scaleB
  rw [eval_scaleB_aux hx]; simp

/-- AND gadget value `3z + xy − 2xz − 2yz` on numbers -/
def gad (x y z : Rat) : Rat := 3*z + x*y - 2*x*z - 2*y*z

theorem eval_gadget {s : Var → Rat} (hs : IsBool s) (a b c : Var) :
    eval s (gadget a b c) = gad (s b) (s c) (s a) := by
  unfold gadget gad
  simp only [List.foldl_cons, List.foldl_nil]
  rw [eval_addTermB hs, eval_addTermB hs, eval_addTermB hs, eval_addTermB hs]
  simp only [eval_nil, mon_cons, mon_nil]; ring

theorem eval_addGadget {s : Var → Rat} (hs : IsBool s) (D : Poly) (lam : Rat) (x y z : Var) :
    eval s (addGadget D lam x y z) = eval s D + lam * gad (s x) (s y) (s z) := by
  unfold addGadget
  split
  · subst_vars; simp
  · rw [eval_iaddB hs, eval_iaddB hs, eval_scaleB hs, eval_gadget hs]; simp

/-! ### the gadget and one step, on numbers -/

theorem gad_cases {x y z : Rat} (hx : x = 0 ∨ x = 1) (hy : y = 0 ∨ y = 1) (hz : z = 0 ∨ z = 1) :
    (z = x*y ∧ gad x y z = 0) ∨ (z ≠ x*y ∧ gad x y z ≥ 1) := by
  rcases hx with rfl | rfl <;> rcases hy with rfl | rfl <;> rcases hz with rfl | rfl <;>
    simp [gad] <;> norm_num

/-- one reduction step on a monomial: replacing `x*y*r` by `z*r`, all boolean -/
theorem step_lower {v lam x y z r : Rat} (hx : x = 0 ∨ x = 1) (hy : y = 0 ∨ y = 1)
    (hz : z = 0 ∨ z = 1) (hr : r = 0 ∨ r = 1) (hl : |v| ≤ lam) :
    v * (z * r) + lam * gad x y z ≥ v * (x * y * r) := by
  have hv1 : v ≤ lam := le_trans (le_abs_self v) hl
  have hv2 : -v ≤ lam := le_trans (neg_le_abs v) hl
  rcases hx with rfl | rfl <;> rcases hy with rfl | rfl <;> rcases hz with rfl | rfl <;>
    rcases hr with rfl | rfl <;> simp only [gad] <;> nlinarith

theorem step_exact {v lam x y z r : Rat} (hc : z = x * y) (hx : x = 0 ∨ x = 1) (hy : y = 0 ∨ y = 1) :
    v * (z * r) + lam * gad x y z = v * (x * y * r) := by
  subst hc
  rcases hx with rfl | rfl <;> rcases hy with rfl | rfl <;> simp only [gad] <;> ring

theorem absR_eq (v : Rat) : absR v = |v| := by
  unfold absR
  split
  · rename_i h; rw [abs_of_neg h]
  · rename_i h; rw [abs_of_nonneg (not_lt.mp h)]

/-- `PUBO.default_lam` is admissible -/
theorem defaultLam_ge (v : Rat) : |v| ≤ defaultLam v := by
  unfold defaultLam; rw [absR_eq]; linarith

/-! ### monomials on boolean assignments -/

theorem mon_bool {s : Var → Rat} (hs : IsBool s) (k : Key) : mon s k = 0 ∨ mon s k = 1 := by
  induction k with
  | nil => right; rfl
  | cons i r ih =>
    simp only [mon_cons]
    rcases hs i with h | h <;> rcases ih with h2 | h2 <;> simp [h, h2]

/-- absorption: a label of the key can be multiplied in again -/
theorem mon_absorb {s : Var → Rat} (hs : IsBool s) {x : Var} {k : Key} (h : x ∈ k) :
    s x * mon s k = mon s k := by
  induction k with
  | nil => cases h
  | cons i r ih =>
    simp only [mon_cons]
    rcases List.mem_cons.mp h with rfl | h
    · rw [← mul_assoc, hs.sq]
    · rw [mul_left_comm, ih h]

theorem mon_remove2 {s : Var → Rat} (hs : IsBool s) (x y : Var) (k : Key) :
    s x * s y * mon s (remove2 k x y) = s x * s y * mon s k := by
  induction k with
  | nil => rfl
  | cons i r ih =>
    unfold remove2
    rw [List.filter_cons]
    split
    · rename_i h
      show s x * s y * mon s (i :: remove2 r x y) = _
      simp only [mon_cons]
      rw [mul_left_comm (s x * s y), ih]; ring
    · rename_i h
      show s x * s y * mon s (remove2 r x y) = _
      have h : i = x ∨ i = y := by
        have h' : ¬i = x → i = y := by simpa using h
        by_cases hix : i = x
        · exact Or.inl hix
        · exact Or.inr (h' hix)
      simp only [mon_cons]
      rw [ih]
      rcases h with rfl | rfl
      · have := hs.sq i
        calc s i * s y * mon s r = (s i * s i) * s y * mon s r := by rw [this]
          _ = s i * s y * (s i * mon s r) := by ring
      · have := hs.sq i
        calc s x * s i * mon s r = s x * (s i * s i) * mon s r := by rw [this]
          _ = s x * s i * (s i * mon s r) := by ring

/-- the monomial of a key that contains `x` and `y` factors through the key without them -/
theorem mon_split {s : Var → Rat} (hs : IsBool s) {x y : Var} {k : Key} (hx : x ∈ k) (hy : y ∈ k) :
    mon s k = s x * s y * mon s (remove2 k x y) := by
  rw [mon_remove2 hs, mul_assoc, mon_absorb hs hy, mon_absorb hs hx]

theorem mon_congr {s t : Var → Rat} {k : Key} (h : ∀ i ∈ k, s i = t i) : mon s k = mon t k := by
  induction k with
  | nil => rfl
  | cons i r ih =>
    simp only [mon_cons]
    rw [h i (List.mem_cons_self), ih (fun j hj => h j (List.mem_cons_of_mem _ hj))]

theorem eval_congr {s t : Var → Rat} {p : Poly} (h : ∀ kv ∈ p, ∀ i ∈ kv.1, s i = t i) :
    eval s p = eval t p := by
  induction p with
  | nil => rfl
  | cons kv r ih =>
    obtain ⟨k, v⟩ := kv
    simp only [eval_cons]
    rw [mon_congr (h (k, v) (List.mem_cons_self)), ih (fun kv hkv => h kv (List.mem_cons_of_mem _ hkv))]

end Qv.Reduce
