import Qv.Proofs.ProblemsJSTop
import Mathlib.Data.Rat.Floor
/-!
# JobSequencing: the default `M = N · max length` makes the slack registers large enough (`JS.Fits`)
-/
namespace Qv.Prob
open Qv

theorem js_foldl_max_mem (r : List Rat) (a : Rat) : r.foldl max a = a ∨ r.foldl max a ∈ r := by
  induction r generalizing a with
  | nil => left; rfl
  | cons c r ih =>
    simp only [List.foldl_cons]
    rcases ih (max a c) with h | h
    · rw [h]
      rcases max_cases a c with ⟨h1, _⟩ | ⟨h1, _⟩
      · left; exact h1
      · right; rw [h1]; exact List.mem_cons_self
    · right; exact List.mem_cons_of_mem _ h

theorem sumL_le_length_mul (l : List Rat) (mx : Rat) (h : ∀ a ∈ l, a ≤ mx) : sumL l ≤ (l.length : Rat) * mx := by
  induction l with
  | nil => simp [sumL]
  | cons a r ih =>
    simp only [sumL, List.length_cons]
    have := h a List.mem_cons_self
    have := ih (fun b hb => h b (List.mem_cons_of_mem _ hb))
    push_cast
    linarith

/-- what a successful `JobSequencing.__init__` stores -/
theorem js_new_spec (lengths : List (Var × Rat)) (m : Nat) (lt : Bool) (M : Option Nat) (p : JS)
    (h : JS.new lengths m lt M = .ok p) :
    p.lengths = lengths ∧ p.m = m ∧ p.logTrick = lt ∧
      p.M = (match M with | some v => v | none => lengths.length * p.maxL.floor.toNat) := by
  unfold JS.new at h
  simp only [bind, Except.bind, pure, Except.pure, throw, throwThe, MonadExceptOf.throw] at h
  cases hl : lengths.map Prod.snd with
  | nil => rw [hl] at h; cases h
  | cons a r =>
    rw [hl] at h
    simp only at h
    split at h
    · cases h
    · injection h with h
      subst h
      refine ⟨rfl, rfl, rfl, ?_⟩
      cases M with
      | some v => rfl
      | none => simp only [JS.maxL, hl]

/-- with `M = None` (the documented default) and natural lengths, `Σ_j L_j ≤ M` -/
theorem js_fits_default (lengths : List (Var × Rat)) (m : Nat) (lt : Bool) (p : JS)
    (h : JS.new lengths m lt none = .ok p) (hN : p.NatLengths) : p.Fits := by
  obtain ⟨hl, _, _, hM⟩ := js_new_spec lengths m lt none p h
  simp only at hM
  unfold JS.Fits
  have hmaxnat : ∃ n : Nat, p.maxL = (n : Rat) := by
    unfold JS.maxL
    cases hs : p.lengths.map Prod.snd with
    | nil => exact ⟨0, by simp⟩
    | cons a r =>
      simp only
      rcases js_foldl_max_mem r a with h1 | h1
      · rw [h1]; exact js_len_nat p hN (by rw [hs]; exact List.mem_cons_self)
      · exact js_len_nat p hN (by rw [hs]; exact List.mem_cons_of_mem _ h1)
  obtain ⟨n, hn⟩ := hmaxnat
  have hfl : p.maxL.floor.toNat = n := by
    rw [hn]
    have : ((n : Rat)).floor = (n : Int) := by
      have := Rat.floor_intCast (n : Int)
      simpa using this
    rw [this]; simp
  rw [hM, hfl, ← hl]
  have := sumL_le_length_mul (p.lengths.map Prod.snd) p.maxL (fun a ha => js_len_le_maxL p ha)
  rw [hn] at this
  push_cast
  simpa using this

end Qv.Prob
