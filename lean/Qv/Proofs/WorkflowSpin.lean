import Qv.Proofs.Workflow
/-!
# C08: histories of PCSO comparison constraints (the spin side of T8.1), from C03's `spin_penalty`
-/
namespace Qv.Workflow
open Qv Qv.PcboP Qv.Logic Qv.Pcso

/-- the snapshot of a PCSO state -/
def snapS (s : PSt) : Snap := ⟨s.terms, s.anc, Pcso.isValid s⟩

/-- one PCSO comparison constraint under the premises of C03 (T3.1–T3.4), on a state whose ancilla labels are
covered by its counter (T3.5's invariant), when the library does not warn "cannot be satisfied" -/
theorem stepOK_spin {r : Rel} {s s' : PSt} {H : Poly} {lam : Rat} {lt : Bool} {b : Option Rat × Option Rat}
    {sup : Bool} (hp : SpinPremises H lam b) (hi : AncInv s) (hnw : ¬ warnsUnsat r s H lam lt b)
    (h : Pcso.addConstraint r s H lam lt b sup = .ok s') :
    StepOK IsSpin (snapS s) (snapS s') lam (fun z => r.holds (eval z H) = true) := by
  have P := C03.spin_penalty r s s' H lam lt b sup hp h
  have hmono := (C03.counter_and_labels r s s' H lam lt b sup h).1
  have hi' : AncInv s' := Pcso.step_ancInv h hi hp.user
  refine ⟨hmono, P.nonneg, ?_, ?_, fun z hz => C03.is_solution_valid_spec r s s' H lam lt b sup h z hz, ?_, ?_⟩
  · intro x hx hG
    obtain ⟨y, hy, hag, h0⟩ := P.zero hnw x hx hG
    exact ⟨y, hag, hy, h0⟩
  · intro z hz hG
    have hf : r.holds (eval z H) = false := by
      cases hh : r.holds (eval z H)
      · rfl
      · exact absurd hh hG
    exact P.pen hnw z hz hf z hz (fun _ _ => rfl)
  · intro x y hxy
    have : eval x H = eval y H := eval_congr (V := fun i => i < ANC) (fun kv hkv i hik => hp.user kv hkv i hik) hxy
    rw [this]
  · intro z z' _ _ hag h0
    have e1 : eval z s'.terms = eval z' s'.terms :=
      eval_congr (V := fun i => i < ANC + s'.anc) (fun kv hkv i hik => hi' kv hkv i hik) hag
    have e2 : eval z s.terms = eval z' s.terms :=
      eval_congr (V := fun i => i < ANC + s'.anc)
        (fun kv hkv i hik => Nat.lt_of_lt_of_le (hi kv hkv i hik) (Nat.add_le_add_left hmono _)) hag
    unfold Snap.F snapS at h0 ⊢
    simp only at h0 ⊢
    rw [← e1, ← e2]; exact h0

/-- the hypotheses of the property on one PCSO call made at the state `s` -/
def CallOK (s : PSt) (c : Call) : Prop :=
  SpinPremises c.H c.lam c.bounds ∧ ¬ warnsUnsat c.rel s c.H c.lam c.lt c.bounds

/-- every call of the sequence satisfies `CallOK` at the state it is made in -/
def CallsOK : PSt → List Call → Prop
  | _, [] => True
  | s, c :: r => CallOK s c ∧ ∀ s', c.run s = .ok s' → CallsOK s' r

/-- the predicate a call enforces: `H(z) rel 0` -/
def _root_.Qv.Pcso.Call.pred (c : Call) : Pred := fun z => c.rel.holds (eval z c.H) = true

theorem histOK_of_runHist {s s' : PSt} {cs : List Call} (h : runHist s cs = .ok s') (hi : AncInv s)
    (hok : CallsOK s cs) : HistOK IsSpin (snapS s) (snapS s') (cs.map (fun c => (c.lam, c.pred))) := by
  induction cs generalizing s with
  | nil => simp only [runHist] at h; injection h with h; subst h; exact HistOK.nil _
  | cons c r ih =>
    simp only [runHist, bind_ok_iff] at h
    obtain ⟨s1, h1, h2⟩ := h
    have hi1 : AncInv s1 := Pcso.step_ancInv h1 hi hok.1.1.user
    exact HistOK.cons (stepOK_spin hok.1.1 hi hok.1.2 h1) (ih h2 hi1 (hok.2 s1 h1))

end Qv.Workflow
