import Qv.Proofs.Unique
/-!
# What the two key-squashing functions keep

`squashB k` holds exactly the labels occurring in `k`; `squashS k` exactly the labels occurring an
odd number of times.  Both are strictly sorted (`squashB_sorted`, `squashS_sorted`), hence
duplicate-free, so their lengths count those labels.
-/
namespace Qv.ExprErr
open Qv

theorem mem_insertU_iff (a i : Var) (l : Key) : i ∈ insertU a l ↔ i = a ∨ i ∈ l := by
  induction l with
  | nil => simp [insertU]
  | cons b bs ih =>
    unfold insertU
    split
    · simp
    · split
      · rename_i h; subst h; simp
      · simp only [List.mem_cons, ih]
        constructor
        · rintro (h | h | h)
          · exact Or.inr (Or.inl h)
          · exact Or.inl h
          · exact Or.inr (Or.inr h)
        · rintro (h | h | h)
          · exact Or.inr (Or.inl h)
          · exact Or.inl h
          · exact Or.inr (Or.inr h)

theorem mem_squashB_iff (i : Var) (k : Key) : i ∈ squashB k ↔ i ∈ k := by
  induction k with
  | nil => simp [squashB]
  | cons a k ih =>
    show i ∈ insertU a (squashB k) ↔ _
    rw [mem_insertU_iff, ih]; simp

theorem mem_toggleU_iff (a i : Var) {l : Key} (hl : SSorted l) :
    i ∈ toggleU a l ↔ (i = a ∧ a ∉ l) ∨ (i ≠ a ∧ i ∈ l) := by
  induction l with
  | nil => simp [toggleU]
  | cons b bs ih =>
    have hb : ∀ c ∈ bs, b < c := ssorted_head_lt hl
    unfold toggleU
    split
    · rename_i hab
      have hna : a ∉ b :: bs := by
        intro hm
        rcases List.mem_cons.1 hm with e | hm
        · subst e; exact Nat.lt_irrefl _ hab
        · exact Nat.lt_asymm hab (hb a hm)
      by_cases e : i = a
      · subst e; simp [hna]
      · simp only [List.mem_cons, e, false_or, false_and, ne_eq, not_false_eq_true, true_and]
    · split
      · rename_i h1 h2
        subst h2
        have hna : a ∉ bs := fun hm => Nat.lt_irrefl _ (hb a hm)
        by_cases e : i = a
        · subst e; simp [hna]
        · simp [e]
      · rename_i h1 h2
        simp only [List.mem_cons, ih hl.tail]
        by_cases e : i = a
        · subst e
          have : ¬ i = b := h2
          simp [this]
        · by_cases e2 : i = b
          · subst e2; simp [e]
          · simp [e, e2]

theorem mem_squashS_iff (i : Var) (k : Key) : i ∈ squashS k ↔ k.count i % 2 = 1 := by
  induction k with
  | nil => simp [squashS]
  | cons a k ih =>
    show i ∈ toggleU a (squashS k) ↔ _
    rw [mem_toggleU_iff a i (squashS_sorted k)]
    by_cases e : i = a
    · subst e
      simp only [true_and, ne_eq, not_true_eq_false, false_and, or_false, ih,
        List.count_cons_self]
      omega
    · have e' : ¬ a = i := fun h => e h.symm
      simp only [e, false_and, ne_eq, not_false_eq_true, true_and, false_or, ih]
      rw [List.count_cons_of_ne e']

end Qv.ExprErr
