import Qv.Proofs.Convert
import Qv.Model.Problems
import Mathlib.Tactic.Ring
import Mathlib.Tactic.Linarith
import Mathlib.Tactic.NormNum
import Mathlib.Algebra.Order.Ring.Rat
/-!
# Problem classes: shared lemmas and NumberPartitioning
-/
namespace Qv.Prob
open Qv

/-- `Σ_i c[i] * x (off + i)` -/
def dotFrom (x : Var → Rat) : List Rat → Nat → Rat
  | [], _ => 0
  | a :: r, off => a * x off + dotFrom x r (off + 1)

theorem eval_linOps (x : Var → Rat) (c : List Rat) (off : Nat) :
    eval x (linOps c off) = dotFrom x c off := by
  induction c generalizing off with
  | nil => rfl
  | cons a r ih => simp [linOps, dotFrom, ih]

theorem dotFrom_map_mul (x : Var → Rat) (b : Rat) (c : List Rat) (off : Nat) :
    dotFrom x (c.map (fun v => b * v)) off = b * dotFrom x c off := by
  induction c generalizing off with
  | nil => simp [dotFrom]
  | cons a r ih => simp [dotFrom, ih]; ring

theorem dotFrom_map_neg (x : Var → Rat) (c : List Rat) (off : Nat) :
    dotFrom x (c.map (fun v => -v)) off = - dotFrom x c off := by
  induction c generalizing off with
  | nil => simp [dotFrom]
  | cons a r ih => simp [dotFrom, ih]; ring

theorem eval_build {κ : Kind} {x : Var → Rat} (hs : SqOK (squash κ) x) {acc r : Poly} {ops : Ops}
    (h : build κ acc ops = .ok r) : eval x r = eval x acc + eval x ops :=
  eval_iaddD hs h

/-- the container `[z 0, …, z (n-1)]` (a list or tuple handed to `convert_solution`) -/
def enumFrom (z : Var → Rat) : Nat → Nat → Sol
  | _, 0 => []
  | off, n + 1 => (off, z off) :: enumFrom z (off + 1) n

def enumSol (z : Var → Rat) (n : Nat) : Sol := enumFrom z 0 n

theorem listGet_append_length (pre : List Rat) (a : Rat) (r : List Rat) :
    listGet (pre ++ a :: r) pre.length = .ok a := by
  simp [listGet]

/-! ## NumberPartitioning -/

/-- the members of `S` (from position `off`) whose spin satisfies `pred` -/
def pickL (pred : Rat → Bool) (z : Var → Rat) : List Rat → Nat → List Rat
  | [], _ => []
  | a :: r, off => if pred (z off) then a :: pickL pred z r (off + 1) else pickL pred z r (off + 1)

theorem np_pick_enum (pred : Rat → Bool) (z : Var → Rat) (suf pre : List Rat) :
    NP.pick (pre ++ suf) pred (enumFrom z pre.length suf.length) = .ok (pickL pred z suf pre.length) := by
  induction suf generalizing pre with
  | nil => rfl
  | cons a r ih =>
    have h2 := ih (pre ++ [a])
    simp only [List.append_assoc, List.singleton_append, List.length_append, List.length_singleton] at h2
    simp only [List.length_cons, enumFrom, NP.pick, pickL, listGet_append_length, h2]
    split <;> simp [bind, Except.bind, pure, Except.pure]

/-- **decoding**: on the container `[z 0, …, z (N-1)]`, `convert_solution` returns the members with value `1` and
the members with any other value, in order -/
theorem np_convert_enum (p : NP) (z : Var → Rat) :
    p.convert (enumSol z p.numVars) =
      .ok (pickL isOne z p.S 0, pickL notOne z p.S 0) := by
  have h1 := np_pick_enum isOne z p.S []
  have h2 := np_pick_enum notOne z p.S []
  simp only [List.nil_append, List.length_nil] at h1 h2
  simp [NP.convert, enumSol, NP.numVars, h1, h2, bind, Except.bind, pure, Except.pure]

theorem sumL_pick_diff {z : Var → Rat} (hz : IsSpin z) (S : List Rat) (off : Nat) :
    sumL (pickL isOne z S off) - sumL (pickL notOne z S off) =
      dotFrom z S off := by
  induction S generalizing off with
  | nil => simp [pickL, sumL, dotFrom]
  | cons a r ih =>
    have := ih (off + 1)
    rcases hz off with h | h
    · simp [pickL, sumL, dotFrom, h, isOne, notOne]; linarith
    · have hne : ¬ ((-1 : Rat) = 1) := by norm_num
      simp [pickL, sumL, dotFrom, h, hne, isOne, notOne]; linarith

/-- the two parts together are the whole list: nothing is lost or duplicated -/
theorem sumL_pick_total (z : Var → Rat) (S : List Rat) (off : Nat) :
    sumL (pickL isOne z S off) + sumL (pickL notOne z S off) = sumL S := by
  induction S generalizing off with
  | nil => simp [pickL, sumL]
  | cons a r ih =>
    have := ih (off + 1)
    by_cases h : z off = 1
    · simp [pickL, sumL, h, isOne, notOne]; linarith
    · simp [pickL, sumL, h, isOne, notOne]; linarith

theorem pick_lengths (z : Var → Rat) (S : List Rat) (off : Nat) :
    (pickL isOne z S off).length + (pickL notOne z S off).length = S.length := by
  induction S generalizing off with
  | nil => simp [pickL]
  | cons a r ih =>
    have := ih (off + 1)
    by_cases h : z off = 1
    · simp [pickL, h, isOne, notOne]; omega
    · simp [pickL, h, isOne, notOne]; omega

/-- **T10.1 (NumberPartitioning, QUSO).** -/
theorem np_toQuso_eval (p : NP) (A : Rat) (L : Poly) (z : Var → Rat) (hz : IsSpin z)
    (h : p.toQuso A = .ok L) : eval z L = A * (dotFrom z p.S 0) ^ 2 := by
  have hs : SqOK (squash .qusom) z := sqOK_spin rfl hz
  simp only [NP.toQuso, bind_ok_iff] at h
  obtain ⟨L0, h0, c, hc, AL, hAL, c2, hc2, hL⟩ := h
  have e0 := eval_construct hs h0
  have ec := eval_construct hs hc
  have eAL := eval_imulC z (wf_construct (squash_idem .qusom) hc) hAL
  have ec2 := eval_construct hs hc2
  have eL := eval_imulD hs hL
  rw [eL, ec2, eAL, ec, e0, eval_linOps]; ring

/-- **T10.1 (NumberPartitioning, QUBO through `Conversions.to_qubo`).** -/
theorem np_toQubo_eval (p : NP) (A : Rat) (Q : Poly) (x : Var → Rat) (hx : IsBool x)
    (h : p.toQubo A = .ok Q) : eval x Q = A * (dotFrom (b2s x) p.S 0) ^ 2 := by
  simp only [NP.toQubo, bind_ok_iff] at h
  obtain ⟨L, hL, hQ⟩ := h
  rw [eval_qusoToQubo hx hQ, np_toQuso_eval p A L _ (isSpin_b2s hx) hL]

end Qv.Prob
