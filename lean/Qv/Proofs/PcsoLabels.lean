import Qv.Proofs.LogicVarsMethods
import Qv.Model.Pcso
import Mathlib.Tactic.SplitIfs
/-!
# Label range of the PCBO comparison constraints (used by C03; namespace `Qv.Pcso`)

A purely syntactic fact about `Qv.addConstraint` (all six relations, every branch): the ancilla counter never
decreases, and for **every** label predicate `S`: if the labels of the old terms and of `P` satisfy `S` and the
ancillas `ANC + k`, `s.anc ≤ k < s'.anc`, drawn by the call satisfy `S`, then all labels of the new terms satisfy `S`.
(Take `S i := i occurs in the old terms ∨ i occurs in P ∨ ANC + s.anc ≤ i < ANC + s'.anc`.)
-/
namespace Qv.Pcso
open Qv Qv.Logic

/-! ### frame lemmas: what the small state updates do to `terms` and `anc` -/

@[simp] theorem warn_anc (s : St) (sup : Bool) (w : String) : (s.warn sup w).anc = s.anc := by
  unfold St.warn; split <;> rfl
@[simp] theorem warn_terms' (s : St) (sup : Bool) (w : String) : (s.warn sup w).terms = s.terms := by
  unfold St.warn; split <;> rfl
@[simp] theorem tag_anc (s : St) (t : String) : (s.tag t).anc = s.anc := rfl
@[simp] theorem tag_terms' (s : St) (t : String) : (s.tag t).terms = s.terms := rfl
@[simp] theorem plus_anc (s : St) (p : Poly) : (s.plus p).anc = s.anc := rfl
@[simp] theorem plus_terms' (s : St) (p : Poly) : (s.plus p).terms = iaddB s.terms p := rfl
@[simp] theorem minus_anc (s : St) (p : Poly) : (s.minus p).anc = s.anc := rfl
@[simp] theorem append_anc (s : St) (r : Rel) (p : Poly) : (s.append r p).anc = s.anc := rfl
@[simp] theorem append_terms' (s : St) (r : Rel) (p : Poly) : (s.append r p).terms = s.terms := rfl
@[simp] theorem pop_anc (s : St) (r : Rel) : (s.pop r).anc = s.anc := rfl
@[simp] theorem pop_terms (s : St) (r : Rel) : (s.pop r).terms = s.terms := rfl
@[simp] theorem nextAnc_anc (s : St) : s.nextAnc.1.anc = s.anc + 1 := rfl
@[simp] theorem nextAnc_terms (s : St) : s.nextAnc.1.terms = s.terms := rfl
@[simp] theorem nextAnc_label (s : St) : s.nextAnc.2 = ANC + s.anc := rfl

section
variable {S : Var → Prop}

theorem keyIn_single {i : Var} (h : S i) : KeyIn S [i] := fun j hj => by
  simp only [List.mem_singleton] at hj; subst hj; exact h

theorem varsIn_addConstB {p : Poly} (h : VarsIn S p) (c : Rat) : VarsIn S (addConstB p c) :=
  varsIn_addTermB h keyIn_nil c

theorem varsIn_monoPoly {k : Key} (h : KeyIn S k) : VarsIn S (monoPoly k) :=
  varsIn_addTermB varsIn_nil h 1

/-! ### the loops that draw ancillas -/

theorem unaryAncillas_anc (s : St) (n : Nat) : (unaryAncillas s n).1.anc = s.anc + n := by
  induction n with
  | zero => rfl
  | succ n ih =>
    simp only [unaryAncillas]
    generalize hr : unaryAncillas s n = r at ih
    obtain ⟨s1, ancs⟩ := r
    simp only [nextAnc_anc] at ih ⊢
    omega

theorem unaryAncillas_terms (s : St) (n : Nat) : (unaryAncillas s n).1.terms = s.terms := by
  induction n with
  | zero => rfl
  | succ n ih =>
    simp only [unaryAncillas]
    generalize hr : unaryAncillas s n = r at ih
    obtain ⟨s1, ancs⟩ := r
    simpa using ih

theorem unaryAncillas_vars (s : St) (n : Nat) (hS : ∀ k, s.anc ≤ k → k < s.anc + n → S (ANC + k)) :
    VarsIn S (unaryAncillas s n).2 := by
  induction n with
  | zero => exact varsIn_nil
  | succ n ih =>
    have ha := unaryAncillas_anc s n
    have ih' := ih (fun k h1 h2 => hS k h1 (by omega))
    simp only [unaryAncillas]
    generalize hr : unaryAncillas s n = r at ha ih'
    obtain ⟨s1, ancs⟩ := r
    simp only [] at ha ih' ⊢
    refine varsIn_addTermB ih' (keyIn_single ?_) 1
    rw [nextAnc_label, ha]
    exact hS _ (by omega) (by omega)

theorem slackLoop_anc (lt : Bool) (s : St) (P : Poly) (hi : Rat) (i n : Nat) :
    (slackLoop lt s P hi i n).1.anc = s.anc + n := by
  induction n generalizing s P hi i with
  | zero => rfl
  | succ n ih => simp only [slackLoop]; rw [ih]; simp only [nextAnc_anc]; omega

theorem slackLoop_terms (lt : Bool) (s : St) (P : Poly) (hi : Rat) (i n : Nat) :
    (slackLoop lt s P hi i n).1.terms = s.terms := by
  induction n generalizing s P hi i with
  | zero => rfl
  | succ n ih => simp only [slackLoop]; rw [ih]; rfl

theorem slackLoop_vars (lt : Bool) (s : St) (P : Poly) (hi : Rat) (i n : Nat) (hP : VarsIn S P)
    (hS : ∀ k, s.anc ≤ k → k < s.anc + n → S (ANC + k)) : VarsIn S (slackLoop lt s P hi i n).2.1 := by
  induction n generalizing s P hi i with
  | zero => exact hP
  | succ n ih =>
    simp only [slackLoop]
    refine ih _ _ _ _ (varsIn_addTermB hP (keyIn_single ?_) _) (fun k h1 h2 => hS k ?_ ?_)
    · rw [nextAnc_label]; exact hS _ (Nat.le_refl _) (by omega)
    · simp only [nextAnc_anc] at h1; omega
    · simp only [nextAnc_anc] at h2; omega

theorem neLoop_anc (lt : Bool) (sign : Poly) (s : St) (P : Poly) (lo hi : Rat) (i n : Nat) :
    (neLoop lt sign s P lo hi i n).1.anc = s.anc + n := by
  induction n generalizing s P lo hi i with
  | zero => rfl
  | succ n ih => simp only [neLoop]; rw [ih]; simp only [nextAnc_anc]; omega

theorem neLoop_terms (lt : Bool) (sign : Poly) (s : St) (P : Poly) (lo hi : Rat) (i n : Nat) :
    (neLoop lt sign s P lo hi i n).1.terms = s.terms := by
  induction n generalizing s P lo hi i with
  | zero => rfl
  | succ n ih => simp only [neLoop]; rw [ih]; rfl

theorem neLoop_vars (lt : Bool) (sign : Poly) (s : St) (P : Poly) (lo hi : Rat) (i n : Nat) (hP : VarsIn S P)
    (hsign : VarsIn S sign) (hS : ∀ k, s.anc ≤ k → k < s.anc + n → S (ANC + k)) :
    VarsIn S (neLoop lt sign s P lo hi i n).2.1 := by
  induction n generalizing s P lo hi i with
  | zero => exact hP
  | succ n ih =>
    simp only [neLoop]
    refine ih _ _ _ _ _ (varsIn_iaddB hP (varsIn_mulB (varsIn_scaleB _ hsign) (varsIn_monoPoly (keyIn_single ?_))))
      (fun k h1 h2 => hS k ?_ ?_)
    · rw [nextAnc_label]; exact hS _ (Nat.le_refl _) (by omega)
    · simp only [nextAnc_anc] at h1; omega
    · simp only [nextAnc_anc] at h2; omega

end

/-! ### `add_constraint_eq_zero` -/

theorem addEqZero_anc (s : St) (P : Poly) (lam : Rat) (b : Option Rat × Option Rat) (sup : Bool) :
    (addEqZero s P lam b sup).anc = s.anc := (addEqZero_frame s P lam b sup).2

/-! ### `_special_constraints_le_zero` -/

theorem specialLe_anc {s s' : St} {P : Poly} {lam : Rat} {lt : Bool} {bnd : Rat × Rat}
    (h : specialLe s P lam lt bnd = some s') : s.anc ≤ s'.anc := by
  simp only [specialLe] at h
  split_ifs at h
  · injection h with h; subst h; exact Nat.le_refl _
  · have ha := unaryAncillas_anc s (numBits (-offsetOf P) false)
    generalize hr : unaryAncillas s (numBits (-offsetOf P) false) = r at h ha
    obtain ⟨s1, ancs⟩ := r
    simp only [] at h ha
    injection h with h; subst h
    simp only [tag_anc, plus_anc, ha]; omega
  · split at h
    · injection h with h; subst h; exact Nat.le_refl _
    · cases h
  · split at h
    · injection h with h; subst h; exact Nat.le_refl _
    · cases h

theorem specialLe_vars {S : Var → Prop} {s s' : St} {P : Poly} {lam : Rat} {lt : Bool} {bnd : Rat × Rat}
    (h : specialLe s P lam lt bnd = some s') (hs : VarsIn S s.terms) (hP : VarsIn S P)
    (hS : ∀ k, s.anc ≤ k → k < s'.anc → S (ANC + k)) : VarsIn S s'.terms := by
  have hPwo : VarsIn S (isubB P (addConstB [] (offsetOf P))) := varsIn_isubB hP (varsIn_addConstB varsIn_nil _)
  simp only [specialLe] at h
  split_ifs at h
  · injection h with h; subst h
    exact varsIn_iaddB hs (varsIn_scaleB _ (varsIn_mulB (varsIn_scaleB _ hP) hPwo))
  · have ha := unaryAncillas_anc s (numBits (-offsetOf P) false)
    have ht := unaryAncillas_terms s (numBits (-offsetOf P) false)
    have hv := unaryAncillas_vars (S := S) s (numBits (-offsetOf P) false)
    generalize hr : unaryAncillas s (numBits (-offsetOf P) false) = r at h ha ht hv
    obtain ⟨s1, ancs⟩ := r
    simp only [] at h ha ht hv
    injection h with h; subst h
    simp only [tag_anc, plus_anc, ha] at hS
    have hd := varsIn_isubB hPwo (hv hS)
    simp only [tag_terms', plus_terms', ht]
    exact varsIn_iaddB hs (varsIn_mulB (varsIn_scaleB _ hd) hd)
  · split at h
    · rename_i k0 v0 k1 v1 heq
      injection h with h; subst h
      have h0 : KeyIn S k0 := hPwo (k0, v0) (by rw [heq]; simp)
      have h1 : KeyIn S k1 := hPwo (k1, v1) (by rw [heq]; simp)
      have hx := varsIn_monoPoly h0
      have hy := varsIn_monoPoly h1
      simp only [tag_terms', plus_terms']
      exact varsIn_iaddB hs (varsIn_scaleB _ (varsIn_isubB (varsIn_addConstB varsIn_nil _)
        (varsIn_iaddB hx (varsIn_mulB hy (varsIn_isubB (varsIn_addConstB varsIn_nil _) hx)))))
    · cases h
  · split at h
    · rename_i kx vx ky vy hfx hfy
      injection h with h; subst h
      have h0 : KeyIn S kx := hP (kx, vx) (List.mem_of_find?_eq_some hfx)
      have h1 : KeyIn S ky := hP (ky, vy) (List.mem_of_find?_eq_some hfy)
      simp only [tag_terms', plus_terms']
      exact varsIn_iaddB hs (varsIn_mulB (varsIn_scaleB _ (varsIn_monoPoly h0))
        (varsIn_isubB (varsIn_addConstB varsIn_nil _) (varsIn_monoPoly h1)))
    · cases h

/-! ### `add_constraint_le_zero` -/

theorem addLeZero_anc (s : St) (P : Poly) (lam : Rat) (lt : Bool) (b : Option Rat × Option Rat) (sup : Bool) :
    s.anc ≤ (addLeZero s P lam lt b sup).anc := by
  unfold addLeZero
  simp only []
  by_cases hl : lam = 0
  · simp [hl]
  · simp only [hl, if_false]
    generalize getBounds P b = bd
    obtain ⟨lo, hi⟩ := bd
    simp only []
    cases hsp : specialLe (s.append .le P) P lam lt (lo, hi) with
    | some s' =>
      simp only []
      have := specialLe_anc hsp
      simpa using this
    | none =>
      simp only []
      by_cases h1 : lo > 0
      · simp [h1]
      · simp only [h1, if_false]
        by_cases h2 : hi ≤ 0
        · simp [h2]
        · simp only [h2, if_false]
          by_cases hlo : lo = 0
          · simp [hlo, addEqZero_anc]
          · simp only [ne_eq, hlo, not_false_eq_true, if_true]
            have ha := slackLoop_anc lt (s.append .le P) P hi 0 (numBits (-lo) lt)
            generalize slackLoop lt (s.append .le P) P hi 0 (numBits (-lo) lt) = r at ha
            obtain ⟨s1, P', hi'⟩ := r
            simp only [tag_anc, pop_anc, addEqZero_anc, append_anc] at ha ⊢
            omega

theorem addLeZero_vars {S : Var → Prop} (s : St) (P : Poly) (lam : Rat) (lt : Bool) (b : Option Rat × Option Rat)
    (sup : Bool) (hs : VarsIn S s.terms) (hP : VarsIn S P)
    (hS : ∀ k, s.anc ≤ k → k < (addLeZero s P lam lt b sup).anc → S (ANC + k)) :
    VarsIn S (addLeZero s P lam lt b sup).terms := by
  unfold addLeZero at hS ⊢
  simp only [] at hS ⊢
  by_cases hl : lam = 0
  · simp only [hl, if_true]; exact hs
  · simp only [hl, if_false] at hS ⊢
    generalize getBounds P b = bd at hS ⊢
    obtain ⟨lo, hi⟩ := bd
    simp only [] at hS ⊢
    cases hsp : specialLe (s.append .le P) P lam lt (lo, hi) with
    | some s' =>
      simp only [hsp] at hS ⊢
      exact specialLe_vars hsp hs hP hS
    | none =>
      simp only [hsp] at hS ⊢
      by_cases h1 : lo > 0
      · simp only [h1, if_true, tag_terms', plus_terms', warn_terms', append_terms']
        exact varsIn_iaddB hs (varsIn_scaleB _ hP)
      · simp only [h1, if_false] at hS ⊢
        by_cases h2 : hi ≤ 0
        · simp only [h2, if_true, tag_terms', warn_terms', append_terms']; exact hs
        · simp only [h2, if_false] at hS ⊢
          by_cases hlo : lo = 0
          · simp only [hlo, ne_eq, not_true_eq_false, if_false, tag_terms', pop_terms]
            exact addEqZero_vars (s := s.append .le P) hs hP _ _ _
          · simp only [ne_eq, hlo, not_false_eq_true, if_true] at hS ⊢
            have ha := slackLoop_anc lt (s.append .le P) P hi 0 (numBits (-lo) lt)
            have ht := slackLoop_terms lt (s.append .le P) P hi 0 (numBits (-lo) lt)
            have hv := slackLoop_vars (S := S) lt (s.append .le P) P hi 0 (numBits (-lo) lt) hP
            generalize slackLoop lt (s.append .le P) P hi 0 (numBits (-lo) lt) = r at ha ht hv hS ⊢
            obtain ⟨s1, P', hi'⟩ := r
            simp only [tag_anc, pop_anc, addEqZero_anc, tag_terms', pop_terms, append_anc, append_terms']
              at ha ht hv hS ⊢
            refine addEqZero_vars (by rw [ht]; exact hs) (hv (fun k h1 h2 => hS k h1 (by omega))) _ _ _

/-! ### `add_constraint_lt_zero`, `gt`, `ge` -/

theorem addLtZero_anc (s : St) (P : Poly) (lam : Rat) (lt : Bool) (b : Option Rat × Option Rat) (sup : Bool) :
    s.anc ≤ (addLtZero s P lam lt b sup).anc := by
  unfold addLtZero
  simp only []
  by_cases hl : lam = 0
  · simp [hl]
  · simp only [hl, if_false]
    generalize getBounds P b = bd
    obtain ⟨lo, hi⟩ := bd
    simp only []
    by_cases h1 : lo ≥ 0
    · simp [h1]
    · simp only [h1, if_false]
      by_cases h2 : hi < 0
      · simp [h2]
      · simp only [h2, if_false, tag_anc, pop_anc]
        have := addLeZero_anc (s.append .lt P) (addConstB P 1) lam lt (some (lo + 1), some (hi + 1)) true
        simpa using this

theorem addLtZero_vars {S : Var → Prop} (s : St) (P : Poly) (lam : Rat) (lt : Bool) (b : Option Rat × Option Rat)
    (sup : Bool) (hs : VarsIn S s.terms) (hP : VarsIn S P)
    (hS : ∀ k, s.anc ≤ k → k < (addLtZero s P lam lt b sup).anc → S (ANC + k)) :
    VarsIn S (addLtZero s P lam lt b sup).terms := by
  unfold addLtZero at hS ⊢
  simp only [] at hS ⊢
  by_cases hl : lam = 0
  · simp only [hl, if_true]; exact hs
  · simp only [hl, if_false] at hS ⊢
    generalize getBounds P b = bd at hS ⊢
    obtain ⟨lo, hi⟩ := bd
    simp only [] at hS ⊢
    by_cases h1 : lo ≥ 0
    · simp only [h1, if_true, tag_terms', plus_terms', warn_terms', append_terms']
      exact varsIn_iaddB hs (varsIn_scaleB _ hP)
    · simp only [h1, if_false] at hS ⊢
      by_cases h2 : hi < 0
      · simp only [h2, if_true, tag_terms', warn_terms', append_terms']; exact hs
      · simp only [h2, if_false, tag_anc, pop_anc, tag_terms', pop_terms] at hS ⊢
        exact addLeZero_vars (s.append .lt P) _ _ _ _ _ hs (varsIn_addConstB hP 1) hS

theorem addGtZero_anc (s : St) (P : Poly) (lam : Rat) (lt : Bool) (b : Option Rat × Option Rat) (sup : Bool) :
    s.anc ≤ (addGtZero s P lam lt b sup).anc := by
  unfold addGtZero
  simp only []
  by_cases hl : lam = 0
  · simp [hl]
  · simp only [hl, if_false, pop_anc]
    have := addLtZero_anc (s.append .gt P) (scaleB (-1) P) lam lt
      (some (-(getBounds P b).2), some (-(getBounds P b).1)) sup
    simpa using this

theorem addGtZero_vars {S : Var → Prop} (s : St) (P : Poly) (lam : Rat) (lt : Bool) (b : Option Rat × Option Rat)
    (sup : Bool) (hs : VarsIn S s.terms) (hP : VarsIn S P)
    (hS : ∀ k, s.anc ≤ k → k < (addGtZero s P lam lt b sup).anc → S (ANC + k)) :
    VarsIn S (addGtZero s P lam lt b sup).terms := by
  unfold addGtZero at hS ⊢
  simp only [] at hS ⊢
  by_cases hl : lam = 0
  · simp only [hl, if_true]; exact hs
  · simp only [hl, if_false, pop_anc, pop_terms] at hS ⊢
    exact addLtZero_vars (s.append .gt P) _ _ _ _ _ hs (varsIn_scaleB _ hP) hS

theorem addGeZero_anc (s : St) (P : Poly) (lam : Rat) (lt : Bool) (b : Option Rat × Option Rat) (sup : Bool) :
    s.anc ≤ (addGeZero s P lam lt b sup).anc := by
  unfold addGeZero
  simp only []
  by_cases hl : lam = 0
  · simp [hl]
  · simp only [hl, if_false, pop_anc]
    have := addLeZero_anc (s.append .ge P) (scaleB (-1) P) lam lt
      (some (-(getBounds P b).2), some (-(getBounds P b).1)) sup
    simpa using this

theorem addGeZero_vars {S : Var → Prop} (s : St) (P : Poly) (lam : Rat) (lt : Bool) (b : Option Rat × Option Rat)
    (sup : Bool) (hs : VarsIn S s.terms) (hP : VarsIn S P)
    (hS : ∀ k, s.anc ≤ k → k < (addGeZero s P lam lt b sup).anc → S (ANC + k)) :
    VarsIn S (addGeZero s P lam lt b sup).terms := by
  unfold addGeZero at hS ⊢
  simp only [] at hS ⊢
  by_cases hl : lam = 0
  · simp only [hl, if_true]; exact hs
  · simp only [hl, if_false, pop_anc, pop_terms] at hS ⊢
    exact addLeZero_vars (s.append .ge P) _ _ _ _ _ hs (varsIn_scaleB _ hP) hS

/-! ### `add_constraint_ne_zero` -/

theorem addNeZero_anc (s : St) (P : Poly) (lam : Rat) (lt : Bool) (b : Option Rat × Option Rat) (sup : Bool) :
    s.anc ≤ (addNeZero s P lam lt b sup).anc := by
  unfold addNeZero
  simp only []
  by_cases hl : lam = 0
  · simp [hl]
  · simp only [hl, if_false]
    generalize getBounds P b = bd
    obtain ⟨lo, hi⟩ := bd
    simp only []
    by_cases h0 : lo = 0 ∧ hi = 0
    · simp [h0]
    · simp only [h0, if_false]
      by_cases h1 : lo > 0
      · simp [h1]
      · simp only [h1, if_false]
        by_cases h2 : hi < 0
        · simp [h2]
        · simp only [h2, if_false]
          by_cases h3 : lo = 0
          · simp only [h3, if_true, tag_anc, pop_anc]
            have := addGtZero_anc (s.append .ne P) P lam true (some 0, some hi) sup
            simpa using this
          · simp only [h3, if_false]
            by_cases h4 : hi = 0
            · simp only [h4, if_true, tag_anc, pop_anc]
              have := addLtZero_anc (s.append .ne P) P lam true (some lo, some 0) sup
              simpa using this
            · simp only [h4, if_false]
              have ha := neLoop_anc lt (addConstB (addTermB [] [(s.append .ne P).nextAnc.2] 2) (-1))
                (s.append .ne P).nextAnc.1 (iaddB P (addConstB (addTermB [] [(s.append .ne P).nextAnc.2] 2) (-1)))
                (lo - 1) (hi + 1) 0 (numBits (hi + 1 - (lo - 1) - 1) lt)
              generalize neLoop lt (addConstB (addTermB [] [(s.append .ne P).nextAnc.2] 2) (-1))
                (s.append .ne P).nextAnc.1 (iaddB P (addConstB (addTermB [] [(s.append .ne P).nextAnc.2] 2) (-1)))
                (lo - 1) (hi + 1) 0 (numBits (hi + 1 - (lo - 1) - 1) lt) = r at ha
              obtain ⟨s2, P2, lo2, hi2⟩ := r
              simp only [tag_anc, pop_anc, addEqZero_anc, nextAnc_anc, append_anc] at ha ⊢
              omega

theorem addNeZero_vars {S : Var → Prop} (s : St) (P : Poly) (lam : Rat) (lt : Bool) (b : Option Rat × Option Rat)
    (sup : Bool) (hs : VarsIn S s.terms) (hP : VarsIn S P)
    (hS : ∀ k, s.anc ≤ k → k < (addNeZero s P lam lt b sup).anc → S (ANC + k)) :
    VarsIn S (addNeZero s P lam lt b sup).terms := by
  unfold addNeZero at hS ⊢
  simp only [] at hS ⊢
  by_cases hl : lam = 0
  · simp only [hl, if_true]; exact hs
  · simp only [hl, if_false] at hS ⊢
    generalize getBounds P b = bd at hS ⊢
    obtain ⟨lo, hi⟩ := bd
    simp only [] at hS ⊢
    by_cases h0 : lo = 0 ∧ hi = 0
    · simp only [h0, and_self, if_true, tag_terms', plus_terms', warn_terms', append_terms']
      exact varsIn_iaddB hs (varsIn_addConstB varsIn_nil _)
    · simp only [h0, if_false] at hS ⊢
      by_cases h1 : lo > 0
      · simp only [h1, if_true, tag_terms', warn_terms', append_terms']; exact hs
      · simp only [h1, if_false] at hS ⊢
        by_cases h2 : hi < 0
        · simp only [h2, if_true, tag_terms', warn_terms', append_terms']; exact hs
        · simp only [h2, if_false] at hS ⊢
          by_cases h3 : lo = 0
          · simp only [h3, if_true, tag_anc, pop_anc, tag_terms', pop_terms] at hS ⊢
            exact addGtZero_vars (s.append .ne P) _ _ _ _ _ hs hP hS
          · simp only [h3, if_false] at hS ⊢
            by_cases h4 : hi = 0
            · simp only [h4, if_true, tag_anc, pop_anc, tag_terms', pop_terms] at hS ⊢
              exact addLtZero_vars (s.append .ne P) _ _ _ _ _ hs hP hS
            · simp only [h4, if_false] at hS ⊢
              have ha := neLoop_anc lt (addConstB (addTermB [] [(s.append .ne P).nextAnc.2] 2) (-1))
                (s.append .ne P).nextAnc.1 (iaddB P (addConstB (addTermB [] [(s.append .ne P).nextAnc.2] 2) (-1)))
                (lo - 1) (hi + 1) 0 (numBits (hi + 1 - (lo - 1) - 1) lt)
              have ht := neLoop_terms lt (addConstB (addTermB [] [(s.append .ne P).nextAnc.2] 2) (-1))
                (s.append .ne P).nextAnc.1 (iaddB P (addConstB (addTermB [] [(s.append .ne P).nextAnc.2] 2) (-1)))
                (lo - 1) (hi + 1) 0 (numBits (hi + 1 - (lo - 1) - 1) lt)
              have hv := neLoop_vars (S := S) lt (addConstB (addTermB [] [(s.append .ne P).nextAnc.2] 2) (-1))
                (s.append .ne P).nextAnc.1 (iaddB P (addConstB (addTermB [] [(s.append .ne P).nextAnc.2] 2) (-1)))
                (lo - 1) (hi + 1) 0 (numBits (hi + 1 - (lo - 1) - 1) lt)
              generalize neLoop lt (addConstB (addTermB [] [(s.append .ne P).nextAnc.2] 2) (-1))
                (s.append .ne P).nextAnc.1 (iaddB P (addConstB (addTermB [] [(s.append .ne P).nextAnc.2] 2) (-1)))
                (lo - 1) (hi + 1) 0 (numBits (hi + 1 - (lo - 1) - 1) lt) = r at ha ht hv hS ⊢
              obtain ⟨s2, P2, lo2, hi2⟩ := r
              simp only [tag_anc, pop_anc, addEqZero_anc, nextAnc_anc, append_anc, tag_terms', pop_terms,
                nextAnc_terms, append_terms', nextAnc_label] at ha ht hv hS ⊢
              have hS0 : S (ANC + s.anc) := hS _ (Nat.le_refl _) (by omega)
              have hsign : VarsIn S (addConstB (addTermB [] [ANC + s.anc] 2) (-1)) :=
                varsIn_addConstB (varsIn_addTermB varsIn_nil (keyIn_single hS0) 2) (-1)
              refine addEqZero_vars (by rw [ht]; exact hs)
                (hv (varsIn_iaddB hP hsign) hsign (fun k h1 h2 => hS k (by omega) (by omega))) _ _ _

/-! ### the dispatcher: all six relations -/

/-- **the ancilla counter never decreases** -/
theorem addConstraint_anc (r : Rel) (s : St) (P : Poly) (lam : Rat) (lt : Bool) (b : Option Rat × Option Rat)
    (sup : Bool) : s.anc ≤ (Qv.addConstraint r s P lam lt b sup).anc := by
  cases r <;> simp only [Qv.addConstraint]
  · exact Nat.le_of_eq (addEqZero_anc s P lam b sup).symm
  · exact addNeZero_anc s P lam lt b sup
  · exact addLtZero_anc s P lam lt b sup
  · exact addLeZero_anc s P lam lt b sup
  · exact addGtZero_anc s P lam lt b sup
  · exact addGeZero_anc s P lam lt b sup

/-- **label range**: for every label predicate `S`, if the old terms' and `P`'s labels satisfy `S` and so do the
ancillas `ANC + k`, `s.anc ≤ k < s'.anc`, then every label of the new terms satisfies `S` -/
theorem addConstraint_vars {S : Var → Prop} (r : Rel) (s : St) (P : Poly) (lam : Rat) (lt : Bool)
    (b : Option Rat × Option Rat) (sup : Bool) (hs : VarsIn S s.terms) (hP : VarsIn S P)
    (hS : ∀ k, s.anc ≤ k → k < (Qv.addConstraint r s P lam lt b sup).anc → S (ANC + k)) :
    VarsIn S (Qv.addConstraint r s P lam lt b sup).terms := by
  cases r <;> simp only [Qv.addConstraint] at hS ⊢
  · exact addEqZero_vars hs hP _ _ _
  · exact addNeZero_vars s P lam lt b sup hs hP hS
  · exact addLtZero_vars s P lam lt b sup hs hP hS
  · exact addLeZero_vars s P lam lt b sup hs hP hS
  · exact addGtZero_vars s P lam lt b sup hs hP hS
  · exact addGeZero_vars s P lam lt b sup hs hP hS

end Qv.Pcso
