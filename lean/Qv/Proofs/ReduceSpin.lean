import Qv.Proofs.ReduceInv
import Mathlib.Tactic.FieldSimp
/-!
# C01: the boolean ↔ spin maps of the routes, the relabelling through `mapping`, the model's penalties
-/
namespace Qv.Reduce
open Qv

/-- boolean value of a spin: `1 ↦ 0`, `-1 ↦ 1` (`spin_to_boolean`) -/
def s2b (z : Var → Rat) : Var → Rat := fun i => (1 - z i) / 2
/-- spin value of a boolean: `0 ↦ 1`, `1 ↦ -1` (`boolean_to_spin`) -/
def b2s (x : Var → Rat) : Var → Rat := fun i => 1 - 2 * x i

theorem s2b_bool {z : Var → Rat} (hz : IsSpin z) : IsBool (s2b z) := by
  intro i; unfold s2b
  rcases hz i with h | h <;> simp [h]

theorem b2s_spin {x : Var → Rat} (hx : IsBool x) : IsSpin (b2s x) := by
  intro i; unfold b2s
  rcases hx i with h | h
  · simp [h]
  · right; rw [h]; norm_num

theorem s2b_b2s (x : Var → Rat) : s2b (b2s x) = x := by
  funext i; unfold s2b b2s; ring

theorem b2s_s2b (z : Var → Rat) : b2s (s2b z) = z := by
  funext i; unfold s2b b2s; ring

theorem eval_addTermS {z : Var → Rat} (hz : IsSpin z) (p : Poly) (k : Key) (v : Rat) :
    eval z (addTermS p k v) = eval z p + v * mon z k := by
  unfold addTermS
  simp only []
  rw [eval_set, mon_squashS hz]; ring

theorem eval_append (x : Var → Rat) (p q : Poly) : eval x (p ++ q) = eval x p + eval x q := by
  induction p with
  | nil => simp
  | cons kv r ih => obtain ⟨k, v⟩ := kv; simp only [List.cons_append, eval_cons, ih]; ring

/-- `Σ value·Π z_key` over `generate_new_key_value(k)` of `pubo_to_puso` is `Π (1 - z_i)/2` -/
theorem eval_genB2S (z : Var → Rat) (k : Key) : eval z (genB2S k) = mon (s2b z) k := by
  induction k with
  | nil => simp [genB2S]
  | cons i k ih =>
    have key : ∀ l : Poly, eval z (l.flatMap (fun kv => [(i :: kv.1, -kv.2 / 2), (kv.1, kv.2 / 2)]))
        = (1 - z i) / 2 * eval z l := by
      intro l
      induction l with
      | nil => simp
      | cons kv r ihl =>
        obtain ⟨k', v'⟩ := kv
        simp only [List.flatMap_cons, eval_append, ihl, eval_cons, eval_nil, mon_cons]; ring
    simp only [genB2S, key, ih, mon_cons, s2b]

/-- `Σ value·Π x_key` over `generate_new_key_value(k)` of `puso_to_pubo` is `Π (1 - 2 x_i)` -/
theorem eval_genS2B (x : Var → Rat) (k : Key) : eval x (genS2B k) = mon (b2s x) k := by
  induction k with
  | nil => simp [genS2B]
  | cons i k ih =>
    have key : ∀ l : Poly, eval x (l.flatMap (fun kv => [(i :: kv.1, -2 * kv.2), (kv.1, kv.2)]))
        = (1 - 2 * x i) * eval x l := by
      intro l
      induction l with
      | nil => simp
      | cons kv r ihl =>
        obtain ⟨k', v'⟩ := kv
        simp only [List.flatMap_cons, eval_append, ihl, eval_cons, eval_nil, mon_cons]; ring
    simp only [genS2B, key, ih, mon_cons, b2s]

theorem eval_foldAddS {z : Var → Rat} (hz : IsSpin z) (v : Rat) (l H : Poly) :
    eval z (l.foldl (fun H kv2 => addTermS H kv2.1 (kv2.2 * v)) H) = eval z H + v * eval z l := by
  induction l generalizing H with
  | nil => simp
  | cons kv r ih =>
    obtain ⟨k, c⟩ := kv
    simp only [List.foldl_cons, eval_cons]
    rw [ih, eval_addTermS hz]; ring

theorem eval_foldAddB {x : Var → Rat} (hx : IsBool x) (v : Rat) (l P : Poly) :
    eval x (l.foldl (fun P kv2 => addTermB P kv2.1 (kv2.2 * v)) P) = eval x P + v * eval x l := by
  induction l generalizing P with
  | nil => simp
  | cons kv r ih =>
    obtain ⟨k, c⟩ := kv
    simp only [List.foldl_cons, eval_cons]
    rw [ih, eval_addTermB hx]; ring

/-- `pubo_to_puso` preserves the value under `0 ↔ 1, 1 ↔ -1` -/
theorem eval_puboToPuso {z : Var → Rat} (hz : IsSpin z) (P : Poly) :
    eval z (puboToPuso P) = eval (s2b z) P := by
  unfold puboToPuso
  have : ∀ H : Poly, eval z (P.foldl (fun H kv => (genB2S kv.1).foldl
      (fun H kv2 => addTermS H kv2.1 (kv2.2 * kv.2)) H) H) = eval z H + eval (s2b z) P := by
    induction P with
    | nil => intro H; simp
    | cons kv r ih =>
      intro H
      obtain ⟨k, v⟩ := kv
      simp only [List.foldl_cons, eval_cons]
      rw [ih, eval_foldAddS hz, eval_genB2S]; ring
  rw [this]; simp

/-- `puso_to_pubo` preserves the value under `0 ↔ 1, 1 ↔ -1` -/
theorem eval_pusoToPubo {x : Var → Rat} (hx : IsBool x) (H : Poly) :
    eval x (pusoToPubo H) = eval (b2s x) H := by
  unfold pusoToPubo
  have : ∀ P : Poly, eval x (H.foldl (fun P kv => (genS2B kv.1).foldl
      (fun P kv2 => addTermB P kv2.1 (kv2.2 * kv.2)) P) P) = eval x P + eval (b2s x) H := by
    induction H with
    | nil => intro P; simp
    | cons kv r ih =>
      intro P
      obtain ⟨k, v⟩ := kv
      simp only [List.foldl_cons, eval_cons]
      rw [ih, eval_foldAddB hx, eval_genS2B]; ring
  rw [this]; simp

theorem q2sTerm_eval {z : Var → Rat} (hz : IsSpin z) {L L' : Poly} {k : Key} {v : Rat}
    (h : q2sTerm L k v = .ok L') : eval z L' = eval z L + v * mon (s2b z) k := by
  unfold q2sTerm at h
  split at h
  · injection h with h; subst h; rw [eval_addTermS hz]; simp
  · injection h with h; subst h
    rw [eval_addTermS hz, eval_addTermS hz]; simp only [mon_cons, mon_nil, s2b]; ring
  · injection h with h; subst h
    rw [eval_addTermS hz, eval_addTermS hz, eval_addTermS hz, eval_addTermS hz]
    simp only [mon_cons, mon_nil, s2b]; ring
  · cases h

/-- `qubo_to_quso` preserves the value under `0 ↔ 1, 1 ↔ -1` -/
theorem eval_quboToQuso {z : Var → Rat} (hz : IsSpin z) {Q L0 L : Poly}
    (h : quboToQuso Q L0 = .ok L) : eval z L = eval z L0 + eval (s2b z) Q := by
  induction Q generalizing L0 with
  | nil => simp only [quboToQuso] at h; injection h with h; subst h; simp
  | cons kv r ih =>
    obtain ⟨k, v⟩ := kv
    simp only [quboToQuso] at h
    split at h
    · cases h
    · rename_i L1 h1
      rw [ih h, q2sTerm_eval hz h1, eval_cons]; ring

/-- `qubo_to_quso` does not raise on a matrix of degree ≤ 2 -/
theorem quboToQuso_ok {Q : Poly} (hQ : ∀ kv ∈ Q, kv.1.length ≤ 2) (L0 : Poly) :
    ∃ L, quboToQuso Q L0 = .ok L := by
  induction Q generalizing L0 with
  | nil => exact ⟨L0, rfl⟩
  | cons kv r ih =>
    obtain ⟨k, v⟩ := kv
    have hk : k.length ≤ 2 := hQ (k, v) (List.mem_cons_self)
    have hr : ∀ kv ∈ r, kv.1.length ≤ 2 := fun kv h => hQ kv (List.mem_cons_of_mem _ h)
    simp only [quboToQuso]
    match k, hk with
    | [], _ => exact ih hr _
    | [i], _ => exact ih hr _
    | [i, j], _ => exact ih hr _
    | _ :: _ :: _ :: _, h => simp at h

/-! ### relabelling through `mapping` (lines 234-236) -/

/-- `self._mapping[i]` as a total function (unknown labels raise in the model; the value here is irrelevant) -/
def mfun (m : Mapping) (i : Var) : Var := (lookup m i).getD 0

theorem mon_insertS (s : Var → Rat) (a : Var) (k : Key) : mon s (insertS a k) = s a * mon s k := by
  induction k with
  | nil => rfl
  | cons b bs ih =>
    unfold insertS
    split
    · rfl
    · simp only [mon_cons, ih]; ring

theorem mon_isort (s : Var → Rat) (k : Key) : mon s (isort k) = mon s k := by
  induction k with
  | nil => rfl
  | cons a k ih =>
    show mon s (insertS a (isort k)) = _
    rw [mon_insertS, ih]; rfl

theorem mon_mapLabels {m : Mapping} {k l : Key} (s : Var → Rat) (h : mapLabels m k = .ok l) :
    mon s l = mon (fun i => s (mfun m i)) k := by
  induction k generalizing l with
  | nil => simp only [mapLabels] at h; injection h with h; subst h; rfl
  | cons i r ih =>
    simp only [mapLabels] at h
    split at h
    · cases h
    · rename_i j hj
      split at h
      · cases h
      · rename_i l' hl'
        injection h with h; subst h
        simp only [mon_cons, ih hl', mfun, hj, Option.getD_some]

theorem mon_mapKey {m : Mapping} {k key : Key} (s : Var → Rat) (h : mapKey m k = .ok key) :
    mon s key = mon (fun i => s (mfun m i)) k := by
  unfold mapKey at h
  split at h
  · cases h
  · rename_i l hl
    injection h with h; subst h
    rw [mon_isort, mon_mapLabels s hl]

/-- `mapped_self` is the model relabelled: its value at `s` is the model's value at `s ∘ mapping`, i.e. at
the assignment `convert_solution(s)` of the original labels -/
theorem eval_mapSelf {m : Mapping} {items acc mapped : Poly} {f f' : Freq} (s : Var → Rat)
    (h : mapSelf m items acc f = .ok (mapped, f')) :
    eval s mapped = eval s acc + eval (fun i => s (mfun m i)) items := by
  induction items generalizing acc f with
  | nil => simp only [mapSelf] at h; injection h with h; injection h with h1 _; subst h1; simp
  | cons kv r ih =>
    obtain ⟨k, v⟩ := kv
    simp only [mapSelf] at h
    split at h
    · cases h
    · rename_i key hk
      rw [ih h, eval_put, eval_cons, mon_mapKey s hk]; ring

/-! ### the penalties of the implementation model's certificate -/

theorem reduceTerms_lam (deg : Nat) (pairs : List Key) (lam : Lam) (terms : Poly) (st : ISt)
    (cs : List TermCert) (hcs : ∀ c ∈ cs, c.lam = lam.app c.v) :
    ∀ c ∈ (reduceTerms deg pairs lam terms st cs).2, c.lam = lam.app c.v := by
  induction terms generalizing st cs with
  | nil => intro c hc; simp only [reduceTerms, List.mem_reverse] at hc; exact hcs c hc
  | cons kv r ih =>
    obtain ⟨key, v⟩ := kv
    simp only [reduceTerms]
    apply ih
    intro c hc
    rcases List.mem_cons.mp hc with rfl | hc
    · rfl
    · exact hcs c hc

theorem reduceCore_lam {terms : Poly} {m : Mapping} {n d : Nat} {lam : Lam}
    {pairs : List Key} {o : Out} (h : reduceCore terms m n d lam pairs = .ok o) :
    ∀ c ∈ o.certs, c.lam = lam.app c.v := by
  unfold reduceCore at h
  split at h
  · cases h
  · injection h with h; subst h
    exact reduceTerms_lam _ _ _ _ _ _ (fun c hc => by cases hc)

theorem reduceDegree_core {terms : Poly} {m : Mapping} {n : Nat} {deg : Option Nat} {lam : Lam}
    {pairs : List Key} {o : Out} (h : reduceDegree terms m n deg lam pairs = .ok o) :
    ∃ d, reduceCore terms m n d lam pairs = .ok o ∧ (∀ d', deg = some d' → d = d' ∧ 2 ≤ d) := by
  unfold reduceDegree at h
  split at h
  · rename_i d
    split at h
    · cases h
    · rename_i hd
      exact ⟨d, h, fun d' hd' => by injection hd' with hd'; subst hd'; exact ⟨rfl, Nat.le_of_not_lt hd⟩⟩
  · exact ⟨degree terms, h, fun d' hd' => by cases hd'⟩

/-- every penalty value in the implementation model's certificate is `lam(v)` -/
theorem reduceDegree_lam {terms : Poly} {m : Mapping} {n : Nat} {deg : Option Nat} {lam : Lam}
    {pairs : List Key} {o : Out} (h : reduceDegree terms m n deg lam pairs = .ok o) :
    ∀ c ∈ o.certs, c.lam = lam.app c.v := by
  obtain ⟨d, hc, _⟩ := reduceDegree_core h
  exact reduceCore_lam hc

theorem reduceDegreeC_core {terms : Poly} {m : Mapping} {n cdeg : Nat} {deg : Option Nat} {lam : Lam}
    {pairs : List Key} {o : Out} (h : reduceDegreeC terms m n cdeg deg lam pairs = .ok o) :
    ∃ d, reduceCore terms m n d lam pairs = .ok o ∧ (∀ d', deg = some d' → d = d' ∧ 2 ≤ d) ∧
      (deg = none → d = cdeg) := by
  unfold reduceDegreeC at h
  split at h
  · rename_i d
    split at h
    · cases h
    · rename_i hd
      exact ⟨d, h, fun d' hd' => (by injection hd' with hd'; subst hd'; exact ⟨rfl, Nat.le_of_not_lt hd⟩),
        fun hn => (by cases hn)⟩
  · exact ⟨cdeg, h, fun d' hd' => (by cases hd'), fun _ => rfl⟩

theorem reduceDegreeC_lam {terms : Poly} {m : Mapping} {n cdeg : Nat} {deg : Option Nat} {lam : Lam}
    {pairs : List Key} {o : Out} (h : reduceDegreeC terms m n cdeg deg lam pairs = .ok o) :
    ∀ c ∈ o.certs, c.lam = lam.app c.v := by
  obtain ⟨d, hc, _⟩ := reduceDegreeC_core h
  exact reduceCore_lam hc

/-- the refreshed-state form is the general one at the exact degree -/
theorem reduceDegree_eq (terms : Poly) (m : Mapping) (n : Nat) (deg : Option Nat) (lam : Lam) (pairs : List Key) :
    reduceDegree terms m n deg lam pairs = reduceDegreeC terms m n (degree terms) deg lam pairs := by
  cases deg <;> rfl

end Qv.Reduce
