import Qv.Proofs.ProblemsNP
import Qv.Proofs.LogicEqZero
/-!
# BILP: energy identity and ground-state optimality (`A > B Σ|c|`, integer data)
-/
namespace Qv.Prob
open Qv

/-- `Σ_j (b_j - S_j · x)^2` -/
def sqRes (x : Var → Rat) : List (List Rat) → List Rat → Rat
  | row :: rs, bj :: bs => (bj - dotFrom x row 0) ^ 2 + sqRes x rs bs
  | _, _ => 0

/-- `S x = b` (row by row, as far as both lists go) -/
def Feasible (x : Var → Rat) : List (List Rat) → List Rat → Prop
  | row :: rs, bj :: bs => dotFrom x row 0 = bj ∧ Feasible x rs bs
  | _, _ => True

theorem bilp_rowStep_eval {A : Rat} {x : Var → Rat} (hx : IsBool x) {Q Q' : Poly} {row : List Rat} {bj : Rat}
    (h : BILP.rowStep A Q row bj = .ok Q') : eval x Q' = eval x Q + A * (bj - dotFrom x row 0) ^ 2 := by
  have hs : SqOK (squash .qubom) x := sqOK_bool rfl hx
  simp only [BILP.rowStep, bind_ok_iff] at h
  obtain ⟨T0, h0, T1, h1, cp, hcp, AT, hAT, T2, h2, hQ⟩ := h
  have e0 := eval_addTerm hs h0
  have e1 := eval_build hs h1
  have ecp := eval_construct hs hcp
  have eAT := eval_imulC x (wf_construct (squash_idem .qubom) hcp) hAT
  have e2 := eval_imulD hs h2
  have eQ := eval_iaddD hs hQ
  rw [eQ, e2, eAT, ecp, e1, e0, eval_linOps, dotFrom_map_neg]
  simp only [eval_nil, mon_nil]; ring

theorem bilp_rows_eval {A : Rat} {x : Var → Rat} (hx : IsBool x) (S : List (List Rat)) (b : List Rat)
    (Q Q' : Poly) (h : BILP.rows A Q S b = .ok Q') : eval x Q' = eval x Q + A * sqRes x S b := by
  induction S generalizing b Q with
  | nil => cases b <;> (simp [BILP.rows] at h; subst h; simp [sqRes])
  | cons row rs ih =>
    cases b with
    | nil => simp [BILP.rows] at h; subst h; simp [sqRes]
    | cons bj bs =>
      simp only [BILP.rows, bind_ok_iff] at h
      obtain ⟨Q1, h1, h2⟩ := h
      rw [ih bs Q1 h2, bilp_rowStep_eval hx h1]; simp only [sqRes]; ring

/-- the weight `A` actually used: the argument, or `B * N` for `None` -/
def BILP.weightA (p : BILP) (A : Option Rat) (B : Rat) : Rat :=
  match A with | some a => a | none => B * (p.N : Rat)

/-- **T10.1 (BILP).** `⟦to_qubo(A, B)⟧x = B c·x + A Σ_j (b_j - S_j·x)^2` -/
theorem bilp_toQubo_eval' (p : BILP) (A : Option Rat) (B : Rat) (Q : Poly) (x : Var → Rat) (hx : IsBool x)
    (h : p.toQubo A B = .ok Q) :
    eval x Q = B * dotFrom x p.c 0 + p.weightA A B * sqRes x p.S p.b := by
  cases A <;>
  · simp only [BILP.toQubo, bind_ok_iff] at h
    obtain ⟨Q0, h0, h1⟩ := h
    have e0 := eval_build (sqOK_bool (κ := .qubom) rfl hx) h0
    rw [bilp_rows_eval hx p.S p.b Q0 Q h1, e0, eval_linOps, dotFrom_map_mul]
    simp only [BILP.weightA, eval_nil]; ring

/-! ### integrality -/

def IntList (l : List Rat) : Prop := ∀ a ∈ l, ∃ z : Int, a = z

theorem int_dot {x : Var → Rat} (hx : IsBool x) (row : List Rat) (off : Nat) (h : IntList row) :
    ∃ z : Int, dotFrom x row off = z := by
  induction row generalizing off with
  | nil => exact ⟨0, by simp [dotFrom]⟩
  | cons a r ih =>
    obtain ⟨za, hza⟩ := h a (List.mem_cons_self)
    obtain ⟨zr, hzr⟩ := ih (off + 1) (fun c hc => h c (List.mem_cons_of_mem _ hc))
    rcases hx off with h0 | h1
    · exact ⟨zr, by simp [dotFrom, h0, hzr]⟩
    · exact ⟨za + zr, by simp [dotFrom, h1, hzr, hza]⟩

theorem sqRes_nonneg (x : Var → Rat) (S : List (List Rat)) (b : List Rat) : 0 ≤ sqRes x S b := by
  induction S generalizing b with
  | nil => cases b <;> simp [sqRes]
  | cons row rs ih =>
    cases b with
    | nil => simp [sqRes]
    | cons bj bs => simp only [sqRes]; nlinarith [ih bs, sq_nonneg (bj - dotFrom x row 0)]

theorem sqRes_of_feasible {x : Var → Rat} {S : List (List Rat)} {b : List Rat} (h : Feasible x S b) :
    sqRes x S b = 0 := by
  induction S generalizing b with
  | nil => cases b <;> simp [sqRes]
  | cons row rs ih =>
    cases b with
    | nil => simp [sqRes]
    | cons bj bs =>
      obtain ⟨h1, h2⟩ := h
      simp [sqRes, ih h2, h1]

/-- integer data: an infeasible boolean `x` pays at least one unit of squared residual -/
theorem sqRes_of_infeasible {x : Var → Rat} (hx : IsBool x) {S : List (List Rat)} {b : List Rat}
    (hS : ∀ row ∈ S, IntList row) (hb : IntList b) (h : ¬ Feasible x S b) : 1 ≤ sqRes x S b := by
  induction S generalizing b with
  | nil => cases b <;> exact absurd trivial h
  | cons row rs ih =>
    cases b with
    | nil => exact absurd trivial h
    | cons bj bs =>
      simp only [sqRes]
      have hrs : ∀ r ∈ rs, IntList r := fun r hr => hS r (List.mem_cons_of_mem _ hr)
      have hbs : IntList bs := fun c hc => hb c (List.mem_cons_of_mem _ hc)
      obtain ⟨zd, hzd⟩ := int_dot hx row 0 (hS row (List.mem_cons_self))
      obtain ⟨zb, hzb⟩ := hb bj (List.mem_cons_self)
      have hint : ∃ z : Int, bj - dotFrom x row 0 = z := ⟨zb - zd, by rw [hzd, hzb]; push_cast; ring⟩
      by_cases h1 : dotFrom x row 0 = bj
      · have h2 : ¬ Feasible x rs bs := fun hf => h ⟨h1, hf⟩
        have := ih hrs hbs h2
        nlinarith [sq_nonneg (bj - dotFrom x row 0)]
      · rcases Qv.Logic.int_sq_cases hint with h0 | h0
        · exact absurd (by linarith) h1
        · have := sqRes_nonneg x rs bs
          nlinarith

/-- `Σ_i |c_i|` -/
def sumAbs : List Rat → Rat
  | [] => 0
  | a :: r => absR a + sumAbs r

theorem absR_nonneg (a : Rat) : 0 ≤ absR a := by
  unfold absR; split <;> linarith

theorem sumAbs_nonneg (c : List Rat) : 0 ≤ sumAbs c := by
  induction c with
  | nil => simp [sumAbs]
  | cons a r ih => simp only [sumAbs]; linarith [absR_nonneg a]

/-- two boolean points differ in objective by at most `Σ|c|` -/
theorem dot_diff_le {x y : Var → Rat} (hx : IsBool x) (hy : IsBool y) (c : List Rat) (off : Nat) :
    dotFrom y c off - dotFrom x c off ≤ sumAbs c := by
  induction c generalizing off with
  | nil => simp [dotFrom, sumAbs]
  | cons a r ih =>
    have := ih (off + 1)
    simp only [dotFrom, sumAbs]
    have ha : a * y off - a * x off ≤ absR a := by
      unfold absR
      rcases hx off with h | h <;> rcases hy off with h' | h' <;> rw [h, h'] <;> split <;> linarith
    linarith

/-- **T10.3 core (BILP).** `A > B Σ|c|`, `B > 0`, integer `S`, `b`: a boolean point that is not feasible has
strictly higher energy than every feasible boolean point. -/
theorem bilp_infeasible_higher {A B : Rat} (hB : 0 < B) {c : List Rat} (hA : B * sumAbs c < A)
    {S : List (List Rat)} {b : List Rat} (hS : ∀ row ∈ S, IntList row) (hb : IntList b)
    {x y : Var → Rat} (hx : IsBool x) (hy : IsBool y) (hfy : Feasible y S b) (hnx : ¬ Feasible x S b) :
    B * dotFrom y c 0 + A * sqRes y S b < B * dotFrom x c 0 + A * sqRes x S b := by
  have h1 := sqRes_of_infeasible hx hS hb hnx
  have h0 := sqRes_of_feasible hfy
  have hd := dot_diff_le hx hy c 0
  have hs := sumAbs_nonneg c
  have hApos : 0 < A := by nlinarith
  rw [h0]
  nlinarith

end Qv.Prob
