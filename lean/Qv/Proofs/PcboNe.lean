import Qv.Proofs.PcboRest
/-!
# C02: `add_constraint_ne_zero`
-/
namespace Qv.PcboP

/-! ## the slack loop of `add_constraint_ne_zero` -/

theorem neLoop_spec (lt : Bool) (sign : Poly) (n : Nat) : ∀ (s : St) (P : Poly) (lo hi : Rat) (i : Nat),
    (neLoop lt sign s P lo hi i n).1.anc = s.anc + n ∧ (neLoop lt sign s P lo hi i n).1.terms = s.terms ∧
    (neLoop lt sign s P lo hi i n).1.cons = s.cons ∧
    (∀ x, IsBool x → eval x (neLoop lt sign s P lo hi i n).2.1 = eval x P + eval x sign * slackVal lt x s.anc i n) ∧
    (neLoop lt sign s P lo hi i n).2.2.1 = lo - slackTot lt i n ∧
    (neLoop lt sign s P lo hi i n).2.2.2 = hi + slackTot lt i n ∧
    (∀ V : Var → Prop, LabelsIn V P → LabelsIn V sign → (∀ k, s.anc ≤ k → k < s.anc + n → V (ANC + k)) →
      LabelsIn V (neLoop lt sign s P lo hi i n).2.1) ∧
    (NoZero P → NoZero (neLoop lt sign s P lo hi i n).2.1) := by
  induction n with
  | zero =>
    intro s P lo hi i
    exact ⟨rfl, rfl, rfl, fun x _ => by simp [neLoop, slackVal], by simp [neLoop, slackTot], by simp [neLoop, slackTot],
      fun V hV _ _ => hV, fun h => h⟩
  | succ n ih =>
    intro s P lo hi i
    obtain ⟨h1, h2, h3, h5, h6, h6', h7, h8⟩ :=
      ih s.nextAnc.1
        (iaddB P (mulB (scaleB (if lt then ((2 ^ i : Nat) : Rat) else 1) sign) (monoPoly [s.nextAnc.2])))
        (lo - (if lt then ((2 ^ i : Nat) : Rat) else 1)) (hi + (if lt then ((2 ^ i : Nat) : Rat) else 1)) (i + 1)
    simp only [neLoop]
    refine ⟨?_, ?_, ?_, ?_, ?_, ?_, ?_, ?_⟩
    · rw [h1]; simp; omega
    · rw [h2]; rfl
    · rw [h3]; rfl
    · intro x hx
      rw [h5 x hx, eval_iaddB hx, eval_mulB hx, eval_scaleB hx, eval_monoPoly hx]
      simp only [slackVal, wgt, St.nextAnc_label, St.nextAnc_anc, mon_cons, mon_nil]; ring
    · rw [h6]; simp only [slackTot, wgt]; ring
    · rw [h6']; simp only [slackTot, wgt]; ring
    · intro V hV hS hA
      refine h7 V (labelsIn_iaddB hV (labelsIn_mulB (labelsIn_scaleB _ hS) (labelsIn_monoPoly ?_))) hS
        (fun k hk1 hk2 => hA k ?_ ?_)
      · intro j hj
        simp only [St.nextAnc_label, List.mem_singleton] at hj
        subst hj
        exact hA _ (Nat.le_refl _) (by omega)
      · simp only [St.nextAnc_anc] at hk1; omega
      · simp only [St.nextAnc_anc] at hk2; omega
    · intro hz
      exact h8 (noZero_iaddB _ hz)

/-- `2*boolean_var(a) - 1` -/
def signPoly (a : Var) : Poly := addConstB (addTermB [] [a] 2) (-1)

theorem eval_signPoly {x : Var → Rat} (hx : IsBool x) (a : Var) : eval x (signPoly a) = 2 * x a - 1 := by
  unfold signPoly
  rw [eval_addConstB hx, eval_addTermB hx]; simp; ring

theorem labelsIn_signPoly {V : Var → Prop} {a : Var} (h : V a) : LabelsIn V (signPoly a) :=
  labelsIn_addConstB _ (labelsIn_addTermB _ (labelsIn_nil V) (fun i hi => by
    simp only [List.mem_singleton] at hi; subst hi; exact h))

/-! ## decision tree -/

theorem addNeZero_cases (st : St) (P : Poly) (lam : Rat) (lt : Bool) (b : Option Rat × Option Rat) (sup : Bool) :
    (lam = 0 ∧ addNeZero st P lam lt b sup = st.append .ne P) ∨
    (lam ≠ 0 ∧ (getBounds P b).1 = 0 ∧ (getBounds P b).2 = 0 ∧
      addNeZero st P lam lt b sup = (((st.append .ne P).warn sup "unsat").plus (addConstB [] lam)).tag "ne-unsat") ∨
    (lam ≠ 0 ∧ ((getBounds P b).1 > 0 ∨ (getBounds P b).2 < 0) ∧
      ∃ t, addNeZero st P lam lt b sup = ((st.append .ne P).warn sup "always").tag t) ∨
    (lam ≠ 0 ∧ (getBounds P b).1 = 0 ∧ (getBounds P b).2 > 0 ∧
      addNeZero st P lam lt b sup =
        ((addGtZero (st.append .ne P) P lam true (some (getBounds P b).1, some (getBounds P b).2) sup).pop .gt).tag "ne-gt") ∨
    (lam ≠ 0 ∧ (getBounds P b).1 < 0 ∧ (getBounds P b).2 = 0 ∧
      addNeZero st P lam lt b sup =
        ((addLtZero (st.append .ne P) P lam true (some (getBounds P b).1, some (getBounds P b).2) sup).pop .lt).tag "ne-lt") ∨
    (lam ≠ 0 ∧ (getBounds P b).1 < 0 ∧ (getBounds P b).2 > 0 ∧
      addNeZero st P lam lt b sup =
        ((addEqZero
          (neLoop lt (signPoly (ANC + st.anc)) (st.append .ne P).nextAnc.1 (iaddB P (signPoly (ANC + st.anc)))
            ((getBounds P b).1 - 1) ((getBounds P b).2 + 1) 0
            (numBits ((getBounds P b).2 + 1 - ((getBounds P b).1 - 1) - 1) lt)).1
          (neLoop lt (signPoly (ANC + st.anc)) (st.append .ne P).nextAnc.1 (iaddB P (signPoly (ANC + st.anc)))
            ((getBounds P b).1 - 1) ((getBounds P b).2 + 1) 0
            (numBits ((getBounds P b).2 + 1 - ((getBounds P b).1 - 1) - 1) lt)).2.1 lam
          (some (neLoop lt (signPoly (ANC + st.anc)) (st.append .ne P).nextAnc.1 (iaddB P (signPoly (ANC + st.anc)))
            ((getBounds P b).1 - 1) ((getBounds P b).2 + 1) 0
            (numBits ((getBounds P b).2 + 1 - ((getBounds P b).1 - 1) - 1) lt)).2.2.1,
           some (neLoop lt (signPoly (ANC + st.anc)) (st.append .ne P).nextAnc.1 (iaddB P (signPoly (ANC + st.anc)))
            ((getBounds P b).1 - 1) ((getBounds P b).2 + 1) 0
            (numBits ((getBounds P b).2 + 1 - ((getBounds P b).1 - 1) - 1) lt)).2.2.2) true).pop .eq).tag "ne-twosided") := by
  unfold addNeZero
  simp only []
  split
  · left; exact ⟨by assumption, rfl⟩
  · rename_i hl
    right
    by_cases c1 : (getBounds P b).1 = 0 ∧ (getBounds P b).2 = 0
    · left; rw [if_pos c1]; exact ⟨hl, c1.1, c1.2, rfl⟩
    · right
      rw [if_neg c1]
      by_cases c2 : (getBounds P b).1 > 0
      · left; rw [if_pos c2]; exact ⟨hl, Or.inl c2, _, rfl⟩
      · rw [if_neg c2]
        by_cases c3 : (getBounds P b).2 < 0
        · left; rw [if_pos c3]; exact ⟨hl, Or.inr c3, _, rfl⟩
        · right
          rw [if_neg c3]
          by_cases c4 : (getBounds P b).1 = 0
          · left; rw [if_pos c4]
            refine ⟨hl, c4, ?_, rfl⟩
            rcases lt_or_eq_of_le (not_lt.1 c3) with h | h
            · exact h
            · exact absurd ⟨c4, h.symm⟩ c1
          · right
            rw [if_neg c4]
            have hlo : (getBounds P b).1 < 0 := lt_of_le_of_ne (not_lt.1 c2) c4
            by_cases c5 : (getBounds P b).2 = 0
            · left; rw [if_pos c5]; exact ⟨hl, hlo, c5, rfl⟩
            · right
              rw [if_neg c5]
              exact ⟨hl, hlo, lt_of_le_of_ne (not_lt.1 c3) (Ne.symm c5), rfl⟩

/-! ## bookkeeping -/

theorem addNeZero_book (st : St) (P : Poly) (lam : Rat) (lt : Bool) (b : Option Rat × Option Rat) (sup : Bool) :
    (addNeZero st P lam lt b sup).cons = st.cons ++ [(.ne, P)] ∧ Struct st (addNeZero st P lam lt b sup) P := by
  rcases addNeZero_cases st P lam lt b sup with ⟨_, h⟩ | ⟨_, _, _, h⟩ | ⟨_, _, t, h⟩ | ⟨_, _, _, h⟩ | ⟨_, _, _, h⟩ | ⟨_, _, _, h⟩
  · rw [h]; exact ⟨rfl, Struct.refl_of P rfl rfl⟩
  · rw [h]
    refine ⟨by simp, Nat.le_of_eq (by simp), addConstB [] lam, by simp,
      fun V _ _ => labelsIn_addConstB _ (labelsIn_nil V)⟩
  · rw [h]
    exact ⟨by simp, Struct.refl_of P (by simp) (by simp)⟩
  · rw [h]
    obtain ⟨h1, h2⟩ := addGtZero_book (st.append .ne P) P lam true (some (getBounds P b).1, some (getBounds P b).2) sup
    exact ⟨by rw [St.tag_cons, St.pop_cons, h1, popLast_append]; rfl, h2.congr rfl rfl rfl rfl⟩
  · rw [h]
    obtain ⟨h1, h2⟩ := addLtZero_book (st.append .ne P) P lam true (some (getBounds P b).1, some (getBounds P b).2) sup
    exact ⟨by rw [St.tag_cons, St.pop_cons, h1, popLast_append]; rfl, h2.congr rfl rfl rfl rfl⟩
  · rw [h]
    generalize numBits ((getBounds P b).2 + 1 - ((getBounds P b).1 - 1) - 1) lt = n
    obtain ⟨l1, l2, l3, l5, l6, l6', l7, l8⟩ := neLoop_spec lt (signPoly (ANC + st.anc)) n (st.append .ne P).nextAnc.1
      (iaddB P (signPoly (ANC + st.anc))) ((getBounds P b).1 - 1) ((getBounds P b).2 + 1) 0
    refine ⟨?_, ?_, ?_⟩
    · rw [St.tag_cons, St.pop_cons, addEqZero_cons, popLast_append, l3]; rfl
    · rw [St.tag_anc, St.pop_anc, addEqZero_anc, l1]; simp; omega
    · obtain ⟨q, hq1, hq2⟩ := addEqZero_added
        (neLoop lt (signPoly (ANC + st.anc)) (st.append .ne P).nextAnc.1 (iaddB P (signPoly (ANC + st.anc)))
            ((getBounds P b).1 - 1) ((getBounds P b).2 + 1) 0 n).1
        (neLoop lt (signPoly (ANC + st.anc)) (st.append .ne P).nextAnc.1 (iaddB P (signPoly (ANC + st.anc)))
            ((getBounds P b).1 - 1) ((getBounds P b).2 + 1) 0 n).2.1 lam
        (some (neLoop lt (signPoly (ANC + st.anc)) (st.append .ne P).nextAnc.1 (iaddB P (signPoly (ANC + st.anc)))
            ((getBounds P b).1 - 1) ((getBounds P b).2 + 1) 0 n).2.2.1,
         some (neLoop lt (signPoly (ANC + st.anc)) (st.append .ne P).nextAnc.1 (iaddB P (signPoly (ANC + st.anc)))
            ((getBounds P b).1 - 1) ((getBounds P b).2 + 1) 0 n).2.2.2) true
      refine ⟨q, by rw [St.tag_terms, St.pop_terms, hq1, l2]; rfl, fun V hV hA => hq2 V ?_⟩
      have hanc : ∀ k, st.anc ≤ k → k < st.anc + 1 + n → V (ANC + k) := by
        intro k hk1 hk2
        refine hA k hk1 ?_
        rw [St.tag_anc, St.pop_anc, addEqZero_anc, l1]
        simpa using hk2
      have hS : LabelsIn V (signPoly (ANC + st.anc)) := labelsIn_signPoly (hanc _ (Nat.le_refl _) (by omega))
      refine l7 V (labelsIn_iaddB hV hS) hS (fun k hk1 hk2 => hanc k ?_ ?_)
      · simp only [St.nextAnc_anc, St.append_anc] at hk1; omega
      · simp only [St.nextAnc_anc, St.append_anc] at hk2; omega

end Qv.PcboP
