import Qv.Proofs.KernelMemQusoTop
import Qv.Proofs.KernelValue
/-!
# Qv.Proofs.KernelMemRefine — the checked QUSO kernel computes what the unchecked kernel model computes

Simulation layer: every checked function of `Qv.Model.KernelMem` (QUSO side) returns `ok` with buffers that hold
exactly the lists the corresponding function of `Qv.Model.Kernel` returns.  `Is l d` / `IsN l` are the
"cell `i` holds `l[i]`" predicates for `Buf.Upto`.
-/
namespace Qv.KMem
open Qv.Kernel (Src OfInt ofInt forFrom forN)

/-! ## simulation rule for loops -/

theorem forFromM_sim {σ τ : Type} (R : Nat → σ → τ → Prop) (body : Nat → σ → M σ) (body' : Nat → τ → τ) :
    ∀ (k a : Nat) (s : σ) (t : τ), R a s t →
      (∀ i s t, a ≤ i → i < a + k → R i s t → Ok (body i s) (fun s' => R (i + 1) s' (body' i t))) →
      Ok (forFromM body a k s) (fun s' => R (a + k) s' (forFrom body' a k t))
  | 0, a, s, t, h0, _ => ⟨s, rfl, by simpa [forFrom] using h0⟩
  | k + 1, a, s, t, h0, hb => by
    show Ok (body a s >>= forFromM body (a + 1) k) _
    refine Ok.bind (hb a s t (Nat.le_refl a) (by omega) h0) fun s' hs' => ?_
    have := forFromM_sim R body body' k (a + 1) s' (body' a t) hs'
      (fun i s t hi hlt hI => hb i s t (by omega) (by omega) hI)
    have e : a + 1 + k = a + (k + 1) := by omega
    rw [e] at this
    exact this

theorem forNM_sim {σ τ : Type} (R : Nat → σ → τ → Prop) (n : Nat) (s : σ) (t : τ) (body : Nat → σ → M σ)
    (body' : Nat → τ → τ) (h0 : R 0 s t)
    (hb : ∀ i s t, i < n → R i s t → Ok (body i s) (fun s' => R (i + 1) s' (body' i t))) :
    Ok (forNM n s body) (fun s' => R n s' (forN n t body')) := by
  have := forFromM_sim R body body' n 0 s t h0 (fun i s t _ hlt hI => hb i s t (by omega) hI)
  simpa [forNM, forN] using this

/-! ## "cell `i` holds `l[i]`" -/

def Is {β : Type} (l : List β) (d : β) : Nat → β → Prop := fun i v => v = l.getD i d
def IsN (l : List Nat) : Nat → Int → Prop := fun i v => v = ((l.getD i 0 : Nat) : Int)

theorem wr_set {β : Type} {b : Buf β} {N : Nat} {l : List β} {d : β} (hb : b.Upto N N (Is l d)) (hl : l.length = N)
    (i : Nat) (hi : i < N) (v : β) : Ok (b.wr (i : Int) v) (fun b' => b'.Upto N N (Is (l.set i v) d)) :=
  wr_gen hb i hi N v (fun _ hm => Or.inr hm) (by
      show v = (l.set i v).getD i d
      rw [Kernel.getD_set_self' l i v d (by omega)])
    (fun m w _ hmi hw => by
      show w = (l.set i v).getD m d
      rw [Kernel.getD_set_ne' l i m v d (fun h => hmi h.symm)]; exact hw)

/-! ## `index` : prefix sums -/

theorem prefixSums_getD : ∀ (l : List Nat) (acc i : Nat), i < l.length →
    (Kernel.prefixSums l acc).getD i 0 = acc + (l.take i).sum
  | [], _, _, h => by simp at h
  | x :: r, acc, 0, _ => by simp [Kernel.prefixSums]
  | x :: r, acc, i + 1, h => by
    simp only [Kernel.prefixSums, List.getD_cons_succ, List.take_succ_cons, List.sum_cons]
    rw [prefixSums_getD r (acc + x) i (by simpa using h)]
    omega

theorem mkIndex_getD {nn : List Nat} {i : Nat} (h : i < nn.length) :
    (Kernel.mkIndex nn).getD i 0 = (nn.take i).sum := by
  unfold Kernel.mkIndex
  rw [prefixSums_getD nn 0 i h]
  omega

theorem take_sum_succ {l : List Nat} {i : Nat} (h : i < l.length) :
    (l.take (i + 1)).sum = (l.take i).sum + l.getD i 0 := by
  have e : l[i]? = some l[i] := List.getElem?_eq_getElem h
  rw [List.take_add_one, List.sum_append, e]
  simp only [List.getD, e, Option.toList_some, List.sum_cons, List.sum_nil, Option.getD_some]
  omega

theorem take_sum_le (l : List Nat) (i : Nat) : (l.take i).sum ≤ l.sum := by
  have e : (l.take i).sum + (l.drop i).sum = l.sum := by
    rw [← List.sum_append, List.take_append_drop]
  omega

/-- inside segment `i` : `index[i] + j` is a position of the flat arrays -/
theorem seg_lt {nn : List Nat} {i j : Nat} (hi : i < nn.length) (hj : j < nn.getD i 0) :
    (Kernel.mkIndex nn).getD i 0 + j < nn.sum := by
  rw [mkIndex_getD hi]
  have h1 := take_sum_succ hi
  have h2 := take_sum_le nn (i + 1)
  omega

section
variable {α ρ : Type} [Add α] [Mul α] [OfInt α]

/-- the buffers of the checked kernel hold exactly the arrays `Q` of the unchecked one -/
structure QCtxR (q : QusoB α) (N : Nat) (Q : Kernel.Quso α) : Prop where
  h : q.h.Upto N N (Is Q.h (ofInt 0))
  nnB : q.nn.Upto N N (IsN Q.nn)
  nb : q.nb.Upto Q.J.length Q.J.length (IsN Q.nb)
  J : q.J.Upto Q.J.length Q.J.length (Is Q.J (ofInt 0))
  nn_len : Q.nn.length = N
  nn_sum : Q.nn.sum = Q.J.length
  nb_len : Q.nb.length = Q.J.length
  nb_lt : ∀ x ∈ Q.nb, x < N
  J_le : Q.J.length ≤ 2147483647
  N_le : N ≤ 2147483647

/-- `index` holds `mkIndex nn` -/
def IndexR (Q : Kernel.Quso α) (index : Buf Int) (N : Nat) : Prop := index.Upto N N (IsN (Kernel.mkIndex Q.nn))

/-- the state buffer holds the list `st`, a spin list of length `N` -/
def StateR (N : Nat) (b : Buf Int) (st : List Int) : Prop := b.Upto N N (Is st 0) ∧ Kernel.GoodState N st

theorem StateR.spin {N : Nat} {b : Buf Int} {st : List Int} (h : StateR N b st) {i : Nat} (hi : i < N) :
    st.getD i 0 = 1 ∨ st.getD i 0 = -1 :=
  h.2.2 _ (Kernel.getD_mem 0 (by rw [h.2.1]; exact hi))

/-- the common inner loop of `compute_flip_dE` / `quso_value` on lists -/
def energyU (Q : Kernel.Quso α) (index : List Nat) (st : List Int) (i : Nat) (upper : Bool) : α :=
  forN (Q.nn.getD i 0) (Q.h.getD i (ofInt 0)) fun j e =>
    let n := Q.nb.getD (index.getD i 0 + j) 0
    if upper && decide (n < i) then e
    else e + Q.J.getD (index.getD i 0 + j) (ofInt 0) * ofInt (st.getD n 0)

theorem subgraphEnergy_sim {q : QusoB α} {N : Nat} {Q : Kernel.Quso α} (c : QCtxR q N Q) {index state : Buf Int}
    (hx : IndexR Q index N) {st : List Int} (hs : StateR N state st) (i : Nat) (hi : i < N) (upper : Bool) :
    Ok (subgraphEnergy q index state i upper) (fun e => e = energyU Q (Kernel.mkIndex Q.nn) st i upper) := by
  unfold subgraphEnergy energyU
  refine Ok.bind (rd_ok c.h i hi) fun e0 he0 => ?_
  refine Ok.bind (rd_ok c.nnB i hi) fun cnt hcnt => ?_
  refine Ok.bind (rd_ok hx i hi) fun base hbase => ?_
  have he0' : e0 = Q.h.getD i (ofInt 0) := he0
  have hcnt' : cnt = ((Q.nn.getD i 0 : Nat) : Int) := hcnt
  have hbase' : base = (((Kernel.mkIndex Q.nn).getD i 0 : Nat) : Int) := hbase
  subst he0' hcnt' hbase'
  rw [Int.toNat_natCast]
  refine (forNM_sim (fun _ (e : α) (e' : α) => e = e') _ _ _ _ _ rfl fun j e e' hj hI => ?_)
  subst hI
  have hlt := seg_lt (by rw [c.nn_len]; exact hi) hj
  rw [c.nn_sum] at hlt
  have hJ := c.J_le
  refine Ok.bind (ladd_ok (by omega)) fun ix hix => ?_
  have hix' : ix = (((Kernel.mkIndex Q.nn).getD i 0 + j : Nat) : Int) := by rw [hix]; simp
  subst hix'
  refine Ok.bind (rd_ok c.nb _ hlt) fun n hn => ?_
  have hn' : n = ((Q.nb.getD ((Kernel.mkIndex Q.nn).getD i 0 + j) 0 : Nat) : Int) := hn
  subst hn'
  have hnN : Q.nb.getD ((Kernel.mkIndex Q.nn).getD i 0 + j) 0 < N :=
    c.nb_lt _ (Kernel.getD_mem 0 (by rw [c.nb_len]; exact hlt))
  have hdec : decide (((Q.nb.getD ((Kernel.mkIndex Q.nn).getD i 0 + j) 0 : Nat) : Int) < (i : Int)) =
      decide (Q.nb.getD ((Kernel.mkIndex Q.nn).getD i 0 + j) 0 < i) := by
    simp
  rw [hdec]
  dsimp only
  split
  · exact Ok.pure rfl
  · refine Ok.bind (rd_ok c.J _ hlt) fun Jv hJv => ?_
    refine Ok.bind (rd_ok hs.1 _ hnN) fun sn hsn => ?_
    have hJv' : Jv = Q.J.getD ((Kernel.mkIndex Q.nn).getD i 0 + j) (ofInt 0) := hJv
    have hsn' : sn = st.getD (Q.nb.getD ((Kernel.mkIndex Q.nn).getD i 0 + j) 0) 0 := hsn
    subst hJv' hsn'
    exact Ok.pure rfl

omit [Add α] [Mul α] in
theorem mkIndexQuso_sim {q : QusoB α} {N : Nat} {Q : Kernel.Quso α} (c : QCtxR q N Q) (hN1 : 1 ≤ N) :
    Ok (mkIndexQuso N q.nn) (fun index => IndexR Q index N) := by
  unfold mkIndexQuso IndexR
  have hN := c.N_le
  have hlen := c.nn_len
  refine Ok.bind (malloc_nat_ok N 8 (IsN (Kernel.mkIndex Q.nn)) (by omega)) fun index0 h0 => ?_
  refine Ok.bind (wr_next h0 (by omega) 0 (by
    show (0 : Int) = (((Kernel.mkIndex Q.nn).getD 0 0 : Nat) : Int)
    rw [mkIndex_getD (by omega)]; simp)) fun index1 h1 => ?_
  have := forFromM_ok (fun i (b : Buf Int) => b.Upto N i (IsN (Kernel.mkIndex Q.nn)))
    (fun i index => do
      let a ← index.rd ((i : Int) - 1)
      let b ← q.nn.rd ((i : Int) - 1)
      let c ← ladd a b
      index.wr i c) (N - 1) 1 index1 h1 (fun i b h1i hlt hI => ?_)
  · have e : 1 + (N - 1) = N := by omega
    rw [e] at this
    exact this
  · have hi1 : ((i : Int) - 1).toNat = i - 1 := by omega
    refine Ok.bind (rd_int_ok hI _ (by omega) (by omega)) fun a ha => ?_
    refine Ok.bind (rd_int_ok c.nnB _ (by omega) (by omega)) fun b' hb' => ?_
    rw [hi1] at ha hb'
    have ha' : a = (((Kernel.mkIndex Q.nn).getD (i - 1) 0 : Nat) : Int) := ha
    have hb'' : b' = ((Q.nn.getD (i - 1) 0 : Nat) : Int) := hb'
    subst ha' hb''
    have hs := take_sum_succ (l := Q.nn) (i := i - 1) (by omega)
    have e : i - 1 + 1 = i := by omega
    rw [e] at hs
    have hle := take_sum_le Q.nn i
    have hsum := c.nn_sum
    have hJ := c.J_le
    rw [mkIndex_getD (by omega)]
    refine Ok.bind (ladd_ok (by omega)) fun c' hc' => ?_
    subst hc'
    refine wr_next hI (by omega) _ ?_
    show _ = (((Kernel.mkIndex Q.nn).getD i 0 : Nat) : Int)
    rw [mkIndex_getD (by omega), hs]
    simp

/-! ## `compute_flip_dE`, `recompute_flip_dE`, one visit, one anneal, `quso_value` -/

/-- the flip buffer holds the list `fl` of length `N` -/
def FlipR (N : Nat) (b : Buf α) (fl : List α) : Prop := b.Upto N N (Is fl (ofInt 0)) ∧ fl.length = N

theorem getD_map_range {β : Type} (f : Nat → β) (N i : Nat) (d : β) (hi : i < N) :
    ((List.range N).map f).getD i d = f i := by
  simp [List.getD, hi]

theorem computeFlipDE_eq (Q : Kernel.Quso α) (idx : List Nat) (N : Nat) (st : List Int) :
    Kernel.computeFlipDE Q idx N st =
      (List.range N).map fun i => ofInt (-2) * ofInt (st.getD i 0) * energyU Q idx st i false := by
  unfold Kernel.computeFlipDE energyU
  simp

theorem computeFlipDE_sim {q : QusoB α} {N : Nat} {Q : Kernel.Quso α} (c : QCtxR q N Q) {index state : Buf Int}
    (hx : IndexR Q index N) {st : List Int} (hs : StateR N state st) {flip : Buf α} {p0 : Nat → α → Prop}
    (hf : flip.Upto N 0 p0) :
    Ok (computeFlipDE q index N state flip)
      (fun f => FlipR N f (Kernel.computeFlipDE Q (Kernel.mkIndex Q.nn) N st)) := by
  unfold computeFlipDE FlipR
  rw [computeFlipDE_eq]
  refine (forNM_ok (fun i (f : Buf α) => f.Upto N i (Is ((List.range N).map fun i =>
      ofInt (-2) * ofInt (st.getD i 0) * energyU Q (Kernel.mkIndex Q.nn) st i false) (ofInt 0))) _ _ _ hf.zero
    fun i f hi hI => ?_).mono fun f hf' => ⟨hf', by simp⟩
  refine Ok.bind (subgraphEnergy_sim c hx hs i hi false) fun e he => ?_
  refine Ok.bind (rd_ok hs.1 i hi) fun si hsi => ?_
  have hsi' : si = st.getD i 0 := hsi
  subst he hsi'
  refine wr_next hI hi _ ?_
  show _ = List.getD _ i _
  rw [getD_map_range _ N i _ hi]

theorem recomputeFlipDE_sim {q : QusoB α} {N : Nat} {Q : Kernel.Quso α} (c : QCtxR q N Q) {index state : Buf Int}
    (hx : IndexR Q index N) {st : List Int} (hs : StateR N state st) {flip : Buf α} {fl : List α}
    (hf : FlipR N flip fl) (spin : Nat) (hsp : spin < N) :
    Ok (recomputeFlipDE q index spin flip state)
      (fun f => FlipR N f (Kernel.recomputeFlipDE Q (Kernel.mkIndex Q.nn) spin fl st)) := by
  unfold recomputeFlipDE Kernel.recomputeFlipDE
  refine Ok.bind (rd_ok hf.1 spin hsp) fun f0 hf0 => ?_
  have hf0' : f0 = fl.getD spin (ofInt 0) := hf0
  subst hf0'
  refine Ok.bind (wr_set hf.1 hf.2 spin hsp _) fun flip1 hf1 => ?_
  refine Ok.bind (rd_ok c.nnB spin hsp) fun cnt hcnt => ?_
  refine Ok.bind (rd_ok hx spin hsp) fun base hbase => ?_
  have hcnt' : cnt = ((Q.nn.getD spin 0 : Nat) : Int) := hcnt
  have hbase' : base = (((Kernel.mkIndex Q.nn).getD spin 0 : Nat) : Int) := hbase
  subst hcnt' hbase'
  rw [Int.toNat_natCast]
  dsimp only
  refine forNM_sim (fun _ (b : Buf α) (l : List α) => FlipR N b l) _ _ _ _ _
    ⟨hf1, by simp [hf.2]⟩ fun j b l hj hI => ?_
  have hlt := seg_lt (by rw [c.nn_len]; exact hsp) hj
  rw [c.nn_sum] at hlt
  have hJ := c.J_le
  refine Ok.bind (ladd_ok (by omega)) fun ix hix => ?_
  have hix' : ix = (((Kernel.mkIndex Q.nn).getD spin 0 + j : Nat) : Int) := by rw [hix]; simp
  subst hix'
  refine Ok.bind (rd_ok c.nb _ hlt) fun n hn => ?_
  have hn' : n = ((Q.nb.getD ((Kernel.mkIndex Q.nn).getD spin 0 + j) 0 : Nat) : Int) := hn
  subst hn'
  have hnN : Q.nb.getD ((Kernel.mkIndex Q.nn).getD spin 0 + j) 0 < N :=
    c.nb_lt _ (Kernel.getD_mem 0 (by rw [c.nb_len]; exact hlt))
  refine Ok.bind (rd_ok hI.1 _ hnN) fun fn hfn => ?_
  refine Ok.bind (rd_ok hs.1 spin hsp) fun ss hss => ?_
  refine Ok.bind (rd_ok hs.1 _ hnN) fun sn hsn => ?_
  refine Ok.bind (rd_ok c.J _ hlt) fun Jv hJv => ?_
  have hfn' : fn = l.getD (Q.nb.getD ((Kernel.mkIndex Q.nn).getD spin 0 + j) 0) (ofInt 0) := hfn
  have hss' : ss = st.getD spin 0 := hss
  have hsn' : sn = st.getD (Q.nb.getD ((Kernel.mkIndex Q.nn).getD spin 0 + j) 0) 0 := hsn
  have hJv' : Jv = Q.J.getD ((Kernel.mkIndex Q.nn).getD spin 0 + j) (ofInt 0) := hJv
  subst hfn' hss' hsn' hJv'
  exact (wr_set hI.1 hI.2 _ hnN _).mono fun b' hb' => ⟨hb', by simp [hI.2]⟩

omit [Add α] [Mul α] [OfInt α] in
theorem flipAt_sim {state : Buf Int} {N : Nat} {st : List Int} (hs : StateR N state st) (i : Nat) (hi : i < N) :
    Ok (flipAt state i) (fun s => StateR N s (Kernel.flipAt st i)) := by
  unfold flipAt Kernel.flipAt
  refine Ok.bind (rd_ok hs.1 i hi) fun v hv => ?_
  have hv' : v = st.getD i 0 := hv
  subst hv'
  have hsp := hs.spin hi
  refine Ok.bind (imul_ok (by rcases hsp with e | e <;> rw [e] <;> decide)) fun v' e => ?_
  subst e
  exact (wr_set hs.1 hs.2.1 i hi _).mono fun b' hb' => ⟨hb', Kernel.flipAt_good hs.2 i⟩

/-- the loop state of `single_anneal_quso` on both sides -/
def TripR (N : Nat) (s : Buf Int × Buf α × ρ) (t : List Int × List α × ρ) : Prop :=
  StateR N s.1 t.1 ∧ FlipR N s.2.1 t.2.1 ∧ s.2.2 = t.2.2

/-- `Kernel.qusoStep` with its tuple patterns written as projections -/
theorem qusoStep_unfold (src : Src ρ α) (Q : Kernel.Quso α) (idx : List Nat) (N : Nat) (inOrder : Bool) (T : α)
    (j : Nat) (t : List Int × List α × ρ) :
    Kernel.qusoStep src Q idx N inOrder T j t =
      if (src.accept (t.2.1.getD (visit src inOrder t.2.2 j N).2 (ofInt 0)) T (visit src inOrder t.2.2 j N).1).2 = true
      then (Kernel.flipAt t.1 (visit src inOrder t.2.2 j N).2,
        Kernel.recomputeFlipDE Q idx (visit src inOrder t.2.2 j N).2 t.2.1 t.1,
        (src.accept (t.2.1.getD (visit src inOrder t.2.2 j N).2 (ofInt 0)) T (visit src inOrder t.2.2 j N).1).1)
      else (t.1, t.2.1,
        (src.accept (t.2.1.getD (visit src inOrder t.2.2 j N).2 (ofInt 0)) T (visit src inOrder t.2.2 j N).1).1) := by
  obtain ⟨st, fl, r⟩ := t
  rfl

theorem qusoStep_sim {q : QusoB α} {N : Nat} {Q : Kernel.Quso α} (c : QCtxR q N Q) {index : Buf Int}
    (hx : IndexR Q index N) {src : Src ρ α} (hsrc : IndexOK src N) (inOrder : Bool) (T : α) (j : Nat) (hj : j < N)
    (s : Buf Int × Buf α × ρ) (t : List Int × List α × ρ) (hR : TripR N s t) :
    Ok (qusoStep src q index N inOrder T j s)
      (fun s' => TripR N s' (Kernel.qusoStep src Q (Kernel.mkIndex Q.nn) N inOrder T j t)) := by
  obtain ⟨hs, hf, hr⟩ := hR
  have hv := visit_lt hsrc inOrder s.2.2 hj
  rw [qusoStep_unfold]
  unfold qusoStep
  rw [← hr]
  generalize visit src inOrder s.2.2 j N = v at hv ⊢
  refine Ok.bind (rd_ok hf.1 v.2 hv) fun dE hdE => ?_
  have hdE' : dE = t.2.1.getD v.2 (ofInt 0) := hdE
  subst hdE'
  dsimp only
  generalize src.accept (t.2.1.getD v.2 (ofInt 0)) T v.1 = a
  by_cases ha : a.2 = true
  · simp only [ha, ↓reduceIte]
    refine Ok.bind (recomputeFlipDE_sim c hx hs hf v.2 hv) fun flip hflip => ?_
    refine Ok.bind (flipAt_sim hs v.2 hv) fun st' hst' => ?_
    exact Ok.pure ⟨hst', hflip, rfl⟩
  · simp only [ha, Bool.false_eq_true, ↓reduceIte]
    exact Ok.pure ⟨hs, hf, rfl⟩

theorem singleAnnealQuso_sim {q : QusoB α} {N : Nat} {Q : Kernel.Quso α} (c : QCtxR q N Q) {index : Buf Int}
    (hx : IndexR Q index N) {src : Src ρ α} (hsrc : IndexOK src N) (inOrder : Bool) {Ts : List α} {TsB : Buf α}
    (hT : TsB.Upto Ts.length Ts.length (Is Ts (ofInt 0))) {state : Buf Int} {st : List Int}
    (hs : StateR N state st) (rng : ρ) :
    Ok (singleAnnealQuso src q index N Ts.length TsB inOrder state rng)
      (fun r => StateR N r.1 (Kernel.singleAnnealQuso src Q (Kernel.mkIndex Q.nn) N Ts inOrder st rng).1 ∧
        r.2 = (Kernel.singleAnnealQuso src Q (Kernel.mkIndex Q.nn) N Ts inOrder st rng).2) := by
  unfold singleAnnealQuso
  have hN := c.N_le
  refine Ok.bind (malloc_nat_ok N 8 Any (by omega)) fun flip0 hf0 => ?_
  refine Ok.bind (computeFlipDE_sim c hx hs hf0) fun flip hf => ?_
  refine Ok.bind (forNM_sim (fun _ s t => TripR N s t) Ts.length (state, flip, rng)
      (st, Kernel.computeFlipDE Q (Kernel.mkIndex Q.nn) N st, rng) _
      (fun t u => forN N u (Kernel.qusoStep src Q (Kernel.mkIndex Q.nn) N inOrder (Ts.getD t (ofInt 0))))
      ⟨hs, hf, rfl⟩ fun t s u ht hI => ?_) fun s hI => ?_
  · refine Ok.bind (rd_ok hT t ht) fun T hTv => ?_
    have hTv' : T = Ts.getD t (ofInt 0) := hTv
    subst hTv'
    exact forNM_sim (fun _ s t => TripR N s t) N s u _ _ hI
      fun j s u hj hI => qusoStep_sim c hx hsrc inOrder _ j hj s u hI
  · have efold : forN Ts.length (st, Kernel.computeFlipDE Q (Kernel.mkIndex Q.nn) N st, rng)
          (fun t u => forN N u (Kernel.qusoStep src Q (Kernel.mkIndex Q.nn) N inOrder (Ts.getD t (ofInt 0)))) =
        Ts.foldl (fun s T => forN N s (Kernel.qusoStep src Q (Kernel.mkIndex Q.nn) N inOrder T))
          (st, Kernel.computeFlipDE Q (Kernel.mkIndex Q.nn) N st, rng) := by
      unfold forN
      exact Kernel.forFrom_eq_foldl (ofInt 0) _
        (fun T s => forFrom (Kernel.qusoStep src Q (Kernel.mkIndex Q.nn) N inOrder T) 0 N s) Ts 0 _
        (fun j _ e => by simp)
    rw [efold] at hI
    refine Ok.bind (free_ok hI.2.1.1.live) fun flip' hfl => ?_
    refine Ok.bind (noLeak_ok (by intro b hb; simp at hb; rw [hb]; exact hfl.1)) fun _ _ => ?_
    refine Ok.pure ?_
    have e : Kernel.singleAnnealQuso src Q (Kernel.mkIndex Q.nn) N Ts inOrder st rng =
        ((Ts.foldl (fun s T => forN N s (Kernel.qusoStep src Q (Kernel.mkIndex Q.nn) N inOrder T))
          (st, Kernel.computeFlipDE Q (Kernel.mkIndex Q.nn) N st, rng)).1,
         (Ts.foldl (fun s T => forN N s (Kernel.qusoStep src Q (Kernel.mkIndex Q.nn) N inOrder T))
          (st, Kernel.computeFlipDE Q (Kernel.mkIndex Q.nn) N st, rng)).2.2) := rfl
    rw [e]
    exact ⟨hI.1, hI.2.2⟩

theorem qusoValueC_eq (Q : Kernel.Quso α) (idx : List Nat) (N : Nat) (st : List Int) :
    Kernel.qusoValueC Q idx N st =
      forN N (ofInt 0) fun i value => value + ofInt (st.getD i 0) * energyU Q idx st i true := by
  unfold Kernel.qusoValueC energyU forN
  refine Kernel.forFrom_congr _ _ N 0 _ fun i _ _ value => ?_
  dsimp only
  congr 2
  refine Kernel.forFrom_congr _ _ _ 0 _ fun j _ _ e => ?_
  generalize Q.nb.getD (idx.getD i 0 + j) 0 = n
  by_cases h : n < i
  · rw [if_neg (by omega), if_pos (by simp [h])]
  · rw [if_pos (by omega), if_neg (by simp [h])]

theorem qusoValue_sim {q : QusoB α} {N : Nat} {Q : Kernel.Quso α} (c : QCtxR q N Q) {index state : Buf Int}
    (hx : IndexR Q index N) {st : List Int} (hs : StateR N state st) :
    Ok (qusoValue q index N state) (fun v => v = Kernel.qusoValueC Q (Kernel.mkIndex Q.nn) N st) := by
  unfold qusoValue
  rw [qusoValueC_eq]
  refine forNM_sim (fun _ (v v' : α) => v = v') _ _ _ _ _ rfl fun i v v' hi hI => ?_
  subst hI
  refine Ok.bind (subgraphEnergy_sim c hx hs i hi true) fun e he => ?_
  refine Ok.bind (rd_ok hs.1 i hi) fun si hsi => ?_
  have hsi' : si = st.getD i 0 := hsi
  subst he hsi'
  exact Ok.pure rfl

end

end Qv.KMem
