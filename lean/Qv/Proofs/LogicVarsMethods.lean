import Qv.Proofs.LogicVars
import Qv.Proofs.LogicEqZero
/-!
# T6.2 (labels) for `addEqZero` and the sixteen methods (namespace `Qv.Logic`)
-/
namespace Qv.Logic
open Qv

section
variable {S : Var → Prop}

theorem varsIn_addTermB {p : Poly} (h : VarsIn S p) {k : Key} (hk : KeyIn S k) (v : Rat) :
    VarsIn S (addTermB p k v) :=
  varsIn_set h (keyIn_squashB hk) _

theorem varsIn_iaddB {p : Poly} (h : VarsIn S p) {q : Poly} (hq : VarsIn S q) : VarsIn S (iaddB p q) := by
  unfold iaddB
  induction q generalizing p with
  | nil => exact h
  | cons kv r ih =>
    exact ih (varsIn_addTermB h (hq kv List.mem_cons_self) _) (fun kv' h' => hq kv' (List.mem_cons_of_mem _ h'))

theorem varsIn_isubB {p : Poly} (h : VarsIn S p) {q : Poly} (hq : VarsIn S q) : VarsIn S (isubB p q) := by
  unfold isubB
  induction q generalizing p with
  | nil => exact h
  | cons kv r ih =>
    exact ih (varsIn_addTermB h (hq kv List.mem_cons_self) _) (fun kv' h' => hq kv' (List.mem_cons_of_mem _ h'))

theorem varsIn_scaleFold (c : Rat) {q : Poly} (hq : VarsIn S q) {acc : Poly} (h : VarsIn S acc) :
    VarsIn S (q.foldl (fun acc kv => addTermB acc kv.1 (c * kv.2)) acc) := by
  induction q generalizing acc with
  | nil => exact h
  | cons kv r ih =>
    exact ih (fun kv' h' => hq kv' (List.mem_cons_of_mem _ h')) (varsIn_addTermB h (hq kv List.mem_cons_self) _)

theorem varsIn_scaleB (c : Rat) {q : Poly} (hq : VarsIn S q) : VarsIn S (scaleB c q) :=
  varsIn_scaleFold c hq varsIn_nil

theorem varsIn_mulInner {k : Key} (hk : KeyIn S k) (v : Rat) {q : Poly} (hq : VarsIn S q) {acc : Poly}
    (h : VarsIn S acc) :
    VarsIn S (q.foldl (fun acc2 kv2 => addTermB acc2 (k ++ kv2.1) (v * kv2.2)) acc) := by
  induction q generalizing acc with
  | nil => exact h
  | cons kv r ih =>
    exact ih (fun kv' h' => hq kv' (List.mem_cons_of_mem _ h'))
      (varsIn_addTermB h (keyIn_append hk (hq kv List.mem_cons_self)) _)

theorem varsIn_mulB {p q : Poly} (hp : VarsIn S p) (hq : VarsIn S q) : VarsIn S (mulB p q) := by
  unfold mulB
  suffices ∀ acc, VarsIn S acc → VarsIn S (p.foldl (fun acc kv =>
      q.foldl (fun acc2 kv2 => addTermB acc2 (kv.1 ++ kv2.1) (kv.2 * kv2.2)) acc) acc) from this [] varsIn_nil
  induction p with
  | nil => exact fun _ h => h
  | cons kv r ih =>
    intro acc h
    exact ih (fun kv' h' => hp kv' (List.mem_cons_of_mem _ h')) _
      (varsIn_mulInner (hp kv List.mem_cons_self) _ hq h)

theorem varsIn_gadget {a b c : Var} (ha : S a) (hb : S b) (hc : S c) : VarsIn S (gadget a b c) := by
  unfold gadget
  simp only [List.foldl_cons, List.foldl_nil]
  have k1 : KeyIn S [a] := fun i hi => by simp at hi; subst hi; exact ha
  have k2 : KeyIn S [b, c] := fun i hi => by
    simp at hi; rcases hi with rfl | rfl; exact hb; exact hc
  have k3 : KeyIn S [a, b] := fun i hi => by
    simp at hi; rcases hi with rfl | rfl; exact ha; exact hb
  have k4 : KeyIn S [a, c] := fun i hi => by
    simp at hi; rcases hi with rfl | rfl; exact ha; exact hc
  exact varsIn_addTermB (varsIn_addTermB (varsIn_addTermB (varsIn_addTermB varsIn_nil k1 _) k2 _) k3 _) k4 _

theorem specialEq_vars {s s' : St} {P : Poly} {lam : Rat} (hs : VarsIn S s.terms) (hP : VarsIn S P)
    (h : specialEq s P lam = some s') : VarsIn S s'.terms := by
  rcases P with _ | ⟨⟨k0, v0⟩, _ | ⟨⟨k1, v1⟩, _ | ⟨_, _⟩⟩⟩
  · simp [specialEq] at h
  · simp [specialEq] at h
  · have h0 : KeyIn S k0 := hP (k0, v0) (by simp)
    have h1 : KeyIn S k1 := hP (k1, v1) (by simp)
    simp only [specialEq] at h
    split_ifs at h with hc
    rcases k0 with _ | ⟨a0, _ | ⟨a1, _ | ⟨_, _⟩⟩⟩ <;> rcases k1 with _ | ⟨b0, _ | ⟨b1, _ | ⟨_, _⟩⟩⟩ <;>
      simp only [reduceCtorEq] at h
    · injection h with h; subst h
      exact varsIn_iaddB hs (varsIn_scaleB _ (varsIn_gadget (h0 a0 (by simp)) (h1 b0 (by simp)) (h1 b1 (by simp))))
    · injection h with h; subst h
      exact varsIn_iaddB hs (varsIn_scaleB _ (varsIn_gadget (h1 b0 (by simp)) (h0 a0 (by simp)) (h0 a1 (by simp))))
  · simp [specialEq] at h

/-- `add_constraint_eq_zero` introduces no label: every label of the new terms occurs in the old terms or in `P` -/
theorem addEqZero_vars {s : St} {P : Poly} (hs : VarsIn S s.terms) (hP : VarsIn S P) (lam : Rat)
    (b : Option Rat × Option Rat) (sup : Bool) : VarsIn S (addEqZero s P lam b sup).terms := by
  unfold addEqZero
  simp only []
  split
  · exact hs
  · split
    · rename_i s' hs'
      exact specialEq_vars (s := s.append .eq P) hs hP hs'
    · split_ifs <;> simp only [warn_terms, tag_terms, plus_terms, minus_terms, append_terms] <;>
        first
          | exact hs
          | exact varsIn_iaddB hs (varsIn_scaleB _ hP)
          | exact varsIn_isubB hs (varsIn_scaleB _ hP)
          | exact varsIn_iaddB hs (varsIn_mulB (varsIn_scaleB _ hP) hP)

theorem eqZeroV_vars {s s' : St} {P : Val} {lam lo hi : Rat} (hs : VarsIn S s.terms) (hP : ValIn S P)
    (h : eqZeroV s P lam lo hi = .ok s') : VarsIn S s'.terms := by
  simp only [eqZeroV, bind_ok_iff] at h
  obtain ⟨w, hw, h⟩ := h
  have hv := Val.cast_vars hP hw
  cases w with
  | num c => simp at h
  | raw q => simp at h
  | mdl κ p =>
    simp only [pure, Except.pure] at h
    injection h with h; subst h
    exact addEqZero_vars hs hv _ _ _

theorem fresh_vars : VarsIn S St.fresh.terms := varsIn_nil

/-! ### the sixteen methods -/

variable {s s' : St} {lam : Rat}

theorem consNOT_vars {a : SVal} (hs : VarsIn S s.terms) (ha : SValIn S a) (h : consNOT s a lam = .ok s') :
    VarsIn S s'.terms := by
  simp only [consNOT, bind_ok_iff] at h
  obtain ⟨P, hP, h⟩ := h
  exact eqZeroV_vars hs (bufferV_vars ha hP) h

theorem consBUFFER_vars {a : SVal} (hs : VarsIn S s.terms) (ha : SValIn S a) (h : consBUFFER s a lam = .ok s') :
    VarsIn S s'.terms := by
  simp only [consBUFFER, bind_ok_iff] at h
  obtain ⟨P, hP, h⟩ := h
  exact eqZeroV_vars hs (notV_vars ha hP) h

theorem consAND_vars {vs : List SVal} (hs : VarsIn S s.terms) (hvs : ∀ v ∈ vs, SValIn S v)
    (h : consAND s vs lam = .ok s') : VarsIn S s'.terms := by
  simp only [consAND, bind_ok_iff] at h
  obtain ⟨g, hg, h⟩ := h
  exact consBUFFER_vars hs (a := .val g) (andV_vars hvs hg) h

theorem consNAND_vars {vs : List SVal} (hs : VarsIn S s.terms) (hvs : ∀ v ∈ vs, SValIn S v)
    (h : consNAND s vs lam = .ok s') : VarsIn S s'.terms := by
  simp only [consNAND, bind_ok_iff] at h
  obtain ⟨g, hg, h⟩ := h
  exact consNOT_vars hs (a := .val g) (andV_vars hvs hg) h

theorem oneMinus_vars {g P : Val} (hs : VarsIn S s.terms) (hg : ValIn S g)
    (hP : VE.run (1 - g) = .ok P) (h : eqZeroV s P lam 0 1 = .ok s') : VarsIn S s'.terms :=
  eqZeroV_vars hs (VE.run_vars _ (show VEIn S (VE.sub (VE.leaf (.num ((1 : Nat) : Rat))) (VE.leaf g)) from
    ⟨trivial, hg⟩) hP) h

theorem consOR_vars {vs : List SVal} (hs : VarsIn S s.terms) (hvs : ∀ v ∈ vs, SValIn S v)
    (h : consOR s vs lam = .ok s') : VarsIn S s'.terms := by
  simp only [consOR, bind_ok_iff] at h
  obtain ⟨g, hg, P, hP, h⟩ := h
  exact oneMinus_vars hs (orV_vars hvs hg) hP h

theorem consXOR_vars {vs : List SVal} (hs : VarsIn S s.terms) (hvs : ∀ v ∈ vs, SValIn S v)
    (h : consXOR s vs lam = .ok s') : VarsIn S s'.terms := by
  simp only [consXOR, bind_ok_iff] at h
  obtain ⟨g, hg, P, hP, h⟩ := h
  exact oneMinus_vars hs (xorV_vars hvs hg) hP h

theorem consNOR_vars {vs : List SVal} (hs : VarsIn S s.terms) (hvs : ∀ v ∈ vs, SValIn S v)
    (h : consNOR s vs lam = .ok s') : VarsIn S s'.terms := by
  simp only [consNOR, bind_ok_iff] at h
  obtain ⟨inner, hi, P, hP, h⟩ := h
  exact oneMinus_vars hs (g := inner.val) (consOR_vars fresh_vars hvs hi) hP h

theorem consXNOR_vars {vs : List SVal} (hs : VarsIn S s.terms) (hvs : ∀ v ∈ vs, SValIn S v)
    (h : consXNOR s vs lam = .ok s') : VarsIn S s'.terms := by
  simp only [consXNOR, bind_ok_iff] at h
  obtain ⟨inner, hi, P, hP, h⟩ := h
  exact oneMinus_vars hs (g := inner.val) (consXOR_vars fresh_vars hvs hi) hP h

theorem halves_vars {vs : List SVal} {bc : Val × Val} (hvs : ∀ v ∈ vs, SValIn S v) (h : halves vs = .ok bc) :
    ValIn S bc.1 ∧ ValIn S bc.2 := by
  simp only [halves, bind_ok_iff, pure, Except.pure] at h
  obtain ⟨b, hb, c, hc, h⟩ := h
  injection h with h; subst h
  exact ⟨andLoop_vars _ (acc := .num 1) trivial (fun v hv => hvs v (List.mem_of_mem_take hv)) hb,
    andLoop_vars _ (acc := .num 1) trivial (fun v hv => hvs v (List.mem_of_mem_drop hv)) hc⟩

theorem throw_ne' {α : Type} {e : Err} {a : α} : (throw e : Except Err α) = .ok a → False := by
  intro h; cases h

theorem consEqAND_vars {a : SVal} {vs : List SVal} (hs : VarsIn S s.terms) (ha : SValIn S a)
    (hvs : ∀ v ∈ vs, SValIn S v) (h : consEqAND s a vs lam = .ok s') : VarsIn S s'.terms := by
  simp only [consEqAND] at h
  split at h
  · simp only [bind_ok_iff] at h
    obtain ⟨_, h, _⟩ := h
    exact (throw_ne' h).elim
  · simp only [bind_ok_iff] at h
    obtain ⟨a', ha', bc, hbc, P, hP, h⟩ := h
    have va := bufferV_vars ha ha'
    obtain ⟨vb, vc⟩ := halves_vars hvs hbc
    refine eqZeroV_vars hs (VE.run_vars _ ?_ hP) h
    exact ⟨⟨⟨trivial, va⟩, vb, vc⟩, ⟨trivial, va⟩, vb, vc⟩

theorem consEqNAND_vars {a : SVal} {vs : List SVal} (hs : VarsIn S s.terms) (ha : SValIn S a)
    (hvs : ∀ v ∈ vs, SValIn S v) (h : consEqNAND s a vs lam = .ok s') : VarsIn S s'.terms := by
  simp only [consEqNAND] at h
  split at h
  · simp only [bind_ok_iff] at h
    obtain ⟨_, h, _⟩ := h
    exact (throw_ne' h).elim
  · simp only [bind_ok_iff] at h
    obtain ⟨bc, hbc, na, hna, P, hP, h⟩ := h
    have va := notV_vars ha hna
    obtain ⟨vb, vc⟩ := halves_vars hvs hbc
    refine eqZeroV_vars hs (VE.run_vars _ ?_ hP) h
    exact ⟨⟨va, trivial, trivial, vb, vc⟩, vb, vc⟩

theorem diff_vars {g a' P : Val} (hs : VarsIn S s.terms) (hg : ValIn S g) (ha : ValIn S a')
    (hP : VE.run (VE.leaf g - VE.leaf a') = .ok P) (h : eqZeroV s P lam (-1) 1 = .ok s') : VarsIn S s'.terms :=
  eqZeroV_vars hs (VE.run_vars _ (show VEIn S (VE.sub (VE.leaf g) (VE.leaf a')) from ⟨hg, ha⟩) hP) h

theorem consEqOR_vars {a : SVal} {vs : List SVal} (hs : VarsIn S s.terms) (ha : SValIn S a)
    (hvs : ∀ v ∈ vs, SValIn S v) (h : consEqOR s a vs lam = .ok s') : VarsIn S s'.terms := by
  simp only [consEqOR] at h
  split at h
  · simp only [bind_ok_iff] at h
    obtain ⟨_, h, _⟩ := h
    exact (throw_ne' h).elim
  · simp only [bind_ok_iff] at h
    obtain ⟨a', ha', h⟩ := h
    have va := bufferV_vars ha ha'
    split at h
    · rename_i v0 v1 hn
      simp only [bind_ok_iff] at h
      obtain ⟨b, hb, c, hc, P, hP, h⟩ := h
      have vb := bufferV_vars (hvs v0 (by simp)) hb
      have vc := bufferV_vars (hvs v1 (by simp)) hc
      refine eqZeroV_vars hs (VE.run_vars _ ?_ hP) h
      exact ⟨⟨⟨⟨va, vb⟩, vc⟩, vb, vc⟩, ⟨trivial, va⟩, vb, vc⟩
    · simp only [bind_ok_iff] at h
      obtain ⟨inner, hi, P, hP, h⟩ := h
      exact diff_vars hs (g := inner.val) (consNOR_vars fresh_vars hvs hi) va hP h

theorem consEqNOR_vars {a : SVal} {vs : List SVal} (hs : VarsIn S s.terms) (ha : SValIn S a)
    (hvs : ∀ v ∈ vs, SValIn S v) (h : consEqNOR s a vs lam = .ok s') : VarsIn S s'.terms := by
  simp only [consEqNOR] at h
  split at h
  · simp only [bind_ok_iff] at h
    obtain ⟨_, h, _⟩ := h
    exact (throw_ne' h).elim
  · simp only [bind_ok_iff] at h
    obtain ⟨a', ha', h⟩ := h
    have va := bufferV_vars ha ha'
    split at h
    · rename_i v0 v1 hn
      simp only [bind_ok_iff] at h
      obtain ⟨b, hb, c, hc, P, hP, h⟩ := h
      have vb := bufferV_vars (hvs v0 (by simp)) hb
      have vc := bufferV_vars (hvs v1 (by simp)) hc
      refine eqZeroV_vars hs (VE.run_vars _ ?_ hP) h
      exact ⟨⟨⟨⟨⟨trivial, va⟩, vb⟩, vc⟩, vb, vc⟩, ⟨trivial, va⟩, vb, vc⟩
    · simp only [bind_ok_iff] at h
      obtain ⟨inner, hi, P, hP, h⟩ := h
      exact diff_vars hs (g := inner.val) (consOR_vars fresh_vars hvs hi) va hP h

theorem consEqXOR_vars {a : SVal} {vs : List SVal} (hs : VarsIn S s.terms) (ha : SValIn S a)
    (hvs : ∀ v ∈ vs, SValIn S v) (h : consEqXOR s a vs lam = .ok s') : VarsIn S s'.terms := by
  simp only [consEqXOR, bind_ok_iff] at h
  obtain ⟨inner, hi, a', ha', P, hP, h⟩ := h
  exact diff_vars hs (g := inner.val) (consXNOR_vars fresh_vars hvs hi) (bufferV_vars ha ha') hP h

theorem consEqXNOR_vars {a : SVal} {vs : List SVal} (hs : VarsIn S s.terms) (ha : SValIn S a)
    (hvs : ∀ v ∈ vs, SValIn S v) (h : consEqXNOR s a vs lam = .ok s') : VarsIn S s'.terms := by
  simp only [consEqXNOR, bind_ok_iff] at h
  obtain ⟨inner, hi, a', ha', P, hP, h⟩ := h
  exact diff_vars hs (g := inner.val) (consXOR_vars fresh_vars hvs hi) (bufferV_vars ha ha') hP h

theorem consEqBUFFER_vars {a b : SVal} (hs : VarsIn S s.terms) (ha : SValIn S a) (hb : SValIn S b)
    (h : consEqBUFFER s a b lam = .ok s') : VarsIn S s'.terms := by
  simp only [consEqBUFFER, bind_ok_iff] at h
  obtain ⟨a', ha', b', hb', P, hP, h⟩ := h
  exact diff_vars hs (bufferV_vars ha ha') (bufferV_vars hb hb') hP h

theorem consEqNOT_vars {a b : SVal} (hs : VarsIn S s.terms) (ha : SValIn S a) (hb : SValIn S b)
    (h : consEqNOT s a b lam = .ok s') : VarsIn S s'.terms := by
  simp only [consEqNOT, bind_ok_iff] at h
  obtain ⟨inner, hi, b', hb', P, hP, h⟩ := h
  exact diff_vars hs (g := inner.val) (consBUFFER_vars fresh_vars ha hi) (bufferV_vars hb hb') hP h

/-- all sixteen at once, through the dispatcher -/
theorem consLogic_vars {eq : Bool} {g : Gate} {ops : List SVal} (hs : VarsIn S s.terms)
    (hops : ∀ v ∈ ops, SValIn S v) (h : consLogic eq g s ops lam = .ok s') : VarsIn S s'.terms := by
  have tl : ∀ {a : SVal} {r : List SVal}, (∀ v ∈ a :: r, SValIn S v) → SValIn S a ∧ ∀ v ∈ r, SValIn S v :=
    fun hh => ⟨hh _ List.mem_cons_self, fun v hv => hh v (List.mem_cons_of_mem _ hv)⟩
  cases eq <;> cases g <;> simp only [consLogic] at h
  -- eq = false
  · rcases ops with _ | ⟨a, _ | ⟨_, _⟩⟩ <;> simp only [reduceCtorEq] at h
    exact consBUFFER_vars hs (tl hops).1 h
  · rcases ops with _ | ⟨a, _ | ⟨_, _⟩⟩ <;> simp only [reduceCtorEq] at h
    exact consNOT_vars hs (tl hops).1 h
  · exact consAND_vars hs hops h
  · exact consNAND_vars hs hops h
  · exact consOR_vars hs hops h
  · exact consNOR_vars hs hops h
  · exact consXOR_vars hs hops h
  · exact consXNOR_vars hs hops h
  -- eq = true
  · rcases ops with _ | ⟨a, _ | ⟨b, _ | ⟨_, _⟩⟩⟩ <;> simp only [reduceCtorEq] at h
    exact consEqBUFFER_vars hs (tl hops).1 ((tl hops).2 b (by simp)) h
  · rcases ops with _ | ⟨a, _ | ⟨b, _ | ⟨_, _⟩⟩⟩ <;> simp only [reduceCtorEq] at h
    exact consEqNOT_vars hs (tl hops).1 ((tl hops).2 b (by simp)) h
  · rcases ops with _ | ⟨a, r⟩ <;> simp only [reduceCtorEq] at h
    exact consEqAND_vars hs (tl hops).1 (tl hops).2 h
  · rcases ops with _ | ⟨a, r⟩ <;> simp only [reduceCtorEq] at h
    exact consEqNAND_vars hs (tl hops).1 (tl hops).2 h
  · rcases ops with _ | ⟨a, r⟩ <;> simp only [reduceCtorEq] at h
    exact consEqOR_vars hs (tl hops).1 (tl hops).2 h
  · rcases ops with _ | ⟨a, r⟩ <;> simp only [reduceCtorEq] at h
    exact consEqNOR_vars hs (tl hops).1 (tl hops).2 h
  · rcases ops with _ | ⟨a, r⟩ <;> simp only [reduceCtorEq] at h
    exact consEqXOR_vars hs (tl hops).1 (tl hops).2 h
  · rcases ops with _ | ⟨a, r⟩ <;> simp only [reduceCtorEq] at h
    exact consEqXNOR_vars hs (tl hops).1 (tl hops).2 h

end

end Qv.Logic
