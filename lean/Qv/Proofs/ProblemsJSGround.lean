import Qv.Proofs.ProblemsJS
import Mathlib.Tactic.Ring
import Mathlib.Tactic.Linarith
import Mathlib.Tactic.NormNum
import Mathlib.Tactic.Positivity
/-!
# JobSequencing ground states (Lucas 6.3), part 1: definitions, helpers, the bound L1

`JS.energy` is the closed form of `⟦to_qubo(A, B)⟧` proved in `js_ops_eval`.  `JS.load x w` is the total length given
to worker `w`, `JS.pen x = Σ_j (1 - Σ_w x_{j,w})^2`.
-/
namespace Qv.Prob
open Qv

/-- closed form of `⟦to_qubo(A, B)⟧x` (see `js_ops_eval`) -/
def JS.energy (p : JS) (A B : Rat) (x : Var → Rat) : Rat :=
  A * sumMap p.jobs (fun jl => (1 - p.S x jl.1) ^ 2) +
  B * sumMap p.jobs (fun jl => jl.2 * x (p.x jl.1 0)) +
  A * sumMap ((List.range p.m).drop 1) (fun w => (p.Y x w + p.D x w) ^ 2)

/-- total length given to worker `w` -/
def JS.load (p : JS) (x : Var → Rat) (w : Nat) : Rat := sumMap p.jobs (fun jl => jl.2 * x (p.x jl.1 w))
/-- `Σ_j (1 - Σ_w x_{j,w})^2` -/
def JS.pen (p : JS) (x : Var → Rat) : Rat := sumMap p.jobs (fun jl => (1 - p.S x jl.1) ^ 2)
/-- every job is on exactly one worker (for boolean `x`) -/
def JS.OneHot (p : JS) (x : Var → Rat) : Prop := ∀ j, j < p.N → p.S x j = 1
/-- the lengths are natural numbers -/
def JS.NatLengths (p : JS) : Prop := ∀ jl ∈ p.lengths, ∃ n : Nat, jl.2 = (n : Rat)
/-- the slack registers can hold every difference of loads -/
def JS.Fits (p : JS) : Prop := sumL (p.lengths.map Prod.snd) ≤ (p.M : Rat)

theorem js_energy_eq (p : JS) (A B : Rat) (x : Var → Rat) :
    p.energy A B x = A * p.pen x + B * p.load x 0 +
      A * sumMap ((List.range p.m).drop 1) (fun w => (p.Y x w + p.D x w) ^ 2) := rfl

/-! ## `sumMap` helpers -/

theorem js_sumMap_nonneg {α : Type} (l : List α) {f : α → Rat} (h : ∀ a ∈ l, 0 ≤ f a) : 0 ≤ sumMap l f := by
  induction l with
  | nil => simp [sumMap]
  | cons a r ih =>
    simp only [sumMap]
    have := h a List.mem_cons_self
    have := ih (fun b hb => h b (List.mem_cons_of_mem _ hb))
    linarith

theorem js_sumMap_le {α : Type} (l : List α) {f g : α → Rat} (h : ∀ a ∈ l, f a ≤ g a) :
    sumMap l f ≤ sumMap l g := by
  induction l with
  | nil => simp [sumMap]
  | cons a r ih =>
    simp only [sumMap]
    have := h a List.mem_cons_self
    have := ih (fun b hb => h b (List.mem_cons_of_mem _ hb))
    linarith

theorem js_sumMap_ge_mem {α : Type} (l : List α) {f : α → Rat} (h : ∀ a ∈ l, 0 ≤ f a) {a : α} (ha : a ∈ l) :
    f a ≤ sumMap l f := by
  induction l with
  | nil => cases ha
  | cons b r ih =>
    simp only [sumMap]
    have h0 := h b List.mem_cons_self
    have hr := js_sumMap_nonneg r (fun c hc => h c (List.mem_cons_of_mem _ hc))
    rcases List.mem_cons.1 ha with rfl | ha
    · linarith
    · have := ih (fun c hc => h c (List.mem_cons_of_mem _ hc)) ha
      linarith

theorem js_sumMap_zero {α : Type} (l : List α) {f : α → Rat} (h : ∀ a ∈ l, f a = 0) : sumMap l f = 0 := by
  induction l with
  | nil => rfl
  | cons a r ih =>
    simp only [sumMap]
    rw [h a List.mem_cons_self, ih (fun b hb => h b (List.mem_cons_of_mem _ hb))]; ring

theorem js_sumMap_nat {α : Type} (l : List α) {f : α → Rat} (h : ∀ a ∈ l, ∃ n : Nat, f a = (n : Rat)) :
    ∃ n : Nat, sumMap l f = (n : Rat) := by
  induction l with
  | nil => exact ⟨0, by simp [sumMap]⟩
  | cons a r ih =>
    obtain ⟨n1, h1⟩ := h a List.mem_cons_self
    obtain ⟨n2, h2⟩ := ih (fun b hb => h b (List.mem_cons_of_mem _ hb))
    exact ⟨n1 + n2, by simp only [sumMap, h1, h2]; push_cast; ring⟩

theorem js_sumMap_append {α : Type} (l r : List α) (f : α → Rat) :
    sumMap (l ++ r) f = sumMap l f + sumMap r f := by
  induction l with
  | nil => simp [sumMap]
  | cons a l ih => simp only [List.cons_append, sumMap, ih]; ring

theorem js_sumMap_sub {α : Type} (l : List α) (f g : α → Rat) :
    sumMap l (fun a => f a - g a) = sumMap l f - sumMap l g := by
  induction l with
  | nil => simp [sumMap]
  | cons a r ih => simp only [sumMap, ih]; ring

/-- `Σ_{w<m} [w = k] c_w = c_k` for `k < m` -/
theorem js_sumMap_ind (m k : Nat) (c : Nat → Rat) :
    sumMap (List.range m) (fun w => if w = k then c w else 0) = if k < m then c k else 0 := by
  induction m with
  | zero => simp [sumMap]
  | succ m ih =>
    rw [List.range_succ, js_sumMap_append, ih]
    simp only [sumMap]
    by_cases h1 : k < m
    · have h2 : m ≠ k := by omega
      have h3 : k < m + 1 := by omega
      simp [h1, h2, h3]
    · by_cases h2 : m = k
      · subst h2; simp
      · have h3 : ¬ k < m + 1 := by omega
        simp [h1, h2, h3]

theorem js_mem_drop_one {m w : Nat} : w ∈ (List.range m).drop 1 ↔ 1 ≤ w ∧ w < m := by
  cases m with
  | zero => simp
  | succ k =>
    rw [List.range_succ_eq_map]
    simp only [List.drop_succ_cons, List.drop_zero, List.mem_map, List.mem_range]
    constructor
    · rintro ⟨a, ha, rfl⟩; omega
    · rintro ⟨h1, h2⟩; exact ⟨w - 1, by omega, by omega⟩

/-! ## integrality helpers -/

theorem js_nat_le_sq (n : Nat) : (n : Rat) ≤ (n : Rat) ^ 2 := by
  cases n with
  | zero => simp
  | succ k =>
    have : (0 : Rat) ≤ (k : Rat) := Nat.cast_nonneg k
    push_cast; nlinarith

theorem js_nat_ne_one_sq (n : Nat) (h : (n : Rat) ≠ 1) : (1 : Rat) ≤ (1 - (n : Rat)) ^ 2 := by
  rcases n with _ | _ | k
  · simp
  · exact absurd (by simp) h
  · have : (0 : Rat) ≤ (k : Rat) := Nat.cast_nonneg k
    push_cast; nlinarith

/-! ## the jobs -/

theorem js_jobs_mem (p : JS) {jl : Nat × Rat} (h : jl ∈ p.jobs) :
    jl.1 < p.N ∧ jl.2 ∈ p.lengths.map Prod.snd := by
  obtain ⟨j, L⟩ := jl
  have := List.of_mem_zip h
  exact ⟨List.mem_range.1 this.1, this.2⟩

theorem js_jobs_exists (p : JS) {j : Nat} (h : j < p.N) : ∃ L, (j, L) ∈ p.jobs := by
  have hl : j < p.jobs.length := by simp [JS.jobs, JS.N] at h ⊢; exact h
  refine ⟨(p.jobs[j]).2, ?_⟩
  have h1 : (p.jobs[j]).1 = j := by simp [JS.jobs]
  have h2 : p.jobs[j] ∈ p.jobs := List.getElem_mem hl
  have h3 : p.jobs[j] = (j, (p.jobs[j]).2) := Prod.ext h1 rfl
  rw [← h3]; exact h2

theorem js_foldl_max_ge (r : List Rat) (a : Rat) :
    a ≤ r.foldl max a ∧ ∀ b ∈ r, b ≤ r.foldl max a := by
  induction r generalizing a with
  | nil => exact ⟨le_refl _, fun b hb => by cases hb⟩
  | cons c r ih =>
    simp only [List.foldl_cons]
    obtain ⟨h1, h2⟩ := ih (max a c)
    refine ⟨le_trans (le_max_left a c) h1, fun b hb => ?_⟩
    rcases List.mem_cons.1 hb with rfl | hb
    · exact le_trans (le_max_right a b) h1
    · exact h2 b hb

theorem js_len_le_maxL (p : JS) {L : Rat} (h : L ∈ p.lengths.map Prod.snd) : L ≤ p.maxL := by
  unfold JS.maxL
  cases hl : p.lengths.map Prod.snd with
  | nil => rw [hl] at h; cases h
  | cons a r =>
    rw [hl] at h
    simp only
    rcases List.mem_cons.1 h with rfl | h
    · exact (js_foldl_max_ge r L).1
    · exact (js_foldl_max_ge r a).2 L h

theorem js_len_nat (p : JS) (hN : p.NatLengths) {L : Rat} (h : L ∈ p.lengths.map Prod.snd) :
    ∃ n : Nat, L = (n : Rat) := by
  obtain ⟨jl, hjl, rfl⟩ := List.mem_map.1 h
  exact hN jl hjl

theorem js_maxL_nonneg (p : JS) (hN : p.NatLengths) : 0 ≤ p.maxL := by
  cases hl : p.lengths.map Prod.snd with
  | nil => simp [JS.maxL, hl]
  | cons a r =>
    have ha : a ∈ p.lengths.map Prod.snd := by rw [hl]; exact List.mem_cons_self
    obtain ⟨n, hn⟩ := js_len_nat p hN ha
    have := js_len_le_maxL p ha
    have : (0 : Rat) ≤ (n : Rat) := Nat.cast_nonneg n
    linarith

theorem js_job_nat (p : JS) (hN : p.NatLengths) {jl : Nat × Rat} (h : jl ∈ p.jobs) : ∃ n : Nat, jl.2 = (n : Rat) :=
  js_len_nat p hN (js_jobs_mem p h).2

theorem js_job_nonneg (p : JS) (hN : p.NatLengths) {jl : Nat × Rat} (h : jl ∈ p.jobs) : 0 ≤ jl.2 := by
  obtain ⟨n, hn⟩ := js_job_nat p hN h
  rw [hn]; exact Nat.cast_nonneg n

theorem js_job_le_maxL (p : JS) {jl : Nat × Rat} (h : jl ∈ p.jobs) : jl.2 ≤ p.maxL :=
  js_len_le_maxL p (js_jobs_mem p h).2

/-! ## loads, `S`, `Y`, `D` on boolean points -/

theorem js_bool_nat {x : Var → Rat} (hx : IsBool x) (i : Var) : ∃ n : Nat, x i = (n : Rat) := by
  rcases hx i with h | h
  · exact ⟨0, by simp [h]⟩
  · exact ⟨1, by simp [h]⟩

theorem js_bool_bounds {x : Var → Rat} (hx : IsBool x) (i : Var) : 0 ≤ x i ∧ x i ≤ 1 := by
  rcases hx i with h | h <;> rw [h] <;> norm_num

theorem js_load_nat (p : JS) (hN : p.NatLengths) {x : Var → Rat} (hx : IsBool x) (w : Nat) :
    ∃ n : Nat, p.load x w = (n : Rat) := by
  refine js_sumMap_nat _ (fun jl hjl => ?_)
  obtain ⟨n1, h1⟩ := js_job_nat p hN hjl
  obtain ⟨n2, h2⟩ := js_bool_nat hx (p.x jl.1 w)
  exact ⟨n1 * n2, by rw [h1, h2]; push_cast; ring⟩

theorem js_S_nat (p : JS) {x : Var → Rat} (hx : IsBool x) (j : Nat) : ∃ n : Nat, p.S x j = (n : Rat) :=
  js_sumMap_nat _ (fun _ _ => js_bool_nat hx _)

theorem js_coef_nonneg (p : JS) (n : Nat) : 0 ≤ p.coef n := by
  unfold JS.coef; split <;> positivity

theorem js_Y_nonneg (p : JS) {x : Var → Rat} (hx : IsBool x) (w : Nat) : 0 ≤ p.Y x w :=
  js_sumMap_nonneg _ (fun n _ => mul_nonneg (js_coef_nonneg p n) (js_bool_bounds hx _).1)

theorem js_D_eq (p : JS) (x : Var → Rat) (w : Nat) : p.D x w = p.load x w - p.load x 0 := by
  unfold JS.D JS.load
  rw [← js_sumMap_sub]
  exact sumMap_congr _ (fun jl _ => by ring)

theorem js_pen_nonneg (p : JS) (x : Var → Rat) : 0 ≤ p.pen x :=
  js_sumMap_nonneg _ (fun _ _ => sq_nonneg _)

/-- a positive load forces a length `≥ 1`, hence `maxL ≥ 1` -/
theorem js_load_zero_of_small (p : JS) (hN : p.NatLengths) (h : p.maxL < 1) (x : Var → Rat) (w : Nat) :
    p.load x w = 0 := by
  refine js_sumMap_zero _ (fun jl hjl => ?_)
  obtain ⟨n, hn⟩ := js_job_nat p hN hjl
  have h1 := js_job_le_maxL p hjl
  have h2 : (n : Rat) < 1 := by rw [← hn]; linarith
  have h3 : n = 0 := by
    have : n < 1 := by exact_mod_cast h2
    omega
  rw [hn, h3]; simp

/-- the arithmetic core of L1 -/
theorem js_L1_core {A B mx Y : Rat} (a b : Nat) (hB : 0 ≤ B) (hA0 : 0 ≤ A) (hA : B * mx ≤ A) (hY : 0 ≤ Y)
    (hmx : (b : Rat) < (a : Rat) → 1 ≤ mx) :
    B * ((a : Rat) - (b : Rat)) ≤ A * (Y + ((a : Rat) - (b : Rat))) ^ 2 := by
  by_cases hab : a ≤ b
  · have h1 : (a : Rat) ≤ (b : Rat) := by exact_mod_cast hab
    have h2 : 0 ≤ A * (Y + ((a : Rat) - (b : Rat))) ^ 2 := by positivity
    nlinarith
  · have hlt : b + 1 ≤ a := by omega
    have h1 : (b : Rat) + 1 ≤ (a : Rat) := by exact_mod_cast hlt
    have h3 := hmx (by linarith)
    have hBA : B ≤ A := by nlinarith
    have hd : (1 : Rat) ≤ (a : Rat) - (b : Rat) := by linarith
    have h4 : (a : Rat) - (b : Rat) ≤ (Y + ((a : Rat) - (b : Rat))) ^ 2 := by nlinarith
    have h5 : 0 ≤ (Y + ((a : Rat) - (b : Rat))) ^ 2 := sq_nonneg _
    nlinarith

/-- **(L1)** for boolean `x` and every worker `w < m`: `energy x ≥ B · load x w + A · pen x` -/
theorem js_L1 (p : JS) (A B : Rat) (hB : 0 ≤ B) (hA : B * p.maxL ≤ A) (hN : p.NatLengths)
    (x : Var → Rat) (hx : IsBool x) (w : Nat) (hw : w < p.m) :
    B * p.load x w + A * p.pen x ≤ p.energy A B x := by
  have hmx := js_maxL_nonneg p hN
  have hA0 : 0 ≤ A := le_trans (mul_nonneg hB hmx) hA
  rw [js_energy_eq]
  have hnn : ∀ w' ∈ (List.range p.m).drop 1, 0 ≤ (p.Y x w' + p.D x w') ^ 2 := fun _ _ => sq_nonneg _
  by_cases h0 : w = 0
  · subst h0
    have := mul_nonneg hA0 (js_sumMap_nonneg _ hnn)
    linarith
  · have hmem : w ∈ (List.range p.m).drop 1 := js_mem_drop_one.2 ⟨by omega, hw⟩
    have h1 := js_sumMap_ge_mem _ hnn hmem
    have h1' := mul_le_mul_of_nonneg_left h1 hA0
    obtain ⟨a, ha⟩ := js_load_nat p hN hx w
    obtain ⟨b, hb⟩ := js_load_nat p hN hx 0
    have hcore := js_L1_core (A := A) (B := B) (mx := p.maxL) (Y := p.Y x w) a b hB hA0 hA (js_Y_nonneg p hx w)
      (fun hlt => by
        by_contra hc
        have := js_load_zero_of_small p hN (not_le.1 hc) x w
        rw [ha] at this
        have : (0 : Rat) ≤ (b : Rat) := Nat.cast_nonneg b
        linarith)
    have hD : p.D x w = (a : Rat) - (b : Rat) := by rw [js_D_eq, ha, hb]
    rw [hD] at h1'
    rw [ha, hb]
    linarith

end Qv.Prob
