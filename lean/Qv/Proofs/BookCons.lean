import Qv.Proofs.Book
import Qv.Props.C03
/-!
# Qv.Proofs.BookCons — the constraint generator keeps the ancilla discipline (`Op.Fresh` discharged)

`Qv.Book.consDelta` hands the bookkeeping the terms that `Qv.addConstraint` (PCBO) resp. the PCSO wrapper
(`puso_to_pubo`, the PCBO call, `pubo_to_puso`) adds.  By `Qv.C03.pcbo_counter_and_labels` (all six relations,
every branch) the counter never decreases and every label of the added terms is a label of `P` or an ancilla
`ANC + k` with `anc ≤ k <` the returned counter; the local basis changes of `Qv.Model.Book` introduce no label.
Hence `ConsFresh` holds for every constraint whose polynomial has user keys only.
-/
namespace Qv.Book
open Qv Qv.Logic

/-- "an ancilla-form label is below the counter `a`" as a label predicate -/
def Below (a : Nat) (i : Var) : Prop := ANC ≤ i → i < ANC + a

theorem KOK_iff_keyIn (a : Nat) (k : Key) : KOK a k ↔ KeyIn (Below a) k := Iff.rfl

theorem foldl_inv {α : Type} (Q : Poly → Prop) (f : Poly → α → Poly) (l : List α)
    (hf : ∀ acc x, x ∈ l → Q acc → Q (f acc x)) {init : Poly} (h0 : Q init) : Q (l.foldl f init) := by
  induction l generalizing init with
  | nil => exact h0
  | cons a r ih =>
    simp only [List.foldl_cons]
    exact ih (fun acc x hx => hf acc x (List.mem_cons_of_mem _ hx)) (hf init a List.mem_cons_self h0)

section
variable {S : Var → Prop}

theorem varsIn_addTermS' {p : Poly} (h : VarsIn S p) {k : Key} (hk : KeyIn S k) (v : Rat) :
    VarsIn S (addTermS p k v) := varsIn_set h (keyIn_squashS hk) _

theorem genSB_sub (k : Key) : ∀ g ∈ genSB k, ∀ i ∈ g.1, i ∈ k := by
  induction k with
  | nil => intro g hg i hi; simp [genSB] at hg; subst hg; cases hi
  | cons a r ih =>
    intro g hg i hi
    simp only [genSB, List.mem_flatMap, List.mem_cons, List.not_mem_nil, or_false] at hg
    obtain ⟨kv, hkv, h | h⟩ := hg
    · subst h
      rcases List.mem_cons.mp hi with h | h
      · exact h ▸ List.mem_cons_self
      · exact List.mem_cons_of_mem _ (ih kv hkv i h)
    · subst h
      exact List.mem_cons_of_mem _ (ih kv hkv i hi)

theorem genBS_sub (k : Key) : ∀ g ∈ genBS k, ∀ i ∈ g.1, i ∈ k := by
  induction k with
  | nil => intro g hg i hi; simp [genBS] at hg; subst hg; cases hi
  | cons a r ih =>
    intro g hg i hi
    simp only [genBS, List.mem_flatMap, List.mem_cons, List.not_mem_nil, or_false] at hg
    obtain ⟨kv, hkv, h | h⟩ := hg
    · subst h
      rcases List.mem_cons.mp hi with h | h
      · exact h ▸ List.mem_cons_self
      · exact List.mem_cons_of_mem _ (ih kv hkv i h)
    · subst h
      exact List.mem_cons_of_mem _ (ih kv hkv i hi)

theorem varsIn_pusoToPubo {h : Poly} (hh : VarsIn S h) : VarsIn S (pusoToPubo h) := by
  unfold pusoToPubo
  refine foldl_inv (VarsIn S) _ h (fun acc kv hkv hacc => ?_) varsIn_nil
  refine foldl_inv (VarsIn S) _ (genSB kv.1) (fun acc2 g hg h2 => ?_) hacc
  exact varsIn_addTermB h2 (fun i hi => hh kv hkv i (genSB_sub kv.1 g hg i hi)) _

theorem varsIn_puboToPuso {p : Poly} (hp : VarsIn S p) : VarsIn S (puboToPuso p) := by
  unfold puboToPuso
  refine foldl_inv (VarsIn S) _ p (fun acc kv hkv hacc => ?_) varsIn_nil
  refine foldl_inv (VarsIn S) _ (genBS kv.1) (fun acc2 g hg h2 => ?_) hacc
  exact varsIn_addTermS' h2 (fun i hi => hp kv hkv i (genBS_sub kv.1 g hg i hi)) _

theorem varsIn_constructS {d : Poly} (hd : VarsIn S d) : VarsIn S (constructS d) := by
  unfold constructS
  exact foldl_inv (VarsIn S) _ d (fun acc kv hkv hacc => varsIn_addTermS' hacc (hd kv hkv) _) varsIn_nil

theorem varsIn_constructB' {d : Poly} (hd : VarsIn S d) : VarsIn S (constructB d) :=
  varsIn_iaddB varsIn_nil hd

/-- `dictOrder` only permutes the terms -/
theorem mem_dictOrder (st : St) (kv : Key × Rat) (h : kv ∈ dictOrder st) : kv ∈ st.terms := by
  unfold dictOrder at h
  split at h
  · split at h
    · rename_i e; rw [e]; simp only [List.mem_cons, List.not_mem_nil, or_false] at h ⊢; tauto
    · rename_i e; rw [e]; simp only [List.mem_cons, List.not_mem_nil, or_false] at h ⊢; tauto
    · exact h
  · split at h
    · split at h
      · rename_i e; rw [e]; simp only [List.mem_cons, List.not_mem_nil, or_false] at h ⊢; tauto
      · exact h
    · exact h

theorem varsIn_dictOrder {st : St} (h : VarsIn S st.terms) : VarsIn S (dictOrder st) :=
  fun kv hkv => h kv (mem_dictOrder st kv hkv)

end

theorem below_of_user {k : Key} (h : UserKey k) (a : Nat) : KeyIn (Below a) k :=
  fun i hi h1 => absurd (h i hi) (Nat.not_lt.mpr h1)

/-- the PCBO call on an empty accumulator: counter monotone, all labels below the returned counter -/
theorem pcbo_delta_ok (anc : Nat) (r : Rel) (Pc : Poly) (lam : Rat) (lt : Bool) (b : Option Rat × Option Rat)
    (hP : ∀ a, VarsIn (Below a) Pc) :
    anc ≤ (addConstraint r { anc := anc } Pc lam lt b true).anc ∧
    VarsIn (Below (addConstraint r { anc := anc } Pc lam lt b true).anc)
      (addConstraint r { anc := anc } Pc lam lt b true).terms := by
  obtain ⟨h1, h2⟩ := Qv.C03.pcbo_counter_and_labels r { anc := anc } Pc lam lt b true
  refine ⟨h1, h2 _ varsIn_nil (hP _) (fun k _ hk _ => ?_)⟩
  exact Nat.add_lt_add_left hk _

/-- **`Op.Fresh` discharged**: every comparison constraint on a polynomial with user keys is `ConsFresh`, from
every counter value, for PCBO and PCSO. -/
theorem consFresh_of_user (κ : Kind) (anc : Nat) (r : Rel) (P : Poly) (lam : Rat) (lt : Bool)
    (b : Option Rat × Option Rat) (hP : ∀ kv ∈ P, UserKey kv.1) : ConsFresh κ anc r P lam lt b := by
  have hPb : ∀ a, VarsIn (Below a) P := fun a kv hkv => below_of_user (hP kv hkv) a
  unfold ConsFresh consDelta
  by_cases hκ : (κ == .pcso) = true
  · rw [if_pos hκ]
    by_cases hl : lam = 0
    · rw [if_pos hl]
      exact ⟨Nat.le_refl _, fun kv h => by cases h⟩
    · rw [if_neg hl]
      obtain ⟨h1, h2⟩ := pcbo_delta_ok anc r (constructB (pusoToPubo (constructS P))) lam lt b
        (fun a => varsIn_constructB' (varsIn_pusoToPubo (varsIn_constructS (hPb a))))
      exact ⟨h1, fun kv hkv => varsIn_puboToPuso (varsIn_dictOrder h2) kv hkv⟩
  · rw [if_neg hκ]
    obtain ⟨h1, h2⟩ := pcbo_delta_ok anc r (constructB P) lam lt b (fun a => varsIn_constructB' (hPb a))
    exact ⟨h1, fun kv hkv => varsIn_dictOrder h2 kv hkv⟩

theorem fresh_of_userAt (κ : Kind) (op : Op) (h : op.UserAt κ) : op.Fresh := by
  cases op with
  | cons r P lam lt lo hi => exact fun κ' anc => consFresh_of_user κ' anc r P lam lt (lo, hi) h
  | _ => trivial

theorem fresh_of_user (op : Op) (h : op.User) : op.Fresh := fresh_of_userAt .pubo op (userAt_of_user _ op h)

/-- the class is kept and I4 holds along every history of user edits of the code as it is now (all repairs on) -/
theorem run_I4_user {fx : Fix} (h2 : fx.d2 = true) (hr : fx.dr = true) (h10 : fx.d10 = true) (κ : Kind)
    (ops : List Op) (hu : ∀ op ∈ ops, op.UserAt κ) : (run fx κ ops).kind = κ ∧ I4 (run fx κ ops) :=
  run_I4 κ ops (fun _ _ => ⟨Or.inl h2, Or.inl hr⟩) h10 hu (fun op h => fresh_of_userAt κ op (hu op h))

end Qv.Book
