import Qv.Model.ResultsX
import Qv.Proofs.Results
import Mathlib.Data.List.Basic
/-!
# ResX ↔ Res — on finite values the model of the generated-source tie is the model of C13

`Qv.ResX` repeats `Qv.Res` over values that may be `±inf`.  `emb` embeds a `Res.Result` (rational value);
for every operation `ResX.f (emb x) = emb (Res.f x)`.  With `Qv/Proofs/GenEq/Results.lean`
(`Qv.Gen.<f> = ResX.<f>`, generated from the Python source) this ties the source to the functions the theorems
of `Qv/Props/C13.lean` are about: `Impl.fixed`, `construct`, `Coll.append`, … of `Qv.Res`.
-/
namespace Qv.ResX
open Qv

theorem ofEVal_injective : Function.Injective ofEVal := by
  intro a b h
  cases a <;> cases b <;> simp_all [ofEVal]

theorem emb_injective : Function.Injective emb := by
  intro a b h
  obtain ⟨s, v, f⟩ := a
  obtain ⟨s', v', f'⟩ := b
  simp [emb] at h
  simp [h.1, ofEVal_injective h.2.1, h.2.2]

@[simp] theorem emb_inj {a b : Res.Result} : emb a = emb b ↔ a = b := emb_injective.eq_iff

/-- `ofEVal` carries the `<` of `EVal` (the values of `Qv.Res`) to `Num.lt` -/
@[simp] theorem lt_fin (a b : EVal) : Num.lt (ofEVal a) (ofEVal b) = decide (a < b) := by
  cases a <;> cases b <;> simp [ofEVal, Num.lt, EVal.lt_def, EVal.lt]

/-- … and `≤` to `Num.le` -/
@[simp] theorem le_fin (a b : EVal) : Num.le (ofEVal a) (ofEVal b) = decide (a ≤ b) := by
  simp only [Num.le, lt_fin]
  by_cases h : a ≤ b
  · simp [h, not_lt.mpr h]
  · simp [h, not_le.mp h]

@[simp] theorem emb_value (r : Res.Result) : (emb r).value = ofEVal r.value := rfl
@[simp] theorem emb_state (r : Res.Result) : (emb r).state = r.state := rfl
@[simp] theorem emb_spin (r : Res.Result) : (emb r).spin = r.spin := rfl

theorem better_emb (r : Res.Result) (b : Option Res.Result) : better (emb r) (b.map emb) = Res.better r b := by
  cases b <;> simp [better, Res.better]

theorem upd_emb (b : Option Res.Result) (r : Res.Result) : upd (b.map emb) (emb r) = (Res.upd b r).map emb := by
  simp only [upd, Res.upd, better_emb]
  cases Res.better r b <;> simp

theorem foldl_upd_emb (l : List Res.Result) (b : Option Res.Result) :
    (l.map emb).foldl upd (b.map emb) = (l.foldl Res.upd b).map emb := by
  induction l generalizing b with
  | nil => rfl
  | cons x xs ih => simp only [List.map_cons, List.foldl_cons, upd_emb, ih]

theorem recompute_emb (l : List Res.Result) : recompute (l.map emb) = (Res.recompute l).map emb := by
  have := foldl_upd_emb l none
  simpa [recompute, Res.recompute] using this

theorem append_emb (s : Res.Coll) (r : Res.Result) : (embC s).append (emb r) = embC (s.append r) := by
  simp [Coll.append, Res.Coll.append, embC, upd_emb]

theorem foldl_append_emb (l : List Res.Result) (s : Res.Coll) :
    (l.map emb).foldl Coll.append (embC s) = embC (l.foldl Res.Coll.append s) := by
  induction l generalizing s with
  | nil => rfl
  | cons x xs ih => simp only [List.map_cons, List.foldl_cons, append_emb, ih]

theorem construct_emb (l : List Res.Result) : construct (l.map emb) = embC (Res.construct l) := by
  have := foldl_append_emb l Res.Coll.empty
  simpa [construct, Res.construct, embC, Coll.empty, Res.Coll.empty] using this

theorem insert_emb (s : Res.Coll) (i : Int) (r : Res.Result) : (embC s).insert i (emb r) = embC (s.insert i r) := by
  simp [Coll.insert, Res.Coll.insert, embC, upd_emb, insertAt, Res.insertAt, List.map_take, List.map_drop]

theorem eq_emb (r : Res.Result) (b : Option Res.Result) : (emb r).eq (b.map emb) = Res.eqBest r b := by
  cases b <;> simp [Result.eq, Res.eqBest]

theorem erase_emb (l : List Res.Result) (r : Res.Result) : (l.map emb).erase (emb r) = (l.erase r).map emb := by
  induction l with
  | nil => rfl
  | cons x xs ih =>
    by_cases h : x = r
    · subst h; simp
    · have : emb x ≠ emb r := fun h' => h (emb_injective h')
      simp [h, this, ih]

theorem mem_emb (l : List Res.Result) (r : Res.Result) : emb r ∈ l.map emb ↔ r ∈ l := by
  simp [List.mem_map]

theorem remove_emb (s : Res.Coll) (r : Res.Result) :
    (embC s).remove (emb r) = (fun p => (embC p.1, p.2)) <$> Res.Coll.remove s r := by
  unfold Coll.remove Res.Coll.remove
  by_cases hm : r ∈ s.items
  · have hm' : emb r ∈ (embC s).items := by simpa [embC] using hm
    simp only [hm, hm', if_true]
    have he : (emb r).eq (embC s).best = Res.eqBest r s.best := by simpa [embC] using eq_emb r s.best
    rw [he]
    cases hb : Res.eqBest r s.best with
    | error e => simp [embC, erase_emb, pure, Except.pure, Functor.map, Except.map]
    | ok v => cases v <;> simp [embC, erase_emb, recompute_emb, pure, Except.pure, Functor.map, Except.map]
  · have hm' : ¬ emb r ∈ (embC s).items := by simpa [embC] using hm
    simp [hm, hm', throw, throwThe, MonadExceptOf.throw, Functor.map, Except.map]

theorem pop_emb (s : Res.Coll) (i : Int) :
    (embC s).pop i = (fun p => (embC p.1, emb p.2.1, p.2.2)) <$> Res.Coll.pop s i := by
  unfold Coll.pop Res.Coll.pop
  have hl : (embC s).items.length = s.items.length := by simp [embC]
  rw [hl]
  cases hn : Res.normIndex s.items.length i with
  | none => simp [throw, throwThe, MonadExceptOf.throw, Functor.map, Except.map]
  | some k =>
    have hk : (embC s).items[k]? = (s.items[k]?).map emb := by simp [embC]
    simp only [hk]
    cases hx : s.items[k]? with
    | none => simp [throw, throwThe, MonadExceptOf.throw, Functor.map, Except.map]
    | some x =>
      have he : (emb x).eq (embC s).best = Res.eqBest x s.best := by simpa [embC] using eq_emb x s.best
      simp only [Option.map_some, he]
      cases hb : Res.eqBest x s.best with
      | error e => simp [embC, removeAt, Res.removeAt, List.map_take, List.map_drop, pure, Except.pure, Functor.map, Except.map]
      | ok v =>
        cases v <;> simp [embC, removeAt, Res.removeAt, List.map_take, List.map_drop, ← recompute_emb, pure, Except.pure,
          Functor.map, Except.map]

theorem extendList_emb (s : Res.Coll) (l : List Res.Result) :
    (embC s).extendList (l.map emb) = embC (s.extendList l) := foldl_append_emb l s

theorem extendAR_emb (s o : Res.Coll) : .ok ((embC s).extendAR (embC o)) = embC <$> Res.extendARFixed s o := by
  unfold Coll.extendAR Res.extendARFixed
  cases ho : o.best <;> simp [embC, ho, upd_emb, pure, Except.pure, Functor.map, Except.map]

theorem clear_emb (s : Res.Coll) : (embC s).clear = embC s.clear := rfl

theorem fixup_emb (s : Res.Coll) : (embC s).fixup = embC s.fixup := by
  simp [Coll.fixup, Res.Coll.fixup, embC, recompute_emb]

theorem setItem_emb (s : Res.Coll) (i : Int) (r : Res.Result) :
    (embC s).setItem i (emb r) = embC <$> Res.Impl.fixed.setItem s i r := by
  unfold Coll.setItem
  have hl : (embC s).items.length = s.items.length := by simp [embC]
  rw [hl]
  simp only [Res.Impl.fixed, Res.setItemList]
  cases hn : Res.normIndex s.items.length i <;>
    simp [embC, Coll.fixup, Res.Coll.fixup, replaceAt, Res.replaceAt, List.map_take, List.map_drop, ← recompute_emb,
      throw, throwThe, MonadExceptOf.throw, pure, Except.pure, bind, Except.bind, Functor.map, Except.map]

theorem delItem_emb (s : Res.Coll) (i : Int) : (embC s).delItem i = embC <$> Res.Impl.fixed.delItem s i := by
  unfold Coll.delItem
  have hl : (embC s).items.length = s.items.length := by simp [embC]
  rw [hl]
  simp only [Res.Impl.fixed, Res.delItemList]
  cases hn : Res.normIndex s.items.length i <;>
    simp [embC, Coll.fixup, Res.Coll.fixup, removeAt, Res.removeAt, List.map_take, List.map_drop, ← recompute_emb,
      throw, throwThe, MonadExceptOf.throw, pure, Except.pure, bind, Except.bind, Functor.map, Except.map]

theorem getItem_emb (s : Res.Coll) (i : Int) : (embC s).getItem i = emb <$> Res.Coll.getItem s i := by
  unfold Coll.getItem Res.Coll.getItem
  have hl : (embC s).items.length = s.items.length := by simp [embC]
  rw [hl]
  cases hn : Res.normIndex s.items.length i with
  | none => simp [throw, throwThe, MonadExceptOf.throw, Functor.map, Except.map]
  | some k =>
    have hk : (embC s).items[k]? = (s.items[k]?).map emb := by simp [embC]
    simp only [hk]
    cases hx : s.items[k]? <;> simp [throw, throwThe, MonadExceptOf.throw, pure, Except.pure, Functor.map, Except.map]

theorem copy_emb (s : Res.Coll) : (embC s).copy = embC s.copy := by
  simp [Coll.copy, Res.Coll.copy, embC, construct_emb]

theorem add_emb (s : Res.Coll) (l : List Res.Result) : (embC s).add (l.map emb) = embC (s.add l) := by
  simp only [Coll.add, Res.Coll.add, embC, ← List.map_append, construct_emb]

theorem repeatList_emb (l : List Res.Result) (n : Nat) : repeatList (l.map emb) n = (Res.repeatList l n).map emb := by
  induction n with
  | zero => rfl
  | succ n ih => simp [repeatList, Res.repeatList, ih]

theorem mul_emb (s : Res.Coll) (n : Int) : (embC s).mul n = embC (s.mul n) := by
  simp only [Coll.mul, Res.Coll.mul, embC, mulList, Res.mulList, repeatList_emb, construct_emb]

theorem filter_emb (s : Res.Coll) (f : Result → Bool) : (embC s).filter f = embC (s.filter (fun r => f (emb r))) := by
  simp only [Coll.filter, Res.Coll.filter, embC, List.filter_map, construct_emb]
  rfl

theorem filterStates_emb (s : Res.Coll) (f : Res.PState → Bool) :
    (embC s).filterStates f = embC (s.filterStates f) := by
  simp only [Coll.filterStates, Res.Coll.filterStates, embC, List.filter_map, construct_emb]
  rfl

theorem convertStates_emb (s : Res.Coll) (f : Res.PState → Res.PState) :
    (embC s).convertStates f = embC (s.convertStates f) := by
  simp only [Coll.convertStates, Res.Coll.convertStates, Coll.applyFunction, Res.Coll.applyFunction, embC]
  have : List.map (fun r : Result => (⟨f r.state, r.value, r.spin⟩ : Result)) (List.map emb s.items) =
      List.map emb (List.map (fun r : Res.Result => (⟨f r.state, r.value, r.spin⟩ : Res.Result)) s.items) := by
    simp [List.map_map, Function.comp_def, emb]
  rw [this]
  exact construct_emb _

theorem result_toBoolean_emb (r : Res.Result) : (emb r).toBoolean = emb <$> Res.Result.toBoolean r := by
  unfold Result.toBoolean Res.Result.toBoolean
  cases h : r.spin <;> simp [emb, h, pure, Except.pure, bind, Except.bind, Functor.map, Except.map]
  cases Res.spinToBool r.state <;> rfl

theorem result_toSpin_emb (r : Res.Result) : (emb r).toSpin = emb <$> Res.Result.toSpin r := by
  unfold Result.toSpin Res.Result.toSpin
  cases h : r.spin <;> simp [emb, h, pure, Except.pure, bind, Except.bind, Functor.map, Except.map]
  cases Res.boolToSpin r.state <;> rfl

theorem mapE_emb (f : Result → Except Err Result) (g : Res.Result → Except Err Res.Result)
    (h : ∀ r, f (emb r) = emb <$> g r) (l : List Res.Result) :
    mapE f (l.map emb) = (List.map emb) <$> Res.mapE g l := by
  induction l with
  | nil => rfl
  | cons x xs ih =>
    simp only [List.map_cons, mapE, Res.mapE, h, ih]
    cases g x with
    | error e => rfl
    | ok y => cases Res.mapE g xs <;> rfl

theorem toBoolean_emb (s : Res.Coll) : (embC s).toBoolean = embC <$> Res.Coll.toBoolean s := by
  unfold Coll.toBoolean Res.Coll.toBoolean
  have := mapE_emb Result.toBoolean Res.Result.toBoolean result_toBoolean_emb s.items
  simp only [embC] at this ⊢
  rw [this]
  cases Res.mapE Res.Result.toBoolean s.items <;>
    simp [construct_emb, embC, pure, Except.pure, bind, Except.bind, Functor.map, Except.map]

theorem toSpin_emb (s : Res.Coll) : (embC s).toSpin = embC <$> Res.Coll.toSpin s := by
  unfold Coll.toSpin Res.Coll.toSpin
  have := mapE_emb Result.toSpin Res.Result.toSpin result_toSpin_emb s.items
  simp only [embC] at this ⊢
  rw [this]
  cases Res.mapE Res.Result.toSpin s.items <;>
    simp [construct_emb, embC, pure, Except.pure, bind, Except.bind, Functor.map, Except.map]

theorem lt_emb (r b : Res.Result) : (emb r).lt (some (emb b)) = .ok (decide (r.value < b.value)) := by
  simp [Result.lt, pure, Except.pure]

theorem le_emb (r b : Res.Result) : (emb r).le (some (emb b)) = .ok (decide (r.value ≤ b.value)) := by
  simp [Result.le, pure, Except.pure]

/-! ### slices -/

theorem listGetSlice_emb (l : List Res.Result) (sl : Res.Slice) :
    listGetSlice (l.map emb) sl = (List.map emb) <$> Res.listGetSlice l sl := by
  unfold listGetSlice Res.listGetSlice
  rw [List.length_map]
  cases sl.positions l.length with
  | error e => rfl
  | ok ps =>
    simp [bind, Except.bind, pure, Except.pure, Functor.map, Except.map, List.map_filterMap, List.getElem?_map]

theorem dropPositions_emb (ps : List Nat) (l : List Res.Result) (i : Nat) :
    dropPositions ps (l.map emb) i = (Res.dropPositions ps l i).map emb := by
  induction l generalizing i with
  | nil => rfl
  | cons x xs ih =>
    simp only [List.map_cons, dropPositions, Res.dropPositions, ih]
    split <;> simp

theorem listDelSlice_emb (l : List Res.Result) (sl : Res.Slice) :
    listDelSlice (l.map emb) sl = (List.map emb) <$> Res.listDelSlice l sl := by
  unfold listDelSlice Res.listDelSlice
  rw [List.length_map]
  cases sl.positions l.length with
  | error e => rfl
  | ok ps => simp [bind, Except.bind, pure, Except.pure, Functor.map, Except.map, dropPositions_emb]

theorem foldl_emb (fX : List Result → Nat → List Result) (f : List Res.Result → Nat → List Res.Result)
    (h : ∀ acc k, fX (acc.map emb) k = (f acc k).map emb) (ks : List Nat) (acc : List Res.Result) :
    ks.foldl fX (acc.map emb) = (ks.foldl f acc).map emb := by
  induction ks generalizing acc with
  | nil => rfl
  | cons k ks ih => simp only [List.foldl_cons, h, ih]

theorem listSetSlice_emb (l : List Res.Result) (sl : Res.Slice) (v : List Res.Result) :
    listSetSlice (l.map emb) sl (v.map emb) = (List.map emb) <$> Res.listSetSlice l sl v := by
  unfold listSetSlice Res.listSetSlice
  rw [List.length_map]
  cases sl.indices l.length with
  | error e => rfl
  | ok q =>
    obtain ⟨start, stop, step, len⟩ := q
    simp only [bind, Except.bind]
    by_cases h1 : step = 1
    · simp [h1, pure, Except.pure, Functor.map, Except.map, List.map_take, List.map_drop]
    · by_cases h2 : v.length = len
      · simp only [h1, if_false, List.length_map, h2, ne_eq, not_true_eq_false, pure, Except.pure, Functor.map, Except.map]
        refine congrArg _ (foldl_emb _ _ ?_ _ _)
        intro acc k
        simp only [List.getElem?_map]
        cases v[k]? <;> simp [List.map_set]
      · simp [h1, h2, throw, throwThe, MonadExceptOf.throw, Functor.map, Except.map]

theorem getSlice_emb (s : Res.Coll) (sl : Res.Slice) : (embC s).getSlice sl = embC <$> Res.Coll.getSlice s sl := by
  unfold Coll.getSlice Res.Coll.getSlice
  simp only [embC, listGetSlice_emb]
  cases Res.listGetSlice s.items sl <;>
    simp [construct_emb, embC, pure, Except.pure, bind, Except.bind, Functor.map, Except.map]

theorem setSlice_emb (s : Res.Coll) (sl : Res.Slice) (v : List Res.Result) :
    (embC s).setSlice sl (v.map emb) = embC <$> Res.Impl.fixed.setSlice s sl v := by
  unfold Coll.setSlice
  simp only [Res.Impl.fixed, Res.setSliceList, embC, listSetSlice_emb]
  cases Res.listSetSlice s.items sl v <;>
    simp [Coll.fixup, Res.Coll.fixup, recompute_emb, embC, pure, Except.pure, bind, Except.bind, Functor.map, Except.map]

theorem delSlice_emb (s : Res.Coll) (sl : Res.Slice) :
    (embC s).delSlice sl = embC <$> Res.Impl.fixed.delSlice s sl := by
  unfold Coll.delSlice
  simp only [Res.Impl.fixed, Res.delSliceList, embC, listDelSlice_emb]
  cases Res.listDelSlice s.items sl <;>
    simp [Coll.fixup, Res.Coll.fixup, recompute_emb, embC, pure, Except.pure, bind, Except.bind, Functor.map, Except.map]

/-- the invariant of C13, read on the embedded collection: what `Res.Inv` says about `embC c` -/
theorem construct_emb_inv (l : List Res.Result) : ∃ c, construct (l.map emb) = embC c ∧ Res.Inv c :=
  ⟨Res.construct l, construct_emb l, Res.inv_construct l⟩

end Qv.ResX
