import Qv.Proofs.BruteLoop
/-!
# Helper lemmas for C09, part 3: from the loop invariant to the result of `solve`
-/
namespace Qv.Brute
open Qv

/-- What the result must satisfy, relative to the objective `E` on total assignments. -/
def Spec (spin : Bool) (vars : List Var) (valid : Assign → Bool) (allS : Bool)
    (E : (Var → Rat) → Rat) (out : Out) : Prop :=
  ((∀ g, Dom spin g → valid (restrict vars g) = false) → out.obj = none ∧ out.sol = emptySol allS) ∧
  ((∃ g, Dom spin g ∧ valid (restrict vars g) = true) → ∃ m, out.obj = some m ∧
    (∀ g, Dom spin g → valid (restrict vars g) = true → m ≤ E g) ∧
    (∃ g, Dom spin g ∧ valid (restrict vars g) = true ∧ E g = m ∧
      (allS = false → out.sol = .one (restrict vars g))) ∧
    (allS = true → ∃ l, out.sol = .many l ∧ l.Nodup ∧
      ∀ a, a ∈ l ↔ ∃ g, Dom spin g ∧ a = restrict vars g ∧ valid a = true ∧ E g = m))

theorem Spec.congr {spin : Bool} {vars : List Var} {valid : Assign → Bool} {allS : Bool}
    {E E' : (Var → Rat) → Rat} {out : Out} (h : ∀ g, Dom spin g → E g = E' g)
    (S : Spec spin vars valid allS E out) : Spec spin vars valid allS E' out := by
  refine ⟨S.1, fun hex => ?_⟩
  obtain ⟨m, ho, hmin, ⟨g, hg, hv, he, hs⟩, hall⟩ := S.2 hex
  refine ⟨m, ho, fun g' hg' hv' => h g' hg' ▸ hmin g' hg' hv', ⟨g, hg, hv, h g hg ▸ he, hs⟩, ?_⟩
  intro ha
  obtain ⟨l, hl, hnd, hm⟩ := hall ha
  refine ⟨l, hl, hnd, fun a => (hm a).trans ?_⟩
  constructor
  · rintro ⟨g', hg', h1, h2, h3⟩; exact ⟨g', hg', h1, h2, h g' hg' ▸ h3⟩
  · rintro ⟨g', hg', h1, h2, h3⟩; exact ⟨g', hg', h1, h2, (h g' hg').symm ▸ h3⟩

/-- the value computed by the code, as a total function (0 where the code would raise) -/
def valOr0 (fn : Fn) (terms : Poly) (x : Assign) : Rat :=
  match fn.valueP x terms with
  | .ok v => v
  | .error _ => 0

/-- **The enumeration part of `_solve_bruteforce`** (from `try: N = …` to `return best`). -/
theorem solveMain_spec (fn : Fn) (D : Model) (terms : Poly) (allS : Bool) (valid : Assign → Bool)
    (order vars : List Var) (hv : D.vars order = .ok vars) (hnd : vars.Nodup)
    (hc : Covers terms vars) (hd : fn.DegOK terms) :
    ∃ out, solveCore.solveMain D terms allS valid fn.spin fn.valueP order = .ok out ∧
      out.after = terms ∧ Spec fn.spin vars valid allS (fun g => eval g terms) out := by
  let f := valOr0 fn terms
  have hf : ∀ g, Dom fn.spin g → fn.valueP (restrict vars g) terms = .ok (eval g terms) ∧
      f (restrict vars g) = eval g terms := by
    intro g hg
    have := Fn.valueP_restrict fn (vars := vars) hc hg hd
    exact ⟨this, by simp [f, valOr0, this]⟩
  have hloop : loopM (fun x => fn.valueP x terms) allS valid (enumerate fn.spin vars) St.init =
      .ok (loop f allS valid (enumerate fn.spin vars) St.init) := by
    apply loopM_eq_loop
    intro x hx _
    obtain ⟨g, hg, rfl⟩ := exists_of_mem_enumerate hnd hx
    rw [(hf g hg).1, (hf g hg).2]
  have I := loop_inv (valid := valid) (enumerate fn.spin vars) (Inv.init f allS)
  simp only [List.nil_append] at I
  generalize hst : loop f allS valid (enumerate fn.spin vars) St.init = st at I hloop
  -- membership in the list of processed valid assignments
  have hmem : ∀ y, y ∈ (enumerate fn.spin vars).filter valid ↔
      ∃ g, Dom fn.spin g ∧ y = restrict vars g ∧ valid y = true := by
    intro y
    rw [List.mem_filter]
    constructor
    · rintro ⟨hy, hvy⟩
      obtain ⟨g, hg, rfl⟩ := exists_of_mem_enumerate hnd hy
      exact ⟨g, hg, rfl, hvy⟩
    · rintro ⟨g, hg, rfl, hvy⟩
      exact ⟨restrict_mem_enumerate hnd hg, hvy⟩
  cases hb : st.bestV with
  | none =>
    obtain ⟨hvs, hinit⟩ := I.none_case hb
    have hout : solveCore.solveMain D terms allS valid fn.spin fn.valueP order =
        .ok ⟨none, emptySol allS, terms⟩ := by
      subst hinit
      cases allS <;> simp only [solveCore.solveMain, hv, hloop, bind, Except.bind] <;>
        simp [St.init, lookupA, emptySol, pure, Except.pure]
    refine ⟨_, hout, rfl, fun _ => ⟨rfl, rfl⟩, ?_⟩
    rintro ⟨g, hg, hvg⟩
    have : restrict vars g ∈ (enumerate fn.spin vars).filter valid := (hmem _).mpr ⟨g, hg, rfl, hvg⟩
    rw [hvs] at this
    cases this
  | some b =>
    obtain ⟨hbx, hfb, hmin⟩ := I.some_case b hb
    obtain ⟨g0, hg0, hx0, hv0⟩ := (hmem _).mp hbx
    have hE0 : eval g0 terms = b := by rw [← (hf g0 hg0).2, ← hx0]; exact hfb
    have hminE : ∀ g, Dom fn.spin g → valid (restrict vars g) = true → b ≤ eval g terms := by
      intro g hg hvg
      rw [← (hf g hg).2]
      exact hmin _ ((hmem _).mpr ⟨g, hg, rfl, hvg⟩)
    have hnone : ¬ ∀ g, Dom fn.spin g → valid (restrict vars g) = false := by
      intro h
      have := h g0 hg0
      rw [← hx0, hv0] at this
      cases this
    cases allS with
    | false =>
      have hout : solveCore.solveMain D terms false valid fn.spin fn.valueP order =
          .ok ⟨some b, .one st.bestX, terms⟩ := by
        simp [solveCore.solveMain, hv, hloop, hb, bind, Except.bind, pure, Except.pure]
      refine ⟨_, hout, rfl, fun h => absurd h hnone, fun _ => ?_⟩
      refine ⟨b, rfl, hminE, ⟨g0, hg0, hx0 ▸ hv0, hE0, fun _ => by rw [hx0]⟩, fun h => by cases h⟩
    | true =>
      obtain ⟨hL1, _⟩ := I.all_case rfl b hb
      have hout : solveCore.solveMain D terms true valid fn.spin fn.valueP order =
          .ok ⟨some b, .many (((enumerate fn.spin vars).filter valid).filter
            (fun y => decide (f y = b))), terms⟩ := by
        simp [solveCore.solveMain, hv, hloop, hb, hL1, bind, Except.bind, pure, Except.pure]
      refine ⟨_, hout, rfl, fun h => absurd h hnone, fun _ => ?_⟩
      refine ⟨b, rfl, hminE, ⟨g0, hg0, hx0 ▸ hv0, hE0, fun h => by cases h⟩, fun _ => ?_⟩
      refine ⟨_, rfl, ((nodup_enumerate hnd fn.spin).filter _).filter _, ?_⟩
      intro a
      rw [List.mem_filter, hmem]
      constructor
      · rintro ⟨⟨g, hg, rfl, hvg⟩, hfa⟩
        refine ⟨g, hg, rfl, hvg, ?_⟩
        show eval g terms = b
        rw [← (hf g hg).2]
        simpa using hfa
      · rintro ⟨g, hg, rfl, hvg, hE⟩
        refine ⟨⟨g, hg, rfl, hvg⟩, ?_⟩
        have hE' : eval g terms = b := hE
        rw [(hf g hg).2]
        simpa using hE'

/-! ## the pop / re-insert of the offset -/

/-- a Python dict has pairwise distinct keys -/
def IsDict (p : Poly) : Prop := (p.map Prod.fst).Nodup

theorem get_erase_self_of_isDict {p : Poly} (h : IsDict p) (k : Key) : get (erase p k) k = 0 := by
  induction p with
  | nil => rfl
  | cons kv r ih =>
    obtain ⟨k', v⟩ := kv
    simp only [IsDict, List.map_cons, List.nodup_cons] at h
    by_cases hk : k' = k
    · subst hk
      simp only [erase, if_true]
      -- `k'` is not a key of `r`
      have : ∀ (q : Poly), k' ∉ q.map Prod.fst → get q k' = 0 := by
        intro q hq
        induction q with
        | nil => rfl
        | cons kv' r' ih' =>
          obtain ⟨k'', v'⟩ := kv'
          simp only [List.map_cons, List.mem_cons, not_or] at hq
          have : ¬ k'' = k' := fun e => hq.1 e.symm
          simp [get, this, ih' hq.2]
      exact this r h.1
    · simp only [erase, hk, if_false, get]
      exact ih h.2

theorem mem_erase_sub {p : Poly} {k : Key} {kv : Key × Rat} (h : kv ∈ erase p k) : kv ∈ p := by
  induction p with
  | nil => cases h
  | cons kv' r ih =>
    obtain ⟨k', v⟩ := kv'
    by_cases hk : k' = k
    · simp only [erase, hk, if_true] at h
      exact List.mem_cons_of_mem _ h
    · simp only [erase, hk, if_false] at h
      rcases List.mem_cons.mp h with h | h
      · exact h ▸ List.mem_cons_self
      · exact List.mem_cons_of_mem _ (ih h)

theorem mem_put_sub {p : Poly} {k : Key} {v : Rat} {kv : Key × Rat} (h : kv ∈ put p k v) :
    kv ∈ p ∨ kv = (k, v) := by
  induction p with
  | nil => right; simpa [put] using h
  | cons kv' r ih =>
    obtain ⟨k', v'⟩ := kv'
    by_cases hk : k' = k
    · simp only [put, hk, if_true] at h
      rcases List.mem_cons.mp h with h | h
      · right; exact h
      · left; exact List.mem_cons_of_mem _ h
    · simp only [put, hk, if_false] at h
      rcases List.mem_cons.mp h with h | h
      · left; exact h ▸ List.mem_cons_self
      · rcases ih h with h | h
        · left; exact List.mem_cons_of_mem _ h
        · right; exact h

/-- the terms after `offset = D.pop(()); D[()] = offset` contain nothing new but the offset entry -/
theorem mem_restored {κ : Kind} {p : Poly} {kv : Key × Rat}
    (h : kv ∈ store κ (erase p []) [] (get p [])) : kv ∈ p ∨ kv.1 = [] := by
  have hput : kv ∈ put (erase p []) [] (get p []) → kv ∈ p ∨ kv.1 = [] := by
    intro h
    rcases mem_put_sub h with h | h
    · left; exact mem_erase_sub h
    · right; rw [h]
  cases κ <;> first
    | exact hput h
    | (simp only [store, set] at h
       split at h
       · left; exact mem_erase_sub (mem_erase_sub h)
       · exact hput h)

theorem eval_restored (κ : Kind) {p : Poly} (hp : IsDict p) (g : Var → Rat) :
    eval g (store κ (erase p []) [] (get p [])) = eval g p := by
  have h0 := get_erase_self_of_isDict hp []
  have : eval g (set (erase p []) [] (get p [])) = eval g p := by
    rw [eval_set, eval_erase, h0]; simp
  cases κ <;> first
    | (simp only [store]; rw [eval_put, eval_erase, h0]; simp)
    | exact this

theorem hasKey_iff_mem (p : Poly) (k : Key) : hasKey p k = true ↔ k ∈ p.map Prod.fst := by
  induction p with
  | nil => simp [hasKey]
  | cons kv r ih =>
    obtain ⟨k', v⟩ := kv
    by_cases hk : k' = k
    · simp [hasKey, hk]
    · have : ¬ k = k' := fun e => hk e.symm
      simp [hasKey, hk, this, ih]

/-- `erase` then append is a permutation when the key is present -/
theorem erase_append_perm {p : Poly} {k : Key} (h : hasKey p k = true) :
    (erase p k ++ [(k, get p k)]).Perm p := by
  induction p with
  | nil => simp [hasKey] at h
  | cons kv r ih =>
    obtain ⟨k', v⟩ := kv
    by_cases hk : k' = k
    · subst hk
      simp only [erase, get, if_true]
      exact (List.perm_append_comm (l₁ := r) (l₂ := [(k', v)]))
    · have hr : hasKey r k = true := by simpa [hasKey, hk] using h
      simp only [erase, get, hk, if_false, List.cons_append]
      exact (ih hr).cons _

theorem put_fresh {p : Poly} {k : Key} (v : Rat) (h : k ∉ p.map Prod.fst) : put p k v = p ++ [(k, v)] := by
  induction p with
  | nil => rfl
  | cons kv r ih =>
    obtain ⟨k', v'⟩ := kv
    simp only [List.map_cons, List.mem_cons, not_or] at h
    have : ¬ k' = k := fun e => h.1 e.symm
    simp [put, this, ih h.2]

theorem not_mem_keys_erase {p : Poly} (hp : IsDict p) (k : Key) : k ∉ (erase p k).map Prod.fst := by
  induction p with
  | nil => simp [erase]
  | cons kv r ih =>
    obtain ⟨k', v⟩ := kv
    simp only [IsDict, List.map_cons, List.nodup_cons] at hp
    by_cases hk : k' = k
    · subst hk; simpa [erase] using hp.1
    · have : ¬ k = k' := fun e => hk e.symm
      simp only [erase, hk, if_false, List.map_cons, List.mem_cons, not_or]
      exact ⟨this, ih hp.2⟩

/-- **pop and re-insert leave the dict unchanged as a dict** (the offset may move to the end) -/
theorem restored_perm {κ : Kind} {p : Poly} (hp : IsDict p) (hk : hasKey p [] = true)
    (hz : κ = .dict ∨ get p [] ≠ 0) : (store κ (erase p []) [] (get p [])).Perm p := by
  have hput : put (erase p []) [] (get p []) = erase p [] ++ [([], get p [])] :=
    put_fresh _ (not_mem_keys_erase hp [])
  have : (put (erase p []) [] (get p [])).Perm p := hput ▸ erase_append_perm hk
  rcases hz with rfl | hz
  · exact this
  · cases κ <;> first
      | exact this
      | (simp only [store, set, hz, if_false]; exact this)

/-! ## the whole of `_solve_bruteforce` -/

/-- the model has no variable: it is empty or holds only the offset -/
def Model.isConst (D : Model) : Bool :=
  D.terms.isEmpty || (hasKey D.terms [] && (erase D.terms []).isEmpty)

/-- The standing assumptions of the C09 theorems about the object passed in. -/
structure Setup (fn : Fn) (D : Model) (order vars : List Var) : Prop where
  /-- `D` is a Python dict: its keys are pairwise distinct -/
  dict : IsDict D.terms
  /-- `vars` is the variable list the code enumerates (bookkeeping, or the set order `order`) … -/
  vars_ok : D.vars order = .ok vars
  /-- … it lists every variable once … -/
  nodup : vars.Nodup
  /-- … and lists exactly the model's variables (refreshed bookkeeping; any order of the set) -/
  exact : ∀ i, i ∈ vars ↔ ∃ kv ∈ D.terms, i ∈ kv.1
  /-- for `solve_qubo_bruteforce` / `solve_quso_bruteforce`: the input is a QUBO / QUSO (degree ≤ 2) -/
  deg : fn.DegOK D.terms

theorem dom_one (spin : Bool) : Dom spin (fun _ => (1 : Rat)) := by
  cases spin <;> simp [Dom, IsSpin, IsBool]

/-- the result `(c, {})` / `(c, [{}])` on a model without variables -/
theorem const_spec (spin : Bool) (valid : Assign → Bool) (allS : Bool) (c : Rat) (after : Poly)
    (hvalid : valid [] = true) :
    Spec spin [] valid allS (fun _ => c) ⟨some c, emptySol allS, after⟩ := by
  refine ⟨fun h => ?_, fun _ => ⟨c, rfl, fun _ _ _ => le_refl _, ?_, ?_⟩⟩
  · have := h _ (dom_one spin)
    simp [hvalid] at this
  · exact ⟨_, dom_one spin, by simpa using hvalid, rfl, fun h => by subst h; rfl⟩
  · intro h
    subst h
    refine ⟨[[]], rfl, by simp, fun a => ?_⟩
    simp only [List.mem_singleton, restrict_nil]
    constructor
    · rintro rfl; exact ⟨_, dom_one spin, rfl, hvalid, trivial⟩
    · rintro ⟨_, _, rfl, _, _⟩; rfl

theorem offset_only {p : Poly} (hne : p.isEmpty = false) (he : (erase p []).isEmpty = true) :
    p = [([], get p [])] := by
  match p, hne with
  | (k, v) :: r, _ =>
    by_cases hk : k = []
    · subst hk
      simp only [erase, if_true, List.isEmpty_iff] at he
      simp [he, get]
    · simp [erase, hk] at he

theorem DegOK_restored {fn : Fn} {κ : Kind} {p : Poly} (hd : fn.DegOK p) :
    fn.DegOK (store κ (erase p []) [] (get p [])) := by
  cases fn <;> simp only [Fn.DegOK] at hd ⊢ <;> intro kv hkv <;>
    (rcases mem_restored hkv with h | h
     · exact hd kv h
     · simp [h])

theorem solveMain_after {D : Model} {terms : Poly} {allS : Bool} {valid : Assign → Bool} {spin : Bool}
    {value : Assign → Poly → Except Err Rat} {order : List Var} {out : Out}
    (h : solveCore.solveMain D terms allS valid spin value order = .ok out) : out.after = terms := by
  unfold solveCore.solveMain at h
  cases hv : D.vars order with
  | error e => simp [hv, bind, Except.bind] at h
  | ok vars =>
    cases hl : loopM (fun x => value x terms) allS valid (enumerate spin vars) St.init with
    | error e => simp [hv, hl, bind, Except.bind] at h
    | ok st =>
      simp only [hv, hl, bind, Except.bind] at h
      cases allS with
      | false =>
        simp only [pure, Except.pure, Bool.false_eq_true, if_false, Except.ok.injEq] at h
        rw [← h]
      | true =>
        simp only [if_true] at h
        split at h
        · simp only [pure, Except.pure, Except.ok.injEq] at h
          rw [← h]
        · cases h

/-- the terms after a successful call: untouched, or the offset popped and re-inserted -/
theorem solve_after {fn : Fn} {D : Model} {allS : Bool} {valid : Assign → Bool} {order : List Var}
    {out : Out} (h : solve fn D allS valid order = .ok out) :
    out.after = D.terms ∨
      (hasKey D.terms [] = true ∧ out.after = store D.kind (erase D.terms []) [] (get D.terms [])) := by
  unfold solve solveCore at h
  by_cases he : D.terms.isEmpty = true
  · simp only [he, if_true, Except.ok.injEq] at h
    left; rw [← h]
  · simp only [he] at h
    by_cases hk : hasKey D.terms [] = true
    · simp only [hk, if_true] at h
      right
      refine ⟨hk, ?_⟩
      by_cases hp : (erase D.terms []).isEmpty = true
      · simp only [hp, if_true, Bool.false_eq_true, if_false, Except.ok.injEq] at h
        rw [← h]
      · simp only [hp, Bool.false_eq_true, if_false] at h
        exact solveMain_after h
    · simp only [hk, Bool.false_eq_true, if_false] at h
      left
      exact solveMain_after h

theorem Setup.vars_nil_of_const {fn : Fn} {D : Model} {order vars : List Var} (S : Setup fn D order vars)
    (hc : D.isConst = true) : vars = [] := by
  apply List.eq_nil_iff_forall_not_mem.mpr
  intro i hi
  obtain ⟨kv, hkv, hikv⟩ := (S.exact i).mp hi
  simp only [Model.isConst, Bool.or_eq_true, Bool.and_eq_true] at hc
  rcases hc with he | ⟨_, hp⟩
  · rw [List.isEmpty_iff.mp he] at hkv; cases hkv
  · have hne : D.terms.isEmpty = false := by
      cases h : D.terms with
      | nil => rw [h] at hkv; cases hkv
      | cons _ _ => rfl
    rw [offset_only hne hp] at hkv
    simp only [List.mem_singleton] at hkv
    subst hkv; cases hikv

theorem get_mem_of_hasKey {p : Poly} {k : Key} (h : hasKey p k = true) : (k, get p k) ∈ p := by
  induction p with
  | nil => simp [hasKey] at h
  | cons kv r ih =>
    obtain ⟨k', v⟩ := kv
    by_cases hk : k' = k
    · subst hk; simp [get]
    · have hr : hasKey r k = true := by simpa [hasKey, hk] using h
      simp only [get, hk, if_false]
      exact List.mem_cons_of_mem _ (ih hr)

/-- **Main lemma: the result of the public solvers meets `Spec`** for every model that has a variable,
and for a model without variables when `valid` accepts the empty assignment (the code does not consult
`valid` there). -/
theorem solve_spec {fn : Fn} {D : Model} {order vars : List Var} (S : Setup fn D order vars)
    (allS : Bool) (valid : Assign → Bool) (h : D.isConst = false ∨ valid [] = true) :
    ∃ out, solve fn D allS valid order = .ok out ∧
      Spec fn.spin vars valid allS (fun g => eval g D.terms) out := by
  have hcov : Covers D.terms vars := fun kv hkv i hi => (S.exact i).mpr ⟨kv, hkv, hi⟩
  unfold solve solveCore
  by_cases he : D.terms.isEmpty = true
  · -- `if not D`
    have hnil : D.terms = [] := List.isEmpty_iff.mp he
    have hv0 : vars = [] := by
      apply List.eq_nil_iff_forall_not_mem.mpr
      intro i hi
      obtain ⟨kv, hkv, _⟩ := (S.exact i).mp hi
      rw [hnil] at hkv; cases hkv
    have hvalid : valid [] = true := by
      rcases h with h | h
      · simp [Model.isConst, he] at h
      · exact h
    refine ⟨_, by simp only [he, if_true]; rfl, ?_⟩
    subst hv0
    have := const_spec fn.spin valid allS 0 D.terms hvalid
    simpa [hnil] using this
  · have he' : D.terms.isEmpty = false := by simpa using he
    simp only [he', Bool.false_eq_true, if_false]
    by_cases hk : hasKey D.terms [] = true
    · simp only [hk, if_true]
      by_cases hp : (erase D.terms []).isEmpty = true
      · -- only the offset
        have hone := offset_only he' hp
        have hv0 : vars = [] := by
          apply List.eq_nil_iff_forall_not_mem.mpr
          intro i hi
          obtain ⟨kv, hkv, hikv⟩ := (S.exact i).mp hi
          rw [hone] at hkv
          simp only [List.mem_singleton] at hkv
          subst hkv; cases hikv
        have hvalid : valid [] = true := by
          rcases h with h | h
          · simp [Model.isConst, hk, hp] at h
          · exact h
        refine ⟨_, by simp only [hp, if_true]; rfl, ?_⟩
        subst hv0
        have := const_spec fn.spin valid allS (get D.terms []) (store D.kind (erase D.terms []) [] (get D.terms [])) hvalid
        refine Spec.congr (fun g _ => ?_) this
        rw [hone]; simp [get]
      · simp only [hp, Bool.false_eq_true, if_false]
        have hc' : Covers (store D.kind (erase D.terms []) [] (get D.terms [])) vars := by
          intro kv hkv i hi
          rcases mem_restored hkv with h' | h'
          · exact hcov kv h' i hi
          · rw [h'] at hi; cases hi
        obtain ⟨out, ho, _, hs⟩ := solveMain_spec fn D _ allS valid order vars S.vars_ok S.nodup hc'
          (DegOK_restored S.deg)
        exact ⟨out, ho, Spec.congr (fun g _ => eval_restored D.kind S.dict g) hs⟩
    · simp only [hk, Bool.false_eq_true, if_false]
      obtain ⟨out, ho, _, hs⟩ := solveMain_spec fn D D.terms allS valid order vars S.vars_ok S.nodup hcov S.deg
      exact ⟨out, ho, hs⟩

/-! ## a concrete instance used by the non-vacuity examples of `Qv/Props/C09.lean` -/

/-- `{(0, 1): 1, (1, 2): 1, (1,): -1, (2,): -2, (): 3}` as a plain dict -/
def exD : Model := ⟨.dict, [([0, 1], 1), ([1, 2], 1), ([1], -1), ([2], -2), ([], 3)], none⟩

/-- the same terms as a `PUBO` with `num_binary_variables = 3`, `_reverse_mapping = {0: 0, 1: 1, 2: 2}` -/
def exP : Model := ⟨.pubo, exD.terms, some ⟨3, [(0, 0), (1, 1), (2, 2)]⟩⟩

theorem exD_exact : ∀ i, i ∈ [2, 0, 1] ↔ ∃ kv ∈ exD.terms, i ∈ kv.1 := by
  intro i
  simp only [exD, List.mem_cons, List.not_mem_nil, or_false, exists_eq_or_imp]
  constructor
  · rintro (h | h | h) <;> simp [h]
  · rintro ((h | h) | (h | h) | h | h | h) <;> simp_all

end Qv.Brute
