import Qv.Proofs.ReduceSpin
/-!
# C01, T1.0: the implementation model refines the specification

`reduceCore`'s own certificate is accepted by `replay` and reproduces its `D`.  The invariant behind it: the
current key stays strictly sorted, its labels are below `next`, and no two distinct labels of the key have a
common descendant in the forest of reductions (`Disj`: "disjoint supports") — so a reused ancilla `z` is never
already in the key, every scanned pair consists of two distinct labels of the key, and each step shortens the
key by one.
-/
namespace Qv.Reduce
open Qv

/-- the specification state behind an implementation state (the pair frequencies are a heuristic only) -/
def toR (i : ISt) : RSt := { next := i.next, red := i.reds, D := i.D }

/-! ### strictly sorted keys -/

theorem ss_head_lt {a : Var} {l : Key} (h : SSorted (a :: l)) : ∀ b ∈ l, (a : Nat) < b := by
  induction l generalizing a with
  | nil => intro b hb; cases hb
  | cons c r ih =>
    intro b hb
    rcases List.mem_cons.1 hb with rfl | hb
    · exact h.1
    · exact Nat.lt_trans h.1 (ih h.2 b hb)

theorem ss_of_head_lt {a : Var} {l : Key} (h1 : ∀ b ∈ l, (a : Nat) < b) (h2 : SSorted l) : SSorted (a :: l) := by
  cases l with
  | nil => trivial
  | cons b r => exact ⟨h1 b (List.mem_cons_self), h2⟩

theorem ss_filter (p : Var → Bool) {l : Key} (h : SSorted l) : SSorted (l.filter p) := by
  induction l with
  | nil => trivial
  | cons a r ih =>
    rw [List.filter_cons]
    split
    · exact ss_of_head_lt (fun b hb => ss_head_lt h b (List.mem_filter.mp hb).1) (ih h.tail)
    · exact ih h.tail

theorem mem_insertU_self (a : Var) (l : Key) : a ∈ insertU a l := by
  induction l with
  | nil => simp [insertU]
  | cons b bs ih =>
    unfold insertU
    split
    · exact List.mem_cons_self
    · split
      · rename_i h; rw [h]; exact List.mem_cons_self
      · exact List.mem_cons_of_mem _ ih

theorem mem_insertU_of_mem {a i : Var} {l : Key} (h : i ∈ l) : i ∈ insertU a l := by
  induction l with
  | nil => cases h
  | cons b bs ih =>
    unfold insertU
    split
    · exact List.mem_cons_of_mem _ h
    · split
      · exact h
      · rcases List.mem_cons.mp h with rfl | h
        · exact List.mem_cons_self
        · exact List.mem_cons_of_mem _ (ih h)

theorem mem_remove2_iff {key : Key} {x y i : Var} : i ∈ remove2 key x y ↔ i ∈ key ∧ i ≠ x ∧ i ≠ y := by
  unfold remove2
  rw [List.mem_filter]
  constructor
  · rintro ⟨h1, h2⟩
    refine ⟨h1, fun e => ?_, fun e => ?_⟩ <;> subst e <;> simp at h2
  · rintro ⟨h1, h2, h3⟩
    exact ⟨h1, by simp [h2, h3]⟩

/-- removing two distinct labels of the key shortens it by at least two -/
theorem length_remove2 {key : Key} {x y : Var} (hx : x ∈ key) (hy : y ∈ key) (hxy : x ≠ y) :
    (remove2 key x y).length + 2 ≤ key.length := by
  have one : ∀ (l : Key) (a : Var), a ∈ l → (a = x ∨ a = y) → (remove2 l x y).length + 1 ≤ l.length := by
    intro l a ha hxa
    induction l with
    | nil => cases ha
    | cons i r ih =>
      unfold remove2
      rw [List.filter_cons]
      have hle : (r.filter (fun i => !(i == x || i == y))).length ≤ r.length := List.length_filter_le _ _
      split
      · rename_i hi
        rcases List.mem_cons.mp ha with rfl | ha
        · exfalso; rcases hxa with rfl | rfl <;> simp at hi
        · have := ih ha
          unfold remove2 at this
          simp only [List.length_cons]; omega
      · simp only [List.length_cons]; omega
  induction key with
  | nil => cases hx
  | cons i r ih =>
    unfold remove2
    rw [List.filter_cons]
    split
    · rename_i hi
      have hix : i ≠ x := fun e => by subst e; simp at hi
      have hiy : i ≠ y := fun e => by subst e; simp at hi
      have hx' : x ∈ r := by rcases List.mem_cons.mp hx with e | h; exact absurd e.symm hix; exact h
      have hy' : y ∈ r := by rcases List.mem_cons.mp hy with e | h; exact absurd e.symm hiy; exact h
      have := ih hx' hy'
      unfold remove2 at this
      simp only [List.length_cons]; omega
    · rename_i hi
      have hi : i = x ∨ i = y := by
        by_cases hix : i = x
        · exact Or.inl hix
        · right
          by_contra hiy
          exact hi (by simp [hix, hiy])
      rcases hi with rfl | rfl
      · have hy' : y ∈ r := by rcases List.mem_cons.mp hy with e | h; exact absurd e.symm hxy; exact h
        have := one r y hy' (Or.inr rfl)
        unfold remove2 at this
        simp only [List.length_cons]; omega
      · have hx' : x ∈ r := by rcases List.mem_cons.mp hx with e | h; exact absurd e hxy; exact h
        have := one r x hx' (Or.inl rfl)
        unfold remove2 at this
        simp only [List.length_cons]; omega

/-! ### the sorted re-insertion of lines 299-309 is `insertU` on the key without `x`, `y` -/

theorem rekeyGo_true (x y z : Var) (l : Key) : rekeyGo x y z l true = remove2 l x y := by
  induction l with
  | nil => rfl
  | cons i r ih =>
    unfold rekeyGo remove2
    rw [List.filter_cons]
    by_cases h : i = x ∨ i = y
    · have : (!(i == x || i == y)) = false := by rcases h with rfl | rfl <;> simp
      simp only [h, if_true, this]
      exact ih
    · have hx : i ≠ x := fun e => h (Or.inl e)
      have hy : i ≠ y := fun e => h (Or.inr e)
      have : (!(i == x || i == y)) = true := by simp [hx, hy]
      simp only [h, if_false, this, Bool.not_true, Bool.false_and]
      simp only [Bool.false_eq_true, if_false, if_true]
      rw [ih]; rfl

theorem rekey_eq {key : Key} {x y z : Var} (hz : z ∉ remove2 key x y) :
    rekey key x y z = insertU z (remove2 key x y) := by
  unfold rekey
  induction key with
  | nil => rfl
  | cons i r ih =>
    unfold rekeyGo
    by_cases h : i = x ∨ i = y
    · have hr : remove2 (i :: r) x y = remove2 r x y := by
        unfold remove2; rw [List.filter_cons]
        have : (!(i == x || i == y)) = false := by rcases h with rfl | rfl <;> simp
        simp [this]
      rw [hr] at hz ⊢
      simp only [h, if_true]
      exact ih hz
    · have hx : i ≠ x := fun e => h (Or.inl e)
      have hy : i ≠ y := fun e => h (Or.inr e)
      have hr : remove2 (i :: r) x y = i :: remove2 r x y := by
        unfold remove2; rw [List.filter_cons]
        have : (!(i == x || i == y)) = true := by simp [hx, hy]
        simp [this]
      rw [hr] at hz ⊢
      have hzi : z ≠ i := fun e => hz (by rw [e]; exact List.mem_cons_self)
      have hzr : z ∉ remove2 r x y := fun e => hz (List.mem_cons_of_mem _ e)
      simp only [h, if_false]
      unfold insertU
      by_cases hlt : z < i
      · simp only [hlt, Bool.not_false, decide_true, Bool.and_self, if_true]
        rw [rekeyGo_true]
      · simp only [hlt, decide_false, Bool.and_false, if_false, hzi]
        simp only [Bool.false_eq_true, if_false]
        rw [ih hzr]

/-! ### the forest of reductions: descendants, disjoint supports -/

/-- `Desc reds w u`: `w` is `u` or one of the labels `u` (transitively) stands for -/
inductive Desc (reds : Reds) : Var → Var → Prop
  | refl (u : Var) : Desc reds u u
  | left {a b c w : Var} : ((a, b), c) ∈ reds → Desc reds w a → Desc reds w c
  | right {a b c w : Var} : ((a, b), c) ∈ reds → Desc reds w b → Desc reds w c

/-- no two distinct labels of the key have a common descendant ("disjoint supports") -/
def Disj (reds : Reds) (key : Key) : Prop :=
  ∀ u ∈ key, ∀ v ∈ key, u ≠ v → ∀ w, Desc reds w u → Desc reds w v → False

theorem Desc.inv {reds : Reds} {w c : Var} (h : Desc reds w c) :
    w = c ∨ ∃ a b, ((a, b), c) ∈ reds ∧ (Desc reds w a ∨ Desc reds w b) := by
  cases h with
  | refl => exact Or.inl rfl
  | left hm hd => exact Or.inr ⟨_, _, hm, Or.inl hd⟩
  | right hm hd => exact Or.inr ⟨_, _, hm, Or.inr hd⟩

theorem Desc.trans {reds : Reds} {a b c : Var} (h1 : Desc reds a b) (h2 : Desc reds b c) : Desc reds a c := by
  induction h2 with
  | refl => exact h1
  | left hm _ ih => exact Desc.left hm (ih h1)
  | right hm _ ih => exact Desc.right hm (ih h1)

theorem Desc.mono {reds reds' : Reds} (hs : ∀ e ∈ reds, e ∈ reds') {w u : Var} (h : Desc reds w u) :
    Desc reds' w u := by
  induction h with
  | refl => exact Desc.refl _
  | left hm _ ih => exact Desc.left (hs _ hm) ih
  | right hm _ ih => exact Desc.right (hs _ hm) ih

/-- a descendant is not larger -/
theorem Desc.le {reds : Reds} (hlt : ∀ e ∈ reds, (e.1.1 : Nat) < e.2 ∧ (e.1.2 : Nat) < e.2) {w u : Var}
    (h : Desc reds w u) : (w : Nat) ≤ u := by
  induction h with
  | refl => exact Nat.le_refl _
  | left hm _ ih => exact Nat.le_trans ih (Nat.le_of_lt (hlt _ hm).1)
  | right hm _ ih => exact Nat.le_trans ih (Nat.le_of_lt (hlt _ hm).2)

/-- a label that is no ancilla has no proper descendant -/
theorem Desc.leaf {reds : Reds} {w u : Var} (hu : ∀ e ∈ reds, e.2 ≠ u) (h : Desc reds w u) : w = u := by
  rcases h.inv with h | ⟨a, b, hm, _⟩
  · exact h
  · exact absurd rfl (hu _ hm)

/-- appending the reduction of a fresh label does not change the descendants of the other labels -/
theorem Desc.of_append {reds : Reds} {x y z : Var} (hlt : ∀ e ∈ reds, (e.1.1 : Nat) < e.2 ∧ (e.1.2 : Nat) < e.2)
    (hz : ∀ e ∈ reds, (e.2 : Nat) < z) {w u : Var} (h : Desc (reds ++ [((x, y), z)]) w u) (hu : u ≠ z) :
    Desc reds w u := by
  induction h with
  | refl => exact Desc.refl _
  | @left a b c w hm _ ih =>
    rcases List.mem_append.mp hm with hm | hm
    · have := hlt _ hm; have := hz _ hm
      exact Desc.left hm (ih (fun e => by subst e; simp only [] at *; vomega))
    · have : ((a, b), c) = ((x, y), z) := by simpa using hm
      injection this with _ hc
      exact absurd hc hu
  | @right a b c w hm _ ih =>
    rcases List.mem_append.mp hm with hm | hm
    · have := hlt _ hm; have := hz _ hm
      exact Desc.right hm (ih (fun e => by subst e; simp only [] at *; vomega))
    · have : ((a, b), c) = ((x, y), z) := by simpa using hm
      injection this with _ hc
      exact absurd hc hu

theorem pairwise_map_inj {α : Type} (f : α → Nat) {l : List α} (h : (l.map f).Pairwise (· < ·)) {a b : α}
    (ha : a ∈ l) (hb : b ∈ l) (hab : f a = f b) : a = b := by
  induction l with
  | nil => cases ha
  | cons c r ih =>
    rw [List.map_cons, List.pairwise_cons] at h
    rcases List.mem_cons.mp ha with ha' | ha' <;> rcases List.mem_cons.mp hb with hb' | hb'
    · rw [ha', hb']
    · have := h.1 _ (List.mem_map.mpr ⟨b, hb', rfl⟩); rw [ha'] at hab; omega
    · have := h.1 _ (List.mem_map.mpr ⟨a, ha', rfl⟩); rw [hb'] at hab; omega
    · exact ih h.2 ha' hb'

/-- the children of an ancilla are the two labels of its (unique) reduction -/
theorem Desc.of_entry {reds : Reds} (hincr : (reds.map (fun e => (e.2 : Nat))).Pairwise (· < ·)) {x y z w : Var}
    (hm : ((x, y), z) ∈ reds) (h : Desc reds w z) : w = z ∨ Desc reds w x ∨ Desc reds w y := by
  rcases h.inv with h | ⟨a, b, hm', hd⟩
  · exact Or.inl h
  · have := pairwise_map_inj (fun e : Pair × Var => (e.2 : Nat)) hincr hm' hm rfl
    injection this with h1 _
    injection h1 with ha hb
    subst ha hb
    exact Or.inr hd

/-! ### one step keeps the key good -/

/-- the implementation's invariant for the key being reduced -/
structure Good (n : Nat) (st : RSt) (key : Key) : Prop where
  inv : Inv n st
  sorted : SSorted key
  lt : KeyLt st.next key
  disj : Disj st.red key

theorem inv_lt {n : Nat} {st : RSt} (hI : Inv n st) :
    ∀ e ∈ st.red, (e.1.1 : Nat) < e.2 ∧ (e.1.2 : Nat) < e.2 :=
  fun e he => ⟨(hI.ents e he).1, (hI.ents e he).2.1⟩

/-- a reused ancilla is not in the key -/
theorem reuse_not_mem {n : Nat} {st : RSt} {key : Key} (hG : Good n st key) {x y z : Var}
    (hx : x ∈ key) (hm : ((x, y), z) ∈ st.red) : z ∉ key := by
  intro hz
  have hxz : (x : Nat) < z := (hG.inv.ents _ hm).1
  exact hG.disj x hx z hz (fun e => by subst e; vomega) x (Desc.refl _) (Desc.left hm (Desc.refl _))

theorem good_sorted_step {key : Key} (hs : SSorted key) (x y z : Var) :
    SSorted (insertU z (remove2 key x y)) :=
  (insertU_sorted z (ss_filter _ hs)).1

theorem disj_reuse {n : Nat} {st : RSt} {key : Key} (hG : Good n st key) {x y z : Var}
    (hx : x ∈ key) (hy : y ∈ key) (hm : ((x, y), z) ∈ st.red) :
    Disj st.red (insertU z (remove2 key x y)) := by
  have hzk := reuse_not_mem hG hx hm
  -- a common descendant of z and another label v of the old key
  have key1 : ∀ v ∈ key, v ≠ x → v ≠ y → ∀ w, Desc st.red w z → Desc st.red w v → False := by
    intro v hv hvx hvy w hwz hwv
    rcases Desc.of_entry hG.inv.incr hm hwz with rfl | h | h
    · exact hG.disj x hx v hv (Ne.symm hvx) x (Desc.refl _) ((Desc.left hm (Desc.refl _)).trans hwv)
    · exact hG.disj x hx v hv (Ne.symm hvx) w h hwv
    · exact hG.disj y hy v hv (Ne.symm hvy) w h hwv
  intro u hu v hv huv w hwu hwv
  rcases mem_insertU hu with hu | hu <;> rcases mem_insertU hv with hv | hv
  · exact huv (hu.trans hv.symm)
  · obtain ⟨hv1, hv2, hv3⟩ := mem_remove2_iff.mp hv
    rw [hu] at hwu
    exact key1 v hv1 hv2 hv3 w hwu hwv
  · obtain ⟨hu1, hu2, hu3⟩ := mem_remove2_iff.mp hu
    rw [hv] at hwv
    exact key1 u hu1 hu2 hu3 w hwv hwu
  · exact hG.disj u (mem_remove2_iff.mp hu).1 v (mem_remove2_iff.mp hv).1 huv w hwu hwv

theorem disj_fresh {n : Nat} {st : RSt} {key : Key} (hG : Good n st key) {x y : Var}
    (hx : x ∈ key) (hy : y ∈ key) :
    Disj (st.red ++ [((x, y), st.next)]) (insertU st.next (remove2 key x y)) := by
  have hlt := inv_lt hG.inv
  have hzlt : ∀ e ∈ st.red, (e.2 : Nat) < st.next := fun e he => (hG.inv.ents e he).2.2.2
  have old : ∀ {w u : Var}, u ∈ key → Desc (st.red ++ [((x, y), st.next)]) w u → Desc st.red w u := by
    intro w u hu h
    exact Desc.of_append hlt hzlt h (fun e => by have := hG.lt u hu; subst e; vomega)
  have key1 : ∀ v ∈ key, v ≠ x → v ≠ y → ∀ w, Desc (st.red ++ [((x, y), st.next)]) w st.next →
      Desc (st.red ++ [((x, y), st.next)]) w v → False := by
    intro v hv hvx hvy w hwz hwv
    have hwv' := old hv hwv
    rcases hwz.inv with rfl | ⟨a, b, hm', hd⟩
    · have := Desc.le hlt hwv'; have := hG.lt v hv; vomega
    · rcases List.mem_append.mp hm' with hm' | hm'
      · have := hzlt _ hm'; simp only [] at this; vomega
      · have e : ((a, b), st.next) = ((x, y), st.next) := by simpa using hm'
        injection e with e1 _
        injection e1 with ha hb
        subst ha hb
        rcases hd with hd | hd
        · exact hG.disj a hx v hv (Ne.symm hvx) w (old hx hd) hwv'
        · exact hG.disj b hy v hv (Ne.symm hvy) w (old hy hd) hwv'
  intro u hu v hv huv w hwu hwv
  rcases mem_insertU hu with hu | hu <;> rcases mem_insertU hv with hv | hv
  · exact huv (hu.trans hv.symm)
  · obtain ⟨hv1, hv2, hv3⟩ := mem_remove2_iff.mp hv
    rw [hu] at hwu
    exact key1 v hv1 hv2 hv3 w hwu hwv
  · obtain ⟨hu1, hu2, hu3⟩ := mem_remove2_iff.mp hu
    rw [hv] at hwv
    exact key1 u hu1 hu2 hu3 w hwv hwu
  · have hu1 := (mem_remove2_iff.mp hu).1
    have hv1 := (mem_remove2_iff.mp hv).1
    exact hG.disj u hu1 v hv1 huv w (old hu1 hwu) (old hv1 hwv)

/-- a key over the model's own labels (`< n`) is good: its labels have no descendants but themselves -/
theorem good_init {n : Nat} {st : RSt} (hI : Inv n st) {key : Key} (hs : SSorted key)
    (hl : ∀ i ∈ key, (i : Nat) < n) : Good n st key := by
  refine ⟨hI, hs, fun i hi => by have := hl i hi; have := hI.next_eq; vomega, ?_⟩
  intro u hu v hv huv w hwu hwv
  have leaf : ∀ t ∈ key, ∀ e ∈ st.red, e.2 ≠ t := fun t ht e he hh => by
    have := (hI.ents e he).2.2.1; have := hl t ht; subst hh; vomega
  have h1 := Desc.leaf (leaf u hu) hwu
  have h2 := Desc.leaf (leaf v hv) hwv
  exact huv (h1.symm.trans h2)

/-! ### the scan picks two distinct labels of the key -/

theorem redGet_mem {r : Reds} {p : Pair} {z : Var} (h : redGet r p = some z) : (p, z) ∈ r := by
  induction r with
  | nil => simp [redGet] at h
  | cons e t ih =>
    obtain ⟨q, z'⟩ := e
    unfold redGet at h
    split at h
    · rename_i hq; injection h with h; subst hq h; exact List.mem_cons_self
    · exact List.mem_cons_of_mem _ (ih h)

theorem scan_used {reds : Reds} {pairs : List Key} {freq : Freq} {ps : List Pair} {best : Option (Nat × Pair)}
    {p : Pair} {z : Var} (h : scan reds pairs freq ps best = some (Choice.used p z)) :
    p ∈ ps ∧ (p, z) ∈ reds := by
  induction ps generalizing best with
  | nil => cases best <;> simp [scan] at h
  | cons q rest ih =>
    unfold scan at h
    split at h
    · rename_i z' hz'
      injection h with h; injection h with h1 h2; subst h1 h2
      exact ⟨List.mem_cons_self, redGet_mem hz'⟩
    · split at h
      · cases h
      · obtain ⟨h1, h2⟩ := ih h
        exact ⟨List.mem_cons_of_mem _ h1, h2⟩

theorem scan_pick {reds : Reds} {pairs : List Key} {freq : Freq} {ps : List Pair} {best : Option (Nat × Pair)}
    {p : Pair} (h : scan reds pairs freq ps best = some (Choice.pick p)) :
    p ∈ ps ∨ ∃ c, best = some (c, p) := by
  induction ps generalizing best with
  | nil =>
    cases best with
    | none => simp [scan] at h
    | some b => simp [scan] at h; exact Or.inr ⟨b.1, by rw [← h]⟩
  | cons q rest ih =>
    unfold scan at h
    split at h
    · cases h
    · split at h
      · injection h with h; injection h with h; subst h; exact Or.inl List.mem_cons_self
      · rcases ih h with h' | ⟨c, h'⟩
        · exact Or.inl (List.mem_cons_of_mem _ h')
        · cases best with
          | none => simp at h'; exact Or.inl (by rw [← h'.2]; exact List.mem_cons_self)
          | some b =>
            obtain ⟨bc, bp⟩ := b
            simp only [] at h'
            split at h'
            · injection h' with h'; injection h' with _ h'; exact Or.inl (by rw [← h']; exact List.mem_cons_self)
            · injection h' with h'; injection h' with h1 h2; exact Or.inr ⟨bc, by rw [h2]⟩

theorem scan_none {reds : Reds} {pairs : List Key} {freq : Freq} {ps : List Pair} {best : Option (Nat × Pair)}
    (h : scan reds pairs freq ps best = none) : ps = [] := by
  induction ps generalizing best with
  | nil => rfl
  | cons q rest ih =>
    exfalso
    unfold scan at h
    split at h
    · cases h
    · split at h
      · cases h
      · have := ih h
        subst this
        cases best with
        | none => simp [scan] at h
        | some b => obtain ⟨bc, bp⟩ := b; simp only [scan] at h; split at h <;> simp at h

theorem pairsOf_mem {key : Key} (hs : SSorted key) {x y : Var} (h : (x, y) ∈ pairsOf key) :
    x ∈ key ∧ y ∈ key ∧ (x : Nat) < y := by
  induction key with
  | nil => simp [pairsOf] at h
  | cons a rest ih =>
    unfold pairsOf at h
    rcases List.mem_append.mp h with h | h
    · obtain ⟨b, hb, e⟩ := List.mem_map.mp h
      injection e with e1 e2
      subst e1 e2
      exact ⟨List.mem_cons_self, List.mem_cons_of_mem _ hb, ss_head_lt hs b hb⟩
    · obtain ⟨h1, h2, h3⟩ := ih hs.tail h
      exact ⟨List.mem_cons_of_mem _ h1, List.mem_cons_of_mem _ h2, h3⟩

theorem pairsOf_ne_nil {key : Key} (h : 2 ≤ key.length) : pairsOf key ≠ [] := by
  match key, h with
  | a :: b :: r, _ => simp [pairsOf]

/-! ### the specification accepts the implementation's steps -/

theorem specStep_fresh (lam : Rat) (st : RSt) {key : Key} {x y : Var} (hxy : x ≠ y) (hx : x ∈ key) (hy : y ∈ key) :
    specStep lam st key { x := x, y := y, z := st.next, fresh := true } =
      .ok ({ next := st.next + 1, red := st.red ++ [((x, y), st.next)], D := addGadget st.D lam x y st.next },
           insertU st.next (remove2 key x y)) := by
  unfold specStep
  simp [hxy, hx, hy]

theorem specStep_reuse (lam : Rat) (st : RSt) {key : Key} {x y z : Var} (hxy : x ≠ y) (hx : x ∈ key) (hy : y ∈ key)
    (hm : ((x, y), z) ∈ st.red) :
    specStep lam st key { x := x, y := y, z := z, fresh := false } =
      .ok ({ st with D := addGadget st.D lam x y z }, insertU z (remove2 key x y)) := by
  unfold specStep
  simp [hxy, hx, hy, hm]

theorem length_step {key : Key} {x y z : Var} (hx : x ∈ key) (hy : y ∈ key) (hxy : x ≠ y) :
    (insertU z (remove2 key x y)).length + 1 ≤ key.length := by
  have := length_remove2 hx hy hxy
  have := length_insertU_le z (remove2 key x y)
  omega

/-- **one term**: the `while` loop of `_reduce_degree` is a valid sequence of specification steps -/
theorem reduceTerm_refines {n deg : Nat} (pairs : List Key) (lamv v : Rat) :
    ∀ (fuel : Nat) (key : Key) (ist : ISt) (acc : List Step),
      Good n (toR ist) key → key.length ≤ fuel → (2 ≤ deg ∨ key.length ≤ deg) →
      ∃ new st1,
        specSteps lamv (toR ist) key new =
          .ok (st1, (reduceTerm deg pairs lamv v fuel key ist acc).2.2) ∧
        (reduceTerm deg pairs lamv v fuel key ist acc).2.1 = acc.reverse ++ new ∧
        toR (reduceTerm deg pairs lamv v fuel key ist acc).1 =
          { st1 with D := addTermB st1.D (reduceTerm deg pairs lamv v fuel key ist acc).2.2 v } ∧
        (reduceTerm deg pairs lamv v fuel key ist acc).2.2.length ≤ deg ∧
        (new ≠ [] → 2 ≤ deg) ∧ Inv n st1 := by
  intro fuel
  induction fuel with
  | zero =>
    intro key ist acc hG hf _
    refine ⟨[], toR ist, rfl, by simp [reduceTerm], rfl, ?_, fun h => absurd rfl h, hG.inv⟩
    simp only [reduceTerm]; omega
  | succ fuel ih =>
    intro key ist acc hG hf hd
    unfold reduceTerm
    split
    · rename_i hle
      exact ⟨[], toR ist, rfl, by simp, rfl, hle, fun h => absurd rfl h, hG.inv⟩
    · rename_i hgt
      have hd2 : 2 ≤ deg := by rcases hd with h | h; exact h; exact absurd h hgt
      have hlen : 2 ≤ key.length := by omega
      split
      · rename_i hscan
        exact absurd (scan_none hscan) (pairsOf_ne_nil hlen)
      · rename_i x y z hscan
        obtain ⟨hp, hm⟩ := scan_used hscan
        obtain ⟨hx, hy, hxy⟩ := pairsOf_mem hG.sorted hp
        have hne : x ≠ y := fun e => by subst e; vomega
        have hm' : ((x, y), z) ∈ (toR ist).red := hm
        have hzk : z ∉ key := reuse_not_mem hG hx hm'
        have hzr : z ∉ remove2 key x y := fun h => hzk (mem_remove2_iff.mp h).1
        have hstep := specStep_reuse lamv (toR ist) hne hx hy hm'
        obtain ⟨hI', hk', _⟩ := specStep_inv hG.inv hG.lt hstep
        have hG' : Good n (toR { ist with D := addGadget ist.D lamv x y z }) (rekey key x y z) := by
          rw [rekey_eq hzr]
          exact ⟨hI', good_sorted_step hG.sorted x y z, hk', disj_reuse hG hx hy hm'⟩
        have hl' : (rekey key x y z).length ≤ fuel := by
          rw [rekey_eq hzr]; have := length_step (z := z) hx hy hne; omega
        obtain ⟨new, st1, h1, h2, h3, h4, _, h6⟩ :=
          ih (rekey key x y z) { ist with D := addGadget ist.D lamv x y z }
            ({ x := x, y := y, z := z, fresh := false } :: acc) hG' hl' (Or.inl hd2)
        refine ⟨{ x := x, y := y, z := z, fresh := false } :: new, st1, ?_, ?_, h3, h4, fun _ => hd2, h6⟩
        · simp only [specSteps, hstep]
          rw [← rekey_eq hzr]; exact h1
        · rw [h2]; simp
      · rename_i x y hscan
        have hp : (x, y) ∈ pairsOf key := by
          rcases scan_pick hscan with h | ⟨c, h⟩
          · exact h
          · cases h
        obtain ⟨hx, hy, hxy⟩ := pairsOf_mem hG.sorted hp
        have hne : x ≠ y := fun e => by subst e; vomega
        have hzk : ist.next ∉ key := fun h => by have := hG.lt _ h; simp only [toR] at this; vomega
        have hzr : ist.next ∉ remove2 key x y := fun h => hzk (mem_remove2_iff.mp h).1
        have hstep := specStep_fresh lamv (toR ist) hne hx hy
        obtain ⟨hI', hk', _⟩ := specStep_inv hG.inv hG.lt hstep
        have hG' : Good n (toR (ISt.mk (ist.next + 1) (ist.reds ++ [((x, y), ist.next)])
            (freqInc (freqInc ist.freq (x, ist.next)) (y, ist.next)) (addGadget ist.D lamv x y ist.next)))
            (rekey key x y ist.next) := by
          rw [rekey_eq hzr]
          exact ⟨hI', good_sorted_step hG.sorted x y ist.next, hk', disj_fresh hG hx hy⟩
        have hl' : (rekey key x y ist.next).length ≤ fuel := by
          rw [rekey_eq hzr]; have := length_step (z := ist.next) hx hy hne; omega
        obtain ⟨new, st1, h1, h2, h3, h4, _, h6⟩ :=
          ih (rekey key x y ist.next) _ ({ x := x, y := y, z := ist.next, fresh := true } :: acc) hG' hl'
            (Or.inl hd2)
        refine ⟨{ x := x, y := y, z := ist.next, fresh := true } :: new, st1, ?_, ?_, h3, h4, fun _ => hd2, h6⟩
        · simp only [specSteps]
          have : specStep lamv (toR ist) key { x := x, y := y, z := ist.next, fresh := true } = _ := hstep
          rw [this]
          rw [rekey_eq hzr] at h1 ⊢
          exact h1
        · rw [h2]; simp

/-! ### all terms, and the whole reduction -/

theorem specTerm_intro {n deg : Nat} {st st1 : RSt} {key1 : Key} {c : TermCert}
    (hlab : ∀ i ∈ c.key, (i : Nat) < n) (hdeg : c.steps ≠ [] → 2 ≤ deg)
    (hs : specSteps c.lam st c.key c.steps = .ok (st1, key1)) (hf : c.final = key1)
    (hlen : c.final.length ≤ deg) :
    specTerm n deg st c = .ok { st1 with D := addTermB st1.D c.final c.v } := by
  unfold specTerm
  have h1 : (c.key.all (fun i => decide (i < n))) = true := by
    rw [List.all_eq_true]; intro i hi; exact decide_eq_true (hlab i hi)
  have h2 : (!c.steps.isEmpty && decide (deg < 2)) = false := by
    cases hc : c.steps with
    | nil => simp
    | cons a b =>
      have := hdeg (by rw [hc]; simp)
      simp; omega
  rw [h1, h2, hs]
  simp only [Bool.not_true, Bool.false_eq_true, if_false]
  rw [if_neg (by rw [hf]; simp), if_neg (by omega)]

theorem inv_withD {n : Nat} {st : RSt} (h : Inv n st) (D : Poly) : Inv n { st with D := D } :=
  ⟨h.next_eq, h.ents, h.incr⟩

theorem reduceTerms_refines {n deg : Nat} (pairs : List Key) (lam : Lam) :
    ∀ (terms : Poly) (ist : ISt) (cs : List TermCert),
      Inv n (toR ist) → (∀ kv ∈ terms, SSorted kv.1 ∧ ∀ i ∈ kv.1, (i : Nat) < n) →
      (2 ≤ deg ∨ ∀ kv ∈ terms, kv.1.length ≤ deg) →
      ∃ newc, (reduceTerms deg pairs lam terms ist cs).2 = cs.reverse ++ newc ∧
        specTerms n deg (toR ist) newc = .ok (toR (reduceTerms deg pairs lam terms ist cs).1) ∧
        certTerms newc = terms := by
  intro terms
  induction terms with
  | nil =>
    intro ist cs _ _ _
    exact ⟨[], by simp [reduceTerms], rfl, rfl⟩
  | cons kv r ih =>
    obtain ⟨key, v⟩ := kv
    intro ist cs hI hk hd
    obtain ⟨hs, hl⟩ := hk (key, v) List.mem_cons_self
    have hd1 : 2 ≤ deg ∨ key.length ≤ deg := by
      rcases hd with h | h
      · exact Or.inl h
      · exact Or.inr (h (key, v) List.mem_cons_self)
    obtain ⟨new, st1, h1, h2, h3, h4, h5, h6⟩ :=
      reduceTerm_refines (n := n) (deg := deg) pairs (lam.app v) v key.length key ist []
        (good_init hI hs hl) (Nat.le_refl _) hd1
    simp only [List.reverse_nil, List.nil_append] at h2
    unfold reduceTerms
    simp only []
    have hI' : Inv n (toR (reduceTerm deg pairs (lam.app v) v key.length key ist []).1) := by
      rw [h3]; exact inv_withD h6 _
    obtain ⟨newc, g1, g2, g3⟩ := ih (reduceTerm deg pairs (lam.app v) v key.length key ist []).1
      ((TermCert.mk key v (lam.app v) (reduceTerm deg pairs (lam.app v) v key.length key ist []).2.1 (reduceTerm deg pairs (lam.app v) v key.length key ist []).2.2) :: cs) hI'
      (fun kv hkv => hk kv (List.mem_cons_of_mem _ hkv))
      (by rcases hd with h | h
          · exact Or.inl h
          · exact Or.inr (fun kv hkv => h kv (List.mem_cons_of_mem _ hkv)))
    refine ⟨(TermCert.mk key v (lam.app v) (reduceTerm deg pairs (lam.app v) v key.length key ist []).2.1 (reduceTerm deg pairs (lam.app v) v key.length key ist []).2.2) :: newc, ?_, ?_, ?_⟩
    · rw [g1]; simp
    · have hst : specTerm n deg (toR ist) (TermCert.mk key v (lam.app v) (reduceTerm deg pairs (lam.app v) v key.length key ist []).2.1 (reduceTerm deg pairs (lam.app v) v key.length key ist []).2.2) =
          .ok (toR (reduceTerm deg pairs (lam.app v) v key.length key ist []).1) := by
        rw [h3]
        exact specTerm_intro (c := (TermCert.mk key v (lam.app v) (reduceTerm deg pairs (lam.app v) v key.length key ist []).2.1 (reduceTerm deg pairs (lam.app v) v key.length key ist []).2.2))
          hl (fun hne => h5 (by rw [← h2]; exact hne)) (by simp only []; rw [h2]; exact h1) rfl h4
      simp only [specTerms, hst]
      exact g2
    · simp only [certTerms, List.map_cons] at g3 ⊢
      rw [g3]

/-- the certificate of `reduceCore` is accepted by the specification checker and reproduces its `D` -/
theorem reduceCore_refines {terms : Poly} {m : Mapping} {n d : Nat} {lam : Lam} {pairs : List Key} {o : Out}
    (h : reduceCore terms m n d lam pairs = .ok o)
    (hk : ∀ kv ∈ o.mapped, SSorted kv.1 ∧ ∀ i ∈ kv.1, (i : Nat) < n)
    (hd : 2 ≤ d ∨ ∀ kv ∈ o.mapped, kv.1.length ≤ d) :
    o.deg = d ∧ ∃ st, replay n o.deg o.mapped o.certs = .ok st ∧ st.D = o.D ∧ st.next = o.next := by
  unfold reduceCore at h
  split at h
  · cases h
  · rename_i p hp
    injection h with h
    subst h
    simp only [] at hk hd
    refine ⟨rfl, ?_⟩
    obtain ⟨newc, g1, g2, g3⟩ := reduceTerms_refines (n := n) (deg := d) (pairs.map (mapPair m)) lam p.1
      { next := n, reds := [], freq := p.2, D := [] } [] (inv_init n) hk hd
    simp only [List.reverse_nil, List.nil_append] at g1
    refine ⟨toR (reduceTerms d (pairs.map (mapPair m)) lam p.1
      { next := n, reds := [], freq := p.2, D := [] } []).1, ?_, rfl, rfl⟩
    unfold replay
    simp only []
    rw [g1]
    have : List.map (fun c => (c.key, c.v)) newc = p.1 := g3
    rw [if_neg (by rw [this]; simp)]
    exact g2

/-! ### the mapped keys of a model with an injective mapping into `0..n-1` are strictly sorted -/

theorem mem_insertS {a i : Var} {l : Key} : i ∈ insertS a l ↔ i = a ∨ i ∈ l := by
  induction l with
  | nil => simp [insertS]
  | cons b bs ih =>
    unfold insertS
    split
    · simp
    · simp only [List.mem_cons, ih]
      constructor
      · rintro (h | h | h)
        · exact Or.inr (Or.inl h)
        · exact Or.inl h
        · exact Or.inr (Or.inr h)
      · rintro (h | h | h)
        · exact Or.inr (Or.inl h)
        · exact Or.inl h
        · exact Or.inr (Or.inr h)

theorem length_insertS (a : Var) (l : Key) : (insertS a l).length = l.length + 1 := by
  induction l with
  | nil => rfl
  | cons b bs ih =>
    unfold insertS
    split
    · rfl
    · simp only [List.length_cons, ih]

theorem insertS_sorted {a : Var} {l : Key} (h : SSorted l) (ha : a ∉ l) : SSorted (insertS a l) := by
  induction l with
  | nil => trivial
  | cons b bs ih =>
    unfold insertS
    have hab : a ≠ b := fun e => ha (by rw [e]; exact List.mem_cons_self)
    split
    · rename_i hle
      exact ⟨Nat.lt_of_le_of_ne hle hab, h⟩
    · rename_i hle
      have hba : (b : Nat) < a := Nat.lt_of_not_le hle
      refine ss_of_head_lt (fun c hc => ?_) (ih h.tail (fun e => ha (List.mem_cons_of_mem _ e)))
      rcases mem_insertS.mp hc with rfl | hc
      · exact hba
      · exact ss_head_lt h c hc

theorem mem_isort {i : Var} {l : Key} : i ∈ isort l ↔ i ∈ l := by
  induction l with
  | nil => simp [isort]
  | cons a r ih =>
    have : isort (a :: r) = insertS a (isort r) := rfl
    rw [this, mem_insertS, ih]; simp

theorem length_isort (l : Key) : (isort l).length = l.length := by
  induction l with
  | nil => rfl
  | cons a r ih =>
    have : isort (a :: r) = insertS a (isort r) := rfl
    rw [this, length_insertS, ih]; rfl

theorem isort_sorted {l : Key} (h : l.Nodup) : SSorted (isort l) := by
  induction l with
  | nil => trivial
  | cons a r ih =>
    have : isort (a :: r) = insertS a (isort r) := rfl
    rw [this]
    rw [List.nodup_cons] at h
    exact insertS_sorted (ih h.2) (fun e => h.1 (mem_isort.mp e))

theorem mapLabels_spec {m : Mapping} {k l : Key} (h : mapLabels m k = .ok l) :
    l.length = k.length ∧ (∀ j ∈ l, ∃ i ∈ k, lookup m i = some j) ∧
    ((∀ i i' j, lookup m i = some j → lookup m i' = some j → i = i') → k.Nodup → l.Nodup) := by
  induction k generalizing l with
  | nil => simp only [mapLabels] at h; injection h with h; subst h; simp
  | cons i r ih =>
    simp only [mapLabels] at h
    split at h
    · cases h
    · rename_i j hj
      split at h
      · cases h
      · rename_i l' hl'
        injection h with h; subst h
        obtain ⟨a, b, c⟩ := ih hl'
        refine ⟨by simp [a], ?_, ?_⟩
        · intro j' hj'
          rcases List.mem_cons.mp hj' with rfl | hj'
          · exact ⟨i, List.mem_cons_self, hj⟩
          · obtain ⟨i', hi', e⟩ := b j' hj'
            exact ⟨i', List.mem_cons_of_mem _ hi', e⟩
        · intro hinj hnd
          rw [List.nodup_cons] at hnd ⊢
          refine ⟨fun hmem => ?_, c hinj hnd.2⟩
          obtain ⟨i', hi', e⟩ := b j hmem
          have := hinj i i' j hj e
          subst this
          exact hnd.1 hi'

theorem mapKey_spec {m : Mapping} {n : Nat} {k key : Key} (h : mapKey m k = .ok key)
    (hlt : ∀ i j, lookup m i = some j → (j : Nat) < n)
    (hinj : ∀ i i' j, lookup m i = some j → lookup m i' = some j → i = i') (hk : k.Nodup) :
    SSorted key ∧ (∀ i ∈ key, (i : Nat) < n) ∧ key.length = k.length := by
  unfold mapKey at h
  split at h
  · cases h
  · rename_i l hl
    injection h with h; subst h
    obtain ⟨a, b, c⟩ := mapLabels_spec hl
    refine ⟨isort_sorted (c hinj hk), fun i hi => ?_, by rw [length_isort, a]⟩
    obtain ⟨i', _, e⟩ := b i (mem_isort.mp hi)
    exact hlt i' i e

theorem mapSelf_keys {P : Key → Prop} {m : Mapping} {items acc mapped : Poly} {f f' : Freq}
    (h : mapSelf m items acc f = .ok (mapped, f')) (hacc : ∀ kv ∈ acc, P kv.1)
    (hit : ∀ kv ∈ items, ∀ key, mapKey m kv.1 = .ok key → P key) : ∀ kv ∈ mapped, P kv.1 := by
  induction items generalizing acc f with
  | nil => simp only [mapSelf] at h; injection h with h; injection h with h1 _; subst h1; exact hacc
  | cons kv r ih =>
    obtain ⟨k, v⟩ := kv
    simp only [mapSelf] at h
    split at h
    · cases h
    · rename_i key hk
      refine ih h (fun kv' hkv' => ?_) (fun kv' hkv' => hit kv' (List.mem_cons_of_mem _ hkv'))
      rcases mem_put acc key _ kv' hkv' with rfl | h'
      · exact hit (k, v) List.mem_cons_self key hk
      · exact hacc kv' h'

theorem reduceCore_mapped {terms : Poly} {m : Mapping} {n d : Nat} {lam : Lam} {pairs : List Key} {o : Out}
    (h : reduceCore terms m n d lam pairs = .ok o) : ∃ f, mapSelf m terms [] [] = .ok (o.mapped, f) := by
  unfold reduceCore at h
  split at h
  · cases h
  · rename_i p hp
    injection h with h; subst h
    exact ⟨p.2, hp⟩

/-- **T1.0** for the general form: the certificate of `reduceDegreeC` is accepted by the checker and reproduces
its `D`, for every model with duplicate-free keys whose mapping is injective with images below `n`, and whose
cached degree (used for `deg = None`) is an upper bound of the key lengths. -/
theorem reduceDegreeC_refines {items : Poly} {m : Mapping} {n cdeg : Nat} {deg : Option Nat} {lam : Lam}
    {pairs : List Key} {o : Out} (h : reduceDegreeC items m n cdeg deg lam pairs = .ok o)
    (hkeys : ∀ kv ∈ items, kv.1.Nodup)
    (hlt : ∀ i j, lookup m i = some j → (j : Nat) < n)
    (hinj : ∀ i i' j, lookup m i = some j → lookup m i' = some j → i = i')
    (hdeg : deg = none → ∀ kv ∈ items, kv.1.length ≤ cdeg) :
    ∃ st, replay n o.deg o.mapped o.certs = .ok st ∧ st.D = o.D ∧ st.next = o.next := by
  obtain ⟨d, hc, hsome, hnone⟩ := reduceDegreeC_core h
  obtain ⟨f, hm⟩ := reduceCore_mapped hc
  have hk : ∀ kv ∈ o.mapped, SSorted kv.1 ∧ ∀ i ∈ kv.1, (i : Nat) < n :=
    mapSelf_keys (P := fun key => SSorted key ∧ ∀ i ∈ key, (i : Nat) < n) hm (fun _ h => by cases h)
      (fun kv hkv key hkey => by
        obtain ⟨a, b, _⟩ := mapKey_spec hkey hlt hinj (hkeys kv hkv)
        exact ⟨a, b⟩)
  have hd : 2 ≤ d ∨ ∀ kv ∈ o.mapped, kv.1.length ≤ d := by
    cases hdg : deg with
    | some d' => exact Or.inl (hsome d' hdg).2
    | none =>
      right
      rw [hnone hdg]
      exact mapSelf_keys (P := fun key => key.length ≤ cdeg) hm (fun _ h => by cases h)
        (fun kv hkv key hkey => by
          obtain ⟨_, _, c⟩ := mapKey_spec hkey hlt hinj (hkeys kv hkv)
          rw [c]; exact hdeg hdg kv hkv)
  exact (reduceCore_refines hc hk hd).2

end Qv.Reduce
