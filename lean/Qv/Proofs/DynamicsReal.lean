import Qv.Model.Pcg
import Mathlib.Analysis.Complex.Exponential
import Mathlib.MeasureTheory.Measure.Lebesgue.Basic
import Mathlib.Data.Int.CardIntervalMod
import Mathlib.Tactic.Linarith
/-!
# C12, part R — the part of the distributional claim that is logic (T12.4)

* over ℝ (Mathlib's `Real.exp`): for `T > 0` the set of `u ∈ [0,1)` on which the C expression
  `dE <= 0 || (T > 0 && u < exp(-dE / T))` is true is the interval `[0, min 1 (exp (-dE/T)))`, whose Lebesgue
  measure is the Metropolis acceptance probability `min(1, exp(-dE/T))`; for `T = 0` it is `[0,1)` or `∅`;
* `pcg32_boundedrand_r`'s rejection threshold `(-bound) % bound` equals `2^32 % bound`, and among the accepted
  32-bit values `threshold ≤ x < 2^32` every residue `x % bound` has exactly `2^32 / bound` preimages.

Floating-point evaluation of `exp` and `/`, and the quality of PCG32 as a uniform source, are outside
(DESIGN.md §7).
-/
namespace Qv.Kernel

/-! ## the acceptance region -/

/-- the random numbers `u ∈ [0,1)` (the range of `rand_double`) on which
`dE <= 0 || (T > 0 && u < exp(-dE / T))` is true -/
def acceptRegion (dE T : ℝ) : Set ℝ :=
  {u | 0 ≤ u ∧ u < 1 ∧ (dE ≤ 0 ∨ (0 < T ∧ u < Real.exp (-dE / T)))}

theorem accept_iff (dE T u : ℝ) (hT : 0 < T) :
    (0 ≤ u ∧ u < 1 ∧ (dE ≤ 0 ∨ (0 < T ∧ u < Real.exp (-dE / T)))) ↔
      (0 ≤ u ∧ u < min 1 (Real.exp (-dE / T))) := by
  by_cases hdE : dE ≤ 0
  · have h1 : 1 ≤ Real.exp (-dE / T) := Real.one_le_exp (div_nonneg (by linarith) hT.le)
    rw [min_eq_left h1]
    constructor
    · rintro ⟨h0, hu, _⟩; exact ⟨h0, hu⟩
    · rintro ⟨h0, hu⟩; exact ⟨h0, hu, Or.inl hdE⟩
  · have hpos : 0 < dE := not_le.mp hdE
    have hneg : -dE / T < 0 := div_neg_of_neg_of_pos (by linarith) hT
    have h1 : Real.exp (-dE / T) < 1 := Real.exp_lt_one_iff.mpr hneg
    rw [min_eq_right h1.le]
    constructor
    · rintro ⟨h0, _, h | ⟨_, h⟩⟩
      · exact absurd h hdE
      · exact ⟨h0, h⟩
    · rintro ⟨h0, hu⟩; exact ⟨h0, lt_trans hu h1, Or.inr ⟨hT, hu⟩⟩

theorem acceptRegion_eq (dE T : ℝ) (hT : 0 < T) :
    acceptRegion dE T = Set.Ico 0 (min 1 (Real.exp (-dE / T))) := by
  ext u
  simp only [acceptRegion, Set.mem_ofPred_eq, Set.mem_Ico]
  exact accept_iff dE T u hT

theorem acceptRegion_volume (dE T : ℝ) (hT : 0 < T) :
    MeasureTheory.volume (acceptRegion dE T) = ENNReal.ofReal (min 1 (Real.exp (-dE / T))) := by
  rw [acceptRegion_eq dE T hT, Real.volume_Ico, sub_zero]

theorem acceptRegion_zero (dE : ℝ) :
    acceptRegion dE 0 = if dE ≤ 0 then Set.Ico 0 1 else ∅ := by
  ext u
  simp only [acceptRegion, Set.mem_ofPred_eq, lt_irrefl, false_and, or_false]
  split
  · rename_i h; simp [h]
  · rename_i h; simp [h]

/-! ## `rand_int` : the rejection rule of `pcg32_boundedrand_r` -/

theorem count_accept (M B v : ℕ) (hB : 0 < B) (hv : v < B) :
    ((Finset.range M).filter (fun x => M % B ≤ x ∧ x % B = v)).card = M / B := by
  have hcount : ∀ n, ((Finset.range n).filter (fun x => x % B = v)).card =
      n / B + if v < n % B then 1 else 0 := by
    intro n
    have h1 := Nat.count_modEq_card n hB v
    rw [Nat.count_eq_card_filter_range] at h1
    rw [Nat.mod_eq_of_lt hv] at h1
    rw [← h1]
    congr 1
    apply Finset.filter_congr
    intro x _
    simp [Nat.ModEq, Nat.mod_eq_of_lt hv]
  have hsplit := Finset.card_filter_add_card_filter_not
    (s := (Finset.range M).filter (fun x => x % B = v)) (fun x => M % B ≤ x)
  have hA : ((Finset.range M).filter (fun x => x % B = v)).filter (fun x => M % B ≤ x) =
      (Finset.range M).filter (fun x => M % B ≤ x ∧ x % B = v) := by
    rw [Finset.filter_filter]
    apply Finset.filter_congr
    intro x _
    exact and_comm
  have hD : ((Finset.range M).filter (fun x => x % B = v)).filter (fun x => ¬ M % B ≤ x) =
      (Finset.range (M % B)).filter (fun x => x % B = v) := by
    ext x
    simp only [Finset.mem_filter, Finset.mem_range, not_le]
    have := Nat.mod_le M B
    constructor
    · rintro ⟨⟨_, h2⟩, h3⟩; exact ⟨h3, h2⟩
    · rintro ⟨h1, h2⟩; exact ⟨⟨by omega, h2⟩, h1⟩
  rw [hA, hD, hcount M, hcount (M % B)] at hsplit
  have ht : M % B / B = 0 := Nat.div_eq_of_lt (Nat.mod_lt M hB)
  rw [ht, Nat.mod_mod] at hsplit
  omega

/-- the threshold `-bound % bound` of `pcg32_boundedrand_r`, computed in 32-bit arithmetic, is `2^32 mod bound` -/
theorem threshold_toNat (bound : UInt32) (hb : bound ≠ 0) :
    ((0 - bound) % bound).toNat = 2 ^ 32 % bound.toNat := by
  have hpos : 0 < bound.toNat := by
    rcases Nat.eq_zero_or_pos bound.toNat with h | h
    · exact absurd (UInt32.toNat_inj.mp (by simpa using h)) hb
    · exact h
  have hlt : bound.toNat < 4294967296 := bound.toNat_lt
  have e : (2 : Nat) ^ 32 = 4294967296 := by norm_num
  rw [UInt32.toNat_mod, UInt32.toNat_sub]
  have h0 : (0 : UInt32).toNat = 0 := rfl
  have h1 : (4294967296 - bound.toNat) % 4294967296 = 4294967296 - bound.toNat :=
    Nat.mod_eq_of_lt (by omega)
  rw [h0, Nat.add_zero, e, h1]
  exact (Nat.mod_eq_sub_mod (a := 4294967296) (b := bound.toNat) (by omega)).symm

end Qv.Kernel
