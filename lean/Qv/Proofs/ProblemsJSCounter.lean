import Qv.Proofs.ProblemsJSTop
/-!
# JobSequencing: the hypotheses of the ground-state theorems cannot be dropped (concrete instances)

* `js_default_tie`: at the default `A = None` (`A = B · max length`, the weak threshold) a ground state need not be
  feasible — one job of length 1, one worker: leaving the job unassigned costs `A = 1`, assigning it costs `B · 1 = 1`.
  So "the minimum of the QUBO is guaranteed to satisfy the constraints" (docstring of `to_qubo`) only holds in the sense
  of `js_default_top` (some ground state encodes an optimal schedule), not for every ground state.
* `js_small_M`: with `M` smaller than `Σ L` (`JS.Fits` violated; the docstring allows a smaller `M` "to possibly
  sacrifice accuracy") and `A = 4 > B · max length = 3`, the unique ground state leaves the job unassigned.
-/
namespace Qv.Prob
open Qv

/-- one job of length 1, one worker -/
def jsTie : JS := ⟨[(0, 1)], 1, true, 1⟩

theorem jsTie_energy (A B : Rat) (x : Var → Rat) :
    jsTie.energy A B x = A * (1 - x 0) ^ 2 + B * x 0 := by
  simp [JS.energy, JS.S, JS.jobs, JS.N, jsTie, JS.x, sumMap, List.range_succ]

theorem js_default_tie (Q : Poly) (h : jsTie.toQubo none 1 = .ok Q) :
    (∀ x'', IsBool x'' → eval (fun _ => (0 : Rat)) Q ≤ eval x'' Q) ∧ eval (fun _ => (0 : Rat)) Q = 1 ∧
      ¬ jsTie.OneHot (fun _ => (0 : Rat)) ∧ jsTie.NatLengths ∧ jsTie.Fits := by
  have hz : IsBool (fun _ : Var => (0 : Rat)) := fun _ => Or.inl rfl
  have hw : jsTie.weightA none 1 = 1 := by
    show (1 : Rat) * jsTie.maxL = 1
    have : jsTie.maxL = 1 := by decide +kernel
    rw [this]; norm_num
  have ev : ∀ x, IsBool x → eval x Q = (1 - x 0) ^ 2 + x 0 := by
    intro x hx
    rw [js_energy' jsTie none 1 Q h x hx, hw, jsTie_energy]; ring
  refine ⟨fun x'' hx'' => ?_, by rw [ev _ hz]; norm_num, fun hoh => ?_, ?_, ?_⟩
  · rw [ev _ hz, ev _ hx'']
    rcases hx'' 0 with h0 | h0 <;> rw [h0] <;> norm_num
  · have := hoh 0 (by show 0 < 1; omega)
    simp [JS.S, jsTie, sumMap, List.range_succ] at this
  · intro jl hjl
    simp only [jsTie, List.mem_cons, List.not_mem_nil, or_false] at hjl
    subst hjl
    exact ⟨1, by norm_num⟩
  · unfold JS.Fits; decide +kernel

/-- one job of length 3, two workers, `M = 1 < 3` -/
def jsSmallM : JS := ⟨[(0, 3)], 2, false, 1⟩

theorem jsSmallM_energy (A B : Rat) (x : Var → Rat) :
    jsSmallM.energy A B x = A * (1 - (x 0 + x 1)) ^ 2 + B * (3 * x 0) + A * (x 2 + 3 * (x 1 - x 0)) ^ 2 := by
  simp [JS.energy, JS.S, JS.Y, JS.D, JS.jobs, JS.N, jsSmallM, JS.x, JS.y, JS.maxM, JS.coef, sumMap, List.range_succ]

theorem js_small_M (Q : Poly) (h : jsSmallM.toQubo (some 4) 1 = .ok Q) :
    (∀ x'', IsBool x'' → eval (fun _ => (0 : Rat)) Q ≤ eval x'' Q) ∧
      (∀ x'', IsBool x'' → jsSmallM.OneHot x'' → eval (fun _ => (0 : Rat)) Q < eval x'' Q) ∧
      ¬ jsSmallM.OneHot (fun _ => (0 : Rat)) ∧ jsSmallM.NatLengths ∧ ¬ jsSmallM.Fits ∧
      (1 : Rat) * jsSmallM.maxL < jsSmallM.weightA (some 4) 1 := by
  have hz : IsBool (fun _ : Var => (0 : Rat)) := fun _ => Or.inl rfl
  have ev : ∀ x, IsBool x →
      eval x Q = 4 * (1 - (x 0 + x 1)) ^ 2 + 3 * x 0 + 4 * (x 2 + 3 * (x 1 - x 0)) ^ 2 := by
    intro x hx
    rw [js_energy' jsSmallM (some 4) 1 Q h x hx]
    show jsSmallM.energy 4 1 x = _
    rw [jsSmallM_energy]; ring
  have hS : ∀ x : Var → Rat, jsSmallM.S x 0 = x 0 + x 1 := by
    intro x; simp [JS.S, jsSmallM, JS.x, sumMap, List.range_succ]
  refine ⟨fun x'' hx'' => ?_, fun x'' hx'' hoh => ?_, fun hoh => ?_, ?_, ?_, ?_⟩
  · rw [ev _ hz, ev _ hx'']
    rcases hx'' 0 with h0 | h0 <;> rcases hx'' 1 with h1 | h1 <;> rcases hx'' 2 with h2 | h2 <;>
      rw [h0, h1, h2] <;> norm_num
  · have h1 := hoh 0 (by show 0 < 1; omega)
    rw [hS] at h1
    rw [ev _ hz, ev _ hx'']
    rcases hx'' 0 with h0 | h0 <;> rcases hx'' 1 with h1' | h1' <;> rcases hx'' 2 with h2 | h2 <;>
      rw [h0, h1'] at h1 <;> norm_num at h1 <;> rw [h0, h1', h2] <;> norm_num
  · have := hoh 0 (by show 0 < 1; omega)
    rw [hS] at this
    norm_num at this
  · intro jl hjl
    simp only [jsSmallM, List.mem_cons, List.not_mem_nil, or_false] at hjl
    subst hjl
    exact ⟨3, by norm_num⟩
  · unfold JS.Fits; decide +kernel
  · have : jsSmallM.maxL = 3 := by decide +kernel
    rw [this]; show (1 : Rat) * 3 < 4; norm_num

example : (jsTie.toQubo none 1).toOption.isSome = true := by decide +kernel
example : (jsSmallM.toQubo (some 4) 1).toOption.isSome = true := by decide +kernel

end Qv.Prob
