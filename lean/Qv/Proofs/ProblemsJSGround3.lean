import Qv.Proofs.ProblemsJSGround2
/-!
# JobSequencing ground states, part 3: the encoding of a feasible solution (ENC)
-/
namespace Qv.Prob
open Qv

/-- exchange workers `0` and `w0` -/
def JS.swap (w0 w : Nat) : Nat := if w = 0 then w0 else if w = w0 then 0 else w
/-- the natural number a rational is (when it is one) -/
def JS.natOf (r : Rat) : Nat := r.num.toNat
/-- bit `n` of the slack register holding `v`: binary digits with `log_trick`, the unary position `n + 1 = v` without -/
def JS.bit (p : JS) (n v : Nat) : Rat :=
  if p.logTrick then ((v / 2 ^ n % 2 : Nat) : Rat) else if n + 1 = v then 1 else 0
/-- what the slack register of worker `w` has to hold: `load y w0 - load y (swap w)` -/
def JS.slackVal (p : JS) (y : Var → Rat) (w0 w : Nat) : Nat := JS.natOf (p.load y w0 - p.load y (JS.swap w0 w))
/-- the encoded solution: workers `0` and `w0` exchanged, slack registers filled in -/
def JS.enc (p : JS) (y : Var → Rat) (w0 : Nat) : Var → Rat := fun v =>
  if v < p.N * p.m then y (p.x (v / p.m) (JS.swap w0 (v % p.m)))
  else p.bit ((v - p.N * p.m) / (p.m - 1)) (p.slackVal y w0 ((v - p.N * p.m) % (p.m - 1) + 1))

theorem js_natOf_cast (n : Nat) : JS.natOf (n : Rat) = n := by simp [JS.natOf]

theorem js_swap_lt {m w0 w : Nat} (h0 : w0 < m) (h : w < m) : JS.swap w0 w < m := by
  unfold JS.swap; split
  · exact h0
  · split <;> omega

theorem js_swap_zero (w0 : Nat) : JS.swap w0 0 = w0 := by simp [JS.swap]

theorem js_enc_x (p : JS) (y : Var → Rat) (w0 : Nat) {j w : Nat} (hj : j < p.N) (hw : w < p.m) :
    p.enc y w0 (p.x j w) = y (p.x j (JS.swap w0 w)) := by
  unfold JS.enc
  rw [if_pos ((js_x_lt p j hw).2 hj), js_x_div p j hw, js_x_mod p j hw]

theorem js_enc_y (p : JS) (y : Var → Rat) (w0 : Nat) (n : Nat) {w : Nat} (hw1 : 1 ≤ w) (hw : w < p.m) :
    p.enc y w0 (p.y n w) = p.bit n (p.slackVal y w0 w) := by
  have hk : 0 < p.m - 1 := by omega
  have hr : w - 1 < p.m - 1 := by omega
  have hy : p.y n w = p.N * p.m + ((w - 1) + n * (p.m - 1)) := by
    show p.N * p.m + n * (p.m - 1) + w - 1 = _
    omega
  unfold JS.enc
  rw [hy, if_neg (show ¬ (p.N * p.m + ((w - 1) + n * (p.m - 1)) < p.N * p.m) by omega), Nat.add_sub_cancel_left, Nat.add_mul_div_right _ _ hk, Nat.div_eq_of_lt hr,
    Nat.add_mul_mod_self_right, Nat.mod_eq_of_lt hr, Nat.zero_add, Nat.sub_add_cancel hw1]

/-! ## the slack register sums -/

theorem js_bits_log (V K : Nat) :
    sumMap (List.range K) (fun n => (2 : Rat) ^ n * ((V / 2 ^ n % 2 : Nat) : Rat)) = ((V % 2 ^ K : Nat) : Rat) := by
  induction K with
  | zero => simp [sumMap, Nat.mod_one]
  | succ K ih =>
    rw [List.range_succ, js_sumMap_append, ih, Nat.mod_pow_succ]
    simp only [sumMap]
    push_cast; ring

theorem js_Y_bits (p : JS) (V : Nat) (hV : V ≤ p.M) :
    sumMap (List.range p.maxM) (fun n => p.coef n * p.bit n V) = (V : Rat) := by
  unfold JS.maxM JS.coef JS.bit
  cases hl : p.logTrick
  case true =>
    simp only [if_true]
    rw [js_bits_log]
    have : V < 2 ^ p.logM := lt_of_le_of_lt hV (by unfold JS.logM; exact Nat.lt_log2_self)
    rw [Nat.mod_eq_of_lt this]
  case false =>
    simp only [Bool.false_eq_true, if_false]
    rcases V with _ | k
    · refine (js_sumMap_zero _ (fun n _ => ?_)).trans (by simp)
      simp
    · have h1 : ∀ n ∈ List.range p.M,
          ((n : Rat) + 1) * (if n + 1 = k + 1 then (1 : Rat) else 0) =
            if n = k then (fun i : Nat => (i : Rat) + 1) n else 0 := by
        intro n _
        by_cases h : n = k
        · subst h; simp
        · have : ¬ n + 1 = k + 1 := by omega
          simp [h]
      rw [sumMap_congr _ h1, js_sumMap_ind]
      have : k < p.M := by omega
      simp [this]

/-! ## permuting the workers -/

theorem js_sum_swap (m w0 : Nat) (hw0 : w0 < m) (f : Nat → Rat) :
    sumMap (List.range m) (fun w => f (JS.swap w0 w)) = sumMap (List.range m) f := by
  by_cases h0 : w0 = 0
  · subst h0
    refine sumMap_congr _ (fun w _ => ?_)
    unfold JS.swap
    by_cases h : w = 0 <;> simp [h]
  · have h1 : ∀ w ∈ List.range m, f (JS.swap w0 w) =
        (f w + (if w = 0 then (fun _ => f w0 - f 0) w else 0)) + (if w = w0 then (fun _ => f 0 - f w0) w else 0) := by
      intro w _
      unfold JS.swap
      by_cases h : w = 0
      · subst h
        have : ¬ (0 = w0) := fun e => h0 e.symm
        simp [this]
      · by_cases h' : w = w0
        · subst h'; simp [h]
        · simp [h, h']
    rw [sumMap_congr _ h1, sumMap_add, sumMap_add, js_sumMap_ind, js_sumMap_ind]
    have hm : 0 < m := by omega
    simp only [hm, hw0, if_true]; ring

theorem js_argmax (m : Nat) (hm : 1 ≤ m) (f : Nat → Rat) : ∃ w0, w0 < m ∧ ∀ w, w < m → f w ≤ f w0 := by
  induction m with
  | zero => omega
  | succ k ih =>
    rcases Nat.eq_zero_or_pos k with rfl | hk
    · refine ⟨0, by omega, fun w hw => ?_⟩
      have : w = 0 := by omega
      subst this; exact le_refl _
    · obtain ⟨w0, h0, h1⟩ := ih hk
      by_cases hc : f k ≤ f w0
      · refine ⟨w0, by omega, fun w hw => ?_⟩
        rcases Nat.lt_succ_iff_lt_or_eq.1 hw with h | rfl
        · exact h1 w h
        · exact hc
      · refine ⟨k, by omega, fun w hw => ?_⟩
        rcases Nat.lt_succ_iff_lt_or_eq.1 hw with h | rfl
        · exact le_trans (h1 w h) (le_of_lt (not_le.1 hc))
        · exact le_refl _

/-! ## loads of the encoded solution -/

theorem js_sum_lengths (is : List Nat) (l : List Rat) (h : is.length = l.length) :
    sumMap (is.zip l) (fun jl => jl.2) = sumL l := by
  induction l generalizing is with
  | nil => simp [sumMap, sumL]
  | cons a r ih =>
    cases is with
    | nil => simp at h
    | cons i is =>
      simp only [List.zip_cons_cons, sumMap, sumL]
      rw [ih is (by simpa using h)]

theorem js_load_le_total (p : JS) (hN : p.NatLengths) {y : Var → Rat} (hy : IsBool y) (w : Nat) :
    p.load y w ≤ sumL (p.lengths.map Prod.snd) := by
  have h1 : sumMap p.jobs (fun jl => jl.2) = sumL (p.lengths.map Prod.snd) :=
    js_sum_lengths _ _ (by simp [JS.N])
  rw [← h1]
  refine js_sumMap_le _ (fun jl hjl => ?_)
  have h2 := js_job_nonneg p hN hjl
  have h3 := (js_bool_bounds hy (p.x jl.1 w)).2
  nlinarith

theorem js_enc_load (p : JS) (y : Var → Rat) (w0 : Nat) {w : Nat} (hw : w < p.m) :
    p.load (p.enc y w0) w = p.load y (JS.swap w0 w) :=
  sumMap_congr _ (fun jl hjl => by rw [js_enc_x p y w0 (js_jobs_mem p hjl).1 hw])

theorem js_enc_S (p : JS) (y : Var → Rat) {w0 : Nat} (hw0 : w0 < p.m) {j : Nat} (hj : j < p.N) :
    p.S (p.enc y w0) j = p.S y j := by
  unfold JS.S
  rw [← js_sum_swap p.m w0 hw0 (fun w => y (p.x j w))]
  exact sumMap_congr _ (fun w hw => js_enc_x p y w0 hj (List.mem_range.1 hw))

theorem js_slackVal_spec (p : JS) (hN : p.NatLengths) (hF : p.Fits) {y : Var → Rat} (hy : IsBool y) {w0 : Nat}
    (hw0 : w0 < p.m) (hmax : ∀ w, w < p.m → p.load y w ≤ p.load y w0) {w : Nat} (hw : w < p.m) :
    ((p.slackVal y w0 w : Nat) : Rat) = p.load y w0 - p.load y (JS.swap w0 w) ∧ p.slackVal y w0 w ≤ p.M := by
  obtain ⟨a, ha⟩ := js_load_nat p hN hy w0
  obtain ⟨b, hb⟩ := js_load_nat p hN hy (JS.swap w0 w)
  have hle := hmax _ (js_swap_lt hw0 hw)
  rw [ha, hb] at hle
  have hba : b ≤ a := by exact_mod_cast hle
  have h1 : p.slackVal y w0 w = a - b := by
    unfold JS.slackVal
    rw [ha, hb, ← Nat.cast_sub hba, js_natOf_cast]
  have h2 := js_load_le_total p hN hy w0
  unfold JS.Fits at hF
  have h3 : (a : Rat) ≤ (p.M : Rat) := by rw [← ha]; linarith
  have h4 : a ≤ p.M := by exact_mod_cast h3
  refine ⟨by rw [h1, ha, hb, Nat.cast_sub hba], by omega⟩

theorem js_bit_bool (p : JS) (n v : Nat) : p.bit n v = 0 ∨ p.bit n v = 1 := by
  unfold JS.bit
  split
  · rcases Nat.mod_two_eq_zero_or_one (v / 2 ^ n) with h | h <;> rw [h] <;> simp
  · split
    · right; rfl
    · left; rfl

theorem js_enc_bool (p : JS) {y : Var → Rat} (hy : IsBool y) (w0 : Nat) : IsBool (p.enc y w0) := by
  intro v
  unfold JS.enc
  split
  · exact hy _
  · exact js_bit_bool p _ _

theorem js_enc_onehot (p : JS) {y : Var → Rat} (hoh : p.OneHot y) {w0 : Nat} (hw0 : w0 < p.m) :
    p.OneHot (p.enc y w0) :=
  fun j hj => by rw [js_enc_S p y hw0 hj]; exact hoh j hj

theorem js_enc_Y (p : JS) (y : Var → Rat) (w0 : Nat) {w : Nat} (hw1 : 1 ≤ w) (hw : w < p.m)
    (hV : p.slackVal y w0 w ≤ p.M) : p.Y (p.enc y w0) w = ((p.slackVal y w0 w : Nat) : Rat) := by
  unfold JS.Y
  rw [← js_Y_bits p _ hV]
  exact sumMap_congr _ (fun n _ => by rw [js_enc_y p y w0 n hw1 hw])

/-- the energy of the encoded solution is `B` times the largest load -/
theorem js_enc_energy (p : JS) (A B : Rat) (hN : p.NatLengths) (hF : p.Fits) {y : Var → Rat} (hy : IsBool y)
    (hoh : p.OneHot y) {w0 : Nat} (hw0 : w0 < p.m) (hmax : ∀ w, w < p.m → p.load y w ≤ p.load y w0) :
    p.energy A B (p.enc y w0) = B * p.load y w0 := by
  have hm : 0 < p.m := by omega
  rw [js_energy_eq, js_pen_zero p (js_enc_onehot p hoh hw0), js_enc_load p y w0 hm, js_swap_zero]
  have h3 : sumMap ((List.range p.m).drop 1) (fun w => (p.Y (p.enc y w0) w + p.D (p.enc y w0) w) ^ 2) = 0 := by
    refine js_sumMap_zero _ (fun w hw => ?_)
    obtain ⟨hw1, hwm⟩ := js_mem_drop_one.1 hw
    obtain ⟨hv, hV⟩ := js_slackVal_spec p hN hF hy hw0 hmax hwm
    rw [js_enc_Y p y w0 hw1 hwm hV, hv, js_D_eq, js_enc_load p y w0 hwm, js_enc_load p y w0 hm, js_swap_zero]
    ring
  rw [h3]; ring

/-- **(ENC)** every boolean one-hot `y` has an encoding `x'` (boolean, one-hot, the same loads up to exchanging
worker `0` with a worker `w0` of maximal load) whose energy is `B ·` the maximal load of `y`. -/
theorem js_ENC (p : JS) (A B : Rat) (hm : 1 ≤ p.m) (hN : p.NatLengths) (hF : p.Fits)
    (y : Var → Rat) (hy : IsBool y) (hoh : p.OneHot y) :
    ∃ x', IsBool x' ∧ p.OneHot x' ∧ (∃ w0, w0 < p.m ∧ (∀ w, w < p.m → p.load y w ≤ p.load y w0) ∧
      p.energy A B x' = B * p.load y w0 ∧ p.load x' 0 = p.load y w0 ∧
      ∀ w, w < p.m → p.load x' w ≤ p.load y w0) := by
  obtain ⟨w0, hw0, hmax⟩ := js_argmax p.m hm (p.load y)
  refine ⟨p.enc y w0, js_enc_bool p hy w0, js_enc_onehot p hoh hw0, w0, hw0, hmax,
    js_enc_energy p A B hN hF hy hoh hw0 hmax, ?_, fun w hw => ?_⟩
  · rw [js_enc_load p y w0 (by omega), js_swap_zero]
  · rw [js_enc_load p y w0 hw]; exact hmax _ (js_swap_lt hw0 hw)

end Qv.Prob
