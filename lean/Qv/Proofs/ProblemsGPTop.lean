import Qv.Proofs.ProblemsGPGround3
import Qv.Proofs.ProblemsGP
import Qv.Proofs.ProblemsGPValid
/-!
# GraphPartitioning ground states, stated about the model's `to_quso`
-/
namespace Qv.Prob
open Qv

/-- `⟦to_quso(A, B)⟧z` is the energy `A (Σ z)^2 + B·cut` with the weight actually used -/
theorem gp_eval_energy {p : GP} {A : Option Rat} {B : Rat} {L : Poly} (hL : p.toQuso A B = .ok L) {z : Var → Rat}
    (hz : IsSpin z) : eval z L = p.energy (p.weightA A B) B z := by
  rw [gp_toQuso_eval p A B L hL z hz]; simp only [GP.energy, GP.cutCost]; ring

theorem gp_weightA_none (p : GP) (B : Rat) :
    p.weightA none B = B * ((min (2 * p.degree) p.numVars : Nat) : Rat) / 8 := by
  simp only [GP.weightA]; ring

/-- **T10.3 (GraphPartitioning), ground states.**  `order` enumerates the vertices, the graph is simple with weights in
`[0, 1]`, `N` even, `B ≥ 0`, and the weight in use exceeds the documented threshold `B·min(2·degree, N)/8`: every spin
minimiser of `to_quso(A, B)` is balanced, its value is `B ·` (weight of its cut), and no balanced partition has a
lighter cut. -/
theorem gp_ground_states_top {p : GP} (hwf : p.WF) (hu : p.UnitWeights) (hsimple : p.Simple) {A : Option Rat}
    {B : Rat} (hB : 0 ≤ B) {L : Poly} (hL : p.toQuso A B = .ok L)
    (hA : B * ((min (2 * p.degree) p.numVars : Nat) : Rat) / 8 < p.weightA A B) {h : Nat}
    (hN : p.numVars = 2 * h) {z : Var → Rat} (hz : IsSpin z)
    (hmin : ∀ z'' : Var → Rat, IsSpin z'' → eval z L ≤ eval z'' L) :
    p.Balanced z ∧ eval z L = p.cutCost B z ∧
      ∀ y : Var → Rat, IsSpin y → p.Balanced y → p.cutCost B z ≤ p.cutCost B y := by
  have := gp_ground_states hwf hu hsimple hB hA hN hz
    (fun z'' hz'' => by rw [← gp_eval_energy hL hz, ← gp_eval_energy hL hz'']; exact hmin z'' hz'')
  rwa [← gp_eval_energy hL hz] at this

/-- **T10.3 (GraphPartitioning), the threshold itself suffices for optimality.**  With the weight in use `≥` the
threshold, every balanced partition of minimal cut weight minimises `to_quso(A, B)` over all spin states. -/
theorem gp_default_top {p : GP} (hwf : p.WF) (hu : p.UnitWeights) (hsimple : p.Simple) {A : Option Rat}
    {B : Rat} (hB : 0 ≤ B) {L : Poly} (hL : p.toQuso A B = .ok L)
    (hA : B * ((min (2 * p.degree) p.numVars : Nat) : Rat) / 8 ≤ p.weightA A B) {h : Nat}
    (hN : p.numVars = 2 * h) {y : Var → Rat} (hy : IsSpin y) (hyb : p.Balanced y)
    (hopt : ∀ y' : Var → Rat, IsSpin y' → p.Balanced y' → p.cutCost B y ≤ p.cutCost B y') :
    (∀ z : Var → Rat, IsSpin z → eval y L ≤ eval z L) ∧ eval y L = p.cutCost B y := by
  obtain ⟨h1, h2⟩ := gp_default hwf hu hsimple hB hA hN hyb hopt
  refine ⟨fun z hz => ?_, by rw [gp_eval_energy hL hy]; exact h2⟩
  rw [gp_eval_energy hL hy, gp_eval_energy hL hz]; exact h1 z hz

/-- the default `A = None` is exactly the threshold, so `gp_default_top` applies to it -/
theorem gp_default_none_top {p : GP} (hwf : p.WF) (hu : p.UnitWeights) (hsimple : p.Simple)
    {B : Rat} (hB : 0 ≤ B) {L : Poly} (hL : p.toQuso none B = .ok L) {h : Nat}
    (hN : p.numVars = 2 * h) {y : Var → Rat} (hy : IsSpin y) (hyb : p.Balanced y)
    (hopt : ∀ y' : Var → Rat, IsSpin y' → p.Balanced y' → p.cutCost B y ≤ p.cutCost B y') :
    (∀ z : Var → Rat, IsSpin z → eval y L ≤ eval z L) ∧ eval y L = p.cutCost B y :=
  gp_default_top hwf hu hsimple hB hL (le_of_eq (gp_weightA_none p B).symm) hN hy hyb hopt

/-- ground states for the threshold `B·degree/4`, repeated edges allowed -/
theorem gp_ground_states_deg_partial_top {p : GP} (hwf : p.WF) (hu : p.UnitWeights) {A : Option Rat}
    {B : Rat} (hB : 0 ≤ B) {L : Poly} (hL : p.toQuso A B = .ok L)
    (hA : B * (p.degree : Rat) / 4 < p.weightA A B) {h : Nat}
    (hN : p.numVars = 2 * h) {z : Var → Rat} (hz : IsSpin z)
    (hmin : ∀ z'' : Var → Rat, IsSpin z'' → eval z L ≤ eval z'' L) :
    p.Balanced z ∧ eval z L = p.cutCost B z ∧
      ∀ y : Var → Rat, IsSpin y → p.Balanced y → p.cutCost B z ≤ p.cutCost B y := by
  have := gp_ground_states_deg_partial hwf hu hB hA hN hz
    (fun z'' hz'' => by rw [← gp_eval_energy hL hz, ← gp_eval_energy hL hz'']; exact hmin z'' hz'')
  rwa [← gp_eval_energy hL hz] at this

theorem gp_default_deg_partial_top {p : GP} (hwf : p.WF) (hu : p.UnitWeights) {A : Option Rat}
    {B : Rat} (hB : 0 ≤ B) {L : Poly} (hL : p.toQuso A B = .ok L)
    (hA : B * (p.degree : Rat) / 4 ≤ p.weightA A B) {h : Nat}
    (hN : p.numVars = 2 * h) {y : Var → Rat} (hy : IsSpin y) (hyb : p.Balanced y)
    (hopt : ∀ y' : Var → Rat, IsSpin y' → p.Balanced y' → p.cutCost B y ≤ p.cutCost B y') :
    (∀ z : Var → Rat, IsSpin z → eval y L ≤ eval z L) ∧ eval y L = p.cutCost B y := by
  obtain ⟨h1, h2⟩ := gp_default_deg_partial hwf hu hB hA hN hyb hopt
  refine ⟨fun z hz => ?_, by rw [gp_eval_energy hL hy]; exact h2⟩
  rw [gp_eval_energy hL hy, gp_eval_energy hL hz]; exact h1 z hz

/-! ### the threshold is insufficient outside `UnitWeights` / `Simple` -/

/-- one edge of weight `10`, `A = 1 > 1/4 = B·min(2·degree, N)/8`: the unbalanced state `(1, 1)` has energy `4`, the
balanced state `(1, -1)` energy `10` -/
theorem gp_threshold_weighted_counterexample :
    ∃ L, GP.toQuso ⟨[((0, 1), 10)], [0, 1]⟩ (some 1) 1 = .ok L ∧
      eval (fun _ => (1 : Rat)) L < eval (fun i => if i = 0 then (1 : Rat) else -1) L := by
  have h : (match GP.toQuso ⟨[((0, 1), 10)], [0, 1]⟩ (some 1) 1 with
      | .ok L => decide (eval (fun _ => (1 : Rat)) L < eval (fun i => if i = 0 then (1 : Rat) else -1) L)
      | .error _ => false) = true := by decide +kernel
  split at h
  · rename_i L hL; exact ⟨L, hL, of_decide_eq_true h⟩
  · cases h

/-- the edge `{0, 1}` given in both directions with weight `1` (`N = 2`, degree `2`, threshold `1/4`), `A = 3/10`: the
unbalanced state `(1, 1)` has energy `6/5`, the balanced state `(1, -1)` energy `2` -/
theorem gp_threshold_bidirectional_counterexample :
    ∃ L, GP.toQuso ⟨[((0, 1), 1), ((1, 0), 1)], [0, 1]⟩ (some (3 / 10)) 1 = .ok L ∧
      eval (fun _ => (1 : Rat)) L < eval (fun i => if i = 0 then (1 : Rat) else -1) L := by
  have h : (match GP.toQuso ⟨[((0, 1), 1), ((1, 0), 1)], [0, 1]⟩ (some (3 / 10)) 1 with
      | .ok L => decide (eval (fun _ => (1 : Rat)) L < eval (fun i => if i = 0 then (1 : Rat) else -1) L)
      | .error _ => false) = true := by decide +kernel
  split at h
  · rename_i L hL; exact ⟨L, hL, of_decide_eq_true h⟩
  · cases h

/-- the thresholds of the two instances above are `1/4`, below the weights `1` and `3/10` used -/
example : (1 : Rat) * ((min (2 * (⟨[((0, 1), 10)], [0, 1]⟩ : GP).degree)
    (⟨[((0, 1), 10)], [0, 1]⟩ : GP).numVars : Nat) : Rat) / 8 = 1 / 4 := by decide +kernel
example : (1 : Rat) * ((min (2 * (⟨[((0, 1), 1), ((1, 0), 1)], [0, 1]⟩ : GP).degree)
    (⟨[((0, 1), 1), ((1, 0), 1)], [0, 1]⟩ : GP).numVars : Nat) : Rat) / 8 = 1 / 4 := by decide +kernel

/-! ### non-vacuity: the path `0 - 1 - 2 - 3` with a self-loop at `3`, vertices enumerated as `2, 0, 3, 1` -/

def gpPath4 : GP := ⟨[((0, 1), 1), ((1, 2), 1), ((2, 3), 1), ((3, 3), 1)], [2, 0, 3, 1]⟩

example : gpPath4.WF := by unfold GP.WF; decide +kernel
example : gpPath4.UnitWeights := by unfold GP.UnitWeights; decide +kernel
example : gpPath4.Simple := by unfold GP.Simple; decide +kernel
example : gpPath4.numVars = 2 * 2 := by decide
example : (gpPath4.toQuso none 1).toOption.isSome = true := by decide +kernel
example : (gpPath4.toQuso (some 1) 1).toOption.isSome = true := by decide +kernel
/-- degree `3` (vertex `3`: one edge and the self-loop counted twice), `N = 4`: threshold `1/2 < 1` -/
example : (1 : Rat) * ((min (2 * gpPath4.degree) gpPath4.numVars : Nat) : Rat) / 8 < gpPath4.weightA (some 1) 1 := by
  decide +kernel
example : (1 : Rat) * (gpPath4.degree : Rat) / 4 < gpPath4.weightA (some 1) 1 := by decide +kernel

theorem gpPath4_cutCost (z : Var → Rat) :
    gpPath4.cutCost 1 z = 3 / 2 - (z 1 * z 3 + z 3 * z 0 + z 0 * z 2) / 2 := by
  have e : gpPath4.edges = [((0, 1), 1), ((1, 2), 1), ((2, 3), 1)] := by decide +kernel
  have i0 : idxD gpPath4.order 0 = 1 := by decide
  have i1 : idxD gpPath4.order 1 = 3 := by decide
  have i2 : idxD gpPath4.order 2 = 0 := by decide
  have i3 : idxD gpPath4.order 3 = 2 := by decide
  simp only [GP.cutCost, e, cutSum, i0, i1, i2, i3, List.map, sumL]
  ring

def gpPath4Sol : Var → Rat := fun i => if i = 1 ∨ i = 3 then 1 else -1

/-- all hypotheses of `gp_ground_states_top` / `gp_default_top` hold together on `gpPath4` with `A = B = 1`: the partition
`{0, 1} | {2, 3}` (cut weight 1) is a ground state -/
theorem gpPath4_ground : ∃ L, gpPath4.toQuso (some 1) 1 = .ok L ∧ IsSpin gpPath4Sol ∧
    ∀ z'' : Var → Rat, IsSpin z'' → eval gpPath4Sol L ≤ eval z'' L := by
  have hs : (gpPath4.toQuso (some 1) 1).toOption.isSome = true := by decide +kernel
  cases hL : gpPath4.toQuso (some 1) 1 with
  | error e => rw [hL] at hs; cases hs
  | ok L =>
    have hy : IsSpin gpPath4Sol := by
      intro i; unfold gpPath4Sol; by_cases h : i = 1 ∨ i = 3 <;> simp [h]
    refine ⟨L, rfl, hy, ?_⟩
    refine (gp_default_top (h := 2) (by unfold GP.WF; decide +kernel) (by unfold GP.UnitWeights; decide +kernel)
      (by unfold GP.Simple; decide +kernel) (by norm_num) hL (by decide +kernel) (by decide) hy ?_ ?_).1
    · show sumTo gpPath4Sol 4 = 0
      simp [sumTo, gpPath4Sol]
    · intro y' hy' hb
      have hb' : sumTo y' 4 = 0 := hb
      simp only [sumTo] at hb'
      rw [gpPath4_cutCost, gpPath4_cutCost]
      have v : gpPath4Sol 0 = -1 ∧ gpPath4Sol 1 = 1 ∧ gpPath4Sol 2 = -1 ∧ gpPath4Sol 3 = 1 := by
        simp [gpPath4Sol]
      obtain ⟨v0, v1, v2, v3⟩ := v
      rw [v0, v1, v2, v3]
      rcases hy' 0 with h0 | h0 <;> rcases hy' 1 with h1 | h1 <;> rcases hy' 2 with h2 | h2 <;>
        rcases hy' 3 with h3 | h3 <;> rw [h0, h1, h2, h3] at hb' ⊢ <;>
        first | (exfalso; norm_num at hb'; done) | norm_num

/-- `gp_ground_states_top` applied to it: every minimiser of that QUSO is balanced with cut weight `≤ 1` -/
example {L : Poly} (hL : gpPath4.toQuso (some 1) 1 = .ok L) {z : Var → Rat} (hz : IsSpin z)
    (hmin : ∀ z'' : Var → Rat, IsSpin z'' → eval z L ≤ eval z'' L) :
    gpPath4.Balanced z ∧ gpPath4.cutCost 1 z ≤ 1 := by
  obtain ⟨hb, _, hopt⟩ := gp_ground_states_top (h := 2) (by unfold GP.WF; decide +kernel)
    (by unfold GP.UnitWeights; decide +kernel) (by unfold GP.Simple; decide +kernel) (by norm_num) hL
    (by decide +kernel) (by decide) hz hmin
  have hy : IsSpin gpPath4Sol := by
    intro i; unfold gpPath4Sol; by_cases h : i = 1 ∨ i = 3 <;> simp [h]
  have := hopt gpPath4Sol hy (by show sumTo gpPath4Sol 4 = 0; simp [sumTo, gpPath4Sol])
  rw [gpPath4_cutCost gpPath4Sol] at this
  refine ⟨hb, le_trans this ?_⟩
  simp [gpPath4Sol]; norm_num

end Qv.Prob
