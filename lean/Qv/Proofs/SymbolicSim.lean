import Qv.Proofs.SymbolicGeneric
import Qv.Proofs.PcboNe
/-!
# C16, T16.0: linearity in the weight — the simulation relation and the `lam`-scaling lemmas

`smap lam q` multiplies every coefficient of the dict `q` by `lam`.  For `lam ≠ 0` every polynomial the builders
add is *literally* `smap lam` of the polynomial added at weight `1` (`scaleB_smap`, `mulB_smap`, …): the zero test
of `__setitem__` cannot tell `lam * v` from `v`.

`Sim lam st s s1` relates a run `s` that started from the state `st` with weight `lam` to the run `s1` that started
from the empty state (same ancilla counter) with weight `1`: coefficientwise `s.terms = st.terms + lam • s1.terms`,
equal ancilla counters, and `s`'s warnings / tags are `st`'s followed by `s1`'s.
-/
namespace Qv.Sym
open Qv Qv.PcboP

def smap (c : Rat) (q : Poly) : Poly := q.map (fun kv => (kv.1, c * kv.2))

@[simp] theorem smap_nil (c : Rat) : smap c [] = [] := rfl
@[simp] theorem smap_cons (c : Rat) (k : Key) (v : Rat) (q : Poly) : smap c ((k, v) :: q) = (k, c * v) :: smap c q := rfl

theorem get_smap (c : Rat) (q : Poly) (k : Key) : get (smap c q) k = c * get q k := by
  induction q with
  | nil => simp [get]
  | cons kv r ih => obtain ⟨k', v⟩ := kv; simp only [smap_cons, get]; split <;> simp [ih]

theorem erase_smap (c : Rat) (q : Poly) (k : Key) : erase (smap c q) k = smap c (erase q k) := by
  induction q with
  | nil => rfl
  | cons kv r ih => obtain ⟨k', v⟩ := kv; simp only [smap_cons, erase]; split <;> simp [ih]

theorem put_smap (c : Rat) (q : Poly) (k : Key) (v : Rat) : put (smap c q) k (c * v) = smap c (put q k v) := by
  induction q with
  | nil => rfl
  | cons kv r ih => obtain ⟨k', v'⟩ := kv; simp only [smap_cons, put]; split <;> simp [ih]

theorem set_smap {c : Rat} (hc : c ≠ 0) (q : Poly) (k : Key) (v : Rat) :
    set (smap c q) k (c * v) = smap c (set q k v) := by
  unfold set
  by_cases hv : v = 0
  · rw [if_pos hv, if_pos (by rw [hv]; ring), erase_smap]
  · rw [if_neg hv, if_neg (mul_ne_zero hc hv), put_smap]

theorem addTermB_smap {c : Rat} (hc : c ≠ 0) (q : Poly) (k : Key) (v : Rat) :
    addTermB (smap c q) k (c * v) = smap c (addTermB q k v) := by
  unfold addTermB
  simp only []
  rw [get_smap, ← mul_add, set_smap hc]

theorem scaleFold_smap {c : Rat} (hc : c ≠ 0) (P acc : Poly) :
    P.foldl (fun acc kv => addTermB acc kv.1 (c * kv.2)) (smap c acc)
      = smap c (P.foldl (fun acc kv => addTermB acc kv.1 (1 * kv.2)) acc) := by
  induction P generalizing acc with
  | nil => rfl
  | cons kv r ih =>
    simp only [List.foldl_cons]
    rw [addTermB_smap hc, one_mul, ih]

/-- `lam * P` is `1 * P` with every coefficient multiplied by `lam` -/
theorem scaleB_smap {c : Rat} (hc : c ≠ 0) (P : Poly) : scaleB c P = smap c (scaleB 1 P) := by
  unfold scaleB
  exact scaleFold_smap hc P []

theorem mulRow_smap {c : Rat} (hc : c ≠ 0) (k : Key) (v : Rat) (B acc : Poly) :
    B.foldl (fun acc2 kv2 => addTermB acc2 (k ++ kv2.1) (c * v * kv2.2)) (smap c acc)
      = smap c (B.foldl (fun acc2 kv2 => addTermB acc2 (k ++ kv2.1) (v * kv2.2)) acc) := by
  induction B generalizing acc with
  | nil => rfl
  | cons kv r ih =>
    simp only [List.foldl_cons]
    rw [mul_assoc, addTermB_smap hc, ih]

theorem mulFold_smap {c : Rat} (hc : c ≠ 0) (A B acc : Poly) :
    (smap c A).foldl (fun acc kv => B.foldl (fun acc2 kv2 => addTermB acc2 (kv.1 ++ kv2.1) (kv.2 * kv2.2)) acc) (smap c acc)
      = smap c (A.foldl (fun acc kv => B.foldl (fun acc2 kv2 => addTermB acc2 (kv.1 ++ kv2.1) (kv.2 * kv2.2)) acc) acc) := by
  induction A generalizing acc with
  | nil => rfl
  | cons kv r ih =>
    obtain ⟨k, v⟩ := kv
    simp only [smap_cons, List.foldl_cons]
    rw [mulRow_smap hc, ih]

/-- `(lam • A) * B = lam • (A * B)` as dicts -/
theorem mulB_smap {c : Rat} (hc : c ≠ 0) (A B : Poly) : mulB (smap c A) B = smap c (mulB A B) := by
  unfold mulB
  exact mulFold_smap hc A B []

theorem scaleFold_of_smap {c : Rat} (hc : c ≠ 0) (d : Rat) (A acc : Poly) :
    (smap c A).foldl (fun acc kv => addTermB acc kv.1 (d * kv.2)) (smap c acc)
      = smap c (A.foldl (fun acc kv => addTermB acc kv.1 (d * kv.2)) acc) := by
  induction A generalizing acc with
  | nil => rfl
  | cons kv r ih =>
    obtain ⟨k, v⟩ := kv
    simp only [smap_cons, List.foldl_cons]
    rw [show d * (c * v) = c * (d * v) by ring, addTermB_smap hc, ih]

/-- `d * (lam • A) = lam • (d * A)` as dicts -/
theorem scaleB_of_smap {c : Rat} (hc : c ≠ 0) (d : Rat) (A : Poly) : scaleB d (smap c A) = smap c (scaleB d A) := by
  unfold scaleB
  exact scaleFold_of_smap hc d A []

theorem addConstB_smap {c : Rat} (hc : c ≠ 0) : addConstB [] c = smap c (addConstB [] 1) := by
  unfold addConstB
  have := addTermB_smap hc [] [] 1
  simpa using this

theorem negPoly_smap (c : Rat) (q : Poly) : negPoly (smap c q) = smap c (negPoly q) := by
  unfold negPoly smap
  rw [List.map_map, List.map_map]
  apply List.map_congr_left
  intro kv _
  simp

theorem csum_smap (c : Rat) (q : Poly) (k : Key) : csum (smap c q) k = c * csum q k := by
  induction q with
  | nil => simp [csum_nil]
  | cons kv r ih =>
    obtain ⟨k', v⟩ := kv
    simp only [smap_cons, csum_cons, ih]
    split <;> ring

theorem csum_negPoly (q : Poly) (k : Key) : csum (negPoly q) k = - csum q k := by
  induction q with
  | nil => simp [negPoly, csum_nil]
  | cons kv r ih =>
    obtain ⟨k', v⟩ := kv
    have : negPoly ((k', v) :: r) = (k', -v) :: negPoly r := rfl
    rw [this, csum_cons, csum_cons, ih]
    split <;> ring

theorem sqKeys_iaddB (p q : Poly) (h : ∀ k ∈ keys p, squashB k = k) : ∀ k ∈ keys (iaddB p q), squashB k = k := by
  have := sqKeys_iaddR (R := Rat) (sq := squashB) squashB_idem q (p := p) h
  rw [iaddR_rat] at this
  exact this

/-! ## the simulation relation -/

structure Sim (lam : Rat) (st s s1 : St) : Prop where
  terms : ∀ k, get s.terms k = get st.terms k + lam * get s1.terms k
  nd : (keys s.terms).Nodup
  nd1 : (keys s1.terms).Nodup
  sq1 : ∀ k ∈ keys s1.terms, squashB k = k
  anc : s.anc = s1.anc
  warns : s.warns = st.warns ++ s1.warns
  tags : s.tags = st.tags ++ s1.tags

/-- the start: the state itself against the empty PCBO with the same ancilla counter -/
theorem Sim.init (lam : Rat) (st : St) (h : (keys st.terms).Nodup) : Sim lam st st { anc := st.anc } :=
  ⟨fun k => by simp [get], h, by simp [keys], by simp [keys], rfl, by simp, by simp⟩

variable {lam : Rat} {st s s1 : St}

theorem Sim.append (h : Sim lam st s s1) (r : Rel) (p : Poly) : Sim lam st (s.append r p) (s1.append r p) :=
  ⟨h.terms, h.nd, h.nd1, h.sq1, h.anc, h.warns, h.tags⟩

theorem Sim.pop (h : Sim lam st s s1) (r : Rel) : Sim lam st (s.pop r) (s1.pop r) :=
  ⟨h.terms, h.nd, h.nd1, h.sq1, h.anc, h.warns, h.tags⟩

theorem Sim.tag (h : Sim lam st s s1) (t : String) : Sim lam st (s.tag t) (s1.tag t) :=
  ⟨h.terms, h.nd, h.nd1, h.sq1, h.anc, h.warns, by
    show s.tags ++ [t] = st.tags ++ (s1.tags ++ [t])
    rw [h.tags, List.append_assoc]⟩

theorem Sim.warn (h : Sim lam st s s1) (sup : Bool) (w : String) : Sim lam st (s.warn sup w) (s1.warn sup w) := by
  unfold St.warn
  cases sup
  · exact ⟨h.terms, h.nd, h.nd1, h.sq1, h.anc, by
      show s.warns ++ [w] = st.warns ++ (s1.warns ++ [w])
      rw [h.warns, List.append_assoc], h.tags⟩
  · exact h

/-- `self += lam • q` against `self += q` -/
theorem Sim.plus (h : Sim lam st s s1) (q : Poly) : Sim lam st (s.plus (smap lam q)) (s1.plus q) :=
  ⟨fun k => by
    show get (iaddB s.terms (smap lam q)) k = get st.terms k + lam * get (iaddB s1.terms q) k
    rw [get_iaddB _ _ _ h.nd, get_iaddB _ _ _ h.nd1, h.terms, csum_smap]; ring,
   nodup_iaddB _ _ h.nd, nodup_iaddB _ _ h.nd1, sqKeys_iaddB _ _ h.sq1, h.anc, h.warns, h.tags⟩

/-- `self -= lam • q` against `self -= q` -/
theorem Sim.minus (h : Sim lam st s s1) (q : Poly) : Sim lam st (s.minus (smap lam q)) (s1.minus q) := by
  have := h.plus (negPoly q)
  rw [← negPoly_smap] at this
  refine ⟨?_, ?_, ?_, ?_, h.anc, h.warns, h.tags⟩
  · intro k
    have e := this.terms k
    simp only [St.plus_terms] at e
    simp only [St.minus_terms, isubB_eq_iaddB]
    exact e
  · have e := this.nd
    simp only [St.plus_terms] at e
    simp only [St.minus_terms, isubB_eq_iaddB]; exact e
  · have e := this.nd1
    simp only [St.plus_terms] at e
    simp only [St.minus_terms, isubB_eq_iaddB]; exact e
  · have e := this.sq1
    simp only [St.plus_terms] at e
    simp only [St.minus_terms, isubB_eq_iaddB]; exact e

theorem Sim.nextAnc (h : Sim lam st s s1) : Sim lam st s.nextAnc.1 s1.nextAnc.1 ∧ s.nextAnc.2 = s1.nextAnc.2 :=
  ⟨⟨h.terms, h.nd, h.nd1, h.sq1, by show s.anc + 1 = s1.anc + 1; rw [h.anc], h.warns, h.tags⟩,
   by show ANC + s.anc = ANC + s1.anc; rw [h.anc]⟩

/-- simulation of optional results (`_special_constraints_*` either both fire or both do not) -/
def OSim (lam : Rat) (st : St) : Option St → Option St → Prop
  | none, none => True
  | some a, some b => Sim lam st a b
  | _, _ => False

end Qv.Sym
