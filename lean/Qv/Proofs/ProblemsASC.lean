import Qv.Proofs.ProblemsNP
/-!
# AlternatingSectorsChain: energy identity and ground states (positive strengths)
-/
namespace Qv.Prob
open Qv

/-- `Σ_{q ∈ qs} J_q z_q z_{q+1}` with `J_q = -strength(q)` as stored -/
def chainSum (p : ASC) (z : Var → Rat) : List Nat → Rat
  | [] => 0
  | q :: r => p.coupling q * (z q * z (q + 1)) + chainSum p z r

/-- `Σ_{q ∈ qs} J_q` -/
def chainConst (p : ASC) : List Nat → Rat
  | [] => 0
  | q :: r => p.coupling q + chainConst p r

theorem squash_pair (q : Nat) : squash .qusom [q, q + 1] = .ok [q, q + 1] := by
  have h : q < q + 1 := Nat.lt_succ_self q
  simp [squash, Kind.isSpin, Kind.isDeg2, squashS, toggleU, h]

theorem pair_ne {q q' : Nat} (h : q' ≠ q) : ([q', q' + 1] : Key) ≠ [q, q + 1] := by
  intro e; injection e with e1 _; exact h e1

theorem asc_chain_get {p : ASC} (qs : List Nat) (L L' : Poly) (k : Key) (hk : ∀ q ∈ qs, k ≠ [q, q + 1])
    (h : ASC.chain p L qs = .ok L') : get L' k = get L k := by
  induction qs generalizing L with
  | nil => simp [ASC.chain] at h; subst h; rfl
  | cons q r ih =>
    simp only [ASC.chain, setItem, squash_pair, bind_ok_iff, pure, Except.pure] at h
    obtain ⟨L1, ⟨k1, hk1, h1⟩, h2⟩ := h
    cases hk1; cases h1
    rw [ih _ (fun q' hq' => hk q' (List.mem_cons_of_mem _ hq')) h2]
    exact get_set_ne L _ (hk q (List.mem_cons_self))

theorem asc_chain_eval {p : ASC} (z : Var → Rat) (qs : List Nat) (hnd : qs.Nodup) (L L' : Poly)
    (hfresh : ∀ q ∈ qs, get L [q, q + 1] = 0) (h : ASC.chain p L qs = .ok L') :
    eval z L' = eval z L + chainSum p z qs := by
  induction qs generalizing L with
  | nil => simp [ASC.chain] at h; subst h; simp [chainSum]
  | cons q r ih =>
    simp only [ASC.chain, setItem, squash_pair, bind_ok_iff, pure, Except.pure] at h
    obtain ⟨L1, ⟨k1, hk1, h1⟩, h2⟩ := h
    cases hk1; cases h1
    have hnd' := List.nodup_cons.mp hnd
    have hf' : ∀ q' ∈ r, get (set L [q, q + 1] (p.coupling q)) [q', q' + 1] = 0 := by
      intro q' hq'
      have hne : q' ≠ q := fun e => hnd'.1 (e ▸ hq')
      rw [get_set_ne L _ (pair_ne hne)]
      exact hfresh q' (List.mem_cons_of_mem _ hq')
    rw [ih hnd'.2 _ hf' h2, eval_set, hfresh q (List.mem_cons_self)]
    simp only [chainSum, mon_cons, mon_nil]; ring

/-- **T10.1 (AlternatingSectorsChain, open chain).** `⟦to_quso()⟧z = Σ_{q<N-1} J_q z_q z_{q+1}`, `J_q = -strength_q` -/
theorem asc_toQuso_eval' (p : ASC) (L : Poly) (z : Var → Rat) (h : p.toQuso false = .ok L) :
    eval z L = chainSum p z (List.range (p.N - 1)) := by
  simp only [ASC.toQuso, bind_ok_iff] at h
  obtain ⟨L0, h0, h1⟩ := h
  simp only [Bool.false_eq_true, if_false, pure, Except.pure] at h1
  have hL : L0 = L := Except.ok.inj h1
  have := asc_chain_eval z (List.range (p.N - 1)) List.nodup_range [] L0 (fun _ _ => rfl) h0
  rw [← hL]; simpa using this

/-- the periodic bond, present when `N ≥ 3` (for `N = 2` it overwrites the only bond, for `N = 1` it is a constant) -/
theorem asc_toQuso_pbc_eval' (p : ASC) (hN : 3 ≤ p.N) (L : Poly) (z : Var → Rat) (h : p.toQuso true = .ok L) :
    eval z L = chainSum p z (List.range (p.N - 1)) + p.coupling (p.N - 1) * (z 0 * z (p.N - 1)) := by
  simp only [ASC.toQuso, bind_ok_iff] at h
  obtain ⟨L0, h0, h1⟩ := h
  have e0 := asc_chain_eval z (List.range (p.N - 1)) List.nodup_range [] L0 (fun _ _ => rfl) h0
  have hpos : ¬ (p.N - 1 < 0) := Nat.not_lt_zero _
  have hne : ¬ (p.N - 1 = 0) := by omega
  have hsq : squash .qusom [p.N - 1, 0] = .ok [0, p.N - 1] := by
    simp [squash, Kind.isSpin, Kind.isDeg2, squashS, toggleU, hne]
  have hfresh : get L0 [0, p.N - 1] = 0 := by
    rw [asc_chain_get (List.range (p.N - 1)) [] L0 [0, p.N - 1] ?_ h0]; rfl
    intro q _ e
    have e1 : (0 : Nat) = q := by injection e
    have e2 : p.N - 1 = q + 1 := by injection e with _ e2; injection e2
    omega
  simp only [if_true, setItem, hsq, bind_ok_iff, pure, Except.pure] at h1
  obtain ⟨k1, hk1, h1⟩ := h1
  cases hk1; cases h1
  rw [eval_set, hfresh, e0]
  simp only [eval_nil, mon_cons, mon_nil]; ring

/-! ### ground states -/

theorem coupling_neg (p : ASC) (h1 : p.negMin < 0) (h2 : p.negMax < 0) (q : Nat) : p.coupling q < 0 := by
  unfold ASC.coupling; split <;> assumption

/-- every bond contributes at least `J_q`, with equality iff the two spins agree -/
theorem chainSum_ge (p : ASC) (hneg : ∀ q, p.coupling q < 0) {z : Var → Rat} (hz : IsSpin z) (qs : List Nat) :
    chainConst p qs ≤ chainSum p z qs ∧
      (chainSum p z qs = chainConst p qs ↔ ∀ q ∈ qs, z q = z (q + 1)) := by
  induction qs with
  | nil => simp [chainSum, chainConst]
  | cons q r ih =>
    obtain ⟨ih1, ih2⟩ := ih
    have hq := hneg q
    simp only [chainSum, chainConst, List.mem_cons, forall_eq_or_imp]
    rcases hz q with a | a <;> rcases hz (q + 1) with b | b <;> rw [a, b]
    · refine ⟨by linarith, ⟨fun h => ⟨rfl, ih2.mp (by linarith)⟩, fun h => by rw [ih2.mpr h.2]; ring⟩⟩
    · refine ⟨by linarith, ⟨fun h => absurd h (by intro h; nlinarith), fun h => absurd h.1 (by norm_num)⟩⟩
    · refine ⟨by linarith, ⟨fun h => absurd h (by intro h; nlinarith), fun h => absurd h.1 (by norm_num)⟩⟩
    · refine ⟨by linarith, ⟨fun h => ⟨rfl, ih2.mp (by linarith)⟩, fun h => by rw [ih2.mpr h.2]; ring⟩⟩

theorem chainSum_ones (p : ASC) (qs : List Nat) : chainSum p (fun _ => 1) qs = chainConst p qs := by
  induction qs with
  | nil => rfl
  | cons q r ih => simp [chainSum, chainConst, ih]

/-- neighbouring spins agree along `0 … n` iff all of them equal spin `0` -/
theorem aligned_iff (z : Var → Rat) (n : Nat) :
    (∀ q ∈ List.range n, z q = z (q + 1)) ↔ ∀ i, i ≤ n → z i = z 0 := by
  constructor
  · intro h i hi
    induction i with
    | zero => rfl
    | succ i ih =>
      have := h i (List.mem_range.mpr (by omega))
      rw [← this]; exact ih (by omega)
  · intro h q hq
    have hq' := List.mem_range.mp hq
    rw [h q (by omega), h (q + 1) (by omega)]

end Qv.Prob
