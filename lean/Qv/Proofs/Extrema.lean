import Qv.Proofs.Basic
import Qv.Model.Extrema
import Qv.Model.Pcbo
/-!
# Helper lemmas for C15 (rational part): the two extrema folds and `_get_bounds`
-/
namespace Qv

/-! ### monomials on boolean / spin assignments (raw keys: repeated labels allowed) -/

theorem mon_bool01 {x : Var → Rat} (hx : IsBool x) (k : Key) : mon x k = 0 ∨ mon x k = 1 := by
  induction k with
  | nil => right; rfl
  | cons i r ih =>
    rcases hx i with h | h <;> rcases ih with h' | h' <;> simp [h, h']

theorem mon_spin11 {z : Var → Rat} (hz : IsSpin z) (k : Key) : mon z k = 1 ∨ mon z k = -1 := by
  induction k with
  | nil => left; rfl
  | cons i r ih =>
    rcases hz i with h | h <;> rcases ih with h' | h' <;> simp [h, h']

theorem absR_nonneg (v : Rat) : 0 ≤ absR v := by
  unfold absR; split <;> linarith

theorem le_absR (v : Rat) : v ≤ absR v := by
  unfold absR; split <;> linarith

theorem neg_absR_le (v : Rat) : -absR v ≤ v := by
  unfold absR; split <;> linarith

/-! ### unfolding equations -/

theorem puboExtrema_cons (k : Key) (v : Rat) (r : Poly) :
    puboExtrema ((k, v) :: r) =
      if k = [] then ((puboExtrema r).1 + v, (puboExtrema r).2 + v)
      else if v < 0 then ((puboExtrema r).1 + v, (puboExtrema r).2)
      else ((puboExtrema r).1, (puboExtrema r).2 + v) := rfl

theorem pusoExtrema_cons (k : Key) (v : Rat) (r : Poly) :
    pusoExtrema ((k, v) :: r) =
      if k = [] then ((pusoExtrema r).1 + v, (pusoExtrema r).2 + v)
      else ((pusoExtrema r).1 - absR v, (pusoExtrema r).2 + absR v) := rfl

/-! ### enclosure -/

theorem puboExtrema_encloses {x : Var → Rat} (hx : IsBool x) (p : Poly) :
    (puboExtrema p).1 ≤ eval x p ∧ eval x p ≤ (puboExtrema p).2 := by
  induction p with
  | nil => simp [puboExtrema]
  | cons kv r ih =>
    obtain ⟨k, v⟩ := kv
    obtain ⟨ih1, ih2⟩ := ih
    rw [puboExtrema_cons, eval_cons]
    split
    · subst_vars; simp only [mon_nil, mul_one]
      constructor <;> linarith
    · split
      · rcases mon_bool01 hx k with h | h <;> rw [h] <;> simp only [mul_zero, mul_one] <;>
          constructor <;> linarith
      · rcases mon_bool01 hx k with h | h <;> rw [h] <;> simp only [mul_zero, mul_one] <;>
          constructor <;> linarith

theorem pusoExtrema_encloses {z : Var → Rat} (hz : IsSpin z) (p : Poly) :
    (pusoExtrema p).1 ≤ eval z p ∧ eval z p ≤ (pusoExtrema p).2 := by
  induction p with
  | nil => simp [pusoExtrema]
  | cons kv r ih =>
    obtain ⟨k, v⟩ := kv
    obtain ⟨ih1, ih2⟩ := ih
    rw [pusoExtrema_cons, eval_cons]
    have h1 := le_absR v
    have h2 := neg_absR_le v
    split
    · subst_vars; simp only [mon_nil, mul_one]
      constructor <;> linarith
    · rcases mon_spin11 hz k with h | h <;> rw [h] <;> simp only [mul_one, mul_neg] <;>
        constructor <;> linarith

/-! ### constant models -/

theorem puboExtrema_const (x : Var → Rat) (p : Poly) (hp : ∀ kv ∈ p, kv.1 = []) :
    puboExtrema p = (eval x p, eval x p) := by
  induction p with
  | nil => rfl
  | cons kv r ih =>
    obtain ⟨k, v⟩ := kv
    have hk : k = [] := hp (k, v) (List.mem_cons_self ..)
    have ih := ih (fun kv h => hp kv (List.mem_cons_of_mem _ h))
    subst hk
    rw [puboExtrema_cons, ih, eval_cons]
    simp only [if_true, mon_nil, mul_one]
    rw [add_comm]

theorem pusoExtrema_const (x : Var → Rat) (p : Poly) (hp : ∀ kv ∈ p, kv.1 = []) :
    pusoExtrema p = (eval x p, eval x p) := by
  induction p with
  | nil => rfl
  | cons kv r ih =>
    obtain ⟨k, v⟩ := kv
    have hk : k = [] := hp (k, v) (List.mem_cons_self ..)
    have ih := ih (fun kv h => hp kv (List.mem_cons_of_mem _ h))
    subst hk
    rw [pusoExtrema_cons, ih, eval_cons]
    simp only [if_true, mon_nil, mul_one]
    rw [add_comm]

/-! ### `_get_bounds` -/

theorem getBounds_encloses {x : Var → Rat} (hx : IsBool x) (p : Poly) (b : Option Rat × Option Rat)
    (hlo : ∀ lo, b.1 = some lo → lo ≤ eval x p) (hhi : ∀ hi, b.2 = some hi → eval x p ≤ hi) :
    (getBounds p b).1 ≤ eval x p ∧ eval x p ≤ (getBounds p b).2 := by
  obtain ⟨h1, h2⟩ := puboExtrema_encloses hx p
  obtain ⟨lo, hi⟩ := b
  cases lo <;> cases hi <;> simp only [getBounds]
  · exact ⟨h1, h2⟩
  · exact ⟨h1, hhi _ rfl⟩
  · exact ⟨hlo _ rfl, h2⟩
  · exact ⟨hlo _ rfl, hhi _ rfl⟩

end Qv
