import Qv.Proofs.HeapSolve
/-!
# Qv.Proofs.HeapCapture — a constraint method does not capture its argument

`add_constraint_<rel>_zero(P)` gives no old cell a new reference to an old cell: whatever the receiver reaches
afterwards it reached before, or is fresh.  (This is what `P = PUBO(P)` is there for; `update` does *not* have this
property — it appends the argument's constraint objects themselves.)
-/
namespace Qv.Hp
open Qv

/-- relative to the first `n` cells of `h`: an old cell of `g` refers only to what it referred to in `h` or to fresh
cells, and fresh cells refer to fresh cells only -/
def Edges (n : Nat) (h g : Heap) : Prop :=
  (∀ (b : Nat) (cell' : Cell), b < n → g[b]? = some cell' →
      ∃ cell, h[b]? = some cell ∧ ∀ q ∈ cell'.refs, q ∈ cell.refs ∨ n ≤ q) ∧
  UpClosed n g

theorem Edges.refl (h : Heap) : Edges h.length h h :=
  ⟨fun b cell' _ hg => ⟨cell', hg, fun q hq => Or.inl hq⟩, fun c cell hc hg => by
    have := get_some_lt hg
    omega⟩

theorem Edges.write {n : Nat} {h g : Heap} {r : Nat} {cell : Cell} (e : Edges n h g)
    (hr : ∀ old, g[r]? = some old → ∀ q ∈ cell.refs, q ∈ old.refs ∨ n ≤ q) : Edges n h (write g r cell) := by
  refine ⟨?_, ?_⟩
  · intro b cell' hb hg
    by_cases he : b = r
    · subst he
      have hlt := get_some_lt hg
      rw [length_write] at hlt
      rw [get_write_eq hlt] at hg
      cases hg
      obtain ⟨old, hold⟩ : ∃ old, g[b]? = some old := ⟨g[b], by simp [hlt]⟩
      obtain ⟨cell0, h0, hsub⟩ := e.1 b old hb hold
      refine ⟨cell0, h0, ?_⟩
      intro q hq
      rcases hr old hold q hq with h1 | h1
      · exact hsub q h1
      · exact Or.inr h1
    · rw [get_write_ne he] at hg
      exact e.1 b cell' hb hg
  · intro c cl hc hg q hq
    by_cases he : c = r
    · subst he
      have hlt := get_some_lt hg
      rw [length_write] at hlt
      rw [get_write_eq hlt] at hg
      cases hg
      obtain ⟨old, hold⟩ : ∃ old, g[c]? = some old := ⟨g[c], by simp [hlt]⟩
      rcases hr old hold q hq with h1 | h1
      · exact e.2 c old hc hold q h1
      · exact h1
    · rw [get_write_ne he] at hg
      exact e.2 c cl hc hg q hq

theorem Edges.writeIf {n : Nat} {h g : Heap} {m : Option Nat} {cell : Cell} (e : Edges n h g)
    (hr : cell.refs = []) : Edges n h (writeIf g m cell) := by
  cases m with
  | none => exact e
  | some r => exact e.write (fun _ _ q hq => by rw [hr] at hq; cases hq)

theorem Edges.alloc {n : Nat} {h g : Heap} {cell : Cell} (e : Edges n h g) (hn : n ≤ g.length)
    (hr : ∀ q ∈ cell.refs, n ≤ q) : Edges n h (g ++ [cell]) := by
  refine ⟨?_, ?_⟩
  · intro b cell' hb hg
    rw [get_append_old (Nat.lt_of_lt_of_le hb hn)] at hg
    exact e.1 b cell' hb hg
  · intro c cl hc hg q hq
    rcases Nat.lt_or_ge c g.length with h1 | h1
    · rw [get_append_old h1] at hg
      exact e.2 c cl hc hg q hq
    · have hlt := get_some_lt hg
      simp at hlt
      have : c = g.length := by omega
      subst this
      rw [get_alloc_new] at hg
      cases hg
      exact hr q hq

theorem Edges.fresh {n : Nat} {h g g' : Heap} (e : Edges n h g) (hn : n ≤ g.length) (f : FreshExt n g g') :
    Edges n h g' := by
  refine ⟨?_, ?_⟩
  · intro b cell' hb hg
    rw [f.old (Nat.lt_of_lt_of_le hb hn)] at hg
    exact e.1 b cell' hb hg
  · intro c cl hc hg q hq
    rcases Nat.lt_or_ge c g.length with h1 | h1
    · rw [f.old h1] at hg
      exact e.2 c cl hc hg q hq
    · exact (f.up c cl h1 hg q hq).1

theorem extendRel_edges {n : Nat} {h g g' : Heap} {c : Nat} {rel : Rel} {ps : List Nat} (e : Edges n h g)
    (hn : n ≤ g.length) (hps : ∀ p ∈ ps, n ≤ p) (he : extendRel g c rel ps = some g') : Edges n h g' := by
  unfold extendRel at he
  split at he
  · rename_i gg hcg
    have hclt := get_some_lt hcg
    split at he
    · rename_i l hl
      split at he
      · rename_i xs hxs
        simp only [Option.some.injEq] at he
        subst he
        apply e.write
        intro old hold q hq
        rw [hxs] at hold
        cases hold
        simp only [Cell.refs, List.mem_append] at hq ⊢
        rcases hq with hq | hq
        · exact Or.inl hq
        · exact Or.inr (hps q hq)
      · cases he
    · simp only [alloc, Option.some.injEq] at he
      subst he
      apply (e.alloc hn (by simpa [Cell.refs] using hps)).write
      intro old hold q hq
      rw [get_append_old hclt, hcg] at hold
      cases hold
      simp only [Cell.refs, List.map_append, List.mem_append, List.map_cons, List.map_nil,
        List.mem_singleton] at hq ⊢
      rcases hq with hq | rfl
      · exact Or.inl hq
      · exact Or.inr hn
  · cases he

theorem applyUpd_edges {n : Nat} {h g g' : Heap} {o : Nat} {u : Upd} (e : Edges n h g)
    (he : applyUpd g o u = some g') : Edges n h g' := by
  unfold applyUpd at he
  split at he
  · rename_i d m rm v c hcell
    simp only [Option.some.injEq] at he
    subst he
    refine Edges.writeIf (Edges.writeIf (Edges.write (Edges.write e ?_) ?_) rfl) rfl
    · intro old hold q hq
      rw [hcell] at hold
      cases hold
      exact Or.inl hq
    · intro _ _ q hq
      simp [Cell.refs] at hq
  · simp only [Option.some.injEq] at he
    subst he
    exact e.write (fun _ _ q hq => by simp [Cell.refs] at hq)
  · cases he

theorem addConstraint_edges (F : Ctor) {h h' : Heap} {recv arg : Nat} {rel : Rel} {pen : Option Upd}
    (he : addConstraint F h recv rel arg pen = some h') : Edges h.length h h' := by
  unfold addConstraint at he
  split at he
  · rename_i d m rm v c hrecv
    cases ht : termsOf h arg with
    | none => simp [ht] at he
    | some kt =>
      obtain ⟨κa, ts⟩ := kt
      simp only [ht] at he
      have hm := mkObj_fresh (n := h.length) (h := h) (consKind d.kind) (F (consKind d.kind) ts) none 0 none
        (Nat.le_refl _) (by simp)
      have e1 : Edges h.length h (mkObj h (consKind d.kind) (F (consKind d.kind) ts) none 0 none).1 :=
        (Edges.refl h).fresh (Nat.le_refl _) hm.1
      cases hx : extendRel (mkObj h (consKind d.kind) (F (consKind d.kind) ts) none 0 none).1 c rel
          [(mkObj h (consKind d.kind) (F (consKind d.kind) ts) none 0 none).2] with
      | none => simp [hx] at he
      | some h2 =>
        simp only [hx] at he
        have e2 : Edges h.length h h2 := extendRel_edges e1 hm.len (by
          intro p hp
          simp only [List.mem_singleton] at hp
          subst hp
          exact hm.2.1) hx
        cases pen with
        | none =>
          simp only [Option.some.injEq] at he
          subst he
          exact e2
        | some u => exact applyUpd_edges e2 he
  · cases he

/-- under `Edges`, whatever an old cell reaches it reached before, or is fresh -/
theorem Edges.reach {h h' : Heap} (e : Edges h.length h h') (hc : Closed h) {x c : Nat} (hx : x < h.length)
    (hr : Reach h' x c) : h.length ≤ c ∨ Reach h x c := by
  induction hr with
  | refl => exact Or.inr (Reach.refl _)
  | step _ hg hm ih =>
    rcases ih with ih | ih
    · exact Or.inl (e.2 _ _ ih hg _ hm)
    · obtain ⟨cell0, h0, hsub⟩ := e.1 _ _ (ih.lt hc hx) hg
      rcases hsub _ hm with h1 | h1
      · exact Or.inr (Reach.step ih h0 h1)
      · exact Or.inl h1

end Qv.Hp
