import Qv.Model.Pcbo
import Qv.Proofs.Basic
import Qv.Proofs.Canon
import Mathlib.Tactic.Ring
import Mathlib.Tactic.Linarith
import Mathlib.Algebra.Order.Ring.Rat
/-!
# C02 base lemmas: evaluation, label support and zero-freeness of the total boolean arithmetic
(`Qv.Model.BoolArith`), soundness of `puboExtrema`, and the field projections of the `St` helpers.
-/
namespace Qv.PcboP

/-! ## evaluation of the `BoolArith` operators on boolean assignments -/

theorem eval_addTermB {x : Var → Rat} (hx : IsBool x) (p : Poly) (k : Key) (v : Rat) :
    eval x (addTermB p k v) = eval x p + v * mon x k := by
  unfold addTermB
  simp only []
  rw [eval_set, mon_squashB hx]; ring

theorem eval_iaddB {x : Var → Rat} (hx : IsBool x) (p q : Poly) :
    eval x (iaddB p q) = eval x p + eval x q := by
  induction q generalizing p with
  | nil => simp [iaddB]
  | cons kv r ih =>
    obtain ⟨k, v⟩ := kv
    have := ih (addTermB p k v)
    simp only [iaddB, List.foldl_cons] at this ⊢
    rw [this, eval_addTermB hx, eval_cons]; ring

theorem eval_isubB {x : Var → Rat} (hx : IsBool x) (p q : Poly) :
    eval x (isubB p q) = eval x p - eval x q := by
  induction q generalizing p with
  | nil => simp [isubB]
  | cons kv r ih =>
    obtain ⟨k, v⟩ := kv
    have := ih (addTermB p k (-v))
    simp only [isubB, List.foldl_cons] at this ⊢
    rw [this, eval_addTermB hx, eval_cons]; ring

theorem eval_scaleB_aux {x : Var → Rat} (hx : IsBool x) (c : Rat) (p acc : Poly) :
    eval x (p.foldl (fun acc kv => addTermB acc kv.1 (c * kv.2)) acc) = eval x acc + c * eval x p := by
  induction p generalizing acc with
  | nil => simp
  | cons kv r ih =>
    obtain ⟨k, v⟩ := kv
    simp only [List.foldl_cons]
    rw [ih, eval_addTermB hx, eval_cons]; ring

theorem eval_scaleB {x : Var → Rat} (hx : IsBool x) (c : Rat) (p : Poly) :
    eval x (scaleB c p) = c * eval x p := by
  unfold scaleB; rw [eval_scaleB_aux hx]; simp

theorem eval_mulRowB {x : Var → Rat} (hx : IsBool x) (k : Key) (v : Rat) (q acc : Poly) :
    eval x (q.foldl (fun acc2 kv2 => addTermB acc2 (k ++ kv2.1) (v * kv2.2)) acc)
      = eval x acc + v * mon x k * eval x q := by
  induction q generalizing acc with
  | nil => simp
  | cons kv r ih =>
    obtain ⟨k2, v2⟩ := kv
    simp only [List.foldl_cons]
    rw [ih, eval_addTermB hx, eval_cons, mon_append]; ring

theorem eval_mulB_aux {x : Var → Rat} (hx : IsBool x) (p q acc : Poly) :
    eval x (p.foldl (fun acc kv => q.foldl (fun acc2 kv2 => addTermB acc2 (kv.1 ++ kv2.1) (kv.2 * kv2.2)) acc) acc)
      = eval x acc + eval x p * eval x q := by
  induction p generalizing acc with
  | nil => simp
  | cons kv r ih =>
    obtain ⟨k, v⟩ := kv
    simp only [List.foldl_cons]
    rw [ih, eval_mulRowB hx, eval_cons]; ring

theorem eval_mulB {x : Var → Rat} (hx : IsBool x) (p q : Poly) :
    eval x (mulB p q) = eval x p * eval x q := by
  unfold mulB; rw [eval_mulB_aux hx]; simp

theorem eval_addConstB {x : Var → Rat} (hx : IsBool x) (p : Poly) (c : Rat) :
    eval x (addConstB p c) = eval x p + c := by
  unfold addConstB; rw [eval_addTermB hx]; simp

theorem eval_monoPoly {x : Var → Rat} (hx : IsBool x) (k : Key) : eval x (monoPoly k) = mon x k := by
  unfold monoPoly; rw [eval_addTermB hx]; simp

theorem eval_constructB {x : Var → Rat} (hx : IsBool x) (d : Poly) : eval x (constructB d) = eval x d := by
  unfold constructB; rw [eval_iaddB hx]; simp

theorem eval_append (x : Var → Rat) (p q : Poly) : eval x (p ++ q) = eval x p + eval x q := by
  induction p with
  | nil => simp
  | cons kv r ih => obtain ⟨k, v⟩ := kv; simp [ih]; ring

theorem mon_bool {x : Var → Rat} (hx : IsBool x) (k : Key) : mon x k = 0 ∨ mon x k = 1 := by
  induction k with
  | nil => right; rfl
  | cons i r ih =>
    rcases hx i with h | h <;> rcases ih with h2 | h2 <;> simp [h, h2]

/-- `P - P.offset` evaluates to `P - offset` -/
theorem eval_Pwo {x : Var → Rat} (hx : IsBool x) (P : Poly) (c : Rat) :
    eval x (isubB P (addConstB [] c)) = eval x P - c := by
  rw [eval_isubB hx, eval_addConstB hx]; simp

/-! ## label support -/

/-- every label occurring in a key of `p` satisfies `V` -/
def LabelsIn (V : Var → Prop) (p : Poly) : Prop := ∀ kv ∈ p, ∀ i ∈ kv.1, V i

/-- every label of `p` is below `n` -/
def Below (n : Nat) (p : Poly) : Prop := LabelsIn (fun i => i < n) p

theorem labelsIn_nil (V : Var → Prop) : LabelsIn V [] := by intro kv h; cases h

theorem LabelsIn.mono {V W : Var → Prop} {p : Poly} (h : LabelsIn V p) (hw : ∀ i, V i → W i) : LabelsIn W p :=
  fun kv hkv i hi => hw i (h kv hkv i hi)

theorem mem_insertU {a i : Var} {l : Key} (h : i ∈ insertU a l) : i = a ∨ i ∈ l := by
  induction l with
  | nil => simp [insertU] at h; exact Or.inl h
  | cons b bs ih =>
    unfold insertU at h
    split at h
    · rcases List.mem_cons.1 h with h | h
      · exact Or.inl h
      · exact Or.inr h
    · split at h
      · exact Or.inr h
      · rcases List.mem_cons.1 h with h | h
        · exact Or.inr (h ▸ List.mem_cons_self)
        · rcases ih h with h | h
          · exact Or.inl h
          · exact Or.inr (List.mem_cons_of_mem _ h)

theorem mem_squashB {i : Var} {k : Key} (h : i ∈ squashB k) : i ∈ k := by
  induction k with
  | nil => simp [squashB] at h
  | cons a r ih =>
    have h' : i ∈ insertU a (squashB r) := h
    rcases mem_insertU h' with h | h
    · exact h ▸ List.mem_cons_self
    · exact List.mem_cons_of_mem _ (ih h)

theorem mem_set {p : Poly} {k : Key} {v : Rat} {kv : Key × Rat} (h : kv ∈ set p k v) :
    (kv = (k, v) ∧ v ≠ 0) ∨ kv ∈ p := by
  unfold set at h
  split at h
  · exact Or.inr (mem_erase_sub p k kv h)
  · rename_i hv
    rcases mem_put p k v kv h with h | h
    · exact Or.inl ⟨h, hv⟩
    · exact Or.inr h

theorem labelsIn_addTermB {V : Var → Prop} {p : Poly} {k : Key} (v : Rat)
    (hp : LabelsIn V p) (hk : ∀ i ∈ k, V i) : LabelsIn V (addTermB p k v) := by
  intro kv hkv i hi
  unfold addTermB at hkv
  rcases mem_set hkv with ⟨h, _⟩ | h
  · subst h; exact hk i (mem_squashB hi)
  · exact hp kv h i hi

theorem labelsIn_foldl {α : Type} {V : Var → Prop} (f : Poly → α → Poly) (l : List α) (acc : Poly)
    (hacc : LabelsIn V acc) (hf : ∀ acc a, a ∈ l → LabelsIn V acc → LabelsIn V (f acc a)) :
    LabelsIn V (l.foldl f acc) := by
  induction l generalizing acc with
  | nil => exact hacc
  | cons a r ih =>
    simp only [List.foldl_cons]
    exact ih _ (hf acc a List.mem_cons_self hacc) (fun acc b hb => hf acc b (List.mem_cons_of_mem _ hb))

theorem labelsIn_iaddB {V : Var → Prop} {p q : Poly} (hp : LabelsIn V p) (hq : LabelsIn V q) :
    LabelsIn V (iaddB p q) :=
  labelsIn_foldl _ q p hp (fun _ kv hkv hacc => labelsIn_addTermB _ hacc (hq kv hkv))

theorem labelsIn_isubB {V : Var → Prop} {p q : Poly} (hp : LabelsIn V p) (hq : LabelsIn V q) :
    LabelsIn V (isubB p q) :=
  labelsIn_foldl _ q p hp (fun _ kv hkv hacc => labelsIn_addTermB _ hacc (hq kv hkv))

theorem labelsIn_scaleB {V : Var → Prop} {p : Poly} (c : Rat) (hp : LabelsIn V p) : LabelsIn V (scaleB c p) :=
  labelsIn_foldl _ p [] (labelsIn_nil V) (fun _ kv hkv hacc => labelsIn_addTermB _ hacc (hp kv hkv))

theorem labelsIn_mulB {V : Var → Prop} {p q : Poly} (hp : LabelsIn V p) (hq : LabelsIn V q) :
    LabelsIn V (mulB p q) :=
  labelsIn_foldl _ p [] (labelsIn_nil V) (fun acc kv hkv hacc =>
    labelsIn_foldl _ q acc hacc (fun _ kv2 hkv2 hacc2 =>
      labelsIn_addTermB _ hacc2 (fun i hi => by
        rcases List.mem_append.1 hi with h | h
        · exact hp kv hkv i h
        · exact hq kv2 hkv2 i h)))

theorem labelsIn_addConstB {V : Var → Prop} {p : Poly} (c : Rat) (hp : LabelsIn V p) : LabelsIn V (addConstB p c) :=
  labelsIn_addTermB _ hp (fun _ h => by cases h)

theorem labelsIn_monoPoly {V : Var → Prop} {k : Key} (hk : ∀ i ∈ k, V i) : LabelsIn V (monoPoly k) :=
  labelsIn_addTermB _ (labelsIn_nil V) hk

theorem labelsIn_append {V : Var → Prop} {p q : Poly} (hp : LabelsIn V p) (hq : LabelsIn V q) :
    LabelsIn V (p ++ q) := by
  intro kv hkv
  rcases List.mem_append.1 hkv with h | h
  · exact hp kv h
  · exact hq kv h

/-- assignments that agree on the labels of `p` give `p` the same value -/
theorem mon_congr {x y : Var → Rat} {k : Key} (h : ∀ i ∈ k, x i = y i) : mon x k = mon y k := by
  induction k with
  | nil => rfl
  | cons a r ih =>
    simp only [mon_cons]
    rw [h a List.mem_cons_self, ih (fun i hi => h i (List.mem_cons_of_mem _ hi))]

theorem eval_congr {V : Var → Prop} {x y : Var → Rat} {p : Poly} (hp : LabelsIn V p)
    (h : ∀ i, V i → x i = y i) : eval x p = eval y p := by
  induction p with
  | nil => rfl
  | cons kv r ih =>
    obtain ⟨k, v⟩ := kv
    simp only [eval_cons]
    rw [mon_congr (fun i hi => h i (hp (k, v) List.mem_cons_self i hi)),
      ih (fun kv hkv => hp kv (List.mem_cons_of_mem _ hkv))]

/-! ## zero-freeness (a PUBO stores no zero coefficient) -/

def NoZero (p : Poly) : Prop := ∀ kv ∈ p, kv.2 ≠ 0

theorem noZero_nil : NoZero [] := by intro kv h; cases h

theorem noZero_addTermB {p : Poly} (k : Key) (v : Rat) (hp : NoZero p) : NoZero (addTermB p k v) := by
  intro kv hkv
  unfold addTermB at hkv
  rcases mem_set hkv with ⟨h, hv⟩ | h
  · subst h; exact hv
  · exact hp kv h

theorem noZero_foldl {α : Type} (f : Poly → α → Poly) (l : List α) (acc : Poly)
    (hacc : NoZero acc) (hf : ∀ acc a, NoZero acc → NoZero (f acc a)) : NoZero (l.foldl f acc) := by
  induction l generalizing acc with
  | nil => exact hacc
  | cons a r ih => simp only [List.foldl_cons]; exact ih _ (hf acc a hacc)

theorem noZero_iaddB {p : Poly} (q : Poly) (hp : NoZero p) : NoZero (iaddB p q) :=
  noZero_foldl _ q p hp (fun _ _ h => noZero_addTermB _ _ h)

theorem noZero_constructB (d : Poly) : NoZero (constructB d) := noZero_iaddB d noZero_nil

theorem noZero_addConstB {p : Poly} (c : Rat) (hp : NoZero p) : NoZero (addConstB p c) := noZero_addTermB _ _ hp

theorem noZero_scaleB (c : Rat) (p : Poly) : NoZero (scaleB c p) :=
  noZero_foldl _ p [] noZero_nil (fun _ _ h => noZero_addTermB _ _ h)

/-! ## `isubB` as an `iaddB` -/

def negPoly (q : Poly) : Poly := q.map (fun kv => (kv.1, -kv.2))

theorem isubB_eq_iaddB (p q : Poly) : isubB p q = iaddB p (negPoly q) := by
  unfold isubB iaddB negPoly
  rw [List.foldl_map]

theorem labelsIn_negPoly {V : Var → Prop} {q : Poly} (hq : LabelsIn V q) : LabelsIn V (negPoly q) := by
  intro kv hkv i hi
  unfold negPoly at hkv
  rcases List.mem_map.1 hkv with ⟨kv', h', rfl⟩
  exact hq kv' h' i hi

theorem iaddB_nil (p : Poly) : iaddB p [] = p := rfl

theorem iaddB_append (p q r : Poly) : iaddB (iaddB p q) r = iaddB p (q ++ r) := by
  unfold iaddB; rw [List.foldl_append]

/-! ## T15.1-style soundness of `puboExtrema` (proved locally) -/

theorem puboExtrema_sound {x : Var → Rat} (hx : IsBool x) (p : Poly) :
    (puboExtrema p).1 ≤ eval x p ∧ eval x p ≤ (puboExtrema p).2 := by
  induction p with
  | nil => simp [puboExtrema]
  | cons kv r ih =>
    obtain ⟨k, v⟩ := kv
    obtain ⟨h1, h2⟩ := ih
    simp only [puboExtrema, eval_cons]
    split
    · rename_i hk; subst hk; simp only [mon_nil]; constructor <;> linarith
    · split
      · rename_i hv
        rcases mon_bool hx k with hm | hm <;> rw [hm] <;> constructor <;> simp <;> linarith
      · rename_i hv
        have hv' : 0 ≤ v := not_lt.1 hv
        rcases mon_bool hx k with hm | hm <;> rw [hm] <;> constructor <;> simp <;> linarith

/-! ## bounds -/

/-- each *given* bound really bounds `P` on boolean assignments -/
def ValidBounds (P : Poly) (b : Option Rat × Option Rat) : Prop :=
  (∀ lo, b.1 = some lo → ∀ x, IsBool x → lo ≤ eval x P) ∧
  (∀ hi, b.2 = some hi → ∀ x, IsBool x → eval x P ≤ hi)

theorem getBounds_sound {P : Poly} {b : Option Rat × Option Rat} (hb : ValidBounds P b)
    {x : Var → Rat} (hx : IsBool x) : (getBounds P b).1 ≤ eval x P ∧ eval x P ≤ (getBounds P b).2 := by
  obtain ⟨h1, h2⟩ := hb
  have he := puboExtrema_sound hx P
  rcases b with ⟨_ | lo, _ | hi⟩ <;> simp only [getBounds]
  · exact he
  · exact ⟨he.1, h2 hi rfl x hx⟩
  · exact ⟨h1 lo rfl x hx, he.2⟩
  · exact ⟨h1 lo rfl x hx, h2 hi rfl x hx⟩

theorem validBounds_some {P : Poly} {lo hi : Rat}
    (h : ∀ x, IsBool x → lo ≤ eval x P ∧ eval x P ≤ hi) : ValidBounds P (some lo, some hi) := by
  constructor
  · intro l hl x hx; simp at hl; subst hl; exact (h x hx).1
  · intro l hl x hx; simp at hl; subst hl; exact (h x hx).2

@[simp] theorem getBounds_some (P : Poly) (lo hi : Rat) : getBounds P (some lo, some hi) = (lo, hi) := rfl

/-- `P` takes integer values on boolean assignments -/
def IntValued (P : Poly) : Prop := ∀ x, IsBool x → ∃ n : Int, eval x P = n

/-! ## field projections of the state helpers -/

@[simp] theorem St.append_terms (s : St) (r : Rel) (p : Poly) : (s.append r p).terms = s.terms := rfl
@[simp] theorem St.append_anc (s : St) (r : Rel) (p : Poly) : (s.append r p).anc = s.anc := rfl
@[simp] theorem St.append_cons (s : St) (r : Rel) (p : Poly) : (s.append r p).cons = s.cons ++ [(r, p)] := rfl
@[simp] theorem St.pop_terms (s : St) (r : Rel) : (s.pop r).terms = s.terms := rfl
@[simp] theorem St.pop_anc (s : St) (r : Rel) : (s.pop r).anc = s.anc := rfl
@[simp] theorem St.pop_cons (s : St) (r : Rel) : (s.pop r).cons = (popLast r s.cons).1 := rfl
@[simp] theorem St.warn_terms (s : St) (b : Bool) (w : String) : (s.warn b w).terms = s.terms := by
  unfold St.warn; split <;> rfl
@[simp] theorem St.warn_anc (s : St) (b : Bool) (w : String) : (s.warn b w).anc = s.anc := by
  unfold St.warn; split <;> rfl
@[simp] theorem St.warn_cons (s : St) (b : Bool) (w : String) : (s.warn b w).cons = s.cons := by
  unfold St.warn; split <;> rfl
@[simp] theorem St.tag_terms (s : St) (t : String) : (s.tag t).terms = s.terms := rfl
@[simp] theorem St.tag_anc (s : St) (t : String) : (s.tag t).anc = s.anc := rfl
@[simp] theorem St.tag_cons (s : St) (t : String) : (s.tag t).cons = s.cons := rfl
@[simp] theorem St.tag_warns (s : St) (t : String) : (s.tag t).warns = s.warns := rfl
@[simp] theorem St.plus_terms (s : St) (p : Poly) : (s.plus p).terms = iaddB s.terms p := rfl
@[simp] theorem St.plus_anc (s : St) (p : Poly) : (s.plus p).anc = s.anc := rfl
@[simp] theorem St.plus_cons (s : St) (p : Poly) : (s.plus p).cons = s.cons := rfl
@[simp] theorem St.plus_warns (s : St) (p : Poly) : (s.plus p).warns = s.warns := rfl
@[simp] theorem St.minus_terms (s : St) (p : Poly) : (s.minus p).terms = isubB s.terms p := rfl
@[simp] theorem St.minus_anc (s : St) (p : Poly) : (s.minus p).anc = s.anc := rfl
@[simp] theorem St.minus_cons (s : St) (p : Poly) : (s.minus p).cons = s.cons := rfl
@[simp] theorem St.minus_warns (s : St) (p : Poly) : (s.minus p).warns = s.warns := rfl
@[simp] theorem St.append_warns (s : St) (r : Rel) (p : Poly) : (s.append r p).warns = s.warns := rfl
@[simp] theorem St.pop_warns (s : St) (r : Rel) : (s.pop r).warns = s.warns := rfl
@[simp] theorem St.nextAnc_terms (s : St) : s.nextAnc.1.terms = s.terms := rfl
@[simp] theorem St.nextAnc_anc (s : St) : s.nextAnc.1.anc = s.anc + 1 := rfl
@[simp] theorem St.nextAnc_cons (s : St) : s.nextAnc.1.cons = s.cons := rfl
@[simp] theorem St.nextAnc_warns (s : St) : s.nextAnc.1.warns = s.warns := rfl
@[simp] theorem St.nextAnc_label (s : St) : s.nextAnc.2 = ANC + s.anc := rfl

/-- `_pop_constraint(r)` right after `_append_constraint(r, p)` (with anything recorded in between
already popped) restores the list -/
theorem popLast_append (r : Rel) (l : List (Rel × Poly)) (p : Poly) : popLast r (l ++ [(r, p)]) = (l, true) := by
  induction l with
  | nil => simp [popLast]
  | cons c t ih => simp [popLast, ih]

end Qv.PcboP
