import Qv.Proofs.Reduce
/-!
# C01: the specification checker — inversion lemmas, value lemmas, the invariant on `red`
-/
namespace Qv.Reduce
open Qv

/-- the ancillas are consistent with the reductions: `s z = s x * s y` for every `((x,y),z)` -/
def ConsOn (s : Var → Rat) (red : Reds) : Prop := ∀ e ∈ red, s e.2 = s e.1.1 * s e.1.2

/-! ### one step -/

theorem specStep_ok {lam : Rat} {st st' : RSt} {key key' : Key} {s : Step}
    (h : specStep lam st key s = .ok (st', key')) :
    s.x ≠ s.y ∧ s.x ∈ key ∧ s.y ∈ key ∧ key' = insertU s.z (remove2 key s.x s.y) ∧
    st'.D = addGadget st.D lam s.x s.y s.z ∧
    ((s.fresh = true ∧ s.z = st.next ∧ st'.next = st.next + 1 ∧
        st'.red = st.red ++ [((s.x, s.y), s.z)]) ∨
     (s.fresh = false ∧ ((s.x, s.y), s.z) ∈ st.red ∧ st'.next = st.next ∧ st'.red = st.red)) := by
  unfold specStep at h
  split at h
  · cases h
  rename_i hxy
  split at h
  · cases h
  rename_i hmem
  have hmem : s.x ∈ key ∧ s.y ∈ key := by simpa using hmem
  simp only [] at h
  split at h
  · rename_i hf
    split at h
    · rename_i hz
      injection h with h; injection h with h1 h2
      subst h1 h2
      exact ⟨hxy, hmem.1, hmem.2, rfl, rfl, Or.inl ⟨hf, hz, rfl, rfl⟩⟩
    · cases h
  · rename_i hf
    split at h
    · rename_i hr
      injection h with h; injection h with h1 h2
      subst h1 h2
      have hr : ((s.x, s.y), s.z) ∈ st.red := by simpa using hr
      exact ⟨hxy, hmem.1, hmem.2, rfl, rfl, Or.inr ⟨by simpa using hf, hr, rfl, rfl⟩⟩
    · cases h

theorem specStep_red_sub {lam : Rat} {st st' : RSt} {key key' : Key} {s : Step}
    (h : specStep lam st key s = .ok (st', key')) : ∀ e ∈ st.red, e ∈ st'.red := by
  obtain ⟨_, _, _, _, _, h6⟩ := specStep_ok h
  intro e he
  rcases h6 with ⟨_, _, _, hr⟩ | ⟨_, _, _, hr⟩ <;> rw [hr]
  · exact List.mem_append_left _ he
  · exact he

theorem specStep_mem {lam : Rat} {st st' : RSt} {key key' : Key} {s : Step}
    (h : specStep lam st key s = .ok (st', key')) : ((s.x, s.y), s.z) ∈ st'.red := by
  obtain ⟨_, _, _, _, _, h6⟩ := specStep_ok h
  rcases h6 with ⟨_, _, _, hr⟩ | ⟨_, hm, _, hr⟩ <;> rw [hr]
  · simp
  · exact hm

/-- one step, exact: if the ancilla of the step is consistent, value + pending term is unchanged -/
theorem specStep_exact {σ : Var → Rat} (hσ : IsBool σ) {lam v : Rat} {st st' : RSt} {key key' : Key}
    {s : Step} (h : specStep lam st key s = .ok (st', key')) (hc : σ s.z = σ s.x * σ s.y) :
    eval σ st'.D + v * mon σ key' = eval σ st.D + v * mon σ key := by
  obtain ⟨_, hx, hy, hk, hD, _⟩ := specStep_ok h
  rw [hD, hk, eval_addGadget hσ, mon_split hσ hx hy, mon_insertU hσ]
  have := step_exact (v := v) (lam := lam) (r := mon σ (remove2 key s.x s.y)) hc (hσ s.x) (hσ s.y)
  linarith

/-- one step, lower bound: with an admissible penalty, value + pending term does not decrease -/
theorem specStep_lower {σ : Var → Rat} (hσ : IsBool σ) {lam v : Rat} {st st' : RSt} {key key' : Key}
    {s : Step} (h : specStep lam st key s = .ok (st', key')) (hl : |v| ≤ lam) :
    eval σ st'.D + v * mon σ key' ≥ eval σ st.D + v * mon σ key := by
  obtain ⟨_, hx, hy, hk, hD, _⟩ := specStep_ok h
  rw [hD, hk, eval_addGadget hσ, mon_split hσ hx hy, mon_insertU hσ]
  have := step_lower (v := v) (lam := lam) (hσ s.x) (hσ s.y) (hσ s.z)
    (mon_bool hσ (remove2 key s.x s.y)) hl
  linarith

/-! ### the steps of one term -/

theorem specSteps_cons {lam : Rat} {st st' : RSt} {key key' : Key} {s : Step} {r : List Step}
    (h : specSteps lam st key (s :: r) = .ok (st', key')) :
    ∃ st1 key1, specStep lam st key s = .ok (st1, key1) ∧ specSteps lam st1 key1 r = .ok (st', key') := by
  unfold specSteps at h
  split at h
  · cases h
  · rename_i p hp
    exact ⟨p.1, p.2, hp, h⟩

theorem specSteps_red_sub {lam : Rat} {steps : List Step} {st st' : RSt} {key key' : Key}
    (h : specSteps lam st key steps = .ok (st', key')) : ∀ e ∈ st.red, e ∈ st'.red := by
  induction steps generalizing st key with
  | nil => simp only [specSteps] at h; injection h with h; injection h with h1 _; subst h1; exact fun e he => he
  | cons s r ih =>
    obtain ⟨st1, key1, h1, h2⟩ := specSteps_cons h
    exact fun e he => ih h2 e (specStep_red_sub h1 e he)

theorem specSteps_exact {σ : Var → Rat} (hσ : IsBool σ) {lam v : Rat} {steps : List Step} {st st' : RSt}
    {key key' : Key} (h : specSteps lam st key steps = .ok (st', key')) (hc : ConsOn σ st'.red) :
    eval σ st'.D + v * mon σ key' = eval σ st.D + v * mon σ key := by
  induction steps generalizing st key with
  | nil => simp only [specSteps] at h; injection h with h; injection h with h1 h2; subst h1 h2; rfl
  | cons s r ih =>
    obtain ⟨st1, key1, h1, h2⟩ := specSteps_cons h
    rw [ih h2]
    exact specStep_exact hσ h1 (hc _ (specSteps_red_sub h2 _ (specStep_mem h1)))

theorem specSteps_lower {σ : Var → Rat} (hσ : IsBool σ) {lam v : Rat} {steps : List Step} {st st' : RSt}
    {key key' : Key} (h : specSteps lam st key steps = .ok (st', key')) (hl : steps ≠ [] → |v| ≤ lam) :
    eval σ st'.D + v * mon σ key' ≥ eval σ st.D + v * mon σ key := by
  induction steps generalizing st key with
  | nil => simp only [specSteps] at h; injection h with h; injection h with h1 h2; subst h1 h2; exact le_refl _
  | cons s r ih =>
    obtain ⟨st1, key1, h1, h2⟩ := specSteps_cons h
    have hl' : |v| ≤ lam := hl (by simp)
    exact le_trans (specStep_lower hσ h1 hl') (ih h2 (fun _ => hl'))

/-! ### one term -/

theorem specTerm_ok {n deg : Nat} {st st' : RSt} {c : TermCert} (h : specTerm n deg st c = .ok st') :
    ∃ st1 key1, (∀ i ∈ c.key, i < n) ∧ (c.steps ≠ [] → 2 ≤ deg) ∧
      specSteps c.lam st c.key c.steps = .ok (st1, key1) ∧ squashB c.final = squashB key1 ∧
      c.final.length ≤ deg ∧ st' = { st1 with D := addTermB st1.D c.final c.v } := by
  unfold specTerm at h
  split at h
  · cases h
  rename_i hlab
  split at h
  · cases h
  rename_i hdeg
  split at h
  · cases h
  rename_i p hp
  split at h
  · cases h
  rename_i hfin
  split at h
  · cases h
  rename_i hlen
  injection h with h
  refine ⟨p.1, p.2, ?_, ?_, hp, ?_, ?_, h.symm⟩
  · simpa using hlab
  · intro hne
    have : c.steps.isEmpty = false := by
      cases hs : c.steps with
      | nil => exact absurd hs hne
      | cons a b => rfl
    simp [this] at hdeg
    exact hdeg
  · simpa using hfin
  · exact Nat.le_of_not_lt hlen

theorem mon_final {σ : Var → Rat} (hσ : IsBool σ) {a b : Key} (h : squashB a = squashB b) :
    mon σ a = mon σ b := by
  rw [← mon_squashB hσ a, h, mon_squashB hσ b]

theorem specTerm_red_sub {n deg : Nat} {st st' : RSt} {c : TermCert} (h : specTerm n deg st c = .ok st') :
    ∀ e ∈ st.red, e ∈ st'.red := by
  obtain ⟨st1, key1, _, _, hs, _, _, rfl⟩ := specTerm_ok h
  exact fun e he => (specSteps_red_sub hs e he : e ∈ st1.red)

theorem specTerm_exact {σ : Var → Rat} (hσ : IsBool σ) {n deg : Nat} {st st' : RSt} {c : TermCert}
    (h : specTerm n deg st c = .ok st') (hc : ConsOn σ st'.red) :
    eval σ st'.D = eval σ st.D + c.v * mon σ c.key := by
  obtain ⟨st1, key1, _, _, hs, hf, _, rfl⟩ := specTerm_ok h
  simp only [] at hc ⊢
  rw [eval_addTermB hσ, mon_final hσ hf]
  exact specSteps_exact hσ hs hc

theorem specTerm_lower {σ : Var → Rat} (hσ : IsBool σ) {n deg : Nat} {st st' : RSt} {c : TermCert}
    (h : specTerm n deg st c = .ok st') (hl : c.steps ≠ [] → |c.v| ≤ c.lam) :
    eval σ st'.D ≥ eval σ st.D + c.v * mon σ c.key := by
  obtain ⟨st1, key1, _, _, hs, hf, _, rfl⟩ := specTerm_ok h
  simp only []
  rw [eval_addTermB hσ, mon_final hσ hf]
  exact specSteps_lower hσ hs hl

/-! ### all terms -/

/-- the polynomial the certificate claims to reduce -/
def certTerms (certs : List TermCert) : Poly := certs.map (fun c => (c.key, c.v))

theorem specTerms_cons {n deg : Nat} {st st' : RSt} {c : TermCert} {r : List TermCert}
    (h : specTerms n deg st (c :: r) = .ok st') :
    ∃ st1, specTerm n deg st c = .ok st1 ∧ specTerms n deg st1 r = .ok st' := by
  unfold specTerms at h
  split at h
  · cases h
  · rename_i st1 h1
    exact ⟨st1, h1, h⟩

theorem specTerms_red_sub {n deg : Nat} {certs : List TermCert} {st st' : RSt}
    (h : specTerms n deg st certs = .ok st') : ∀ e ∈ st.red, e ∈ st'.red := by
  induction certs generalizing st with
  | nil => simp only [specTerms] at h; injection h with h; subst h; exact fun e he => he
  | cons c r ih =>
    obtain ⟨st1, h1, h2⟩ := specTerms_cons h
    exact fun e he => ih h2 e (specTerm_red_sub h1 e he)

theorem specTerms_exact {σ : Var → Rat} (hσ : IsBool σ) {n deg : Nat} {certs : List TermCert} {st st' : RSt}
    (h : specTerms n deg st certs = .ok st') (hc : ConsOn σ st'.red) :
    eval σ st'.D = eval σ st.D + eval σ (certTerms certs) := by
  induction certs generalizing st with
  | nil => simp only [specTerms] at h; injection h with h; subst h; simp [certTerms]
  | cons c r ih =>
    obtain ⟨st1, h1, h2⟩ := specTerms_cons h
    rw [ih h2, specTerm_exact hσ h1 (fun e he => hc e (specTerms_red_sub h2 e he))]
    simp only [certTerms, List.map_cons, eval_cons]; ring

theorem specTerms_lower {σ : Var → Rat} (hσ : IsBool σ) {n deg : Nat} {certs : List TermCert} {st st' : RSt}
    (h : specTerms n deg st certs = .ok st') (hl : ∀ c ∈ certs, c.steps ≠ [] → |c.v| ≤ c.lam) :
    eval σ st'.D ≥ eval σ st.D + eval σ (certTerms certs) := by
  induction certs generalizing st with
  | nil => simp only [specTerms] at h; injection h with h; subst h; simp [certTerms]
  | cons c r ih =>
    obtain ⟨st1, h1, h2⟩ := specTerms_cons h
    have a := ih h2 (fun c' hc' => hl c' (List.mem_cons_of_mem _ hc'))
    have b := specTerm_lower hσ h1 (hl c (List.mem_cons_self))
    simp only [certTerms, List.map_cons, eval_cons] at a ⊢
    linarith

theorem replay_ok {n deg : Nat} {terms : Poly} {certs : List TermCert} {st : RSt}
    (h : replay n deg terms certs = .ok st) :
    certTerms certs = terms ∧ specTerms n deg { next := n, red := [], D := [] } certs = .ok st := by
  unfold replay at h
  split at h
  · cases h
  · rename_i ht
    exact ⟨by simpa [certTerms] using ht, h⟩

end Qv.Reduce
