import Qv.Proofs.DynamicsEnergy
/-!
# C12, part C — sweeps: cache invariant, zero temperature, in-order reference sweep (T12.1–T12.3)

The acceptance test is a parameter (`Src.accept`) constrained by exactly the two facts the C expression
`dE <= 0 || (T > 0 && rand_double(rng) < exp(-dE / T))` guarantees (`Metropolis`).  Both kernels are
instances of one abstract sweep (`StepSpec`): each visit picks a spin (the loop counter when visiting in
order), and flips it or not according to an acceptance bit that is forced by the *exact* energy difference
whenever `dE ≤ 0`, resp. `T = 0 ∧ dE > 0`.
-/
namespace Qv.Kernel
open Qv Qv.Anneal

/-- the two facts `dE <= 0 || (T > 0 && u < exp(-dE/T))` guarantees, whatever `u` is -/
structure Metropolis {ρ : Type} (src : Src ρ Rat) : Prop where
  /-- `dE ≤ 0 → accepted` -/
  down : ∀ (dE T : Rat) (r : ρ), dE ≤ 0 → (src.accept dE T r).2 = true
  /-- `T = 0 → dE > 0 → rejected` -/
  frozen : ∀ (dE T : Rat) (r : ρ), T = 0 → 0 < dE → (src.accept dE T r).2 = false

/-! ## the reference dynamics, defined from exact energy differences only -/

/-- visit spin `i`: flip iff the exact energy change is `≤ 0` -/
def refVisit (E : List Int → Rat) (s : List Int) (i : Nat) : List Int :=
  if E (flipAt s i) - E s ≤ 0 then flipAt s i else s

/-- sweep the spins in label order `0, 1, …, N-1` -/
def refSweep (E : List Int → Rat) (N : Nat) (s : List Int) : List Int := (List.range N).foldl (refVisit E) s

/-- `k` sweeps -/
def refRun (E : List Int → Rat) (N : Nat) : Nat → List Int → List Int
  | 0, s => s
  | k + 1, s => refRun E N k (refSweep E N s)

/-- the reading "flip whenever the exact energy change is negative" -/
def refVisitLt (E : List Int → Rat) (s : List Int) (i : Nat) : List Int :=
  if E (flipAt s i) - E s < 0 then flipAt s i else s

def refSweepLt (E : List Int → Rat) (N : Nat) (s : List Int) : List Int := (List.range N).foldl (refVisitLt E) s

def refRunLt (E : List Int → Rat) (N : Nat) : Nat → List Int → List Int
  | 0, s => s
  | k + 1, s => refRunLt E N k (refSweepLt E N s)

/-- no single-spin flip of a spin state leaves the energy unchanged -/
def TieFree (E : List Int → Rat) (N : Nat) : Prop := ∀ s, GoodState N s → ∀ i, i < N → E (flipAt s i) ≠ E s

theorem refVisit_good {E : List Int → Rat} {N : Nat} {s : List Int} (h : GoodState N s) (i : Nat) :
    GoodState N (refVisit E s i) := by
  unfold refVisit; split
  · exact flipAt_good h i
  · exact h

theorem refVisit_eq_lt {E : List Int → Rat} {N : Nat} (htf : TieFree E N) {s : List Int} (h : GoodState N s)
    {i : Nat} (hi : i < N) : refVisit E s i = refVisitLt E s i := by
  unfold refVisit refVisitLt
  have hne := htf s h i hi
  by_cases hle : E (flipAt s i) - E s ≤ 0
  · have hlt : E (flipAt s i) - E s < 0 := lt_of_le_of_ne hle (fun e => hne (by linarith))
    rw [if_pos hle, if_pos hlt]
  · have hlt : ¬ E (flipAt s i) - E s < 0 := fun h => hle (le_of_lt h)
    rw [if_neg hle, if_neg hlt]

theorem foldl_visit_eq {E : List Int → Rat} {N : Nat} (htf : TieFree E N) : ∀ (l : List Nat) (s : List Int),
    (∀ i ∈ l, i < N) → GoodState N s →
    l.foldl (refVisit E) s = l.foldl (refVisitLt E) s ∧ GoodState N (l.foldl (refVisit E) s)
  | [], _, _, h => ⟨rfl, h⟩
  | i :: l, s, hl, h => by
    simp only [List.foldl_cons]
    rw [← refVisit_eq_lt htf h (hl i List.mem_cons_self)]
    exact foldl_visit_eq htf l _ (fun k hk => hl k (List.mem_cons_of_mem _ hk)) (refVisit_good h i)

theorem refSweep_eq_lt {E : List Int → Rat} {N : Nat} (htf : TieFree E N) (s : List Int) (h : GoodState N s) :
    refSweep E N s = refSweepLt E N s ∧ GoodState N (refSweep E N s) :=
  foldl_visit_eq htf (List.range N) s (fun _ hi => List.mem_range.mp hi) h

/-- on tie-free models the `≤` and the `<` readings of the reference sweep coincide -/
theorem refRun_eq_lt {E : List Int → Rat} {N : Nat} (htf : TieFree E N) : ∀ (k : Nat) (s : List Int),
    GoodState N s → refRun E N k s = refRunLt E N k s
  | 0, _, _ => rfl
  | k + 1, s, h => by
    simp only [refRun, refRunLt]
    rw [← (refSweep_eq_lt htf s h).1]
    exact refRun_eq_lt htf k _ (refSweep_eq_lt htf s h).2

/-! ## one visit, abstractly -/

/-- what one visit of either kernel does to the state, in terms of the exact energy `E` -/
def StepSpec (E : List Int → Rat) (N : Nat) (T : Rat) (inOrder : Bool) (j : Nat) (s s' : List Int) : Prop :=
  ∃ (i : Nat) (a : Bool), (inOrder = true → i = j) ∧
    (i < N → (E (flipAt s i) - E s ≤ 0 → a = true) ∧ (T = 0 → 0 < E (flipAt s i) - E s → a = false)) ∧
    s' = if a then flipAt s i else s

/-- at `T = 0` no visit increases the energy -/
theorem StepSpec.le {E : List Int → Rat} {N : Nat} {inOrder : Bool} {j : Nat} {s s' : List Int}
    (h : StepSpec E N 0 inOrder j s s') (hs : s.length = N) : E s' ≤ E s := by
  obtain ⟨i, a, _, hacc, rfl⟩ := h
  cases a with
  | false => simp
  | true =>
    simp only [if_true]
    by_cases hi : i < N
    · by_contra hgt
      have := (hacc hi).2 rfl (by linarith)
      cases this
    · rw [flipAt_oob s i (by omega)]

/-- at `T = 0`, visiting in order, the visit is the reference visit -/
theorem StepSpec.ref {E : List Int → Rat} {N : Nat} {j : Nat} {s s' : List Int}
    (h : StepSpec E N 0 true j s s') (hj : j < N) : s' = refVisit E s j := by
  obtain ⟨i, a, hij, hacc, rfl⟩ := h
  have := hij rfl
  subst this
  unfold refVisit
  by_cases hle : E (flipAt s i) - E s ≤ 0
  · rw [(hacc hj).1 hle, if_pos hle]; rfl
  · rw [(hacc hj).2 rfl (by linarith), if_neg hle]; rfl

/-! ## sweeps of an abstract kernel state -/

theorem foldl_inv_mem {σ β : Type} (P : σ → Prop) (f : σ → β → σ) :
    ∀ (l : List β) (s : σ), (∀ s b, b ∈ l → P s → P (f s b)) → P s → P (l.foldl f s)
  | [], _, _, h => h
  | b :: l, s, hs, h =>
    foldl_inv_mem P f l (f s b) (fun s' b' hb' => hs s' b' (List.mem_cons_of_mem _ hb'))
      (hs s b List.mem_cons_self h)

section generic
variable {σ : Type} (proj : σ → List Int) (Inv : σ → Prop) (E : List Int → Rat) (N : Nat) (inOrder : Bool)
  (step : Rat → Nat → σ → σ)

/-- the invariant survives any run -/
theorem run_inv (hstep : ∀ T j s, Inv s → Inv (step T j s)) (Ts : List Rat) (s : σ) (h : Inv s) :
    Inv (Ts.foldl (fun s T => forN N s (step T)) s) :=
  foldl_inv Inv _ (fun s T hs => forN_inv Inv N s _ hs (fun j s hs => hstep T j s hs)) Ts s h

/-- **zero temperature: the energy never increases**, whatever the schedule length, order and stream -/
theorem run_le (hlen : ∀ s, Inv s → (proj s).length = N)
    (hstep : ∀ T j s, Inv s → Inv (step T j s) ∧ StepSpec E N T inOrder j (proj s) (proj (step T j s)))
    (Ts : List Rat) (hT : ∀ T ∈ Ts, T = 0) (s : σ) (h : Inv s) :
    E (proj (Ts.foldl (fun s T => forN N s (step T)) s)) ≤ E (proj s) := by
  have := foldl_inv_mem (fun s' => Inv s' ∧ E (proj s') ≤ E (proj s)) (fun s T => forN N s (step T)) Ts s
    (fun s' T hTm hs' => by
      have hT0 := hT T hTm
      subst hT0
      exact forN_inv (fun s' => Inv s' ∧ E (proj s') ≤ E (proj s)) N s' _ hs'
        (fun j s'' hs'' => ⟨(hstep 0 j s'' hs''.1).1,
          le_trans ((hstep 0 j s'' hs''.1).2.le (hlen s'' hs''.1)) hs''.2⟩))
    ⟨h, le_refl _⟩
  exact this.2

/-- one in-order sweep at `T = 0` is the reference sweep -/
theorem sweep_ref (hstep : ∀ T j s, Inv s → Inv (step T j s) ∧ StepSpec E N T true j (proj s) (proj (step T j s)))
    (s : σ) (h : Inv s) :
    Inv (forN N s (step 0)) ∧ proj (forN N s (step 0)) = refSweep E N (proj s) := by
  have := forFrom_inv_idx (fun j s' => Inv s' ∧ proj s' = (List.range j).foldl (refVisit E) (proj s))
    (step 0) N 0 s ⟨h, by simp⟩
    (fun j s' _ hj hs' => by
      refine ⟨(hstep 0 j s' hs'.1).1, ?_⟩
      rw [(hstep 0 j s' hs'.1).2.ref (by omega), List.range_succ, List.foldl_append, hs'.2]
      rfl)
  simpa [refSweep, forN] using this

/-- **in-order visiting at `T = 0`: the final state is the iterated reference sweep** -/
theorem run_ref (hstep : ∀ T j s, Inv s → Inv (step T j s) ∧ StepSpec E N T true j (proj s) (proj (step T j s))) :
    ∀ (Ts : List Rat), (∀ T ∈ Ts, T = 0) → ∀ (s : σ), Inv s →
      proj (Ts.foldl (fun s T => forN N s (step T)) s) = refRun E N Ts.length (proj s)
  | [], _, _, _ => rfl
  | T :: Ts, hT, s, h => by
    have hT0 := hT T List.mem_cons_self
    subst hT0
    simp only [List.foldl_cons, List.length_cons, refRun]
    have hsw := sweep_ref proj Inv E N step hstep s h
    rw [run_ref hstep Ts (fun T hTm => hT T (List.mem_cons_of_mem _ hTm)) _ hsw.1, hsw.2]

end generic

/-! ## the QUSO kernel as an instance -/

section quso
variable {ρ : Type} (src : Src ρ Rat)

/-- what one visit of `single_anneal_quso` does (any arrays, any acceptance test) -/
theorem qusoStep_cases (q : Quso Rat) (index : List Nat) (N : Nat) (inOrder : Bool) (T : Rat) (j : Nat)
    (s : List Int × List Rat × ρ) :
    ∃ (i : Nat) (r0 : ρ), (inOrder = true → i = j) ∧
      (((src.accept (s.2.1.getD i 0) T r0).2 = true ∧
          (qusoStep src q index N inOrder T j s).1 = flipAt s.1 i ∧
          (qusoStep src q index N inOrder T j s).2.1 = recomputeFlipDE q index i s.2.1 s.1) ∨
       ((src.accept (s.2.1.getD i 0) T r0).2 = false ∧
          (qusoStep src q index N inOrder T j s).1 = s.1 ∧
          (qusoStep src q index N inOrder T j s).2.1 = s.2.1)) := by
  obtain ⟨st, flip, r⟩ := s
  cases inOrder with
  | true =>
    refine ⟨j, r, fun _ => rfl, ?_⟩
    simp only [qusoStep, if_true, ofInt_rat, Int.cast_zero]
    by_cases hacc : (src.accept (flip.getD j 0) T r).2 = true
    · left; rw [if_pos hacc]; exact ⟨hacc, rfl, rfl⟩
    · right; rw [if_neg hacc]; exact ⟨by simpa using hacc, rfl, rfl⟩
  | false =>
    refine ⟨(src.index r N).2, (src.index r N).1, (fun h => by cases h), ?_⟩
    simp only [qusoStep, Bool.false_eq_true, if_false, ofInt_rat, Int.cast_zero]
    by_cases hacc : (src.accept (flip.getD (src.index r N).2 0) T (src.index r N).1).2 = true
    · left; rw [if_pos hacc]; exact ⟨hacc, rfl, rfl⟩
    · right; rw [if_neg hacc]; exact ⟨by simpa using hacc, rfl, rfl⟩

variable (h : List Rat) (adj : List (List (Nat × Rat))) (N : Nat)

/-- an accepted flip of any visited index keeps the cache exact -/
theorem flip_cache (hadj : adj.length = N) (hsym : SymAdj adj) (st : List Int) (flip : List Rat)
    (hc : CacheExact h adj N st flip) (i : Nat) :
    CacheExact h adj N (flipAt st i) (recomputeFlipDE (qOf h adj) (idxOf adj) i flip st) := by
  by_cases hi : i < N
  · exact recompute_exact h adj N hadj hsym st flip hc i hi
  · rw [flipAt_oob st i (by rw [hc.1]; omega), recompute_oob h adj N hadj st flip hc.2.1 i (by omega)]
    exact hc

/-- **T12.1, induction step**: every visit (accepted or not, any temperature, either visiting order) keeps
`flip_spin_dE` exact -/
theorem qusoStep_cache (hadj : adj.length = N) (hsym : SymAdj adj) (inOrder : Bool) (T : Rat) (j : Nat)
    (s : List Int × List Rat × ρ) (hc : CacheExact h adj N s.1 s.2.1) :
    CacheExact h adj N (qusoStep src (qOf h adj) (idxOf adj) N inOrder T j s).1
      (qusoStep src (qOf h adj) (idxOf adj) N inOrder T j s).2.1 := by
  obtain ⟨i, r0, _, hcase⟩ := qusoStep_cases src (qOf h adj) (idxOf adj) N inOrder T j s
  rcases hcase with ⟨_, h1, h2⟩ | ⟨_, h1, h2⟩
  · rw [h1, h2]; exact flip_cache h adj N hadj hsym _ _ hc i
  · rw [h1, h2]; exact hc

/-- one visit of the QUSO kernel satisfies the abstract step specification for every energy function whose
single-flip differences are the cached quantity -/
theorem qusoStep_spec (hm : Metropolis src) (E : List Int → Rat)
    (hE : ∀ s i, s.length = N → i < N → dESpec s h adj i = E (flipAt s i) - E s)
    (inOrder : Bool) (T : Rat) (j : Nat) (s : List Int × List Rat × ρ) (hc : CacheExact h adj N s.1 s.2.1) :
    StepSpec E N T inOrder j s.1 (qusoStep src (qOf h adj) (idxOf adj) N inOrder T j s).1 := by
  obtain ⟨i, r0, hij, hcase⟩ := qusoStep_cases src (qOf h adj) (idxOf adj) N inOrder T j s
  refine ⟨i, (src.accept (s.2.1.getD i 0) T r0).2, hij, ?_, ?_⟩
  · intro hi
    rw [← hE s.1 i hc.1 hi, ← hc.2.2 i hi]
    exact ⟨fun hle => hm.down _ _ _ hle, fun hT hgt => hm.frozen _ _ _ hT hgt⟩
  · rcases hcase with ⟨ha, h1, _⟩ | ⟨ha, h1, _⟩
    · rw [h1, ha]; rfl
    · rw [h1, ha]; rfl

end quso

end Qv.Kernel
