import Qv.Proofs.SatTotal
/-!
# Soundness of the gate builders of `Qv.Model.Sat`

Part A: every gate applied to evaluated operands whose values are the 0/1 encodings of truth values
returns a value that is the 0/1 encoding of the gate's truth function (any arity ≥ 1), and the whole
tree evaluator `build` computes `truth`.
-/
namespace Qv

/-- 0/1 encoding of a truth value -/
def b2r (b : Bool) : Rat := if b then 1 else 0

theorem b2r_and (a b : Bool) : b2r a * b2r b = b2r (a && b) := by
  cases a <;> cases b <;> simp [b2r]

theorem b2r_or (a b : Bool) : b2r a + b2r b * (1 - b2r a) = b2r (a || b) := by
  cases a <;> cases b <;> simp [b2r]

theorem b2r_xor (a b : Bool) : (b2r a - b2r b) ^ 2 = b2r (a ^^ b) := by
  cases a <;> cases b <;> simp [b2r]

theorem b2r_not (a : Bool) : 1 - b2r a = b2r (!a) := by
  cases a <;> simp [b2r]

theorem b2r_01 (a : Bool) : b2r a = 0 ∨ b2r a = 1 := by
  cases a <;> simp [b2r]

theorem b2r_decide {r : Rat} (h : r = 0 ∨ r = 1) : b2r (decide (r ≠ 0)) = r := by
  rcases h with h | h <;> simp [h, b2r]

/-- a term list that is {0,1}-valued at every boolean assignment -/
def B01 (p : Poly) : Prop := ∀ x, IsBool x → eval x p = 0 ∨ eval x p = 1

/-- the truth function of a gate on the truth values of its operands (the `match` inside `truth`) -/
def gateTruth (g : Gate) (ts : List Bool) : Bool :=
  match g with
  | .buffer => ts.all id
  | .not => !(ts.all id)
  | .and => ts.all id
  | .nand => !(ts.all id)
  | .or => ts.any id
  | .nor => !(ts.any id)
  | .xor => (ts.filter id).length % 2 == 1
  | .xnor => (ts.filter id).length % 2 == 0

theorem truth_gate (x : Var → Rat) (g : Gate) (args : List SExpr) :
    truth x (.gate g args) = gateTruth g (truths x args) := by
  cases g <;> simp [truth, gateTruth]

/-- odd parity of a list of truth values -/
def oddB (ts : List Bool) : Bool := (ts.filter id).length % 2 == 1

theorem oddB_nil : oddB [] = false := by simp [oddB]

theorem succ_odd (n : Nat) : ((n + 1) % 2 == 1) = !(n % 2 == 1) := by
  rcases Nat.mod_two_eq_zero_or_one n with h | h <;> simp [Nat.add_mod, h]

theorem oddB_cons (t : Bool) (r : List Bool) : oddB (t :: r) = (t ^^ oddB r) := by
  cases t
  · simp [oddB]
  · simp [oddB, succ_odd]

theorem even_eq_not_odd (n : Nat) : (n % 2 == 0) = !(n % 2 == 1) := by
  rcases Nat.mod_two_eq_zero_or_one n with h | h <;> simp [h]

/-! ### Operands -/

/-- value of an evaluated operand at an assignment -/
def SVal.evalS (x : Var → Rat) : SVal → Rat
  | .lbl i => x i
  | .val v => v.eval x

/-- a legitimate evaluated operand: a label, a plain dict, or a canonical boolean model -/
def SVal.Good : SVal → Prop
  | .lbl _ => True
  | .val (.num _) => False
  | .val (.raw _) => True
  | .val (.mdl κ p) => (Val.mdl κ p).Good false

theorem SVal.Good.ak {v : SVal} (h : v.Good) : SVal.AK (fun _ => True) v := by
  match v, h with
  | .lbl _, _ => exact trivial
  | .val (.raw _), _ => exact trivial
  | .val (.mdl _ _), _ => exact trivial

theorem SVal.good_val {m : Val} (hm : m.MK (fun _ => True)) (hg : m.Good false) : SVal.Good (.val m) := by
  cases m with
  | num c => exact absurd hm id
  | raw q => exact absurd hm id
  | mdl κ p => exact hg

/-- operand list `vs` encodes the truth values `ts` at `x` -/
def OpsOk (x : Var → Rat) (vs : List SVal) (ts : List Bool) : Prop :=
  List.Forall₂ (fun v t => SVal.Good v ∧ v.evalS x = b2r t) vs ts

theorem fam_of_bool {x : Var → Rat} (hx : IsBool x) : Fam false x := by simpa [Fam] using hx

section
variable {x : Var → Rat} (hx : IsBool x)
include hx

theorem bufferV_sound {sv : SVal} {v : Val} (hg : sv.Good) (h : bufferV sv = .ok v) :
    v.eval x = sv.evalS x ∧ v.Good false := by
  have hf := fam_of_bool hx
  cases sv with
  | lbl i =>
    simp only [bufferV, bind_ok_iff, pure, Except.pure] at h
    obtain ⟨r, hr, h⟩ := h
    injection h with h; subst h
    have hs : SqOK (squash .pubo) x := sqOK_bool rfl hx
    refine ⟨?_, by decide, rfl, wf_construct (squash_idem _) hr⟩
    simp only [Val.eval, SVal.evalS]
    rw [eval_construct hs hr]
    simp [eval, mon]
  | val w =>
    cases w with
    | num c => simp [bufferV] at h
    | raw p =>
      simp only [bufferV] at h
      exact Val.cast_sound hf ⟨by decide, rfl⟩ h
    | mdl κ p =>
      simp only [bufferV] at h
      exact Val.pos_sound hf (show (Val.mdl κ p).Good false from hg) h

theorem notV_sound {sv : SVal} {v : Val} (hg : sv.Good) (h : notV sv = .ok v) :
    v.eval x = 1 - sv.evalS x ∧ v.Good false := by
  have hf := fam_of_bool hx
  simp only [notV, bind_ok_iff] at h
  obtain ⟨b, hb, h⟩ := h
  have h1 := bufferV_sound hx hg hb
  have h2 := Val.sub_sound hf (a := .num 1) trivial h1.2 h
  exact ⟨by rw [h2.1, h1.1]; rfl, h2.2⟩

theorem satOne_sound {v : Val} (h : satOne = .ok v) : v.eval x = 1 ∧ v.Good false := by
  have hf := fam_of_bool hx
  have hg : (Val.mdl .pubo []).Good false := ⟨by decide, rfl, wf_nil _⟩
  have h2 := Val.add_sound hf hg (b := .num 1) trivial h
  exact ⟨by rw [h2.1]; simp [Val.eval, eval], h2.2⟩

/-- `P *= BUFFER(v)` for every `v`: the accumulated product -/
theorem andLoop_sound {vs : List SVal} {ts : List Bool} (ho : OpsOk x vs ts) :
    ∀ {acc r : Val} {a : Bool}, acc.Good false → acc.eval x = b2r a → andLoop acc vs = .ok r →
      r.eval x = b2r (a && ts.all id) ∧ r.Good false := by
  have hf := fam_of_bool hx
  induction ho with
  | nil =>
    intro acc r a hg ha h
    simp only [andLoop] at h
    injection h with h; subst h
    exact ⟨by simpa using ha, hg⟩
  | @cons v t vs ts hv _ ih =>
    intro acc r a hg ha h
    simp only [andLoop, bind_ok_iff] at h
    obtain ⟨b, hb, m, hm, h⟩ := h
    have h1 := bufferV_sound hx hv.1 hb
    have h2 := Val.mul_sound hf hg h1.2 hm
    have h3 := ih h2.2 (a := a && t) (by rw [h2.1, ha, h1.1, hv.2, b2r_and]) h
    exact ⟨by rw [h3.1]; simp [Bool.and_assoc], h3.2⟩

theorem andV_sound {vs : List SVal} {ts : List Bool} (ho : OpsOk x vs ts) {r : Val}
    (h : andV vs = .ok r) : r.eval x = b2r (ts.all id) ∧ r.Good false := by
  cases ho with
  | nil =>
    simp only [andV] at h
    have := satOne_sound hx h
    exact ⟨by rw [this.1]; simp [b2r], this.2⟩
  | @cons v t vs ts hv ho =>
    simp only [andV] at h
    have := andLoop_sound hx (List.Forall₂.cons hv ho) (acc := .num 1) (a := true) trivial
      (by simp [Val.eval, b2r]) h
    simpa using this

theorem orStep_sound {acc r : Val} {a t : Bool} {v : SVal} (hg : acc.Good false)
    (ha : acc.eval x = b2r a) (hv : v.Good ∧ v.evalS x = b2r t) (h : orStep acc v = .ok r) :
    r.eval x = b2r (a || t) ∧ r.Good false := by
  have hf := fam_of_bool hx
  simp only [orStep, bind_ok_iff] at h
  obtain ⟨b, hb, d, hd, m, hm, h⟩ := h
  have h1 := bufferV_sound hx hv.1 hb
  have h2 := Val.sub_sound hf (a := .num 1) trivial hg hd
  have h3 := Val.mul_sound hf h1.2 h2.2 hm
  have h4 := Val.add_sound hf hg h3.2 h
  refine ⟨?_, h4.2⟩
  rw [h4.1, h3.1, h2.1, h1.1, hv.2, ha]
  exact b2r_or a t

theorem xorStep_sound {acc r : Val} {a t : Bool} {v : SVal} (hg : acc.Good false)
    (ha : acc.eval x = b2r a) (hv : v.Good ∧ v.evalS x = b2r t) (h : xorStep acc v = .ok r) :
    r.eval x = b2r (a ^^ t) ∧ r.Good false := by
  have hf := fam_of_bool hx
  simp only [xorStep, bind_ok_iff] at h
  obtain ⟨b, hb, d, hd, h⟩ := h
  have h1 := bufferV_sound hx hv.1 hb
  have h2 := Val.sub_sound hf hg h1.2 hd
  have h3 := Val.pow_sound hf h2.2 h
  refine ⟨?_, h3.2.2⟩
  rw [h3.2.1, h2.1, h1.1, hv.2, ha]
  exact b2r_xor a t

omit hx in
/-- the left fold of `OR` / `XOR` over the remaining operands -/
theorem foldSteps_sound {step : Val → SVal → Except Err Val} {op : Bool → Bool → Bool}
    (hstep : ∀ {acc r : Val} {a t : Bool} {v : SVal}, acc.Good false → acc.eval x = b2r a →
      (v.Good ∧ v.evalS x = b2r t) → step acc v = .ok r → r.eval x = b2r (op a t) ∧ r.Good false)
    {vs : List SVal} {ts : List Bool} (ho : OpsOk x vs ts) :
    ∀ {acc r : Val} {a : Bool}, acc.Good false → acc.eval x = b2r a → foldSteps step acc vs = .ok r →
      r.eval x = b2r (ts.foldl op a) ∧ r.Good false := by
  induction ho with
  | nil =>
    intro acc r a hg ha h
    simp only [foldSteps] at h
    injection h with h; subst h
    exact ⟨by simpa using ha, hg⟩
  | @cons v t vs ts hv _ ih =>
    intro acc r a hg ha h
    simp only [foldSteps, bind_ok_iff] at h
    obtain ⟨m, hm, h⟩ := h
    have h1 := hstep hg ha hv hm
    exact ih h1.2 h1.1 h

omit hx in
theorem foldl_or (ts : List Bool) : ∀ a, ts.foldl (· || ·) a = (a || ts.any id) := by
  induction ts with
  | nil => intro a; simp
  | cons t r ih => intro a; simp [ih, Bool.or_assoc]

omit hx in
theorem foldl_xor (ts : List Bool) : ∀ a, ts.foldl (· ^^ ·) a = (a ^^ oddB ts) := by
  induction ts with
  | nil => intro a; simp [oddB_nil]
  | cons t r ih => intro a; simp [ih, oddB_cons]

theorem orV_sound {vs : List SVal} {ts : List Bool} (ho : OpsOk x vs ts) (hne : vs ≠ []) {r : Val}
    (h : orV vs = .ok r) : r.eval x = b2r (ts.any id) ∧ r.Good false := by
  cases ho with
  | nil => exact absurd rfl hne
  | @cons v t vs ts hv ho =>
    simp only [orV, bind_ok_iff] at h
    obtain ⟨b, hb, h⟩ := h
    have h1 := bufferV_sound hx hv.1 hb
    have := foldSteps_sound (x := x) (op := (· || ·)) (orStep_sound hx) ho h1.2 (by rw [h1.1, hv.2]) h
    rw [foldl_or] at this
    simpa using this

theorem xorV_sound {vs : List SVal} {ts : List Bool} (ho : OpsOk x vs ts) (hne : vs ≠ []) {r : Val}
    (h : xorV vs = .ok r) : r.eval x = b2r (oddB ts) ∧ r.Good false := by
  cases ho with
  | nil => exact absurd rfl hne
  | @cons v t vs ts hv ho =>
    simp only [xorV, bind_ok_iff] at h
    obtain ⟨b, hb, h⟩ := h
    have h1 := bufferV_sound hx hv.1 hb
    have := foldSteps_sound (x := x) (op := (· ^^ ·)) (xorStep_sound hx) ho h1.2 (by rw [h1.1, hv.2]) h
    rw [foldl_xor] at this
    rw [oddB_cons]
    exact this

omit hx in
theorem OpsOk.ak {vs : List SVal} {ts : List Bool} (ho : OpsOk x vs ts) :
    ∀ v ∈ vs, SVal.AK (fun _ => True) v := by
  induction ho with
  | nil => intro v hv; cases hv
  | cons hv _ ih =>
    intro w hw
    rcases List.mem_cons.mp hw with rfl | hw
    · exact hv.1.ak
    · exact ih w hw

/-- value part of `applyGate_sound` -/
theorem applyGate_value {g : Gate} {vs : List SVal} {ts : List Bool} (ho : OpsOk x vs ts)
    (hne : vs ≠ []) {r : Val} (h : applyGate g vs = .ok r) :
    r.eval x = b2r (gateTruth g ts) ∧ r.Good false := by
  have hT : ∀ κ, (fun _ : Kind => True) κ → ∀ k, Res (fun _ => True) (T (α := Key)) (squash κ k) :=
    fun κ _ k => squash_res_any κ k
  cases g with
  | buffer =>
    cases ho with
    | nil => exact absurd rfl hne
    | @cons v t vs ts hv ho =>
      cases ho with
      | nil =>
        simp only [applyGate] at h
        have := bufferV_sound hx hv.1 h
        exact ⟨by rw [this.1, hv.2]; simp [gateTruth], this.2⟩
      | cons _ _ => simp [applyGate] at h
  | not =>
    cases ho with
    | nil => exact absurd rfl hne
    | @cons v t vs ts hv ho =>
      cases ho with
      | nil =>
        simp only [applyGate] at h
        have := notV_sound hx hv.1 h
        exact ⟨by rw [this.1, hv.2, b2r_not]; simp [gateTruth], this.2⟩
      | cons _ _ => simp [applyGate] at h
  | and =>
    simp only [applyGate] at h
    exact andV_sound hx ho h
  | nand =>
    simp only [applyGate, bind_ok_iff] at h
    obtain ⟨m, hm, h⟩ := h
    have h1 := andV_sound hx ho hm
    have hk := (andV_res (E := fun _ => True) hT trivial vs ho.ak).ok_of hm
    have h2 := notV_sound hx (sv := .val m) (SVal.good_val hk h1.2) h
    exact ⟨by rw [h2.1]; simp only [SVal.evalS]; rw [h1.1, b2r_not]; rfl, h2.2⟩
  | or =>
    simp only [applyGate] at h
    exact orV_sound hx ho hne h
  | nor =>
    simp only [applyGate, bind_ok_iff] at h
    obtain ⟨m, hm, h⟩ := h
    have h1 := orV_sound hx ho hne hm
    have hk := (orV_res (E := fun _ => True) hT trivial vs ho.ak).ok_of hm
    have h2 := notV_sound hx (sv := .val m) (SVal.good_val hk h1.2) h
    exact ⟨by rw [h2.1]; simp only [SVal.evalS]; rw [h1.1, b2r_not]; rfl, h2.2⟩
  | xor =>
    simp only [applyGate] at h
    exact xorV_sound hx ho hne h
  | xnor =>
    simp only [applyGate, bind_ok_iff] at h
    obtain ⟨m, hm, h⟩ := h
    have h1 := xorV_sound hx ho hne hm
    have hk := (xorV_res (E := fun _ => True) hT trivial vs ho.ak).ok_of hm
    have h2 := notV_sound hx (sv := .val m) (SVal.good_val hk h1.2) h
    refine ⟨?_, h2.2⟩
    rw [h2.1]; simp only [SVal.evalS]; rw [h1.1, b2r_not]
    simp only [gateTruth, oddB, even_eq_not_odd]

/-- **every gate, any arity ≥ 1**: applied to operands encoding the truth values `ts`, the gate returns
the encoding of its truth function of `ts`, again a legitimate operand (a canonical boolean model) -/
theorem applyGate_sound {g : Gate} {vs : List SVal} {ts : List Bool} (ho : OpsOk x vs ts)
    (hne : vs ≠ []) {r : Val} (h : applyGate g vs = .ok r) :
    r.eval x = b2r (gateTruth g ts) ∧ SVal.Good (.val r) := by
  have hv := applyGate_value hx ho hne h
  exact ⟨hv.1, SVal.good_val (applyGate_isModel ho.ak h) hv.2⟩

end

/-! ### Whole trees -/

mutual
/-- the scope of the property: every gate has at least one operand, every dict / model leaf is
{0,1}-valued on boolean assignments, every model leaf is of one of the five boolean model types -/
def SExpr.Ok : SExpr → Prop
  | .lbl _ => True
  | .raw p => B01 p
  | .mdl κ p => κ ≠ .dict ∧ κ.isSpin = false ∧ B01 p
  | .gate _ args => args ≠ [] ∧ SExpr.OkList args
def SExpr.OkList : List SExpr → Prop
  | [] => True
  | a :: r => SExpr.Ok a ∧ SExpr.OkList r
end

mutual
theorem buildArg_sound {x : Var → Rat} (hx : IsBool x) : ∀ (e : SExpr) (sv : SVal), e.Ok →
    buildArg e = .ok sv → sv.Good ∧ sv.evalS x = b2r (truth x e)
  | .lbl i, sv, _, h => by
    simp only [buildArg] at h
    injection h with h; subst h
    exact ⟨trivial, by simp only [SVal.evalS, truth]; exact (b2r_decide (hx i)).symm⟩
  | .raw p, sv, he, h => by
    simp only [buildArg] at h
    injection h with h; subst h
    simp only [SExpr.Ok] at he
    exact ⟨trivial, by simp only [SVal.evalS, Val.eval, truth]; exact (b2r_decide (he x hx)).symm⟩
  | .mdl κ p, sv, he, h => by
    simp only [buildArg, bind_ok_iff, pure, Except.pure] at h
    obtain ⟨r, hr, h⟩ := h
    injection h with h; subst h
    simp only [SExpr.Ok] at he
    have hs : SqOK (squash κ) x := sqOK_bool he.2.1 hx
    refine ⟨⟨he.1, he.2.1, wf_construct (squash_idem κ) hr⟩, ?_⟩
    simp only [SVal.evalS, Val.eval, truth]
    rw [eval_construct hs hr]
    exact (b2r_decide (he.2.2 x hx)).symm
  | .gate g args, sv, he, h => by
    simp only [buildArg, bind_ok_iff, pure, Except.pure] at h
    obtain ⟨svs, hsvs, v, hv, h⟩ := h
    injection h with h; subst h
    simp only [SExpr.Ok] at he
    have ho := buildArgs_sound hx args svs he.2 hsvs
    have hne : svs ≠ [] := by
      intro h0; subst h0
      cases args with
      | nil => exact he.1 rfl
      | cons a r => simp [buildArgs, bind_ok_iff, pure, Except.pure] at hsvs
    have := applyGate_sound hx ho hne hv
    exact ⟨this.2, by simp only [SVal.evalS]; rw [this.1, truth_gate]⟩
theorem buildArgs_sound {x : Var → Rat} (hx : IsBool x) : ∀ (es : List SExpr) (svs : List SVal),
    SExpr.OkList es → buildArgs es = .ok svs → OpsOk x svs (truths x es)
  | [], svs, _, h => by
    simp only [buildArgs] at h
    injection h with h; subst h
    exact List.Forall₂.nil
  | a :: r, svs, he, h => by
    simp only [buildArgs, bind_ok_iff, pure, Except.pure] at h
    obtain ⟨sv, hsv, svr, hsvr, h⟩ := h
    injection h with h; subst h
    simp only [SExpr.OkList] at he
    simp only [truths]
    exact List.Forall₂.cons (buildArg_sound hx a sv he.1 hsv) (buildArgs_sound hx r svr he.2 hsvr)
end

/-! ### Example data used by the non-vacuity examples of `Qv/Props/C07.lean` -/

/-- `XOR(x0, NOT(x1), QUBO({(0,1): 1}), OR({(2,): 1}, x0), PCBO({(): 1, (1,2,1): -1}))` — depth 2, five
operands of four different kinds, one raw key with a repeated label -/
def exTree : SExpr :=
  .gate .xor [.lbl 0, .gate .not [.lbl 1], .mdl .qubo [([0, 1], 1)],
    .gate .or [.raw [([2], 1)], .lbl 0], .mdl .pcbo [([], 1), ([1, 2, 1], -1)]]

/-- the assignment x0 = 1, x1 = 0, x2 = 1 -/
def exAssign : Var → Rat := fun i => if i = 0 then 1 else if i = 2 then 1 else 0

/-- `NOR(x0, BUFFER(x1), PUBOMatrix({(0,1): 1}), AND(), {(3,2,3): 2})` — no degree-2 type -/
def exTreePubo : SExpr :=
  .gate .nor [.lbl 0, .gate .buffer [.lbl 1], .mdl .pubom [([0, 1], 1)], .gate .and [], .raw [([3, 2, 3], 2)]]

/-- the exception of a failed evaluation -/
def errOf {α : Type} : Except Err α → Option Err
  | .error e => some e
  | .ok _ => none

end Qv
