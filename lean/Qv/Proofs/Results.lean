import Qv.Model.Results
import Mathlib.Algebra.Order.Ring.Rat
import Mathlib.Tactic.Linarith
/-!
# Lemmas for C13: the `best` invariant of `AnnealResults`

`Inv s`: `best` is `None` exactly on the empty collection, otherwise an element of least value.
One preservation lemma per operation of `Qv.Res`, then the step lemma for a table `Impl` whose D3
entries are known to preserve the invariant.
-/
namespace Qv

/-! ## the extended rationals are linearly ordered

`EVal.le` / `EVal.lt` (`Qv/Model/EVal.lean`) are the comparisons of Python numbers without NaN; here they
are shown to be a linear order, so that every order lemma used below (`le_refl`, `le_trans`, `le_of_lt`,
`not_lt`, `le_total`) is available for values `-inf`, finite, `+inf` alike. -/

namespace EVal

theorem le_def (a b : EVal) : a ≤ b ↔ le a b = true := Iff.rfl
theorem lt_def (a b : EVal) : a < b ↔ lt a b = true := Iff.rfl

@[simp] theorem fin_le_fin (a b : Rat) : (fin a ≤ fin b) ↔ a ≤ b := by simp [le_def, le]
@[simp] theorem fin_lt_fin (a b : Rat) : (fin a < fin b) ↔ a < b := by simp [lt_def, lt]
@[simp] theorem ninf_le (a : EVal) : ninf ≤ a := by cases a <;> simp [le_def, le]
@[simp] theorem le_pinf (a : EVal) : a ≤ pinf := by cases a <;> simp [le_def, le]
@[simp] theorem fin_lt_pinf (a : Rat) : fin a < pinf := by simp [lt_def, lt]
@[simp] theorem ninf_lt_fin (a : Rat) : ninf < fin a := by simp [lt_def, lt]
@[simp] theorem ninf_lt_pinf : ninf < pinf := by simp [lt_def, lt]
@[simp] theorem not_pinf_lt (a : EVal) : ¬ pinf < a := by cases a <;> simp [lt_def, lt]
@[simp] theorem not_lt_ninf (a : EVal) : ¬ a < ninf := by cases a <;> simp [lt_def, lt]

instance : LinearOrder EVal where
  le_refl a := by cases a <;> simp [le_def, le]
  le_trans a b c := by
    cases a <;> cases b <;> cases c <;> simp [le_def, le]
    exact fun h1 h2 => _root_.le_trans h1 h2
  lt_iff_le_not_ge a b := by
    cases a <;> cases b <;> simp [le_def, lt_def, le, lt]
    exact fun h => le_of_lt h
  le_antisymm a b := by
    cases a <;> cases b <;> simp [le_def, le]
    exact fun h1 h2 => _root_.le_antisymm h1 h2
  le_total a b := by
    cases a <;> cases b <;> simp [le_def, le]
    exact _root_.le_total _ _
  toDecidableLE := fun a b => inferInstanceAs (Decidable (le a b = true))
  toDecidableLT := fun a b => inferInstanceAs (Decidable (lt a b = true))
  toDecidableEq := inferInstance

/-- nothing is below `-inf`, nothing above `+inf`: the two infinite values are the bounds of the line -/
theorem ninf_le_all_le_pinf (a : EVal) : ninf ≤ a ∧ a ≤ pinf := ⟨ninf_le a, le_pinf a⟩

end EVal
end Qv

namespace Qv.Res
open Qv

/-- the invariant of C13 -/
def Inv (s : Coll) : Prop :=
  (s.best = none ↔ s.items = []) ∧
  ∀ b, s.best = some b → b ∈ s.items ∧ ∀ r ∈ s.items, b.value ≤ r.value

/-- executable form of `Inv` (for `decide` on concrete histories) -/
def invB (s : Coll) : Bool :=
  match s.best with
  | none => s.items.isEmpty
  | some b => !s.items.isEmpty && decide (b ∈ s.items) && s.items.all (fun r => decide (b.value ≤ r.value))

theorem invB_iff (s : Coll) : invB s = true ↔ Inv s := by
  obtain ⟨l, b⟩ := s
  cases b with
  | none => simp [invB, Inv]
  | some b =>
    simp only [invB, Inv, Bool.and_eq_true, Bool.not_eq_true', decide_eq_true_eq,
      List.all_eq_true, Option.some.injEq, reduceCtorEq, false_iff]
    constructor
    · rintro ⟨⟨h1, h2⟩, h3⟩
      refine ⟨fun h0 => by simp [h0] at h1, fun b' hb => hb ▸ ⟨h2, h3⟩⟩
    · rintro ⟨h1, h2⟩
      refine ⟨⟨?_, (h2 b rfl).1⟩, (h2 b rfl).2⟩
      cases l with
      | nil => exact absurd rfl h1
      | cons a l => rfl

instance (s : Coll) : Decidable (Inv s) := decidable_of_iff _ (invB_iff s)

/-- both collections of the machine -/
def Inv2 (m : M) : Prop := Inv m.cur ∧ Inv m.aux

instance (m : M) : Decidable (Inv2 m) := inferInstanceAs (Decidable (_ ∧ _))

/-! ## basic facts -/

theorem inv_empty : Inv Coll.empty := by simp [Inv, Coll.empty]

theorem inv_nil_none : Inv ⟨[], none⟩ := inv_empty

/-- the update of `append` / `insert` keeps the invariant when the element is added anywhere -/
theorem inv_upd {l l' : List Result} {b : Option Result} {r : Result}
    (h : Inv ⟨l, b⟩) (hm : ∀ x, x ∈ l' ↔ x = r ∨ x ∈ l) : Inv ⟨l', upd b r⟩ := by
  have hne : l' ≠ [] := by
    intro h0
    have := (hm r).2 (Or.inl rfl)
    simp [h0] at this
  cases b with
  | none =>
    have hl : l = [] := h.1.1 rfl
    subst hl
    refine ⟨by simp [upd, better, hne], ?_⟩
    intro b' hb'
    simp only [upd, better, if_true, Option.some.injEq] at hb'
    subst hb'
    refine ⟨(hm r).2 (Or.inl rfl), fun x hx => ?_⟩
    rcases (hm x).1 hx with rfl | hx
    · exact le_refl _
    · simp at hx
  | some b =>
    obtain ⟨hb, hmin⟩ := h.2 b rfl
    by_cases hlt : r.value < b.value
    · refine ⟨by simp [upd, better, hlt, hne], ?_⟩
      intro b' hb'
      simp only [upd, better, hlt, decide_true, if_true, Option.some.injEq] at hb'
      subst hb'
      refine ⟨(hm r).2 (Or.inl rfl), fun x hx => ?_⟩
      rcases (hm x).1 hx with rfl | hx
      · exact le_refl _
      · exact le_trans (le_of_lt hlt) (hmin x hx)
    · refine ⟨by simp [upd, better, hlt, hne], ?_⟩
      intro b' hb'
      simp only [upd, better, hlt, decide_false, Bool.false_eq_true, if_false, Option.some.injEq] at hb'
      subst hb'
      refine ⟨(hm b).2 (Or.inr hb), fun x hx => ?_⟩
      rcases (hm x).1 hx with rfl | hx
      · exact not_lt.mp hlt
      · exact hmin x hx

theorem inv_append {s : Coll} (r : Result) (h : Inv s) : Inv (s.append r) := by
  obtain ⟨l, b⟩ := s
  exact inv_upd h (by intro x; simp [or_comm])

theorem mem_take_or_drop (l : List Result) (k : Nat) (x : Result) :
    x ∈ l ↔ x ∈ l.take k ∨ x ∈ l.drop k := by
  rw [← List.mem_append, List.take_append_drop]

theorem inv_insert {s : Coll} (i : Int) (r : Result) (h : Inv s) : Inv (s.insert i r) := by
  obtain ⟨l, b⟩ := s
  refine inv_upd h ?_
  intro x
  simp only [insertAt, List.mem_append, List.mem_cons]
  rw [mem_take_or_drop l (insertPos l.length i) x]
  tauto

theorem foldl_append_eq (l : List Result) (s : Coll) :
    l.foldl Coll.append s = ⟨s.items ++ l, l.foldl upd s.best⟩ := by
  induction l generalizing s with
  | nil => simp
  | cons a l ih => simp [List.foldl_cons, ih, Coll.append]

theorem inv_foldl_append (l : List Result) {s : Coll} (h : Inv s) : Inv (l.foldl Coll.append s) := by
  induction l generalizing s with
  | nil => exact h
  | cons a l ih => exact ih (inv_append a h)

theorem construct_eq (l : List Result) : construct l = ⟨l, recompute l⟩ := by
  simp [construct, foldl_append_eq, Coll.empty, recompute]

theorem construct_items (l : List Result) : (construct l).items = l := by
  rw [construct_eq]

theorem inv_construct (l : List Result) : Inv (construct l) := inv_foldl_append l inv_empty

theorem inv_recompute (l : List Result) : Inv ⟨l, recompute l⟩ := by
  rw [← construct_eq]; exact inv_construct l

theorem inv_extendList {s : Coll} (l : List Result) (h : Inv s) : Inv (s.extendList l) :=
  inv_foldl_append l h

/-- a sub-collection that still contains `best` keeps it -/
theorem inv_sub {l l' : List Result} {b : Result} (h : Inv ⟨l, some b⟩)
    (hsub : ∀ x ∈ l', x ∈ l) (hb : b ∈ l') : Inv ⟨l', some b⟩ := by
  refine ⟨by simp; exact List.ne_nil_of_mem hb, ?_⟩
  intro b' hb'
  simp only [Option.some.injEq] at hb'
  subst hb'
  exact ⟨hb, fun x hx => (h.2 b rfl).2 x (hsub x hx)⟩

/-- the same elements in another arrangement -/
theorem inv_of_mem_iff {l l' : List Result} {b : Option Result} (h : Inv ⟨l, b⟩)
    (hm : ∀ x, x ∈ l' ↔ x ∈ l) : Inv ⟨l', b⟩ := by
  have hnil : l' = [] ↔ l = [] := by
    simp only [List.eq_nil_iff_forall_not_mem]
    exact ⟨fun h x hx => h x ((hm x).2 hx), fun h x hx => h x ((hm x).1 hx)⟩
  refine ⟨by simpa [hnil] using h.1, ?_⟩
  intro b' hb'
  obtain ⟨h1, h2⟩ := h.2 b' hb'
  exact ⟨(hm b').2 h1, fun x hx => h2 x ((hm x).1 hx)⟩

theorem best_some_of_mem {s : Coll} (h : Inv s) {x : Result} (hx : x ∈ s.items) :
    ∃ b, s.best = some b := by
  cases hb : s.best with
  | none => rw [h.1.1 hb] at hx; simp at hx
  | some b => exact ⟨b, rfl⟩

/-! ## remove / pop -/

theorem inv_remove {s c : Coll} {r : Result} {e : Option Err} (h : Inv s)
    (hr : s.remove r = .ok (c, e)) : Inv c ∧ e = none := by
  obtain ⟨l, b⟩ := s
  unfold Coll.remove at hr
  by_cases hmem : r ∈ l
  · obtain ⟨b', hb'⟩ := best_some_of_mem h hmem
    simp only at hb'
    subst hb'
    simp only [hmem, if_true, eqBest, pure, Except.pure] at hr
    by_cases hrb : r = b'
    · simp only [hrb, decide_true, Except.ok.injEq, Prod.mk.injEq] at hr
      obtain ⟨rfl, rfl⟩ := hr
      exact ⟨inv_recompute _, rfl⟩
    · simp only [hrb, decide_false, Except.ok.injEq, Prod.mk.injEq] at hr
      obtain ⟨rfl, rfl⟩ := hr
      refine ⟨inv_sub h (fun x hx => List.mem_of_mem_erase hx) ?_, rfl⟩
      exact (List.mem_erase_of_ne (fun hh => hrb hh.symm)).2 (h.2 b' rfl).1
  · simp [hmem] at hr

theorem split_at (l : List Result) (k : Nat) (x : Result) (h : l[k]? = some x) :
    l = l.take k ++ x :: l.drop (k + 1) := by
  induction l generalizing k with
  | nil => simp at h
  | cons a l ih =>
    cases k with
    | zero => simp at h; simp [h]
    | succ k => simp at h; simp [← ih k h]

theorem mem_removeAt {l : List Result} {k : Nat} {y : Result} (hy : y ∈ removeAt l k) : y ∈ l := by
  simp only [removeAt, List.mem_append] at hy
  rcases hy with hy | hy
  · exact List.mem_of_mem_take hy
  · exact List.mem_of_mem_drop hy

theorem inv_pop {s c : Coll} {i : Int} {x : Result} {e : Option Err} (h : Inv s)
    (hr : s.pop i = .ok (c, x, e)) : Inv c ∧ e = none := by
  obtain ⟨l, b⟩ := s
  unfold Coll.pop at hr
  cases hk : normIndex l.length i with
  | none => simp [hk] at hr
  | some k =>
    simp only [hk] at hr
    cases hx : l[k]? with
    | none => simp [hx] at hr
    | some y =>
      simp only [hx] at hr
      have hmem : y ∈ l := List.mem_of_getElem? hx
      obtain ⟨b', hb'⟩ := best_some_of_mem h hmem
      simp only at hb'
      subst hb'
      simp only [eqBest, pure, Except.pure] at hr
      by_cases hyb : y = b'
      · simp only [hyb, decide_true, Except.ok.injEq, Prod.mk.injEq] at hr
        obtain ⟨rfl, -, rfl⟩ := hr
        exact ⟨inv_recompute _, rfl⟩
      · simp only [hyb, decide_false, Except.ok.injEq, Prod.mk.injEq] at hr
        obtain ⟨rfl, -, rfl⟩ := hr
        refine ⟨inv_sub h (fun z hz => mem_removeAt hz) ?_, rfl⟩
        have hb : b' ∈ l := (h.2 b' rfl).1
        rw [split_at l k y hx] at hb
        simp only [List.mem_append, List.mem_cons] at hb
        simp only [removeAt, List.mem_append]
        rcases hb with hb | hb | hb
        · exact Or.inl hb
        · exact absurd hb.symm hyb
        · exact Or.inr hb

/-! ## extend / += with an `AnnealResults` operand -/

theorem inv_merge {l1 l2 : List Result} {b1 : Option Result} {ob : Result}
    (h1 : Inv ⟨l1, b1⟩) (h2 : Inv ⟨l2, some ob⟩) : Inv ⟨l1 ++ l2, upd b1 ob⟩ := by
  obtain ⟨hob, hmin2⟩ := h2.2 ob rfl
  have hne : l1 ++ l2 ≠ [] := by
    intro h0
    have := List.append_eq_nil_iff.1 h0
    rw [this.2] at hob; simp at hob
  cases b1 with
  | none =>
    have hl : l1 = [] := h1.1.1 rfl
    subst hl
    simpa [upd, better] using h2
  | some sb =>
    obtain ⟨hsb, hmin1⟩ := h1.2 sb rfl
    by_cases hlt : ob.value < sb.value
    · refine ⟨by simp [upd, better, hlt]; exact fun h => by simp [h] at hsb, ?_⟩
      intro b' hb'
      simp only [upd, better, hlt, decide_true, if_true, Option.some.injEq] at hb'
      subst hb'
      refine ⟨List.mem_append_right _ hob, fun x hx => ?_⟩
      rcases List.mem_append.1 hx with hx | hx
      · exact le_trans (le_of_lt hlt) (hmin1 x hx)
      · exact hmin2 x hx
    · refine ⟨by simp [upd, better, hlt]; exact fun h => by simp [h] at hsb, ?_⟩
      intro b' hb'
      simp only [upd, better, hlt, decide_false, Bool.false_eq_true, if_false, Option.some.injEq] at hb'
      subst hb'
      refine ⟨List.mem_append_left _ hsb, fun x hx => ?_⟩
      rcases List.mem_append.1 hx with hx | hx
      · exact hmin1 x hx
      · exact le_trans (not_lt.mp hlt) (hmin2 x hx)

theorem inv_extendARBeforeFix {s o c : Coll} (hs : Inv s) (ho : Inv o)
    (h : extendARBeforeFix s o = .ok c) : Inv c := by
  obtain ⟨l1, b1⟩ := s
  obtain ⟨l2, b2⟩ := o
  cases b2 with
  | none => simp [extendARBeforeFix] at h
  | some ob =>
    cases b1 with
    | none => simp [extendARBeforeFix] at h
    | some sb =>
      simp only [extendARBeforeFix, pure, Except.pure, Except.ok.injEq] at h
      subst h
      have := inv_merge hs ho
      simpa [upd, better] using this

theorem inv_extendARFixed {s o c : Coll} (hs : Inv s) (ho : Inv o)
    (h : extendARFixed s o = .ok c) : Inv c := by
  obtain ⟨l1, b1⟩ := s
  obtain ⟨l2, b2⟩ := o
  cases b2 with
  | none =>
    have hl : l2 = [] := ho.1.1 rfl
    simp only [extendARFixed, pure, Except.pure, Except.ok.injEq] at h
    subst h; subst hl
    simpa using hs
  | some ob =>
    simp only [extendARFixed, pure, Except.pure, Except.ok.injEq] at h
    subst h
    exact inv_merge hs ho

/-! ## sort / reverse / clear / repaired mutators -/

theorem mem_sortItems (l : List Result) (rev : Bool) (x : Result) : x ∈ sortItems l rev ↔ x ∈ l := by
  unfold sortItems
  cases rev with
  | true => simp [(List.mergeSort_perm _ _).mem_iff]
  | false => simp [(List.mergeSort_perm _ _).mem_iff]

theorem inv_sort {s : Coll} (rev : Bool) (h : Inv s) : Inv (s.sort rev) :=
  inv_of_mem_iff (l := s.items) h (mem_sortItems s.items rev)

theorem inv_reverse {s : Coll} (h : Inv s) : Inv s.reverse :=
  inv_of_mem_iff (l := s.items) h (fun _ => List.mem_reverse)

theorem inv_clear (s : Coll) : Inv s.clear := inv_empty

theorem inv_fixup (s : Coll) : Inv s.fixup := inv_recompute _

/-! ## the D3 table -/

/-- `extend` / `+=` with an `AnnealResults` operand keep the invariant whenever they return -/
structure Impl.ExtOK (I : Impl) : Prop where
  extendAR : ∀ s o c, Inv s → Inv o → I.extendAR s o = .ok c → Inv c
  iaddAR : ∀ s o c, Inv s → Inv o → I.iaddAR s o = .ok c → Inv c

/-- item / slice assignment and deletion keep the invariant whenever they return -/
structure Impl.MutOK (I : Impl) : Prop where
  setItem : ∀ s i r c, Inv s → I.setItem s i r = .ok c → Inv c
  delItem : ∀ s i c, Inv s → I.delItem s i = .ok c → Inv c
  setSlice : ∀ s sl v c, Inv s → I.setSlice s sl v = .ok c → Inv c
  delSlice : ∀ s sl c, Inv s → I.delSlice s sl = .ok c → Inv c

theorem beforeFix_extOK : Impl.beforeFix.ExtOK :=
  ⟨fun _ _ _ hs ho h => inv_extendARBeforeFix hs ho h, fun _ _ _ hs ho h => inv_extendARBeforeFix hs ho h⟩

theorem fixed_extOK : Impl.fixed.ExtOK :=
  ⟨fun _ _ _ hs ho h => inv_extendARFixed hs ho h, fun _ _ _ hs ho h => inv_extendARFixed hs ho h⟩

theorem bind_fixup {e : Except Err Coll} {c : Coll}
    (h : (do let x ← e; pure x.fixup : Except Err Coll) = .ok c) : Inv c := by
  cases e with
  | error _ => simp [bind, Except.bind] at h
  | ok x =>
    simp only [bind, Except.bind, pure, Except.pure, Except.ok.injEq] at h
    subst h; exact inv_fixup x

theorem fixed_mutOK : Impl.fixed.MutOK :=
  ⟨fun _ _ _ _ _ h => bind_fixup h, fun _ _ _ _ h => bind_fixup h,
   fun _ _ _ _ _ h => bind_fixup h, fun _ _ _ _ h => bind_fixup h⟩

/-- the operations of the alphabet for which the code *before the fix* already kept the invariant -/
def Op.safe : Op → Bool
  | .setItem _ _ | .delItem _ | .setSlice _ _ | .delSlice _ => false
  | _ => true

theorem mutate_inv {m : M} {r : Except Err Coll} (hm : Inv2 m) (h : ∀ c, r = .ok c → Inv c) :
    Inv2 (mutate m r).1 := by
  cases r with
  | error e => exact hm
  | ok c => exact ⟨h c rfl, hm.2⟩

theorem bind_construct_inv {e : Except Err (List Result)} {c : Coll}
    (h : (do let x ← e; pure (construct x) : Except Err Coll) = .ok c) : Inv c := by
  cases e with
  | error _ => simp [bind, Except.bind] at h
  | ok x =>
    simp only [bind, Except.bind, pure, Except.pure, Except.ok.injEq] at h
    subst h; exact inv_construct x

/-- **one step keeps the invariant of both collections** for every table whose `extend` / `+=`
entries are sound, provided the operation is not one of the four stale-`best` mutators or the table
repairs them. -/
theorem step_inv (I : Impl) (hE : I.ExtOK) (op : Op) (m : M)
    (hop : op.safe = true ∨ I.MutOK) (hm : Inv2 m) : Inv2 (step I op m).1 := by
  obtain ⟨hc, ha⟩ := hm
  cases op with
  | construct l => exact ⟨inv_construct l, ha⟩
  | append r => exact ⟨inv_append r hc, ha⟩
  | addState st v sp => exact ⟨inv_append _ hc, ha⟩
  | insert i r => exact ⟨inv_insert i r hc, ha⟩
  | remove r =>
    simp only [step]
    cases hr : m.cur.remove r with
    | error e => exact ⟨hc, ha⟩
    | ok p =>
      obtain ⟨c, e⟩ := p
      obtain ⟨h1, rfl⟩ := inv_remove hc hr
      exact ⟨h1, ha⟩
  | pop i =>
    simp only [step]
    cases hr : m.cur.pop i with
    | error e => exact ⟨hc, ha⟩
    | ok p =>
      obtain ⟨c, _, e⟩ := p
      obtain ⟨h1, rfl⟩ := inv_pop hc hr
      exact ⟨h1, ha⟩
  | getItem i =>
    simp only [step]
    cases m.cur.getItem i <;> exact ⟨hc, ha⟩
  | extendList l => exact ⟨inv_extendList l hc, ha⟩
  | extendAR l => exact mutate_inv ⟨hc, ha⟩ (fun c h => hE.extendAR _ _ c hc (inv_construct l) h)
  | extendSelf => exact mutate_inv ⟨hc, ha⟩ (fun c h => hE.extendAR _ _ c hc hc h)
  | extendAux => exact mutate_inv ⟨hc, ha⟩ (fun c h => hE.extendAR _ _ c hc ha h)
  | iaddList l => exact ⟨inv_extendList l hc, ha⟩
  | iaddAR l => exact mutate_inv ⟨hc, ha⟩ (fun c h => hE.iaddAR _ _ c hc (inv_construct l) h)
  | iaddSelf => exact mutate_inv ⟨hc, ha⟩ (fun c h => hE.iaddAR _ _ c hc hc h)
  | iaddAux => exact mutate_inv ⟨hc, ha⟩ (fun c h => hE.iaddAR _ _ c hc ha h)
  | add l => exact ⟨inv_construct _, ha⟩
  | addAux => exact ⟨inv_construct _, ha⟩
  | mul n => exact ⟨inv_construct _, ha⟩
  | rmul n =>
    simp only [step]
    split
    · exact ⟨inv_construct _, ha⟩
    · exact ⟨hc, ha⟩
  | getSlice sl => exact mutate_inv ⟨hc, ha⟩ (fun c h => bind_construct_inv h)
  | setItem i r =>
    rcases hop with h | h
    · simp [Op.safe] at h
    · exact mutate_inv ⟨hc, ha⟩ (fun c hh => h.setItem _ _ _ c hc hh)
  | delItem i =>
    rcases hop with h | h
    · simp [Op.safe] at h
    · exact mutate_inv ⟨hc, ha⟩ (fun c hh => h.delItem _ _ c hc hh)
  | setSlice sl l =>
    rcases hop with h | h
    · simp [Op.safe] at h
    · exact mutate_inv ⟨hc, ha⟩ (fun c hh => h.setSlice _ _ _ c hc hh)
  | delSlice sl =>
    rcases hop with h | h
    · simp [Op.safe] at h
    · exact mutate_inv ⟨hc, ha⟩ (fun c hh => h.delSlice _ _ c hc hh)
  | clear => exact ⟨inv_empty, ha⟩
  | sort rev => exact ⟨inv_sort rev hc, ha⟩
  | reverse => exact ⟨inv_reverse hc, ha⟩
  | copy => exact ⟨inv_construct _, ha⟩
  | filter f => exact ⟨inv_construct _, ha⟩
  | filterStates f => exact ⟨inv_construct _, ha⟩
  | applyFunction f => exact ⟨inv_construct _, ha⟩
  | convertStates f => exact ⟨inv_construct _, ha⟩
  | toBoolean => exact mutate_inv ⟨hc, ha⟩ (fun c h => bind_construct_inv h)
  | toSpin => exact mutate_inv ⟨hc, ha⟩ (fun c h => bind_construct_inv h)
  | swap => exact ⟨ha, hc⟩
  | stash => exact ⟨hc, inv_construct _⟩

theorem run_inv (I : Impl) (hE : I.ExtOK) (ops : List Op) (m : M)
    (hops : (∀ op ∈ ops, op.safe = true) ∨ I.MutOK) (hm : Inv2 m) : Inv2 (run I ops m) := by
  induction ops generalizing m with
  | nil => exact hm
  | cons op ops ih =>
    simp only [run, List.foldl_cons]
    refine ih _ ?_ ?_
    · rcases hops with h | h
      · exact Or.inl (fun o ho => h o (List.mem_cons_of_mem _ ho))
      · exact Or.inr h
    · refine step_inv I hE op m ?_ hm
      rcases hops with h | h
      · exact Or.inl (h op List.mem_cons_self)
      · exact Or.inr h

theorem inv2_start (init : List Result) : Inv2 (start init) := ⟨inv_construct init, inv_empty⟩

/-! ## T13.3: conversions and sort -/

theorem boolToSpin_spinToBool {st st' : PState} (h : spinToBool st = .ok st') : boolToSpin st' = .ok st := by
  induction st generalizing st' with
  | nil => simp [spinToBool, pure, Except.pure] at h; subst h; rfl
  | cons p st ih =>
    obtain ⟨k, v⟩ := p
    unfold spinToBool at h
    cases hr : spinToBool st with
    | error e => split_ifs at h <;> simp [hr, bind, Except.bind] at h
    | ok t =>
      have := ih hr
      split_ifs at h with h1 h2
      · simp only [hr, bind, Except.bind, pure, Except.pure, Except.ok.injEq] at h
        subst h; subst h1
        simp [boolToSpin, this, bind, Except.bind, pure, Except.pure]
      · simp only [hr, bind, Except.bind, pure, Except.pure, Except.ok.injEq] at h
        subst h; subst h2
        simp [boolToSpin, this, bind, Except.bind, pure, Except.pure]

theorem spinToBool_boolToSpin {st st' : PState} (h : boolToSpin st = .ok st') : spinToBool st' = .ok st := by
  induction st generalizing st' with
  | nil => simp [boolToSpin, pure, Except.pure] at h; subst h; rfl
  | cons p st ih =>
    obtain ⟨k, v⟩ := p
    unfold boolToSpin at h
    cases hr : boolToSpin st with
    | error e => split_ifs at h <;> simp [hr, bind, Except.bind] at h
    | ok t =>
      have := ih hr
      split_ifs at h with h1 h2
      · simp only [hr, bind, Except.bind, pure, Except.pure, Except.ok.injEq] at h
        subst h; subst h1
        simp [spinToBool, this, bind, Except.bind, pure, Except.pure]
      · simp only [hr, bind, Except.bind, pure, Except.pure, Except.ok.injEq] at h
        subst h; subst h2
        simp [spinToBool, this, bind, Except.bind, pure, Except.pure]

/-- a boolean result converted to spin converts back to itself; value kept, flag set -/
theorem result_toSpin_toBoolean {r t : Result} (hs : r.spin = false) (h : r.toSpin = .ok t) :
    t.toBoolean = .ok r ∧ t.value = r.value ∧ t.spin = true := by
  obtain ⟨st, v, sp⟩ := r
  simp only at hs; subst hs
  simp only [Result.toSpin, Bool.false_eq_true, if_false] at h
  cases hb : boolToSpin st with
  | error e => simp [hb, bind, Except.bind] at h
  | ok st' =>
    simp only [hb, bind, Except.bind, pure, Except.pure, Except.ok.injEq] at h
    subst h
    simp [Result.toBoolean, spinToBool_boolToSpin hb, bind, Except.bind, pure, Except.pure]

/-- a spin result converted to boolean converts back to itself; value kept, flag cleared -/
theorem result_toBoolean_toSpin {r t : Result} (hs : r.spin = true) (h : r.toBoolean = .ok t) :
    t.toSpin = .ok r ∧ t.value = r.value ∧ t.spin = false := by
  obtain ⟨st, v, sp⟩ := r
  simp only at hs; subst hs
  simp only [Result.toBoolean, if_true] at h
  cases hb : spinToBool st with
  | error e => simp [hb, bind, Except.bind] at h
  | ok st' =>
    simp only [hb, bind, Except.bind, pure, Except.pure, Except.ok.injEq] at h
    subst h
    simp [Result.toSpin, boolToSpin_spinToBool hb, bind, Except.bind, pure, Except.pure]

theorem result_toSpin_value {r t : Result} (h : r.toSpin = .ok t) : t.value = r.value ∧ t.spin = true := by
  cases hs : r.spin with
  | false => exact (result_toSpin_toBoolean hs h).2
  | true => simp [Result.toSpin, hs, pure, Except.pure] at h; subst h; exact ⟨rfl, hs⟩

theorem result_toBoolean_value {r t : Result} (h : r.toBoolean = .ok t) : t.value = r.value ∧ t.spin = false := by
  cases hs : r.spin with
  | true => exact (result_toBoolean_toSpin hs h).2
  | false => simp [Result.toBoolean, hs, pure, Except.pure] at h; subst h; exact ⟨rfl, hs⟩

theorem mapE_cons_ok {f : Result → Except Err Result} {x : Result} {xs ys : List Result}
    (h : mapE f (x :: xs) = .ok ys) : ∃ y ys', f x = .ok y ∧ mapE f xs = .ok ys' ∧ ys = y :: ys' := by
  unfold mapE at h
  cases hy : f x with
  | error e => simp [hy, bind, Except.bind] at h
  | ok y =>
    cases hys : mapE f xs with
    | error e => simp [hy, hys, bind, Except.bind] at h
    | ok ys' =>
      simp only [hy, hys, bind, Except.bind, pure, Except.pure, Except.ok.injEq] at h
      exact ⟨y, ys', rfl, rfl, h.symm⟩

/-- elementwise facts transfer through `mapE` -/
theorem mapE_forall2 {f : Result → Except Err Result} {P : Result → Result → Prop}
    (hP : ∀ r t, f r = .ok t → P r t) {l l' : List Result} (h : mapE f l = .ok l') :
    List.Forall₂ P l l' := by
  induction l generalizing l' with
  | nil => simp [mapE, pure, Except.pure] at h; subst h; exact .nil
  | cons x xs ih =>
    obtain ⟨y, ys', h1, h2, rfl⟩ := mapE_cons_ok h
    exact .cons (hP _ _ h1) (ih h2)

/-- the inverse conversion, applied elementwise, restores the original list -/
theorem mapE_inverse {f g : Result → Except Err Result} {l l' : List Result}
    (hfg : ∀ r ∈ l, ∀ t, f r = .ok t → g t = .ok r) (h : mapE f l = .ok l') : mapE g l' = .ok l := by
  induction l generalizing l' with
  | nil => simp [mapE, pure, Except.pure] at h; subst h; rfl
  | cons x xs ih =>
    obtain ⟨y, ys', h1, h2, rfl⟩ := mapE_cons_ok h
    have := ih (fun r hr => hfg r (List.mem_cons_of_mem _ hr)) h2
    simp [mapE, hfg x List.mem_cons_self y h1, this, bind, Except.bind, pure, Except.pure]

theorem bind_construct_ok {e : Except Err (List Result)} {c : Coll}
    (h : (do let x ← e; pure (construct x) : Except Err Coll) = .ok c) : ∃ l, e = .ok l ∧ c = construct l := by
  cases e with
  | error _ => simp [bind, Except.bind] at h
  | ok x =>
    simp only [bind, Except.bind, pure, Except.pure, Except.ok.injEq] at h
    exact ⟨x, rfl, h.symm⟩

theorem sortItems_perm (l : List Result) (rev : Bool) : (sortItems l rev).Perm l := by
  unfold sortItems
  cases rev with
  | true =>
    exact ((List.reverse_perm _).trans (List.mergeSort_perm _ _)).trans (List.reverse_perm _)
  | false => exact List.mergeSort_perm _ _

theorem sortItems_sorted (l : List Result) :
    (sortItems l false).Pairwise (fun a b => a.value ≤ b.value) := by
  have := List.pairwise_mergeSort (le := fun (a b : Result) => decide (a.value ≤ b.value))
    (fun a b c h1 h2 => by simp only [decide_eq_true_eq] at *; exact le_trans h1 h2)
    (fun a b => by simp only [Bool.or_eq_true, decide_eq_true_eq]; exact le_total _ _) l
  simpa [sortItems] using this

theorem sortItems_sorted_rev (l : List Result) :
    (sortItems l true).Pairwise (fun a b => b.value ≤ a.value) := by
  have := List.pairwise_mergeSort (le := fun (a b : Result) => decide (a.value ≤ b.value))
    (fun a b c h1 h2 => by simp only [decide_eq_true_eq] at *; exact le_trans h1 h2)
    (fun a b => by simp only [Bool.or_eq_true, decide_eq_true_eq]; exact le_total _ _) l.reverse
  simp only [sortItems, if_true, List.pairwise_reverse]
  simpa using this

/-! ## T13.2: exceptions -/

theorem toBool_ok {α : Type} {e : Except Err α} (h : e.toBool = true) : ∃ x, e = .ok x := by
  cases e with
  | error _ => simp [Except.toBool] at h
  | ok x => exact ⟨x, rfl⟩

theorem normIndex_lt {n : Nat} {i : Int} {k : Nat} (h : normIndex n i = some k) : k < n := by
  unfold normIndex at h
  simp only at h
  split_ifs at h with h1 h2 <;> simp only [Option.some.injEq] at h <;> omega

/-- the `AnnealResults` operand of `extend` / `+=`, if the operation has one -/
def Op.arOperand : Op → M → Option Coll
  | .extendAR l, _ | .iaddAR l, _ => some (Qv.Res.construct l)
  | .extendSelf, m | .iaddSelf, m => some m.cur
  | .extendAux, m | .iaddAux, m => some m.aux
  | _, _ => none

theorem extendARFixed_ok (s o : Coll) : ∃ c, extendARFixed s o = .ok c := by
  unfold extendARFixed; cases o.best <;> exact ⟨_, rfl⟩

theorem extendARBeforeFix_ok {s o : Coll} (hs : Inv s) (ho : Inv o) (h1 : s.items ≠ []) (h2 : o.items ≠ []) :
    ∃ c, extendARBeforeFix s o = .ok c := by
  obtain ⟨l1, b1⟩ := s
  obtain ⟨l2, b2⟩ := o
  cases b1 with
  | none => exact absurd (hs.1.1 rfl) h1
  | some sb =>
    cases b2 with
    | none => exact absurd (ho.1.1 rfl) h2
    | some ob => exact ⟨_, rfl⟩

theorem mutate_ok {m : M} {c : Coll} {r : Except Err Coll} (h : r = .ok c) :
    (mutate m r).2 = .ok none := by subst h; rfl

theorem remove_no_late_error {s : Coll} {r : Result} (h : Inv s) (hm : r ∈ s.items) :
    ∃ c, s.remove r = .ok (c, none) := by
  cases hr : s.remove r with
  | error e => simp [Coll.remove, hm] at hr; split at hr <;> simp [pure, Except.pure] at hr
  | ok p =>
    obtain ⟨c, e⟩ := p
    obtain ⟨_, rfl⟩ := inv_remove h hr
    exact ⟨c, rfl⟩

theorem pop_no_late_error {s : Coll} {i : Int} (h : Inv s) (hi : (normIndex s.items.length i).isSome = true) :
    ∃ c x, s.pop i = .ok (c, x, none) := by
  obtain ⟨k, hk⟩ := Option.isSome_iff_exists.1 hi
  have hlt := normIndex_lt hk
  cases hr : s.pop i with
  | error e =>
    simp only [Coll.pop, hk, List.getElem?_eq_getElem hlt] at hr
    split at hr <;> simp [pure, Except.pure] at hr
  | ok p =>
    obtain ⟨c, x, e⟩ := p
    obtain ⟨_, rfl⟩ := inv_pop h hr
    exact ⟨c, x, rfl⟩

theorem getItem_ok {s : Coll} {i : Int} (hi : (normIndex s.items.length i).isSome = true) :
    ∃ x, s.getItem i = .ok x := by
  obtain ⟨k, hk⟩ := Option.isSome_iff_exists.1 hi
  have hlt := normIndex_lt hk
  exact ⟨s.items[k], by simp [Coll.getItem, hk, List.getElem?_eq_getElem hlt, pure, Except.pure]⟩

theorem bind_fixup_ok {e : Except Err Coll} {c : Coll} (h : e = .ok c) :
    (do let x ← e; pure x.fixup : Except Err Coll) = .ok c.fixup := by subst h; rfl

theorem setItemList_ok {s : Coll} {i : Int} (r : Result)
    (hi : (normIndex s.items.length i).isSome = true) : ∃ c, setItemList s i r = .ok c := by
  obtain ⟨k, hk⟩ := Option.isSome_iff_exists.1 hi
  simp only [setItemList, hk, pure, Except.pure]
  exact ⟨_, rfl⟩

theorem delItemList_ok {s : Coll} {i : Int}
    (hi : (normIndex s.items.length i).isSome = true) : ∃ c, delItemList s i = .ok c := by
  obtain ⟨k, hk⟩ := Option.isSome_iff_exists.1 hi
  simp only [delItemList, hk, pure, Except.pure]
  exact ⟨_, rfl⟩

theorem setSliceList_ok {s : Coll} {sl : Slice} {v : List Result}
    (h : (listSetSlice s.items sl v).toBool = true) : ∃ c, setSliceList s sl v = .ok c := by
  obtain ⟨x, hx⟩ := toBool_ok h
  simp only [setSliceList, hx, bind, Except.bind, pure, Except.pure]
  exact ⟨_, rfl⟩

theorem delSliceList_ok {s : Coll} {sl : Slice}
    (h : (listDelSlice s.items sl).toBool = true) : ∃ c, delSliceList s sl = .ok c := by
  obtain ⟨x, hx⟩ := toBool_ok h
  simp only [delSliceList, hx, bind, Except.bind, pure, Except.pure]
  exact ⟨_, rfl⟩

theorem getSlice_ok {s : Coll} {sl : Slice}
    (h : (listGetSlice s.items sl).toBool = true) : ∃ c, s.getSlice sl = .ok c := by
  obtain ⟨x, hx⟩ := toBool_ok h
  simp only [Coll.getSlice, hx, bind, Except.bind, pure, Except.pure]
  exact ⟨_, rfl⟩

theorem toBoolean_ok {s : Coll} (h : (mapE Result.toBoolean s.items).toBool = true) :
    ∃ c, s.toBoolean = .ok c := by
  obtain ⟨x, hx⟩ := toBool_ok h
  simp only [Coll.toBoolean, hx, bind, Except.bind, pure, Except.pure]
  exact ⟨_, rfl⟩

theorem toSpin_ok {s : Coll} (h : (mapE Result.toSpin s.items).toBool = true) :
    ∃ c, s.toSpin = .ok c := by
  obtain ⟨x, hx⟩ := toBool_ok h
  simp only [Coll.toSpin, hx, bind, Except.bind, pure, Except.pure]
  exact ⟨_, rfl⟩

/-- is the outcome a normal return? -/
def Outcome.isOk : Outcome → Bool
  | .ok _ => true
  | _ => false

theorem mutate_isOk {m : M} {r : Except Err Coll} (h : ∃ c, r = .ok c) : (mutate m r).2.isOk = true := by
  obtain ⟨c, rfl⟩ := h; rfl

/-- the operations outside the D3 table never raise (and return `AnnealResults`) on operands a
plain list accepts, whatever the table -/
theorem step_isOk_common (I : Impl) (op : Op) (m : M) (hm : Inv2 m) (hacc : listAccepts op m = true)
    (hop : op.arOperand m = none) (hsafe : op.safe = true) (hr : ∀ n, op ≠ .rmul n) :
    (step I op m).2.isOk = true := by
  obtain ⟨hc, ha⟩ := hm
  cases op with
  | remove r =>
    simp only [listAccepts, decide_eq_true_eq] at hacc
    obtain ⟨c, h⟩ := remove_no_late_error hc hacc
    simp [step, h, done, Outcome.isOk]
  | pop i =>
    obtain ⟨c, x, h⟩ := pop_no_late_error hc hacc
    simp [step, h, Outcome.isOk]
  | getItem i =>
    obtain ⟨x, h⟩ := getItem_ok hacc
    simp [step, h, Outcome.isOk]
  | getSlice sl => exact mutate_isOk (getSlice_ok hacc)
  | toBoolean => exact mutate_isOk (toBoolean_ok hacc)
  | toSpin => exact mutate_isOk (toSpin_ok hacc)
  | rmul n => exact absurd rfl (hr n)
  | extendAR l | iaddAR l | extendSelf | iaddSelf | extendAux | iaddAux => simp [Op.arOperand] at hop
  | setItem i r | delItem i | setSlice sl l | delSlice sl => simp [Op.safe] at hsafe
  | construct l | append r | addState st v sp | insert i r | extendList l | iaddList l | add l | addAux
  | mul n | clear | sort rev | reverse | copy | filter f | filterStates f | applyFunction f
  | convertStates f | swap | stash => rfl

/-- with the table of the code as it is (`Impl.fixed`) no operation raises, or returns a plain list, on operands a plain list accepts -/
theorem step_isOk_fixed (op : Op) (m : M) (hm : Inv2 m) (hacc : listAccepts op m = true) :
    (step Impl.fixed op m).2.isOk = true := by
  by_cases h1 : op.arOperand m = none ∧ op.safe = true ∧ ∀ n, op ≠ .rmul n
  · exact step_isOk_common _ op m hm hacc h1.1 h1.2.1 h1.2.2
  · cases op with
    | extendAR l => exact mutate_isOk (extendARFixed_ok _ _)
    | iaddAR l => exact mutate_isOk (extendARFixed_ok _ _)
    | extendSelf => exact mutate_isOk (extendARFixed_ok _ _)
    | iaddSelf => exact mutate_isOk (extendARFixed_ok _ _)
    | extendAux => exact mutate_isOk (extendARFixed_ok _ _)
    | iaddAux => exact mutate_isOk (extendARFixed_ok _ _)
    | rmul n => rfl
    | setItem i r =>
      obtain ⟨c, h⟩ := setItemList_ok r hacc
      exact mutate_isOk ⟨_, bind_fixup_ok h⟩
    | delItem i =>
      obtain ⟨c, h⟩ := delItemList_ok hacc
      exact mutate_isOk ⟨_, bind_fixup_ok h⟩
    | setSlice sl l =>
      obtain ⟨c, h⟩ := setSliceList_ok hacc
      exact mutate_isOk ⟨_, bind_fixup_ok h⟩
    | delSlice sl =>
      obtain ⟨c, h⟩ := delSliceList_ok hacc
      exact mutate_isOk ⟨_, bind_fixup_ok h⟩
    | _ => simp [Op.arOperand, Op.safe] at h1

/-- with the table of the code before the fix (`Impl.beforeFix`), from a state satisfying the invariant, the only operations that fail on
operands a plain list accepts are `n * res` (plain list) and `extend` / `+=` with an `AnnealResults`
operand when the receiver or the operand is empty -/
theorem step_isOk_beforeFix (op : Op) (m : M) (hm : Inv2 m) (hacc : listAccepts op m = true)
    (hr : ∀ n, op ≠ .rmul n)
    (hne : ∀ o, op.arOperand m = some o → m.cur.items ≠ [] ∧ o.items ≠ []) :
    (step Impl.beforeFix op m).2.isOk = true := by
  by_cases h1 : op.arOperand m = none ∧ op.safe = true
  · exact step_isOk_common _ op m hm hacc h1.1 h1.2 hr
  · cases op with
    | extendAR l =>
      obtain ⟨h2, h3⟩ := hne _ rfl
      exact mutate_isOk (extendARBeforeFix_ok hm.1 (inv_construct l) h2 h3)
    | iaddAR l =>
      obtain ⟨h2, h3⟩ := hne _ rfl
      exact mutate_isOk (extendARBeforeFix_ok hm.1 (inv_construct l) h2 h3)
    | extendSelf =>
      obtain ⟨h2, h3⟩ := hne _ rfl
      exact mutate_isOk (extendARBeforeFix_ok hm.1 hm.1 h2 h3)
    | iaddSelf =>
      obtain ⟨h2, h3⟩ := hne _ rfl
      exact mutate_isOk (extendARBeforeFix_ok hm.1 hm.1 h2 h3)
    | extendAux =>
      obtain ⟨h2, h3⟩ := hne _ rfl
      exact mutate_isOk (extendARBeforeFix_ok hm.1 hm.2 h2 h3)
    | iaddAux =>
      obtain ⟨h2, h3⟩ := hne _ rfl
      exact mutate_isOk (extendARBeforeFix_ok hm.1 hm.2 h2 h3)
    | setItem i r => exact mutate_isOk (setItemList_ok r hacc)
    | delItem i => exact mutate_isOk (delItemList_ok hacc)
    | setSlice sl l => exact mutate_isOk (setSliceList_ok hacc)
    | delSlice sl => exact mutate_isOk (delSliceList_ok hacc)
    | _ => simp [Op.arOperand, Op.safe] at h1

end Qv.Res
