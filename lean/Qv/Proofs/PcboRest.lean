import Qv.Proofs.PcboLe2
/-!
# C02: `add_constraint_lt_zero`, `add_constraint_gt_zero`, `add_constraint_ge_zero` (reductions to `le`)
-/
namespace Qv.PcboP

/-! ## transport of `Sem` / `Struct` to another polynomial and relation -/

theorem Sem.transfer {R R' : Rat → Prop} {a b : St} {P P' : Poly} {lam : Rat} (h : Sem R a b P lam)
    (hr : ∀ x, IsBool x → (R' (eval x P') ↔ R (eval x P))) : Sem R' a b P' lam :=
  ⟨h.nonneg, fun x hx r => h.sat x hx ((hr x hx).1 r), fun s hs r => h.viol s hs (fun r' => r ((hr s hs).2 r'))⟩

theorem Struct.transfer {a b : St} {P P' : Poly} (h : Struct a b P)
    (hl : ∀ V : Var → Prop, LabelsIn V P' → LabelsIn V P) : Struct a b P' := by
  obtain ⟨h1, q, h2, h3⟩ := h
  exact ⟨h1, q, h2, fun V hV hA => h3 V (hl V hV) hA⟩

/-! ## distinct keys are preserved -/

theorem nodup_set (p : Poly) (k : Key) (v : Rat) (h : (keys p).Nodup) : (keys (set p k v)).Nodup := by
  unfold set; split
  · exact nodup_erase p k h
  · exact nodup_put p k v h

theorem nodup_addTermB (p : Poly) (k : Key) (v : Rat) (h : (keys p).Nodup) : (keys (addTermB p k v)).Nodup :=
  nodup_set p _ _ h

theorem nodup_addConstB (p : Poly) (c : Rat) (h : (keys p).Nodup) : (keys (addConstB p c)).Nodup :=
  nodup_addTermB p _ _ h

theorem nodup_scaleB (c : Rat) (p : Poly) : (keys (scaleB c p)).Nodup := by
  unfold scaleB
  have : ∀ (l : Poly) (acc : Poly), (keys acc).Nodup →
      (keys (l.foldl (fun acc kv => addTermB acc kv.1 (c * kv.2)) acc)).Nodup := by
    intro l
    induction l with
    | nil => intro acc h; exact h
    | cons a r ih => intro acc h; exact ih _ (nodup_addTermB _ _ _ h)
  exact this p [] List.nodup_nil

theorem nodup_constructB (d : Poly) : (keys (constructB d)).Nodup := by
  unfold constructB iaddB
  have : ∀ (l : Poly) (acc : Poly), (keys acc).Nodup →
      (keys (l.foldl (fun acc kv => addTermB acc kv.1 kv.2) acc)).Nodup := by
    intro l
    induction l with
    | nil => intro acc h; exact h
    | cons a r ih => intro acc h; exact ih _ (nodup_addTermB _ _ _ h)
  exact this d [] List.nodup_nil

/-! ## `add_constraint_lt_zero` -/

theorem addLtZero_cases (st : St) (P : Poly) (lam : Rat) (lt : Bool) (b : Option Rat × Option Rat) (sup : Bool) :
    (lam = 0 ∧ addLtZero st P lam lt b sup = st.append .lt P) ∨
    (lam ≠ 0 ∧ (getBounds P b).1 ≥ 0 ∧
      addLtZero st P lam lt b sup = (((st.append .lt P).warn sup "unsat").plus (scaleB lam P)).tag "lt-unsat") ∨
    (lam ≠ 0 ∧ ¬ (getBounds P b).1 ≥ 0 ∧ (getBounds P b).2 < 0 ∧
      addLtZero st P lam lt b sup = ((st.append .lt P).warn sup "always").tag "lt-always") ∨
    (lam ≠ 0 ∧ ¬ (getBounds P b).1 ≥ 0 ∧ ¬ (getBounds P b).2 < 0 ∧
      addLtZero st P lam lt b sup =
        ((addLeZero (st.append .lt P) (addConstB P 1) lam lt
          (some ((getBounds P b).1 + 1), some ((getBounds P b).2 + 1)) true).pop .le).tag "lt-shift") := by
  unfold addLtZero
  simp only []
  split
  · left; exact ⟨by assumption, rfl⟩
  · rename_i hl
    right
    by_cases c1 : (getBounds P b).1 ≥ 0
    · left; rw [if_pos c1]; exact ⟨hl, c1, rfl⟩
    · right
      rw [if_neg c1]
      by_cases c2 : (getBounds P b).2 < 0
      · left; rw [if_pos c2]; exact ⟨hl, c1, c2, rfl⟩
      · right; rw [if_neg c2]; exact ⟨hl, c1, c2, rfl⟩

theorem addLtZero_book (st : St) (P : Poly) (lam : Rat) (lt : Bool) (b : Option Rat × Option Rat) (sup : Bool) :
    (addLtZero st P lam lt b sup).cons = st.cons ++ [(.lt, P)] ∧ Struct st (addLtZero st P lam lt b sup) P := by
  rcases addLtZero_cases st P lam lt b sup with ⟨_, h⟩ | ⟨_, _, h⟩ | ⟨_, _, _, h⟩ | ⟨_, _, _, h⟩
  · rw [h]; exact ⟨rfl, Struct.refl_of P rfl rfl⟩
  · rw [h]
    refine ⟨by simp, Nat.le_of_eq (by simp), scaleB lam P, by simp, fun V hV _ => labelsIn_scaleB _ hV⟩
  · rw [h]
    exact ⟨by simp, Struct.refl_of P (by simp) (by simp)⟩
  · rw [h]
    obtain ⟨h1, h2⟩ := addLeZero_book (st.append .lt P) (addConstB P 1) lam lt
      (some ((getBounds P b).1 + 1), some ((getBounds P b).2 + 1)) true
    refine ⟨?_, ?_⟩
    · rw [St.tag_cons, St.pop_cons, h1, popLast_append]; rfl
    · exact (h2.transfer (fun V hV => labelsIn_addConstB _ hV)).congr rfl rfl rfl rfl

/-- when the library does not suppress warnings, the `lt-unsat` branch is exactly where it warns -/
theorem addLtZero_warns (st : St) (P : Poly) (lam : Rat) (lt : Bool) (b : Option Rat × Option Rat)
    (hl : lam ≠ 0) (h : (getBounds P b).1 ≥ 0) :
    (addLtZero st P lam lt b false).warns = st.warns ++ ["unsat"] := by
  rcases addLtZero_cases st P lam lt b false with ⟨h0, _⟩ | ⟨_, _, e⟩ | ⟨_, c, _⟩ | ⟨_, c, _⟩
  · exact absurd h0 hl
  · rw [e]; simp [St.warn]
  · exact absurd h c
  · exact absurd h c

/-- **lt.**  `F ≥ 0` in every branch; the other two clauses whenever the branch is not "cannot be
satisfied" (`min ≥ 0`), which is exactly where the library warns. -/
theorem addLtZero_sem {st : St} {P : Poly} {lam : Rat} {lt : Bool} {b : Option Rat × Option Rat} {sup : Bool}
    (hlam : 0 < lam) (hint : IntValued P) (hnz : NoZero P) (hnd : (keys P).Nodup) (hb : ValidBounds P b)
    (hbel : Below (ANC + st.anc) P) :
    (∀ s, IsBool s → 0 ≤ FPen st (addLtZero st P lam lt b sup) s) ∧
    (¬ (getBounds P b).1 ≥ 0 → Sem (fun v => v < 0) st (addLtZero st P lam lt b sup) P lam) := by
  have hbd : ∀ x, IsBool x → (getBounds P b).1 ≤ eval x P ∧ eval x P ≤ (getBounds P b).2 :=
    fun x hx => getBounds_sound hb hx
  rcases addLtZero_cases st P lam lt b sup with ⟨h0, _⟩ | ⟨_, c1, h⟩ | ⟨_, c1, c2, h⟩ | ⟨_, c1, c2, h⟩
  · exact absurd h0 (ne_of_gt hlam)
  · rw [h]
    refine ⟨fun x hx => ?_, fun hc => absurd c1 hc⟩
    simp only [FPen, St.tag_terms, St.plus_terms, St.warn_terms, St.append_terms, eval_iaddB hx, eval_scaleB hx]
    have := (hbd x hx).1
    nlinarith
  · rw [h]
    have hF : ∀ x, FPen st (((st.append .lt P).warn sup "always").tag "lt-always") x = 0 := by
      intro x; simp [FPen]
    refine ⟨fun x _ => by rw [hF], fun _ => ⟨fun x _ => by rw [hF], fun x hx _ => ⟨x, fun _ _ => rfl, hx, hF x⟩,
      fun x hx hr => ?_⟩⟩
    exact absurd (lt_of_le_of_lt (hbd x hx).2 c2) hr
  · rw [h]
    have hint' : IntValued (addConstB P 1) := by
      intro x hx
      obtain ⟨k, hk⟩ := hint x hx
      exact ⟨k + 1, by rw [eval_addConstB hx, hk]; push_cast; ring⟩
    have hb' : ValidBounds (addConstB P 1) (some ((getBounds P b).1 + 1), some ((getBounds P b).2 + 1)) := by
      apply validBounds_some
      intro x hx
      have := hbd x hx
      rw [eval_addConstB hx]; constructor <;> linarith
    have L := addLeZero_sem (st := st.append .lt P) (lt := lt) (sup := true) hlam hint' (noZero_addConstB 1 hnz)
      (nodup_addConstB P 1 hnd) hb' (labelsIn_addConstB _ hbel)
    have L' : Sem (fun v => v < 0) st
        (((addLeZero (st.append .lt P) (addConstB P 1) lam lt
          (some ((getBounds P b).1 + 1), some ((getBounds P b).2 + 1)) true).pop .le).tag "lt-shift") P lam := by
      refine (L.transfer (P' := P) (R' := fun v => v < 0) (fun x hx => ?_)).congr rfl rfl rfl rfl
      rw [eval_addConstB hx]
      constructor
      · intro hv
        have := int_neg_le_neg_one (hint x hx) hv
        show eval x P + 1 ≤ 0
        linarith
      · intro hv
        have hv : eval x P + 1 ≤ 0 := hv
        show eval x P < 0
        linarith
    exact ⟨L'.nonneg, fun _ => L'⟩

/-! ## `add_constraint_gt_zero` and `add_constraint_ge_zero` -/

theorem addGtZero_eq (st : St) (P : Poly) (lam : Rat) (lt : Bool) (b : Option Rat × Option Rat) (sup : Bool)
    (hl : lam ≠ 0) :
    addGtZero st P lam lt b sup = (addLtZero (st.append .gt P) (scaleB (-1) P) lam lt
      (some (-(getBounds P b).2), some (-(getBounds P b).1)) sup).pop .lt := by
  unfold addGtZero
  simp only []
  rw [if_neg hl]

theorem addGeZero_eq (st : St) (P : Poly) (lam : Rat) (lt : Bool) (b : Option Rat × Option Rat) (sup : Bool)
    (hl : lam ≠ 0) :
    addGeZero st P lam lt b sup = (addLeZero (st.append .ge P) (scaleB (-1) P) lam lt
      (some (-(getBounds P b).2), some (-(getBounds P b).1)) sup).pop .le := by
  unfold addGeZero
  simp only []
  rw [if_neg hl]

theorem addGtZero_book (st : St) (P : Poly) (lam : Rat) (lt : Bool) (b : Option Rat × Option Rat) (sup : Bool) :
    (addGtZero st P lam lt b sup).cons = st.cons ++ [(.gt, P)] ∧ Struct st (addGtZero st P lam lt b sup) P := by
  by_cases hl : lam = 0
  · have : addGtZero st P lam lt b sup = st.append .gt P := by unfold addGtZero; simp only []; rw [if_pos hl]
    rw [this]; exact ⟨rfl, Struct.refl_of P rfl rfl⟩
  · rw [addGtZero_eq st P lam lt b sup hl]
    obtain ⟨h1, h2⟩ := addLtZero_book (st.append .gt P) (scaleB (-1) P) lam lt
      (some (-(getBounds P b).2), some (-(getBounds P b).1)) sup
    refine ⟨?_, ?_⟩
    · rw [St.pop_cons, h1, popLast_append]; rfl
    · exact (h2.transfer (fun V hV => labelsIn_scaleB _ hV)).congr rfl rfl rfl rfl

theorem addGeZero_book (st : St) (P : Poly) (lam : Rat) (lt : Bool) (b : Option Rat × Option Rat) (sup : Bool) :
    (addGeZero st P lam lt b sup).cons = st.cons ++ [(.ge, P)] ∧ Struct st (addGeZero st P lam lt b sup) P := by
  by_cases hl : lam = 0
  · have : addGeZero st P lam lt b sup = st.append .ge P := by unfold addGeZero; simp only []; rw [if_pos hl]
    rw [this]; exact ⟨rfl, Struct.refl_of P rfl rfl⟩
  · rw [addGeZero_eq st P lam lt b sup hl]
    obtain ⟨h1, h2⟩ := addLeZero_book (st.append .ge P) (scaleB (-1) P) lam lt
      (some (-(getBounds P b).2), some (-(getBounds P b).1)) sup
    refine ⟨?_, ?_⟩
    · rw [St.pop_cons, h1, popLast_append]; rfl
    · exact (h2.transfer (fun V hV => labelsIn_scaleB _ hV)).congr rfl rfl rfl rfl

theorem neg_hyps {P : Poly} {b : Option Rat × Option Rat} (hint : IntValued P) (hb : ValidBounds P b) :
    IntValued (scaleB (-1) P) ∧
    ValidBounds (scaleB (-1) P) (some (-(getBounds P b).2), some (-(getBounds P b).1)) := by
  constructor
  · intro x hx
    obtain ⟨k, hk⟩ := hint x hx
    exact ⟨-k, by rw [eval_scaleB hx, hk]; push_cast; ring⟩
  · apply validBounds_some
    intro x hx
    have := getBounds_sound hb hx
    rw [eval_scaleB hx]; constructor <;> linarith

theorem addGtZero_warns (st : St) (P : Poly) (lam : Rat) (lt : Bool) (b : Option Rat × Option Rat)
    (hl : lam ≠ 0) (h : (getBounds P b).2 ≤ 0) :
    (addGtZero st P lam lt b false).warns = st.warns ++ ["unsat"] := by
  rw [addGtZero_eq st P lam lt b false hl, St.pop_warns, addLtZero_warns _ _ _ _ _ hl]
  · rfl
  · simp only [getBounds_some]; linarith

/-- **gt.**  `F ≥ 0` always; the other clauses unless `max ≤ 0` (where the library warns). -/
theorem addGtZero_sem {st : St} {P : Poly} {lam : Rat} {lt : Bool} {b : Option Rat × Option Rat} {sup : Bool}
    (hlam : 0 < lam) (hint : IntValued P) (hb : ValidBounds P b) (hbel : Below (ANC + st.anc) P) :
    (∀ s, IsBool s → 0 ≤ FPen st (addGtZero st P lam lt b sup) s) ∧
    (¬ (getBounds P b).2 ≤ 0 → Sem (fun v => v > 0) st (addGtZero st P lam lt b sup) P lam) := by
  rw [addGtZero_eq st P lam lt b sup (ne_of_gt hlam)]
  obtain ⟨hint', hb'⟩ := neg_hyps hint hb
  obtain ⟨L1, L2⟩ := addLtZero_sem (st := st.append .gt P) (lt := lt) (sup := sup) hlam hint' (noZero_scaleB _ _)
    (nodup_scaleB _ _) hb' (labelsIn_scaleB _ hbel)
  refine ⟨fun s hs => ?_, fun hc => ?_⟩
  · have := L1 s hs
    simpa [FPen] using this
  · have L := L2 (by simp only [getBounds_some]; intro h; apply hc; linarith)
    refine (L.transfer (P' := P) (R' := fun v => v > 0) (fun x hx => ?_)).congr rfl rfl rfl rfl
    rw [eval_scaleB hx]
    constructor
    · intro hv; have hv : eval x P > 0 := hv; show -1 * eval x P < 0; linarith
    · intro hv; have hv : -1 * eval x P < 0 := hv; show eval x P > 0; linarith

/-- **ge.**  All three clauses in every branch. -/
theorem addGeZero_sem {st : St} {P : Poly} {lam : Rat} {lt : Bool} {b : Option Rat × Option Rat} {sup : Bool}
    (hlam : 0 < lam) (hint : IntValued P) (hb : ValidBounds P b) (hbel : Below (ANC + st.anc) P) :
    Sem (fun v => v ≥ 0) st (addGeZero st P lam lt b sup) P lam := by
  rw [addGeZero_eq st P lam lt b sup (ne_of_gt hlam)]
  obtain ⟨hint', hb'⟩ := neg_hyps hint hb
  have L := addLeZero_sem (st := st.append .ge P) (lt := lt) (sup := sup) hlam hint' (noZero_scaleB _ _)
    (nodup_scaleB _ _) hb' (labelsIn_scaleB _ hbel)
  refine (L.transfer (P' := P) (R' := fun v => v ≥ 0) (fun x hx => ?_)).congr rfl rfl rfl rfl
  rw [eval_scaleB hx]
  constructor
  · intro hv; have hv : eval x P ≥ 0 := hv; show -1 * eval x P ≤ 0; linarith
  · intro hv; have hv : -1 * eval x P ≤ 0 := hv; show eval x P ≥ 0; linarith

end Qv.PcboP
