import Qv.Model.ArithOps
import Qv.Proofs.Book
/-!
# Proofs.ArithOpsBridge — the whole-operator model `Qv.ArithOps` (object level, `Qv.Book`) against the term-level operators
of `Qv/Model/Arith.lean` that C05's theorems (`run`, `Val.add … Val.pow`) are about

* the item loops never read `_ancilla` / `_constraints`: they commute with setting these two fields (`loop_withAC`); this is
  what makes `PCBO.__imul__`'s save / restore around `DictArithmetic.__imul__` equal to `Book.imulD Fix.fixed` (D2, 8d2eba8);
* the TERMS of `iaddLoop`, `isubLoop`, `scaleLoop .mul`, `Book.imulD`, `Book.copy` are `iaddD`, `isubD`, `imulC`, `imulD`,
  `construct` of `Arith.lean` on the receiver's terms with `sq = squash kind` (same result or same exception).
-/
namespace Qv.ArithOps
open Qv Qv.Book

/-- setting the two constraint fields -/
def withAC (a : Nat) (c : List (Rel × Poly)) (s : State) : State := { s with ancilla := a, constraints := c }

theorem withAC_self (s : State) : withAC s.ancilla s.constraints s = s := rfl

theorem addVar_withAC (a : Nat) (c : List (Rel × Poly)) (s : State) (i : Var) :
    addVar (withAC a c s) i = withAC a c (addVar s i) := by
  unfold addVar
  show (if s.variables.contains i = true then withAC a c s else _) = _
  split <;> rfl

theorem foldl_addVar_withAC (a : Nat) (c : List (Rel × Poly)) (k : Key) : ∀ s : State,
    k.foldl addVar (withAC a c s) = withAC a c (k.foldl addVar s) := by
  induction k with
  | nil => intro s; rfl
  | cons i r ih => intro s; simp only [List.foldl_cons, addVar_withAC, ih]

theorem matSet_withAC (a : Nat) (c : List (Rel × Poly)) (s : State) (k : Key) (v : Rat) :
    matSet (withAC a c s) k v = (matSet s k v).map (withAC a c) := by
  unfold matSet
  show (squash s.kind k >>= _) = _
  cases squash s.kind k with
  | error e => rfl
  | ok k' =>
    simp only [bind, Except.bind, pure, Except.pure, Except.map]
    by_cases hv : v = 0
    · simp [hv, withAC]
    · simp only [hv, if_false]
      have : ({ withAC a c s with degree := maxDeg (withAC a c s).degree k'.length } : State)
          = withAC a c { s with degree := maxDeg s.degree k'.length } := rfl
      rw [this, foldl_addVar_withAC]
      rfl

theorem regLabel_withAC (a : Nat) (c : List (Rel × Poly)) (s : State) (i : Var) :
    regLabel (withAC a c s) i = withAC a c (regLabel s i) := by
  by_cases h : (mapDom s).contains i = true <;> simp [regLabel, mapDom, withAC, h] <;> simp_all [mapDom]

theorem regLabels_withAC (fx : Fix) (a : Nat) (c : List (Rel × Poly)) (k : Key) : ∀ s : State,
    regLabels fx (withAC a c s) k = withAC a c (regLabels fx s k) := by
  unfold regLabels
  induction k with
  | nil => intro s; rfl
  | cons i r ih =>
    intro s
    simp only [List.foldl_cons]
    have : (if (fx.d1 && !(withAC a c s).variables.contains i) = true then withAC a c s else regLabel (withAC a c s) i)
        = withAC a c (if (fx.d1 && !s.variables.contains i) = true then s else regLabel s i) := by
      rw [regLabel_withAC]
      show (if (fx.d1 && !s.variables.contains i) = true then _ else _) = _
      split <;> rfl
    rw [this, ih]

theorem setitem_withAC (fx : Fix) (a : Nat) (c : List (Rel × Poly)) (s : State) (k : Key) (v : Rat) :
    setitem fx (withAC a c s) k v = (setitem fx s k v).map (withAC a c) := by
  unfold setitem
  rw [matSet_withAC]
  cases matSet s k v with
  | error e => rfl
  | ok m =>
    simp only [Except.map, bind, Except.bind, pure, Except.pure]
    show Except.ok (if hasBO s.kind = true then _ else _) = _
    split
    · rw [regLabels_withAC]
    · rfl

theorem augitem_withAC (fx : Fix) (a : Nat) (c : List (Rel × Poly)) (s : State) (k : Key) (g : Aug) (d : Rat) :
    augitem fx (withAC a c s) k g d = (augitem fx s k g d).map (withAC a c) := by
  unfold augitem
  show (squash s.kind k >>= _) = _
  cases squash s.kind k with
  | error e => rfl
  | ok k' =>
    simp only [bind, Except.bind]
    have ht : (withAC a c s).terms = s.terms := rfl
    rw [ht]
    cases augVal g (get s.terms k') d with
    | error e => rfl
    | ok new => exact setitem_withAC fx a c s k new

/-- an item loop commutes with setting `_ancilla` / `_constraints` -/
theorem loop_withAC {α : Type} (f : State → α → Except Err State) (a : Nat) (c : List (Rel × Poly))
    (hf : ∀ s x, f (withAC a c s) x = (f s x).map (withAC a c)) : ∀ (l : List α) (s : State),
    loop f (withAC a c s) l = (withAC a c (loop f s l).1, (loop f s l).2) := by
  intro l
  induction l with
  | nil => intro s; rfl
  | cons x r ih =>
    intro s
    simp only [loop, hf]
    cases f s x with
    | error e => rfl
    | ok s' => simp only [Except.map]; exact ih s'

theorem toExcept_withAC {α : Type} (f : State → α → Except Err State) (a : Nat) (c : List (Rel × Poly))
    (hf : ∀ s x, f (withAC a c s) x = (f s x).map (withAC a c)) (l : List α) (s : State) :
    toExcept (loop f (withAC a c s) l) = (toExcept (loop f s l)).map (withAC a c) := by
  rw [loop_withAC f a c hf]
  generalize loop f s l = r
  obtain ⟨t, e⟩ := r
  cases e <;> rfl

theorem iaddLoop_withAC (fx : Fix) (a : Nat) (c : List (Rel × Poly)) (s : State) (q : Poly) :
    toExcept (iaddLoop fx (withAC a c s) q) = (toExcept (iaddLoop fx s q)).map (withAC a c) :=
  toExcept_withAC _ a c (fun s kv => augitem_withAC fx a c s kv.1 .add kv.2) q s

theorem scaleLoop_withAC (fx : Fix) (a : Nat) (c : List (Rel × Poly)) (s : State) (g : Aug) (d : Rat) :
    toExcept (scaleLoop fx (withAC a c s) g d) = (toExcept (scaleLoop fx s g d)).map (withAC a c) :=
  toExcept_withAC _ a c (fun s k => augitem_withAC fx a c s k g d) _ s

/-- `PCBO.__imul__`: running `DictArithmetic.__imul__` (which clears everything) and putting the saved `_ancilla` /
`_constraints` back is `ArithOps.imul` (= `Book.imulD Fix.fixed` for a dict operand) -/
theorem imul_eq_base (s : State) (o : Operand) :
    imul Fix.fixed s o = (imulBase Fix.fixed s o).map (withAC s.ancilla s.constraints) := by
  cases o with
  | num c =>
    show toExcept (scaleLoop Fix.fixed s .mul c) = _
    have := scaleLoop_withAC Fix.fixed s.ancilla s.constraints s .mul c
    rw [withAC_self] at this
    exact this
  | dict q => exact iaddLoop_withAC Fix.fixed s.ancilla s.constraints (Book.clear s) (products s.terms q)
  | self => exact iaddLoop_withAC Fix.fixed s.ancilla s.constraints (Book.clear s) (products s.terms s.terms)

/-! ## terms: the object-level loops against `Qv/Model/Arith.lean` -/

theorem augitem_terms_add (fx : Fix) (s : State) (k : Key) (v : Rat) :
    (augitem fx s k .add v).map (·.terms) = addTerm (squash s.kind) s.terms k v ∧
    ∀ s', augitem fx s k .add v = .ok s' → s'.kind = s.kind := by
  unfold augitem addTerm
  cases hk : squash s.kind k with
  | error e => exact ⟨rfl, fun s' h => by cases h⟩
  | ok k' =>
    simp only [augVal, bind, Except.bind, pure, Except.pure]
    cases hs : setitem fx s k (get s.terms k' + v) with
    | error e =>
      exfalso
      unfold setitem matSet at hs
      simp [hk, bind, Except.bind, pure, Except.pure] at hs
    | ok s' =>
      obtain ⟨k'', hk2, ht⟩ := setitem_terms hs
      rw [hk] at hk2
      injection hk2 with hk2
      subst hk2
      exact ⟨by simp [Except.map, ht], fun t h => by injection h with h; subst h; exact setitem_kind hs⟩

/-- the terms of `for k, v in q: self[k] += v` are `iaddD` of the receiver's terms -/
theorem iaddLoop_terms (fx : Fix) : ∀ (q : Poly) (s : State),
    (toExcept (iaddLoop fx s q)).map (·.terms) = iaddD (squash s.kind) s.terms q := by
  intro q
  induction q with
  | nil => intro s; rfl
  | cons kv r ih =>
    intro s
    obtain ⟨k, v⟩ := kv
    obtain ⟨h1, h2⟩ := augitem_terms_add fx s k v
    simp only [iaddLoop, loop, iaddD]
    cases ha : augitem fx s k .add v with
    | error e =>
      rw [ha] at h1
      simp only [Except.map] at h1
      rw [← h1]; rfl
    | ok s' =>
      rw [ha] at h1
      simp only [Except.map] at h1
      rw [← h1]
      simp only [bind, Except.bind]
      have := ih s'
      rw [h2 s' ha] at this
      exact this

/-- the terms of `self.copy()` are `construct` (the copy constructor's `self[key] += value` loop on an empty object) -/
theorem copy_terms (fx : Fix) (s : State) :
    (copy fx s).map (·.terms) = construct (squash s.kind) s.terms := by
  have : (toExcept (iaddLoop fx (init s.kind) s.terms)).map (·.terms) = iaddD (squash s.kind) [] s.terms :=
    iaddLoop_terms fx s.terms (init s.kind)
  unfold copy Book.copy construct
  rw [← this]
  generalize iaddLoop fx (init s.kind) s.terms = r
  obtain ⟨t, e⟩ := r
  cases e <;> rfl

theorem augitem_kind {fx : Fix} {s s' : State} {k : Key} {a : Aug} {d : Rat} (h : augitem fx s k a d = .ok s') :
    s'.kind = s.kind := by
  simp only [augitem, bind_ok_iff] at h
  obtain ⟨k', _, new, _, h⟩ := h
  exact setitem_kind h

theorem loop_kind {α : Type} (f : State → α → Except Err State) (hf : ∀ s x s', f s x = .ok s' → s'.kind = s.kind) :
    ∀ (l : List α) (s : State), (loop f s l).1.kind = s.kind := by
  intro l
  induction l with
  | nil => intro s; rfl
  | cons x r ih =>
    intro s
    simp only [loop]
    cases hx : f s x with
    | error e => rfl
    | ok s' => exact (ih s').trans (hf s x s' hx)

theorem copy_kind (fx : Fix) (s d : State) (h : copy fx s = .ok d) : d.kind = s.kind := by
  unfold copy Book.copy at h
  have hk := loop_kind (fun s kv => augitem fx s kv.1 .add kv.2) (fun s x s' h => augitem_kind h) s.terms (init s.kind)
  change (iaddLoop fx (init s.kind) s.terms).1.kind = s.kind at hk
  generalize iaddLoop fx (init s.kind) s.terms = r at h hk
  obtain ⟨t, e⟩ := r
  cases e with
  | none => simp only [toExcept] at h; injection h with h; subst h; exact hk
  | some e => simp [toExcept] at h

/-- what `self *= dict` leaves of the receiver besides the terms and caches: class, counter and constraints -/
theorem imulD_fields (s : State) (q : Poly) :
    (Book.imulD Fix.fixed s q).1.kind = s.kind ∧ (Book.imulD Fix.fixed s q).1.ancilla = s.ancilla ∧
    (Book.imulD Fix.fixed s q).1.constraints = s.constraints := by
  have e : Book.imulD Fix.fixed s q
      = loop (fun s kv => augitem Fix.fixed s kv.1 .add kv.2) (withAC s.ancilla s.constraints (init s.kind)) (products s.terms q) := rfl
  rw [e, loop_withAC _ _ _ (fun s kv => augitem_withAC Fix.fixed _ _ s kv.1 .add kv.2)]
  refine ⟨?_, rfl, rfl⟩
  exact loop_kind _ (fun s x s' h => augitem_kind h) _ (init s.kind)

/-! ## C05's level: the copying operators against `Val.add` / `Val.sub` of `Qv/Model/Expr.lean` (what `run` executes) -/

theorem augitem_terms_sub (fx : Fix) (s : State) (k : Key) (v : Rat) :
    (augitem fx s k .sub v).map (·.terms) = addTerm (squash s.kind) s.terms k (-v) ∧
    ∀ s', augitem fx s k .sub v = .ok s' → s'.kind = s.kind := by
  refine ⟨?_, fun s' h => augitem_kind h⟩
  unfold augitem addTerm
  cases hk : squash s.kind k with
  | error e => rfl
  | ok k' =>
    simp only [augVal, bind, Except.bind, pure, Except.pure]
    cases hs : setitem fx s k (get s.terms k' - v) with
    | error e =>
      exfalso
      unfold setitem matSet at hs
      simp [hk, bind, Except.bind, pure, Except.pure] at hs
    | ok s' =>
      obtain ⟨k'', hk2, ht⟩ := setitem_terms hs
      rw [hk] at hk2
      injection hk2 with hk2
      subst hk2
      simp [Except.map, ht, Rat.sub_eq_add_neg]

/-- the terms of `for k, v in q: self[k] -= v` are `isubD` of the receiver's terms -/
theorem isubLoop_terms (fx : Fix) : ∀ (q : Poly) (s : State),
    (toExcept (isubLoop fx s q)).map (·.terms) = isubD (squash s.kind) s.terms q := by
  intro q
  induction q with
  | nil => intro s; rfl
  | cons kv r ih =>
    intro s
    obtain ⟨k, v⟩ := kv
    obtain ⟨h1, h2⟩ := augitem_terms_sub fx s k v
    simp only [isubLoop, loop, isubD]
    cases ha : augitem fx s k .sub v with
    | error e =>
      rw [ha] at h1
      simp only [Except.map] at h1
      rw [← h1]; rfl
    | ok s' =>
      rw [ha] at h1
      simp only [Except.map] at h1
      rw [← h1]
      simp only [bind, Except.bind]
      have := ih s'
      rw [h2 s' ha] at this
      exact this

/-- the right operand as a value of C05's expression model: a number, a plain dict, or (the receiver) a model -/
def Operand.toVal (s : State) : Operand → Val
  | .num c => .num c
  | .dict q => .raw q
  | .self => .mdl s.kind s.terms

theorem map_terms_mdl {X : Except Err State} {Y : Except Err Poly} (κ : Kind) (h : X.map (·.terms) = Y) :
    X.map (fun d => Val.mdl κ d.terms) = Y.map (Val.mdl κ) := by
  subst h
  cases X <;> rfl

/-- **C05 chain, `+`**: the object-level `self + other` (what the generated `__add__` equals) has the class of `self` and the
terms `Val.add` computes — `Val.add` is what `run` executes at a `+` node, and `run` is what C05's `tree_value`,
`tree_canonical`, `equal_functions_equal_dicts`, `add_kind`, `add_keyerror_iff` … are about -/
theorem add_val (fx : Fix) (s : State) (o : Operand) :
    (add fx s o).map (fun d => Val.mdl s.kind d.terms) = Val.add (.mdl s.kind s.terms) (o.toVal s) := by
  have hc := copy_terms fx s
  unfold add
  cases hcp : copy fx s with
  | error e =>
    rw [hcp] at hc
    simp only [Except.map] at hc
    cases o <;> simp [Val.add, Operand.toVal, ← hc, bind, Except.bind, Except.map]
  | ok d =>
    rw [hcp] at hc
    simp only [Except.map] at hc
    have hk := copy_kind fx s d hcp
    simp only [bind, Except.bind]
    cases o with
    | num c =>
      have h := (augitem_terms_add fx d [] c).1
      rw [hk] at h
      simp only [Operand.resolve, iadd, Operand.toVal, Val.add, ← hc, bind, Except.bind, pure, Except.pure, iaddC]
      rw [map_terms_mdl s.kind h]
      cases addTerm (squash s.kind) d.terms [] c <;> rfl
    | dict q =>
      have h := iaddLoop_terms fx q d
      rw [hk] at h
      simp only [Operand.resolve, iadd, Operand.toVal, Val.add, ← hc, bind, Except.bind, pure, Except.pure]
      rw [map_terms_mdl s.kind h]
      cases iaddD (squash s.kind) d.terms q <;> rfl
    | self =>
      have h := iaddLoop_terms fx s.terms d
      rw [hk] at h
      simp only [Operand.resolve, iadd, Operand.toVal, Val.add, ← hc, bind, Except.bind, pure, Except.pure]
      rw [map_terms_mdl s.kind h]
      cases iaddD (squash s.kind) d.terms s.terms <;> rfl

/-- **C05 chain, `-`** -/
theorem sub_val (fx : Fix) (s : State) (o : Operand) :
    (sub fx s o).map (fun d => Val.mdl s.kind d.terms) = Val.sub (.mdl s.kind s.terms) (o.toVal s) := by
  have hc := copy_terms fx s
  unfold sub
  cases hcp : copy fx s with
  | error e =>
    rw [hcp] at hc
    simp only [Except.map] at hc
    cases o <;> simp [Val.sub, Operand.toVal, ← hc, bind, Except.bind, Except.map]
  | ok d =>
    rw [hcp] at hc
    simp only [Except.map] at hc
    have hk := copy_kind fx s d hcp
    simp only [bind, Except.bind]
    cases o with
    | num c =>
      have h := (augitem_terms_sub fx d [] c).1
      rw [hk] at h
      simp only [Operand.resolve, isub, Operand.toVal, Val.sub, ← hc, bind, Except.bind, pure, Except.pure, iaddC]
      rw [map_terms_mdl s.kind h]
      cases addTerm (squash s.kind) d.terms [] (-c) <;> rfl
    | dict q =>
      have h := isubLoop_terms fx q d
      rw [hk] at h
      simp only [Operand.resolve, isub, Operand.toVal, Val.sub, ← hc, bind, Except.bind, pure, Except.pure]
      rw [map_terms_mdl s.kind h]
      cases isubD (squash s.kind) d.terms q <;> rfl
    | self =>
      have h := isubLoop_terms fx s.terms d
      rw [hk] at h
      simp only [Operand.resolve, isub, Operand.toVal, Val.sub, ← hc, bind, Except.bind, pure, Except.pure]
      rw [map_terms_mdl s.kind h]
      cases isubD (squash s.kind) d.terms s.terms <;> rfl

/-! ### `*` -/

theorem augitem_terms_mul (fx : Fix) (s : State) (k : Key) (c : Rat) :
    (augitem fx s k .mul c).map (·.terms) = mulItem (squash s.kind) s.terms k c := by
  unfold augitem mulItem
  cases hk : squash s.kind k with
  | error e => rfl
  | ok k' =>
    simp only [augVal, bind, Except.bind, pure, Except.pure]
    cases hs : setitem fx s k (get s.terms k' * c) with
    | error e =>
      exfalso
      unfold setitem matSet at hs
      simp [hk, bind, Except.bind, pure, Except.pure] at hs
    | ok s' =>
      obtain ⟨k'', hk2, ht⟩ := setitem_terms hs
      rw [hk] at hk2
      injection hk2 with hk2
      subst hk2
      simp [Except.map, ht]

theorem scaleKeys_terms (fx : Fix) (c : Rat) : ∀ (ks : List Key) (s : State),
    (toExcept (loop (fun s k => augitem fx s k .mul c) s ks)).map (·.terms) = scaleKeys (squash s.kind) s.terms ks c := by
  intro ks
  induction ks with
  | nil => intro s; rfl
  | cons k r ih =>
    intro s
    have h1 := augitem_terms_mul fx s k c
    simp only [loop, scaleKeys]
    cases ha : augitem fx s k .mul c with
    | error e =>
      rw [ha] at h1
      simp only [Except.map] at h1
      rw [← h1]; rfl
    | ok s' =>
      rw [ha] at h1
      simp only [Except.map] at h1
      rw [← h1]
      simp only [bind, Except.bind]
      have := ih s'
      rw [augitem_kind ha] at this
      exact this

/-- the terms of `for k in tuple(self.keys()): self[k] *= c` are `imulC` -/
theorem scaleLoop_terms (fx : Fix) (s : State) (c : Rat) :
    (toExcept (scaleLoop fx s .mul c)).map (·.terms) = imulC (squash s.kind) s.terms c :=
  scaleKeys_terms fx c _ s

theorem iaddD_append (sq : Sq) : ∀ (a b acc : Poly),
    iaddD sq acc (a ++ b) = (iaddD sq acc a >>= fun acc' => iaddD sq acc' b) := by
  intro a
  induction a with
  | nil => intro b acc; rfl
  | cons kv r ih =>
    intro b acc
    obtain ⟨k, v⟩ := kv
    simp only [List.cons_append, iaddD]
    cases addTerm sq acc k v with
    | error e => rfl
    | ok acc' => exact ih b acc'

theorem mulRow_iaddD (sq : Sq) (k : Key) (v : Rat) : ∀ (q acc : Poly),
    mulRow sq acc k v q = iaddD sq acc (q.map (fun kvo => (k ++ kvo.1, v * kvo.2))) := by
  intro q
  induction q with
  | nil => intro acc; rfl
  | cons kvo r ih =>
    intro acc
    obtain ⟨ko, vo⟩ := kvo
    simp only [mulRow, List.map_cons, iaddD]
    cases addTerm sq acc (k ++ ko) (v * vo) with
    | error e => rfl
    | ok acc' => exact ih acc'

/-- the double loop of the term-level `imulD` adds the pairs of `Book.products` in order -/
theorem mulRows_iaddD (sq : Sq) (q : Poly) : ∀ (p acc : Poly),
    mulRows sq acc p q = iaddD sq acc (products p q) := by
  intro p
  induction p with
  | nil => intro acc; rfl
  | cons kv r ih =>
    intro acc
    obtain ⟨k, v⟩ := kv
    have e : products ((k, v) :: r) q = q.map (fun kvo => (k ++ kvo.1, v * kvo.2)) ++ products r q := by
      simp [products, List.flatMap_cons]
    rw [e, iaddD_append, ← mulRow_iaddD]
    simp only [mulRows]
    cases mulRow sq acc k v q with
    | error e => rfl
    | ok acc' => exact ih acc'

/-- the terms of `self *= dict` (`Book.imulD`: snapshot, clear, double loop) are the term-level `imulD` -/
theorem imulD_terms (s : State) (q : Poly) :
    (toExcept (Book.imulD Fix.fixed s q)).map (·.terms) = Qv.imulD (squash s.kind) s.terms q := by
  have := iaddLoop_terms Fix.fixed (products s.terms q) (clearForMul Fix.fixed s)
  unfold Qv.imulD
  rw [mulRows_iaddD]
  exact this

/-- **C05 chain, `*`** -/
theorem mul_val (s : State) (o : Operand) :
    (mul Fix.fixed s o).map (fun d => Val.mdl s.kind d.terms) = Val.mul (.mdl s.kind s.terms) (o.toVal s) := by
  have hc := copy_terms Fix.fixed s
  unfold mul
  cases hcp : copy Fix.fixed s with
  | error e =>
    rw [hcp] at hc
    simp only [Except.map] at hc
    cases o <;> simp [Val.mul, mulModel, Operand.toVal, ← hc, bind, Except.bind, Except.map]
  | ok d =>
    rw [hcp] at hc
    simp only [Except.map] at hc
    have hk := copy_kind Fix.fixed s d hcp
    simp only [bind, Except.bind]
    cases o with
    | num c =>
      have h := scaleLoop_terms Fix.fixed d c
      rw [hk] at h
      simp only [Operand.resolve, imul, Operand.toVal, Val.mul, mulModel, ← hc, bind, Except.bind, pure, Except.pure]
      rw [map_terms_mdl s.kind h]
      cases imulC (squash s.kind) d.terms c <;> rfl
    | dict q =>
      have h := imulD_terms d q
      rw [hk] at h
      simp only [Operand.resolve, imul, Operand.toVal, Val.mul, mulModel, ← hc, bind, Except.bind, pure, Except.pure]
      rw [map_terms_mdl s.kind h]
      cases Qv.imulD (squash s.kind) d.terms q <;> rfl
    | self =>
      have h := imulD_terms d s.terms
      rw [hk] at h
      simp only [Operand.resolve, imul, Operand.toVal, Val.mul, mulModel, ← hc, bind, Except.bind, pure, Except.pure]
      rw [map_terms_mdl s.kind h]
      cases Qv.imulD (squash s.kind) d.terms s.terms <;> rfl

theorem scaleLoop_kind (fx : Fix) (s : State) (a : Aug) (c : Rat) : (scaleLoop fx s a c).1.kind = s.kind :=
  loop_kind _ (fun s x s' h => augitem_kind h) _ s

theorem mul_num_kind (fx : Fix) (s t : State) (c : Rat) (h : mul fx s (.num c) = .ok t) : t.kind = s.kind := by
  unfold mul at h
  cases hcp : copy fx s with
  | error e => rw [hcp] at h; cases h
  | ok d =>
    rw [hcp] at h
    have hk := copy_kind fx s d hcp
    have hs := scaleLoop_kind fx d .mul c
    change toExcept (scaleLoop fx d .mul c) = .ok t at h
    generalize scaleLoop fx d .mul c = r at h hs
    obtain ⟨u, e⟩ := r
    cases e with
    | some e => simp [toExcept] at h
    | none => simp only [toExcept] at h; injection h with h; subst h; exact hs.trans hk

/-- **C05 chain, reflected `-`** (`1 - x` of the sat gates): a number or plain dict minus a model is `-1*self + other` -/
theorem rsub_val (s : State) (o : Operand) (ho : o ≠ .self) :
    (rsub Fix.fixed s o).map (fun d => Val.mdl s.kind d.terms) = Val.sub (o.toVal s) (.mdl s.kind s.terms) := by
  have hm := mul_val s (.num (-1))
  unfold rsub rmul
  have hv : Val.sub (o.toVal s) (.mdl s.kind s.terms)
      = (mulModel s.kind s.terms (.num (-1)) >>= fun m => Val.add m (o.toVal s)) := by
    cases o <;> first | rfl | exact absurd rfl ho
  rw [hv]
  cases hmul : mul Fix.fixed s (.num (-1)) with
  | error e =>
    rw [hmul] at hm
    simp only [Except.map, Operand.toVal, Val.mul] at hm
    rw [← hm]; rfl
  | ok t =>
    rw [hmul] at hm
    simp only [Except.map, Operand.toVal, Val.mul] at hm
    rw [← hm]
    simp only [bind, Except.bind]
    have hk := mul_num_kind Fix.fixed s t (-1) hmul
    have ha := add_val Fix.fixed t (o.resolve s)
    rw [hk] at ha
    have e : (o.resolve s).toVal t = o.toVal s := by cases o <;> first | rfl | exact absurd rfl ho
    rw [e] at ha
    exact ha

/-- a model as right operand of a model acts through its items, like a plain dict (`isinstance(other, dict)`) -/
theorem val_mdl_right (κ κ2 : Kind) (p q : Poly) :
    Val.add (.mdl κ p) (.mdl κ2 q) = Val.add (.mdl κ p) (.raw q) ∧ Val.sub (.mdl κ p) (.mdl κ2 q) = Val.sub (.mdl κ p) (.raw q)
    ∧ Val.mul (.mdl κ p) (.mdl κ2 q) = Val.mul (.mdl κ p) (.raw q) := ⟨rfl, rfl, rfl⟩

end Qv.ArithOps
