import Qv.Proofs.ProblemsRest
/-!
# JobSequencing: the closed penalty form of `to_qubo` (Lucas 6.3 with the slack register as written)
-/
namespace Qv.Prob
open Qv

/-- `Σ_{a ∈ l} f a` -/
def sumMap {α : Type} : List α → (α → Rat) → Rat
  | [], _ => 0
  | a :: r, f => f a + sumMap r f

theorem sumMap_congr {α : Type} (l : List α) {f g : α → Rat} (h : ∀ a ∈ l, f a = g a) : sumMap l f = sumMap l g := by
  induction l with
  | nil => rfl
  | cons a r ih =>
    simp only [sumMap]
    rw [h a (List.mem_cons_self), ih (fun b hb => h b (List.mem_cons_of_mem _ hb))]

theorem sumMap_add {α : Type} (l : List α) (f g : α → Rat) :
    sumMap l (fun a => f a + g a) = sumMap l f + sumMap l g := by
  induction l with
  | nil => simp [sumMap]
  | cons a r ih => simp only [sumMap, ih]; ring

theorem sumMap_mul_left {α : Type} (l : List α) (c : Rat) (f : α → Rat) :
    sumMap l (fun a => c * f a) = c * sumMap l f := by
  induction l with
  | nil => simp [sumMap]
  | cons a r ih => simp only [sumMap, ih]; ring

theorem sumMap_const {α : Type} (l : List α) (c : Rat) : sumMap l (fun _ => c) = (l.length : Rat) * c := by
  induction l with
  | nil => simp [sumMap]
  | cons a r ih => simp only [sumMap, ih, List.length_cons]; push_cast; ring

/-- `Σ_a Σ_b f a * g b = (Σ f)(Σ g)` -/
theorem sumMap_mul_sumMap {α β : Type} (l : List α) (m : List β) (f : α → Rat) (g : β → Rat) :
    sumMap l (fun a => sumMap m (fun b => f a * g b)) = sumMap l f * sumMap m g := by
  induction l with
  | nil => simp [sumMap]
  | cons a r ih => simp only [sumMap]; rw [ih, sumMap_mul_left]; ring

theorem eval_flatMap {α : Type} (x : Var → Rat) (l : List α) (f : α → Ops) :
    eval x (l.flatMap f) = sumMap l (fun a => eval x (f a)) := by
  induction l with
  | nil => rfl
  | cons a r ih => simp only [List.flatMap_cons, eval_append, ih, sumMap]

theorem eval_mapOps {α : Type} (x : Var → Rat) (l : List α) (f : α → Key × Rat) :
    eval x (l.map f) = sumMap l (fun a => (f a).2 * mon x (f a).1) := by
  induction l with
  | nil => rfl
  | cons a r ih => simp only [List.map_cons, sumMap, ← ih]; rfl

theorem sumMap_mul_right {α : Type} (l : List α) (c : Rat) (f : α → Rat) :
    sumMap l (fun a => f a * c) = sumMap l f * c := by
  induction l with
  | nil => simp [sumMap]
  | cons a r ih => simp only [sumMap, ih]; ring

/-! ## the three blocks of `JobSequencing.to_qubo` -/

/-- number of workers job `j` is assigned to: `Σ_w x_{j,w}` -/
def JS.S (p : JS) (x : Var → Rat) (j : Nat) : Rat := sumMap (List.range p.m) (fun w => x (p.x j w))
/-- value of the slack register of worker `w`: `Σ_n c_n y_{n,w}` (`c_n = 2^n` or `n + 1`) -/
def JS.Y (p : JS) (x : Var → Rat) (w : Nat) : Rat := sumMap (List.range p.maxM) (fun n => p.coef n * x (p.y n w))
/-- `length(worker w) - length(worker 0) = Σ_j L_j (x_{j,w} - x_{j,0})` -/
def JS.D (p : JS) (x : Var → Rat) (w : Nat) : Rat :=
  sumMap p.jobs (fun jl => jl.2 * (x (p.x jl.1 w) - x (p.x jl.1 0)))

theorem js_onehot_row (p : JS) (A : Rat) (x : Var → Rat) (j w : Nat) :
    eval x ((List.range p.m).map (fun wp => ([p.x j w, p.x j wp], A))) = (A * x (p.x j w)) * p.S x j := by
  rw [eval_mapOps, JS.S, ← sumMap_mul_left]
  exact sumMap_congr _ (fun wp _ => by simp only [mon_cons, mon_nil]; ring)

theorem js_onehot (p : JS) (A : Rat) (x : Var → Rat) (j : Nat) :
    eval x ((List.range p.m).flatMap (fun w =>
      [([p.x j w], -(2 * A))] ++ (List.range p.m).map (fun wp => ([p.x j w, p.x j wp], A)))) =
      A * (p.S x j) ^ 2 - 2 * A * p.S x j := by
  rw [eval_flatMap]
  have h1 : ∀ w ∈ List.range p.m,
      eval x ([([p.x j w], -(2 * A))] ++ (List.range p.m).map (fun wp => ([p.x j w, p.x j wp], A))) =
        (A * p.S x j - 2 * A) * x (p.x j w) := by
    intro w _
    rw [eval_append, js_onehot_row]
    simp only [eval_cons, eval_nil, mon_cons, mon_nil]; ring
  rw [sumMap_congr _ h1, sumMap_mul_left]
  simp only [JS.S]; ring

theorem js_coef_mul (p : JS) (A : Rat) (n np : Nat) :
    (if p.logTrick then A * (2 : Rat) ^ (n + np) else A * ((n : Rat) + 1) * ((np : Rat) + 1)) =
      A * p.coef n * p.coef np := by
  unfold JS.coef
  split
  · rw [pow_add]; ring
  · ring

theorem js_reg_row (p : JS) (A : Rat) (x : Var → Rat) (w n : Nat) :
    eval x ((List.range p.maxM).map (fun np => ([p.y n w, p.y np w],
      if p.logTrick then A * (2 : Rat) ^ (n + np) else A * ((n : Rat) + 1) * ((np : Rat) + 1)))) =
      (A * (p.coef n * x (p.y n w))) * p.Y x w := by
  rw [eval_mapOps, JS.Y, ← sumMap_mul_left]
  exact sumMap_congr _ (fun np _ => by simp only [mon_cons, mon_nil, js_coef_mul]; ring)

theorem js_cross_row (p : JS) (A : Rat) (x : Var → Rat) (w n : Nat) :
    eval x (p.jobs.flatMap (fun jl =>
      [([p.y n w, p.x jl.1 w], 2 * A * jl.2 * p.coef n), ([p.y n w, p.x jl.1 0], -(2 * A * jl.2 * p.coef n))])) =
      (2 * A * (p.coef n * x (p.y n w))) * p.D x w := by
  rw [eval_flatMap, JS.D, ← sumMap_mul_left]
  exact sumMap_congr _ (fun jl _ => by simp only [eval_cons, eval_nil, mon_cons, mon_nil]; ring)

theorem js_job_row (p : JS) (A : Rat) (x : Var → Rat) (w : Nat) (jl : Nat × Rat) :
    eval x (p.jobs.flatMap (fun jlp =>
      [([p.x jl.1 w, p.x jlp.1 w], A * jl.2 * jlp.2), ([p.x jl.1 0, p.x jlp.1 0], A * jl.2 * jlp.2),
       ([p.x jl.1 0, p.x jlp.1 w], -(A * jl.2 * jlp.2)), ([p.x jl.1 w, p.x jlp.1 0], -(A * jl.2 * jlp.2))])) =
      (A * (jl.2 * (x (p.x jl.1 w) - x (p.x jl.1 0)))) * p.D x w := by
  rw [eval_flatMap, JS.D, ← sumMap_mul_left]
  exact sumMap_congr _ (fun jlp _ => by simp only [eval_cons, eval_nil, mon_cons, mon_nil]; ring)

theorem js_worker_block (p : JS) (A : Rat) (x : Var → Rat) (w : Nat) :
    eval x ((List.range p.maxM).flatMap (fun n =>
        (List.range p.maxM).map (fun np => ([p.y n w, p.y np w],
          if p.logTrick then A * (2 : Rat) ^ (n + np) else A * ((n : Rat) + 1) * ((np : Rat) + 1))) ++
        p.jobs.flatMap (fun jl =>
          [([p.y n w, p.x jl.1 w], 2 * A * jl.2 * p.coef n), ([p.y n w, p.x jl.1 0], -(2 * A * jl.2 * p.coef n))])) ++
      p.jobs.flatMap (fun jl => p.jobs.flatMap (fun jlp =>
        [([p.x jl.1 w, p.x jlp.1 w], A * jl.2 * jlp.2), ([p.x jl.1 0, p.x jlp.1 0], A * jl.2 * jlp.2),
         ([p.x jl.1 0, p.x jlp.1 w], -(A * jl.2 * jlp.2)), ([p.x jl.1 w, p.x jlp.1 0], -(A * jl.2 * jlp.2))]))) =
      A * (p.Y x w + p.D x w) ^ 2 := by
  rw [eval_append, eval_flatMap, eval_flatMap]
  have h1 : ∀ n ∈ List.range p.maxM,
      eval x ((List.range p.maxM).map (fun np => ([p.y n w, p.y np w],
          if p.logTrick then A * (2 : Rat) ^ (n + np) else A * ((n : Rat) + 1) * ((np : Rat) + 1))) ++
        p.jobs.flatMap (fun jl =>
          [([p.y n w, p.x jl.1 w], 2 * A * jl.2 * p.coef n), ([p.y n w, p.x jl.1 0], -(2 * A * jl.2 * p.coef n))])) =
        (A * p.Y x w + 2 * A * p.D x w) * (p.coef n * x (p.y n w)) := by
    intro n _
    rw [eval_append, js_reg_row, js_cross_row]; ring
  have h2 : ∀ jl ∈ p.jobs,
      eval x (p.jobs.flatMap (fun jlp =>
        [([p.x jl.1 w, p.x jlp.1 w], A * jl.2 * jlp.2), ([p.x jl.1 0, p.x jlp.1 0], A * jl.2 * jlp.2),
         ([p.x jl.1 0, p.x jlp.1 w], -(A * jl.2 * jlp.2)), ([p.x jl.1 w, p.x jlp.1 0], -(A * jl.2 * jlp.2))])) =
        (A * p.D x w) * (jl.2 * (x (p.x jl.1 w) - x (p.x jl.1 0))) := by
    intro jl _
    rw [js_job_row]; ring
  rw [sumMap_congr _ h1, sumMap_congr _ h2, sumMap_mul_left, sumMap_mul_left]
  have hY : sumMap (List.range p.maxM) (fun n => p.coef n * x (p.y n w)) = p.Y x w := rfl
  have hD : sumMap p.jobs (fun jl => jl.2 * (x (p.x jl.1 w) - x (p.x jl.1 0))) = p.D x w := rfl
  rw [hY, hD]; ring

theorem js_lin (p : JS) (B : Rat) (x : Var → Rat) :
    eval x (p.jobs.map (fun jl => ([p.x jl.1 0], B * jl.2))) = B * sumMap p.jobs (fun jl => jl.2 * x (p.x jl.1 0)) := by
  rw [eval_mapOps, ← sumMap_mul_left]
  exact sumMap_congr _ (fun jl _ => by simp only [mon_cons, mon_nil]; ring)

/-- **T10.1 (JobSequencing).** the sum of all executed statements is Lucas' `H_A + H_B` with the counters as written:
`A Σ_j (1 - Σ_w x_{j,w})^2 + B Σ_j L_j x_{j,0} + A Σ_{w≥1} (Y_w + Σ_j L_j (x_{j,w} - x_{j,0}))^2` -/
theorem js_ops_eval (p : JS) (A B : Rat) (x : Var → Rat) :
    eval x (p.ops A B) =
      A * sumMap p.jobs (fun jl => (1 - p.S x jl.1) ^ 2) +
      B * sumMap p.jobs (fun jl => jl.2 * x (p.x jl.1 0)) +
      A * sumMap ((List.range p.m).drop 1) (fun w => (p.Y x w + p.D x w) ^ 2) := by
  unfold JS.ops
  simp only []
  rw [eval_append, eval_append, eval_append, js_lin, eval_flatMap, eval_flatMap]
  rw [sumMap_congr p.jobs (fun jl _ => js_onehot p A x jl.1),
    sumMap_congr ((List.range p.m).drop 1) (fun w _ => js_worker_block p A x w)]
  simp only [eval_cons, eval_nil, mon_nil]
  have hlen : (p.jobs.length : Rat) = (p.N : Rat) := by
    simp [JS.jobs, JS.N]
  have e1 : sumMap p.jobs (fun jl => (1 - p.S x jl.1) ^ 2) =
      (p.N : Rat) + sumMap p.jobs (fun jl => (p.S x jl.1) ^ 2 - 2 * p.S x jl.1) := by
    rw [sumMap_congr p.jobs (g := fun jl => 1 + ((p.S x jl.1) ^ 2 - 2 * p.S x jl.1)) (fun jl _ => by ring),
      sumMap_add, sumMap_const, hlen]; ring
  have e2 : sumMap p.jobs (fun jl => A * (p.S x jl.1) ^ 2 - 2 * A * p.S x jl.1) =
      A * sumMap p.jobs (fun jl => (p.S x jl.1) ^ 2 - 2 * p.S x jl.1) := by
    rw [← sumMap_mul_left]; exact sumMap_congr _ (fun jl _ => by ring)
  have e3 : sumMap ((List.range p.m).drop 1) (fun w => A * (p.Y x w + p.D x w) ^ 2) =
      A * sumMap ((List.range p.m).drop 1) (fun w => (p.Y x w + p.D x w) ^ 2) := sumMap_mul_left _ _ _
  rw [e1, e2, e3]; ring

end Qv.Prob
