import Qv.Model.Workflow
import Qv.Props.C02
import Qv.Props.C03
import Qv.Proofs.WorkflowAbs
import Qv.Props.C06
import Qv.Props.C09
/-!
# C08: helper lemmas — `removeAncilla`, the abstract penalty lemma, the instantiation for PCBO histories
-/
namespace Qv.Workflow
open Qv

/-! ## `removeAncilla` -/

theorem mem_removeAncilla (s : Brute.Assign) (p : Var × Rat) :
    p ∈ removeAncilla s ↔ p ∈ s ∧ p.1 < ANC := by
  simp [removeAncilla, List.mem_filter]

theorem removeAncilla_sublist (s : Brute.Assign) : (removeAncilla s).Sublist s :=
  List.filter_sublist

theorem aget?_removeAncilla (s : Brute.Assign) (i : Var) :
    Brute.aget? (removeAncilla s) i = if i < ANC then Brute.aget? s i else none := by
  induction s with
  | nil => simp [removeAncilla, Brute.aget?]
  | cons p r ih =>
    obtain ⟨j, v⟩ := p
    unfold removeAncilla at ih ⊢
    by_cases hj : j < ANC
    · simp only [List.filter_cons, hj, decide_true, if_true, Brute.aget?]
      by_cases hji : j = i
      · subst hji; simp [hj]
      · simp [hji, ih]
    · simp only [List.filter_cons, hj, decide_false, Brute.aget?]
      by_cases hji : j = i
      · subst hji; simp [hj, ih]
      · simp [hji, ih]

end Qv.Workflow

/-! ## histories of constraint calls, for boolean (PCBO) and spin (PCSO) models alike -/
namespace Qv.Workflow
open Qv Qv.PcboP Qv.Logic

/-- the predicate on assignments -/
abbrev Pred := (Var → Rat) → Prop

/-- what the history lemmas see of a model object: its terms, its ancilla counter, `is_solution_valid` -/
structure Snap where
  terms : Poly
  anc : Nat
  valid : (Var → Rat) → Bool

/-- the value at `s` of the terms added between two snapshots -/
def Snap.F (a b : Snap) (s : Var → Rat) : Rat := eval s b.terms - eval s a.terms
/-- the ancilla labels `"__a<k>"`, `a.anc ≤ k < b.anc`, created between two snapshots -/
def Snap.InA (a b : Snap) (i : Var) : Prop := ∃ k, a.anc ≤ k ∧ k < b.anc ∧ i = ANC + k

theorem Snap.F_trans (a b c : Snap) (s : Var → Rat) : Snap.F a c s = Snap.F a b s + Snap.F b c s := by
  unfold Snap.F; ring

/-- what one constraint call `a ↦ b` with weight `lam` enforcing the predicate `G` does (T2.1–T2.5, T3.1–T3.5 resp.
T6.1–T6.3 in one shape); `Dom` is `IsBool` for a PCBO, `IsSpin` for a PCSO -/
structure StepOK (Dom : Pred) (a b : Snap) (lam : Rat) (G : Pred) : Prop where
  anc_le : a.anc ≤ b.anc
  nonneg : ∀ s, Dom s → 0 ≤ Snap.F a b s
  sat : ∀ x, Dom x → G x → ∃ s, (∀ i, ¬ Snap.InA a b i → s i = x i) ∧ Dom s ∧ Snap.F a b s = 0
  viol : ∀ s, Dom s → ¬ G s → lam ≤ Snap.F a b s
  valid : ∀ x, Dom x → (b.valid x = true ↔ (a.valid x = true ∧ G x))
  /-- the constraint is about user variables only -/
  user : ∀ x y : Var → Rat, (∀ i, i < ANC → x i = y i) → (G x ↔ G y)
  /-- a zero of the added terms stays a zero when ancillas created later are changed -/
  zero_local : ∀ s s', Dom s → Dom s' → (∀ i, i < ANC + b.anc → s i = s' i) →
    Snap.F a b s = 0 → Snap.F a b s' = 0

/-- a history `a ↦ … ↦ b` of calls, each with its weight and its predicate -/
inductive HistOK (Dom : Pred) : Snap → Snap → List (Rat × Pred) → Prop
  | nil (a : Snap) : HistOK Dom a a []
  | cons {a b c : Snap} {lam : Rat} {G : Pred} {r : List (Rat × Pred)} :
      StepOK Dom a b lam G → HistOK Dom b c r → HistOK Dom a c ((lam, G) :: r)

variable {Dom : Pred}

theorem HistOK.anc_le {a b : Snap} {l} (h : HistOK Dom a b l) : a.anc ≤ b.anc := by
  induction h with
  | nil => exact Nat.le_refl _
  | cons s _ ih => exact Nat.le_trans s.anc_le ih

theorem HistOK.nonneg {a b : Snap} {l} (h : HistOK Dom a b l) {s : Var → Rat} (hs : Dom s) :
    0 ≤ Snap.F a b s := by
  induction h with
  | nil => simp [Snap.F]
  | @cons a b c lam G r s1 _ ih =>
    rw [Snap.F_trans a b]
    have := s1.nonneg s hs
    linarith

theorem HistOK.valid {a b : Snap} {l} (h : HistOK Dom a b l) (x : Var → Rat) (hx : Dom x) :
    b.valid x = true ↔ (a.valid x = true ∧ ∀ c ∈ l, c.2 x) := by
  induction h with
  | nil => simp
  | @cons a b c lam G r s1 _ ih =>
    rw [ih, s1.valid x hx]
    simp only [List.mem_cons, forall_eq_or_imp]
    tauto

theorem HistOK.viol {a b : Snap} {l} (h : HistOK Dom a b l) {s : Var → Rat} (hs : Dom s)
    {c : Rat × Pred} (hc : c ∈ l) (hv : ¬ c.2 s) : c.1 ≤ Snap.F a b s := by
  induction h with
  | nil => cases hc
  | @cons a b c' lam G r s1 h2 ih =>
    rw [Snap.F_trans a b]
    rcases List.mem_cons.1 hc with rfl | hc
    · have := s1.viol s hs hv
      have := h2.nonneg hs
      linarith
    · have := s1.nonneg s hs
      have := ih hc
      linarith

theorem HistOK.user {a b : Snap} {l} (h : HistOK Dom a b l) :
    ∀ c ∈ l, ∀ x y : Var → Rat, (∀ i, i < ANC → x i = y i) → (c.2 x ↔ c.2 y) := by
  induction h with
  | nil => intro c hc; cases hc
  | cons s' _ ih' =>
    intro c hc
    rcases List.mem_cons.1 hc with rfl | hc
    · exact s'.user
    · exact ih' c hc

theorem HistOK.sat {a b : Snap} {l} (h : HistOK Dom a b l) {x : Var → Rat} (hx : Dom x)
    (hG : ∀ c ∈ l, c.2 x) :
    ∃ s, (∀ i, ¬ Snap.InA a b i → s i = x i) ∧ Dom s ∧ Snap.F a b s = 0 := by
  induction h generalizing x with
  | nil a => exact ⟨x, fun _ _ => rfl, hx, by simp [Snap.F]⟩
  | @cons a b c lam G r s1 h2 ih =>
    obtain ⟨y, a1, b1, f1⟩ := s1.sat x hx (hG _ List.mem_cons_self)
    have hG' : ∀ c ∈ r, c.2 y := by
      intro c hc
      have hu := h2.user
      refine (hu c hc y x (fun (i : Nat) hi => a1 i ?_)).2 (hG c (List.mem_cons_of_mem _ hc))
      rintro ⟨k, _, _, rfl⟩; omega
    obtain ⟨z, a2, b2, f2⟩ := ih b1 hG'
    have hle1 := s1.anc_le
    have hle2 := h2.anc_le
    refine ⟨z, fun (i : Nat) hi => ?_, b2, ?_⟩
    · rw [a2 i (fun ⟨k, k1, k2, e⟩ => hi ⟨k, by omega, k2, e⟩)]
      exact a1 i (fun ⟨k, k1, k2, e⟩ => hi ⟨k, k1, by omega, e⟩)
    · rw [Snap.F_trans a b, f2]
      have : Snap.F a b z = 0 :=
        s1.zero_local y z b1 b2 (fun (i : Nat) hi => (a2 i (by rintro ⟨k, k1, _, rfl⟩; omega)).symm) f1
      rw [this]; ring

/-! ### from a history to the hypotheses of the abstract lemma T8.0 -/

/-- the objective `f = ⟦a.terms⟧` (user labels only, no constraint recorded yet), the penalised model
`H = ⟦b.terms⟧`, feasibility = `is_solution_valid` of the final object -/
theorem HistOK.penaltyFacts {a b : Snap} {l} (h : HistOK Dom a b l) (hobj : Below ANC a.terms)
    (hv0 : ∀ x, a.valid x = true) :
    Abs.PenaltyFacts Dom (fun s => b.valid s = true) (fun s => eval s a.terms) (fun s => eval s b.terms) := by
  refine ⟨fun s hs => ?_, fun x hx hf => ?_⟩
  · have := h.nonneg hs
    unfold Snap.F at this; linarith
  · have hG := ((h.valid x hx).1 hf).2
    obtain ⟨s, hag, hs, h0⟩ := h.sat hx hG
    have hlow : ∀ i : Nat, i < ANC → s i = x i := fun i hi => hag i (by rintro ⟨k, _, _, rfl⟩; omega)
    have hfs : eval s a.terms = eval x a.terms := eval_congr hobj hlow
    refine ⟨s, hs, ?_, hfs, ?_⟩
    · refine (h.valid s hs).2 ⟨hv0 s, fun c hc => ?_⟩
      exact (h.user c hc s x hlow).2 (hG c hc)
    · unfold Snap.F at h0; linarith

theorem HistOK.bigWeights {a b : Snap} {l} (h : HistOK Dom a b l) (hv0 : ∀ x, a.valid x = true)
    (hbig : ∀ c ∈ l, ∀ x y, Dom x → Dom y → eval x a.terms - eval y a.terms < c.1) :
    Abs.BigWeights Dom (fun s => b.valid s = true) (fun s => eval s a.terms) (fun s => eval s b.terms) := by
  intro s hs hns
  have : ¬ ∀ c ∈ l, c.2 s := fun hall => hns ((h.valid s hs).2 ⟨hv0 s, hall⟩)
  simp only [not_forall] at this
  obtain ⟨c, hc, hv⟩ := this
  refine ⟨c.1, hbig c hc, ?_⟩
  have := h.viol hs hc hv
  unfold Snap.F at this; linarith

/-! ## PCBO: the two kinds of calls are `StepOK` -/

/-- the snapshot of a PCBO state -/
def snapB (st : St) : Snap := ⟨st.terms, st.anc, isValid st⟩

/-- a comparison constraint under the hypotheses of C02 (T2.1, T2.2, T2.3, T2.4) -/
theorem stepOK_cmp {rel : Rel} {st : St} {P : Poly} {lam : Rat} {lt : Bool} {b : Option Rat × Option Rat} {sup : Bool}
    (h : Hyp st P lam b) (hw : ¬ WeakBranch rel P b) (hu : Below ANC P) :
    StepOK IsBool (snapB st) (snapB (addConstraint rel st P lam lt b sup)) lam (fun x => RelP rel (eval x P)) := by
  have S := addConstraint_sem (lt := lt) (sup := sup) h hw
  obtain ⟨hc, B⟩ := addConstraint_book rel st P lam lt b sup
  refine ⟨B.anc_le, fun s hs => addConstraint_nonneg h hs, S.sat, S.viol,
    fun x _ => isValid_append st rel P _ hc x, ?_, ?_⟩
  · intro x y hxy
    have : eval x P = eval y P := eval_congr hu hxy
    rw [this]
  · intro s s' hs hs' hag h0
    obtain ⟨_, q, h2, h3⟩ := B
    have e0 : FPen st (addConstraint rel st P lam lt b sup) s = 0 := h0
    show FPen st (addConstraint rel st P lam lt b sup) s' = 0
    rw [FPen_of_added h2 hs] at e0
    rw [FPen_of_added h2 hs', ← e0]
    refine eval_congr (V := fun i => i < ANC + (addConstraint rel st P lam lt b sup).anc) (h3 _ ?_ ?_)
      (fun i hi => (hag i hi).symm)
    · exact hu.mono (fun (i : Nat) (hi : i < ANC) => show i < ANC + _ by omega)
    · intro k _ hk; exact Nat.add_lt_add_left hk _

/-- a logical constraint: the conclusion of any of C06's sixteen specifications, for a predicate on user variables -/
theorem stepOK_logic {st st' : St} {lam : Rat} {G : Pred} (hlam : 0 < lam)
    (hu : ∀ x y : Var → Rat, (∀ i, i < ANC → x i = y i) → (G x ↔ G y))
    (hp : ∀ x, IsBool x → Penalises st st' lam x (G x)) : StepOK IsBool (snapB st) (snapB st') lam G := by
  have hz : IsBool (fun _ => (0 : Rat)) := fun _ => Or.inl rfl
  have zero_iff : ∀ s, IsBool s → (Snap.F (snapB st) (snapB st') s = 0 ↔ G s) := by
    intro s hs
    constructor
    · intro h0
      by_contra hn
      have := (hp s hs).pen hn
      unfold Snap.F snapB at h0
      simp only at h0
      linarith
    · intro hg; exact (hp s hs).zero hg
  refine ⟨le_of_eq (hp _ hz).anc.symm, ?_, ?_, fun s hs hn => (hp s hs).pen hn, fun x hx => (hp x hx).valid, hu, ?_⟩
  · intro s hs
    by_cases hg : G s
    · rw [(zero_iff s hs).2 hg]
    · have := (hp s hs).pen hg
      unfold Snap.F snapB; simp only; linarith
  · intro x hx hg
    exact ⟨x, fun _ _ => rfl, hx, (zero_iff x hx).2 hg⟩
  · intro s s' hs hs' hag h0
    have hg := (zero_iff s hs).1 h0
    exact (zero_iff s' hs').2 ((hu s s' (fun (i : Nat) hi => hag i (by
      show i < ANC + st'.anc
      omega))).1 hg)

/-! ## the model's `addCons` -/

def Con.lam : Con → Rat
  | .cmp _ _ lam _ _ _ => lam
  | .logic _ _ _ lam => lam

/-- the hypotheses of the property on one call made at the state `st`, and the predicate `G` it enforces:
* a comparison constraint `P rel 0`: C02's `Hyp` (`lam > 0`, `P` an integer-valued PUBO dict, given bounds valid,
  no ancilla label that does not exist yet), not one of the two give-up branches (where the library warns
  "cannot be satisfied"), user labels only; `G x` is `P(x) rel 0`;
* a logical constraint: `lam > 0`, `G` is about user variables only, and the call satisfies T6.1–T6.3 for `G` —
  which is the conclusion of C06's specification of the method called (`Qv.C06.and_spec`, …, `eq_not_spec`). -/
def ConOK (st : St) : Con → Pred → Prop
  | .cmp rel P lam _ b _, G => Hyp st P lam b ∧ ¬ WeakBranch rel P b ∧ Below ANC P ∧ G = fun x => RelP rel (eval x P)
  | .logic eq g ops lam, G => 0 < lam ∧ (∀ x y : Var → Rat, (∀ i, i < ANC → x i = y i) → (G x ↔ G y)) ∧
      ∀ st', consLogic eq g st ops lam = .ok st' → ∀ x, IsBool x → Penalises st st' lam x (G x)

/-- every call of the sequence satisfies `ConOK` at the state it is made in -/
def ConsOK : St → List Con → List Pred → Prop
  | _, [], [] => True
  | st, c :: r, G :: Gs => ConOK st c G ∧ ∀ st', addCon st c = .ok st' → ConsOK st' r Gs
  | _, _, _ => False

theorem stepOK_of_conOK {st st' : St} {c : Con} {G : Pred} (h : ConOK st c G) (hr : addCon st c = .ok st') :
    StepOK IsBool (snapB st) (snapB st') c.lam G := by
  cases c with
  | cmp rel P lam lt b sup =>
    obtain ⟨h1, h2, h3, rfl⟩ := h
    simp only [addCon] at hr
    injection hr with hr
    subst hr
    exact stepOK_cmp h1 h2 h3
  | logic eq g ops lam =>
    obtain ⟨h1, h2, h3⟩ := h
    exact stepOK_logic h1 h2 (h3 st' hr)

theorem consOK_length {st st' : St} {cs : List Con} {Gs : List Pred} (hr : addCons st cs = .ok st')
    (h : ConsOK st cs Gs) : Gs.length = cs.length := by
  induction cs generalizing st Gs with
  | nil =>
    cases Gs with
    | nil => rfl
    | cons _ _ => exact absurd h (by simp [ConsOK])
  | cons c r ih =>
    cases Gs with
    | nil => exact absurd h (by simp [ConsOK])
    | cons G Gs =>
      simp only [addCons, bind_ok_iff] at hr
      obtain ⟨st1, h1, h2⟩ := hr
      simp [ih h2 (h.2 st1 h1)]

theorem histOK_of_addCons {st st' : St} {cs : List Con} {Gs : List Pred} (hr : addCons st cs = .ok st')
    (h : ConsOK st cs Gs) : HistOK IsBool (snapB st) (snapB st') ((cs.map Con.lam).zip Gs) := by
  induction cs generalizing st Gs with
  | nil =>
    cases Gs with
    | nil => simp only [addCons] at hr; injection hr with hr; subst hr; exact HistOK.nil _
    | cons _ _ => exact absurd h (by simp [ConsOK])
  | cons c r ih =>
    cases Gs with
    | nil => exact absurd h (by simp [ConsOK])
    | cons G Gs =>
      simp only [addCons, bind_ok_iff] at hr
      obtain ⟨st1, h1, h2⟩ := hr
      exact HistOK.cons (stepOK_of_conOK h.1 h1) (ih h2 (h.2 st1 h1))

/-- `PCBO(objective)` has no recorded constraint -/
theorem start_valid (obj : Poly) (x : Var → Rat) : isValid (start obj) x = true := by simp [start, isValid]

/-- the weights of the calls and the predicates they enforce, paired -/
theorem mem_pairs {cs : List Con} {Gs : List Pred} {c : Rat × Pred} (h : c ∈ (cs.map Con.lam).zip Gs) :
    ∃ con ∈ cs, con.lam = c.1 := by
  have := (List.of_mem_zip (a := c.1) (b := c.2) (by simpa using h)).1
  obtain ⟨con, hc, e⟩ := List.mem_map.1 this
  exact ⟨con, hc, e⟩


end Qv.Workflow
