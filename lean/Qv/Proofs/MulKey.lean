import Qv.Proofs.ExprErr
import Qv.Proofs.Unique
/-!
# When exactly a product of degree-2 models raises `KeyError` (T5.5)

`construct` is the identity on a canonical dict; `imulD` succeeds iff `sq` accepts the concatenation
of every pair of stored keys.
-/
namespace Qv.ExprErr
open Qv

theorem put_append {acc : Poly} {k : Key} (v : Rat) (h : k ∉ keys acc) :
    put acc k v = acc ++ [(k, v)] := by
  induction acc with
  | nil => rfl
  | cons kv rest ih =>
    obtain ⟨k', v'⟩ := kv
    simp only [keys, List.map_cons, List.mem_cons, not_or] at h
    have hne : ¬ k' = k := fun e => h.1 e.symm
    simp only [put, if_neg hne, List.cons_append]
    rw [ih h.2]

theorem keys_append (a b : Poly) : keys (a ++ b) = keys a ++ keys b := by
  simp [keys]

/-- feeding a canonical dict to the `+=` loop appends it verbatim when the keys are new -/
theorem iaddD_append {sq : Sq} : ∀ (p acc : Poly), WF sq (acc ++ p) →
    iaddD sq acc p = .ok (acc ++ p) := by
  intro p
  induction p with
  | nil => intro acc _; simp [iaddD]
  | cons kv rest ih =>
    intro acc h
    obtain ⟨k, v⟩ := kv
    have hk : sq k = .ok k := h.fixed k (by simp [keys])
    have hnd := h.nodup
    rw [keys_append] at hnd
    have hnot : k ∉ keys acc := by
      intro hm
      exact (List.nodup_append.1 hnd).2.2 k hm k (by simp [keys]) rfl
    have hv : v ≠ 0 := h.nonzero (k, v) (by simp)
    have h1 : addTerm sq acc k v = .ok (acc ++ [(k, v)]) := by
      unfold addTerm
      simp only [hk, bind, Except.bind, pure, Except.pure]
      rw [get_eq_zero_of_not_mem hnot]
      simp only [zero_add, set, if_neg hv, put_append v hnot]
    have h' : WF sq ((acc ++ [(k, v)]) ++ rest) := by
      rw [List.append_assoc]; exact h
    simp only [iaddD, h1, bind, Except.bind]
    rw [ih _ h', List.append_assoc]; rfl

/-- `κ(p)` of an already canonical dict is `p` itself -/
theorem construct_of_wf {sq : Sq} {p : Poly} (h : WF sq p) : construct sq p = .ok p := by
  have := iaddD_append (sq := sq) p [] (by simpa using h)
  simpa [construct] using this

theorem addTerm_ok_iff {sq : Sq} (p : Poly) (k : Key) (v : Rat) :
    (∃ p', addTerm sq p k v = .ok p') ↔ ∃ k', sq k = .ok k' := by
  unfold addTerm
  cases hk : sq k with
  | error e => simp [bind, Except.bind]
  | ok k' => simp [bind, Except.bind, pure, Except.pure]

theorem mulRow_ok_iff {sq : Sq} (k : Key) (v : Rat) (q acc : Poly) :
    (∃ r, mulRow sq acc k v q = .ok r) ↔ ∀ ko ∈ keys q, ∃ k', sq (k ++ ko) = .ok k' := by
  induction q generalizing acc with
  | nil => simp [mulRow, keys]
  | cons kv rest ih =>
    obtain ⟨ko, vo⟩ := kv
    simp only [mulRow, bind_ok_iff, keys, List.map_cons, List.forall_mem_cons]
    constructor
    · rintro ⟨r, a1, h1, h2⟩
      exact ⟨(addTerm_ok_iff _ _ _).1 ⟨a1, h1⟩, (ih a1).1 ⟨r, h2⟩⟩
    · rintro ⟨h1, h2⟩
      obtain ⟨a1, ha1⟩ := (addTerm_ok_iff acc (k ++ ko) (v * vo)).2 h1
      obtain ⟨r, hr⟩ := (ih a1).2 h2
      exact ⟨r, a1, ha1, hr⟩

theorem mulRows_ok_iff {sq : Sq} (p q acc : Poly) :
    (∃ r, mulRows sq acc p q = .ok r) ↔
      ∀ kp ∈ keys p, ∀ kq ∈ keys q, ∃ k', sq (kp ++ kq) = .ok k' := by
  induction p generalizing acc with
  | nil => simp [mulRows, keys]
  | cons kv rest ih =>
    obtain ⟨k, v⟩ := kv
    simp only [mulRows, bind_ok_iff, keys, List.map_cons, List.forall_mem_cons]
    constructor
    · rintro ⟨r, a1, h1, h2⟩
      exact ⟨(mulRow_ok_iff k v q acc).1 ⟨a1, h1⟩, (ih a1).1 ⟨r, h2⟩⟩
    · rintro ⟨h1, h2⟩
      obtain ⟨a1, ha1⟩ := (mulRow_ok_iff k v q acc).2 h1
      obtain ⟨r, hr⟩ := (ih a1).2 h2
      exact ⟨r, a1, ha1, hr⟩

/-- a degree-2 type accepts a key iff at most two labels remain after squashing -/
theorem squash_deg2_ok_iff {κ : Kind} (hκ : κ.isDeg2 = true) (k : Key) :
    (∃ k', squash κ k = .ok k') ↔
      ¬ 2 < (if κ.isSpin = true then squashS k else squashB k).length := by
  cases κ <;> simp [Kind.isDeg2] at hκ <;> simp only [squash, Kind.isSpin, Kind.isDeg2] <;>
    (by_cases h : 2 < (squashS k).length <;> by_cases h' : 2 < (squashB k).length <;> simp [h, h'])

theorem not_ok_iff_key {α : Type} {x : Except Err α} (hx : ∀ e, x = .error e → e = .key) :
    x = .error .key ↔ ¬ ∃ a, x = .ok a := by
  cases x with
  | error e => have := hx e rfl; subst this; simp
  | ok a => simp

/-- **`KeyError` of a product, degree-2 types.**  With a canonical left operand of a degree-2 type,
`p * q` raises `KeyError` iff for some stored key of `p` and some key of `q` the squashed
concatenation has more than two labels. -/
theorem mulModel_key_iff {κ : Kind} (hκ : κ.isDeg2 = true) {p : Poly} (hp : WF (squash κ) p)
    (q : Poly) (b : Val) (hb : b = .raw q ∨ ∃ κ2, b = .mdl κ2 q) :
    mulModel κ p b = .error .key ↔
      ∃ kp ∈ keys p, ∃ kq ∈ keys q,
        2 < (if κ.isSpin = true then squashS (kp ++ kq) else squashB (kp ++ kq)).length := by
  have hshape : mulModel κ p b =
      (imulD (squash κ) p q >>= fun r => pure (Val.mdl κ r)) := by
    rcases hb with rfl | ⟨κ2, rfl⟩ <;>
      simp only [mulModel, construct_of_wf hp, bind, Except.bind]
  rw [hshape]
  have hx : ∀ e, (imulD (squash κ) p q >>= fun r => (pure (Val.mdl κ r) : Except Err Val)) = .error e →
      e = .key := by
    intro e h
    simp only [bind_err_iff, pure, Except.pure] at h
    rcases h with h | ⟨r, _, h⟩
    · exact (imulD_err (squash_err κ) h).1
    · cases h
  rw [not_ok_iff_key hx]
  have hiff : (∃ a, (imulD (squash κ) p q >>= fun r => (pure (Val.mdl κ r) : Except Err Val)) = .ok a) ↔
      ∃ r, imulD (squash κ) p q = .ok r := by
    simp only [bind_ok_iff, pure, Except.pure]
    constructor
    · rintro ⟨a, r, hr, _⟩; exact ⟨r, hr⟩
    · rintro ⟨r, hr⟩; exact ⟨_, r, hr, rfl⟩
  rw [hiff, imulD, mulRows_ok_iff]
  simp only [squash_deg2_ok_iff hκ]
  constructor
  · intro h
    by_contra hcon
    apply h
    intro kp hkp kq hkq hlt
    exact hcon ⟨kp, hkp, kq, hkq, hlt⟩
  · rintro ⟨kp, hkp, kq, hkq, hlt⟩ h
    exact h kp hkp kq hkq hlt

/-- **`ZeroDivisionError`.**  On a canonical model, `m / c` raises it iff `c = 0` and `m` has a term. -/
theorem div_zerodiv_iff {κ : Kind} {p : Poly} (hp : WF (squash κ) p) (c : Rat) :
    Val.div (.mdl κ p) c = .error .zerodiv ↔ c = 0 ∧ p ≠ [] := by
  have hshape : Val.div (.mdl κ p) c = (idivC (squash κ) p c >>= fun r => pure (Val.mdl κ r)) := by
    simp only [Val.div, construct_of_wf hp, bind, Except.bind]
  rw [hshape]
  constructor
  · intro h
    simp only [bind_err_iff, pure, Except.pure] at h
    rcases h with h | ⟨r, _, h⟩
    · rcases idivC_err (squash_err κ) h with h' | h'
      · exact h'.2
      · cases h'.1
    · cases h
  · rintro ⟨hc, hne⟩
    cases p with
    | nil => exact absurd rfl hne
    | cons kv rest => simp [idivC, hc, bind, Except.bind]

/-- **`ValueError`.**  On a canonical model, `m ** n` raises it iff `n ≤ 0`. -/
theorem pow_value_iff {κ : Kind} {p : Poly} (hp : WF (squash κ) p) (n : Int) :
    Val.pow (.mdl κ p) n = .error .value ↔ n ≤ 0 := by
  have hshape : Val.pow (.mdl κ p) n = (ipow (squash κ) p n >>= fun r => pure (Val.mdl κ r)) := by
    simp only [Val.pow, construct_of_wf hp, bind, Except.bind]
  rw [hshape]
  constructor
  · intro h
    simp only [bind_err_iff, pure, Except.pure] at h
    rcases h with h | ⟨r, _, h⟩
    · rcases ipow_err (squash_err κ) h with h' | h'
      · exact h'.2
      · cases h'.1
    · cases h
  · intro hn
    simp [ipow, hn, bind, Except.bind]

theorem iaddD_ok_iff {sq : Sq} (q acc : Poly) :
    (∃ r, iaddD sq acc q = .ok r) ↔ ∀ kq ∈ keys q, ∃ k', sq kq = .ok k' := by
  induction q generalizing acc with
  | nil => simp [iaddD, keys]
  | cons kv rest ih =>
    obtain ⟨k, v⟩ := kv
    simp only [iaddD, bind_ok_iff, keys, List.map_cons, List.forall_mem_cons]
    constructor
    · rintro ⟨r, a1, h1, h2⟩
      exact ⟨(addTerm_ok_iff _ _ _).1 ⟨a1, h1⟩, (ih a1).1 ⟨r, h2⟩⟩
    · rintro ⟨h1, h2⟩
      obtain ⟨a1, ha1⟩ := (addTerm_ok_iff acc k v).2 h1
      obtain ⟨r, hr⟩ := (ih a1).2 h2
      exact ⟨r, a1, ha1, hr⟩

theorem isubD_ok_iff {sq : Sq} (q acc : Poly) :
    (∃ r, isubD sq acc q = .ok r) ↔ ∀ kq ∈ keys q, ∃ k', sq kq = .ok k' := by
  induction q generalizing acc with
  | nil => simp [isubD, keys]
  | cons kv rest ih =>
    obtain ⟨k, v⟩ := kv
    simp only [isubD, bind_ok_iff, keys, List.map_cons, List.forall_mem_cons]
    constructor
    · rintro ⟨r, a1, h1, h2⟩
      exact ⟨(addTerm_ok_iff _ _ _).1 ⟨a1, h1⟩, (ih a1).1 ⟨r, h2⟩⟩
    · rintro ⟨h1, h2⟩
      obtain ⟨a1, ha1⟩ := (addTerm_ok_iff acc k (-v)).2 h1
      obtain ⟨r, hr⟩ := (ih a1).2 h2
      exact ⟨r, a1, ha1, hr⟩

/-- shared tail of the `+`/`-` characterisations -/
theorem addlike_key_iff {κ : Kind} (hκ : κ.isDeg2 = true) {p : Poly} (q : Poly)
    (F : Poly → Poly → Except Err Poly)
    (hFerr : ∀ e, F p q = .error e → e = .key)
    (hFok : (∃ r, F p q = .ok r) ↔ ∀ kq ∈ keys q, ∃ k', squash κ kq = .ok k') :
    (F p q >>= fun r => (pure (Val.mdl κ r) : Except Err Val)) = .error .key ↔
      ∃ kq ∈ keys q, 2 < (if κ.isSpin = true then squashS kq else squashB kq).length := by
  have hx : ∀ e, (F p q >>= fun r => (pure (Val.mdl κ r) : Except Err Val)) = .error e → e = .key := by
    intro e h
    simp only [bind_err_iff, pure, Except.pure] at h
    rcases h with h | ⟨r, _, h⟩
    · exact hFerr e h
    · cases h
  rw [not_ok_iff_key hx]
  have hiff : (∃ a, (F p q >>= fun r => (pure (Val.mdl κ r) : Except Err Val)) = .ok a) ↔
      ∃ r, F p q = .ok r := by
    simp only [bind_ok_iff, pure, Except.pure]
    constructor
    · rintro ⟨a, r, hr, _⟩; exact ⟨r, hr⟩
    · rintro ⟨r, hr⟩; exact ⟨_, r, hr, rfl⟩
  rw [hiff, hFok]
  simp only [squash_deg2_ok_iff hκ]
  constructor
  · intro h
    by_contra hcon
    apply h
    intro kq hkq hlt
    exact hcon ⟨kq, hkq, hlt⟩
  · rintro ⟨kq, hkq, hlt⟩ h
    exact h kq hkq hlt

/-- **`KeyError` of a sum, degree-2 types.** -/
theorem add_key_iff {κ : Kind} (hκ : κ.isDeg2 = true) {p : Poly} (hp : WF (squash κ) p)
    (q : Poly) (b : Val) (hb : b = .raw q ∨ ∃ κ2, b = .mdl κ2 q) :
    Val.add (.mdl κ p) b = .error .key ↔
      ∃ kq ∈ keys q, 2 < (if κ.isSpin = true then squashS kq else squashB kq).length := by
  have hshape : Val.add (.mdl κ p) b =
      (iaddD (squash κ) p q >>= fun r => pure (Val.mdl κ r)) := by
    rcases hb with rfl | ⟨κ2, rfl⟩ <;>
      simp only [Val.add, construct_of_wf hp, bind, Except.bind]
  rw [hshape]
  exact addlike_key_iff hκ q (iaddD (squash κ))
    (fun e h => (iaddD_err (squash_err κ) h).1) (iaddD_ok_iff q p)

/-- **`KeyError` of a difference, degree-2 types.** -/
theorem sub_key_iff {κ : Kind} (hκ : κ.isDeg2 = true) {p : Poly} (hp : WF (squash κ) p)
    (q : Poly) (b : Val) (hb : b = .raw q ∨ ∃ κ2, b = .mdl κ2 q) :
    Val.sub (.mdl κ p) b = .error .key ↔
      ∃ kq ∈ keys q, 2 < (if κ.isSpin = true then squashS kq else squashB kq).length := by
  have hshape : Val.sub (.mdl κ p) b =
      (isubD (squash κ) p q >>= fun r => pure (Val.mdl κ r)) := by
    rcases hb with rfl | ⟨κ2, rfl⟩ <;>
      simp only [Val.sub, construct_of_wf hp, bind, Except.bind]
  rw [hshape]
  exact addlike_key_iff hκ q (isubD (squash κ))
    (fun e h => (isubD_err (squash_err κ) h).1) (isubD_ok_iff q p)

end Qv.ExprErr
