import Qv.Proofs.GenEqC.Puso
/-!
# GenEqC.PusoTop — the definition generated from `anneal_puso` (`anneal_puso.c`: the rows of `subgraphs` built with
`malloc`/`realloc`, the `index` prefix sums under `if(num_terms)` / `if(term)`, the `num_anneals` loop, the
`free`s) refines `KMem.annealPuso true` (the code as it is now).

The C text goes through the pointer `subgraphs[j]` at every statement (`subgraphs[j][0]++; k = subgraphs[j][0];
subgraphs[j] = realloc(subgraphs[j], ..); subgraphs[j][k] = term;`); the model reads the row once, updates it and
stores it once.  `Buf.put` and the lemmas below identify the two.
-/
set_option linter.unusedSimpArgs false
set_option linter.unusedVariables false
namespace Qv.GenC
open Qv.KMem
open Qv.Kernel (Src OfInt ofInt)

/-! ## reading back what was written -/

/-- index `i` is a cell of the live buffer `b` -/
def InB {β : Type} (b : Buf β) (i : Int) : Prop := b.live = true ∧ 0 ≤ i ∧ i.toNat < b.cells.size

/-- `b` with cell `i` set to `x` -/
def put {β : Type} (b : Buf β) (i : Int) (x : β) : Buf β :=
  { b with cells := b.cells.setIfInBounds i.toNat (some x) }

theorem inB_of_rd {β : Type} {b : Buf β} {i : Int} {v : β} (h : b.rd i = .ok v) : InB b i := by
  unfold Buf.rd at h
  by_cases hl : b.live = false
  · simp [hl] at h
  · by_cases hi : i < 0
    · simp [hl, hi] at h
    · simp only [hl, hi, if_false] at h
      refine ⟨by simpa using hl, by omega, ?_⟩
      by_cases hs : i.toNat < b.cells.size
      · exact hs
      · have : b.cells[i.toNat]? = none := by simp; omega
        rw [this] at h
        cases h

theorem inB_of_wr {β : Type} {b b' : Buf β} {i : Int} {v : β} (h : b.wr i v = .ok b') : InB b i := by
  unfold Buf.wr at h
  by_cases hl : b.live = false
  · simp [hl] at h
  · by_cases hi : i < 0
    · simp [hl, hi] at h
    · simp only [hl, hi, if_false] at h
      by_cases hs : i.toNat < b.cells.size
      · exact ⟨by simpa using hl, by omega, hs⟩
      · simp [hs] at h

theorem wr_eq_put {β : Type} {b : Buf β} {i : Int} (h : InB b i) (x : β) : b.wr i x = .ok (put b i x) := by
  obtain ⟨hl, hi, hs⟩ := h
  unfold Buf.wr put
  have h1 : ¬ (i < 0) := by omega
  simp [hl, h1, hs, Array.setIfInBounds]

theorem inB_put {β : Type} {b : Buf β} {i : Int} (h : InB b i) (x : β) : InB (put b i x) i := by
  obtain ⟨hl, hi, hs⟩ := h
  exact ⟨hl, hi, by simpa [put] using hs⟩

theorem rd_put {β : Type} {b : Buf β} {i : Int} (h : InB b i) (x : β) : (put b i x).rd i = .ok x := by
  obtain ⟨hl, hi, hs⟩ := h
  unfold Buf.rd put
  have h1 : ¬ (i < 0) := by omega
  simp [hl, h1, hs]

theorem put_put {β : Type} (b : Buf β) (i : Int) (x y : β) : put (put b i x) i y = put b i y := by
  simp [put]

theorem wr_put {β : Type} {b : Buf β} {i : Int} (h : InB b i) (x y : β) : (put b i x).wr i y = .ok (put b i y) := by
  rw [wr_eq_put (inB_put h x), put_put]

theorem eq_put_of_wr {β : Type} {b b' : Buf β} {i : Int} {x : β} (h : b.wr i x = .ok b') : b' = put b i x := by
  have := wr_eq_put (inB_of_wr h) x
  rw [h] at this
  cases this
  rfl

variable {α ρ : Type} [Add α] [Mul α] [OfInt α]

/-! ## the rows of `subgraphs` -/

/-- body of `for(i..) { subgraphs[i] = malloc(sizeof(long)); subgraphs[i][0] = 0; }` -/
theorem anneal_puso_loop1_eq_model (X : DOps α) (R : RandExt ρ α) (i : Nat) (sg : Buf (Buf Int)) :
    anneal_puso_loop1 X R i sg ⊑
      (do let row ← malloc 1 8
          let row ← row.wr 0 0
          sg.wr i row) := by
  intro v hv
  obtain ⟨row0, h0, hv⟩ := bind_eq_ok hv
  obtain ⟨row1, h1, hv⟩ := bind_eq_ok hv
  have hin := inB_of_wr hv
  unfold anneal_puso_loop1
  simp only [h0, ok_bind, wr_eq_put hin, rd_put hin, h1, wr_put hin]
  rw [← wr_eq_put hin]
  exact hv

/-- body of `for(i..) { j = terms[index[term] + i]; subgraphs[j][0]++; k = subgraphs[j][0]; subgraphs[j] =
realloc(subgraphs[j], (k+1) * sizeof(long)); subgraphs[j][k] = term; }` refines `KMem.addToSubgraph` -/
theorem anneal_puso_loop2_loop1_eq_model (X : DOps α) (R : RandExt ρ α) (p : PusoB α) (index : Buf Int)
    (term i : Nat) (sg : Buf (Buf Int)) (start : Int) (hs : index.rd term = .ok start) :
    anneal_puso_loop2_loop1 X R p.terms index term i sg ⊑ addToSubgraph p sg term start i := by
  intro v hv
  unfold addToSubgraph at hv
  obtain ⟨ix, hix, hv⟩ := bind_eq_ok hv
  obtain ⟨j, hj, hv⟩ := bind_eq_ok hv
  obtain ⟨row, hrow, hv⟩ := bind_eq_ok hv
  obtain ⟨c, hc, hv⟩ := bind_eq_ok hv
  obtain ⟨c', hc', hv⟩ := bind_eq_ok hv
  obtain ⟨row1, hrow1, hv⟩ := bind_eq_ok hv
  obtain ⟨k, hk, hv⟩ := bind_eq_ok hv
  obtain ⟨k1, hk1, hv⟩ := bind_eq_ok hv
  obtain ⟨row2, hrow2, hv⟩ := bind_eq_ok hv
  obtain ⟨row3, hrow3, hv⟩ := bind_eq_ok hv
  have hin := inB_of_rd hrow
  have hrd1 : row1.rd 0 = .ok c' := by
    rw [eq_put_of_wr hrow1]
    exact rd_put (inB_of_wr hrow1) c'
  unfold anneal_puso_loop2_loop1
  simp only [hs, hix, hj, hrow, hc, hc', hrow1, hrd1, hk, hk1, hrow2, hrow3, ok_bind, wr_eq_put hin, rd_put hin,
    wr_put hin, pure_bind', bind_pure]
  rw [← wr_eq_put hin]
  exact hv

/-- the generated accumulator `(subgraphs, index)` from the model's `(index, subgraphs)` -/
def swp (t : Buf Int × Buf (Buf Int)) : Buf (Buf Int) × Buf Int := (t.2, t.1)

/-- body of `for(long term..)`: `if(term) index[term] = index[term-1] + num_couplings[term-1];` then the loop over
the spins of the term -/
theorem anneal_puso_loop2_eq_model (X : DOps α) (R : RandExt ρ α) (p : PusoB α) (term : Nat)
    (s : Buf Int × Buf (Buf Int)) (ht : term ≤ 9223372036854775807) :
    anneal_puso_loop2 X R p.nc p.terms term (swp s) ⊑
      ((do let index ← nextIndex p s.1 term
           let cnt ← p.nc.rd term
           let start ← index.rd term
           let sg ← forNM cnt.toNat s.2 fun i sg => addToSubgraph p sg term start i
           pure (index, sg)) >>= fun s' => pure (swp s')) := by
  obtain ⟨index, sg⟩ := s
  unfold anneal_puso_loop2 nextIndex
  have hsub : lsub (term : Int) 1 = .ok ((term : Int) - 1) := chkLong_eq (by omega)
  simp only [swp, bind_assoc, pure_bind', hsub, ok_bind, Int.sub_zero, forFromM_zero]
  refine Refines.bind ?_ fun index' _ => ?_
  · by_cases h0 : term = 0
    · subst h0
      simp
      exact Refines.refl _
    · have h0' : (term : Int) ≠ 0 := by omega
      simp only [h0, h0', ne_eq, not_false_eq_true, decide_true, if_true, bind_pure]
      rsteps
  rstep; rskip
  refine Refines.bind ?_ fun _ _ => Refines.refl _
  apply forFromM_refines; intro i sg _ _
  exact anneal_puso_loop2_loop1_eq_model X R p index' term i sg _ (by assumption)

/-- body of `for(i..) free(subgraphs[i]);` -/
theorem anneal_puso_loop4_eq_model (X : DOps α) (R : RandExt ρ α) (i : Nat) (sg : Buf (Buf Int)) :
    anneal_puso_loop4 X R i sg ⊑
      (do let row ← sg.rd i
          let row ← row.free
          sg.wr i row) := by
  unfold anneal_puso_loop4
  rsteps

/-! ## the `num_anneals` loop -/

/-- body of the initial-state loop (as in `anneal_quso`) -/
theorem anneal_puso_loop3_loop1_eq_model (X : DOps α) (R : RandExt ρ α) (states : Buf Int) (N : Nat) (isp : Int)
    (i j : Nat) (t : Buf Int × ρ) :
    anneal_puso_loop3_loop1 X R states (N : Int) isp i j t ⊑
      (if decide (isp ≠ 0) then do
          let p ← imul i N
          let ix ← iadd p j
          let v ← states.rd ix
          let st ← t.1.wr j v
          pure (st, t.2)
        else do
          let c := (srcOf X R).coin t.2
          let st ← t.1.wr j (if c.2 then 1 else -1)
          pure (st, c.1)) := by
  obtain ⟨st, r⟩ := t
  unfold anneal_puso_loop3_loop1
  generalize decide (isp ≠ 0) = b
  cases b
  · simp only [srcOf, Bool.false_eq_true, if_false, bind_assoc, pure_bind']
    rsteps
  · simp only [if_true, bind_assoc, pure_bind']
    rsteps

/-- body of `for(j..) states[i * len_state + j] = state[j];` -/
theorem anneal_puso_loop3_loop2_eq_model (X : DOps α) (R : RandExt ρ α) (N i : Nat) (state : Buf Int) (j : Nat)
    (states : Buf Int) :
    anneal_puso_loop3_loop2 X R (N : Int) i state j states ⊑
      (do let p ← imul i N
          let ix ← iadd p j
          let v ← state.rd j
          states.wr ix v) := by
  unfold anneal_puso_loop3_loop2
  rsteps

/-- body of the `num_anneals` loop: initial state, `single_anneal_puso`, `puso_value`, copy to `states` -/
theorem anneal_puso_loop3_eq_model (X : DOps α) (R : RandExt ρ α) (p : PusoB α) (N numTerms lenTs : Nat)
    (Ts : Buf α) (in_order isp : Int) (sg : Buf (Buf Int)) (index : Buf Int) (i : Nat)
    (s : Buf Int × Buf α × Buf Int × ρ) (hR : ∀ r, 0 ≤ (R.rand_int r (N : Int)).1) (hsm : SmallRows sg) :
    anneal_puso_loop3 X R (N : Int) (numTerms : Int) p.nc p.terms p.cs (lenTs : Int) Ts in_order isp sg index i s ⊑
      (do let sr ← initState (srcOf X R) N (decide (isp ≠ 0)) s.1 i s.2.2.1 s.2.2.2
          let sr ← singleAnnealPuso (srcOf X R) p index sg N lenTs Ts (decide (in_order ≠ 0)) sr.1 sr.2
          let v ← pusoValue p numTerms sr.1
          let values ← s.2.1.wr i v
          let states ← storeState N s.1 i sr.1
          pure (states, values, sr.1, sr.2)) := by
  obtain ⟨states, values, state, rng⟩ := s
  unfold anneal_puso_loop3 initState storeState
  simp only [bind_assoc, pure_bind', Int.sub_zero, Int.toNat_natCast, forFromM_zero]
  refine Refines.bind ?_ fun sr _ => ?_
  · apply forFromM_refines; intro j t _ _
    exact anneal_puso_loop3_loop1_eq_model X R states N isp i j t
  refine Refines.bind (single_anneal_puso_eq_model X R p index sg N lenTs Ts in_order sr.1 sr.2 hR hsm) fun sr2 _ => ?_
  refine Refines.bind (puso_value_eq_model X R p numTerms sr2.1) fun val _ => ?_
  rstep
  refine Refines.bind ?_ fun _ _ => Refines.refl _
  apply forFromM_refines; intro j st _ _
  exact anneal_puso_loop3_loop2_eq_model X R N i sr2.1 j st

theorem noLeak_perm (a b c d : Bool) : noLeak [a, c, d, b] = noLeak [a, b, c, d] := by
  cases a <;> cases b <;> cases c <;> cases d <;> rfl

/-- **`anneal_puso` refines `KMem.annealPuso true`** (the code as it is now) with the source `srcOf X R` and the
generator state `rand_init(seed)`, provided the rows the construction yields have counts in `[0, LONG_MAX)` -/
theorem anneal_puso_eq_model (X : DOps α) (R : RandExt ρ α) (numAnneals : Int) (states : Buf Int) (values : Buf α)
    (N numTerms : Nat) (p : PusoB α) (lenTs : Nat) (Ts : Buf α) (in_order isp seed : Int)
    (hT : numTerms ≤ 9223372036854775807) (hR : ∀ r, 0 ≤ (R.rand_int r (N : Int)).1)
    (hsm : ∀ sg0 is, initSubgraphs N = .ok sg0 → mkIndexSubgraphs true p numTerms sg0 = .ok is → SmallRows is.2) :
    anneal_puso X R numAnneals states values (N : Int) (numTerms : Int) p.nc p.terms p.cs (lenTs : Int) Ts in_order
        isp seed ⊑
      annealPuso true (srcOf X R) numAnneals states values (N : Int) numTerms p lenTs Ts (decide (in_order ≠ 0))
        (decide (isp ≠ 0)) (R.rand_init seed) := by
  unfold anneal_puso annealPuso
  simp only [bind_assoc, pure_bind', Int.sub_zero, Int.toNat_natCast, forFromM_zero]
  refine Refines.bind (Refines.refl _) fun state _ => ?_
  -- the rows
  intro v hv
  obtain ⟨sg0, hsg0, hv⟩ := bind_eq_ok hv
  obtain ⟨is, his, hv⟩ := bind_eq_ok hv
  have hsmall := hsm sg0 is hsg0 his
  have hinit : (malloc (N : Int) 8 >>= fun sg => forNM N sg (anneal_puso_loop1 X R)) = .ok sg0 := by
    refine Refines.elim ?_ hsg0
    unfold initSubgraphs
    rstep
    apply forFromM_refines; intro i sg _ _
    exact anneal_puso_loop1_eq_model X R i sg
  obtain ⟨sg00, hsg00, hinit⟩ := bind_eq_ok hinit
  simp only [hsg00, ok_bind, hinit]
  -- index and the rows' contents
  have hmk : (malloc (numTerms : Int) 8 >>= fun index =>
      (if decide ((numTerms : Int) ≠ 0) then index.wr 0 0 >>= fun index => pure index else pure index) >>= fun index =>
      forNM numTerms (sg0, index) (anneal_puso_loop2 X R p.nc p.terms)) = .ok (swp is) := by
    have : (mkIndexSubgraphs true p numTerms sg0 >>= fun s => pure (swp s)) = .ok (swp is) := by rw [his]; rfl
    refine Refines.elim ?_ this
    unfold mkIndexSubgraphs
    simp only [bind_assoc]
    rstep
    rename_i index0 _
    by_cases h0 : numTerms = 0
    · subst h0
      simp [forNM, forFromM, swp, pure_bind']
      exact Refines.refl _
    · have h0' : (numTerms : Int) ≠ 0 := by omega
      have h0'' : (numTerms == 0) = false := by simpa using h0
      simp only [h0', ne_eq, not_false_eq_true, decide_true, if_true, bind_pure, Bool.true_and, h0'',
        Bool.false_eq_true, if_false, bind_assoc]
      rstep
      rename_i index1 _
      exact forFromM_refines_map swp (anneal_puso_loop2 X R p.nc p.terms) _ numTerms 0 (index1, sg0)
        (fun term s _ hlt => anneal_puso_loop2_eq_model X R p term s (by omega))
  obtain ⟨index0, hindex0, hmk⟩ := bind_eq_ok hmk
  obtain ⟨index1, hindex1, hmk⟩ := bind_eq_ok hmk
  simp only [hindex0, ok_bind]
  have hif : (if decide ((numTerms : Int) ≠ 0) then index0.wr 0 0 >>= fun index => pure index else pure index0) =
      .ok index1 := hindex1
  simp only [bind_pure] at hif
  simp only [bind_pure, hif, ok_bind, hmk, swp]
  -- the anneals and the frees
  refine Refines.elim ?_ hv
  refine Refines.bind ?_ fun s _ => ?_
  · apply forFromM_refines; intro i s _ _
    exact anneal_puso_loop3_eq_model X R p N numTerms lenTs Ts in_order isp is.2 is.1 i s hR hsmall
  rstep; rstep
  unfold freeRows
  refine Refines.bind ?_ fun sg1 _ => ?_
  · apply forFromM_refines; intro i sg _ _
    exact anneal_puso_loop4_eq_model X R i sg
  rstep
  rw [noLeak_perm]
  exact Refines.refl _

end Qv.GenC
