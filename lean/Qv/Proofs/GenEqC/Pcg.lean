import Qv.Gen.CSource
import Qv.Model.Pcg
import Qv.Model.Kernel
/-!
# GenEqC.Pcg — the definitions generated from `pcg_basic.c` and `random.c` equal the hand-written PCG32 model
(`Qv.Model.Pcg`), and never hit an undefined shift / remainder / narrowing.
-/
namespace Qv.GenC
open Qv Qv.KMem

/-- the generated `pcg32_random_t` and the model's `Rng` are the same two words -/
def toRng (g : pcg32_random_t) : Rng := ⟨g.state, g.inc⟩
def ofRng (r : Rng) : pcg32_random_t := ⟨r.state, r.inc⟩

@[simp] theorem toRng_ofRng (r : Rng) : toRng (ofRng r) = r := rfl
@[simp] theorem ofRng_toRng (g : pcg32_random_t) : ofRng (toRng g) = g := rfl

theorem rot_lt (old : UInt64) : ((old >>> 59).toUInt32).toNat < 32 := by
  have h := old.toNat_lt
  simp [UInt64.toNat_shiftRight, Nat.shiftRight_eq_div_pow]
  omega

theorem rot2_lt (rot : UInt32) : ((0 - rot) &&& 31).toNat < 32 := by
  have : ((0 - rot) &&& 31).toNat ≤ 31 := by
    rw [UInt32.toNat_and]
    exact Nat.and_le_right
  omega

/-- `pcg32_random_r`: the generated function returns (never an undefined shift) exactly the model's step -/
theorem pcg32_random_r_eq_model (g : pcg32_random_t) :
    pcg32_random_r g = .ok ((toRng g).next.2, ofRng (toRng g).next.1) := by
  unfold pcg32_random_r
  simp only [shr32, shl32, rot_lt, rot2_lt, if_true]
  rfl

/-- `pcg32_srandom_r`: whatever the struct held before, the result is the model's seeding -/
theorem pcg32_srandom_r_eq_model (g : pcg32_random_t) (initstate initseq : UInt64) :
    pcg32_srandom_r g initstate initseq = .ok (ofRng (Rng.seed initstate initseq)) := by
  unfold pcg32_srandom_r
  simp only [pcg32_random_r_eq_model, bind, Except.bind, pure, Except.pure]
  simp only [Rng.seed, toRng, ofRng]

/-! ## `pcg32_boundedrand_r` -/

/-- the model's rejection loop with "fuel exhausted" made visible (`Rng.bounded` returns `(r, 0)` then) -/
def boundedO (r : Rng) (bound : UInt32) : Nat → Option (UInt32 × pcg32_random_t)
  | 0 => none
  | fuel + 1 =>
    if r.next.2 ≥ (0 - bound) % bound then some (r.next.2 % bound, ofRng r.next.1)
    else boundedO r.next.1 bound fuel

theorem bounded_succ (r : Rng) (bound : UInt32) (fuel : Nat) :
    Rng.bounded r bound (fuel + 1) =
      if r.next.2 ≥ (0 - bound) % bound then (r.next.1, r.next.2 % bound) else Rng.bounded r.next.1 bound fuel := by
  rw [Rng.bounded]

theorem boundedO_some (r : Rng) (bound : UInt32) (fuel : Nat) (x : UInt32) (g' : pcg32_random_t)
    (h : boundedO r bound fuel = some (x, g')) : Rng.bounded r bound fuel = (toRng g', x) := by
  induction fuel generalizing r with
  | zero => simp [boundedO] at h
  | succ n ih =>
    unfold boundedO at h
    rw [bounded_succ]
    by_cases hc : r.next.2 ≥ (0 - bound) % bound
    · rw [if_pos hc] at h
      rw [if_pos hc]
      simp only [Option.some.injEq, Prod.mk.injEq] at h
      obtain ⟨h1, h2⟩ := h
      rw [← h1, ← h2, toRng_ofRng]
    · rw [if_neg hc] at h
      rw [if_neg hc]
      exact ih _ h

/-- one pass of `for(;;)` : draw, test against the threshold, `return r % bound` — the model's step -/
theorem pcg32_boundedrand_r_loop1_eq_model (bound threshold : UInt32) (g : pcg32_random_t) (hb : bound ≠ 0) :
    pcg32_boundedrand_r_loop1 bound threshold g =
      .ok (if (toRng g).next.2 ≥ threshold then some ((toRng g).next.2 % bound, ofRng (toRng g).next.1) else none,
           ofRng (toRng g).next.1) := by
  unfold pcg32_boundedrand_r_loop1
  simp only [pcg32_random_r_eq_model, bind, Except.bind, pure, Except.pure, umod32, hb, if_false]
  by_cases hc : (toRng g).next.2 ≥ threshold
  · simp only [hc, decide_true, if_true]
  · simp only [hc, decide_false, if_false]; rfl

/-- `pcg32_boundedrand_r` (threshold `-bound % bound`, rejection loop): for `bound ≠ 0` no undefined operation,
and whenever it returns within `fuel` draws the result is the model's `Rng.bounded` -/
theorem pcg32_boundedrand_r_eq_model (fuel : Nat) (g : pcg32_random_t) (bound : UInt32) (hb : bound ≠ 0) :
    pcg32_boundedrand_r fuel g bound = .ok (boundedO (toRng g) bound fuel) ∧
    ∀ x g', boundedO (toRng g) bound fuel = some (x, g') → Rng.bounded (toRng g) bound fuel = (toRng g', x) := by
  refine ⟨?_, fun x g' h => boundedO_some _ _ _ _ _ h⟩
  unfold pcg32_boundedrand_r
  simp only [umod32, hb, if_false, bind, Except.bind]
  induction fuel generalizing g with
  | zero => rfl
  | succ n ih =>
    unfold foreverM boundedO
    simp only [pcg32_boundedrand_r_loop1_eq_model _ _ _ hb, bind, Except.bind]
    by_cases hc : (toRng g).next.2 ≥ (0 - bound) % bound
    · simp only [if_pos hc]; rfl
    · simp only [if_neg hc]
      exact ih (ofRng (toRng g).next.1)

/-! ## random.c -/

theorem ofInt_natCast32 (n : Nat) : UInt32.ofInt (n : Int) = n.toUInt32 := by
  apply UInt32.toNat_inj.mp
  simp [UInt32.ofInt, UInt32.toNat_ofNat']
  omega

/-- `rand_seed(rng, seed)` for `seed >= 0` (the clock-seeded branch is outside the fragment):
`pcg32_srandom_r(rng, (unsigned)seed, 54u)` = the model's `Rng.init` -/
theorem rand_seed_eq_model {α : Type} (X : DOps α) (g : pcg32_random_t) (seed : Nat) :
    rand_seed X g (seed : Int) = .ok (ofRng (Rng.init seed)) := by
  unfold rand_seed
  have h : ¬ ((seed : Int) < 0) := by omega
  simp only [h, decide_false, pcg32_srandom_r_eq_model, bind, Except.bind, pure, Except.pure, ofInt_natCast32,
    Rng.init]
  rfl

/-- `rand_init(seed)` for `seed >= 0`, for every indeterminate content of the uninitialised local -/
theorem rand_init_eq_model {α : Type} (X : DOps α) (seed : Nat) (indet : pcg32_random_t) :
    rand_init X (seed : Int) indet = .ok (ofRng (Rng.init seed)) := by
  unfold rand_init
  simp only [rand_seed_eq_model, bind, Except.bind, pure, Except.pure]

/-- `rand_double`: the 32 random bits and the new state are the model's; the `double` is
`ldexp((double)bits, -32)`, uninterpreted -/
theorem rand_double_eq_model {α : Type} (X : DOps α) (g : pcg32_random_t) :
    rand_double X g = .ok (X.dldexp (X.dofU32 (toRng g).next.2) (-32), ofRng (toRng g).next.1) := by
  unfold rand_double
  simp only [pcg32_random_r_eq_model, bind, Except.bind, pure, Except.pure]

/-- the reading of the uninterpreted `double` operations on Lean's `Float` (IEEE binary64, libm `exp`) that the
concrete model `pcgSrc` of C11/C12 uses; `ldexp(x, -32)` is `x / 2^32` (exact in IEEE arithmetic) -/
def floatOps : DOps Float where
  dle a b := decide (a ≤ b)
  dlt a b := decide (a < b)
  dneg a := -a
  ddiv a b := a / b
  dexp := Float.exp
  dldexp x n := if n = -32 then x / 4294967296.0 else x.scaleB n
  dofU32 u := Float.ofNat u.toNat
  flit s := if s = "0.5" then 0.5 else 0

/-- with that reading `rand_double` is the model's `Rng.double` -/
theorem rand_double_float (g : pcg32_random_t) :
    rand_double floatOps g = .ok ((toRng g).double.2, ofRng (toRng g).double.1) := by
  rw [rand_double_eq_model]
  rfl

/-- the model's rejection loop behind `rand_int`, with "fuel exhausted" visible -/
def intO (r : Rng) (stop : Nat) (fuel : Nat) : Option (Int × pcg32_random_t) :=
  (boundedO r stop.toUInt32 fuel).map fun p => ((p.1.toNat : Int), p.2)

theorem mod_toNat_lt (x b : UInt32) (hb : b ≠ 0) : (x % b).toNat < b.toNat := by
  rw [UInt32.toNat_mod]
  apply Nat.mod_lt
  have : b.toNat ≠ 0 := fun h => hb (UInt32.toNat_inj.mp (by simpa using h))
  omega

theorem boundedO_lt (r : Rng) (b : UInt32) (hb : b ≠ 0) (fuel : Nat) (x : UInt32) (g' : pcg32_random_t)
    (h : boundedO r b fuel = some (x, g')) : x.toNat < b.toNat := by
  induction fuel generalizing r with
  | zero => simp [boundedO] at h
  | succ n ih =>
    unfold boundedO at h
    by_cases hc : r.next.2 ≥ (0 - b) % b
    · simp only [hc, if_true] at h
      cases h
      exact mod_toNat_lt _ _ hb
    · simp only [hc, if_false] at h
      exact ih _ h

/-- `rand_int(rng, stop)` for `1 <= stop <= INT_MAX`: no undefined operation, the narrowing `(int)` never
changes the value, and whenever it returns within `fuel` draws the result is the model's `Rng.int`
and lies in `[0, stop)` -/
theorem rand_int_eq_model {α : Type} (X : DOps α) (fuel : Nat) (g : pcg32_random_t) (stop : Nat)
    (h1 : 1 ≤ stop) (h2 : stop ≤ 2147483647) :
    rand_int X fuel g (stop : Int) = .ok (intO (toRng g) stop fuel) ∧
    ∀ v g', intO (toRng g) stop fuel = some (v, g') →
      (toRng g).int stop fuel = (toRng g', v.toNat) ∧ 0 ≤ v ∧ v < stop := by
  have hb : stop.toUInt32 ≠ 0 := by
    intro h
    have := congrArg UInt32.toNat h
    simp [UInt32.toNat_ofNat'] at this
    omega
  have hbn : stop.toUInt32.toNat = stop := by
    simp [UInt32.toNat_ofNat']; omega
  constructor
  · unfold rand_int
    simp only [ofInt_natCast32, (pcg32_boundedrand_r_eq_model fuel g _ hb).1, bind, Except.bind, intO]
    cases hO : boundedO (toRng g) stop.toUInt32 fuel with
    | none => rfl
    | some p =>
      obtain ⟨x, g'⟩ := p
      have hlt := boundedO_lt _ _ hb _ _ _ hO
      rw [hbn] at hlt
      have hr : (-2147483648 : Int) ≤ (x.toNat : Int) ∧ (x.toNat : Int) ≤ 2147483647 := by omega
      simp [u32ToInt, toInt, chkInt, INT_MIN, INT_MAX, hr, pure, Except.pure]
  · intro v g' h
    unfold intO at h
    cases hO : boundedO (toRng g) stop.toUInt32 fuel with
    | none => simp [hO] at h
    | some p =>
      obtain ⟨x, g''⟩ := p
      simp only [hO, Option.map_some, Option.some.injEq, Prod.mk.injEq] at h
      obtain ⟨rfl, rfl⟩ := h
      have hlt := boundedO_lt _ _ hb _ _ _ hO
      rw [hbn] at hlt
      refine ⟨?_, by omega, by omega⟩
      unfold Rng.int
      rw [boundedO_some _ _ _ _ _ hO]
      simp

