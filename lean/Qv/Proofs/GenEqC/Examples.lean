import Qv.Proofs.GenEqC.QusoSafe
import Qv.Proofs.GenEqC.PusoSafe
import Qv.Proofs.GenEqC.PcgSrc
/-!
# GenEqC.Examples — the generated definitions evaluated on concrete inputs (non-vacuity of the tie)

The hypotheses of `anneal_quso_mem_safe` / `anneal_puso_mem_safe` are satisfiable and the generated code really
computes: on the docstring examples of the two C files the definitions generated from the C text return `.ok`
with the same buffers as the checked model; on an argument outside `WF` (a neighbour equal to `N`) the generated
read of `state[neighbor]` fails; the generated PCG32 reproduces the model's first draws.
-/
namespace Qv.GenC
open Qv Qv.KMem
open Qv.Kernel (Src OfInt ofInt)

/-- a fully initialised live buffer -/
def bufOf {β : Type} (l : List β) : Buf β := ⟨(l.map some).toArray, true⟩
/-- `malloc`ed, uninitialised -/
def rawBuf {β : Type} (n : Nat) : Buf β := ⟨Array.replicate n none, true⟩

/-- a reading of the `double` operations on `ℚ` (`exp` is an arbitrary stand-in) -/
def exX : DOps Rat where
  dle a b := decide (a ≤ b)
  dlt a b := decide (a < b)
  dneg a := -a
  ddiv a b := a / b
  dexp _ := 1 / 2
  dldexp x _ := x
  dofU32 u := (u.toNat : Rat)
  flit _ := 1 / 2

/-- an arbitrary deterministic stand-in for `random.c` with `rand_int` in `[0, stop)` -/
def exR : RandExt Nat Rat where
  rand_init seed := seed.toNat
  rand_double r := (((r % 7 : Nat) : Rat) / 7, r + 1)
  rand_int r n := ((((r * 5 + 1) % n.toNat : Nat) : Int), r + 1)

def view {β : Type} (x : M (Buf Int × Buf β)) : Option (List (Option Int) × List (Option β)) :=
  x.toOption.map fun r => (r.1.cells.toList, r.2.cells.toList)

/-- `-z0 z1 + 2 z1 z2 + z0` (docstring of `anneal_quso.c`), 2 anneals, random order, random initial state:
generated = checked model, and both return -/
example :
    view (anneal_quso exX exR 2 (rawBuf 6) (rawBuf 2) 3 (bufOf [1, 0, 0]) (bufOf [1, 2, 1]) (bufOf [1, 0, 2, 1])
      (bufOf [-1, -1, 2, 2]) 3 (bufOf [2, 1, 0]) 0 0 7) =
    view (annealQuso (srcOf exX exR) 2 (rawBuf 6) (rawBuf 2) 3
      ⟨bufOf [1, 0, 0], bufOf [1, 2, 1], bufOf [1, 0, 2, 1], bufOf [-1, -1, 2, 2]⟩ 3 (bufOf [2, 1, 0]) false false 7) ∧
    (view (anneal_quso exX exR 2 (rawBuf 6) (rawBuf 2) 3 (bufOf [1, 0, 0]) (bufOf [1, 2, 1]) (bufOf [1, 0, 2, 1])
      (bufOf [-1, -1, 2, 2]) 3 (bufOf [2, 1, 0]) 0 0 7)).isSome = true := by decide +kernel

/-- in order, with the initial state `[1, -1, 1]` in both rows of `states` -/
example :
    (view (anneal_quso exX exR 2 (bufOf [1, -1, 1, 1, -1, 1]) (rawBuf 2) 3 (bufOf [1, 0, 0]) (bufOf [1, 2, 1])
      (bufOf [1, 0, 2, 1]) (bufOf [-1, -1, 2, 2]) 3 (bufOf [2, 1, 0]) 1 1 0)).isSome = true := by decide +kernel

/-- a neighbour equal to `N`: the generated `state[neighbor]` is out of bounds -/
example :
    (anneal_quso exX exR 1 (rawBuf 3) (rawBuf 1) 3 (bufOf [1, 0, 0]) (bufOf [1, 2, 1]) (bufOf [1, 0, 3, 1])
      (bufOf [-1, -1, 2, 2]) 3 (bufOf [2, 1, 0]) 1 0 0).toOption.isNone = true := by decide +kernel

/-- `z0 z1 - z1 z2 z3 + 3 z2` (docstring of `anneal_puso.c`): generated = checked model, and both return -/
example :
    view (anneal_puso exX exR 2 (rawBuf 8) (rawBuf 2) 4 3 (bufOf [2, 3, 1]) (bufOf [0, 1, 1, 2, 3, 2])
      (bufOf [1, -1, 3]) 3 (bufOf [2, 1, 0]) 0 0 3) =
    view (annealPuso true (srcOf exX exR) 2 (rawBuf 8) (rawBuf 2) 4 3
      ⟨bufOf [2, 3, 1], bufOf [0, 1, 1, 2, 3, 2], bufOf [1, -1, 3]⟩ 3 (bufOf [2, 1, 0]) false false 3) ∧
    (view (anneal_puso exX exR 2 (rawBuf 8) (rawBuf 2) 4 3 (bufOf [2, 3, 1]) (bufOf [0, 1, 1, 2, 3, 2])
      (bufOf [1, -1, 3]) 3 (bufOf [2, 1, 0]) 0 0 3)).isSome = true := by decide +kernel

/-- no term at all (the D5 shape): the generated `if(num_terms) index[0] = 0;` keeps out of the empty buffer -/
example :
    (view (anneal_puso exX exR 1 (rawBuf 3) (rawBuf 1) 3 0 (rawBuf 0) (rawBuf 0) (rawBuf 0 : Buf Rat) 2
      (bufOf [1, 1 / 2]) 1 0 0)).isSome = true := by decide +kernel

/-- `rand_int` stand-in satisfies the range hypothesis of the safety theorems -/
example : ∀ r, 0 ≤ (exR.rand_int r ((3 : Nat) : Int)).1 ∧ (exR.rand_int r ((3 : Nat) : Int)).1 < (3 : Nat) := by
  intro r
  show (0 : Int) ≤ (((r * 5 + 1) % 3 : Nat) : Int) ∧ (((r * 5 + 1) % 3 : Nat) : Int) < 3
  omega

/-- the generated PCG32, seeded as `rand_init(42)` does, draws what the model draws -/
example :
    (do let g ← rand_init exX 42 ⟨123, 456⟩
        let a ← pcg32_random_r g
        let b ← pcg32_random_r a.2
        pure [a.1, b.1]) =
    (.ok [(Rng.init 42).next.2, (Rng.init 42).next.1.next.2] : M (List UInt32)) := by decide +kernel

/-- `rand_int(rng, 10)` returns within the fuel, in range -/
example : (rand_int exX 64 (ofRng (Rng.init 42)) 10).toOption.map (fun o => o.map (fun p => decide (0 ≤ p.1 ∧ p.1 < 10)))
    = some (some true) := by decide +kernel

end Qv.GenC
