import Qv.Proofs.GenEqC.Basic
import Qv.Proofs.DynamicsSweep
/-!
# GenEqC.Accept — the acceptance expression of the generated sweep bodies satisfies the hypothesis `Metropolis`
of the C12 theorems

`srcOf X R` carries, as its `accept`, the expression `dE <= 0 || (T > 0 && rand_double(rng) < exp(-dE / T))` as
it was translated from `single_anneal_quso` / `single_anneal_puso` (`single_anneal_quso_loop1_loop1_eq_model`
proves the generated sweep body uses exactly this function).  When `<=`, `<` on the number type are the order of
`ℚ`, it satisfies the two facts the theorems of C12 assume of the acceptance test — whatever `exp`,
`rand_double`, `/` and unary `-` are.
-/
namespace Qv.GenC
open Qv Qv.Kernel

theorem accept_metropolis {ρ : Type} (X : DOps Rat) (R : RandExt ρ Rat)
    (hle : ∀ a b, X.dle a b = decide (a ≤ b)) (hlt : ∀ a b, X.dlt a b = decide (a < b)) :
    Metropolis (srcOf X R) := by
  have h0 : (ofInt 0 : Rat) = 0 := by simp [OfInt.ofInt]
  constructor
  · intro dE T r hd
    simp [srcOf, hle, h0, hd]
  · intro dE T r hT hd
    have h1 : ¬ dE ≤ 0 := by
      intro h
      exact absurd hd (by simpa using h)
    have h2 : ¬ (0 : Rat) < T := by rw [hT]; simp
    simp [srcOf, hle, hlt, h0, h1, h2]

end Qv.GenC
