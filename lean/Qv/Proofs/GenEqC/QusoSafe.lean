import Qv.Proofs.GenEqC.QusoTop
import Qv.Proofs.KernelMemRefine2
import Qv.Proofs.KernelMemFront
/-!
# GenEqC.QusoSafe — memory safety and functional correctness of the definition generated from `anneal_quso`

`anneal_quso_eq_model` (generated ⊑ checked model) composed with `KMem.annealQuso_sim` (the checked model, on
buffers holding well-formed arrays, returns `.ok` and computes what the unchecked kernel model
`Kernel.annealQuso` of C11/C12 computes).
-/
namespace Qv.GenC
open Qv Qv.KMem
open Qv.Kernel (Src OfInt ofInt)

variable {α ρ : Type} [Add α] [Mul α] [OfInt α]

/-- `rand_int(rng, N)` in `[0, N)` makes the induced source satisfy the model's hypothesis `IndexOK` -/
theorem srcOf_indexOK (X : DOps α) (R : RandExt ρ α) (N : Nat)
    (hR : ∀ r, 0 ≤ (R.rand_int r (N : Int)).1 ∧ (R.rand_int r (N : Int)).1 < N) : IndexOK (srcOf X R) N := by
  intro r
  show (R.rand_int r (N : Int)).1.toNat < N
  have := hR r
  omega

/-- **The code generated from `anneal_quso.c`, on buffers that hold well-formed arrays (`QCtxR`: what `c_anneal_quso`
marshals from the front end's lists), returns without a memory error — every generated access in bounds,
initialised and live, every generated `int`/`long` operation in range, `index`, `state` and the cache freed — and
leaves in `states`/`values` exactly the results of the unchecked kernel model `Kernel.annealQuso` (the model of
C11/C12), for every number type, every `random.c` whose `rand_int` stays in `[0, N)`, every schedule, both
visiting orders, with or without initial state.** -/
theorem anneal_quso_mem_safe (X : DOps α) (R : RandExt ρ α) {q : QusoB α} {N : Nat} {Q : Kernel.Quso α}
    (c : QCtxR q N Q) (hN1 : 1 ≤ N)
    (hR : ∀ r, 0 ≤ (R.rand_int r (N : Int)).1 ∧ (R.rand_int r (N : Int)).1 < N)
    (in_order isp seed : Int) (init : List Int) (hisp : decide (isp ≠ 0) = decide (init.length ≠ 0))
    {Ts : List α} {TsB : Buf α} (hT : TsB.Upto Ts.length Ts.length (Is Ts (ofInt 0))) (na : Nat)
    (htot : na * N ≤ 2147483647) {states : Buf Int} (hl : states.live = true) (hsz : states.cells.size = na * N)
    (hinit : init.length ≠ 0 → Kernel.GoodState N init)
    (hrows : init.length ≠ 0 → ∀ r, r < na → RowIs states N r init) {values : Buf α} {p0 : Nat → α → Prop}
    (hv : values.Upto na 0 p0) :
    Ok (anneal_quso X R (na : Int) states values (N : Int) q.h q.nn q.nb q.J (Ts.length : Int) TsB in_order isp seed)
      (fun r => OutR na N r.1 r.2
        (Kernel.annealQuso (srcOf X R) Q N Ts (decide (in_order ≠ 0)) init na (R.rand_init seed))) := by
  obtain ⟨r, hr, hout⟩ := annealQuso_sim c hN1 (srcOf_indexOK X R N hR) (decide (in_order ≠ 0)) init hT na htot hl hsz
    hinit hrows hv (R.rand_init seed)
  rw [← hisp] at hr
  exact ⟨r, anneal_quso_eq_model X R (na : Int) states values N q Ts.length TsB in_order isp seed c.N_le
    (fun r => (hR r).1) r hr, hout⟩

end Qv.GenC
