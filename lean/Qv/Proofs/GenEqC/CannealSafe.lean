import Qv.Proofs.GenEqC.CannealPuso
import Qv.Proofs.GenEqC.QusoSafe
import Qv.Proofs.GenEqC.PusoSafe
import Qv.Model.AnnealSrc
/-!
# GenEqC.CannealSafe — front end -> wrapper -> kernel, all three generated from the source (unit tag `cw`)

`c_anneal_quso_eq_model` / `c_anneal_puso_eq_model` (the wrapper and the kernel generated from the C text refine the
checked-memory model) composed with the model's own theorems (`cAnnealQuso_ok`, `cAnnealQuso_refines`,
`cAnnealPuso_ok`, `cAnnealPuso_refines`: on `WF` lists the model returns, with the results of the unchecked kernel
model of C11/C12) and with T17.2 (`qusoArgs_wf`, `flattenPuso_wf`, `prep_call`: the Python front end — itself tied to
`qubovert/sim/_anneal.py` by `Qv.Gen.anneal_quso_flatten_eq_model`, `anneal_quso_state_eq_model`, … — hands over
`WF` lists):

* `c_anneal_quso_mem_safe` / `c_anneal_puso_mem_safe` — on `WF` Python lists the generated wrapper returns `.ok`
  (every buffer access of wrapper and kernel in bounds, initialised and live; every `PyList_GetItem` /
  `PyList_SetItem` index inside its list; no `int`/`long` overflow or narrowing; every `malloc` freed exactly once),
  and its result object is `(states, values)` with `num_anneals` rows of `len_state` spins, equal to the result of
  `Kernel.annealQuso` / `annealPuso`;
* `c_anneal_quso_front_safe` / `c_anneal_puso_front_safe` — the same from the front end's `prep` / `flatten`, and
  the object returned is exactly the value the tie of `_anneal.py` instantiates `c_anneal_quso` / `c_anneal_puso`
  with (`Anneal.extQuso` / `extPuso`).

Assumed (not proved): the reading of the CPython API in `Qv/Gen/CPreludePy.lean` (values, no reference counts),
success of `PyArg_ParseTuple`, the allocator (`malloc` never returns `NULL`), `rand_int(rng, N)` in `[0, N)` (proved
for the PCG32 model: `rand_int_pcgRand`, `pcgRand_range`), `double` arithmetic abstract.
-/
set_option linter.unusedSimpArgs false
set_option linter.unusedVariables false
namespace Qv.GenC
open Qv Qv.KMem Qv.Anneal
open Qv.Kernel (Src OfInt ofInt)

variable {α ρ : Type} [Add α] [Mul α] [OfInt α]

/-- a Python list of floats -/
def cwFloats (l : List α) : List (PyObj α) := l.map PyObj.float

omit [Add α] [Mul α] [OfInt α] in
theorem cwFloats_num (l : List α) : ∀ o ∈ cwFloats l, cwIsNum o := by
  intro o ho
  obtain ⟨x, _, rfl⟩ := List.mem_map.mp ho
  trivial

omit [Add α] [Mul α] in
theorem cwFloats_val (l : List α) : (cwFloats l).map cwNum = l := by
  simp [cwFloats, List.map_map, Function.comp_def, cwNum]

omit [Add α] [Mul α] [OfInt α] in
theorem cw_mapM_map {β γ δ : Type} (f : β → γ) (g : γ → Option δ) (k : β → δ) (hk : ∀ x, g (f x) = some (k x)) :
    ∀ l : List β, (l.map f).mapM g = some (l.map k)
  | [] => rfl
  | a :: r => by simp [List.mapM_cons, hk, cw_mapM_map f g k hk r]

omit [Add α] [Mul α] [OfInt α] in
/-- the result object reads back as the model's `(states, values)` -/
theorem cwView_cwResult (out : List (List Int × α)) : cwView (cwResult out) = some (unzipOut out) := by
  unfold cwView cwResult unzipOut
  have h1 : ∀ r : List Int, (r.map (PyObj.int : Int → PyObj α)).mapM (fun (x : PyObj α) => match x with
      | .int n => some n
      | _ => none) = some r := fun r => by
    have := cw_mapM_map (PyObj.int : Int → PyObj α) (fun (x : PyObj α) => match x with
      | .int n => some n
      | _ => none) id (fun _ => rfl) r
    simpa using this
  simp only
  rw [cw_mapM_map (fun sv : List Int × α => (PyObj.list (sv.1.map PyObj.int) : PyObj α)) _ Prod.fst (fun sv => h1 sv.1),
    cw_mapM_map (fun sv : List Int × α => (PyObj.float sv.2 : PyObj α)) _ Prod.snd (fun _ => rfl)]
  rfl

theorem cw_ok_of_eq {β : Type} {x : M β} {P : β → Prop} {a : β} (h : Ok x P) (e : x = .ok a) : P a := by
  obtain ⟨b, hb, hP⟩ := h
  rw [e] at hb
  cases hb
  exact hP

/-! ## QUSO -/

/-- **Wrapper + kernel, both generated from the C text, on `WF` Python lists** (`h`, `J`, `Ts` numbers;
`num_neighbors`, `neighbors` the naturals the front end produces; `initial_state` ints): the call returns without a
memory or API error, and its result object is `(states, values)` of `Kernel.annealQuso`: `num_anneals` rows of
`len(h)` spins. -/
theorem c_anneal_quso_mem_safe (X : DOps α) (R : RandExt ρ α) (h J Ts : List (PyObj α)) (nn nb : List Nat)
    (init : List Int) (numAnneals in_order seed : Int) (hh : ∀ o ∈ h, cwIsNum o) (hJ : ∀ o ∈ J, cwIsNum o)
    (hTs : ∀ o ∈ Ts, cwIsNum o)
    (hR : ∀ r, 0 ≤ (R.rand_int r (h.length : Int)).1 ∧ (R.rand_int r (h.length : Int)).1 < h.length)
    (wf : WFQuso (h.map cwNum) (nn.map Int.ofNat) (nb.map Int.ofNat) (J.map cwNum) (Ts.map cwNum) numAnneals init) :
    ∃ out, c_anneal_quso X R (PyObj.list h) (cwInts (nn.map Int.ofNat)) (cwInts (nb.map Int.ofNat)) (PyObj.list J)
        (PyObj.list Ts) numAnneals in_order (cwInts init) seed = .ok (cwResult out) ∧
      out = Kernel.annealQuso (srcOf X R) ⟨h.map cwNum, nn, nb, J.map cwNum⟩ h.length (Ts.map cwNum)
        (decide (in_order ≠ 0)) init numAnneals.toNat (R.rand_init seed) ∧
      out.length = numAnneals.toNat ∧ (∀ sv ∈ out, sv.1.length = h.length ∧ ∀ x ∈ sv.1, x = 1 ∨ x = -1) ∧
      cwView (cwResult out) = some (unzipOut out) := by
  have hsrc : IndexOK (srcOf X R) (h.map cwNum).length := by
    rw [List.length_map]; exact srcOf_indexOK X R _ hR
  obtain ⟨out, e, h1, h2⟩ := cAnnealQuso_ok (srcOf X R) _ _ _ _ _ numAnneals (decide (in_order ≠ 0)) init
    (R.rand_init seed) hsrc wf
  have e' := cAnnealQuso_refines (srcOf X R) ⟨h.map cwNum, nn, nb, J.map cwNum⟩ (Ts.map cwNum) numAnneals
    (decide (in_order ≠ 0)) init (R.rand_init seed) hsrc wf
  simp only [List.length_map] at e' h2
  refine ⟨out, ?_, ?_, h1, h2, cwView_cwResult out⟩
  · exact c_anneal_quso_eq_model X R h J Ts _ _ init numAnneals in_order seed hh hJ hTs (fun r => (hR r).1) _
      (by rw [e]; rfl)
  · rw [e] at e'; cases e'; rfl

/-- **Front end -> wrapper -> kernel (QUSO).**  Whenever `anneal_quso` of `_anneal.py` reaches the C call (`prep`:
`num_anneals >= 1`, `N >= 1`, initial state relabelled and spin valued) and its flattening loop does not raise, the
wrapper generated from `_canneal.c`, called with the lists the front end built, returns without memory or API error,
and the object it returns is what the tie of `_anneal.py` assumes of `c_anneal_quso` (`extQuso` with the source
induced by the generated kernel): the chain `_anneal.py` -> `_canneal.c` -> `anneal_quso.c` is closed. -/
theorem c_anneal_quso_front_safe (X : DOps α) (R : RandExt ρ α) (toNum : Rat → α)
    (dispatch : Obj → Except Err (Nat × Poly × List Var)) (L : Obj) (P : Params ρ α) (c : Call α)
    (hprep : prep dispatch L P = .ok (.call c)) (hv : ∀ d, P.init = some d → ∀ p ∈ d, p.2 = 1 ∨ p.2 = -1)
    (h : List Rat) (adj : List (List (Nat × Rat))) (hf : flattenQuso c.N c.model = .ok (h, adj))
    (hR : ∀ r, 0 ≤ (R.rand_int r (c.N : Int)).1 ∧ (R.rand_int r (c.N : Int)).1 < c.N)
    (htot : P.numAnneals * (c.N : Int) ≤ INT_MAX) (hJ : (adj.flatten.length : Int) ≤ INT_MAX)
    (hTs : (c.Ts.length : Int) ≤ INT_MAX) (in_order seed : Int) :
    ∃ out, c_anneal_quso X R (PyObj.list (cwFloats (qusoArgs toNum h adj).h))
        (cwInts ((qusoArgs toNum h adj).nn.map Int.ofNat)) (cwInts ((qusoArgs toNum h adj).nb.map Int.ofNat))
        (PyObj.list (cwFloats (qusoArgs toNum h adj).J)) (PyObj.list (cwFloats c.Ts)) P.numAnneals in_order
        (cwInts c.init) seed = .ok (cwResult out) ∧
      extQuso (srcOf X R) R.rand_init (qusoArgs toNum h adj).h (qusoArgs toNum h adj).nn (qusoArgs toNum h adj).nb
        (qusoArgs toNum h adj).J c.Ts P.numAnneals in_order c.init seed = .ok (unzipOut out) ∧
      cwView (cwResult out) = some (unzipOut out) ∧ out.length = P.numAnneals.toNat ∧
      ∀ sv ∈ out, sv.1.length = c.N ∧ ∀ x ∈ sv.1, x = 1 ∨ x = -1 := by
  obtain ⟨hna, hN, hinit⟩ := prep_call dispatch L P c hprep hv
  have wf := qusoArgs_wf toNum hf hN c.Ts P.numAnneals c.init hinit hna htot hJ hTs
  have hlen : (qusoArgs toNum h adj).h.length = c.N := by simp [qusoArgs, (flattenQuso_flat hf).1]
  have hlen' : (cwFloats (qusoArgs toNum h adj).h).length = c.N := by simp [cwFloats, hlen]
  obtain ⟨out, e, hout, h1, h2, h3⟩ := c_anneal_quso_mem_safe X R (cwFloats (qusoArgs toNum h adj).h)
    (cwFloats (qusoArgs toNum h adj).J) (cwFloats c.Ts) (qusoArgs toNum h adj).nn (qusoArgs toNum h adj).nb c.init
    P.numAnneals in_order seed (cwFloats_num _) (cwFloats_num _) (cwFloats_num _) (by rw [hlen']; exact hR)
    (by simp only [cwFloats_val]; exact wf)
  refine ⟨out, e, ?_, h3, h1, ?_⟩
  · simp only [cwFloats_val, hlen'] at hout
    unfold extQuso
    rw [hout, hlen]
  · rw [hlen'] at h2; exact h2

/-! ## PUSO -/

omit [Add α] [Mul α] in
/-- on `WF` lists the buffers the conversion loops of `c_anneal_puso` fill hold the arrays (`PCtxR`, the hypothesis of
the kernel's safety theorem) -/
theorem cw_pctx {N : Nat} (P : Kernel.Puso α) (Ts : List α) (numAnneals : Int) (init : List Int)
    (wf : WFPuso (N : Int) (P.nc.map Int.ofNat) (P.terms.map Int.ofNat) P.cs Ts numAnneals init) (p : PusoB α)
    (hm : cwMarshalled (P.nc.map Int.ofNat) (P.terms.map Int.ofNat) P.cs p) : PCtxR p N P := by
  obtain ⟨hN1, hnclen, hncpos, hncsum, htermslt, hinit, hna, htot, hterms, hTs⟩ := wf
  obtain ⟨na, rfl⟩ : ∃ na : Nat, numAnneals = (na : Int) := ⟨numAnneals.toNat, by omega⟩
  simp only [INT_MAX, List.length_map] at htot hterms hTs hnclen hncsum
  rw [sum_map_ofNat] at hncsum
  have htot' : na * N ≤ 2147483647 := by
    have : ((na * N : Nat) : Int) = (na : Int) * (N : Int) := by simp
    omega
  have hna' : 1 ≤ na := by omega
  have hNle : N ≤ 2147483647 := Nat.le_trans (le_mul_right' hna') htot'
  have hncsum' : P.nc.sum = P.terms.length := by exact_mod_cast hncsum
  have htermslt' : ∀ x ∈ P.terms, x < N := fun x hx => by
    have := (htermslt (Int.ofNat x) (List.mem_map.mpr ⟨x, hx, rfl⟩)).2
    exact Int.ofNat_lt.mp this
  have hT : P.cs.length ≤ P.terms.length := by
    have h := length_le_sum_of_pos hncpos
    rw [sum_map_ofNat] at h
    simp only [List.length_map] at h
    omega
  obtain ⟨ncB0, termsB0, csB0, a1, a2, a3, m1, m2, m3⟩ := hm
  simp only [List.length_map] at a2 m1
  have hncB0 := cw_ok_of_eq (malloc_nat_ok (α := Int) P.cs.length 4 Any (by omega)) a1
  have htermsB0 := cw_ok_of_eq (malloc_nat_ok (α := Int) P.terms.length 4 Any (by omega)) a2
  have hcsB0 := cw_ok_of_eq (malloc_nat_ok (α := α) P.cs.length 8 Any (by omega)) a3
  have hnat : ∀ (l : List Nat) (i : Nat) (v : Int), (l.map Int.ofNat)[i]? = some v → v = ((l.getD i 0 : Nat) : Int) := by
    intro l i v hv
    rw [List.getElem?_map] at hv
    cases hli : l[i]? with
    | none => rw [hli] at hv; cases hv
    | some x =>
      rw [hli] at hv
      simp only [Option.map_some, Option.some.injEq] at hv
      rw [getD_of_getElem? 0 hli, ← hv]
      rfl
  have htermsB := cw_ok_of_eq (marshal_ok (p := IsN P.terms) htermsB0 (by simp) fun i v hi hv => by
    have hv' := hnat P.terms i v hv
    have hmem : P.terms.getD i 0 ∈ P.terms := Kernel.getD_mem 0 (by omega)
    have := htermslt' _ hmem
    exact (toInt_ok (by omega)).mono fun w hw => by rw [hw]; exact hv') m1
  have hncB := cw_ok_of_eq (marshal_ok (p := IsN P.nc) hncB0 (by simp; omega) fun i v hi hv => by
    have hv' := hnat P.nc i v hv
    have hmem : P.nc.getD i 0 ∈ P.nc := Kernel.getD_mem 0 (by omega)
    have := nat_le_sum_of_mem hmem
    exact (toInt_ok (by omega)).mono fun w hw => by rw [hw]; exact hv') m2
  have hcsB := cw_ok_of_eq (marshal_ok (p := Is P.cs (ofInt 0)) hcsB0 (by omega) fun i v _ hv =>
    Ok.pure (getD_of_getElem? _ hv).symm) m3
  exact { ncB := hncB, terms := htermsB, cs := hcsB, nc_len := hnclen, nc_sum := hncsum', terms_lt := htermslt',
          terms_le := by omega, T_le := by omega, N_le := hNle }

/-- **Wrapper + kernel (PUSO), both generated from the C text, on `WF` Python lists** — with or without terms. -/
theorem c_anneal_puso_mem_safe (X : DOps α) (R : RandExt ρ α) (N : Nat) (cs Ts : List (PyObj α)) (nc terms : List Nat)
    (init : List Int) (numAnneals in_order seed : Int) (hcs : ∀ o ∈ cs, cwIsNum o) (hTs : ∀ o ∈ Ts, cwIsNum o)
    (hR : ∀ r, 0 ≤ (R.rand_int r (N : Int)).1 ∧ (R.rand_int r (N : Int)).1 < N)
    (wf : WFPuso (N : Int) (nc.map Int.ofNat) (terms.map Int.ofNat) (cs.map cwNum) (Ts.map cwNum) numAnneals init) :
    ∃ out, c_anneal_puso X R (N : Int) (cwInts (nc.map Int.ofNat)) (cwInts (terms.map Int.ofNat)) (PyObj.list cs)
        (PyObj.list Ts) numAnneals in_order (cwInts init) seed = .ok (cwResult out) ∧
      out = Kernel.annealPuso (srcOf X R) ⟨nc, terms, cs.map cwNum⟩ N (Ts.map cwNum) (decide (in_order ≠ 0)) init
        numAnneals.toNat (R.rand_init seed) ∧
      out.length = numAnneals.toNat ∧ (∀ sv ∈ out, sv.1.length = N ∧ ∀ x ∈ sv.1, x = 1 ∨ x = -1) ∧
      cwView (cwResult out) = some (unzipOut out) := by
  have hsrc : IndexOK (srcOf X R) N := srcOf_indexOK' X R N hR
  obtain ⟨out, e, h1, h2⟩ := cAnnealPuso_ok true (srcOf X R) (N : Int) _ _ _ _ numAnneals (decide (in_order ≠ 0)) init
    (R.rand_init seed) (by simpa using hsrc) wf (Or.inl rfl)
  have e' := cAnnealPuso_refines (srcOf X R) N ⟨nc, terms, cs.map cwNum⟩ (Ts.map cwNum) numAnneals
    (decide (in_order ≠ 0)) init (R.rand_init seed) hsrc wf
  simp only [Int.toNat_natCast] at h2
  refine ⟨out, ?_, ?_, h1, h2, cwView_cwResult out⟩
  · refine c_anneal_puso_eq_model X R N cs Ts _ _ init numAnneals in_order seed hcs hTs (fun r => (hR r).1) ?_ _
      (by rw [e]; rfl)
    intro p sg0 is hm h0 h1
    have ctx : PCtxR p N ⟨nc, terms, cs.map cwNum⟩ := cw_pctx ⟨nc, terms, cs.map cwNum⟩ (Ts.map cwNum) numAnneals init wf p hm
    obtain ⟨sg0', e0, hsg0⟩ := initSubgraphs_sim (N := N) (cs.map cwNum).length ctx.N_le
    rw [h0] at e0
    cases e0
    obtain ⟨is', e1, _, hsg⟩ := mkIndexSubgraphs_sim ctx hsg0
    simp only [List.length_map] at e1
    rw [h1] at e1
    cases e1
    exact smallRows_of_SgR hsg ctx.terms_le
  · rw [e] at e'; cases e'; rfl

/-- **Front end -> wrapper -> kernel (PUSO).**  As `c_anneal_quso_front_safe`, for `anneal_puso` of `_anneal.py`: the
lists `flattenPuso` builds from a model whose labels are `< N`. -/
theorem c_anneal_puso_front_safe (X : DOps α) (R : RandExt ρ α) (toNum : Rat → α)
    (dispatch : Obj → Except Err (Nat × Poly × List Var)) (L : Obj) (P : Params ρ α) (c : Call α)
    (hprep : prep dispatch L P = .ok (.call c)) (hv : ∀ d, P.init = some d → ∀ p ∈ d, p.2 = 1 ∨ p.2 = -1)
    (hl : ∀ kv ∈ c.model, ∀ l ∈ kv.1, l < c.N)
    (hR : ∀ r, 0 ≤ (R.rand_int r (c.N : Int)).1 ∧ (R.rand_int r (c.N : Int)).1 < c.N)
    (htot : P.numAnneals * (c.N : Int) ≤ INT_MAX)
    (hterms : ((flattenPuso toNum c.model).terms.length : Int) < INT_MAX) (hTs : (c.Ts.length : Int) ≤ INT_MAX)
    (in_order seed : Int) :
    ∃ out, c_anneal_puso X R (c.N : Int) (cwInts ((flattenPuso toNum c.model).nc.map Int.ofNat))
        (cwInts ((flattenPuso toNum c.model).terms.map Int.ofNat)) (PyObj.list (cwFloats (flattenPuso toNum c.model).cs))
        (PyObj.list (cwFloats c.Ts)) P.numAnneals in_order (cwInts c.init) seed = .ok (cwResult out) ∧
      extPuso (srcOf X R) R.rand_init c.N (flattenPuso toNum c.model).nc (flattenPuso toNum c.model).terms
        (flattenPuso toNum c.model).cs c.Ts P.numAnneals in_order c.init seed = .ok (unzipOut out) ∧
      cwView (cwResult out) = some (unzipOut out) ∧ out.length = P.numAnneals.toNat ∧
      ∀ sv ∈ out, sv.1.length = c.N ∧ ∀ x ∈ sv.1, x = 1 ∨ x = -1 := by
  obtain ⟨hna, hN, hinit⟩ := prep_call dispatch L P c hprep hv
  have wf := flattenPuso_wf toNum hl hN c.Ts P.numAnneals c.init hinit hna htot hterms hTs
  obtain ⟨out, e, hout, h1, h2, h3⟩ := c_anneal_puso_mem_safe X R c.N (cwFloats (flattenPuso toNum c.model).cs)
    (cwFloats c.Ts) (flattenPuso toNum c.model).nc (flattenPuso toNum c.model).terms c.init P.numAnneals in_order seed
    (cwFloats_num _) (cwFloats_num _) hR (by simp only [cwFloats_val]; exact wf)
  refine ⟨out, e, ?_, h3, h1, h2⟩
  simp only [cwFloats_val] at hout
  have hlt : (flattenPuso toNum c.model).terms.any (· ≥ c.N) = false := by
    rw [List.any_eq_false]
    intro x hx
    have := (wf.2.2.2.2.1 (Int.ofNat x) (List.mem_map.mpr ⟨x, hx, rfl⟩)).2
    have : x < c.N := Int.ofNat_lt.mp this
    simp; omega
  unfold extPuso
  rw [hlt, hout]
  simp

end Qv.GenC
