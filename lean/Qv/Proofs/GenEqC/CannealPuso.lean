import Qv.Proofs.GenEqC.CannealQuso
import Qv.Proofs.GenEqC.PusoTop
/-!
# GenEqC.CannealPuso — the definition generated from `c_anneal_puso` (`_canneal.c`) refines `KMem.cAnnealPuso true`
(unit tag `cw`)

As `CannealQuso`: `Ts` is allocated with the length of the schedule list, `num_couplings` and `couplings` with the
length of `couplings` (`long num_terms`, no narrowing), `terms` with the length of `terms`; every conversion loop
stays inside the buffer it fills and the list it reads; the initial state is written into every row of `states`
with the index formed in `long`; the kernel generated from `anneal_puso.c` is called with these buffers and
`num_terms = len(couplings)`; all six buffers are freed exactly once.  The side condition of `anneal_puso_eq_model`
on the row counts of `subgraphs` is carried (`hsm`) for the marshalled buffers (`cwMarshalled`) and discharged in
`CannealSafe` from `WFPuso`.
-/
set_option linter.unusedSimpArgs false
set_option linter.unusedVariables false
namespace Qv.GenC
open Qv.KMem
open Qv.Kernel (Src OfInt ofInt)

variable {α ρ : Type} [Add α] [Mul α] [OfInt α]

/-- `p` holds what the model's conversion loops of `c_anneal_puso` produce from the lists -/
def cwMarshalled (nc terms : List Int) (cs : List α) (p : PusoB α) : Prop :=
  ∃ ncB0 termsB0 csB0, (malloc (cs.length : Int) 4 : M (Buf Int)) = .ok ncB0 ∧
    (malloc (terms.length : Int) 4 : M (Buf Int)) = .ok termsB0 ∧ (malloc (cs.length : Int) 8 : M (Buf α)) = .ok csB0 ∧
    marshal toInt terms terms.length termsB0 = .ok p.terms ∧ marshal toInt nc cs.length ncB0 = .ok p.nc ∧
    marshal pure cs cs.length csB0 = .ok p.cs

/-- body of `for(i<len_terms) terms[i] = (int)PyLong_AsLong(PyList_GetItem(py_terms, i));` -/
theorem c_anneal_puso_loop1_eq_model (X : DOps α) (R : RandExt ρ α) (terms : List Int) (i : Nat) (tB : Buf Int) :
    c_anneal_puso_loop1 X R (cwInts terms) i tB ⊑ (pyGet terms i >>= fun o => toInt o >>= fun v => tB.wr i v) := by
  intro r hr
  have g := cw_marshal_int (α := α) terms i i tB r hr
  unfold c_anneal_puso_loop1
  simp only [bind_assoc, pure_bind']
  obtain ⟨o1, e1, g⟩ := bind_eq_ok g
  obtain ⟨v1, e2, g⟩ := bind_eq_ok g
  obtain ⟨w1, e3, g⟩ := bind_eq_ok g
  simp only [e1, e2, e3, g, ok_bind]

/-- body of `for(i<num_terms) { num_couplings[i] = (int)PyLong_AsLong(..); couplings[i] = PyFloat_AsDouble(..); }` -/
theorem c_anneal_puso_loop2_eq_model (X : DOps α) (R : RandExt ρ α) (nc : List Int) (cs : List (PyObj α))
    (hnum : ∀ o ∈ cs, cwIsNum o) (i : Nat) (ncB : Buf Int) (csB : Buf α) :
    c_anneal_puso_loop2 X R (cwInts nc) (PyObj.list cs) i (ncB, csB) ⊑
      ((pyGet nc i >>= fun o => toInt o >>= fun v => ncB.wr i v) >>= fun s' =>
        (pyGet (cs.map cwNum) i >>= fun o => (pure o : M α) >>= fun v => csB.wr i v) >>= fun t' => pure (s', t')) := by
  intro r hr
  obtain ⟨ncB', h1, hr1⟩ := bind_eq_ok hr
  obtain ⟨csB', h2, hr2⟩ := bind_eq_ok hr1
  have g1 := cw_marshal_int (α := α) nc i i ncB ncB' h1
  have g2 := cw_marshal_float cs hnum i csB csB' h2
  unfold c_anneal_puso_loop2
  simp only [bind_assoc, pure_bind']
  obtain ⟨o1, e1, g1⟩ := bind_eq_ok g1
  obtain ⟨v1, e2, g1⟩ := bind_eq_ok g1
  obtain ⟨w1, e3, g1⟩ := bind_eq_ok g1
  obtain ⟨o2, e4, g2⟩ := bind_eq_ok g2
  obtain ⟨v2, e5, g2⟩ := bind_eq_ok g2
  simp only [e1, e2, e3, e4, e5, g1, g2, ok_bind]
  exact hr2

/-- body of `for(i<len_Ts) Ts[i] = PyFloat_AsDouble(PyList_GetItem(py_Ts, i));` -/
theorem c_anneal_puso_loop3_eq_model (X : DOps α) (R : RandExt ρ α) (Ts : List (PyObj α))
    (hnum : ∀ o ∈ Ts, cwIsNum o) (i : Nat) (TsB : Buf α) :
    c_anneal_puso_loop3 X R (PyObj.list Ts) i TsB ⊑
      (pyGet (Ts.map cwNum) i >>= fun o => (pure o : M α) >>= fun v => TsB.wr i v) := by
  intro r hr
  have g := cw_marshal_float Ts hnum i TsB r hr
  unfold c_anneal_puso_loop3
  simp only [bind_assoc, pure_bind']
  obtain ⟨o1, e1, g⟩ := bind_eq_ok g
  obtain ⟨v1, e2, g⟩ := bind_eq_ok g
  simp only [e1, e2, g, ok_bind]

/-- body of the inner loop of the `if(initial_state_provided)` block, the index formed in `long` (`long i`) -/
theorem c_anneal_puso_loop4_loop1_eq_model (X : DOps α) (R : RandExt ρ α) (init : List Int) (N i j : Nat)
    (states : Buf Int) :
    c_anneal_puso_loop4_loop1 X R (N : Int) (cwInts init) i j states ⊑
      (do let ix ← flatIndex true i N j
          let o ← pyGet init j
          let v ← toInt o
          states.wr ix v) := by
  intro r hr
  unfold flatIndex at hr
  simp only [bind_assoc, pure_bind', if_true] at hr
  obtain ⟨p, e1, hr1⟩ := bind_eq_ok hr
  obtain ⟨ix, e2, hr2⟩ := bind_eq_ok hr1
  have g := cw_marshal_int (α := α) init j ix states r hr2
  obtain ⟨o1, e3, g1⟩ := bind_eq_ok g
  obtain ⟨v1, e4, g2⟩ := bind_eq_ok g1
  obtain ⟨w1, e5, g3⟩ := bind_eq_ok g2
  unfold c_anneal_puso_loop4_loop1
  -- whichever order the C text evaluates the index and the item in, every step is one the model performed
  simp only [bind_assoc, pure_bind', e1, e2, e3, e4, e5, g3, ok_bind]

/-- the `if(initial_state_provided)` block refines `encodeInit true` -/
theorem cw_puso_encode (X : DOps α) (R : RandExt ρ α) (init : List Int) (numAnneals : Int) (N : Nat)
    (states : Buf Int) :
    forFromM (c_anneal_puso_loop4 X R (N : Int) (cwInts init)) 0 numAnneals.toNat states ⊑
      encodeInit true numAnneals N init states := by
  unfold encodeInit forNM
  apply forFromM_refines; intro i st _ _
  unfold c_anneal_puso_loop4
  simp only [bind_assoc, pure_bind', Int.sub_zero, Int.toNat_natCast, bind_pure]
  show forFromM _ 0 N st ⊑ forFromM _ 0 N st
  apply forFromM_refines; intro j st' _ _
  exact c_anneal_puso_loop4_loop1_eq_model X R init N i j st'

theorem cw_noLeak_perm6 (a b c d e f : Bool) : noLeak [d, a, b, c, f, e] = noLeak [a, b, c, d, e, f] := by
  cases a <;> cases b <;> cases c <;> cases d <;> cases e <;> cases f <;> rfl

/-- **`c_anneal_puso` refines `KMem.cAnnealPuso true`** (wrapper and kernel both generated from the C text) for
`len_state = N >= 0`, Python lists of numbers `couplings`, `Ts` and lists of ints `num_couplings`, `terms`,
`initial_state`, provided the rows `anneal_puso` builds from the marshalled buffers have counts below `LONG_MAX`
(`hsm`; discharged from `WFPuso` in `CannealSafe`). -/
theorem c_anneal_puso_eq_model (X : DOps α) (R : RandExt ρ α) (N : Nat) (cs Ts : List (PyObj α))
    (nc terms init : List Int) (numAnneals in_order seed : Int) (hcs : ∀ o ∈ cs, cwIsNum o)
    (hTs : ∀ o ∈ Ts, cwIsNum o) (hR : ∀ r, 0 ≤ (R.rand_int r (N : Int)).1)
    (hsm : ∀ (p : PusoB α) sg0 is, cwMarshalled nc terms (cs.map cwNum) p → initSubgraphs N = .ok sg0 →
      mkIndexSubgraphs true p cs.length sg0 = .ok is → SmallRows is.2) :
    c_anneal_puso X R (N : Int) (cwInts nc) (cwInts terms) (PyObj.list cs) (PyObj.list Ts) numAnneals in_order
        (cwInts init) seed ⊑
      (cAnnealPuso true (srcOf X R) (N : Int) nc terms (cs.map cwNum) (Ts.map cwNum) numAnneals
        (decide (in_order ≠ 0)) init (R.rand_init seed) >>= fun out => pure (cwResult out)) := by
  unfold c_anneal_puso cAnnealPuso
  simp only [cwListSize_list, cwListSize_ints, ok_bind, bind_assoc, pure_bind', List.length_map, Int.sub_zero]
  -- the model's range check of the `i` format
  refine Refines.bind_right fun lenState e0 => ?_
  obtain ⟨rfl, _, hN⟩ := toInt_ok_eq e0
  refine Refines.bind (Refines.refl _) fun lenTs e1 => ?_
  obtain ⟨rfl, _, _⟩ := toInt_ok_eq e1
  refine Refines.bind (Refines.refl _) fun TsB0 _ => ?_
  refine Refines.bind_right fun numTerms e2 => ?_
  obtain ⟨rfl, _, hT⟩ := chkLong_ok_eq e2
  refine Refines.bind (Refines.refl _) fun ncB0 hnc0 => ?_
  refine Refines.bind_right fun lenTerms e3 => ?_
  obtain ⟨rfl, _, _⟩ := chkLong_ok_eq e3
  refine Refines.bind (Refines.refl _) fun termsB0 hterms0 => ?_
  refine Refines.bind (Refines.refl _) fun csB0 hcs0 => ?_
  simp only [Int.toNat_natCast]
  -- the terms loop
  refine Refines.bind (y := marshal toInt terms terms.length termsB0)
    (forFromM_refines _ _ terms.length 0 termsB0 fun i s _ _ => c_anneal_puso_loop1_eq_model X R terms i s)
    fun termsB htermsB => ?_
  -- the (num_couplings, couplings) loop
  refine Refines.bind2 (A := marshal toInt nc cs.length ncB0) (B := marshal pure (cs.map cwNum) cs.length csB0)
    (forFromM_fuse _ _ _ cs.length 0 ncB0 csB0 fun i s t _ _ => c_anneal_puso_loop2_eq_model X R nc cs hcs i s t)
    fun ncB csB hncB hcsB => ?_
  -- the Ts loop
  refine Refines.bind (y := marshal pure (Ts.map cwNum) Ts.length TsB0)
    (forFromM_refines _ _ Ts.length 0 TsB0 fun i s _ _ => c_anneal_puso_loop3_eq_model X R Ts hTs i s) fun TsB _ => ?_
  refine Refines.bind (Refines.refl _) fun values0 hval => ?_
  have hna := malloc_ok_nonneg hval
  refine Refines.bind (Refines.refl _) fun total _ => ?_
  refine Refines.bind (Refines.refl _) fun states0 _ => ?_
  refine Refines.bind (Refines.refl _) fun provided e4 => ?_
  obtain ⟨rfl, _, _⟩ := toInt_ok_eq e4
  -- the initial state
  rw [cw_ite_bind_pure ((init.length : Int) ≠ 0) (encodeInit true numAnneals N init states0)]
  simp only [bind_assoc, pure_bind']
  refine Refines.bind (y := if (init.length : Int) ≠ 0 then encodeInit true numAnneals N init states0
      else pure states0) ?_ fun states1 _ => ?_
  · by_cases hp : (init.length : Int) ≠ 0
    · simp only [hp, decide_true, if_true, ne_eq, not_false_eq_true, bind_pure]
      exact cw_puso_encode X R init numAnneals N states0
    · simp only [hp, decide_false, if_false, Bool.false_eq_true]
      exact Refines.refl _
  -- the kernel
  have hm : cwMarshalled nc terms (cs.map cwNum) { nc := ncB, terms := termsB, cs := csB } :=
    ⟨ncB0, termsB0, csB0, by simpa using hnc0, hterms0, by simpa using hcs0, htermsB, by simpa using hncB,
      by simpa using hcsB⟩
  refine Refines.bind (anneal_puso_eq_model X R numAnneals states1 values0 N cs.length
    { nc := ncB, terms := termsB, cs := csB } Ts.length TsB in_order (init.length : Int) seed (by omega) hR
    (fun sg0 is h0 h1 => hsm _ sg0 is hm h0 h1)) fun sv _ => ?_
  -- the result lists
  refine Refines.bind_map (build_py_states_values_eq_model X R numAnneals N sv.1 sv.2 hna) fun out _ => ?_
  -- the six frees
  refine Refines.bind (Refines.refl _) fun b1 _ => ?_
  refine Refines.bind (Refines.refl _) fun b2 _ => ?_
  refine Refines.bind (Refines.refl _) fun b3 _ => ?_
  refine Refines.bind (Refines.refl _) fun b4 _ => ?_
  refine Refines.bind (Refines.refl _) fun b5 _ => ?_
  refine Refines.bind (Refines.refl _) fun b6 _ => ?_
  rw [cw_noLeak_perm6]
  exact Refines.refl _

end Qv.GenC
