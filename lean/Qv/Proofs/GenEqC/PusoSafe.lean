import Qv.Proofs.GenEqC.PusoTop
import Qv.Proofs.KernelMemRefineP
/-!
# GenEqC.PusoSafe — memory safety and functional correctness of the definition generated from `anneal_puso`

`anneal_puso_eq_model` (generated ⊑ checked model) composed with `KMem.annealPuso_sim`; the side condition on
the row counts (`SmallRows`) is discharged from `initSubgraphs_sim` / `mkIndexSubgraphs_sim`.
-/
namespace Qv.GenC
open Qv Qv.KMem
open Qv.Kernel (Src OfInt ofInt)

variable {α ρ : Type} [Add α] [Mul α] [OfInt α]

theorem cell_of_rd {β : Type} {b : Buf β} {i : Int} {v : β} (h : b.rd i = .ok v) :
    b.cells[i.toNat]? = some (some v) := by
  unfold Buf.rd at h
  by_cases hl : b.live = false
  · simp [hl] at h
  · by_cases hi : i < 0
    · simp [hl, hi] at h
    · simp only [hl, hi, if_false] at h
      cases hc : b.cells[i.toNat]? with
      | none => rw [hc] at h; cases h
      | some o =>
        rw [hc] at h
        cases o with
        | none => cases h
        | some w => cases h; rfl

/-- the rows `anneal_puso` builds have counts in `[0, LONG_MAX)`: a count is the number of terms a spin occurs in -/
theorem smallRows_of_SgR {N T : Nat} {sg : Buf (Buf Int)} {L : List (List Nat)} {c : Nat} (h : SgR N T sg L c)
    (hc : c < 2147483647) : SmallRows sg := by
  intro spin row cnt hrow hcnt
  obtain ⟨hL, hU, hl⟩ := h
  have hin := inB_of_rd hrow
  have hcell := cell_of_rd hrow
  have hlt : spin.toNat < N := by rw [← hU.size]; exact hin.2.2
  obtain ⟨row', hrow', hR⟩ := hU.init spin.toNat hlt
  rw [hcell] at hrow'
  cases hrow'
  obtain ⟨_, _, h0, _⟩ := hR
  have h0' := cell_of_rd hcnt
  simp only [Int.toNat_zero] at h0'
  rw [h0] at h0'
  cases h0'
  have := (hl _ (Kernel.getD_mem [] (by rw [hL]; exact hlt))).1
  omega

omit [Add α] [Mul α] in
theorem srcOf_indexOK' (X : DOps α) (R : RandExt ρ α) (N : Nat)
    (hR : ∀ r, 0 ≤ (R.rand_int r (N : Int)).1 ∧ (R.rand_int r (N : Int)).1 < N) : IndexOK (srcOf X R) N := by
  intro r
  show (R.rand_int r (N : Int)).1.toNat < N
  have := hR r
  omega

/-- **The code generated from `anneal_puso.c`, on buffers that hold well-formed arrays (`PCtxR`: what `c_anneal_puso`
marshals from the front end's lists — with or without terms), returns without a memory error — every generated
access in bounds, initialised and live, every `malloc`/`realloc`/`free` of the rows of `subgraphs` matched, every
generated `int`/`long` operation in range — and leaves in `states`/`values` exactly the results of the unchecked
kernel model `Kernel.annealPuso` (the model of C11/C12).** -/
theorem anneal_puso_mem_safe (X : DOps α) (R : RandExt ρ α) {p : PusoB α} {N : Nat} {P : Kernel.Puso α}
    (c : PCtxR p N P) (hR : ∀ r, 0 ≤ (R.rand_int r (N : Int)).1 ∧ (R.rand_int r (N : Int)).1 < N)
    (in_order isp seed : Int) (init : List Int) (hisp : decide (isp ≠ 0) = decide (init.length ≠ 0))
    {Ts : List α} {TsB : Buf α} (hT : TsB.Upto Ts.length Ts.length (Is Ts (ofInt 0))) (na : Nat)
    (htot : na * N ≤ 2147483647) {states : Buf Int} (hl : states.live = true) (hsz : states.cells.size = na * N)
    (hinit : init.length ≠ 0 → Kernel.GoodState N init)
    (hrows : init.length ≠ 0 → ∀ r, r < na → RowIs states N r init) {values : Buf α} {p0 : Nat → α → Prop}
    (hv : values.Upto na 0 p0) :
    Ok (anneal_puso X R (na : Int) states values (N : Int) (P.cs.length : Int) p.nc p.terms p.cs (Ts.length : Int) TsB
        in_order isp seed)
      (fun r => OutR na N r.1 r.2
        (Kernel.annealPuso (srcOf X R) P N Ts (decide (in_order ≠ 0)) init na (R.rand_init seed))) := by
  obtain ⟨r, hr, hout⟩ := annealPuso_sim c (srcOf_indexOK' X R N hR) (decide (in_order ≠ 0)) init hT na htot hl hsz
    hinit hrows hv (R.rand_init seed)
  rw [← hisp] at hr
  refine ⟨r, anneal_puso_eq_model X R (na : Int) states values N P.cs.length p Ts.length TsB in_order isp seed
    (by have := c.T_le; omega) (fun r => (hR r).1) ?_ r hr, hout⟩
  intro sg0 is h0 h1
  obtain ⟨sg0', e0, hsg0⟩ := initSubgraphs_sim (N := N) P.cs.length c.N_le
  rw [h0] at e0
  cases e0
  obtain ⟨is', e1, _, hsg⟩ := mkIndexSubgraphs_sim c hsg0
  rw [h1] at e1
  cases e1
  exact smallRows_of_SgR hsg c.terms_le

end Qv.GenC
