import Qv.Gen.CSourceCanneal
import Qv.Proofs.GenEqC.Basic
/-!
# GenEqC.CannealLib — vocabulary and generic lemmas for the tie of `qubovert/sim/_canneal.c` (unit tag `cw`)

* how the Python lists the front end passes are presented to the generated wrapper (`cwInts`, lists of numbers,
  `cwNum`) and how the wrapper's result object is read back (`cwResult`);
* refinement combinators beyond `GenEqC.Basic`: a C loop that fills two buffers per iteration against the two
  `marshal` loops of the hand-written model (`forFromM_fuse`), loops related through an index-dependent
  abstraction with an invariant (`forFromM_refines_inv`), binding through an abstraction (`Refines.bind_map`);
* the readings of `PyList_GetItem` / `PyLong_AsLong` / `PyFloat_AsDouble` on those lists.
-/
namespace Qv.GenC
open Qv.KMem
open Qv.Kernel (OfInt ofInt)

section
variable {α : Type}

/-- a Python list of ints -/
def cwInts (l : List Int) : PyObj α := .list (l.map .int)

/-- a Python number (`float`, or `int` — an explicit schedule may contain ints) -/
def cwIsNum : PyObj α → Prop
  | .float _ => True
  | .int _ => True
  | _ => False

/-- the C `double` `PyFloat_AsDouble` yields for a Python number -/
def cwNum [OfInt α] : PyObj α → α
  | .float x => x
  | .int n => ofInt n
  | _ => ofInt 0

/-- the Python object `(states, values)` for the model's list of `(state, value)` pairs -/
def cwResult (out : List (List Int × α)) : PyObj α :=
  PyObj.tuple [PyObj.list (out.map fun sv => PyObj.list (sv.1.map PyObj.int)),
    PyObj.list (out.map fun sv => PyObj.float sv.2)]

/-- reading the result object back: `some (states, values)` iff it is a pair of a list of lists of ints and a
list of floats -/
def cwView (o : PyObj α) : Option (List (List Int) × List α) :=
  match o with
  | .tuple [.list ss, .list vs] =>
    (ss.mapM fun (s : PyObj α) => match s with
      | .list r => r.mapM fun (x : PyObj α) => match x with
        | .int n => some n
        | _ => none
      | _ => none).bind fun ss' =>
    (vs.mapM fun (v : PyObj α) => match v with
      | .float x => some x
      | _ => none).map fun vs' => (ss', vs')
  | _ => none

end

/-! ## refinement combinators -/

theorem Refines.bind_map {β β' γ : Type} {x : M β'} {y : M β} {f : β → β'} {F : β' → M γ} {G : β → M γ}
    (h : x ⊑ (y >>= fun b => pure (f b))) (hf : ∀ b, y = .ok b → F (f b) ⊑ G b) : (x >>= F) ⊑ (y >>= G) := by
  intro v hv
  obtain ⟨b, hb, hg⟩ := bind_eq_ok hv
  have := h (f b) (by rw [hb]; rfl)
  rw [this]
  exact hf b hb v hg

theorem Refines.bind2 {β γ δ : Type} {x : M (β × γ)} {A : M β} {B : M γ} {F : β × γ → M δ} {G : β → γ → M δ}
    (h : x ⊑ (A >>= fun a => B >>= fun b => pure (a, b))) (hf : ∀ a b, A = .ok a → B = .ok b → F (a, b) ⊑ G a b) :
    (x >>= F) ⊑ (A >>= fun a => B >>= fun b => G a b) := by
  intro v hv
  obtain ⟨a, ha, hv⟩ := bind_eq_ok hv
  obtain ⟨b, hb, hv⟩ := bind_eq_ok hv
  have := h (a, b) (by rw [ha, hb]; rfl)
  rw [this]
  exact hf a b ha hb v hv

/-- the generated side's first step is known to succeed with a value the model computes in a later step -/
theorem Refines.of_ok {β : Type} {x y : M β} (h : ∀ v, y = .ok v → x = .ok v) : x ⊑ y := h

/-- a loop that updates two independent accumulators per iteration against the two separate loops -/
theorem forFromM_fuse {σ τ : Type} (f : Nat → σ → M σ) (g : Nat → τ → M τ) (b : Nat → σ × τ → M (σ × τ)) :
    ∀ (k a : Nat) (s : σ) (t : τ),
      (∀ i s t, a ≤ i → i < a + k → b i (s, t) ⊑ (f i s >>= fun s' => g i t >>= fun t' => pure (s', t'))) →
      forFromM b a k (s, t) ⊑ (forFromM f a k s >>= fun s' => forFromM g a k t >>= fun t' => pure (s', t'))
  | 0, _, _, _, _ => Refines.refl _
  | k + 1, a, s, t, hb => by
    intro v hv
    obtain ⟨sK, hsK, hv⟩ := bind_eq_ok hv
    obtain ⟨tK, htK, hv⟩ := bind_eq_ok hv
    obtain ⟨s1, hs1, hsK⟩ := bind_eq_ok (show (f a s >>= forFromM f (a + 1) k) = .ok sK from hsK)
    obtain ⟨t1, ht1, htK⟩ := bind_eq_ok (show (g a t >>= forFromM g (a + 1) k) = .ok tK from htK)
    have h1 := hb a s t (Nat.le_refl a) (by omega) (s1, t1) (by rw [hs1, ht1]; rfl)
    show (b a (s, t) >>= forFromM b (a + 1) k) = .ok v
    rw [h1]
    exact forFromM_fuse f g b k (a + 1) s1 t1 (fun i s t hi hlt => hb i s t (by omega) (by omega)) v
      (by rw [hsK, htK]; exact hv)

/-- an invariant of a model loop -/
theorem forFromM_inv {τ : Type} (P : Nat → τ → Prop) (b2 : Nat → τ → M τ) :
    ∀ (k a : Nat) (t t' : τ), P a t → (∀ i t t', a ≤ i → i < a + k → P i t → b2 i t = .ok t' → P (i + 1) t') →
      forFromM b2 a k t = .ok t' → P (a + k) t'
  | 0, _, _, _, hP, _, h => by cases h; exact hP
  | k + 1, a, t, t', hP, hstep, h => by
    obtain ⟨t1, ht1, h⟩ := bind_eq_ok (show (b2 a t >>= forFromM b2 (a + 1) k) = .ok t' from h)
    have := forFromM_inv P b2 k (a + 1) t1 t' (hstep a t t1 (Nat.le_refl a) (by omega) hP ht1)
      (fun i t t' hi hlt => hstep i t t' (by omega) (by omega)) h
    rwa [show a + 1 + k = a + (k + 1) by omega] at this

/-- loops related through an abstraction `f i` of the model's accumulator that may depend on the index, under an
invariant of the model loop -/
theorem forFromM_refines_inv {σ τ : Type} (f : Nat → τ → σ) (P : Nat → τ → Prop) (b1 : Nat → σ → M σ)
    (b2 : Nat → τ → M τ) :
    ∀ (k a : Nat) (t : τ), P a t →
      (∀ i t, a ≤ i → i < a + k → P i t → b1 i (f i t) ⊑ (b2 i t >>= fun t' => pure (f (i + 1) t'))) →
      (∀ i t t', a ≤ i → i < a + k → P i t → b2 i t = .ok t' → P (i + 1) t') →
      forFromM b1 a k (f a t) ⊑ (forFromM b2 a k t >>= fun t' => pure (f (a + k) t'))
  | 0, _, _, _, _, _ => Refines.refl _
  | k + 1, a, t, hP, h, hstep => by
    intro v hv
    obtain ⟨w, hw, hv⟩ := bind_eq_ok hv
    obtain ⟨t1, ht1, hw⟩ := bind_eq_ok (show (b2 a t >>= forFromM b2 (a + 1) k) = .ok w from hw)
    have h1 := h a t (Nat.le_refl a) (by omega) hP (f (a + 1) t1) (by rw [ht1]; rfl)
    show (b1 a (f a t) >>= forFromM b1 (a + 1) k) = .ok v
    rw [h1]
    have := forFromM_refines_inv f P b1 b2 k (a + 1) t1 (hstep a t t1 (Nat.le_refl a) (by omega) hP ht1)
      (fun i t hi hlt => h i t (by omega) (by omega)) (fun i t t' hi hlt => hstep i t t' (by omega) (by omega)) v
    rw [show a + 1 + k = a + (k + 1) by omega] at this
    exact this (by rw [hw]; exact hv)

/-! ## C integer and allocation facts -/

theorem toInt_ok_eq {x a : Int} (h : toInt x = .ok a) : a = x ∧ -2147483648 ≤ x ∧ x ≤ 2147483647 := by
  unfold toInt chkInt at h
  simp only [INT_MIN, INT_MAX] at h
  by_cases hr : -2147483648 ≤ x ∧ x ≤ 2147483647
  · simp only [hr, and_self, if_true] at h; cases h; exact ⟨rfl, hr.1, hr.2⟩
  · simp only [hr, if_false] at h; cases h

theorem chkLong_ok_eq {x a : Int} (h : chkLong x = .ok a) :
    a = x ∧ -9223372036854775808 ≤ x ∧ x ≤ 9223372036854775807 := by
  unfold chkLong at h
  simp only [LONG_MIN, LONG_MAX] at h
  by_cases hr : -9223372036854775808 ≤ x ∧ x ≤ 9223372036854775807
  · simp only [hr, and_self, if_true] at h; cases h; exact ⟨rfl, hr.1, hr.2⟩
  · simp only [hr, if_false] at h; cases h

theorem malloc_ok_nonneg {β : Type} {n : Int} {sz : Nat} {b : Buf β} (h : (malloc n sz : M (Buf β)) = .ok b) :
    0 ≤ n := by
  unfold malloc at h
  split at h
  · cases h
  · omega

/-! ## the API calls on the lists the front end passes -/

section
variable {α : Type}

theorem pyGet_map {β γ : Type} (f : β → γ) (l : List β) (i : Nat) (o : β) (h : pyGet l i = .ok o) :
    pyGet (l.map f) i = .ok (f o) := by
  unfold pyGet at h ⊢
  rw [List.getElem?_map]
  cases hl : l[i]? with
  | none => rw [hl] at h; cases h
  | some x => rw [hl] at h; cases h; rfl

theorem pyGet_mem {β : Type} {l : List β} {i : Nat} {o : β} (h : pyGet l i = .ok o) : o ∈ l := by
  unfold pyGet at h
  cases hl : l[i]? with
  | none => rw [hl] at h; cases h
  | some x => rw [hl] at h; cases h; exact List.mem_of_getElem? hl

theorem pyGet_of_map {β γ : Type} (f : β → γ) (l : List β) (i : Nat) (v : γ) (h : pyGet (l.map f) i = .ok v) :
    ∃ o, pyGet l i = .ok o ∧ f o = v := by
  unfold pyGet at h ⊢
  rw [List.getElem?_map] at h
  cases hl : l[i]? with
  | none => rw [hl] at h; cases h
  | some x => rw [hl] at h; cases h; exact ⟨x, rfl, rfl⟩

theorem cwListGetItem_nat (l : List (PyObj α)) (i : Nat) : cwListGetItem (.list l) (i : Int) = pyGet l i := by
  unfold cwListGetItem
  have : ¬ ((i : Int) < 0) := by omega
  simp only [this, if_false, Int.toNat_natCast]

theorem cwFloatAsDouble_num [OfInt α] {o : PyObj α} (h : cwIsNum o) : cwFloatAsDouble o = .ok (cwNum o) := by
  cases o <;> first | rfl | exact absurd h (by simp [cwIsNum])

/-- `buf[i] = PyFloat_AsDouble(PyList_GetItem(list, i))` on a list of numbers against the model's marshal step on
the list of their `double` values -/
theorem cw_marshal_float [OfInt α] (l : List (PyObj α)) (hnum : ∀ o ∈ l, cwIsNum o) (i : Nat) (buf : Buf α) :
    (cwListGetItem (.list l) (i : Int) >>= fun o => cwFloatAsDouble o >>= fun v => buf.wr (i : Int) v) ⊑
      (pyGet (l.map cwNum) i >>= fun o => (pure o : M α) >>= fun v => buf.wr (i : Int) v) := by
  intro r hr
  obtain ⟨v, hv, hr⟩ := bind_eq_ok hr
  obtain ⟨o, ho, rfl⟩ := pyGet_of_map cwNum l i v hv
  rw [cwListGetItem_nat, ho]
  simp only [ok_bind, cwFloatAsDouble_num (hnum o (pyGet_mem ho))]
  exact hr

/-- `buf[i] = (int)PyLong_AsLong(PyList_GetItem(list, i))` on a list of ints against the model's marshal step -/
theorem cw_marshal_int (l : List Int) (i : Nat) (ix : Int) (buf : Buf Int) :
    (cwListGetItem (cwInts l : PyObj α) (i : Int) >>= fun o => cwLongAsLong o >>= fun v => toInt v >>= fun w =>
        buf.wr ix w) ⊑
      (pyGet l i >>= fun o => toInt o >>= fun v => buf.wr ix v) := by
  intro r hr
  obtain ⟨o, ho, hr1⟩ := bind_eq_ok hr
  obtain ⟨v, hv, hr2⟩ := bind_eq_ok hr1
  obtain ⟨e, h1, h2⟩ := toInt_ok_eq hv
  unfold cwInts
  rw [cwListGetItem_nat, pyGet_map _ l i o ho]
  have : chkLong o = .ok o := chkLong_eq (by omega)
  simp only [ok_bind, cwLongAsLong, this, hv]
  exact hr2

theorem cwListSize_list (l : List (PyObj α)) : cwListSize (.list l) = .ok (l.length : Int) := rfl
theorem cwListSize_ints (l : List Int) : cwListSize (cwInts l : PyObj α) = .ok (l.length : Int) := by
  simp [cwInts, cwListSize]

end
end Qv.GenC
