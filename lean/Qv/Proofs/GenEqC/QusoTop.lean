import Qv.Proofs.GenEqC.Quso
/-!
# GenEqC.QusoTop — the definition generated from `anneal_quso` (`anneal_quso.c`: the `index` prefix sums, the
`num_anneals` loop with the initial-state loop, `single_anneal_quso`, `quso_value`, the copy into `states`, the
two `free`s) refines `KMem.annealQuso`.
-/
set_option linter.unusedSimpArgs false
set_option linter.unusedVariables false
namespace Qv.GenC
open Qv.KMem
open Qv.Kernel (Src OfInt ofInt)

variable {α ρ : Type} [Add α] [Mul α] [OfInt α]

/-- body of `for(i=1; i<len_state; i++) index[i] = index[i-1] + num_neighbors[i-1];` — the `int` subtraction
`i-1` cannot overflow for `1 <= i <= INT_MAX` -/
theorem anneal_quso_loop1_eq_model (X : DOps α) (R : RandExt ρ α) (nn : Buf Int) (i : Nat) (index : Buf Int)
    (h1 : 1 ≤ i) (h2 : i ≤ 2147483647) :
    anneal_quso_loop1 X R nn i index ⊑
      (do let a ← index.rd ((i : Int) - 1)
          let b ← nn.rd ((i : Int) - 1)
          let c ← ladd a b
          index.wr i c) := by
  unfold anneal_quso_loop1
  have : isub (i : Int) 1 = .ok ((i : Int) - 1) := chkInt_eq (by omega)
  simp only [this, ok_bind]
  rsteps

/-- the generated accumulator `(rng, state)` of the initial-state loop from the model's `(state, rng)` -/
def sw2 (t : Buf Int × ρ) : ρ × Buf Int := (t.2, t.1)

/-- body of the initial-state loop: `state[j] = states[i * len_state + j]` resp.
`state[j] = rand_double(&rng) < 0.5 ? 1 : -1` -/
theorem anneal_quso_loop2_loop1_eq_model (X : DOps α) (R : RandExt ρ α) (states : Buf Int) (N : Nat) (isp : Int)
    (i j : Nat) (t : Buf Int × ρ) :
    anneal_quso_loop2_loop1 X R states (N : Int) isp i j (sw2 t) ⊑
      ((if decide (isp ≠ 0) then do
          let p ← imul i N
          let ix ← iadd p j
          let v ← states.rd ix
          let st ← t.1.wr j v
          pure (st, t.2)
        else do
          let c := (srcOf X R).coin t.2
          let st ← t.1.wr j (if c.2 then 1 else -1)
          pure (st, c.1)) >>= fun t' => pure (sw2 t')) := by
  obtain ⟨st, r⟩ := t
  unfold anneal_quso_loop2_loop1
  generalize decide (isp ≠ 0) = b
  cases b
  · simp only [sw2, srcOf, Bool.false_eq_true, if_false, bind_assoc, pure_bind']
    rsteps
  · simp only [sw2, if_true, bind_assoc, pure_bind']
    rsteps

/-- body of `for(j..) states[i * len_state + j] = state[j];` -/
theorem anneal_quso_loop2_loop2_eq_model (X : DOps α) (R : RandExt ρ α) (N i : Nat) (state : Buf Int) (j : Nat)
    (states : Buf Int) :
    anneal_quso_loop2_loop2 X R (N : Int) i state j states ⊑
      (do let p ← imul i N
          let ix ← iadd p j
          let v ← state.rd j
          states.wr ix v) := by
  unfold anneal_quso_loop2_loop2
  rsteps

/-- the generated accumulator `(states, values, rng, state)` from the model's `(states, values, state, rng)` -/
def sw4 (t : Buf Int × Buf α × Buf Int × ρ) : Buf Int × Buf α × ρ × Buf Int := (t.1, t.2.1, t.2.2.2, t.2.2.1)

/-- body of the `num_anneals` loop: initial state, `single_anneal_quso`, `quso_value`, copy to `states` -/
theorem anneal_quso_loop2_eq_model (X : DOps α) (R : RandExt ρ α) (q : QusoB α) (N lenTs : Nat) (Ts : Buf α)
    (in_order isp : Int) (index : Buf Int) (i : Nat) (s : Buf Int × Buf α × Buf Int × ρ)
    (hR : ∀ r, 0 ≤ (R.rand_int r (N : Int)).1) :
    anneal_quso_loop2 X R (N : Int) q.h q.nn q.nb q.J (lenTs : Int) Ts in_order isp index i (sw4 s) ⊑
      ((do let sr ← initState (srcOf X R) N (decide (isp ≠ 0)) s.1 i s.2.2.1 s.2.2.2
           let sr ← singleAnnealQuso (srcOf X R) q index N lenTs Ts (decide (in_order ≠ 0)) sr.1 sr.2
           let v ← qusoValue q index N sr.1
           let values ← s.2.1.wr i v
           let states ← storeState N s.1 i sr.1
           pure (states, values, sr.1, sr.2)) >>= fun s' => pure (sw4 s')) := by
  obtain ⟨states, values, state, rng⟩ := s
  unfold anneal_quso_loop2 initState storeState
  simp only [sw4, bind_assoc, pure_bind', Int.sub_zero, Int.toNat_natCast]
  have hinit := forFromM_refines_map sw2 (anneal_quso_loop2_loop1 X R states (N : Int) isp i)
    (fun j (t : Buf Int × ρ) =>
      if decide (isp ≠ 0) then do
        let p ← imul i N
        let ix ← iadd p j
        let v ← states.rd ix
        let st ← t.1.wr j v
        pure (st, t.2)
      else do
        let c := (srcOf X R).coin t.2
        let st ← t.1.wr j (if c.2 then 1 else -1)
        pure (st, c.1)) N 0 (state, rng)
    (fun j t _ _ => anneal_quso_loop2_loop1_eq_model X R states N isp i j t)
  intro v hv
  obtain ⟨sr, hsr, hv⟩ := bind_eq_ok hv
  have h1 := hinit (sw2 sr) (by rw [show forFromM _ 0 N (state, rng) = _ from hsr]; rfl)
  rw [show (rng, state) = sw2 (state, rng) from rfl, h1]
  simp only [ok_bind, sw2]
  refine Refines.elim ?_ hv
  refine Refines.bind (single_anneal_quso_eq_model X R q index N lenTs Ts in_order sr.1 sr.2 hR) fun sr2 _ => ?_
  refine Refines.bind (quso_value_eq_model X R q index N sr2.1) fun val _ => ?_
  rstep
  refine Refines.bind ?_ fun _ _ => Refines.refl _
  apply forFromM_refines; intro j st _ _
  exact anneal_quso_loop2_loop2_eq_model X R N i sr2.1 j st

/-- **`anneal_quso` refines `KMem.annealQuso`** with the source `srcOf X R` and the generator state
`rand_init(seed)`, for `1 <= len_state <= INT_MAX` and a `rand_int` that is never negative -/
theorem anneal_quso_eq_model (X : DOps α) (R : RandExt ρ α) (numAnneals : Int) (states : Buf Int) (values : Buf α)
    (N : Nat) (q : QusoB α) (lenTs : Nat) (Ts : Buf α) (in_order isp seed : Int) (hN : N ≤ 2147483647)
    (hR : ∀ r, 0 ≤ (R.rand_int r (N : Int)).1) :
    anneal_quso X R numAnneals states values (N : Int) q.h q.nn q.nb q.J (lenTs : Int) Ts in_order isp seed ⊑
      annealQuso (srcOf X R) numAnneals states values N q lenTs Ts (decide (in_order ≠ 0)) (decide (isp ≠ 0))
        (R.rand_init seed) := by
  unfold anneal_quso annealQuso mkIndexQuso
  have hcnt : ((N : Int) - 1).toNat = N - 1 := by omega
  simp only [bind_assoc, pure_bind', Int.sub_zero, hcnt]
  rstep; rstep
  refine Refines.bind ?_ fun index _ => ?_
  · apply forFromM_refines; intro i ix h1 h2
    exact anneal_quso_loop1_eq_model X R q.nn i ix h1 (by omega)
  rstep
  rename_i state _
  have hloop := forFromM_refines_map sw4
    (anneal_quso_loop2 X R (N : Int) q.h q.nn q.nb q.J (lenTs : Int) Ts in_order isp index)
    (fun i (s : Buf Int × Buf α × Buf Int × ρ) => do
      let sr ← initState (srcOf X R) N (decide (isp ≠ 0)) s.1 i s.2.2.1 s.2.2.2
      let sr ← singleAnnealQuso (srcOf X R) q index N lenTs Ts (decide (in_order ≠ 0)) sr.1 sr.2
      let v ← qusoValue q index N sr.1
      let values ← s.2.1.wr i v
      let states ← storeState N s.1 i sr.1
      pure (states, values, sr.1, sr.2)) numAnneals.toNat 0 (states, values, state, R.rand_init seed)
    (fun i s _ _ => anneal_quso_loop2_eq_model X R q N lenTs Ts in_order isp index i s hR)
  intro v hv
  obtain ⟨s, hs, hv⟩ := bind_eq_ok hv
  have h1 := hloop (sw4 s) (by rw [show forFromM _ 0 numAnneals.toNat _ = _ from hs]; rfl)
  rw [show (states, values, R.rand_init seed, state) = sw4 (states, values, state, R.rand_init seed) from rfl, h1]
  simp only [ok_bind, sw4]
  exact hv

end Qv.GenC
