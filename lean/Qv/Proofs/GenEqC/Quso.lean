import Qv.Proofs.GenEqC.Basic
/-!
# GenEqC.Quso — the definitions generated from `anneal_quso.c` (`compute_flip_dE`, `recompute_flip_dE`,
`single_anneal_quso`, `quso_value`: every loop body and every whole function) refine the checked-memory model
`Qv.Model.KernelMem`, with the random source `srcOf X R` read off the generated code.

Statement pattern: `generated ⊑ model` — whenever the model returns `.ok v` (no memory error), so does the
definition generated from the C text, with the same `v`.  The C `int` parameters `len_state`, `len_Ts`, `spin`
are instantiated with the model's natural numbers.
-/
set_option linter.unusedSimpArgs false
set_option linter.unusedVariables false
namespace Qv.GenC
open Qv.KMem
open Qv.Kernel (Src OfInt ofInt)

variable {α ρ : Type} [Add α] [Mul α] [OfInt α]

/-! ## compute_flip_dE -/

/-- body of `for(j..)` in `compute_flip_dE`: `neighbor = neighbors[index[i]+j]; subgraph_energy += J[index[i]+j] *
state[neighbor]` — the model's body with `index[i]` read once -/
theorem compute_flip_dE_loop1_loop1_eq_model (X : DOps α) (R : RandExt ρ α) (state nb : Buf Int) (J : Buf α)
    (index : Buf Int) (i j : Nat) (e : α) (base : Int) (hb : index.rd i = .ok base) :
    compute_flip_dE_loop1_loop1 X R state nb J index i j e ⊑
      (do let ix ← ladd base j
          let n ← nb.rd ix
          let Jv ← J.rd ix
          let sn ← state.rd n
          pure (e + Jv * ofInt sn)) := by
  unfold compute_flip_dE_loop1_loop1
  rcrush 4

/-- body of `for(i..)` in `compute_flip_dE`: the model's `subgraphEnergy` followed by
`flip_spin_dE[i] = -2. * state[i] * subgraph_energy` -/
theorem compute_flip_dE_loop1_eq_model (X : DOps α) (R : RandExt ρ α) (q : QusoB α) (index state : Buf Int)
    (i : Nat) (flip : Buf α) :
    compute_flip_dE_loop1 X R state q.h q.nn q.nb q.J index i flip ⊑
      (do let e ← subgraphEnergy q index state i false
          let si ← state.rd i
          flip.wr i (ofInt (-2) * ofInt si * e)) := by
  unfold compute_flip_dE_loop1 subgraphEnergy
  simp only [bind_assoc, Bool.false_and, Bool.false_eq_true, if_false]
  intro v hv
  obtain ⟨e0, h1, hv⟩ := bind_eq_ok hv
  obtain ⟨cnt, h2, hv⟩ := bind_eq_ok hv
  obtain ⟨base, h3, hv⟩ := bind_eq_ok hv
  obtain ⟨e, h4, hv⟩ := bind_eq_ok hv
  have hl := forFromM_refines (compute_flip_dE_loop1_loop1 X R state q.nb q.J index i) _ cnt.toNat 0 e0
    (fun j e _ _ => compute_flip_dE_loop1_loop1_eq_model X R state q.nb q.J index i j e base h3) e h4
  -- the loads of the C text (`h[i]`, `num_neighbors[i]`, a cached `index[i]`) in any order
  simp only [h1, h2, h3, hl, ok_bind, pure_bind', bind_assoc, Int.sub_zero]
  exact hv

/-- `compute_flip_dE` refines `KMem.computeFlipDE` -/
theorem compute_flip_dE_eq_model (X : DOps α) (R : RandExt ρ α) (q : QusoB α) (index : Buf Int) (N : Nat)
    (state : Buf Int) (flip : Buf α) :
    compute_flip_dE X R flip (N : Int) state q.h q.nn q.nb q.J index ⊑ computeFlipDE q index N state flip := by
  unfold compute_flip_dE computeFlipDE
  simp only [Int.sub_zero, Int.toNat_natCast, forFromM_zero, bind_pure]
  apply forFromM_refines; intro i flip _ _
  exact compute_flip_dE_loop1_eq_model X R q index state i flip

/-! ## recompute_flip_dE -/

/-- body of `for(j..)` in `recompute_flip_dE`: `n = neighbors[index[spin]+j]; flip_spin_dE[n] += 4. * state[spin] *
state[n] * J[index[spin]+j]` -/
theorem recompute_flip_dE_loop1_eq_model (X : DOps α) (R : RandExt ρ α) (q : QusoB α) (index state : Buf Int)
    (spin j : Nat) (flip : Buf α) (base : Int) (hb : index.rd spin = .ok base) :
    recompute_flip_dE_loop1 X R (spin : Int) state q.nb q.J index j flip ⊑
      (do let ix ← ladd base j
          let n ← q.nb.rd ix
          let fn ← flip.rd n
          let ss ← state.rd spin
          let sn ← state.rd n
          let Jv ← q.J.rd ix
          flip.wr n (fn + ofInt 4 * ofInt ss * ofInt sn * Jv)) := by
  unfold recompute_flip_dE_loop1
  rcrush 6

/-- `recompute_flip_dE` refines `KMem.recomputeFlipDE` -/
theorem recompute_flip_dE_eq_model (X : DOps α) (R : RandExt ρ α) (q : QusoB α) (index : Buf Int) (spin : Nat)
    (flip : Buf α) (state : Buf Int) :
    recompute_flip_dE X R (spin : Int) flip state q.nn q.nb q.J index ⊑ recomputeFlipDE q index spin flip state := by
  unfold recompute_flip_dE recomputeFlipDE
  simp only [bind_assoc, bind_pure]
  intro v hv
  obtain ⟨f, h1, hv⟩ := bind_eq_ok hv
  obtain ⟨flip', h2, hv⟩ := bind_eq_ok hv
  obtain ⟨cnt, h3, hv⟩ := bind_eq_ok hv
  obtain ⟨base, h4, hv⟩ := bind_eq_ok hv
  have hl := forFromM_refines (recompute_flip_dE_loop1 X R (spin : Int) state q.nb q.J index) _ cnt.toNat 0 flip'
    (fun j flip _ _ => recompute_flip_dE_loop1_eq_model X R q index state spin j flip base h4) v hv
  simp only [h1, h2, h3, h4, hl, ok_bind, pure_bind', bind_assoc, Int.sub_zero]

/-! ## single_anneal_quso -/

/-- the C truth values 1 and 0 of an `int` flag, tested with `if(flag)` -/
theorem flag_one : decide ((1 : Int) ≠ 0) = true := by decide
theorem flag_zero : decide ((0 : Int) ≠ 0) = false := by decide

/-- the generated accumulator `(state, rng, flip_spin_dE)` from the model's `(state, flip_spin_dE, rng)` -/
def qsw (t : Buf Int × Buf α × ρ) : Buf Int × ρ × Buf α := (t.1, t.2.2, t.2.1)

/-- **one visit of the sweep** (`i = in_order ? j : rand_int(..); dE = flip_spin_dE[i]; if(dE <= 0 || (T > 0 &&
rand_double(rng) < exp(-dE / T))) { recompute_flip_dE(..); state[i] *= -1; }`) refines `KMem.qusoStep` with the
source `srcOf X R`, provided `rand_int` does not return a negative number -/
theorem single_anneal_quso_loop1_loop1_eq_model (X : DOps α) (R : RandExt ρ α) (q : QusoB α) (index : Buf Int)
    (N : Nat) (in_order : Int) (T : α) (j : Nat) (t : Buf Int × Buf α × ρ)
    (hR : ∀ r, 0 ≤ (R.rand_int r (N : Int)).1) :
    single_anneal_quso_loop1_loop1 X R (N : Int) q.nn q.nb q.J index in_order T j (qsw t) ⊑
      (qusoStep (srcOf X R) q index N (decide (in_order ≠ 0)) T j t >>= fun t' => pure (qsw t')) := by
  obtain ⟨st, fl, r⟩ := t
  have hcast : (((R.rand_int r (N : Int)).1.toNat : Nat) : Int) = (R.rand_int r (N : Int)).1 :=
    Int.toNat_of_nonneg (hR r)
  have hrec := recompute_flip_dE_eq_model X R q index (R.rand_int r (N : Int)).1.toNat fl st
  rw [hcast] at hrec
  unfold single_anneal_quso_loop1_loop1 qusoStep visit flipAt
  generalize decide (in_order ≠ 0) = io
  -- the acceptance test in any of its C spellings (one `||`/`&&` expression; an `int` flag set in two steps and
  -- `if(!accept) continue;`; a static helper with early returns): split on the three comparisons, in C's
  -- short-circuit order, and normalise the 0/1 flags
  cases io
  · simp only [qsw, srcOf, Bool.false_eq_true, if_false, if_true, pure_bind', bind_assoc, hcast]
    rstep
    rename_i dE _
    cases h1 : X.dle dE (ofInt 0) <;> cases h2 : X.dlt (ofInt 0) T <;>
      cases h3 : X.dlt (R.rand_double (R.rand_int r (N : Int)).2).1 (X.dexp (X.ddiv (X.dneg dE) T)) <;>
      simp only [h1, h2, h3, Bool.false_eq_true, if_false, if_true, pure_bind', bind_assoc, flag_one, flag_zero,
        Bool.not_true, Bool.not_false] <;>
      first
        | exact Refines.refl _
        | (refine Refines.bind hrec fun _ _ => ?_
           try simp only [hcast]
           rsteps)
  · simp only [qsw, srcOf, Bool.false_eq_true, if_false, if_true, pure_bind', bind_assoc]
    rstep
    rename_i dE _
    cases h1 : X.dle dE (ofInt 0) <;> cases h2 : X.dlt (ofInt 0) T <;>
      cases h3 : X.dlt (R.rand_double r).1 (X.dexp (X.ddiv (X.dneg dE) T)) <;>
      simp only [h1, h2, h3, Bool.false_eq_true, if_false, if_true, pure_bind', bind_assoc, flag_one, flag_zero,
        Bool.not_true, Bool.not_false] <;>
      first
        | exact Refines.refl _
        | (refine Refines.bind (recompute_flip_dE_eq_model X R q index j fl st) fun _ _ => ?_
           rsteps)

/-- **the schedule loop's body** (`T = Ts[t]; for(j..) visit`) refines the model's: one temperature, one sweep -/
theorem single_anneal_quso_loop1_eq_model (X : DOps α) (R : RandExt ρ α) (q : QusoB α) (index : Buf Int)
    (N : Nat) (Ts : Buf α) (in_order : Int) (t : Nat) (s : Buf Int × Buf α × ρ)
    (hR : ∀ r, 0 ≤ (R.rand_int r (N : Int)).1) :
    single_anneal_quso_loop1 X R (N : Int) q.nn q.nb q.J index Ts in_order t (qsw s) ⊑
      ((do let T ← Ts.rd t
           forNM N s (qusoStep (srcOf X R) q index N (decide (in_order ≠ 0)) T)) >>= fun s' => pure (qsw s')) := by
  unfold single_anneal_quso_loop1
  simp only [bind_assoc, Int.sub_zero, Int.toNat_natCast]
  rstep
  rename_i T _
  have := forFromM_refines_map qsw
    (single_anneal_quso_loop1_loop1 X R (N : Int) q.nn q.nb q.J index in_order T)
    (qusoStep (srcOf X R) q index N (decide (in_order ≠ 0)) T) N 0 s
    (fun j t _ _ => single_anneal_quso_loop1_loop1_eq_model X R q index N in_order T j t hR)
  refine Refines.trans ?_ this
  simp only [Prod.eta, bind_pure]
  exact Refines.refl _

/-- `single_anneal_quso` (malloc of the cache, `compute_flip_dE`, the schedule loop, `free`) refines
`KMem.singleAnnealQuso` with the source `srcOf X R` -/
theorem single_anneal_quso_eq_model (X : DOps α) (R : RandExt ρ α) (q : QusoB α) (index : Buf Int) (N lenTs : Nat)
    (Ts : Buf α) (in_order : Int) (state : Buf Int) (rng : ρ) (hR : ∀ r, 0 ≤ (R.rand_int r (N : Int)).1) :
    single_anneal_quso X R (N : Int) state q.h q.nn q.nb q.J index (lenTs : Int) Ts in_order rng ⊑
      singleAnnealQuso (srcOf X R) q index N lenTs Ts (decide (in_order ≠ 0)) state rng := by
  unfold single_anneal_quso singleAnnealQuso
  simp only [bind_assoc, Int.sub_zero, Int.toNat_natCast]
  rstep
  refine Refines.bind (compute_flip_dE_eq_model X R q index N state _) fun flip _ => ?_
  have := forFromM_refines_map qsw
    (single_anneal_quso_loop1 X R (N : Int) q.nn q.nb q.J index Ts in_order)
    (fun t s => do
      let T ← Ts.rd t
      forNM N s (qusoStep (srcOf X R) q index N (decide (in_order ≠ 0)) T)) lenTs 0 (state, flip, rng)
    (fun t s _ _ => single_anneal_quso_loop1_eq_model X R q index N Ts in_order t s hR)
  intro v hv
  obtain ⟨s, hs, hv⟩ := bind_eq_ok hv
  have h1 := this (qsw s) (by rw [show forFromM _ 0 lenTs (state, flip, rng) = _ from hs]; rfl)
  rw [show (state, rng, flip) = qsw (state, flip, rng) from rfl, h1]
  exact hv

/-! ## quso_value -/

/-- body of `for(j..)` in `quso_value`: as in `compute_flip_dE`, under `if(neighbor >= i)` -/
theorem quso_value_loop1_loop1_eq_model (X : DOps α) (R : RandExt ρ α) (state nb : Buf Int) (J : Buf α)
    (index : Buf Int) (i j : Nat) (e : α) (base : Int) (hb : index.rd i = .ok base) :
    quso_value_loop1_loop1 X R state nb J index i j e ⊑
      (do let ix ← ladd base j
          let n ← nb.rd ix
          if true && decide (n < (i : Int)) then pure e
          else do
            let Jv ← J.rd ix
            let sn ← state.rd n
            pure (e + Jv * ofInt sn)) := by
  unfold quso_value_loop1_loop1
  simp only [hb, ok_bind, bind_assoc, Bool.true_and]
  rstep; rstep
  rename_i n _
  by_cases hn : n < (i : Int)
  · have : ¬ (n ≥ (i : Int)) := by omega
    simp only [hn, this, decide_true, decide_false, if_true, if_false, Bool.false_eq_true, pure_bind']
    exact Refines.refl _
  · have : n ≥ (i : Int) := by omega
    simp only [hn, this, decide_true, decide_false, if_true, if_false, Bool.false_eq_true, pure_bind', bind_assoc]
    rsteps

/-- body of `for(i..)` in `quso_value` -/
theorem quso_value_loop1_eq_model (X : DOps α) (R : RandExt ρ α) (q : QusoB α) (index state : Buf Int)
    (i : Nat) (value : α) :
    quso_value_loop1 X R state q.h q.nn q.nb q.J index i value ⊑
      (do let e ← subgraphEnergy q index state i true
          let si ← state.rd i
          pure (value + ofInt si * e)) := by
  unfold quso_value_loop1 subgraphEnergy
  simp only [bind_assoc]
  rstep; rstep; rskip
  refine Refines.bind ?_ fun e _ => Refines.refl _
  rw [Int.sub_zero, forFromM_zero]
  apply forFromM_refines; intro j e _ _
  exact quso_value_loop1_loop1_eq_model X R state q.nb q.J index i j e _ (by assumption)

/-- `quso_value` refines `KMem.qusoValue` -/
theorem quso_value_eq_model (X : DOps α) (R : RandExt ρ α) (q : QusoB α) (index : Buf Int) (N : Nat)
    (state : Buf Int) :
    quso_value X R (N : Int) state q.h q.nn q.nb q.J index ⊑ qusoValue q index N state := by
  unfold quso_value qusoValue
  simp only [Int.sub_zero, Int.toNat_natCast, forFromM_zero, bind_pure]
  apply forFromM_refines; intro i v _ _
  exact quso_value_loop1_eq_model X R q index state i v

end Qv.GenC
