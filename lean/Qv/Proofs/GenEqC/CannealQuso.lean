import Qv.Proofs.GenEqC.CannealBuild
import Qv.Proofs.GenEqC.QusoTop
/-!
# GenEqC.CannealQuso — the definition generated from `c_anneal_quso` (`_canneal.c`) refines `KMem.cAnnealQuso`
(unit tag `cw`)

`c_anneal_quso X R (list h) (ints nn) (ints nb) (list J) (list Ts) num_anneals in_order (ints init) seed` — the
definition generated from the C text, called with Python lists of numbers / ints — returns `.ok` with the Python
object `(states, values)` of the model's result whenever the hand-written checked-memory model `cAnnealQuso`
returns on the same lists (with the `double` values of the numbers).  So: the five buffers are allocated with
the lengths of `h` (`h`, `num_neighbors`), `J` (`neighbors`, `J`) and `Ts`; every conversion loop writes index `i`
of a buffer of exactly the length it runs to and reads item `i` of a list that has one (`PyList_GetItem` checked);
`states` has `num_anneals * len_state` cells and the initial state is written into **every** row; the kernel
generated from `anneal_quso.c` is called with these buffers and lengths (`anneal_quso_eq_model`); the results are
read inside `states` / `values`; all seven buffers are freed exactly once.
-/
set_option linter.unusedSimpArgs false
set_option linter.unusedVariables false
namespace Qv.GenC
open Qv.KMem
open Qv.Kernel (Src OfInt ofInt)

variable {α ρ : Type} [Add α] [Mul α] [OfInt α]

/-- body of `for(i<len_state) { h[i] = PyFloat_AsDouble(PyList_GetItem(py_h, i)); num_neighbors[i] =
(int)PyLong_AsLong(PyList_GetItem(py_num_neighbors, i)); }` against one step of each of the model's two marshal
loops -/
theorem c_anneal_quso_loop1_eq_model (X : DOps α) (R : RandExt ρ α) (h : List (PyObj α)) (hnum : ∀ o ∈ h, cwIsNum o)
    (nn : List Int) (i : Nat) (hB : Buf α) (nnB : Buf Int) :
    c_anneal_quso_loop1 X R (PyObj.list h) (cwInts nn) i (hB, nnB) ⊑
      ((pyGet (h.map cwNum) i >>= fun o => (pure o : M α) >>= fun v => hB.wr i v) >>= fun s' =>
        (pyGet nn i >>= fun o => toInt o >>= fun v => nnB.wr i v) >>= fun t' => pure (s', t')) := by
  intro r hr
  obtain ⟨hB', h1, hr1⟩ := bind_eq_ok hr
  obtain ⟨nnB', h2, hr2⟩ := bind_eq_ok hr1
  have g1 := cw_marshal_float h hnum i hB hB' h1
  have g2 := cw_marshal_int (α := α) nn i i nnB nnB' h2
  unfold c_anneal_quso_loop1
  simp only [bind_assoc, pure_bind']
  obtain ⟨o1, e1, g1⟩ := bind_eq_ok g1
  obtain ⟨v1, e2, g1⟩ := bind_eq_ok g1
  obtain ⟨o2, e3, g2⟩ := bind_eq_ok g2
  obtain ⟨v2, e4, g2⟩ := bind_eq_ok g2
  obtain ⟨w2, e5, g2⟩ := bind_eq_ok g2
  simp only [e1, e2, e3, e4, e5, g1, g2, ok_bind]
  exact hr2

/-- body of `for(i<len_J) { neighbors[i] = (int)PyLong_AsLong(..); J[i] = PyFloat_AsDouble(..); }` -/
theorem c_anneal_quso_loop2_eq_model (X : DOps α) (R : RandExt ρ α) (nb : List Int) (J : List (PyObj α))
    (hnum : ∀ o ∈ J, cwIsNum o) (i : Nat) (nbB : Buf Int) (JB : Buf α) :
    c_anneal_quso_loop2 X R (cwInts nb) (PyObj.list J) i (nbB, JB) ⊑
      ((pyGet nb i >>= fun o => toInt o >>= fun v => nbB.wr i v) >>= fun s' =>
        (pyGet (J.map cwNum) i >>= fun o => (pure o : M α) >>= fun v => JB.wr i v) >>= fun t' => pure (s', t')) := by
  intro r hr
  obtain ⟨nbB', h1, hr1⟩ := bind_eq_ok hr
  obtain ⟨JB', h2, hr2⟩ := bind_eq_ok hr1
  have g1 := cw_marshal_int (α := α) nb i i nbB nbB' h1
  have g2 := cw_marshal_float J hnum i JB JB' h2
  unfold c_anneal_quso_loop2
  simp only [bind_assoc, pure_bind']
  obtain ⟨o1, e1, g1⟩ := bind_eq_ok g1
  obtain ⟨v1, e2, g1⟩ := bind_eq_ok g1
  obtain ⟨w1, e3, g1⟩ := bind_eq_ok g1
  obtain ⟨o2, e4, g2⟩ := bind_eq_ok g2
  obtain ⟨v2, e5, g2⟩ := bind_eq_ok g2
  simp only [e1, e2, e3, e4, e5, g1, g2, ok_bind]
  exact hr2

/-- body of `for(i<len_Ts) Ts[i] = PyFloat_AsDouble(PyList_GetItem(py_Ts, i));` -/
theorem c_anneal_quso_loop3_eq_model (X : DOps α) (R : RandExt ρ α) (Ts : List (PyObj α))
    (hnum : ∀ o ∈ Ts, cwIsNum o) (i : Nat) (TsB : Buf α) :
    c_anneal_quso_loop3 X R (PyObj.list Ts) i TsB ⊑
      (pyGet (Ts.map cwNum) i >>= fun o => (pure o : M α) >>= fun v => TsB.wr i v) := by
  intro r hr
  have g := cw_marshal_float Ts hnum i TsB r hr
  unfold c_anneal_quso_loop3
  simp only [bind_assoc, pure_bind']
  obtain ⟨o1, e1, g⟩ := bind_eq_ok g
  obtain ⟨v1, e2, g⟩ := bind_eq_ok g
  simp only [e1, e2, g, ok_bind]

/-- body of the inner loop of the `if(initial_state_provided)` block:
`states[i * len_state + j] = (int)PyLong_AsLong(PyList_GetItem(py_initial_state, j));` with the index formed in
`int` -/
theorem c_anneal_quso_loop4_loop1_eq_model (X : DOps α) (R : RandExt ρ α) (init : List Int) (N i j : Nat)
    (states : Buf Int) :
    c_anneal_quso_loop4_loop1 X R (cwInts init) (N : Int) i j states ⊑
      (do let ix ← flatIndex false i N j
          let o ← pyGet init j
          let v ← toInt o
          states.wr ix v) := by
  intro r hr
  unfold flatIndex at hr
  simp only [bind_assoc, pure_bind', Bool.false_eq_true, if_false] at hr
  obtain ⟨p, e1, hr1⟩ := bind_eq_ok hr
  obtain ⟨ix, e2, hr2⟩ := bind_eq_ok hr1
  have g := cw_marshal_int (α := α) init j ix states r hr2
  obtain ⟨o1, e3, g1⟩ := bind_eq_ok g
  obtain ⟨v1, e4, g2⟩ := bind_eq_ok g1
  obtain ⟨w1, e5, g3⟩ := bind_eq_ok g2
  unfold c_anneal_quso_loop4_loop1
  -- whichever order the C text evaluates the index and the item in, every step is one the model performed
  simp only [bind_assoc, pure_bind', e1, e2, e3, e4, e5, g3, ok_bind]

/-- the `if(initial_state_provided)` block refines `encodeInit false` -/
theorem cw_quso_encode (X : DOps α) (R : RandExt ρ α) (init : List Int) (numAnneals : Int) (N : Nat)
    (states : Buf Int) :
    forFromM (c_anneal_quso_loop4 X R (cwInts init) (N : Int)) 0 numAnneals.toNat states ⊑
      encodeInit false numAnneals N init states := by
  unfold encodeInit forNM
  apply forFromM_refines; intro i st _ _
  unfold c_anneal_quso_loop4
  simp only [bind_assoc, pure_bind', Int.sub_zero, Int.toNat_natCast, bind_pure]
  show forFromM _ 0 N st ⊑ forFromM _ 0 N st
  apply forFromM_refines; intro j st' _ _
  exact c_anneal_quso_loop4_loop1_eq_model X R init N i j st'

theorem cw_noLeak_perm7 (a b c d e f g : Bool) : noLeak [a, b, c, d, e, g, f] = noLeak [a, b, c, d, e, f, g] := by
  cases a <;> cases b <;> cases c <;> cases d <;> cases e <;> cases f <;> cases g <;> rfl

theorem cw_ite_bind_pure {β γ : Type} (c : Prop) [Decidable c] (A : M β) (s : β) (F : β → M γ) :
    (if c then A >>= F else F s) = ((if c then A else pure s) >>= F) := by
  by_cases h : c <;> simp [h] <;> rfl

/-- **`c_anneal_quso` refines `KMem.cAnnealQuso`** (wrapper and kernel both generated from the C text): called with
Python lists of numbers `h`, `J`, `Ts` and lists of ints `num_neighbors`, `neighbors`, `initial_state`, it returns
the Python object of the model's result whenever the model returns, for every `random.c` whose `rand_int` is never
negative.  The model's `in_order` is `in_order != 0`, its generator state `rand_init(seed)`. -/
theorem c_anneal_quso_eq_model (X : DOps α) (R : RandExt ρ α) (h J Ts : List (PyObj α)) (nn nb init : List Int)
    (numAnneals in_order seed : Int) (hh : ∀ o ∈ h, cwIsNum o) (hJ : ∀ o ∈ J, cwIsNum o) (hTs : ∀ o ∈ Ts, cwIsNum o)
    (hR : ∀ r, 0 ≤ (R.rand_int r (h.length : Int)).1) :
    c_anneal_quso X R (PyObj.list h) (cwInts nn) (cwInts nb) (PyObj.list J) (PyObj.list Ts) numAnneals in_order
        (cwInts init) seed ⊑
      (cAnnealQuso (srcOf X R) (h.map cwNum) nn nb (J.map cwNum) (Ts.map cwNum) numAnneals (decide (in_order ≠ 0)) init
        (R.rand_init seed) >>= fun out => pure (cwResult out)) := by
  unfold c_anneal_quso cAnnealQuso
  simp only [cwListSize_list, cwListSize_ints, ok_bind, bind_assoc, pure_bind', List.length_map, Int.sub_zero]
  refine Refines.bind (Refines.refl _) fun lenState e1 => ?_
  obtain ⟨rfl, _, hN⟩ := toInt_ok_eq e1
  refine Refines.bind (Refines.refl _) fun lenJ e2 => ?_
  obtain ⟨rfl, _, _⟩ := toInt_ok_eq e2
  refine Refines.bind (Refines.refl _) fun lenTs e3 => ?_
  obtain ⟨rfl, _, _⟩ := toInt_ok_eq e3
  simp only [Int.toNat_natCast]
  refine Refines.bind (Refines.refl _) fun hB0 _ => ?_
  refine Refines.bind (Refines.refl _) fun nnB0 _ => ?_
  refine Refines.bind (Refines.refl _) fun nbB0 _ => ?_
  refine Refines.bind (Refines.refl _) fun JB0 _ => ?_
  refine Refines.bind (Refines.refl _) fun TsB0 _ => ?_
  unfold marshal forNM
  -- the (h, num_neighbors) loop
  refine Refines.bind2 (forFromM_fuse _ _ _ h.length 0 hB0 nnB0 fun i s t _ _ =>
    c_anneal_quso_loop1_eq_model X R h hh nn i s t) fun hB nnB _ _ => ?_
  -- the (neighbors, J) loop
  refine Refines.bind2 (forFromM_fuse _ _ _ J.length 0 nbB0 JB0 fun i s t _ _ =>
    c_anneal_quso_loop2_eq_model X R nb J hJ i s t) fun nbB JB _ _ => ?_
  -- the Ts loop
  refine Refines.bind (forFromM_refines _ _ Ts.length 0 TsB0 fun i s _ _ =>
    c_anneal_quso_loop3_eq_model X R Ts hTs i s) fun TsB _ => ?_
  refine Refines.bind (Refines.refl _) fun values0 hval => ?_
  have hna := malloc_ok_nonneg hval
  refine Refines.bind (Refines.refl _) fun total _ => ?_
  refine Refines.bind (Refines.refl _) fun states0 _ => ?_
  refine Refines.bind (Refines.refl _) fun provided e4 => ?_
  obtain ⟨rfl, _, _⟩ := toInt_ok_eq e4
  -- the initial state
  rw [cw_ite_bind_pure ((init.length : Int) ≠ 0) (encodeInit false numAnneals h.length init states0)]
  simp only [bind_assoc, pure_bind']
  refine Refines.bind (y := if (init.length : Int) ≠ 0 then encodeInit false numAnneals h.length init states0
      else pure states0) ?_ fun states1 _ => ?_
  · by_cases hp : (init.length : Int) ≠ 0
    · simp only [hp, decide_true, if_true, ne_eq, not_false_eq_true, bind_pure]
      exact cw_quso_encode X R init numAnneals h.length states0
    · simp only [hp, decide_false, if_false, Bool.false_eq_true]
      exact Refines.refl _
  -- the kernel
  refine Refines.bind (anneal_quso_eq_model X R numAnneals states1 values0 h.length
    { h := hB, nn := nnB, nb := nbB, J := JB } Ts.length TsB in_order (init.length : Int) seed (by omega) hR)
    fun sv _ => ?_
  -- the result lists
  refine Refines.bind_map (build_py_states_values_eq_model X R numAnneals h.length sv.1 sv.2 hna) fun out _ => ?_
  -- the seven frees
  refine Refines.bind (Refines.refl _) fun b1 _ => ?_
  refine Refines.bind (Refines.refl _) fun b2 _ => ?_
  refine Refines.bind (Refines.refl _) fun b3 _ => ?_
  refine Refines.bind (Refines.refl _) fun b4 _ => ?_
  refine Refines.bind (Refines.refl _) fun b5 _ => ?_
  refine Refines.bind (Refines.refl _) fun b6 _ => ?_
  refine Refines.bind (Refines.refl _) fun b7 _ => ?_
  rw [cw_noLeak_perm7]
  exact Refines.refl _

end Qv.GenC
