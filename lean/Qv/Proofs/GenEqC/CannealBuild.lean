import Qv.Proofs.GenEqC.CannealLib
/-!
# GenEqC.CannealBuild — the definition generated from `build_py_states_values` (`_canneal.c`) refines
`KMem.buildPy` (unit tag `cw`)

The C code creates `py_states = PyList_New(num_anneals)`, `py_values = PyList_New(num_anneals)` and, per anneal, a
row `PyList_New(len_state)`, and fills every slot with `PyList_SetItem`; the model appends.  The accumulators are
related by "the first `i` slots hold the model's list, the others are still `NULL`" (`cwRow`, `cwAcc`), so the
theorem says: every `PyList_SetItem` index is inside its list, every read `states[i * len_state + j]`,
`values[i]` is the model's (checked) read, no slot is left `NULL`, and the returned object is
`(states, values)` with `num_anneals` rows of `len_state` ints and `num_anneals` floats.
-/
set_option linter.unusedSimpArgs false
set_option linter.unusedVariables false
namespace Qv.GenC
open Qv.KMem
open Qv.Kernel (Src OfInt ofInt)

variable {α ρ : Type} [Add α] [Mul α] [OfInt α]

/-- a row under construction: `st` filled in, the rest of the `N` slots still `NULL` -/
def cwRow (N : Nat) (st : List Int) : PyObj α :=
  PyObj.list (st.map PyObj.int ++ List.replicate (N - st.length) PyObj.null)

/-- `(py_states, py_values)` under construction -/
def cwAcc (n : Nat) (out : List (List Int × α)) : PyObj α × PyObj α :=
  (PyObj.list (out.map (fun sv => PyObj.list (sv.1.map PyObj.int)) ++ List.replicate (n - out.length) PyObj.null),
   PyObj.list (out.map (fun sv => PyObj.float sv.2) ++ List.replicate (n - out.length) PyObj.null))

theorem cw_set_next {β : Type} (xs : List β) (n : Nat) (d o : β) (h : xs.length < n) :
    (xs ++ List.replicate (n - xs.length) d).set xs.length o = (xs ++ [o]) ++ List.replicate (n - (xs.length + 1)) d := by
  have e : n - xs.length = (n - (xs.length + 1)) + 1 := by omega
  rw [e, List.replicate_succ, List.set_append_right _ _ (Nat.le_refl _)]
  simp

omit [Add α] [Mul α] [OfInt α] in
theorem cwListSetItem_next (xs : List (PyObj α)) (n : Nat) (o : PyObj α) (h : xs.length < n) :
    cwListSetItem (PyObj.list (xs ++ List.replicate (n - xs.length) PyObj.null)) (xs.length : Int) o =
      .ok (PyObj.list ((xs ++ [o]) ++ List.replicate (n - (xs.length + 1)) PyObj.null)) := by
  unfold cwListSetItem
  have h0 : ¬ ((xs.length : Int) < 0) := by omega
  have h1 : xs.length < (xs ++ List.replicate (n - xs.length) (PyObj.null : PyObj α)).length := by
    simp; omega
  simp only [h0, if_false, Int.toNat_natCast, h1, if_true, cw_set_next xs n _ o h]

/-- body of `for(j..) PyList_SetItem(py_state, j, PyLong_FromLong(states[i * len_state + j]));` -/
theorem build_py_states_values_loop1_loop1_eq_model (X : DOps α) (R : RandExt ρ α) (N : Nat) (states : Buf Int)
    (i j : Nat) (st : List Int) (hj : j < N) (hlen : st.length = j) :
    build_py_states_values_loop1_loop1 X R (N : Int) states i j (cwRow N st) ⊑
      ((do let p ← imul i N
           let ix ← iadd p j
           let v ← states.rd ix
           pure (st ++ [v])) >>= fun st' => pure (cwRow N st')) := by
  unfold build_py_states_values_loop1_loop1
  simp only [bind_assoc, pure_bind']
  rstep; rstep; rstep
  rename_i v _
  subst hlen
  have := cwListSetItem_next (st.map PyObj.int) N (cwLongFromLong v : PyObj α) (by simpa using hj)
  simp only [List.length_map] at this
  simp only [cwRow]
  rw [this]
  exact Refines.of_eq (by simp [cwLongFromLong]; rfl)

/-- the inner loop: a full row -/
theorem cw_row_loop (X : DOps α) (R : RandExt ρ α) (N : Nat) (states : Buf Int) (i : Nat) :
    forFromM (build_py_states_values_loop1_loop1 X R (N : Int) states i) 0 N (cwRow N []) ⊑
      ((forNM N ([] : List Int) fun j st => do
          let p ← imul i N
          let ix ← iadd p j
          let v ← states.rd ix
          pure (st ++ [v])) >>= fun st => pure (PyObj.list (st.map PyObj.int))) := by
  intro v hv
  obtain ⟨st, hst, hv⟩ := bind_eq_ok hv
  have hlen : st.length = 0 + N := forFromM_inv (fun j (st : List Int) => st.length = j) _ N 0 [] st rfl
    (fun j st st' _ _ hP h => by
      obtain ⟨p, _, h⟩ := bind_eq_ok h
      obtain ⟨ix, _, h⟩ := bind_eq_ok h
      obtain ⟨v, _, h⟩ := bind_eq_ok h
      cases h
      simp [hP]) hst
  have := forFromM_refines_inv (fun _ st => (cwRow N st : PyObj α)) (fun j (st : List Int) => st.length = j)
    (build_py_states_values_loop1_loop1 X R (N : Int) states i)
    (fun j st => do
      let p ← imul i N
      let ix ← iadd p j
      let v ← states.rd ix
      pure (st ++ [v])) N 0 [] rfl
    (fun j st _ hlt hP => build_py_states_values_loop1_loop1_eq_model X R N states i j st (by omega) hP)
    (fun j st st' _ _ hP h => by
      obtain ⟨p, _, h⟩ := bind_eq_ok h
      obtain ⟨ix, _, h⟩ := bind_eq_ok h
      obtain ⟨v, _, h⟩ := bind_eq_ok h
      cases h
      simp [hP])
    (cwRow N st) (by rw [show forFromM _ 0 N [] = _ from hst]; rfl)
  rw [this]
  cases hv
  simp only [Nat.zero_add] at hlen
  simp [cwRow, hlen]

/-- body of the `num_anneals` loop: a new row list, filled, stored at `py_states[i]`; `values[i]` stored at
`py_values[i]` -/
theorem cw_build_loop1 (X : DOps α) (R : RandExt ρ α) (n N : Nat) (states : Buf Int) (values : Buf α) (i : Nat)
    (out : List (List Int × α)) (hi : i < n) (hlen : out.length = i) :
    build_py_states_values_loop1 X R (N : Int) states values i (cwAcc n out) ⊑
      ((do let st ← forNM N ([] : List Int) fun j st => do
              let p ← imul i N
              let ix ← iadd p j
              let v ← states.rd ix
              pure (st ++ [v])
           let v ← values.rd i
           pure (out ++ [(st, v)])) >>= fun out' => pure (cwAcc n out')) := by
  unfold build_py_states_values_loop1
  have hnew : (cwListNew (N : Int) : M (PyObj α)) = .ok (cwRow N []) := by
    have : ¬ ((N : Int) < 0) := by omega
    simp [cwListNew, cwRow, this]
  simp only [hnew, ok_bind, bind_assoc, pure_bind', Int.sub_zero, Int.toNat_natCast]
  refine Refines.bind_map (f := fun st => (PyObj.list (st.map PyObj.int) : PyObj α)) (cw_row_loop X R N states i)
    fun st _ => ?_
  subst hlen
  have h1 := cwListSetItem_next (out.map fun sv => (PyObj.list (sv.1.map PyObj.int) : PyObj α)) n
    (PyObj.list (st.map PyObj.int)) (by simpa using hi)
  simp only [List.length_map] at h1
  simp only [cwAcc, h1, ok_bind]
  rstep
  rename_i v _
  have h2 := cwListSetItem_next (out.map fun sv => (PyObj.float sv.2 : PyObj α)) n (cwFloatFromDouble v)
    (by simpa using hi)
  simp only [List.length_map] at h2
  rw [h2]
  exact Refines.of_eq (by simp [cwFloatFromDouble]; rfl)

/-- **`build_py_states_values` refines `KMem.buildPy`** for `num_anneals >= 0`: the result object is the pair of
the model's states and values -/
theorem build_py_states_values_eq_model (X : DOps α) (R : RandExt ρ α) (numAnneals : Int) (N : Nat)
    (states : Buf Int) (values : Buf α) (hna : 0 ≤ numAnneals) :
    build_py_states_values X R numAnneals (N : Int) states values ⊑
      (buildPy numAnneals N states values >>= fun out => pure (cwResult out)) := by
  unfold build_py_states_values buildPy
  have hnew : (cwListNew numAnneals : M (PyObj α)) = .ok (PyObj.list (List.replicate numAnneals.toNat PyObj.null)) := by
    have : ¬ (numAnneals < 0) := by omega
    simp [cwListNew, this]
  simp only [hnew, ok_bind, bind_assoc, pure_bind', Int.sub_zero]
  intro v hv
  obtain ⟨out, hout, hv⟩ := bind_eq_ok hv
  have hlen : out.length = 0 + numAnneals.toNat :=
    forFromM_inv (fun i (out : List (List Int × α)) => out.length = i) _ numAnneals.toNat 0 [] out rfl
      (fun i out out' _ _ hP h => by
        obtain ⟨st, _, h⟩ := bind_eq_ok h
        obtain ⟨v, _, h⟩ := bind_eq_ok h
        cases h
        simp [hP]) hout
  have := forFromM_refines_inv (fun _ out => (cwAcc numAnneals.toNat out : PyObj α × PyObj α))
    (fun i (out : List (List Int × α)) => out.length = i)
    (build_py_states_values_loop1 X R (N : Int) states values)
    (fun i out => do
      let st ← forNM N ([] : List Int) fun j st => do
        let p ← imul i N
        let ix ← iadd p j
        let v ← states.rd ix
        pure (st ++ [v])
      let v ← values.rd i
      pure (out ++ [(st, v)])) numAnneals.toNat 0 [] rfl
    (fun i out _ hlt hP => cw_build_loop1 X R numAnneals.toNat N states values i out (by omega) hP)
    (fun i out out' _ _ hP h => by
      obtain ⟨st, _, h⟩ := bind_eq_ok h
      obtain ⟨v, _, h⟩ := bind_eq_ok h
      cases h
      simp [hP])
    (cwAcc numAnneals.toNat out) (by rw [show forFromM _ 0 numAnneals.toNat [] = _ from hout]; rfl)
  have h0 : (cwAcc numAnneals.toNat ([] : List (List Int × α)) : PyObj α × PyObj α) =
      (PyObj.list (List.replicate numAnneals.toNat PyObj.null), PyObj.list (List.replicate numAnneals.toNat PyObj.null)) := by
    simp [cwAcc]
  rw [h0] at this
  rw [this]
  cases hv
  simp only [Nat.zero_add] at hlen
  simp [cwAcc, cwResult, cwBuildTuple, hlen]
  rfl

end Qv.GenC
