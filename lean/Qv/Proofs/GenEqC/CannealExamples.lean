import Qv.Proofs.GenEqC.CannealSafe
import Qv.Proofs.GenEqC.Examples
/-!
# GenEqC.CannealExamples — the definitions generated from `_canneal.c` evaluated on concrete Python lists (unit
tag `cw`; non-vacuity of the tie, and the concrete inputs on which a weakened wrapper would differ)

`exX`, `exR` are the stand-ins of `GenEqC.Examples`.  The first group is the docstring example of
`c_anneal_quso` / `c_anneal_puso` with an explicit schedule that contains Python **ints** (accepted by
`PyFloat_AsDouble`; the seeded changes C12-8 / C17-8 read them with `PyFloat_AS_DOUBLE`) and an initial state (which
must reach **every** row of `states`: seeded C12-9); generated wrapper + generated kernel = hand-written model.  The
second group: lists that are not `WF` make the generated code fail where the C code misbehaves.
-/
namespace Qv.GenC
open Qv Qv.KMem
open Qv.Kernel (Src OfInt ofInt)

def cwF (l : List Rat) : PyObj Rat := PyObj.list (l.map PyObj.float)
def cwOut (x : M (PyObj Rat)) : Option (List (List Int) × List Rat) := x.toOption.bind cwView
def cwErr (x : M (PyObj Rat)) : Option MemErr := match x with
  | .error e => some e
  | .ok _ => none
def cwModel (x : M (List (List Int × Rat))) : Option (List (List Int) × List Rat) := x.toOption.map Anneal.unzipOut

/-- `-z0 z1 + 2 z1 z2 + z0`, schedule `[2, 1, 0]` given as Python ints, 2 anneals, initial state `[1, -1, 1]`, in
order: generated = model, both return two states of three spins -/
example :
    cwOut (c_anneal_quso exX exR (cwF [1, 0, 0]) (cwInts [1, 2, 1]) (cwInts [1, 0, 2, 1]) (cwF [-1, -1, 2, 2])
      (PyObj.list [PyObj.int 2, PyObj.float 1, PyObj.int 0]) 2 1 (cwInts [1, -1, 1]) 7) =
    cwModel (cAnnealQuso (srcOf exX exR) [1, 0, 0] [1, 2, 1] [1, 0, 2, 1] [-1, -1, 2, 2] [2, 1, 0] 2 true [1, -1, 1]
      (exR.rand_init 7)) ∧
    ((cwOut (c_anneal_quso exX exR (cwF [1, 0, 0]) (cwInts [1, 2, 1]) (cwInts [1, 0, 2, 1]) (cwF [-1, -1, 2, 2])
      (PyObj.list [PyObj.int 2, PyObj.float 1, PyObj.int 0]) 2 1 (cwInts [1, -1, 1]) 7)).map
        fun r => (r.1.map List.length, r.2.length)) = some ([3, 3], 2) := by decide +kernel

/-- zero temperature, in order, initial state given: **both** anneals start from it (the second row of `states` is
initialised too) and end in the same state -/
example :
    ((cwOut (c_anneal_quso exX exR (cwF [1, 0, 0]) (cwInts [1, 2, 1]) (cwInts [1, 0, 2, 1]) (cwF [-1, -1, 2, 2])
      (cwF [0]) 2 1 (cwInts [1, 1, 1]) 0)).map fun r => r.1) = some [[-1, -1, 1], [-1, -1, 1]] := by decide +kernel

/-- random order, no initial state, empty schedule -/
example :
    cwOut (c_anneal_quso exX exR (cwF [1, 0, 0]) (cwInts [1, 2, 1]) (cwInts [1, 0, 2, 1]) (cwF [-1, -1, 2, 2])
      (cwF []) 3 0 (cwInts []) 5) =
    cwModel (cAnnealQuso (srcOf exX exR) [1, 0, 0] [1, 2, 1] [1, 0, 2, 1] [-1, -1, 2, 2] [] 3 false []
      (exR.rand_init 5)) := by decide +kernel

/-- `z0 z1 - z1 z2 z3 + 3 z2` (docstring of `c_anneal_puso`), int temperatures, initial state -/
example :
    cwOut (c_anneal_puso exX exR 4 (cwInts [2, 3, 1]) (cwInts [0, 1, 1, 2, 3, 2]) (cwF [1, -1, 3])
      (PyObj.list [PyObj.int 2, PyObj.float 1, PyObj.int 0]) 2 0 (cwInts [1, 1, -1, 1]) 3) =
    cwModel (cAnnealPuso true (srcOf exX exR) 4 [2, 3, 1] [0, 1, 1, 2, 3, 2] [1, -1, 3] [2, 1, 0] 2 false [1, 1, -1, 1]
      (exR.rand_init 3)) ∧
    ((cwOut (c_anneal_puso exX exR 4 (cwInts [2, 3, 1]) (cwInts [0, 1, 1, 2, 3, 2]) (cwF [1, -1, 3])
      (PyObj.list [PyObj.int 2, PyObj.float 1, PyObj.int 0]) 2 0 (cwInts [1, 1, -1, 1]) 3)).map
        fun r => (r.1.map List.length, r.2.length)) = some ([4, 4], 2) := by decide +kernel

/-- no term at all (every term of the model cancelled) -/
example :
    ((cwOut (c_anneal_puso exX exR 3 (cwInts []) (cwInts []) (cwF []) (cwF [1, 1/2]) 1 1 (cwInts []) 0)).map
      fun r => r.1.map List.length) = some [3] := by decide +kernel

/-! ### outside `WF` -/

/-- `num_neighbors` shorter than `h`: `PyList_GetItem(py_num_neighbors, 2)` fails (C: `NULL` into `PyLong_AsLong`) -/
example :
    cwErr (c_anneal_quso exX exR (cwF [1, 0, 0]) (cwInts [1, 2]) (cwInts [1, 0, 2, 1]) (cwF [-1, -1, 2, 2]) (cwF [1]) 1 1
      (cwInts []) 0) = some MemErr.pyIndex := by decide +kernel

/-- a float in `neighbors`: `PyLong_AsLong` fails (TypeError) -/
example :
    cwErr (c_anneal_quso exX exR (cwF [1, 0, 0]) (cwInts [1, 2, 1]) (cwF [1, 0, 2, 1]) (cwF [-1, -1, 2, 2]) (cwF [1]) 1 1
      (cwInts []) 0) = some MemErr.pyIndex := by decide +kernel

/-- an initial state shorter than `len_state`: `PyList_GetItem(py_initial_state, 2)` fails -/
example :
    cwErr (c_anneal_quso exX exR (cwF [1, 0, 0]) (cwInts [1, 2, 1]) (cwInts [1, 0, 2, 1]) (cwF [-1, -1, 2, 2]) (cwF [1]) 1 1
      (cwInts [1, 1]) 0) = some MemErr.pyIndex := by decide +kernel

/-- negative `num_anneals`: `malloc(num_anneals * sizeof(double))` with a negative count -/
example :
    cwErr (c_anneal_quso exX exR (cwF [1, 0, 0]) (cwInts [1, 2, 1]) (cwInts [1, 0, 2, 1]) (cwF [-1, -1, 2, 2]) (cwF [1]) (-1) 1
      (cwInts []) 0) = some MemErr.badSize := by decide +kernel

/-- a term label equal to `len_state` reaches the generated kernel and is an out-of-bounds read of `state` there -/
example :
    (c_anneal_puso exX exR 3 (cwInts [2]) (cwInts [0, 3]) (cwF [1]) (cwF [1]) 1 1 (cwInts []) 0).toOption.isNone
      = true := by decide +kernel

end Qv.GenC
