import Qv.Proofs.GenEqC.Pcg
import Qv.Proofs.GenEqC.Basic
import Qv.Proofs.KernelMemFront
/-!
# GenEqC.PcgSrc — the concrete random source `pcgSrc` of the replayed model (C11/C12/C17 drivers) is the source the
generated kernels induce from the generated `random.c`

`pcgRand` packages the model's PCG32 functions in the calling convention of the generated kernels;
`rand_*_pcgRand` restate the theorems of `GenEqC.Pcg`: the definitions generated from `random.c` compute exactly
these functions (through the trivial isomorphism `toRng`/`ofRng`); `srcOf_pcg` identifies the induced source with
`Kernel.pcgSrc`, and `pcgRand_range` is the range hypothesis of the kernel theorems.
-/
namespace Qv.GenC
open Qv Qv.KMem Qv.Kernel

/-- `random.c` on the model's `Rng`, in the convention of the generated kernels (result first) -/
def pcgRand : RandExt Rng Float where
  rand_init seed := Rng.init seed.toNat
  rand_double r := (r.double.2, r.double.1)
  rand_int r n := (((r.int n.toNat).2 : Int), (r.int n.toNat).1)

/-- the definition generated from `rand_init` computes `pcgRand.rand_init` (for `seed >= 0`) -/
theorem rand_init_pcgRand {α : Type} (X : DOps α) (seed : Nat) (indet : pcg32_random_t) :
    rand_init X (seed : Int) indet = .ok (ofRng (pcgRand.rand_init (seed : Int))) := by
  rw [rand_init_eq_model]
  rfl

/-- the definition generated from `rand_double`, with `double` read as `Float`, computes `pcgRand.rand_double` -/
theorem rand_double_pcgRand (g : pcg32_random_t) :
    rand_double floatOps g = .ok ((pcgRand.rand_double (toRng g)).1, ofRng (pcgRand.rand_double (toRng g)).2) :=
  rand_double_float g

/-- the definition generated from `rand_int`, whenever its rejection loop ends within the fuel, returns
`pcgRand.rand_int` -/
theorem rand_int_pcgRand {α : Type} (X : DOps α) (g : pcg32_random_t) (stop : Nat) (h1 : 1 ≤ stop)
    (h2 : stop ≤ 2147483647) (v : Int) (g' : pcg32_random_t)
    (h : rand_int X 64 g (stop : Int) = .ok (some (v, g'))) :
    pcgRand.rand_int (toRng g) (stop : Int) = (v, toRng g') := by
  obtain ⟨e, hs⟩ := rand_int_eq_model X 64 g stop h1 h2
  rw [e] at h
  have h' : intO (toRng g) stop 64 = some (v, g') := Except.ok.inj h
  obtain ⟨hi, h0, _⟩ := hs v g' h'
  show (((Rng.int (toRng g) (stop : Int).toNat).2 : Int), (Rng.int (toRng g) (stop : Int).toNat).1) = (v, toRng g')
  rw [Int.toNat_natCast, hi]
  simp
  omega

/-- **the source the generated kernels induce from the model's PCG32 and `Float` is `Kernel.pcgSrc`** — the
concrete source of the exact replays of C11/C12/C17 -/
theorem srcOf_pcg : srcOf floatOps pcgRand = pcgSrc := by
  unfold srcOf pcgSrc
  congr 1
  · funext dE T r
    simp only [metropolisFloat, floatOps, pcgRand]
    by_cases h1 : dE ≤ Float.ofInt 0
    · have : dE ≤ 0 := h1
      simp [OfInt.ofInt, h1, this]
    · have : ¬ dE ≤ 0 := h1
      by_cases h2 : Float.ofInt 0 < T
      · have : T > 0 := h2
        simp [OfInt.ofInt, *]
      · have : ¬ T > 0 := h2
        simp [OfInt.ofInt, *]

/-- `rand_int(rng, N)` of the model's PCG32 lies in `[0, N)` for `1 <= N <= INT_MAX` — the hypothesis `hR` of
`anneal_quso_mem_safe` / `anneal_puso_mem_safe` -/
theorem pcgRand_range (N : Nat) (h1 : 1 ≤ N) (h2 : N ≤ 2147483647) (r : Rng) :
    0 ≤ (pcgRand.rand_int r (N : Int)).1 ∧ (pcgRand.rand_int r (N : Int)).1 < N := by
  have := pcgSrc_indexOK h1 h2 r
  show 0 ≤ ((Rng.int r (N : Int).toNat).2 : Int) ∧ ((Rng.int r (N : Int).toNat).2 : Int) < N
  rw [Int.toNat_natCast]
  have h : (Rng.int r N).2 < N := this
  omega

end Qv.GenC
