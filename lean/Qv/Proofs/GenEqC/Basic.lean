import Qv.Gen.CSource
/-!
# GenEqC.Basic — refinement of checked computations, and the random source the generated kernels induce

`x ⊑ y` ("`x` refines `y`"): whenever the hand-written model computation `y` returns `.ok v`, the computation
`x` generated from the C source returns `.ok v` too.  This is the direction memory safety needs (T17.1 proves
the model returns `.ok` on well-formed arguments), and it is insensitive to the harmless differences between
the C text and the model (a cell that C re-reads at every use is read once by the model, possibly earlier).
-/
namespace Qv.GenC
open Qv.KMem Qv.Kernel

def Refines {β : Type} (x y : M β) : Prop := ∀ v, y = .ok v → x = .ok v
infix:50 " ⊑ " => Refines

theorem Refines.refl {β : Type} (x : M β) : x ⊑ x := fun _ h => h
theorem Refines.of_eq {β : Type} {x y : M β} (h : x = y) : x ⊑ y := fun _ hv => h ▸ hv
theorem Refines.elim {β : Type} {x y : M β} (h : x ⊑ y) {v : β} (hv : y = .ok v) : x = .ok v := h v hv
theorem Refines.trans {β : Type} {x y z : M β} (h1 : x ⊑ y) (h2 : y ⊑ z) : x ⊑ z := fun v hv => h1 v (h2 v hv)

theorem ok_bind {β γ : Type} (a : β) (f : β → M γ) : ((Except.ok a : M β) >>= f) = f a := rfl
theorem pure_bind' {β γ : Type} (a : β) (f : β → M γ) : ((pure a : M β) >>= f) = f a := rfl

theorem bind_eq_ok {β γ : Type} {x : M β} {f : β → M γ} {v : γ} (h : (x >>= f) = .ok v) :
    ∃ a, x = .ok a ∧ f a = .ok v := by
  cases x with
  | error e => cases h
  | ok a => exact ⟨a, rfl, h⟩

/-- sequencing: the continuation may use that the model's first step returned `a` -/
theorem Refines.bind {β γ : Type} {x y : M β} {f g : β → M γ} (h : x ⊑ y) (hf : ∀ a, y = .ok a → f a ⊑ g a) :
    (x >>= f) ⊑ (y >>= g) := by
  intro v hv
  obtain ⟨a, ha, hg⟩ := bind_eq_ok hv
  rw [h a ha]
  exact hf a ha v hg

/-- the generated side performs an extra step that is known to succeed -/
theorem Refines.bind_left {β γ : Type} {x : M β} {a : β} {f : β → M γ} {y : M γ} (hx : x = .ok a) (h : f a ⊑ y) :
    (x >>= f) ⊑ y := by
  rw [hx]; exact h

/-- the model performs an extra step (e.g. reads a cell before an empty loop) -/
theorem Refines.bind_right {β γ : Type} {x : M γ} {y : M β} {g : β → M γ} (h : ∀ a, y = .ok a → x ⊑ g a) :
    x ⊑ (y >>= g) := by
  intro v hv
  obtain ⟨a, ha, hg⟩ := bind_eq_ok hv
  exact h a ha v hg

theorem Refines.ite {β : Type} {c : Prop} [Decidable c] {x1 x2 y1 y2 : M β} (h1 : c → x1 ⊑ y1)
    (h2 : ¬ c → x2 ⊑ y2) : (if c then x1 else x2) ⊑ (if c then y1 else y2) := by
  by_cases hc : c
  · simpa [hc] using h1 hc
  · simpa [hc] using h2 hc

/-- loops: pointwise refinement of the bodies, on the indices the loop visits -/
theorem forFromM_refines {σ : Type} (b1 b2 : Nat → σ → M σ) :
    ∀ (k a : Nat) (s : σ), (∀ i s, a ≤ i → i < a + k → b1 i s ⊑ b2 i s) → forFromM b1 a k s ⊑ forFromM b2 a k s
  | 0, _, _, _ => Refines.refl _
  | k + 1, a, s, h => by
    show (b1 a s >>= forFromM b1 (a + 1) k) ⊑ (b2 a s >>= forFromM b2 (a + 1) k)
    exact Refines.bind (h a s (Nat.le_refl a) (by omega)) fun s' _ =>
      forFromM_refines b1 b2 k (a + 1) s' (fun i s hi hlt => h i s (by omega) (by omega))

/-- loops whose accumulators are the same data in a different arrangement (`f` rearranges the tuple) -/
theorem forFromM_refines_map {σ τ : Type} (f : τ → σ) (b1 : Nat → σ → M σ) (b2 : Nat → τ → M τ) :
    ∀ (k a : Nat) (t : τ), (∀ i t, a ≤ i → i < a + k → b1 i (f t) ⊑ (b2 i t >>= fun t' => pure (f t'))) →
      forFromM b1 a k (f t) ⊑ (forFromM b2 a k t >>= fun t' => pure (f t'))
  | 0, _, _, _ => Refines.refl _
  | k + 1, a, t, h => by
    show (b1 a (f t) >>= forFromM b1 (a + 1) k) ⊑ ((b2 a t >>= forFromM b2 (a + 1) k) >>= fun t' => pure (f t'))
    intro v hv
    obtain ⟨w, hw, hv⟩ := bind_eq_ok hv
    obtain ⟨t1, ht1, hw⟩ := bind_eq_ok hw
    have h1 := h a t (Nat.le_refl a) (by omega) (f t1) (by rw [ht1]; rfl)
    rw [h1]
    show forFromM b1 (a + 1) k (f t1) = .ok v
    exact forFromM_refines_map f b1 b2 k (a + 1) t1 (fun i t hi hlt => h i t (by omega) (by omega)) v
      (by rw [hw]; exact hv)

theorem forFromM_zero {σ : Type} (body : Nat → σ → M σ) (n : Nat) (s : σ) : forFromM body 0 n s = forNM n s body := rfl

/-! ## C integer facts -/

theorem chkInt_eq {x : Int} (h : -2147483648 ≤ x ∧ x ≤ 2147483647) : chkInt x = .ok x := by
  simp [chkInt, INT_MIN, INT_MAX, h]

theorem chkLong_eq {x : Int} (h : -9223372036854775808 ≤ x ∧ x ≤ 9223372036854775807) : chkLong x = .ok x := by
  simp [chkLong, LONG_MIN, LONG_MAX, h]

/-! ## the random source the generated kernels induce -/

section
variable {α ρ : Type} [Add α] [Mul α] [OfInt α]

/-- The three uses of randomness of the kernels (`Kernel.Src`), read off the generated code: the coin
`rand_double(&rng) < 0.5`, the index `rand_int(rng, len_state)`, and the acceptance expression
`dE <= 0 || (T > 0 && rand_double(rng) < exp(-dE / T))` with C's short-circuit order, in terms of the
uninterpreted `double` operations `X` and the functions `R` of `random.c`. -/
def srcOf (X : DOps α) (R : RandExt ρ α) : Src ρ α where
  coin r := ((R.rand_double r).2, X.dlt (R.rand_double r).1 (X.flit "0.5"))
  index r n := ((R.rand_int r (n : Int)).2, (R.rand_int r (n : Int)).1.toNat)
  accept dE T r :=
    if X.dle dE (ofInt 0) then (r, true)
    else if X.dlt (ofInt 0) T then
      ((R.rand_double r).2, X.dlt (R.rand_double r).1 (X.dexp (X.ddiv (X.dneg dE) T)))
    else (r, false)

end

end Qv.GenC

namespace Qv.GenC
open Qv.KMem Qv.Kernel

/-- one step of a refinement proof: both sides start with the same action -/
macro "rstep" : tactic =>
  `(tactic| (refine Refines.bind (Refines.refl _) (fun _ _ => ?_); try simp only [*, ok_bind]))
/-- the model starts with an action the generated side does not perform here -/
macro "rskip" : tactic =>
  `(tactic| (refine Refines.bind_right (fun _ _ => ?_); try simp only [*, ok_bind]))
/-- order-insensitive step: take the first `n` actions of the model's successful run as equations
(`bind_eq_ok`), rewrite the generated side with them — so the generated code may perform those reads in any
order and any number of times (a C local that caches a load, or a load repeated at every use, give the same
result) — and close with what is left of the model's run.  Sound by construction: it proves the stated `⊑`. -/
syntax "rcrush " num : tactic
macro_rules
  | `(tactic| rcrush $n) => `(tactic| (
      intro _ hv
      iterate $n (obtain ⟨_, _, hv⟩ := bind_eq_ok hv)
      simp only [*, ok_bind, pure_bind', bind_assoc]
      try exact hv))
/-- as many `rstep`s as possible, then reflexivity -/
macro "rsteps" : tactic => `(tactic| (repeat' (first | exact Refines.refl _ | rstep)))

end Qv.GenC
