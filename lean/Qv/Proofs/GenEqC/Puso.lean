import Qv.Proofs.GenEqC.Basic
/-!
# GenEqC.Puso — the definitions generated from `anneal_puso.c` (`puso_subgraph_value`, `single_anneal_puso`,
`puso_value`: every loop body and every whole function) refine the checked-memory model `Qv.Model.KernelMem`.

`puso_subgraph_value` has the only `<=` loop of the kernels (`for(i=1; i<=subgraphs[spin][0]; i++)`): the
generated code forms `subgraphs[spin][0] + 1` with overflow check, which the model does not; the theorems
carry the hypothesis `SmallRows` (every row's count is below `LONG_MAX`), discharged in `PusoSafe` from the way
`anneal_puso` builds the rows.
-/
set_option linter.unusedSimpArgs false
set_option linter.unusedVariables false
namespace Qv.GenC
open Qv.KMem
open Qv.Kernel (Src OfInt ofInt)

variable {α ρ : Type} [Add α] [Mul α] [OfInt α]

/-- every row `subgraphs[spin]` has a count `subgraphs[spin][0]` in `[0, LONG_MAX)` -/
def SmallRows (sg : Buf (Buf Int)) : Prop :=
  ∀ (spin : Int) (row : Buf Int) (cnt : Int), sg.rd spin = .ok row → row.rd 0 = .ok cnt → 0 ≤ cnt ∧ cnt < 9223372036854775807

/-! ## puso_subgraph_value -/

/-- body of `for(j..) product *= state[terms[index[term] + j]];` — the model's body with `index[term]` read once -/
theorem puso_subgraph_value_loop1_loop1_eq_model (X : DOps α) (R : RandExt ρ α) (state terms index : Buf Int)
    (term : Int) (j : Nat) (pr : Int) (start : Int) (hs : index.rd term = .ok start) :
    puso_subgraph_value_loop1_loop1 X R state terms index term j pr ⊑
      (do let ix ← ladd start j
          let sp ← terms.rd ix
          let sv ← state.rd sp
          imul pr sv) := by
  unfold puso_subgraph_value_loop1_loop1
  simp only [hs, ok_bind, bind_pure]
  rsteps

/-- body of `for(i=1; i<=subgraphs[spin][0]; i++)`: `term = subgraphs[spin][i]`, the product of its spins,
`value += couplings[term] * (double)product` — the model's body with the row read once -/
theorem puso_subgraph_value_loop1_eq_model (X : DOps α) (R : RandExt ρ α) (p : PusoB α) (index : Buf Int)
    (subgraphs : Buf (Buf Int)) (state : Buf Int) (spin : Int) (i : Nat) (value : α) (row : Buf Int)
    (hrow : subgraphs.rd spin = .ok row) :
    puso_subgraph_value_loop1 X R state spin p.nc p.terms p.cs index subgraphs i value ⊑
      (do let term ← row.rd i
          let start ← index.rd term
          let pr ← termProduct p state term start
          let c ← p.cs.rd term
          pure (value + c * ofInt pr)) := by
  unfold puso_subgraph_value_loop1 termProduct
  simp only [hrow, ok_bind, bind_assoc]
  rstep; rskip; rstep
  refine Refines.bind ?_ fun _ _ => Refines.refl _
  rw [Int.sub_zero, forFromM_zero]
  apply forFromM_refines; intro j pr _ _
  exact puso_subgraph_value_loop1_loop1_eq_model X R state p.terms index _ j pr _ (by assumption)

/-- `puso_subgraph_value` refines `KMem.pusoSubgraphValue` when the row counts are below `LONG_MAX` -/
theorem puso_subgraph_value_eq_model (X : DOps α) (R : RandExt ρ α) (p : PusoB α) (index : Buf Int)
    (subgraphs : Buf (Buf Int)) (state : Buf Int) (spin : Nat) (hsm : SmallRows subgraphs) :
    puso_subgraph_value X R state (spin : Int) p.nc p.terms p.cs index subgraphs ⊑
      pusoSubgraphValue p index subgraphs state spin := by
  unfold puso_subgraph_value pusoSubgraphValue
  simp only [bind_assoc, bind_pure]
  rstep; rstep
  rename_i row hrow cnt hcnt
  obtain ⟨h0, hlt⟩ := hsm _ _ _ hrow hcnt
  have h1 : ladd cnt 1 = .ok (cnt + 1) := chkLong_eq (by omega)
  have h2 : (cnt + 1 - 1).toNat = cnt.toNat := by omega
  simp only [h1, ok_bind, h2]
  apply forFromM_refines; intro i v _ _
  exact puso_subgraph_value_loop1_eq_model X R p index subgraphs state spin i v row hrow

/-! ## single_anneal_puso -/

/-- **one visit of the sweep** (`i = in_order ? j : rand_int(..); dE = -2 * puso_subgraph_value(..); if(dE <= 0 ||
(T > 0 && rand_double(rng) < exp(-dE / T))) state[i] *= -1;`) refines `KMem.pusoStep` with the source `srcOf X R` -/
theorem single_anneal_puso_loop1_loop1_eq_model (X : DOps α) (R : RandExt ρ α) (p : PusoB α) (index : Buf Int)
    (subgraphs : Buf (Buf Int)) (N : Nat) (in_order : Int) (T : α) (j : Nat) (s : Buf Int × ρ)
    (hR : ∀ r, 0 ≤ (R.rand_int r (N : Int)).1) (hsm : SmallRows subgraphs) :
    single_anneal_puso_loop1_loop1 X R (N : Int) p.nc p.terms p.cs index subgraphs in_order T j s ⊑
      pusoStep (srcOf X R) p index subgraphs N (decide (in_order ≠ 0)) T j s := by
  obtain ⟨st, r⟩ := s
  have hcast : (((R.rand_int r (N : Int)).1.toNat : Nat) : Int) = (R.rand_int r (N : Int)).1 :=
    Int.toNat_of_nonneg (hR r)
  have hsub := puso_subgraph_value_eq_model X R p index subgraphs st (R.rand_int r (N : Int)).1.toNat hsm
  rw [hcast] at hsub
  unfold single_anneal_puso_loop1_loop1 pusoStep visit flipAt
  generalize decide (in_order ≠ 0) = io
  cases io
  · simp only [srcOf, Bool.false_eq_true, if_false, if_true, pure_bind', bind_assoc, hcast]
    refine Refines.bind hsub fun e _ => ?_
    cases h1 : X.dle (ofInt (-2) * e) (ofInt 0)
    · cases h2 : X.dlt (ofInt 0) T
      · simp only [Bool.false_eq_true, if_false, if_true, pure_bind', bind_assoc]
        exact Refines.refl _
      · cases h3 : X.dlt (R.rand_double (R.rand_int r (N : Int)).2).1 (X.dexp (X.ddiv (X.dneg (ofInt (-2) * e)) T))
        · simp only [h3, Bool.false_eq_true, if_false, if_true, pure_bind', bind_assoc]
          exact Refines.refl _
        · simp only [h3, Bool.false_eq_true, if_false, if_true, pure_bind', bind_assoc]
          rsteps
    · simp only [Bool.false_eq_true, if_false, if_true, pure_bind', bind_assoc]
      rsteps
  · simp only [srcOf, Bool.false_eq_true, if_false, if_true, pure_bind', bind_assoc]
    refine Refines.bind (puso_subgraph_value_eq_model X R p index subgraphs st j hsm) fun e _ => ?_
    cases h1 : X.dle (ofInt (-2) * e) (ofInt 0)
    · cases h2 : X.dlt (ofInt 0) T
      · simp only [Bool.false_eq_true, if_false, if_true, pure_bind', bind_assoc]
        exact Refines.refl _
      · cases h3 : X.dlt (R.rand_double r).1 (X.dexp (X.ddiv (X.dneg (ofInt (-2) * e)) T))
        · simp only [h3, Bool.false_eq_true, if_false, if_true, pure_bind', bind_assoc]
          exact Refines.refl _
        · simp only [h3, Bool.false_eq_true, if_false, if_true, pure_bind', bind_assoc]
          rsteps
    · simp only [Bool.false_eq_true, if_false, if_true, pure_bind', bind_assoc]
      rsteps

/-- the schedule loop's body: `T = Ts[t]`, then one sweep -/
theorem single_anneal_puso_loop1_eq_model (X : DOps α) (R : RandExt ρ α) (p : PusoB α) (index : Buf Int)
    (subgraphs : Buf (Buf Int)) (N : Nat) (Ts : Buf α) (in_order : Int) (t : Nat) (s : Buf Int × ρ)
    (hR : ∀ r, 0 ≤ (R.rand_int r (N : Int)).1) (hsm : SmallRows subgraphs) :
    single_anneal_puso_loop1 X R (N : Int) p.nc p.terms p.cs index subgraphs Ts in_order t s ⊑
      (do let T ← Ts.rd t
          forNM N s (pusoStep (srcOf X R) p index subgraphs N (decide (in_order ≠ 0)) T)) := by
  unfold single_anneal_puso_loop1
  simp only [bind_assoc, Int.sub_zero, Int.toNat_natCast, Prod.eta, bind_pure, forFromM_zero]
  rstep
  apply forFromM_refines; intro j s _ _
  exact single_anneal_puso_loop1_loop1_eq_model X R p index subgraphs N in_order _ j s hR hsm

/-- `single_anneal_puso` refines `KMem.singleAnnealPuso` with the source `srcOf X R` -/
theorem single_anneal_puso_eq_model (X : DOps α) (R : RandExt ρ α) (p : PusoB α) (index : Buf Int)
    (subgraphs : Buf (Buf Int)) (N lenTs : Nat) (Ts : Buf α) (in_order : Int) (state : Buf Int) (rng : ρ)
    (hR : ∀ r, 0 ≤ (R.rand_int r (N : Int)).1) (hsm : SmallRows subgraphs) :
    single_anneal_puso X R (N : Int) state p.nc p.terms p.cs index subgraphs (lenTs : Int) Ts in_order rng ⊑
      singleAnnealPuso (srcOf X R) p index subgraphs N lenTs Ts (decide (in_order ≠ 0)) state rng := by
  unfold single_anneal_puso singleAnnealPuso
  simp only [bind_assoc, Int.sub_zero, Int.toNat_natCast, Prod.eta, bind_pure, forFromM_zero]
  apply forFromM_refines; intro t s _ _
  exact single_anneal_puso_loop1_eq_model X R p index subgraphs N Ts in_order t s hR hsm

/-! ## puso_value -/

/-- body of `for(_..) { product *= state[terms[index]]; index++; }` -/
theorem puso_value_loop1_loop1_eq_model (X : DOps α) (R : RandExt ρ α) (state terms : Buf Int) (u : Nat)
    (t : Int × Int) :
    puso_value_loop1_loop1 X R state terms u t ⊑
      (do let sp ← terms.rd t.1
          let sv ← state.rd sp
          let pr ← imul t.2 sv
          let ix ← ladd t.1 1
          pure (ix, pr)) := by
  unfold puso_value_loop1_loop1
  rsteps

/-- body of `for(long term..)` in `puso_value` -/
theorem puso_value_loop1_eq_model (X : DOps α) (R : RandExt ρ α) (p : PusoB α) (state : Buf Int) (term : Nat)
    (s : Int × α) :
    puso_value_loop1 X R state p.nc p.terms p.cs term s ⊑
      (do let cnt ← p.nc.rd term
          let t ← forNM cnt.toNat (s.1, (1 : Int)) fun _ t => do
            let sp ← p.terms.rd t.1
            let sv ← state.rd sp
            let pr ← imul t.2 sv
            let ix ← ladd t.1 1
            pure (ix, pr)
          let c ← p.cs.rd term
          pure (t.1, s.2 + c * ofInt t.2)) := by
  unfold puso_value_loop1
  simp only [bind_assoc, Int.sub_zero, forFromM_zero]
  rstep
  refine Refines.bind ?_ fun _ _ => Refines.refl _
  apply forFromM_refines; intro u t _ _
  exact puso_value_loop1_loop1_eq_model X R state p.terms u t

/-- `puso_value` refines `KMem.pusoValue` -/
theorem puso_value_eq_model (X : DOps α) (R : RandExt ρ α) (p : PusoB α) (numTerms : Nat) (state : Buf Int) :
    puso_value X R state (numTerms : Int) p.nc p.terms p.cs ⊑ pusoValue p numTerms state := by
  unfold puso_value pusoValue
  simp only [bind_assoc, Int.sub_zero, Int.toNat_natCast, forFromM_zero]
  refine Refines.bind ?_ fun _ _ => Refines.refl _
  apply forFromM_refines; intro term s _ _
  exact puso_value_loop1_eq_model X R p state term s

end Qv.GenC
