import Qv.Proofs.ProblemsNP
import Qv.Proofs.LogicMethods
import Mathlib.Tactic.Positivity
/-!
# VertexCover: energy identity and ground-state optimality (`A > B > 0`)
-/
namespace Qv.Prob
open Qv Qv.Logic

/-- `Σ_{i<n} x i` -/
def sumTo (x : Var → Rat) : Nat → Rat
  | 0 => 0
  | n + 1 => sumTo x n + x n

theorem eval_range_lin (x : Var → Rat) (B : Rat) (n : Nat) :
    eval x ((List.range n).map (fun i => ([i], B))) = B * sumTo x n := by
  induction n with
  | zero => simp [sumTo]
  | succ n ih => rw [List.range_succ, List.map_append, eval_append, ih]; simp [sumTo]; ring

/-- `_vertex_to_index[v]`, `0` when absent -/
def idxD (vs : List Var) (v : Var) : Nat := match indexIn vs v with | .ok i => i | .error _ => 0

theorem indexIn_lt {vs : List Var} {v : Var} {i : Nat} (h : indexIn vs v = .ok i) : i < vs.length := by
  induction vs generalizing i with
  | nil => simp [indexIn] at h
  | cons a r ih =>
    simp only [indexIn] at h
    split at h
    · cases h; simp
    · simp only [bind_ok_iff, pure, Except.pure] at h
      obtain ⟨j, hj, h⟩ := h
      cases h
      have := ih hj
      simp; omega

/-- the edges as pairs of variable indices -/
def idxEdges (vs : List Var) (es : List (Var × Var)) : List (Nat × Nat) :=
  es.map (fun e => (idxD vs e.1, idxD vs e.2))

/-- `Σ_{(u,v) ∈ E} (1 - x_u)(1 - x_v)` -/
def pen (x : Var → Rat) : List (Nat × Nat) → Rat
  | [] => 0
  | e :: r => (1 - x e.1) * (1 - x e.2) + pen x r

theorem vc_edgeLoop_eval {vs : List Var} {A : Rat} (hA : A ≠ 0) {x : Var → Rat} (hx : IsBool x)
    (es : List (Var × Var)) (Q Q' : Poly) (h : VC.edgeLoop vs A Q es = .ok Q') :
    eval x Q' = eval x Q + A * pen x (idxEdges vs es) ∧
      ∀ e ∈ idxEdges vs es, e.1 < vs.length ∧ e.2 < vs.length := by
  induction es generalizing Q with
  | nil => simp [VC.edgeLoop] at h; subst h; simp [idxEdges, pen]
  | cons e r ih =>
    obtain ⟨u, v⟩ := e
    simp only [VC.edgeLoop, bind_ok_iff] at h
    obtain ⟨iu, hiu, iv, hiv, st, hst, Q1, hQ1, hrest⟩ := h
    obtain ⟨e1, b1⟩ := ih Q1 hrest
    have hor := (consOR_both (s := St.fresh) (vs := [.lbl iu, .lbl iv])
      (by intro w hw; simp only [List.mem_cons, List.not_mem_nil, or_false] at hw; rcases hw with rfl | rfl <;> trivial) hst).1
      hA (wf_nil _)
    have est := hor.2 x hx
    have eQ1 := eval_iaddD (sqOK_bool (κ := .qubom) rfl hx) hQ1
    have hu : idxD vs u = iu := by simp [idxD, hiu]
    have hv : idxD vs v = iv := by simp [idxD, hiv]
    constructor
    · rw [e1, eQ1, est]
      simp only [idxEdges, List.map_cons, pen, hu, hv, St.fresh, eval_nil, orG, orF, SVal.ev]
      simp only [idxEdges] at *
      ring
    · intro e he
      simp only [idxEdges, List.map_cons, List.mem_cons] at he
      rcases he with rfl | he
      · exact ⟨hu ▸ indexIn_lt hiu, hv ▸ indexIn_lt hiv⟩
      · exact b1 e he

/-- **T10.1 (VertexCover).** `⟦to_qubo(A, B)⟧x = B Σ_i x_i + A Σ_{(u,v)∈E} (1 - x_u)(1 - x_v)`; every edge index is a
variable of the formulation. -/
theorem vc_toQubo_eval' (p : VC) (A B : Rat) (hA : A ≠ 0) (Q : Poly) (x : Var → Rat) (hx : IsBool x)
    (h : p.toQubo A B = .ok Q) :
    eval x Q = B * sumTo x p.numVars + A * pen x (idxEdges p.vertices p.edges) ∧
      ∀ e ∈ idxEdges p.vertices p.edges, e.1 < p.numVars ∧ e.2 < p.numVars := by
  simp only [VC.toQubo, bind_ok_iff] at h
  obtain ⟨Q0, h0, h1⟩ := h
  have e0 := eval_build (sqOK_bool (κ := .qubom) rfl hx) h0
  obtain ⟨e1, b1⟩ := vc_edgeLoop_eval hA hx p.edges Q0 Q h1
  refine ⟨?_, b1⟩
  rw [e1, e0, eval_range_lin]; simp

/-! ### the exchange argument -/

/-- put vertex `u` into the cover -/
def upd (x : Var → Rat) (u : Var) : Var → Rat := fun i => if i = u then 1 else x i

theorem isBool_upd {x : Var → Rat} (hx : IsBool x) (u : Var) : IsBool (upd x u) := by
  intro i; unfold upd; split
  · exact Or.inr rfl
  · exact hx i

theorem upd_ge {x : Var → Rat} (hx : IsBool x) (u i : Var) : x i ≤ upd x u i ∧ upd x u i ≤ 1 := by
  unfold upd; split
  · rcases hx i with h | h <;> rw [h] <;> norm_num
  · rcases hx i with h | h <;> rw [h] <;> norm_num

theorem pen_term_mono {x : Var → Rat} (hx : IsBool x) (u : Var) (e : Nat × Nat) :
    (1 - upd x u e.1) * (1 - upd x u e.2) ≤ (1 - x e.1) * (1 - x e.2) := by
  have h1 := upd_ge hx u e.1
  have h2 := upd_ge hx u e.2
  have a1 : x e.1 ≤ 1 := by rcases hx e.1 with h | h <;> rw [h] <;> norm_num
  have a2 : x e.2 ≤ 1 := by rcases hx e.2 with h | h <;> rw [h] <;> norm_num
  nlinarith [mul_le_mul (sub_le_sub_left h1.1 1) (sub_le_sub_left h2.1 1) (by linarith [h2.2]) (by linarith)]

theorem pen_mono {x : Var → Rat} (hx : IsBool x) (u : Var) (E : List (Nat × Nat)) :
    pen (upd x u) E ≤ pen x E := by
  induction E with
  | nil => simp [pen]
  | cons e r ih => simp only [pen]; linarith [pen_term_mono hx u e]

/-- putting an endpoint of an uncovered edge into the cover removes at least one unit of penalty -/
theorem pen_drop {x : Var → Rat} (hx : IsBool x) (E : List (Nat × Nat)) (e : Nat × Nat) (he : e ∈ E)
    (h1 : x e.1 = 0) (h2 : x e.2 = 0) : pen (upd x e.1) E ≤ pen x E - 1 := by
  induction E with
  | nil => cases he
  | cons f r ih =>
    simp only [pen]
    rcases List.mem_cons.mp he with rfl | hr
    · have : upd x e.1 e.1 = 1 := by simp [upd]
      rw [this, h1, h2]
      linarith [pen_mono hx e.1 r]
    · linarith [ih hr, pen_term_mono hx e.1 f]

theorem sumTo_upd {x : Var → Rat} (u : Nat) (hu : x u = 0) (n : Nat) :
    sumTo (upd x u) n = sumTo x n + (if u < n then 1 else 0) := by
  induction n with
  | zero => simp [sumTo]
  | succ n ih =>
    simp only [sumTo, ih]
    by_cases h : n = u
    · subst h; simp [upd, hu]
    · have h' : ¬ u = n := fun e => h e.symm
      by_cases hlt : u < n
      · have h3 : u < n + 1 := Nat.lt_succ_of_lt hlt
        simp only [upd, h, hlt, h3, if_true, if_false]; ring
      · have h3 : ¬ u < n + 1 := fun hc => (Nat.lt_succ_iff_lt_or_eq.mp hc).elim hlt h'
        simp only [upd, h, hlt, h3, if_false]; ring

/-- the penalty vanishes exactly on covers -/
theorem pen_nonneg {x : Var → Rat} (hx : IsBool x) (E : List (Nat × Nat)) : 0 ≤ pen x E := by
  induction E with
  | nil => simp [pen]
  | cons e r ih =>
    simp only [pen]
    have : 0 ≤ (1 - x e.1) * (1 - x e.2) := by
      rcases hx e.1 with h | h <;> rcases hx e.2 with h' | h' <;> rw [h, h'] <;> norm_num
    linarith

/-- `x` covers every edge -/
def Covers (x : Var → Rat) (E : List (Nat × Nat)) : Prop := ∀ e ∈ E, x e.1 = 1 ∨ x e.2 = 1

theorem pen_of_covers {x : Var → Rat} {E : List (Nat × Nat)} (h : Covers x E) : pen x E = 0 := by
  induction E with
  | nil => simp [pen]
  | cons e r ih =>
    simp only [pen]
    rw [ih (fun f hf => h f (List.mem_cons_of_mem _ hf))]
    rcases h e (List.mem_cons_self) with h1 | h1 <;> rw [h1] <;> ring

/-- **Exchange step.**  With `A > B` and `A > 0`: an assignment that leaves an edge uncovered is not a ground state
of `B Σ x + A·pen`. -/
theorem vc_flip_lower {A B : Rat} (hAB : B < A) (hA : 0 < A) {x : Var → Rat} (hx : IsBool x) (n : Nat)
    (E : List (Nat × Nat)) (e : Nat × Nat) (he : e ∈ E) (h1 : x e.1 = 0) (h2 : x e.2 = 0) :
    B * sumTo (upd x e.1) n + A * pen (upd x e.1) E < B * sumTo x n + A * pen x E := by
  have hp := pen_drop hx E e he h1 h2
  rw [sumTo_upd e.1 h1 n]
  split
  · nlinarith
  · nlinarith

theorem exists_uncovered {x : Var → Rat} (hx : IsBool x) {E : List (Nat × Nat)} (h : ¬ Covers x E) :
    ∃ e ∈ E, x e.1 = 0 ∧ x e.2 = 0 := by
  induction E with
  | nil => exact absurd (fun e he => by cases he) h
  | cons e r ih =>
    by_cases hc : x e.1 = 1 ∨ x e.2 = 1
    · have hr : ¬ Covers x r := fun hr => h (fun f hf => by
        rcases List.mem_cons.mp hf with rfl | hf
        · exact hc
        · exact hr f hf)
      obtain ⟨f, hf, h0⟩ := ih hr
      exact ⟨f, List.mem_cons_of_mem _ hf, h0⟩
    · refine ⟨e, List.mem_cons_self, ?_, ?_⟩
      · rcases hx e.1 with h0 | h1
        · exact h0
        · exact absurd (Or.inl h1) hc
      · rcases hx e.2 with h0 | h1
        · exact h0
        · exact absurd (Or.inr h1) hc

/-- `is_solution_valid` on a converted solution: every edge has an endpoint in the set -/
theorem vc_validConv_iff (p : VC) (c : List Var) :
    p.validConv c = true ↔ ∀ e ∈ p.edges, e.1 ∈ c ∨ e.2 ∈ c := by
  simp [VC.validConv, List.all_eq_true]

end Qv.Prob
