import Qv.Model.Heap
/-!
# Qv.Proofs.Heap — generic facts about heaps: fresh extensions, frames, reachability, abstract values
-/
namespace Qv.Hp
open Qv

/-! ### elementary list facts -/

theorem get_append_old {h l : Heap} {c : Nat} (hc : c < h.length) : (h ++ l)[c]? = h[c]? :=
  List.getElem?_append_left hc

theorem get_alloc_new (h : Heap) (c : Cell) : (h ++ [c])[h.length]? = some c := by
  simp

theorem get_write_ne {h : Heap} {r c : Nat} {cell : Cell} (hne : c ≠ r) : (write h r cell)[c]? = h[c]? := by
  unfold write
  rw [List.getElem?_set_ne (Ne.symm hne)]

theorem get_write_eq {h : Heap} {r : Nat} {cell : Cell} (hr : r < h.length) : (write h r cell)[r]? = some cell := by
  unfold write
  simp [hr]

@[simp] theorem length_write (h : Heap) (r : Nat) (cell : Cell) : (write h r cell).length = h.length := by
  unfold write; simp

theorem get_some_lt {h : Heap} {c : Nat} {cell : Cell} (hc : h[c]? = some cell) : c < h.length := by
  rcases Nat.lt_or_ge c h.length with h1 | h1
  · exact h1
  · rw [List.getElem?_eq_none h1] at hc; cases hc

/-! ### fresh extension -/

/-- `h'` is `h` followed by fresh cells; every fresh cell refers only to existing cells at or above `n` -/
structure FreshExt (n : Nat) (h h' : Heap) : Prop where
  pre : ∃ l, h' = h ++ l
  up : ∀ (c : Nat) (cell : Cell), h.length ≤ c → h'[c]? = some cell → ∀ r ∈ cell.refs, n ≤ r ∧ r < h'.length

theorem FreshExt.refl (n : Nat) (h : Heap) : FreshExt n h h :=
  ⟨⟨[], by simp⟩, fun c cell hc hg => by
    have := get_some_lt hg
    omega⟩

theorem FreshExt.len {n : Nat} {h h' : Heap} (e : FreshExt n h h') : h.length ≤ h'.length := by
  obtain ⟨l, rfl⟩ := e.pre
  simp

theorem FreshExt.old {n : Nat} {h h' : Heap} (e : FreshExt n h h') {c : Nat} (hc : c < h.length) :
    h'[c]? = h[c]? := by
  obtain ⟨l, rfl⟩ := e.pre
  exact get_append_old hc

theorem FreshExt.trans {n : Nat} {h h' h'' : Heap} (e1 : FreshExt n h h') (e2 : FreshExt n h' h'') :
    FreshExt n h h'' := by
  refine ⟨?_, ?_⟩
  · obtain ⟨l1, rfl⟩ := e1.pre
    obtain ⟨l2, rfl⟩ := e2.pre
    exact ⟨l1 ++ l2, by simp⟩
  · intro c cell hc hg r hr
    rcases Nat.lt_or_ge c h'.length with h1 | h1
    · rw [e2.old h1] at hg
      have := e1.up c cell hc hg r hr
      have := e2.len
      omega
    · exact e2.up c cell h1 hg r hr

theorem FreshExt.alloc {n : Nat} {h : Heap} {c : Cell} (hr : ∀ r ∈ c.refs, n ≤ r ∧ r < h.length) :
    FreshExt n h (h ++ [c]) := by
  refine ⟨⟨[c], rfl⟩, ?_⟩
  intro i cell hi hg r hrr
  have hlt := get_some_lt hg
  simp at hlt
  have : i = h.length := by omega
  subst this
  rw [get_alloc_new] at hg
  cases hg
  have := hr r hrr
  simp; omega

/-- the allocated reference and its cell -/
theorem alloc_spec (h : Heap) (c : Cell) : (alloc h c).1 = h ++ [c] ∧ (alloc h c).2 = h.length := ⟨rfl, rfl⟩

/-! ### frames -/

/-- `h'` has at least the cells of `h`, and every old cell outside `W` is unchanged -/
def Frame (W : List Nat) (h h' : Heap) : Prop :=
  h.length ≤ h'.length ∧ ∀ c, c < h.length → c ∉ W → h'[c]? = h[c]?

theorem Frame.refl (W : List Nat) (h : Heap) : Frame W h h := ⟨Nat.le_refl _, fun _ _ _ => rfl⟩

theorem Frame.trans {W W' : List Nat} {h h' h'' : Heap} (f1 : Frame W h h') (f2 : Frame W' h' h'')
    (hW : ∀ c ∈ W', c < h.length → c ∈ W) : Frame W h h'' := by
  refine ⟨Nat.le_trans f1.1 f2.1, ?_⟩
  intro c hc hn
  have h1 : c < h'.length := Nat.lt_of_lt_of_le hc f1.1
  rw [f2.2 c h1 (fun hm => hn (hW c hm hc)), f1.2 c hc hn]

theorem Frame.mono {W W' : List Nat} {h h' : Heap} (f : Frame W h h') (hW : ∀ c ∈ W, c ∈ W') : Frame W' h h' :=
  ⟨f.1, fun c hc hn => f.2 c hc (fun hm => hn (hW c hm))⟩

theorem Frame.of_fresh {n : Nat} {h h' : Heap} (e : FreshExt n h h') (W : List Nat) : Frame W h h' :=
  ⟨e.len, fun _ hc _ => e.old hc⟩

theorem Frame.alloc (W : List Nat) (h : Heap) (c : Cell) : Frame W h (h ++ [c]) :=
  ⟨by simp, fun _ hc _ => get_append_old hc⟩

theorem Frame.write {W : List Nat} {h : Heap} {r : Nat} (cell : Cell) (hr : r < h.length → r ∈ W) :
    Frame W h (write h r cell) := by
  refine ⟨by simp, ?_⟩
  intro c hc hn
  apply get_write_ne
  intro he
  subst he
  exact hn (hr hc)

/-! ### closedness -/

theorem Closed.fresh {n : Nat} {h h' : Heap} (hc : Closed h) (e : FreshExt n h h') : Closed h' := by
  intro c cell hg r hr
  rcases Nat.lt_or_ge c h.length with h1 | h1
  · rw [e.old h1] at hg
    have := hc c cell hg r hr
    have := e.len
    omega
  · exact (e.up c cell h1 hg r hr).2

theorem Closed.alloc {h : Heap} {c : Cell} (hc : Closed h) (hr : ∀ r ∈ c.refs, r < h.length) : Closed (h ++ [c]) :=
  hc.fresh (n := 0) (FreshExt.alloc (fun r hrr => ⟨Nat.zero_le _, hr r hrr⟩))

theorem Closed.write {h : Heap} {r : Nat} {cell : Cell} (hc : Closed h) (hr : ∀ q ∈ cell.refs, q < h.length) :
    Closed (write h r cell) := by
  intro c cl hg q hq
  rw [length_write]
  by_cases he : c = r
  · subst he
    have hlt := get_some_lt hg
    rw [length_write] at hlt
    rw [get_write_eq hlt] at hg
    cases hg
    exact hr q hq
  · rw [get_write_ne he] at hg
    exact hc c cl hg q hq

theorem Closed.nil : Closed ([] : Heap) := by
  intro c cell hg; simp at hg

/-! ### reachability -/

/-- reachability stays inside a set closed under references -/
theorem Reach.inside {h : Heap} {S : Nat → Prop}
    (hS : ∀ c cell, S c → h[c]? = some cell → ∀ r ∈ cell.refs, S r) {a c : Nat} (ha : S a) (hr : Reach h a c) : S c := by
  induction hr with
  | refl => exact ha
  | step _ hg hm ih => exact hS _ _ ih hg _ hm

theorem Reach.trans {h : Heap} {a b c : Nat} (h1 : Reach h a b) (h2 : Reach h b c) : Reach h a c := by
  induction h2 with
  | refl => exact h1
  | step _ hg hm ih => exact Reach.step ih hg hm

/-- in a closed heap everything reachable from an existing cell exists -/
theorem Reach.lt {h : Heap} (hc : Closed h) {a c : Nat} (ha : a < h.length) (hr : Reach h a c) : c < h.length :=
  Reach.inside (S := fun c => c < h.length) (fun c cell _ hg r hm => hc c cell hg r hm) ha hr

/-- two heaps that agree on everything reachable from `a` in the first have the same reachable set from `a` -/
theorem Reach.congr {h h' : Heap} {a : Nat} (hag : ∀ c, Reach h a c → h'[c]? = h[c]?) {c : Nat} :
    Reach h' a c ↔ Reach h a c := by
  constructor
  · intro hr
    induction hr with
    | refl => exact Reach.refl _
    | step _ hg hm ih =>
      rw [hag _ ih] at hg
      exact Reach.step ih hg hm
  · intro hr
    induction hr with
    | refl => exact Reach.refl _
    | step hab hg hm ih =>
      rw [← hag _ hab] at hg
      exact Reach.step ih hg hm

/-- the frame rule: cells reachable from `x`, none of them in the write set, are all unchanged -/
theorem Frame.reach {W : List Nat} {h h' : Heap} (f : Frame W h h') (hc : Closed h) {x : Nat} (hx : x < h.length)
    (hd : ∀ c, Reach h x c → c ∉ W) : ∀ c, Reach h x c → h'[c]? = h[c]? :=
  fun c hr => f.2 c (hr.lt hc hx) (hd c hr)

/-! ### the abstract value depends only on the reachable cells -/

theorem mapM_congr_opt {α β : Type} {f g : α → Option β} {l : List α} (hfg : ∀ x ∈ l, f x = g x) :
    l.mapM f = l.mapM g := by
  induction l with
  | nil => rfl
  | cons x t ih =>
    simp only [List.mapM_cons]
    rw [hfg x (by simp), ih (fun y hy => hfg y (by simp [hy]))]

theorem absList_congr {h h' : Heap} {l : List Nat} (hag : ∀ r ∈ l, h'[r]? = h[r]?) : absList h' l = absList h l := by
  unfold absList
  apply mapM_congr_opt
  intro r hr
  rw [hag r hr]

theorem absGroups_congr {h h' : Heap} {g : List (Rel × Nat)}
    (hag : ∀ e ∈ g, h'[e.2]? = h[e.2]? ∧ ∀ l, h[e.2]? = some (.list l) → ∀ r ∈ l, h'[r]? = h[r]?) :
    absGroups h' g = absGroups h g := by
  unfold absGroups
  apply mapM_congr_opt
  intro e he
  obtain ⟨h1, h2⟩ := hag e he
  rw [h1]
  cases hcell : h[e.2]? with
  | none => rfl
  | some cell =>
    cases cell with
    | list l => simp only []; rw [absList_congr (h2 l hcell)]
    | _ => rfl

theorem absVal_congr {h h' : Heap} {x : Nat} (hag : ∀ c, Reach h x c → h'[c]? = h[c]?) : absVal h' x = absVal h x := by
  unfold absVal
  rw [hag x (Reach.refl x)]
  cases hcell : h[x]? with
  | none => rfl
  | some cell =>
    cases cell with
    | obj d m rm v c =>
      have e1 : absMapping h' m = absMapping h m := by
        cases m with
        | none => rfl
        | some mr =>
          simp only [absMapping]
          rw [hag mr (Reach.step (Reach.refl x) hcell (by simp [Cell.refs]))]
      have e2 : absCons h' c = absCons h c := by
        cases c with
        | none => rfl
        | some cr =>
          simp only [absCons]
          have hr : Reach h x cr := Reach.step (Reach.refl x) hcell (by simp [Cell.refs])
          rw [hag cr hr]
          cases hcd : h[cr]? with
          | none => rfl
          | some cell =>
            cases cell with
            | cdict g =>
              simp only []
              apply absGroups_congr
              intro e he
              have hre : Reach h x e.2 := Reach.step hr hcd (by
                simp only [Cell.refs, List.mem_map]; exact ⟨e, he, rfl⟩)
              refine ⟨hag _ hre, ?_⟩
              intro l hl r hrl
              exact hag r (Reach.step hre hl (by simpa [Cell.refs] using hrl))
            | _ => rfl
      simp only []
      rw [e1, e2]
    | _ => rfl

end Qv.Hp
