import Mathlib.Tactic.Linarith
import Mathlib.Algebra.Order.Ring.Rat
/-!
# C08: the abstract penalty lemma (T8.0) — about arbitrary functions, no qubovert object in sight

`α` is the type of assignments of *all* variables (user variables and ancillas), `Dom` the domain (boolean or spin
assignments), `f` the objective, `H = f + penalties` the penalised function, `feas s` "the user part of `s` satisfies
every constraint".  The hypotheses:

* `nonneg`: the penalties are non-negative on the domain;
* `sat`: every feasible point has a completion (same objective value, still feasible — think: other ancilla values)
  at which the penalties vanish;
* `viol`: at an infeasible point the penalties are at least some weight `w` that exceeds the range of `f`
  (`f x - f y < w` for all `x`, `y` of the domain — "`w > max f - min f`" without computing extrema);
* a feasible point exists.
-/
namespace Qv.Abs

variable {α : Type} (Dom : α → Prop) (feas : α → Prop) (f H : α → Rat)

/-- the three facts about the penalties `H - f` -/
structure PenaltyFacts : Prop where
  nonneg : ∀ s, Dom s → f s ≤ H s
  sat : ∀ x, Dom x → feas x → ∃ s, Dom s ∧ feas s ∧ f s = f x ∧ H s = f s

/-- every violated constraint costs at least a weight exceeding the range of `f` -/
def BigWeights : Prop :=
  ∀ s, Dom s → ¬ feas s → ∃ w : Rat, (∀ x y, Dom x → Dom y → f x - f y < w) ∧ f s + w ≤ H s

variable {Dom feas f H}

/-- **T8.3 (abstract; no condition on the weights).**  A minimiser of `H` over the *feasible* points of the domain
minimises `f` over the feasible points, and the penalties vanish there. -/
theorem feasible_minimiser (P : PenaltyFacts Dom feas f H) {s : α} (hs : Dom s) (hf : feas s)
    (hmin : ∀ s', Dom s' → feas s' → H s ≤ H s') :
    (∀ x, Dom x → feas x → f s ≤ f x) ∧ H s = f s := by
  have key : ∀ x, Dom x → feas x → H s ≤ f x := by
    intro x hx hfx
    obtain ⟨s', hs', hf', e1, e2⟩ := P.sat x hx hfx
    have := hmin s' hs' hf'
    linarith
  refine ⟨fun x hx hfx => le_trans (P.nonneg s hs) (key x hx hfx), le_antisymm (key s hs hf) (P.nonneg s hs)⟩

/-- **T8.0 (a).**  With big weights, an infeasible point is never a minimiser of `H`: it costs strictly more than
every feasible point's objective value. -/
theorem infeasible_costs_more (_P : PenaltyFacts Dom feas f H) (W : BigWeights Dom feas f H) {s x : α}
    (hs : Dom s) (hns : ¬ feas s) (hx : Dom x) (_ : feas x) : f x < H s := by
  obtain ⟨w, hw, hle⟩ := W s hs hns
  have := hw x s hx hs
  linarith

/-- **T8.0 (b).**  With big weights and a feasible point, every minimiser of `H` over the whole domain is feasible,
minimises `f` over the feasible points, and `H` equals `f` there. -/
theorem minimiser_feasible_optimal (P : PenaltyFacts Dom feas f H) (W : BigWeights Dom feas f H)
    (hex : ∃ x, Dom x ∧ feas x) {s : α} (hs : Dom s) (hmin : ∀ s', Dom s' → H s ≤ H s') :
    feas s ∧ (∀ x, Dom x → feas x → f s ≤ f x) ∧ H s = f s := by
  have hf : feas s := by
    by_contra hns
    obtain ⟨x, hx, hfx⟩ := hex
    obtain ⟨s', hs', _, e1, e2⟩ := P.sat x hx hfx
    have h1 := infeasible_costs_more P W hs hns hx hfx
    have h2 := hmin s' hs'
    linarith
  exact ⟨hf, feasible_minimiser P hs hf (fun s' hs' _ => hmin s' hs')⟩

/-- **T8.0 (c).**  `min H = min_feasible f`, stated without computing minima: `H` over the domain and `f` over the
feasible points have the same lower bounds … -/
theorem same_lower_bounds (P : PenaltyFacts Dom feas f H) (W : BigWeights Dom feas f H)
    (hex : ∃ x, Dom x ∧ feas x) (m : Rat) :
    (∀ s, Dom s → m ≤ H s) ↔ (∀ x, Dom x → feas x → m ≤ f x) := by
  constructor
  · intro h x hx hfx
    obtain ⟨s', hs', _, e1, e2⟩ := P.sat x hx hfx
    have := h s' hs'
    linarith
  · intro h s hs
    by_cases hf : feas s
    · exact le_trans (h s hs hf) (P.nonneg s hs)
    · obtain ⟨x, hx, hfx⟩ := hex
      have := infeasible_costs_more P W hs hf hx hfx
      have := h x hx hfx
      linarith

/-- … and a value is the minimum of `H` on the domain (a lower bound that is attained) iff it is the minimum of
`f` on the feasible points. -/
theorem same_minimum (P : PenaltyFacts Dom feas f H) (W : BigWeights Dom feas f H)
    (hex : ∃ x, Dom x ∧ feas x) (m : Rat) :
    (∃ s, Dom s ∧ H s = m ∧ ∀ s', Dom s' → m ≤ H s') ↔
    (∃ x, Dom x ∧ feas x ∧ f x = m ∧ ∀ x', Dom x' → feas x' → m ≤ f x') := by
  constructor
  · rintro ⟨s, hs, rfl, hmin⟩
    obtain ⟨hf, hopt, e⟩ := minimiser_feasible_optimal P W hex hs hmin
    exact ⟨s, hs, hf, e.symm, fun x' hx' hf' => by rw [e]; exact hopt x' hx' hf'⟩
  · rintro ⟨x, hx, hfx, rfl, hmin⟩
    obtain ⟨s', hs', _, e1, e2⟩ := P.sat x hx hfx
    refine ⟨s', hs', by rw [e2, e1], ?_⟩
    exact (same_lower_bounds P W ⟨x, hx, hfx⟩ (f x)).2 hmin

end Qv.Abs
