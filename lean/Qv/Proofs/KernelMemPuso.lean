import Qv.Proofs.KernelMemQuso
/-!
# Qv.Proofs.KernelMemPuso — `anneal_puso.c` under the checked-memory model never fails on `WF` buffers
(with at least one term, or with the guarded `index[0] = 0`)
-/
namespace Qv.KMem
open Qv.Kernel (Src OfInt ofInt)

/-- a row `subgraphs[j]` : `row[0] = k` is the number of entries, `row[1..k]` are term numbers `< T`;
`k <= c` (`c` bounds the number of `terms` entries processed so far) -/
def Row (T : Nat) (c : Int) (row : Buf Int) : Prop :=
  row.live = true ∧ ∃ k : Nat, (k : Int) ≤ c ∧ row.cells.size = k + 1 ∧ row.cells[0]? = some (some (k : Int)) ∧
    ∀ m, 1 ≤ m → m ≤ k → ∃ t : Int, row.cells[m]? = some (some t) ∧ 0 ≤ t ∧ t < (T : Int)

def Rows (T : Nat) (c : Int) : Nat → Buf Int → Prop := fun _ row => Row T c row

theorem Row.mono {T : Nat} {c c' : Int} {row : Buf Int} (h : Row T c row) (hc : c ≤ c') : Row T c' row := by
  obtain ⟨hl, k, hk, rest⟩ := h
  exact ⟨hl, k, by omega, rest⟩

section
variable {α ρ : Type} [Add α] [Mul α] [OfInt α]

/-- the read-only problem buffers of `anneal_puso` -/
structure PCtx (p : PusoB α) (N T : Nat) (nc : List Int) (lenTerms : Nat) : Prop where
  ncB : p.nc.Upto T T (fun i v => nc[i]? = some v)
  terms : p.terms.Upto lenTerms lenTerms (fun _ v => 0 ≤ v ∧ v < (N : Int))
  cs : p.cs.Upto T T Any
  nc_len : nc.length = T
  nc_nonneg : ∀ x ∈ nc, 0 ≤ x
  nc_sum : nc.sum = (lenTerms : Int)
  lenTerms_lt : (lenTerms : Int) < 2147483647
  N_le : (N : Int) ≤ 2147483647

omit [Add α] [Mul α] [OfInt α] in
theorem termProduct_ok {p : PusoB α} {N T : Nat} {nc : List Int} {lenTerms : Nat} (c : PCtx p N T nc lenTerms)
    {state : Buf Int} (hs : state.Upto N N Spins) (term : Int) (h0 : 0 ≤ term) (hT : term.toNat < T) :
    Ok (termProduct p state term (psum nc term.toNat)) Spin := by
  unfold termProduct
  refine Ok.bind (rd_int_ok c.ncB term h0 hT) fun cnt hcnt => ?_
  refine forNM_ok (fun _ (pr : Int) => Spin pr) _ _ _ (Or.inl rfl) fun j pr hj hI => ?_
  have hseg := psum_seg c.nc_nonneg hcnt (j := (j : Int)) (by omega) (by omega)
  rw [c.nc_sum] at hseg
  have hL := c.lenTerms_lt
  refine Ok.bind (ladd_ok (by omega)) fun ix hix => ?_
  subst hix
  refine Ok.bind (rd_int_ok c.terms _ hseg.1 (by omega)) fun sp hsp => ?_
  refine Ok.bind (rd_int_ok hs sp hsp.1 (by omega)) fun sv hsv => ?_
  have hsv' : sv = 1 ∨ sv = -1 := hsv
  have hI' : pr = 1 ∨ pr = -1 := hI
  refine (imul_ok (by rcases hI' with rfl | rfl <;> rcases hsv' with rfl | rfl <;> decide)).mono fun r hr => ?_
  subst hr
  show Spin _
  rcases hI' with rfl | rfl <;> rcases hsv' with rfl | rfl
  · exact Or.inl rfl
  · exact Or.inr rfl
  · exact Or.inr rfl
  · exact Or.inl rfl

theorem pusoSubgraphValue_ok {p : PusoB α} {N T : Nat} {nc : List Int} {lenTerms : Nat}
    (c : PCtx p N T nc lenTerms) {index : Buf Int} (hx : IndexFor nc index T) {sg : Buf (Buf Int)} {cc : Int}
    (hsg : sg.Upto N N (Rows T cc)) {state : Buf Int} (hs : state.Upto N N Spins) (spin : Nat) (hsp : spin < N) :
    Ok (pusoSubgraphValue p index sg state spin) (fun _ => True) := by
  unfold pusoSubgraphValue
  refine Ok.bind (rd_ok hsg spin hsp) fun row hrow => ?_
  obtain ⟨hl, k, _, hsz, hc0, hcm⟩ := hrow
  refine Ok.bind ⟨(k : Int), rd_cell hl hc0, rfl⟩ fun cnt hcnt => ?_
  subst hcnt
  rw [Int.toNat_natCast]
  refine (forFromM_ok (fun _ _ => True) _ k 1 _ trivial fun i v h1 hlt _ => ?_).mono fun _ _ => trivial
  obtain ⟨t, ht, ht0, htT⟩ := hcm i h1 (by omega)
  refine Ok.bind ⟨t, rd_cell hl ht, rfl⟩ fun term hterm => ?_
  subst hterm
  refine Ok.bind (rd_int_ok hx t ht0 (by omega)) fun start hstart => ?_
  subst hstart
  refine Ok.bind (termProduct_ok c hs t ht0 (by omega)) fun pr _ => ?_
  refine Ok.bind (rd_int_ok c.cs t ht0 (by omega)) fun cv _ => ?_
  exact Ok.pure trivial

theorem pusoStep_ok {p : PusoB α} {N T : Nat} {nc : List Int} {lenTerms : Nat} (c : PCtx p N T nc lenTerms)
    {index : Buf Int} (hx : IndexFor nc index T) {sg : Buf (Buf Int)} {cc : Int} (hsg : sg.Upto N N (Rows T cc))
    {src : Src ρ α} (hsrc : IndexOK src N) (inOrder : Bool) (Tm : α) (j : Nat) (hj : j < N) (s : Buf Int × ρ)
    (hs : s.1.Upto N N Spins) :
    Ok (pusoStep src p index sg N inOrder Tm j s) (fun s' => s'.1.Upto N N Spins) := by
  unfold pusoStep
  have hv := visit_lt hsrc inOrder s.2 hj
  refine Ok.bind (pusoSubgraphValue_ok c hx hsg hs _ hv) fun e _ => ?_
  dsimp only
  split
  · refine Ok.bind (flipAt_ok hs _ hv) fun st hst => ?_
    exact Ok.pure hst
  · exact Ok.pure hs

theorem singleAnnealPuso_ok {p : PusoB α} {N T : Nat} {nc : List Int} {lenTerms : Nat}
    (c : PCtx p N T nc lenTerms) {index : Buf Int} (hx : IndexFor nc index T) {sg : Buf (Buf Int)} {cc : Int}
    (hsg : sg.Upto N N (Rows T cc)) {src : Src ρ α} (hsrc : IndexOK src N) (inOrder : Bool) {lenTs : Nat}
    {Ts : Buf α} (hT : Ts.Upto lenTs lenTs Any) {state : Buf Int} (hs : state.Upto N N Spins) (rng : ρ) :
    Ok (singleAnnealPuso src p index sg N lenTs Ts inOrder state rng) (fun r => r.1.Upto N N Spins) := by
  unfold singleAnnealPuso
  refine forNM_ok (fun _ (s : Buf Int × ρ) => s.1.Upto N N Spins) _ _ _ hs fun t s ht hI => ?_
  refine Ok.bind (rd_ok hT t ht) fun Tm _ => ?_
  exact forNM_ok (fun _ (s : Buf Int × ρ) => s.1.Upto N N Spins) _ _ _ hI
    fun j s hj hI => pusoStep_ok c hx hsg hsrc inOrder Tm j hj s hI

theorem pusoValue_ok {p : PusoB α} {N T : Nat} {nc : List Int} {lenTerms : Nat} (c : PCtx p N T nc lenTerms)
    {state : Buf Int} (hs : state.Upto N N Spins) : Ok (pusoValue p T state) (fun _ => True) := by
  unfold pusoValue
  refine Ok.bind (forNM_ok (fun term (s : Int × α) => s.1 = psum nc term) _ _ _ (psum_zero nc).symm
    fun term s hterm hI => ?_) fun _ _ => Ok.pure trivial
  refine Ok.bind (rd_ok c.ncB term hterm) fun cnt hcnt => ?_
  have hcnt0 : 0 ≤ cnt := c.nc_nonneg cnt (mem_of_getElem? hcnt)
  refine Ok.bind (forNM_ok (fun j (t : Int × Int) => t.1 = psum nc term + (j : Int) ∧ Spin t.2) _ _ _
    ⟨by simpa using hI, Or.inl rfl⟩ fun j t hj hJ => ?_) fun t ht => ?_
  · have hseg := psum_seg c.nc_nonneg hcnt (j := (j : Int)) (by omega) (by omega)
    rw [c.nc_sum] at hseg
    have hL := c.lenTerms_lt
    obtain ⟨ht1, ht2⟩ := hJ
    rw [ht1]
    refine Ok.bind (rd_int_ok c.terms _ hseg.1 (by omega)) fun sp hsp => ?_
    refine Ok.bind (rd_int_ok hs sp hsp.1 (by omega)) fun sv hsv => ?_
    have hsv' : sv = 1 ∨ sv = -1 := hsv
    have ht2' : t.2 = 1 ∨ t.2 = -1 := ht2
    refine Ok.bind (imul_ok (by rcases ht2' with e | e <;> rcases hsv' with rfl | rfl <;> rw [e] <;> decide))
      fun pr hpr => ?_
    refine Ok.bind (ladd_ok (by omega)) fun ix hix => ?_
    refine Ok.pure ⟨by subst hix; simp; omega, ?_⟩
    subst hpr
    show Spin _
    rcases ht2' with e | e <;> rcases hsv' with rfl | rfl <;> rw [e]
    · exact Or.inl rfl
    · exact Or.inr rfl
    · exact Or.inr rfl
    · exact Or.inl rfl
  · refine Ok.bind (rd_ok c.cs term hterm) fun cv _ => ?_
    refine Ok.pure ?_
    show t.1 = psum nc (term + 1)
    rw [psum_succ hcnt, ht.1]
    omega

theorem initSubgraphs_ok {N : Nat} (T : Nat) (hN : (N : Int) ≤ 2147483647) :
    Ok (initSubgraphs N) (fun sg => sg.Upto N N (Rows T 0)) := by
  unfold initSubgraphs
  refine Ok.bind (malloc_nat_ok N 8 (Rows T 0) (by omega)) fun sg0 hsg0 => ?_
  refine forNM_ok (fun i (sg : Buf (Buf Int)) => sg.Upto N i (Rows T 0)) _ _ _ hsg0 fun i sg hi hI => ?_
  refine Ok.bind (malloc_nat_ok 1 8 (fun _ v => v = 0) (by omega)) fun row0 hrow0 => ?_
  refine Ok.bind (wr_next hrow0 (by omega) 0 rfl) fun row hrow => ?_
  refine wr_next hI hi row ?_
  obtain ⟨v, hv, hv0⟩ := hrow.init 0 (by omega)
  subst hv0
  exact ⟨hrow.live, 0, by omega, by simpa using hrow.size, by simpa using hv, fun m h1 h2 => by omega⟩

omit [Add α] [Mul α] [OfInt α] in
theorem addToSubgraph_ok {p : PusoB α} {N T : Nat} {nc : List Int} {lenTerms : Nat} (c : PCtx p N T nc lenTerms)
    {sg : Buf (Buf Int)} (term : Nat) (hterm : term < T) {cnt : Int} (hcnt : nc[term]? = some cnt) (i : Nat)
    (hi : (i : Int) < cnt) (hsg : sg.Upto N N (Rows T (psum nc term + (i : Int)))) :
    Ok (addToSubgraph p sg term (psum nc term) i)
      (fun sg' => sg'.Upto N N (Rows T (psum nc term + ((i + 1 : Nat) : Int)))) := by
  unfold addToSubgraph
  have hseg := psum_seg c.nc_nonneg hcnt (j := (i : Int)) (by omega) hi
  rw [c.nc_sum] at hseg
  have hL := c.lenTerms_lt
  refine Ok.bind (ladd_ok (by omega)) fun ix hix => ?_
  subst hix
  refine Ok.bind (rd_int_ok c.terms _ hseg.1 (by omega)) fun j hj => ?_
  refine Ok.bind (rd_int_ok hsg j hj.1 (by omega)) fun row hrow => ?_
  obtain ⟨hl, k, hk, hsz, hc0, hcm⟩ := hrow
  refine Ok.bind ⟨(k : Int), rd_cell hl hc0, rfl⟩ fun c0 hc0' => ?_
  subst hc0'
  refine Ok.bind (ladd_ok (by omega)) fun c' hc' => ?_
  subst hc'
  refine Ok.bind (wr_raw hl 0 (by omega) _) fun row1 hrow1 => ?_
  obtain ⟨hl1, hsz1, h10, h1m⟩ := hrow1
  refine Ok.bind (toInt_ok (by omega)) fun kk hkk => ?_
  subst hkk
  refine Ok.bind (iadd_ok (by omega)) fun k1 hk1 => ?_
  subst hk1
  refine Ok.bind (realloc_ok hl1 _ 8 (by omega) (by omega)) fun row2 hrow2 => ?_
  obtain ⟨hl2, hsz2, h2m⟩ := hrow2
  have hk2 : ((k : Int) + 1 + 1).toNat = k + 2 := by omega
  rw [hk2] at hsz2 h2m
  have e1 : ((k : Int) + 1) = ((k + 1 : Nat) : Int) := by omega
  rw [e1]
  refine Ok.bind (wr_raw hl2 (k + 1) (by omega) _) fun row3 hrow3 => ?_
  obtain ⟨hl3, hsz3, h3k, h3m⟩ := hrow3
  have hjN : j.toNat < N := by omega
  have := wr_gen (q := Rows T (psum nc term + ((i + 1 : Nat) : Int))) hsg j.toNat hjN N row3
    (fun m hm => Or.inr hm) ?_ (fun m w _ _ hw => Row.mono hw (by omega))
  · rwa [Int.toNat_of_nonneg hj.1] at this
  · refine ⟨hl3, k + 1, by omega, by omega, ?_, fun m hm1 hm2 => ?_⟩
    · rw [h3m 0 (by omega), h2m 0 (by omega), h10]
      simp
    · by_cases hmk : m = k + 1
      · subst hmk
        exact ⟨(term : Int), h3k, by omega, by omega⟩
      · obtain ⟨t, ht, ht0, htT⟩ := hcm m hm1 (by omega)
        refine ⟨t, ?_, ht0, htT⟩
        rw [h3m m hmk, h2m m (by omega), h1m m (by omega), ht]
        simp

omit [Add α] [Mul α] [OfInt α] in
theorem mkIndexSubgraphs_ok {p : PusoB α} {N T : Nat} {nc : List Int} {lenTerms : Nat} (c : PCtx p N T nc lenTerms)
    (guard : Bool) (hg : guard = true ∨ 1 ≤ T) (hTle : (T : Int) ≤ 2147483647) {sg : Buf (Buf Int)}
    (hsg : sg.Upto N N (Rows T 0)) :
    Ok (mkIndexSubgraphs guard p T sg)
      (fun r => IndexFor nc r.1 T ∧ r.2.Upto N N (Rows T (lenTerms : Int))) := by
  unfold mkIndexSubgraphs IndexFor
  refine Ok.bind (malloc_nat_ok T 8 (fun i v => v = psum nc i) (by omega)) fun index0 h0 => ?_
  by_cases hT0 : T = 0
  · -- no term: only reachable with the guarded write
    subst hT0
    have hgt : guard = true := by
      rcases hg with h | h
      · exact h
      · omega
    subst hgt
    simp only [Bool.true_and, beq_self_eq_true, ↓reduceIte]
    refine Ok.bind (P := fun b : Buf Int => b.Upto 0 0 (fun i v => v = psum nc i)) ⟨index0, rfl, h0⟩
      fun index hindex => ?_
    refine Ok.ok ⟨hindex, ?_⟩
    have hz : lenTerms = 0 := by
      have h1 := c.nc_len
      have h2 := c.nc_sum
      have : nc = [] := List.eq_nil_of_length_eq_zero h1
      subst this
      simp at h2
      omega
    subst hz
    exact hsg
  · have hcond : (guard && T == 0) = false := by
      have : (T == 0) = false := by simpa using hT0
      simp [this]
    rw [hcond]
    simp only [Bool.false_eq_true, ↓reduceIte]
    refine Ok.bind (wr_next h0 (by omega) 0 (psum_zero nc).symm) fun index1 h1 => ?_
    refine (forNM_ok (fun term (s : Buf Int × Buf (Buf Int)) =>
        s.1.Upto T (max term 1) (fun i v => v = psum nc i) ∧ s.2.Upto N N (Rows T (psum nc term))) _ _ _
      ⟨by simpa using h1, by simpa [psum_zero] using hsg⟩ fun term s hterm hI => ?_).mono fun r hr => ?_
    · obtain ⟨hidx, hsgs⟩ := hI
      have hstep : Ok (nextIndex p s.1 term) (fun index => index.Upto T (term + 1) (fun i v => v = psum nc i)) := by
        unfold nextIndex
        split
        · rename_i hne
          have hi1 : ((term : Int) - 1).toNat = term - 1 := by omega
          have hm : max term 1 = term := by omega
          rw [hm] at hidx
          refine Ok.bind (rd_int_ok hidx _ (by omega) (by omega)) fun a ha => ?_
          refine Ok.bind (rd_int_ok c.ncB _ (by omega) (by omega)) fun b' hb' => ?_
          rw [hi1] at ha hb'
          have hs := psum_succ hb'
          have e : term - 1 + 1 = term := by omega
          rw [e] at hs
          have hbd := psum_bounds c.nc_nonneg term
          have hsum := c.nc_sum
          have hL := c.lenTerms_lt
          refine Ok.bind (ladd_ok (by omega)) fun c' hc' => ?_
          subst hc'
          exact wr_next hidx hterm _ (by omega)
        · rename_i hne
          have : term = 0 := by omega
          subst this
          exact Ok.pure (by simpa using hidx)
      refine Ok.bind hstep fun index hindex => ?_
      refine Ok.bind (rd_ok c.ncB term hterm) fun cnt hcnt => ?_
      refine Ok.bind (rd_ok hindex term (by omega)) fun start hstart => ?_
      subst hstart
      have hcnt0 : 0 ≤ cnt := c.nc_nonneg cnt (mem_of_getElem? hcnt)
      refine Ok.bind (forNM_ok (fun i (sg : Buf (Buf Int)) => sg.Upto N N (Rows T (psum nc term + (i : Int))))
        _ _ _ (by simpa using hsgs) fun i sg hi hI =>
          addToSubgraph_ok c term hterm hcnt i (by omega) hI) fun sg' hsg' => ?_
      refine Ok.pure ⟨by
        have hm : max (term + 1) 1 = term + 1 := by omega
        rw [hm]; exact hindex, ?_⟩
      have e : psum nc (term + 1) = psum nc term + ((cnt.toNat : Nat) : Int) := by
        rw [psum_succ hcnt]; omega
      rw [e]
      exact hsg'
    · obtain ⟨h1, h2⟩ := hr
      refine ⟨h1.weaken (by omega) (fun _ _ _ h => h), ?_⟩
      have e : psum nc T = (lenTerms : Int) := by
        rw [psum_all (by rw [c.nc_len]; exact Nat.le_refl T), c.nc_sum]
      rw [e] at h2
      exact h2

theorem rowsLive_false {sg : Buf (Buf Int)} {N : Nat} (hsz : sg.cells.size = N)
    (h : ∀ m, m < N → ∃ row, sg.cells[m]? = some (some row) ∧ row.live = false) : rowsLive sg = false := by
  unfold rowsLive
  rw [Array.any_eq_false]
  intro i hi
  obtain ⟨row, hrow, hdead⟩ := h i (by omega)
  have : sg.cells[i] = some row := by
    have := Array.getElem?_eq_getElem hi
    rw [this] at hrow
    exact Option.some.inj hrow
  rw [this]
  simp [hdead]

theorem freeRows_ok {N T : Nat} {cc : Int} {sg : Buf (Buf Int)} (hsg : sg.Upto N N (Rows T cc)) :
    Ok (freeRows N sg) (fun sg' => sg'.live = true ∧ sg'.cells.size = N ∧
      ∀ m, m < N → ∃ row, sg'.cells[m]? = some (some row) ∧ row.live = false) := by
  unfold freeRows
  refine (forNM_ok (fun i (sg : Buf (Buf Int)) =>
      sg.Upto N N (fun m row => if m < i then row.live = false else row.live = true)) _ _ _
    (hsg.weaken (Nat.le_refl N) fun m row _ hr => by simpa using hr.1) fun i sg hi hI => ?_).mono fun r hr => ?_
  · refine Ok.bind (rd_ok hI i hi) fun row hrow => ?_
    have hlive : row.live = true := by simpa using hrow
    refine Ok.bind (free_ok hlive) fun row' hrow' => ?_
    refine wr_gen hI i hi N row' (fun m hm => Or.inr hm) (by simp [hrow'.1]) fun m w _ hmi hw => ?_
    by_cases h1 : m < i
    · have : m < i + 1 := by omega
      simpa [h1, this] using hw
    · have : ¬ m < i + 1 := by omega
      simpa [h1, this] using hw
  · refine ⟨hr.live, hr.size, fun m hm => ?_⟩
    obtain ⟨row, hrow, hd⟩ := hr.init m hm
    exact ⟨row, hrow, by simpa [hm] using hd⟩

/-- `anneal_puso` on `WF` buffers with a term (or with the guarded write): no memory error -/
theorem annealPuso_ok {p : PusoB α} {N T : Nat} {nc : List Int} {lenTerms : Nat} (c : PCtx p N T nc lenTerms)
    (guard : Bool) (hg : guard = true ∨ 1 ≤ T) (hTle : (T : Int) ≤ 2147483647)
    {src : Src ρ α} (hsrc : IndexOK src N) (inOrder provided : Bool) {lenTs : Nat} {Ts : Buf α}
    (hT : Ts.Upto lenTs lenTs Any) (numAnneals : Int)
    (htot : numAnneals.toNat * N ≤ 2147483647) {states : Buf Int} {k0 : Nat}
    (hst : states.Upto (numAnneals.toNat * N) k0 Spins)
    (hprov : provided = true → k0 = numAnneals.toNat * N) {values : Buf α}
    (hv : values.Upto numAnneals.toNat 0 Any) (rng : ρ) :
    Ok (annealPuso guard src numAnneals states values (N : Int) T p lenTs Ts inOrder provided rng)
      (fun r => r.1.Upto (numAnneals.toNat * N) (numAnneals.toNat * N) Spins ∧
        r.2.Upto numAnneals.toNat numAnneals.toNat Any) := by
  unfold annealPuso
  have hN := c.N_le
  refine Ok.bind (malloc_nat_ok N 4 Spins (by omega)) fun state0 hs0 => ?_
  simp only [Int.toNat_natCast]
  refine Ok.bind (initSubgraphs_ok T hN) fun sg0 hsg0 => ?_
  refine Ok.bind (mkIndexSubgraphs_ok c guard hg hTle hsg0) fun is his => ?_
  obtain ⟨hx, hsg⟩ := his
  generalize hna' : numAnneals.toNat = na at *
  refine Ok.bind (forNM_ok (fun i (s : Buf Int × Buf α × Buf Int × ρ) =>
      (∃ k, i * N ≤ k ∧ (provided = true → k = na * N) ∧ s.1.Upto (na * N) k Spins) ∧
      s.2.1.Upto na i Any ∧ ∃ k, s.2.2.1.Upto N k Spins) _ _ _
    ⟨⟨k0, by simp, hprov, hst⟩, hv, 0, hs0⟩ fun i s hi hI => ?_) fun s hI => ?_
  · obtain ⟨⟨k, hk, hkp, hstates⟩, hvalues, ks, hstate⟩ := hI
    refine Ok.bind (initState_ok src provided hi htot (fun hp => by have e := hkp hp; subst e; exact hstates)
      hstate _) fun sr hsr => ?_
    refine Ok.bind (singleAnnealPuso_ok c hx hsg hsrc inOrder hT hsr _) fun sr2 hsr2 => ?_
    refine Ok.bind (pusoValue_ok c hsr2) fun v _ => ?_
    refine Ok.bind (wr_next hvalues hi v trivial) fun values' hvalues' => ?_
    refine Ok.bind (storeState_ok hi htot hstates hk hsr2) fun states' hstates' => ?_
    refine Ok.pure ⟨⟨max k ((i + 1) * N), by omega, fun hp => ?_, hstates'⟩, hvalues', N, hsr2⟩
    have := hkp hp
    have := Nat.mul_le_mul_right N (show i + 1 ≤ na by omega)
    omega
  · obtain ⟨⟨k, hk, _, hstates⟩, hvalues, ks, hstate⟩ := hI
    refine Ok.bind (free_ok hstate.live) fun state' hs' => ?_
    refine Ok.bind (free_ok hx.live) fun index' hi' => ?_
    refine Ok.bind (freeRows_ok hsg) fun sg1 hsg1 => ?_
    refine Ok.bind (free_ok hsg1.1) fun sg2 hsg2 => ?_
    have hrl : rowsLive sg2 = false := by
      refine rowsLive_false (N := N) (by rw [hsg2.2]; exact hsg1.2.1) fun m hm => ?_
      rw [hsg2.2]
      exact hsg1.2.2 m hm
    refine Ok.bind (noLeak_ok (by
      intro b hb
      simp at hb
      rcases hb with rfl | rfl | rfl | rfl
      · exact hs'.1
      · exact hi'.1
      · exact hsg2.1
      · exact hrl)) fun _ _ => ?_
    refine Ok.pure ⟨?_, hvalues⟩
    exact hstates.weaken (k' := na * N) hk (fun _ _ _ h => h)

end

end Qv.KMem
