import Qv.Proofs.KernelMemRefine2
import Qv.Proofs.KernelMemFront
/-!
# Qv.Proofs.KernelMemRefine3 — `c_anneal_quso` end to end returns exactly `Kernel.annealQuso`
-/
namespace Qv.KMem
open Qv.Kernel (Src OfInt ofInt forFrom forN)

theorem getD_of_getElem? {β : Type} {l : List β} {i : Nat} {v : β} (d : β) (h : l[i]? = some v) : l.getD i d = v := by
  simp [List.getD, h]

theorem take_snoc_getD {β : Type} (l : List β) (j : Nat) (d : β) (hj : j < l.length) :
    l.take j ++ [l.getD j d] = l.take (j + 1) := by
  have e : l[j]? = some l[j] := List.getElem?_eq_getElem hj
  rw [List.take_add_one, e, getD_of_getElem? d e]
  rfl

theorem nat_le_sum_of_mem : ∀ {l : List Nat} {x : Nat}, x ∈ l → x ≤ l.sum
  | [], _, h => by cases h
  | a :: r, x, h => by
    simp only [List.sum_cons]
    rcases List.mem_cons.mp h with rfl | h'
    · omega
    · have := nat_le_sum_of_mem h'; omega

/-- the `if(initial_state_provided)` block of both wrappers: every row of `states` receives the initial state -/
theorem encodeInit_sim (long : Bool) {na N : Nat} {init : List Int} (hlen : init.length = N)
    (hsp : ∀ x ∈ init, x = 1 ∨ x = -1) (hT : na * N ≤ 2147483647) {states : Buf Int} {p0 : Nat → Int → Prop}
    (hst : states.Upto (na * N) 0 p0) :
    Ok (encodeInit long (na : Int) N init states)
      (fun s => s.live = true ∧ s.cells.size = na * N ∧ ∀ r, r < na → RowIs s N r init) := by
  unfold encodeInit
  rw [Int.toNat_natCast]
  refine (forNM_ok (fun i (s : Buf Int) => s.live = true ∧ s.cells.size = na * N ∧ ∀ r, r < i → RowIs s N r init)
    _ _ _ ⟨hst.live, hst.size, fun r h => by omega⟩ fun i s hi hI => ?_)
  obtain ⟨hl, hsz, hrows⟩ := hI
  refine (forNM_ok (fun j (s' : Buf Int) => s'.live = true ∧ s'.cells.size = na * N ∧
      (∀ r, r < i → RowIs s' N r init) ∧ ∀ j', j' < j → s'.cells[i * N + j']? = some (some (init.getD j' 0)))
    _ _ _ ⟨hl, hsz, hrows, fun j' h => by omega⟩ fun j s' hj hJ => ?_).mono fun s' hs' =>
      ⟨hs'.1, hs'.2.1, fun r hr => ?_⟩
  · obtain ⟨hl', hsz', hrows', hrow⟩ := hJ
    have hlt := flat_index_lt (N := N) hi hj
    refine Ok.bind (flatIndex_ok long hi hj hT) fun ix hix => ?_
    subst hix
    refine Ok.bind (pyGet_ok (show j < init.length by omega)) fun o ho => ?_
    have hso := hsp o (mem_of_getElem? ho)
    refine Ok.bind (toInt_ok (by rcases hso with rfl | rfl <;> decide)) fun v hv => ?_
    subst hv
    refine (wr_raw hl' (i * N + j) (by omega) _).mono fun b hb => ?_
    obtain ⟨hbl, hbsz, hbc, hbo⟩ := hb
    refine ⟨hbl, by omega, fun r hr j' hj' => ?_, fun j' hj' => ?_⟩
    · rw [hbo _ (fun e => by have := (flat_inj hj' hj e).1; omega)]
      exact hrows' r hr j' hj'
    · by_cases e : j' = j
      · subst e
        rw [hbc, getD_of_getElem? 0 ho]
      · rw [hbo _ (by omega)]
        exact hrow j' (by omega)
  · by_cases e : r = i
    · subst e
      exact fun j hj => hs'.2.2.2 j hj
    · exact hs'.2.2.1 r (by omega)

section
variable {α ρ : Type} [Add α] [Mul α] [OfInt α]

omit [Add α] [Mul α] in
/-- `build_py_states_values` reads back exactly the result list -/
theorem buildPy_sim {na N : Nat} (hT : na * N ≤ 2147483647) {states : Buf Int} {values : Buf α}
    {OUT : List (List Int × α)} (h : OutR na N states values OUT) :
    Ok (buildPy (na : Int) N states values) (fun out => out = OUT) := by
  obtain ⟨hl, hsz, hvals, hrows, hlen, hlens⟩ := h
  unfold buildPy
  rw [Int.toNat_natCast]
  refine (forNM_ok (fun i (out : List (List Int × α)) => out = OUT.take i) _ _ _ (by simp)
    fun i out hi hI => ?_).mono fun out hout => by rw [hout, List.take_of_length_le (by omega)]
  have hio : i < OUT.length := by omega
  have hmem : OUT.getD i ([], ofInt 0) ∈ OUT := Kernel.getD_mem _ hio
  have hlN := hlens _ hmem
  refine Ok.bind (forNM_ok (fun j (st : List Int) => st = (OUT.getD i ([], ofInt 0)).1.take j) _ _ _ (by simp)
    fun j st hj hJ => ?_) fun st hst' => ?_
  · have hlt := flat_index_lt (N := N) hi hj
    refine Ok.bind (imul_flat (row_le hi) hT) fun p hp => ?_
    subst hp
    refine Ok.bind (iadd_flat hlt hT) fun ix hix => ?_
    subst hix
    refine Ok.bind ⟨_, rd_cell hl (hrows i hi j hj), rfl⟩ fun v hv' => ?_
    subst hv' hJ
    exact Ok.pure (take_snoc_getD _ j 0 (by omega))
  · rw [List.take_of_length_le (by omega)] at hst'
    refine Ok.bind (rd_ok hvals i hi) fun v hv => ?_
    have hv' : v = (OUT.getD i ([], ofInt 0)).2 := hv
    subst hv' hst' hI
    exact Ok.pure (take_snoc_getD OUT i ([], ofInt 0) hio)

/-- **Refinement (QUSO).**  On `WF` arguments the checked `c_anneal_quso` returns exactly what the unchecked
kernel model `Kernel.annealQuso` (the subject of C11/C12) returns on the same arrays. -/
theorem cAnnealQuso_refines (src : Src ρ α) (Q : Kernel.Quso α) (Ts : List α) (numAnneals : Int)
    (inOrder : Bool) (init : List Int) (rng : ρ) (hsrc : IndexOK src Q.h.length)
    (wf : WFQuso Q.h (Q.nn.map Int.ofNat) (Q.nb.map Int.ofNat) Q.J Ts numAnneals init) :
    cAnnealQuso src Q.h (Q.nn.map Int.ofNat) (Q.nb.map Int.ofNat) Q.J Ts numAnneals inOrder init rng =
      .ok (Kernel.annealQuso src Q Q.h.length Ts inOrder init numAnneals.toNat rng) := by
  suffices hOk : Ok (cAnnealQuso src Q.h (Q.nn.map Int.ofNat) (Q.nb.map Int.ofNat) Q.J Ts numAnneals inOrder init rng)
      (fun out => out = Kernel.annealQuso src Q Q.h.length Ts inOrder init numAnneals.toNat rng) by
    obtain ⟨out, e, h⟩ := hOk
    rw [e, h]
  obtain ⟨hN1, hnnlen, hnnnn, hnnsum, hnblen, hnblt, hinit, hna, htot, hJ, hTs⟩ := wf
  obtain ⟨na, rfl⟩ : ∃ na : Nat, numAnneals = (na : Int) := ⟨numAnneals.toNat, by omega⟩
  simp only [INT_MAX, List.length_map] at htot hJ hTs hnnlen hnblen
  rw [sum_map_ofNat] at hnnsum
  generalize hNdef : Q.h.length = N at *
  have htot' : na * N ≤ 2147483647 := by
    have : ((na * N : Nat) : Int) = (na : Int) * (N : Int) := by simp
    omega
  have hna' : 1 ≤ na := by omega
  have hNle : N ≤ 2147483647 := Nat.le_trans (le_mul_right' hna') htot'
  have hnale : na ≤ 2147483647 := Nat.le_trans (le_mul_left' hN1) htot'
  have hnnsum' : Q.nn.sum = Q.J.length := by exact_mod_cast hnnsum
  have hnblt' : ∀ x ∈ Q.nb, x < N := fun x hx => by
    have := (hnblt (Int.ofNat x) (List.mem_map.mpr ⟨x, hx, rfl⟩)).2
    exact Int.ofNat_lt.mp this
  unfold cAnnealQuso
  rw [hNdef]
  refine Ok.bind (toInt_ok (by omega)) fun lenState e => ?_
  subst e
  refine Ok.bind (toInt_ok (by omega)) fun lenJ e => ?_
  subst e
  refine Ok.bind (toInt_ok (by omega)) fun lenTs e => ?_
  subst e
  refine Ok.bind (malloc_nat_ok N 8 Any (by omega)) fun hB0 hhB0 => ?_
  refine Ok.bind (malloc_nat_ok N 4 Any (by omega)) fun nnB0 hnnB0 => ?_
  refine Ok.bind (malloc_nat_ok Q.J.length 4 Any (by omega)) fun nbB0 hnbB0 => ?_
  refine Ok.bind (malloc_nat_ok Q.J.length 8 Any (by omega)) fun JB0 hJB0 => ?_
  refine Ok.bind (malloc_nat_ok Ts.length 8 Any (by omega)) fun TsB0 hTsB0 => ?_
  simp only [Int.toNat_natCast]
  refine Ok.bind (marshal_ok (p := Is Q.h (ofInt 0)) hhB0 (by omega) fun i v _ hv =>
    Ok.pure (getD_of_getElem? _ hv).symm) fun hB hhB => ?_
  have hnat : ∀ (l : List Nat) (i : Nat) (v : Int), (l.map Int.ofNat)[i]? = some v → v = ((l.getD i 0 : Nat) : Int) := by
    intro l i v hv
    rw [List.getElem?_map] at hv
    cases hli : l[i]? with
    | none => rw [hli] at hv; cases hv
    | some x =>
      rw [hli] at hv
      simp only [Option.map_some, Option.some.injEq] at hv
      rw [getD_of_getElem? 0 hli, ← hv]
      rfl
  have hle_nn : ∀ x ∈ Q.nn, x ≤ Q.nn.sum := fun x hx => nat_le_sum_of_mem hx
  refine Ok.bind (marshal_ok (p := IsN Q.nn) hnnB0 (by simp; omega) fun i v hi hv => ?_) fun nnB hnnB => ?_
  · have hv' := hnat Q.nn i v hv
    have hmem : Q.nn.getD i 0 ∈ Q.nn := Kernel.getD_mem 0 (by omega)
    have := hle_nn _ hmem
    refine (toInt_ok (by omega)).mono fun w hw => by rw [hw]; exact hv'
  refine Ok.bind (marshal_ok (p := IsN Q.nb) hnbB0 (by simp; omega) fun i v hi hv => ?_) fun nbB hnbB => ?_
  · have hv' := hnat Q.nb i v hv
    have hmem : Q.nb.getD i 0 ∈ Q.nb := Kernel.getD_mem 0 (by omega)
    have := hnblt' _ hmem
    refine (toInt_ok (by omega)).mono fun w hw => by rw [hw]; exact hv'
  refine Ok.bind (marshal_ok (p := Is Q.J (ofInt 0)) hJB0 (by omega) fun i v _ hv =>
    Ok.pure (getD_of_getElem? _ hv).symm) fun JB hJB => ?_
  refine Ok.bind (marshal_ok (p := Is Ts (ofInt 0)) hTsB0 (by omega) fun i v _ hv =>
    Ok.pure (getD_of_getElem? _ hv).symm) fun TsB hTsB => ?_
  refine Ok.bind (malloc_nat_ok na 8 Any (by omega)) fun values0 hvalues0 => ?_
  refine Ok.bind (imul_flat (Nat.le_refl _) htot') fun total e => ?_
  subst e
  refine Ok.bind (malloc_nat_ok (na * N) 4 Spins (by omega)) fun states0 hstates0 => ?_
  have hinitlen : init.length ≤ 2147483647 := by
    rcases hinit with rfl | ⟨hl, _⟩
    · simp
    · omega
  refine Ok.bind (toInt_ok (by omega)) fun provided e => ?_
  subst e
  have ctx : QCtxR { h := hB, nn := nnB, nb := nbB, J := JB } N Q :=
    { h := hhB, nnB := hnnB, nb := hnbB, J := hJB, nn_len := hnnlen, nn_sum := hnnsum', nb_len := hnblen,
      nb_lt := hnblt', J_le := by omega, N_le := hNle }
  have hdec : decide ((init.length : Int) ≠ 0) = decide (init.length ≠ 0) := by simp
  rw [hdec]
  have rest : ∀ (states : Buf Int), states.live = true → states.cells.size = na * N →
      (init.length ≠ 0 → ∀ r, r < na → RowIs states N r init) →
      Ok (do
        let sv ← annealQuso src (na : Int) states values0 N { h := hB, nn := nnB, nb := nbB, J := JB }
          Ts.length TsB inOrder (decide (init.length ≠ 0)) rng
        let out ← buildPy (na : Int) N sv.1 sv.2
        let hB ← hB.free
        let nnB ← nnB.free
        let nbB ← nbB.free
        let JB ← JB.free
        let TsB ← TsB.free
        let states ← sv.1.free
        let values ← sv.2.free
        noLeak [hB.live, nnB.live, nbB.live, JB.live, TsB.live, states.live, values.live]
        pure out) (fun out => out = Kernel.annealQuso src Q N Ts inOrder init (na : Int).toNat rng) := by
    intro states hsl hssz hrows
    have hgi : init.length ≠ 0 → Kernel.GoodState N init := by
      intro hne
      rcases hinit with h | ⟨h1, h2⟩
      · rw [h] at hne; exact absurd rfl hne
      · exact ⟨h1, h2⟩
    refine Ok.bind (annealQuso_sim ctx hN1 hsrc inOrder init hTsB na htot' hsl hssz hgi hrows hvalues0 rng)
      fun sv hsv => ?_
    refine Ok.bind (buildPy_sim htot' hsv) fun out hout => ?_
    refine Ok.bind (free_ok hhB.live) fun b1 h1 => ?_
    refine Ok.bind (free_ok hnnB.live) fun b2 h2 => ?_
    refine Ok.bind (free_ok hnbB.live) fun b3 h3 => ?_
    refine Ok.bind (free_ok hJB.live) fun b4 h4 => ?_
    refine Ok.bind (free_ok hTsB.live) fun b5 h5 => ?_
    refine Ok.bind (free_ok hsv.1) fun b6 h6 => ?_
    refine Ok.bind (free_ok hsv.2.2.1.live) fun b7 h7 => ?_
    refine Ok.bind (noLeak_ok (by
      intro b hb
      simp at hb
      rcases hb with rfl | rfl | rfl | rfl | rfl | rfl | rfl
      · exact h1.1
      · exact h2.1
      · exact h3.1
      · exact h4.1
      · exact h5.1
      · exact h6.1
      · exact h7.1)) fun _ _ => ?_
    rw [Int.toNat_natCast]
    exact Ok.pure hout
  split
  · rename_i hp
    have hne : init ≠ [] := fun e => hp (by simp [e])
    obtain ⟨hl, hsp⟩ := hinit.resolve_left hne
    refine Ok.bind (encodeInit_sim false (by omega) hsp htot' hstates0) fun states hst => ?_
    exact rest states hst.1 hst.2.1 (fun _ => hst.2.2)
  · rename_i hp
    have hz : init.length = 0 := by
      have : ¬ ((init.length : Int) ≠ 0) := hp
      omega
    exact rest states0 hstates0.live hstates0.size (fun h => absurd hz h)

end

end Qv.KMem
