import Qv.Proofs.PcboNe
/-!
# C02: semantics of `add_constraint_ne_zero`
-/
namespace Qv.PcboP

theorem isBool_update {x : Var → Rat} (hx : IsBool x) (a : Var) (c : Rat) (hc : c = 0 ∨ c = 1) :
    IsBool (fun i => if i = a then c else x i) := by
  intro i; simp only []; split
  · exact hc
  · exact hx i

/-- **ne.**  All three clauses in every branch (in the `ne-unsat` branch the penalty is the constant `lam`). -/
theorem addNeZero_sem {st : St} {P : Poly} {lam : Rat} {lt : Bool} {b : Option Rat × Option Rat} {sup : Bool}
    (hlam : 0 < lam) (hint : IntValued P) (hnz : NoZero P) (hnd : (keys P).Nodup) (hb : ValidBounds P b)
    (hbel : Below (ANC + st.anc) P) :
    Sem (fun v => v ≠ 0) st (addNeZero st P lam lt b sup) P lam := by
  have hbd : ∀ x, IsBool x → (getBounds P b).1 ≤ eval x P ∧ eval x P ≤ (getBounds P b).2 :=
    fun x hx => getBounds_sound hb hx
  have hb2 : ValidBounds P (some (getBounds P b).1, some (getBounds P b).2) := validBounds_some hbd
  rcases addNeZero_cases st P lam lt b sup with
    ⟨h0, _⟩ | ⟨_, c1, c2, h⟩ | ⟨_, c, t, h⟩ | ⟨_, c1, c2, h⟩ | ⟨_, c1, c2, h⟩ | ⟨_, c1, c2, h⟩
  · exact absurd h0 (ne_of_gt hlam)
  · -- P is identically 0: the constant lam
    rw [h]
    have hF : ∀ x, IsBool x →
        FPen st ((((st.append .ne P).warn sup "unsat").plus (addConstB [] lam)).tag "ne-unsat") x = lam := by
      intro x hx
      simp only [FPen, St.tag_terms, St.plus_terms, St.warn_terms, St.append_terms, eval_iaddB hx, eval_addConstB hx,
        eval_nil]; ring
    refine ⟨fun x hx => by rw [hF x hx]; exact hlam.le, fun x hx hr => ?_, fun x hx _ => by rw [hF x hx]⟩
    have := hbd x hx
    rw [c1, c2] at this
    exact absurd (le_antisymm this.2 this.1) hr
  · -- always satisfied
    rw [h]
    have hF : ∀ x, FPen st (((st.append .ne P).warn sup "always").tag t) x = 0 := by
      intro x; simp [FPen]
    refine ⟨fun x _ => by rw [hF], fun x hx _ => ⟨x, fun _ _ => rfl, hx, hF x⟩, fun x hx hr => ?_⟩
    have := hbd x hx
    exfalso; apply hr
    rcases c with c | c
    · exact ne_of_gt (lt_of_lt_of_le c this.1)
    · exact ne_of_lt (lt_of_le_of_lt this.2 c)
  · -- min = 0: P > 0
    rw [h]
    have G := (addGtZero_sem (st := st.append .ne P) (lt := true) (sup := sup) hlam hint hb2 hbel).2
      (by simp only [getBounds_some]; exact not_le.2 c2)
    refine (G.transfer (P' := P) (R' := fun v => v ≠ 0) (fun x hx => ?_)).congr rfl rfl rfl rfl
    have := (hbd x hx).1
    rw [c1] at this
    constructor
    · intro hv; exact lt_of_le_of_ne this (Ne.symm hv)
    · intro hv; exact ne_of_gt hv
  · -- max = 0: P < 0
    rw [h]
    have G := (addLtZero_sem (st := st.append .ne P) (lt := true) (sup := sup) hlam hint hnz hnd hb2 hbel).2
      (by simp only [getBounds_some]; exact not_le.2 c1)
    refine (G.transfer (P' := P) (R' := fun v => v ≠ 0) (fun x hx => ?_)).congr rfl rfl rfl rfl
    have := (hbd x hx).2
    rw [c2] at this
    constructor
    · intro hv; exact lt_of_le_of_ne this hv
    · intro hv; exact ne_of_lt hv
  · -- two-sided: sign ancilla times (1 + slack)
    rw [h]
    have cap : ∀ m : Nat, (m : Rat) ≤ (getBounds P b).2 + 1 - ((getBounds P b).1 - 1) - 1 →
        if lt then m < 2 ^ numBits ((getBounds P b).2 + 1 - ((getBounds P b).1 - 1) - 1) lt
        else m ≤ numBits ((getBounds P b).2 + 1 - ((getBounds P b).1 - 1) - 1) lt := fun m hm => numBits_cap lt hm
    generalize numBits ((getBounds P b).2 + 1 - ((getBounds P b).1 - 1) - 1) lt = n at cap
    obtain ⟨l1, l2, l3, l5, l6, l6', l7, l8⟩ := neLoop_spec lt (signPoly (ANC + st.anc)) n (st.append .ne P).nextAnc.1
      (iaddB P (signPoly (ANC + st.anc))) ((getBounds P b).1 - 1) ((getBounds P b).2 + 1) 0
    generalize hNL : neLoop lt (signPoly (ANC + st.anc)) (st.append .ne P).nextAnc.1 (iaddB P (signPoly (ANC + st.anc)))
      ((getBounds P b).1 - 1) ((getBounds P b).2 + 1) 0 n = NL at l1 l2 l3 l5 l6 l6' l7 l8
    simp only [St.nextAnc_anc, St.append_anc, St.nextAnc_terms, St.append_terms] at l1 l2 l5
    -- value of the extended polynomial
    have hval : ∀ x, IsBool x →
        eval x NL.2.1 = eval x P + (2 * x (ANC + st.anc) - 1) * (1 + slackVal lt x (st.anc + 1) 0 n) := by
      intro x hx
      rw [l5 x hx, eval_iaddB hx, eval_signPoly hx]; ring
    have hint' : IntValued NL.2.1 := by
      intro x hx
      obtain ⟨k, hk⟩ := hint x hx
      obtain ⟨m, hm⟩ := slackVal_nat (lt := lt) hx (st.anc + 1) 0 n
      rw [hval x hx, hk, hm]
      rcases hx (ANC + st.anc) with h0 | h0 <;> rw [h0]
      · exact ⟨k - (1 + m), by push_cast; ring⟩
      · exact ⟨k + (1 + m), by push_cast; ring⟩
    have hb' : ValidBounds NL.2.1 (some NL.2.2.1, some NL.2.2.2) := by
      apply validBounds_some
      intro x hx
      have hs := slackVal_bounds (lt := lt) hx (st.anc + 1) 0 n
      have := hbd x hx
      rw [hval x hx, l6, l6']
      rcases hx (ANC + st.anc) with h0 | h0 <;> rw [h0] <;> constructor <;> linarith
    have E := fun x (hx : IsBool x) => addEqZero_sem (st := NL.1) (sup := true) hlam hint'
      (l8 (noZero_iaddB _ hnz)) hb' hx
    have hFP : ∀ x, FPen st (((addEqZero NL.1 NL.2.1 lam (some NL.2.2.1, some NL.2.2.2) true).pop .eq).tag "ne-twosided") x
        = FPen NL.1 (addEqZero NL.1 NL.2.1 lam (some NL.2.2.1, some NL.2.2.2) true) x := by
      intro x; unfold FPen; rw [St.tag_terms, St.pop_terms, l2]
    have hancR : (((addEqZero NL.1 NL.2.1 lam (some NL.2.2.1, some NL.2.2.2) true).pop .eq).tag "ne-twosided").anc
        = st.anc + 1 + n := by rw [St.tag_anc, St.pop_anc, addEqZero_anc, l1]
    refine ⟨fun x hx => ?_, fun x hx hr => ?_, fun x hx hr => ?_⟩
    · rw [hFP]; exact (E x hx).1
    · -- P(x) ≠ 0: choose the sign and the slack
      have hr : eval x P ≠ 0 := hr
      have hv := hbd x hx
      -- the sign bit `c` and the natural slack value `m` with P(x) + (2c-1)(1+m) = 0
      obtain ⟨c, hc, m, hm1, hm2⟩ : ∃ c : Rat, (c = 0 ∨ c = 1) ∧ ∃ m : Nat,
          eval x P + (2 * c - 1) * (1 + (m : Rat)) = 0 ∧
          (m : Rat) ≤ (getBounds P b).2 + 1 - ((getBounds P b).1 - 1) - 1 := by
        rcases lt_or_gt_of_ne hr with hneg | hpos
        · have h1 := int_neg_le_neg_one (hint x hx) hneg
          obtain ⟨k, hk⟩ := hint x hx
          obtain ⟨m, hm⟩ : ∃ m : Nat, -eval x P - 1 = (m : Rat) :=
            int_nonneg_nat ⟨-k - 1, by rw [hk]; push_cast; ring⟩ (by linarith)
          exact ⟨1, Or.inr rfl, m, by rw [← hm]; ring, by rw [← hm]; linarith⟩
        · have h1 := int_pos_ge_one (hint x hx) hpos
          obtain ⟨k, hk⟩ := hint x hx
          obtain ⟨m, hm⟩ : ∃ m : Nat, eval x P - 1 = (m : Rat) :=
            int_nonneg_nat ⟨k - 1, by rw [hk]; push_cast; ring⟩ (by linarith)
          exact ⟨0, Or.inl rfl, m, by rw [← hm]; ring, by rw [← hm]; linarith⟩
      have hx' := isBool_update hx (ANC + st.anc) c hc
      obtain ⟨u, hu1, hu2, hu3⟩ := slack_repr lt hx' (st.anc + 1) n m (cap m hm2)
      have hu0 : u (ANC + st.anc) = c := by
        rw [hu2 (ANC + st.anc) (by omega)]; simp
      refine ⟨u, fun (i : Nat) hi => ?_, hu1, ?_⟩
      · by_cases hin : ANC + st.anc ≤ i ∧ i < ANC + st.anc + 1 + n
        · exfalso; apply hi
          refine ⟨i - ANC, by omega, by rw [hancR]; omega, ?_⟩
          exact (Nat.add_sub_cancel' (Nat.le_trans (Nat.le_add_right _ _) hin.1)).symm
        · rw [hu2 i (by omega)]
          have : i ≠ ANC + st.anc := by
            intro e; apply hin; rw [e]; omega
          simp [this]
      · rw [hFP]
        apply (E u hu1).2.1
        rw [hval u hu1, hu0, hu3]
        have : eval u P = eval x P := by
          refine eval_off_anc hbel (fun (i : Nat) hi => ?_)
          rw [hu2 i (by omega)]
          have : i ≠ ANC + st.anc := by
            intro e; rw [e] at hi; exact absurd hi (lt_irrefl _)
          simp [this]
        rw [this]; exact hm1
    · -- P(x) = 0: the extended polynomial is ±(1 + slack) ≠ 0
      rw [hFP]
      apply (E x hx).2.2
      rw [hval x hx]
      have hr : ¬ eval x P ≠ 0 := hr
      have h0 : eval x P = 0 := not_not.1 hr
      have hs := (slackVal_bounds (lt := lt) hx (st.anc + 1) 0 n).1
      rw [h0]
      rcases hx (ANC + st.anc) with ha | ha <;> rw [ha] <;> intro he <;> linarith

end Qv.PcboP
