import Qv.Proofs.KernelMem
/-!
# Qv.Proofs.KernelMemQuso — `anneal_quso.c` under the checked-memory model never fails on `WF` buffers
-/
namespace Qv.KMem
open Qv.Kernel (Src OfInt ofInt)

/-- no constraint on the values of a buffer -/
def Any {β : Type} : Nat → β → Prop := fun _ _ => True

/-- all cells hold a spin -/
def Spins : Nat → Int → Prop := fun _ v => Spin v

/-- `rand_int(rng, N)` stays below `N` -/
def IndexOK {ρ α : Type} (src : Src ρ α) (N : Nat) : Prop := ∀ r, (src.index r N).2 < N

theorem noLeak_ok {flags : List Bool} (h : ∀ b ∈ flags, b = false) : Ok (noLeak flags) (fun _ => True) := by
  refine ⟨(), ?_, trivial⟩
  have : flags.any (fun b => b) = false := by
    rw [List.any_eq_false]
    intro b hb
    simp [h b hb]
  simp [noLeak, this]

theorem visit_lt {ρ α : Type} {src : Src ρ α} {N : Nat} (hsrc : IndexOK src N) (inOrder : Bool) (r : ρ) {j : Nat}
    (hj : j < N) : (visit src inOrder r j N).2 < N := by
  unfold visit
  cases inOrder
  · simpa using hsrc r
  · simpa using hj

/-- `(int)i * (int)N` for a row `i` of the `states` buffer -/
theorem imul_flat {i N total : Nat} (h : i * N ≤ total) (hT : total ≤ 2147483647) :
    Ok (imul (i : Int) (N : Int)) (fun p => p = ((i * N : Nat) : Int)) := by
  refine (imul_ok ?_).mono fun p hp => by rw [hp]; simp
  have : ((i : Int) * (N : Int)) = ((i * N : Nat) : Int) := by simp
  rw [this]; omega

theorem iadd_flat {m j total : Nat} (h : m + j < total) (hT : total ≤ 2147483647) :
    Ok (iadd (m : Int) (j : Int)) (fun p => p = ((m + j : Nat) : Int)) := by
  refine (iadd_ok ?_).mono fun p hp => by rw [hp]; simp
  omega

theorem lmul_flat {i N total : Nat} (h : i * N ≤ total) (hT : total ≤ 2147483647) :
    Ok (lmul (i : Int) (N : Int)) (fun p => p = ((i * N : Nat) : Int)) := by
  refine (lmul_ok ?_).mono fun p hp => by rw [hp]; simp
  have : ((i : Int) * (N : Int)) = ((i * N : Nat) : Int) := by simp
  rw [this]; omega

theorem ladd_flat {m j total : Nat} (h : m + j < total) (hT : total ≤ 2147483647) :
    Ok (ladd (m : Int) (j : Int)) (fun p => p = ((m + j : Nat) : Int)) := by
  refine (ladd_ok ?_).mono fun p hp => by rw [hp]; simp
  omega

theorem row_le {i na N : Nat} (hi : i < na) : i * N ≤ na * N := Nat.mul_le_mul_right N (Nat.le_of_lt hi)

section
variable {α ρ : Type} [Add α] [Mul α] [OfInt α]

/-- the read-only problem buffers of `anneal_quso`, as the wrapper fills them from `WF` lists -/
structure QCtx (q : QusoB α) (N : Nat) (nn : List Int) (lenJ : Nat) : Prop where
  h : q.h.Upto N N Any
  nnB : q.nn.Upto N N (fun i v => nn[i]? = some v)
  nb : q.nb.Upto lenJ lenJ (fun _ v => 0 ≤ v ∧ v < (N : Int))
  J : q.J.Upto lenJ lenJ Any
  nn_nonneg : ∀ x ∈ nn, 0 ≤ x
  nn_sum : nn.sum = (lenJ : Int)
  lenJ_le : (lenJ : Int) ≤ 2147483647
  N_le : (N : Int) ≤ 2147483647

/-- what `index` holds after its construction -/
def IndexFor (nn : List Int) (index : Buf Int) (N : Nat) : Prop := index.Upto N N (fun i v => v = psum nn i)

theorem subgraphEnergy_ok {q : QusoB α} {N : Nat} {nn : List Int} {lenJ : Nat} (c : QCtx q N nn lenJ)
    {index state : Buf Int} (hx : IndexFor nn index N) (hs : state.Upto N N Spins) (i : Nat) (hi : i < N)
    (upper : Bool) : Ok (subgraphEnergy q index state i upper) (fun _ => True) := by
  unfold subgraphEnergy
  refine Ok.bind (rd_ok c.h i hi) fun e0 _ => ?_
  refine Ok.bind (rd_ok c.nnB i hi) fun cnt hcnt => ?_
  refine Ok.bind (rd_ok hx i hi) fun base hbase => ?_
  subst hbase
  refine forNM_ok (fun _ _ => True) _ _ _ trivial fun j e hj _ => ?_
  have hseg := psum_seg c.nn_nonneg hcnt (j := (j : Int)) (by omega) (by omega)
  rw [c.nn_sum] at hseg
  have hJ := c.lenJ_le
  refine Ok.bind (ladd_ok (by omega)) fun ix hix => ?_
  subst hix
  refine Ok.bind (rd_int_ok c.nb _ hseg.1 (by omega)) fun n hn => ?_
  split
  · exact Ok.pure trivial
  · refine Ok.bind (rd_int_ok c.J _ hseg.1 (by omega)) fun Jv _ => ?_
    refine Ok.bind (rd_int_ok hs n hn.1 (by omega)) fun sn _ => ?_
    exact Ok.pure trivial

theorem computeFlipDE_ok {q : QusoB α} {N : Nat} {nn : List Int} {lenJ : Nat} (c : QCtx q N nn lenJ)
    {index state : Buf Int} (hx : IndexFor nn index N) (hs : state.Upto N N Spins) {flip : Buf α}
    (hf : flip.Upto N 0 Any) : Ok (computeFlipDE q index N state flip) (fun f => f.Upto N N Any) := by
  unfold computeFlipDE
  refine forNM_ok (fun i (f : Buf α) => f.Upto N i Any) _ _ _ hf fun i f hi hI => ?_
  refine Ok.bind (subgraphEnergy_ok c hx hs i hi false) fun e _ => ?_
  refine Ok.bind (rd_ok hs i hi) fun si _ => ?_
  exact wr_next hI hi _ trivial

theorem recomputeFlipDE_ok {q : QusoB α} {N : Nat} {nn : List Int} {lenJ : Nat} (c : QCtx q N nn lenJ)
    {index state : Buf Int} (hx : IndexFor nn index N) (hs : state.Upto N N Spins) {flip : Buf α}
    (hf : flip.Upto N N Any) (spin : Nat) (hsp : spin < N) :
    Ok (recomputeFlipDE q index spin flip state) (fun f => f.Upto N N Any) := by
  unfold recomputeFlipDE
  refine Ok.bind (rd_ok hf spin hsp) fun f0 _ => ?_
  refine Ok.bind (wr_in hf spin hsp _ trivial) fun flip1 hf1 => ?_
  refine Ok.bind (rd_ok c.nnB spin hsp) fun cnt hcnt => ?_
  refine Ok.bind (rd_ok hx spin hsp) fun base hbase => ?_
  subst hbase
  refine forNM_ok (fun _ (f : Buf α) => f.Upto N N Any) _ _ _ hf1 fun j f hj hI => ?_
  have hseg := psum_seg c.nn_nonneg hcnt (j := (j : Int)) (by omega) (by omega)
  rw [c.nn_sum] at hseg
  have hJ := c.lenJ_le
  refine Ok.bind (ladd_ok (by omega)) fun ix hix => ?_
  subst hix
  refine Ok.bind (rd_int_ok c.nb _ hseg.1 (by omega)) fun n hn => ?_
  refine Ok.bind (rd_int_ok hI n hn.1 (by omega)) fun fn _ => ?_
  refine Ok.bind (rd_ok hs spin hsp) fun ss _ => ?_
  refine Ok.bind (rd_int_ok hs n hn.1 (by omega)) fun sn _ => ?_
  refine Ok.bind (rd_int_ok c.J _ hseg.1 (by omega)) fun Jv _ => ?_
  exact wr_int_in hI n hn.1 (by omega) _ trivial

theorem flipAt_ok {state : Buf Int} {N : Nat} (hs : state.Upto N N Spins) (i : Nat) (hi : i < N) :
    Ok (flipAt state i) (fun s => s.Upto N N Spins) := by
  unfold flipAt
  refine Ok.bind (rd_ok hs i hi) fun v hv => ?_
  have hv' : v = 1 ∨ v = -1 := hv
  refine Ok.bind (imul_ok (by rcases hv' with rfl | rfl <;> decide)) fun v' e => ?_
  subst e
  refine wr_in hs i hi _ ?_
  show Spin (v * -1)
  rcases hv' with rfl | rfl
  · exact Or.inr rfl
  · exact Or.inl rfl

theorem qusoStep_ok {q : QusoB α} {N : Nat} {nn : List Int} {lenJ : Nat} (c : QCtx q N nn lenJ)
    {index : Buf Int} (hx : IndexFor nn index N) {src : Src ρ α} (hsrc : IndexOK src N) (inOrder : Bool) (T : α)
    (j : Nat) (hj : j < N) (s : Buf Int × Buf α × ρ) (hs : s.1.Upto N N Spins) (hf : s.2.1.Upto N N Any) :
    Ok (qusoStep src q index N inOrder T j s) (fun s' => s'.1.Upto N N Spins ∧ s'.2.1.Upto N N Any) := by
  unfold qusoStep
  have hv := visit_lt hsrc inOrder s.2.2 hj
  refine Ok.bind (rd_ok hf _ hv) fun dE _ => ?_
  dsimp only
  split
  · refine Ok.bind (recomputeFlipDE_ok c hx hs hf _ hv) fun flip hflip => ?_
    refine Ok.bind (flipAt_ok hs _ hv) fun st hst => ?_
    exact Ok.pure ⟨hst, hflip⟩
  · exact Ok.pure ⟨hs, hf⟩

theorem singleAnnealQuso_ok {q : QusoB α} {N : Nat} {nn : List Int} {lenJ : Nat} (c : QCtx q N nn lenJ)
    {index : Buf Int} (hx : IndexFor nn index N) {src : Src ρ α} (hsrc : IndexOK src N) (inOrder : Bool)
    {lenTs : Nat} {Ts : Buf α} (hT : Ts.Upto lenTs lenTs Any) {state : Buf Int} (hs : state.Upto N N Spins)
    (rng : ρ) :
    Ok (singleAnnealQuso src q index N lenTs Ts inOrder state rng) (fun r => r.1.Upto N N Spins) := by
  unfold singleAnnealQuso
  have hN := c.N_le
  refine Ok.bind (malloc_nat_ok N 8 Any (by omega)) fun flip0 hf0 => ?_
  refine Ok.bind (computeFlipDE_ok c hx hs hf0) fun flip hf => ?_
  refine Ok.bind (forNM_ok (fun _ (s : Buf Int × Buf α × ρ) => s.1.Upto N N Spins ∧ s.2.1.Upto N N Any)
    _ _ _ ⟨hs, hf⟩ fun t s ht hI => ?_) fun s hI => ?_
  · refine Ok.bind (rd_ok hT t ht) fun T _ => ?_
    exact forNM_ok (fun _ (s : Buf Int × Buf α × ρ) => s.1.Upto N N Spins ∧ s.2.1.Upto N N Any)
      _ _ _ hI fun j s hj hI => qusoStep_ok c hx hsrc inOrder T j hj s hI.1 hI.2
  · refine Ok.bind (free_ok hI.2.live) fun flip' hfl => ?_
    refine Ok.bind (noLeak_ok (by intro b hb; simp at hb; rw [hb]; exact hfl.1)) fun _ _ => ?_
    exact Ok.pure hI.1

theorem qusoValue_ok {q : QusoB α} {N : Nat} {nn : List Int} {lenJ : Nat} (c : QCtx q N nn lenJ)
    {index state : Buf Int} (hx : IndexFor nn index N) (hs : state.Upto N N Spins) :
    Ok (qusoValue q index N state) (fun _ => True) := by
  unfold qusoValue
  refine forNM_ok (fun _ _ => True) _ _ _ trivial fun i v hi _ => ?_
  refine Ok.bind (subgraphEnergy_ok c hx hs i hi true) fun e _ => ?_
  refine Ok.bind (rd_ok hs i hi) fun si _ => ?_
  exact Ok.pure trivial

omit [Add α] [Mul α] [OfInt α] in
/-- drawing or copying the initial state of anneal `i` fills `state` with spins -/
theorem initState_ok (src : Src ρ α) {N na : Nat} (provided : Bool) {states : Buf Int} {i : Nat} (hi : i < na)
    (hT : na * N ≤ 2147483647) (hst : provided = true → states.Upto (na * N) (na * N) Spins)
    {state : Buf Int} {k0 : Nat} (hs : state.Upto N k0 Spins) (rng : ρ) :
    Ok (initState src N provided states i state rng) (fun r => r.1.Upto N N Spins) := by
  unfold initState
  refine forNM_ok (fun j (s : Buf Int × ρ) => s.1.Upto N j Spins) _ _ _ hs.zero fun j s hj hI => ?_
  have hlt := flat_index_lt (N := N) hi hj
  split
  · rename_i hp
    refine Ok.bind (imul_flat (row_le hi) hT) fun p hp' => ?_
    subst hp'
    refine Ok.bind (iadd_flat hlt hT) fun ix hix => ?_
    subst hix
    refine Ok.bind (rd_ok (hst hp) _ hlt) fun v hv => ?_
    refine Ok.bind (wr_next hI hj v hv) fun st hst' => ?_
    exact Ok.pure hst'
  · refine Ok.bind (wr_next hI hj _ ?_) fun st hst' => Ok.pure hst'
    show Spin _
    split
    · exact Or.inl rfl
    · exact Or.inr rfl

/-- storing row `i` of `states` -/
theorem storeState_ok {N na : Nat} {states : Buf Int} {i : Nat} (hi : i < na) (hT : na * N ≤ 2147483647)
    {k : Nat} (hst : states.Upto (na * N) k Spins) (hk : i * N ≤ k) {state : Buf Int}
    (hs : state.Upto N N Spins) :
    Ok (storeState N states i state) (fun s => s.Upto (na * N) (max k ((i + 1) * N)) Spins) := by
  unfold storeState
  have hfin : max k (i * N + N) = max k ((i + 1) * N) := by rw [Nat.add_mul]; simp
  rw [← hfin]
  refine forNM_ok (fun j (s : Buf Int) => s.Upto (na * N) (max k (i * N + j)) Spins) _ _ _
    (by simpa [Nat.max_eq_left hk] using hst) fun j s hj hI => ?_
  have hlt := flat_index_lt (N := N) hi hj
  refine Ok.bind (imul_flat (row_le hi) hT) fun p hp' => ?_
  subst hp'
  refine Ok.bind (iadd_flat hlt hT) fun ix hix => ?_
  subst hix
  refine Ok.bind (rd_ok hs j hj) fun v hv => ?_
  refine (wr_upto hI (i * N + j) hlt (by omega) v hv).mono fun b hb => ?_
  have e : max (max k (i * N + j)) (i * N + j + 1) = max k (i * N + (j + 1)) := by omega
  rwa [e] at hb

theorem mkIndexQuso_ok {N : Nat} {nn : List Int} {nnB : Buf Int} (hN1 : 1 ≤ N) (hN : (N : Int) ≤ 2147483647)
    (hnn : nnB.Upto N N (fun i v => nn[i]? = some v)) (hnonneg : ∀ x ∈ nn, 0 ≤ x) {lenJ : Nat}
    (hsum : nn.sum = (lenJ : Int)) (hJ : (lenJ : Int) ≤ 2147483647) :
    Ok (mkIndexQuso N nnB) (fun index => IndexFor nn index N) := by
  unfold mkIndexQuso IndexFor
  refine Ok.bind (malloc_nat_ok N 8 (fun i v => v = psum nn i) (by omega)) fun index0 h0 => ?_
  refine Ok.bind (wr_next h0 (by omega) 0 (psum_zero nn).symm) fun index1 h1 => ?_
  have := forFromM_ok (fun i (b : Buf Int) => b.Upto N i (fun i v => v = psum nn i))
    (fun i index => do
      let a ← index.rd ((i : Int) - 1)
      let b ← nnB.rd ((i : Int) - 1)
      let c ← ladd a b
      index.wr i c) (N - 1) 1 index1 h1 (fun i b h1i hlt hI => ?_)
  · have e : 1 + (N - 1) = N := by omega
    rw [e] at this
    exact this
  · have hi1 : ((i : Int) - 1).toNat = i - 1 := by omega
    refine Ok.bind (rd_int_ok hI _ (by omega) (by omega)) fun a ha => ?_
    refine Ok.bind (rd_int_ok hnn _ (by omega) (by omega)) fun b' hb' => ?_
    rw [hi1] at ha hb'
    have hs := psum_succ hb'
    have e : i - 1 + 1 = i := by omega
    rw [e] at hs
    have hbd := psum_bounds hnonneg i
    refine Ok.bind (ladd_ok (by omega)) fun c hc => ?_
    subst hc
    exact wr_next hI (by omega) _ (by omega)

/-- `anneal_quso` on `WF` buffers: no memory error; afterwards `states` and `values` are fully initialised -/
theorem annealQuso_ok {q : QusoB α} {N : Nat} {nn : List Int} {lenJ : Nat} (c : QCtx q N nn lenJ) (hN1 : 1 ≤ N)
    {src : Src ρ α} (hsrc : IndexOK src N) (inOrder provided : Bool) {lenTs : Nat} {Ts : Buf α}
    (hT : Ts.Upto lenTs lenTs Any) (numAnneals : Int)
    (htot : numAnneals.toNat * N ≤ 2147483647) {states : Buf Int} {k0 : Nat}
    (hst : states.Upto (numAnneals.toNat * N) k0 Spins)
    (hprov : provided = true → k0 = numAnneals.toNat * N) {values : Buf α}
    (hv : values.Upto numAnneals.toNat 0 Any) (rng : ρ) :
    Ok (annealQuso src numAnneals states values N q lenTs Ts inOrder provided rng)
      (fun r => r.1.Upto (numAnneals.toNat * N) (numAnneals.toNat * N) Spins ∧
        r.2.Upto numAnneals.toNat numAnneals.toNat Any) := by
  unfold annealQuso
  have hN := c.N_le
  refine Ok.bind (mkIndexQuso_ok hN1 hN c.nnB c.nn_nonneg c.nn_sum c.lenJ_le) fun index hx => ?_
  refine Ok.bind (malloc_nat_ok N 4 Spins (by omega)) fun state0 hs0 => ?_
  generalize hna' : numAnneals.toNat = na at *
  refine Ok.bind (forNM_ok (fun i (s : Buf Int × Buf α × Buf Int × ρ) =>
      (∃ k, i * N ≤ k ∧ (provided = true → k = na * N) ∧ s.1.Upto (na * N) k Spins) ∧
      s.2.1.Upto na i Any ∧ ∃ k, s.2.2.1.Upto N k Spins) _ _ _
    ⟨⟨k0, by simp, hprov, hst⟩, hv, 0, hs0⟩ fun i s hi hI => ?_) fun s hI => ?_
  · obtain ⟨⟨k, hk, hkp, hstates⟩, hvalues, ks, hstate⟩ := hI
    refine Ok.bind (initState_ok src provided hi htot (fun hp => by have e := hkp hp; subst e; exact hstates) hstate _)
      fun sr hsr => ?_
    refine Ok.bind (singleAnnealQuso_ok c hx hsrc inOrder hT hsr _) fun sr2 hsr2 => ?_
    refine Ok.bind (qusoValue_ok c hx hsr2) fun v _ => ?_
    refine Ok.bind (wr_next hvalues hi v trivial) fun values' hvalues' => ?_
    refine Ok.bind (storeState_ok hi htot hstates hk hsr2) fun states' hstates' => ?_
    refine Ok.pure ⟨⟨max k ((i + 1) * N), by omega, fun hp => ?_, hstates'⟩, hvalues', N, hsr2⟩
    have := hkp hp
    have := Nat.mul_le_mul_right N (show i + 1 ≤ na by omega)
    omega
  · obtain ⟨⟨k, hk, _, hstates⟩, hvalues, ks, hstate⟩ := hI
    refine Ok.bind (free_ok hx.live) fun index' hi' => ?_
    refine Ok.bind (free_ok hstate.live) fun state' hs' => ?_
    refine Ok.bind (noLeak_ok (by
      intro b hb
      simp at hb
      rcases hb with rfl | rfl
      · exact hi'.1
      · exact hs'.1)) fun _ _ => ?_
    refine Ok.pure ⟨?_, hvalues⟩
    have hsz : k ≤ na * N ∨ na * N ≤ k := by omega
    exact hstates.weaken (k' := na * N) hk (fun _ _ _ h => h)

end

end Qv.KMem
