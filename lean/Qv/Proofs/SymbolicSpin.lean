import Qv.Proofs.SymbolicReduce
/-!
# C16: `pubo_to_puso` is linear in the coefficients, hence commutes with `subs` (spin target `to_puso`)
-/
namespace Qv.Sym
open Qv Qv.PcboP Qv.Reduce
set_option linter.unusedSectionVars false

section generic
variable {R : Type} [Coef R] {φ : R → Rat}

/-- the rational weight with which a source key feeds the target key `k` -/
def kern (sq : Key → Key) (l : List (Key × Rat)) (k : Key) : Rat :=
  match l with
  | [] => 0
  | (k2, r) :: t => (if sq k2 = k then r else 0) + kern sq t k

theorem convRow_get (hφ : Hom φ) (sq : Key → Key) (v : R) (l : List (Key × Rat)) :
    ∀ (H : PolyR R), (keysR H).Nodup →
      (keysR (l.foldl (fun H kv2 => addTermR sq H kv2.1 (Coef.mul (Coef.ofRat kv2.2) v)) H)).Nodup ∧
      ∀ k, φ (getR (l.foldl (fun H kv2 => addTermR sq H kv2.1 (Coef.mul (Coef.ofRat kv2.2) v)) H) k)
        = φ (getR H k) + φ v * kern sq l k := by
  induction l with
  | nil => intro H hH; exact ⟨hH, fun k => by simp [kern]⟩
  | cons kv t ih =>
    intro H hH
    obtain ⟨k2, r⟩ := kv
    simp only [List.foldl_cons]
    obtain ⟨i1, i2⟩ := ih _ (nodup_addTermR sq H k2 (Coef.mul (Coef.ofRat r) v) hH)
    refine ⟨i1, fun k => ?_⟩
    rw [i2 k, phi_get_addTermR hφ sq H k2 k _ hH, hφ.mul, hφ.ofRat]
    simp only [kern]
    split <;> ring

/-- `Σ_{(k', v) ∈ P} φ v * kern(gen k', k)` -/
def lsum (φ : R → Rat) (gen : Key → List (Key × Rat)) (sq : Key → Key) (P : PolyR R) (k : Key) : Rat :=
  match P with
  | [] => 0
  | (k', v) :: t => φ v * kern sq (gen k') k + lsum φ gen sq t k

/-- a dict transform of the shape of `pubo_to_puso` -/
def convR (gen : Key → List (Key × Rat)) (sq : Key → Key) (P : PolyR R) : PolyR R :=
  P.foldl (fun H kv => (gen kv.1).foldl (fun H kv2 => addTermR sq H kv2.1 (Coef.mul (Coef.ofRat kv2.2) kv.2)) H) []

theorem convFold_get (hφ : Hom φ) (gen : Key → List (Key × Rat)) (sq : Key → Key) (P : PolyR R) :
    ∀ (H : PolyR R), (keysR H).Nodup →
      (keysR (P.foldl (fun H kv => (gen kv.1).foldl
        (fun H kv2 => addTermR sq H kv2.1 (Coef.mul (Coef.ofRat kv2.2) kv.2)) H) H)).Nodup ∧
      ∀ k, φ (getR (P.foldl (fun H kv => (gen kv.1).foldl
        (fun H kv2 => addTermR sq H kv2.1 (Coef.mul (Coef.ofRat kv2.2) kv.2)) H) H) k)
        = φ (getR H k) + lsum φ gen sq P k := by
  induction P with
  | nil => intro H hH; exact ⟨hH, fun k => by simp [lsum]⟩
  | cons kv t ih =>
    intro H hH
    obtain ⟨k', v⟩ := kv
    simp only [List.foldl_cons]
    obtain ⟨r1, r2⟩ := convRow_get hφ sq v (gen k') H hH
    obtain ⟨i1, i2⟩ := ih _ r1
    refine ⟨i1, fun k => ?_⟩
    rw [i2 k, r2 k]; simp only [lsum]; ring

theorem convR_get (hφ : Hom φ) (gen : Key → List (Key × Rat)) (sq : Key → Key) (P : PolyR R) (k : Key) :
    (keysR (convR gen sq P)).Nodup ∧ φ (getR (convR gen sq P) k) = lsum φ gen sq P k := by
  obtain ⟨h1, h2⟩ := convFold_get hφ gen sq P [] List.nodup_nil
  exact ⟨h1, by unfold convR; rw [h2 k]; simp [getR, hφ.zero]⟩

/-! ### the sum only depends on the coefficient function -/

theorem lsum_zero (hφ : Hom φ) (gen : Key → List (Key × Rat)) (sq : Key → Key) (P : PolyR R) (k : Key)
    (hP : (keysR P).Nodup) (h0 : ∀ k', φ (getR P k') = 0) : lsum φ gen sq P k = 0 := by
  induction P with
  | nil => rfl
  | cons kv t ih =>
    obtain ⟨k', v⟩ := kv
    simp only [keysR_cons, List.nodup_cons] at hP
    have hv : φ v = 0 := by have := h0 k'; simpa [getR] using this
    have ht : ∀ k2, φ (getR t k2) = 0 := by
      intro k2
      by_cases e : k' = k2
      · subst e; rw [getR_of_not_mem t hP.1, hφ.zero]
      · have := h0 k2; simp only [getR] at this; rw [if_neg e] at this; exact this
    simp only [lsum, hv, ih hP.2 ht]; ring

theorem lsum_eraseR (hφ : Hom φ) (gen : Key → List (Key × Rat)) (sq : Key → Key) (P : PolyR R) (k' k : Key)
    (hP : (keysR P).Nodup) :
    lsum φ gen sq P k = φ (getR P k') * kern sq (gen k') k + lsum φ gen sq (eraseR P k') k := by
  induction P with
  | nil => simp [lsum, getR, eraseR, hφ.zero]
  | cons kv t ih =>
    obtain ⟨k2, v⟩ := kv
    simp only [keysR_cons, List.nodup_cons] at hP
    simp only [eraseR, getR]
    by_cases e : k2 = k'
    · subst e; rw [if_pos rfl, if_pos rfl]; simp only [lsum]
    · rw [if_neg e, if_neg e]; simp only [lsum]; rw [ih hP.2]; ring

/-- two dicts with distinct keys and the same coefficient function (through `φ` resp. directly) give the same sum -/
theorem lsum_agree (hφ : Hom φ) (gen : Key → List (Key × Rat)) (sq : Key → Key) (k : Key) (D : Poly) :
    ∀ (P : PolyR R), (keysR P).Nodup → (keys D).Nodup → (∀ k', get D k' = φ (getR P k')) →
      lsum φ gen sq P k = lsum (R := Rat) (fun r => r) gen sq D k := by
  induction D with
  | nil =>
    intro P hP _ hag
    rw [lsum_zero hφ gen sq P k hP (fun k' => by rw [← hag k']; rfl)]; rfl
  | cons kv t ih =>
    intro P hP hD hag
    obtain ⟨k', v⟩ := kv
    have hD' : k' ∉ keys t ∧ (keys t).Nodup := by simpa [keys] using hD
    have hv : φ (getR P k') = v := by rw [← hag k']; simp [get]
    rw [lsum_eraseR hφ gen sq P k' k hP, hv]
    have := ih (eraseR P k') (nodup_eraseR P k' hP) hD'.2 (fun k2 => by
      by_cases e : k2 = k'
      · subst e; rw [getR_eraseR_eq P k2 hP, hφ.zero, get_of_not_mem t hD'.1]
      · rw [getR_eraseR_ne P e, ← hag k2]; simp only [get]; rw [if_neg (fun e' => e e'.symm)])
    rw [this]; simp only [lsum]

end generic

/-! ### `pubo_to_puso` -/

theorem addTermS_rat (p : Poly) (k : Key) (v : Rat) : addTermR (R := Rat) squashS p k v = addTermS p k v := by
  unfold addTermR addTermS
  simp only []
  rw [setR_rat, getR_rat]; rfl

theorem puboToPuso_conv (D : Poly) : puboToPuso D = convR (R := Rat) genB2S squashS D := by
  unfold puboToPuso convR
  simp only [addTermS_rat]
  rfl

theorem puboToPusoR_conv {R : Type} [Coef R] (P : PolyR R) : puboToPusoR P = convR genB2S squashS P := rfl

/-- **`pubo_to_puso` commutes with `subs`**, coefficientwise -/
theorem puboToPuso_subs (c : Rat) (P : PolyR RatPoly) (D : Poly) (hP : (keysR P).Nodup) (hD : (keys D).Nodup)
    (hag : ∀ k, get (subsR (RatPoly.evalAt c) P) k = get D k) :
    (keysR (puboToPusoR P)).Nodup ∧ (keys (puboToPuso D)).Nodup ∧
    ∀ k, get (subsR (RatPoly.evalAt c) (puboToPusoR P)) k = get (puboToPuso D) k := by
  have hφ := hom_evalAt c
  have hag' : ∀ k', get D k' = RatPoly.evalAt c (getR P k') := fun k' => by rw [← hag k', get_subsR hφ P k' hP]
  rw [puboToPusoR_conv, puboToPuso_conv]
  have n1 := (convR_get hφ genB2S squashS P []).1
  have n2 := (convR_get (R := Rat) hom_id genB2S squashS D []).1
  refine ⟨n1, n2, fun k => ?_⟩
  rw [get_subsR hφ _ k n1, (convR_get hφ genB2S squashS P k).2, lsum_agree hφ genB2S squashS k D P hP hD hag']
  have := (convR_get (R := Rat) hom_id genB2S squashS D k).2
  rw [getR_rat] at this
  exact this.symm

/-! ### the `to_puso` routes -/

/-- **T16.2 for `to_puso(deg)` of a boolean model** -/
theorem symRouteBool_subs_puso (terms : Poly) (mp : Mapping) (n : Nat) (deg : Option Nat) (m : LamMenu) (w : RatPoly)
    (pairs : List Key) (c : Rat) :
    SubsAgree c (symRouteBool .puso terms mp n deg m w pairs)
      ((routeBool .puso terms mp n deg (m.num (w.evalAt c)) pairs).map (fun o => o.res)) := by
  have h0 := symReduceDegree_subs terms mp n deg m w pairs c
  unfold symRouteBool routeBool
  simp only []
  cases e1 : symReduceDegree terms mp n deg m w pairs <;>
    cases e2 : reduceDegree terms mp n deg (m.num (w.evalAt c)) pairs <;>
    rw [e1, e2] at h0 <;> simp only [SubsAgree, Except.map] at h0 ⊢
  · exact h0
  · exact puboToPuso_subs c _ _ h0.1 h0.2.1 h0.2.2

theorem nodup_addTermS (p : Poly) (k : Key) (v : Rat) (h : (keys p).Nodup) : (keys (addTermS p k v)).Nodup := by
  have := nodup_addTermR (R := Rat) squashS p k v h
  rw [addTermS_rat] at this
  exact this

theorem toPusoPlain_nodup (mp : Mapping) (terms : Poly) : ∀ (H H' : Poly), (keys H).Nodup →
    toPusoPlain mp terms H = .ok H' → (keys H').Nodup := by
  induction terms with
  | nil => intro H H' hH h; simp only [toPusoPlain] at h; injection h with h; subst h; exact hH
  | cons kv r ih =>
    intro H H' hH h
    obtain ⟨k, v⟩ := kv
    simp only [toPusoPlain] at h
    split at h
    · cases h
    · exact ih _ _ (nodup_addTermS H _ v hH) h

theorem subsAgree_lift (c : Rat) {H : Poly} (h : (keys H).Nodup) :
    SubsAgree c (.ok (lift (R := RatPoly) H)) (.ok H) := by
  have hn : (keysR (lift (R := RatPoly) H)).Nodup := by rw [keysR_lift]; exact h
  exact ⟨hn, h, fun k => by rw [get_subsR (hom_evalAt c) _ k hn, phi_get_lift (hom_evalAt c)]⟩

/-- **T16.2 for `to_puso(deg)` of a spin model** (the shortcut involves no penalty; otherwise through `puso_to_pubo`) -/
theorem symRouteSpin_subs_puso (terms : Poly) (mp : Mapping) (n : Nat) (deg : Option Nat) (m : LamMenu) (w : RatPoly)
    (pairs : List Key) (c : Rat) :
    SubsAgree c (symRouteSpin .puso terms mp n deg m w pairs)
      ((routeSpin .puso terms mp n deg (m.num (w.evalAt c)) pairs).map (fun o => o.res)) := by
  unfold symRouteSpin routeSpin
  cases deg with
  | none =>
    simp only [if_true]
    cases e : toPusoPlain mp terms [] with
    | error e => exact rfl
    | ok H => exact subsAgree_lift c (toPusoPlain_nodup mp terms [] H (by simp [keys]) e)
  | some d =>
    by_cases hd : degree terms ≤ d
    · simp only [hd, decide_true, if_true]
      cases e : toPusoPlain mp terms [] with
      | error e => exact rfl
      | ok H => exact subsAgree_lift c (toPusoPlain_nodup mp terms [] H (by simp [keys]) e)
    · simp only [hd, decide_false, Bool.false_eq_true, if_false]
      exact symRouteBool_subs_puso (pusoToPubo terms) mp n (some d) m w pairs c

end Qv.Sym
