import Qv.Proofs.ProblemsJSGround
/-!
# JobSequencing ground states, part 2: the repair map (L2) and the lower bound (LB)
-/
namespace Qv.Prob
open Qv

/-! ## index arithmetic of `_x(job, worker)` -/

theorem js_x_div (p : JS) (j : Nat) {w : Nat} (hw : w < p.m) : p.x j w / p.m = j := by
  have hm : 0 < p.m := by omega
  unfold JS.x
  rw [Nat.add_comm, Nat.add_mul_div_right _ _ hm, Nat.div_eq_of_lt hw]; omega

theorem js_x_mod (p : JS) (j : Nat) {w : Nat} (hw : w < p.m) : p.x j w % p.m = w := by
  unfold JS.x
  rw [Nat.add_comm, Nat.add_mul_mod_self_right, Nat.mod_eq_of_lt hw]

theorem js_x_lt (p : JS) (j : Nat) {w : Nat} (hw : w < p.m) : p.x j w < p.N * p.m ↔ j < p.N := by
  unfold JS.x
  constructor
  · intro h
    by_contra hc
    have : p.N * p.m ≤ j * p.m := Nat.mul_le_mul_right _ (by omega)
    omega
  · intro h
    have : (j + 1) * p.m ≤ p.N * p.m := Nat.mul_le_mul_right _ (by omega)
    have : (j + 1) * p.m = j * p.m + p.m := by ring
    omega

/-! ## the repair map -/

/-- the first worker `w < m` with `x_{j,w} = 1`, worker `0` if there is none -/
def JS.first (p : JS) (x : Var → Rat) (j : Nat) : Nat :=
  ((List.range p.m).find? (fun w => decide (x (p.x j w) = 1))).getD 0

/-- the one-hot repair of `x`: job `j` goes to `first x j` -/
def JS.repair (p : JS) (x : Var → Rat) : Var → Rat :=
  fun v => if v < p.N * p.m ∧ p.first x (v / p.m) = v % p.m then 1 else 0

theorem js_first_lt (p : JS) (hm : 1 ≤ p.m) (x : Var → Rat) (j : Nat) : p.first x j < p.m := by
  unfold JS.first
  cases h : (List.range p.m).find? (fun w => decide (x (p.x j w) = 1)) with
  | none => simp; omega
  | some w => simpa using List.mem_range.1 (List.mem_of_find?_eq_some h)

theorem js_first_spec (p : JS) (x : Var → Rat) (j : Nat) :
    x (p.x j (p.first x j)) = 1 ∨ (p.first x j = 0 ∧ ∀ w, w < p.m → x (p.x j w) ≠ 1) := by
  unfold JS.first
  cases h : (List.range p.m).find? (fun w => decide (x (p.x j w) = 1)) with
  | none =>
    right
    refine ⟨rfl, fun w hw => ?_⟩
    have := List.find?_eq_none.1 h w (List.mem_range.2 hw)
    simpa using this
  | some w =>
    left
    have := List.find?_some h
    simpa using this

theorem js_repair_bool (p : JS) (x : Var → Rat) : IsBool (p.repair x) := by
  intro v; unfold JS.repair; split
  · right; rfl
  · left; rfl

theorem js_repair_x (p : JS) (x : Var → Rat) (j : Nat) {w : Nat} (hw : w < p.m) :
    p.repair x (p.x j w) = if j < p.N ∧ p.first x j = w then 1 else 0 := by
  unfold JS.repair
  rw [js_x_div p j hw, js_x_mod p j hw]
  simp only [js_x_lt p j hw]

theorem js_repair_onehot (p : JS) (hm : 1 ≤ p.m) (x : Var → Rat) : p.OneHot (p.repair x) := by
  intro j hj
  unfold JS.S
  have h1 : ∀ w ∈ List.range p.m, p.repair x (p.x j w) = if w = p.first x j then (fun _ => (1 : Rat)) w else 0 := by
    intro w hw
    rw [js_repair_x p x j (List.mem_range.1 hw)]
    by_cases h : p.first x j = w
    · simp [h, hj]
    · have h' : ¬ w = p.first x j := fun e => h e.symm
      simp [h, h']
  rw [sumMap_congr _ h1, js_sumMap_ind]
  simp [js_first_lt p hm x j]

/-- `S x j = 0` when no `x_{j,w}` is `1` -/
theorem js_S_zero (p : JS) {x : Var → Rat} (hx : IsBool x) (j : Nat) (h : ∀ w, w < p.m → x (p.x j w) ≠ 1) :
    p.S x j = 0 := by
  refine js_sumMap_zero _ (fun w hw => ?_)
  rcases hx (p.x j w) with h0 | h1
  · exact h0
  · exact absurd h1 (h w (List.mem_range.1 hw))

/-- termwise bound: `r(x)_{j,w} ≤ x_{j,w} + [w = 0] (1 - S_j)^2` -/
theorem js_repair_le (p : JS) {x : Var → Rat} (hx : IsBool x) (j : Nat) {w : Nat} (hw : w < p.m) :
    p.repair x (p.x j w) ≤ x (p.x j w) + (if w = 0 then (1 - p.S x j) ^ 2 else 0) := by
  rw [js_repair_x p x j hw]
  have hx0 := (js_bool_bounds hx (p.x j w)).1
  have hsq : 0 ≤ (if w = 0 then (1 - p.S x j) ^ 2 else 0) := by
    split
    · exact sq_nonneg _
    · exact le_refl _
  by_cases h : j < p.N ∧ p.first x j = w
  · rw [if_pos h]
    obtain ⟨_, hf⟩ := h
    rcases js_first_spec p x j with h1 | ⟨h0, hall⟩
    · rw [hf] at h1; rw [h1]; linarith
    · have hw0 : w = 0 := by rw [← hf]; exact h0
      rw [if_pos hw0, js_S_zero p hx j hall]
      linarith
  · rw [if_neg h]; linarith

/-- **(L2)** `load (r x) w ≤ load x w + maxL · pen x` -/
theorem js_repair_load (p : JS) (hN : p.NatLengths) {x : Var → Rat} (hx : IsBool x) {w : Nat} (hw : w < p.m) :
    p.load (p.repair x) w ≤ p.load x w + p.maxL * p.pen x := by
  unfold JS.load JS.pen
  rw [← sumMap_mul_left, ← sumMap_add]
  refine js_sumMap_le _ (fun jl hjl => ?_)
  have h1 := js_repair_le p hx jl.1 hw
  have h2 := js_job_nonneg p hN hjl
  have h3 := js_job_le_maxL p hjl
  have h4 : 0 ≤ (1 - p.S x jl.1) ^ 2 := sq_nonneg _
  have h5 : (if w = 0 then (1 - p.S x jl.1) ^ 2 else 0) ≤ (1 - p.S x jl.1) ^ 2 := by
    split
    · exact le_refl _
    · exact h4
  have h6 : jl.2 * p.repair x (p.x jl.1 w) ≤ jl.2 * (x (p.x jl.1 w) + (1 - p.S x jl.1) ^ 2) :=
    mul_le_mul_of_nonneg_left (by linarith) h2
  have h7 : jl.2 * (1 - p.S x jl.1) ^ 2 ≤ p.maxL * (1 - p.S x jl.1) ^ 2 := mul_le_mul_of_nonneg_right h3 h4
  linarith

/-- **(LB)** the lower bound: for boolean `x` there is a boolean one-hot `y` with
`B · load y w + (A - B · maxL) · pen x ≤ energy x` for every worker `w < m` -/
theorem js_LB (p : JS) (A B : Rat) (hm : 1 ≤ p.m) (hB : 0 ≤ B) (hA : B * p.maxL ≤ A) (hN : p.NatLengths)
    (x : Var → Rat) (hx : IsBool x) :
    ∃ y, IsBool y ∧ p.OneHot y ∧ ∀ w, w < p.m → B * p.load y w + (A - B * p.maxL) * p.pen x ≤ p.energy A B x := by
  refine ⟨p.repair x, js_repair_bool p x, js_repair_onehot p hm x, fun w hw => ?_⟩
  have h1 := js_L1 p A B hB hA hN x hx w hw
  have h2 := mul_le_mul_of_nonneg_left (js_repair_load p hN hx hw) hB
  linarith

/-- a boolean point that is not one-hot has `pen ≥ 1` -/
theorem js_pen_ge_one (p : JS) {x : Var → Rat} (hx : IsBool x) (h : ¬ p.OneHot x) : 1 ≤ p.pen x := by
  unfold JS.OneHot at h
  have : ∃ j, j < p.N ∧ p.S x j ≠ 1 := by
    by_contra hc
    exact h (fun j hj => by
      by_contra hne
      exact hc ⟨j, hj, hne⟩)
  obtain ⟨j, hj, hne⟩ := this
  obtain ⟨L, hL⟩ := js_jobs_exists p hj
  obtain ⟨n, hn⟩ := js_S_nat p hx j
  have h1 : (1 : Rat) ≤ (1 - p.S x j) ^ 2 := by
    rw [hn]; exact js_nat_ne_one_sq n (by rw [← hn]; exact hne)
  have h2 := js_sumMap_ge_mem p.jobs (f := fun jl => (1 - p.S x jl.1) ^ 2) (fun _ _ => sq_nonneg _) hL
  unfold JS.pen
  simp only [] at h2
  linarith

theorem js_pen_zero (p : JS) {x : Var → Rat} (h : p.OneHot x) : p.pen x = 0 := by
  refine js_sumMap_zero _ (fun jl hjl => ?_)
  rw [h jl.1 (js_jobs_mem p hjl).1]; ring

end Qv.Prob
