import Qv.Proofs.KernelMemRefine3
/-!
# Qv.Proofs.KernelMemRefineP — the checked PUSO kernel (`anneal_puso.c` as it is now, `guard = true`) computes what
the unchecked kernel model `Kernel.annealPuso` computes
-/
namespace Qv.KMem
open Qv.Kernel (Src OfInt ofInt forFrom forN)

/-- a row `subgraphs[j]` holds the list `l` of term numbers: `row[0] = |l|`, `row[m+1] = l[m]` -/
def RowR (row : Buf Int) (l : List Nat) : Prop :=
  row.live = true ∧ row.cells.size = l.length + 1 ∧ row.cells[0]? = some (some (l.length : Int)) ∧
  ∀ m, m < l.length → row.cells[m + 1]? = some (some ((l.getD m 0 : Nat) : Int))

/-- `subgraphs` holds the list of lists `L`; every list has at most `c` entries, all `< T` -/
def SgR (N T : Nat) (sg : Buf (Buf Int)) (L : List (List Nat)) (c : Nat) : Prop :=
  L.length = N ∧ sg.Upto N N (fun j row => RowR row (L.getD j [])) ∧ ∀ l ∈ L, l.length ≤ c ∧ ∀ t ∈ l, t < T

section
variable {α ρ : Type} [Add α] [Mul α] [OfInt α]

/-- the buffers of the checked kernel hold exactly the arrays `P` of the unchecked one -/
structure PCtxR (p : PusoB α) (N : Nat) (P : Kernel.Puso α) : Prop where
  ncB : p.nc.Upto P.cs.length P.cs.length (IsN P.nc)
  terms : p.terms.Upto P.terms.length P.terms.length (IsN P.terms)
  cs : p.cs.Upto P.cs.length P.cs.length (Is P.cs (ofInt 0))
  nc_len : P.nc.length = P.cs.length
  nc_sum : P.nc.sum = P.terms.length
  terms_lt : ∀ x ∈ P.terms, x < N
  terms_le : P.terms.length < 2147483647
  T_le : P.cs.length ≤ 2147483647
  N_le : N ≤ 2147483647

def IndexP (P : Kernel.Puso α) (index : Buf Int) : Prop :=
  index.Upto P.cs.length P.cs.length (IsN (Kernel.mkIndex P.nc))

omit [Add α] [Mul α] in
theorem termProduct_sim {p : PusoB α} {N : Nat} {P : Kernel.Puso α} (c : PCtxR p N P) {state : Buf Int}
    {st : List Int} (hs : StateR N state st) (t : Nat) (ht : t < P.cs.length) :
    Ok (termProduct p state (t : Int) (((Kernel.mkIndex P.nc).getD t 0 : Nat) : Int))
      (fun pr => pr = Kernel.termProduct P (Kernel.mkIndex P.nc) st t) := by
  unfold termProduct Kernel.termProduct
  refine Ok.bind (rd_ok c.ncB t ht) fun cnt hcnt => ?_
  have hcnt' : cnt = ((P.nc.getD t 0 : Nat) : Int) := hcnt
  subst hcnt'
  rw [Int.toNat_natCast]
  refine (forNM_sim (fun _ (pr pr' : Int) => pr = pr' ∧ Spin pr) _ _ _ _ _ ⟨rfl, Or.inl rfl⟩
    fun j pr pr' hj hI => ?_).mono fun r hr => hr.1
  obtain ⟨e, hsp⟩ := hI
  subst e
  have hlt := seg_lt (by rw [c.nc_len]; exact ht) hj
  rw [c.nc_sum] at hlt
  have hL := c.terms_le
  refine Ok.bind (ladd_ok (by omega)) fun ix hix => ?_
  have hix' : ix = (((Kernel.mkIndex P.nc).getD t 0 + j : Nat) : Int) := by rw [hix]; simp
  subst hix'
  refine Ok.bind (rd_ok c.terms _ hlt) fun sp hsp' => ?_
  have hsp'' : sp = ((P.terms.getD ((Kernel.mkIndex P.nc).getD t 0 + j) 0 : Nat) : Int) := hsp'
  subst hsp''
  have hspN : P.terms.getD ((Kernel.mkIndex P.nc).getD t 0 + j) 0 < N :=
    c.terms_lt _ (Kernel.getD_mem 0 hlt)
  refine Ok.bind (rd_ok hs.1 _ hspN) fun sv hsv => ?_
  have hsv' : sv = st.getD (P.terms.getD ((Kernel.mkIndex P.nc).getD t 0 + j) 0) 0 := hsv
  subst hsv'
  have hspin := hs.spin hspN
  have hpr : pr = 1 ∨ pr = -1 := hsp
  refine (imul_ok (by rcases hpr with e | e <;> rcases hspin with e' | e' <;> rw [e, e'] <;> decide)).mono
    fun r hr => ⟨hr, ?_⟩
  rw [hr]
  show Spin _
  rcases hpr with e | e <;> rcases hspin with e' | e' <;> rw [e, e']
  · exact Or.inl rfl
  · exact Or.inr rfl
  · exact Or.inr rfl
  · exact Or.inl rfl

theorem pusoSubgraphValue_sim {p : PusoB α} {N : Nat} {P : Kernel.Puso α} (c : PCtxR p N P) {index : Buf Int}
    (hx : IndexP P index) {sg : Buf (Buf Int)} {L : List (List Nat)} {cc : Nat} (hsg : SgR N P.cs.length sg L cc)
    {state : Buf Int} {st : List Int} (hs : StateR N state st) (spin : Nat) (hsp : spin < N) :
    Ok (pusoSubgraphValue p index sg state spin)
      (fun v => v = Kernel.pusoSubgraphValue P (Kernel.mkIndex P.nc) L st spin) := by
  unfold pusoSubgraphValue Kernel.pusoSubgraphValue
  obtain ⟨hLlen, hsgU, hLb⟩ := hsg
  refine Ok.bind (rd_ok hsgU spin hsp) fun row hrow => ?_
  obtain ⟨hl, hsz, hc0, hcm⟩ := hrow
  have hmemL : L.getD spin [] ∈ L := Kernel.getD_mem [] (by rw [hLlen]; exact hsp)
  generalize L.getD spin [] = l at hsz hc0 hcm hmemL ⊢
  have hlb := (hLb l hmemL).2
  refine Ok.bind ⟨(l.length : Int), rd_cell hl hc0, rfl⟩ fun cnt hcnt => ?_
  subst hcnt
  rw [Int.toNat_natCast]
  have hfold : l.foldl (fun value term => value + P.cs.getD term (ofInt 0) *
        ofInt (Kernel.termProduct P (Kernel.mkIndex P.nc) st term)) (ofInt 0) =
      forFrom (fun i (v : α) => v + P.cs.getD (l.getD (i - 1) 0) (ofInt 0) *
        ofInt (Kernel.termProduct P (Kernel.mkIndex P.nc) st (l.getD (i - 1) 0))) 1 l.length (ofInt 0) := by
    symm
    exact Kernel.forFrom_eq_foldl 0 _
      (fun term (v : α) => v + P.cs.getD term (ofInt 0) * ofInt (Kernel.termProduct P (Kernel.mkIndex P.nc) st term))
      l 1 _ (fun j _ e => by simp)
  rw [hfold]
  refine (forFromM_sim (fun _ (v v' : α) => v = v') _ _ l.length 1 _ _ rfl fun i v v' h1 hlt hI => ?_)
  subst hI
  have him : i - 1 < l.length := by omega
  have hcell := hcm (i - 1) him
  have ei : i - 1 + 1 = i := by omega
  rw [ei] at hcell
  refine Ok.bind ⟨_, rd_cell hl hcell, rfl⟩ fun term hterm => ?_
  subst hterm
  have htT : l.getD (i - 1) 0 < P.cs.length := hlb _ (Kernel.getD_mem 0 him)
  refine Ok.bind (rd_ok hx _ htT) fun start hstart => ?_
  have hstart' : start = (((Kernel.mkIndex P.nc).getD (l.getD (i - 1) 0) 0 : Nat) : Int) := hstart
  subst hstart'
  refine Ok.bind (termProduct_sim c hs (l.getD (i - 1) 0) htT) fun pr hpr => ?_
  subst hpr
  refine Ok.bind (rd_ok c.cs _ htT) fun cv hcv => ?_
  have hcv' : cv = P.cs.getD (l.getD (i - 1) 0) (ofInt 0) := hcv
  subst hcv'
  exact Ok.pure rfl

/-- `Kernel.pusoStep` with its tuple patterns written as projections -/
theorem pusoStep_unfold (src : Src ρ α) (P : Kernel.Puso α) (idx : List Nat) (L : List (List Nat)) (N : Nat)
    (inOrder : Bool) (T : α) (j : Nat) (t : List Int × ρ) :
    Kernel.pusoStep src P idx L N inOrder T j t =
      if (src.accept (ofInt (-2) * Kernel.pusoSubgraphValue P idx L t.1 (visit src inOrder t.2 j N).2) T
          (visit src inOrder t.2 j N).1).2 = true
      then (Kernel.flipAt t.1 (visit src inOrder t.2 j N).2,
        (src.accept (ofInt (-2) * Kernel.pusoSubgraphValue P idx L t.1 (visit src inOrder t.2 j N).2) T
          (visit src inOrder t.2 j N).1).1)
      else (t.1,
        (src.accept (ofInt (-2) * Kernel.pusoSubgraphValue P idx L t.1 (visit src inOrder t.2 j N).2) T
          (visit src inOrder t.2 j N).1).1) := by
  obtain ⟨st, r⟩ := t
  rfl

def PairR (N : Nat) (s : Buf Int × ρ) (t : List Int × ρ) : Prop := StateR N s.1 t.1 ∧ s.2 = t.2

theorem pusoStep_sim {p : PusoB α} {N : Nat} {P : Kernel.Puso α} (c : PCtxR p N P) {index : Buf Int}
    (hx : IndexP P index) {sg : Buf (Buf Int)} {L : List (List Nat)} {cc : Nat} (hsg : SgR N P.cs.length sg L cc)
    {src : Src ρ α} (hsrc : IndexOK src N) (inOrder : Bool) (T : α) (j : Nat) (hj : j < N)
    (s : Buf Int × ρ) (t : List Int × ρ) (hR : PairR N s t) :
    Ok (pusoStep src p index sg N inOrder T j s)
      (fun s' => PairR N s' (Kernel.pusoStep src P (Kernel.mkIndex P.nc) L N inOrder T j t)) := by
  obtain ⟨hs, hr⟩ := hR
  have hv := visit_lt hsrc inOrder s.2 hj
  rw [pusoStep_unfold]
  unfold pusoStep
  rw [← hr]
  generalize visit src inOrder s.2 j N = v at hv ⊢
  refine Ok.bind (pusoSubgraphValue_sim c hx hsg hs v.2 hv) fun e he => ?_
  subst he
  dsimp only
  generalize src.accept (ofInt (-2) * Kernel.pusoSubgraphValue P (Kernel.mkIndex P.nc) L t.1 v.2) T v.1 = a
  by_cases ha : a.2 = true
  · simp only [ha, ↓reduceIte]
    refine Ok.bind (flipAt_sim hs v.2 hv) fun st' hst' => ?_
    exact Ok.pure ⟨hst', rfl⟩
  · simp only [ha, Bool.false_eq_true, ↓reduceIte]
    exact Ok.pure ⟨hs, rfl⟩

theorem singleAnnealPuso_sim {p : PusoB α} {N : Nat} {P : Kernel.Puso α} (c : PCtxR p N P) {index : Buf Int}
    (hx : IndexP P index) {sg : Buf (Buf Int)} {L : List (List Nat)} {cc : Nat} (hsg : SgR N P.cs.length sg L cc)
    {src : Src ρ α} (hsrc : IndexOK src N) (inOrder : Bool) {Ts : List α} {TsB : Buf α}
    (hT : TsB.Upto Ts.length Ts.length (Is Ts (ofInt 0))) {state : Buf Int} {st : List Int}
    (hs : StateR N state st) (rng : ρ) :
    Ok (singleAnnealPuso src p index sg N Ts.length TsB inOrder state rng)
      (fun r => StateR N r.1 (Kernel.singleAnnealPuso src P (Kernel.mkIndex P.nc) L N Ts inOrder st rng).1 ∧
        r.2 = (Kernel.singleAnnealPuso src P (Kernel.mkIndex P.nc) L N Ts inOrder st rng).2) := by
  unfold singleAnnealPuso
  have efold : Kernel.singleAnnealPuso src P (Kernel.mkIndex P.nc) L N Ts inOrder st rng =
      forN Ts.length (st, rng)
        (fun t u => forN N u (Kernel.pusoStep src P (Kernel.mkIndex P.nc) L N inOrder (Ts.getD t (ofInt 0)))) := by
    unfold Kernel.singleAnnealPuso forN
    symm
    exact Kernel.forFrom_eq_foldl (ofInt 0) _
      (fun T s => forFrom (Kernel.pusoStep src P (Kernel.mkIndex P.nc) L N inOrder T) 0 N s) Ts 0 _
      (fun j _ e => by simp)
  rw [efold]
  refine (forNM_sim (fun _ s t => PairR N s t) Ts.length (state, rng) (st, rng) _ _ ⟨hs, rfl⟩
    fun t s u ht hI => ?_).mono fun r hr => hr
  refine Ok.bind (rd_ok hT t ht) fun T hTv => ?_
  have hTv' : T = Ts.getD t (ofInt 0) := hTv
  subst hTv'
  exact forNM_sim (fun _ s t => PairR N s t) N s u _ _ hI
    fun j s u hj hI => pusoStep_sim c hx hsg hsrc inOrder _ j hj s u hI

/-- `Kernel.pusoValueC` with its tuple patterns written as projections -/
theorem pusoValueC_unfold (P : Kernel.Puso α) (st : List Int) :
    Kernel.pusoValueC P st =
      (forN P.cs.length ((0 : Nat), (ofInt 0 : α)) fun term s =>
        ((forN (P.nc.getD term 0) (s.1, (1 : Int)) fun _ t => (t.1 + 1, t.2 * st.getD (P.terms.getD t.1 0) 0)).1,
          s.2 + P.cs.getD term (ofInt 0) *
            ofInt (forN (P.nc.getD term 0) (s.1, (1 : Int)) fun _ t =>
              (t.1 + 1, t.2 * st.getD (P.terms.getD t.1 0) 0)).2)).2 := rfl

theorem pusoValue_sim {p : PusoB α} {N : Nat} {P : Kernel.Puso α} (c : PCtxR p N P) {state : Buf Int}
    {st : List Int} (hs : StateR N state st) :
    Ok (pusoValue p P.cs.length state) (fun v => v = Kernel.pusoValueC P st) := by
  unfold pusoValue
  rw [pusoValueC_unfold]
  refine Ok.bind (forNM_sim (fun term (s : Int × α) (s' : Nat × α) =>
      s.1 = (s'.1 : Int) ∧ s'.1 = (P.nc.take term).sum ∧ s.2 = s'.2) _ _ _ _ _ ⟨rfl, by simp, rfl⟩
    fun term s s' hterm hI => ?_) fun s hs' => Ok.pure hs'.2.2
  obtain ⟨h1, h2, h3⟩ := hI
  refine Ok.bind (rd_ok c.ncB term hterm) fun cnt hcnt => ?_
  have hcnt' : cnt = ((P.nc.getD term 0 : Nat) : Int) := hcnt
  subst hcnt'
  rw [Int.toNat_natCast]
  have hterm' : term < P.nc.length := by rw [c.nc_len]; exact hterm
  refine Ok.bind (forNM_sim (fun j (t : Int × Int) (t' : Nat × Int) =>
      t.1 = (t'.1 : Int) ∧ t'.1 = (P.nc.take term).sum + j ∧ t.2 = t'.2 ∧ Spin t.2) (P.nc.getD term 0)
      (s.1, (1 : Int)) (s'.1, (1 : Int)) _
      (fun _ (t : Nat × Int) => (t.1 + 1, t.2 * st.getD (P.terms.getD t.1 0) 0))
      ⟨h1, by omega, rfl, Or.inl rfl⟩ (fun j t t' hj hJ => ?_)) fun t ht => ?_
  · obtain ⟨e1, e2, e3, hsp⟩ := hJ
    have hlt := seg_lt hterm' hj
    rw [mkIndex_getD hterm', c.nc_sum] at hlt
    have hL := c.terms_le
    have hpos : t'.1 < P.terms.length := by omega
    rw [e1]
    refine Ok.bind (rd_ok c.terms _ hpos) fun sp hsp' => ?_
    have hsp'' : sp = ((P.terms.getD t'.1 0 : Nat) : Int) := hsp'
    subst hsp''
    have hspN : P.terms.getD t'.1 0 < N := c.terms_lt _ (Kernel.getD_mem 0 hpos)
    refine Ok.bind (rd_ok hs.1 _ hspN) fun sv hsv => ?_
    have hsv' : sv = st.getD (P.terms.getD t'.1 0) 0 := hsv
    subst hsv'
    have hspin := hs.spin hspN
    have hpr : t.2 = 1 ∨ t.2 = -1 := hsp
    refine Ok.bind (imul_ok (by rcases hpr with e | e <;> rcases hspin with e' | e' <;> rw [e, e'] <;> decide))
      fun pr hpr' => ?_
    refine Ok.bind (ladd_ok (by omega)) fun ix hix => ?_
    refine Ok.pure ⟨by rw [hix]; simp, by simp only []; omega, by rw [hpr', e3], ?_⟩
    rw [hpr']
    show Spin _
    rcases hpr with e | e <;> rcases hspin with e' | e' <;> rw [e, e']
    · exact Or.inl rfl
    · exact Or.inr rfl
    · exact Or.inr rfl
    · exact Or.inl rfl
  · obtain ⟨e1, e2, e3, _⟩ := ht
    refine Ok.bind (rd_ok c.cs term hterm) fun cv hcv => ?_
    have hcv' : cv = P.cs.getD term (ofInt 0) := hcv
    subst hcv'
    refine Ok.pure ⟨e1, ?_, by rw [h3, e3]⟩
    rw [e2, take_sum_succ hterm']

end

/-! ## construction of `index` and `subgraphs` -/

theorem SgR.mono {N T : Nat} {sg : Buf (Buf Int)} {L : List (List Nat)} {c c' : Nat} (h : SgR N T sg L c)
    (hc : c ≤ c') : SgR N T sg L c' :=
  ⟨h.1, h.2.1, fun l hl => ⟨Nat.le_trans (h.2.2 l hl).1 hc, (h.2.2 l hl).2⟩⟩

theorem getD_replicate_nil (N j : Nat) : (List.replicate N ([] : List Nat)).getD j [] = [] := by
  by_cases h : j < N
  · simp [List.getD, h]
  · simp [List.getD, h]

theorem initSubgraphs_sim {N : Nat} (T : Nat) (hN : N ≤ 2147483647) :
    Ok (initSubgraphs N) (fun sg => SgR N T sg (List.replicate N []) 0) := by
  unfold initSubgraphs
  refine Ok.bind (malloc_nat_ok N 8 (fun j row => RowR row ((List.replicate N ([] : List Nat)).getD j []))
    (by omega)) fun sg0 hsg0 => ?_
  refine (forNM_ok (fun i (sg : Buf (Buf Int)) =>
      sg.Upto N i (fun j row => RowR row ((List.replicate N ([] : List Nat)).getD j []))) _ _ _ hsg0
    fun i sg hi hI => ?_).mono fun sg hsg => ⟨by simp, hsg, fun l hl => ?_⟩
  · refine Ok.bind (malloc_nat_ok 1 8 (fun _ v => v = 0) (by omega)) fun row0 hrow0 => ?_
    refine Ok.bind (wr_next hrow0 (by omega) 0 rfl) fun row hrow => ?_
    refine wr_next hI hi row ?_
    rw [getD_replicate_nil]
    obtain ⟨v, hv, hv0⟩ := hrow.init 0 (by omega)
    subst hv0
    exact ⟨hrow.live, by simpa using hrow.size, by simpa using hv, fun m h => by simp at h⟩
  · rw [List.eq_of_mem_replicate hl]
    exact ⟨by simp, fun t ht => by cases ht⟩

section
variable {α ρ : Type} [Add α] [Mul α] [OfInt α]

omit [Add α] [Mul α] in
theorem addToSubgraph_sim {p : PusoB α} {N : Nat} {P : Kernel.Puso α} (c : PCtxR p N P) {sg : Buf (Buf Int)}
    {L : List (List Nat)} {cc : Nat} (hsg : SgR N P.cs.length sg L cc) (term : Nat) (hterm : term < P.cs.length)
    (i : Nat) (hi : i < P.nc.getD term 0) (hcc : cc ≤ (Kernel.mkIndex P.nc).getD term 0 + i) :
    Ok (addToSubgraph p sg term (((Kernel.mkIndex P.nc).getD term 0 : Nat) : Int) i)
      (fun sg' => SgR N P.cs.length sg'
        (L.set (P.terms.getD ((Kernel.mkIndex P.nc).getD term 0 + i) 0)
          (L.getD (P.terms.getD ((Kernel.mkIndex P.nc).getD term 0 + i) 0) [] ++ [term])) (cc + 1)) := by
  unfold addToSubgraph
  obtain ⟨hLlen, hsgU, hLb⟩ := hsg
  have hlt := seg_lt (by rw [c.nc_len]; exact hterm) hi
  rw [c.nc_sum] at hlt
  have hL := c.terms_le
  refine Ok.bind (ladd_ok (by omega)) fun ix hix => ?_
  have hix' : ix = (((Kernel.mkIndex P.nc).getD term 0 + i : Nat) : Int) := by rw [hix]; simp
  subst hix'
  refine Ok.bind (rd_ok c.terms _ hlt) fun j hj => ?_
  have hj' : j = ((P.terms.getD ((Kernel.mkIndex P.nc).getD term 0 + i) 0 : Nat) : Int) := hj
  subst hj'
  have hjN : P.terms.getD ((Kernel.mkIndex P.nc).getD term 0 + i) 0 < N := c.terms_lt _ (Kernel.getD_mem 0 hlt)
  generalize P.terms.getD ((Kernel.mkIndex P.nc).getD term 0 + i) 0 = jj at hjN ⊢
  refine Ok.bind (rd_ok hsgU jj hjN) fun row hrow => ?_
  have hmemL : L.getD jj [] ∈ L := Kernel.getD_mem [] (by rw [hLlen]; exact hjN)
  have hlbound := hLb _ hmemL
  generalize L.getD jj [] = l at hrow hlbound ⊢
  obtain ⟨hl, hsz, hc0, hcm⟩ := hrow
  have hk : l.length ≤ cc := hlbound.1
  refine Ok.bind ⟨(l.length : Int), rd_cell hl hc0, rfl⟩ fun c0 hc0' => ?_
  subst hc0'
  refine Ok.bind (ladd_ok (by omega)) fun c' hc' => ?_
  subst hc'
  refine Ok.bind (wr_raw hl 0 (by omega) _) fun row1 hrow1 => ?_
  obtain ⟨hl1, hsz1, h10, h1m⟩ := hrow1
  refine Ok.bind (toInt_ok (by omega)) fun kk hkk => ?_
  subst hkk
  refine Ok.bind (iadd_ok (by omega)) fun k1 hk1 => ?_
  subst hk1
  refine Ok.bind (realloc_ok hl1 _ 8 (by omega) (by omega)) fun row2 hrow2 => ?_
  obtain ⟨hl2, hsz2, h2m⟩ := hrow2
  have hk2 : ((l.length : Int) + 1 + 1).toNat = l.length + 2 := by omega
  rw [hk2] at hsz2 h2m
  have e1 : ((l.length : Int) + 1) = ((l.length + 1 : Nat) : Int) := by omega
  rw [e1]
  refine Ok.bind (wr_raw hl2 (l.length + 1) (by omega) _) fun row3 hrow3 => ?_
  obtain ⟨hl3, hsz3, h3k, h3m⟩ := hrow3
  have hlen1 : (l ++ [term]).length = l.length + 1 := by simp
  have hrow3R : RowR row3 (l ++ [term]) := by
    refine ⟨hl3, by omega, ?_, fun m hm => ?_⟩
    · rw [h3m 0 (by omega), h2m 0 (by omega), h10, hlen1]
      simp
    · by_cases hml : m = l.length
      · subst hml
        rw [h3k, getD_snoc]
      · have hm' : m < l.length := by omega
        rw [h3m (m + 1) (by omega), h2m (m + 1) (by omega), h1m (m + 1) (by omega), hcm m hm',
          Kernel.getD_append_left' l [term] m 0 hm']
        simp
  refine (wr_gen (q := fun j' row => RowR row ((L.set jj (l ++ [term])).getD j' [])) hsgU jj hjN N row3
    (fun m hm => Or.inr hm) ?_ fun m w _ hmj hw => ?_).mono fun sg' hsg' => ⟨by simp [hLlen], hsg', fun l' hl' => ?_⟩
  · rw [Kernel.getD_set_self' L jj _ [] (by rw [hLlen]; exact hjN)]
    exact hrow3R
  · rw [Kernel.getD_set_ne' L jj m _ [] (fun h => hmj h.symm)]
    exact hw
  · rcases List.mem_or_eq_of_mem_set hl' with h | h
    · exact ⟨Nat.le_trans (hLb l' h).1 (by omega), (hLb l' h).2⟩
    · subst h
      refine ⟨by omega, fun t ht => ?_⟩
      rcases List.mem_append.mp ht with h | h
      · exact hlbound.2 t h
      · simp at h; rw [h]; exact hterm

omit [Add α] [Mul α] in
theorem nextIndex_sim {p : PusoB α} {N : Nat} {P : Kernel.Puso α} (c : PCtxR p N P) {index : Buf Int} (term : Nat)
    (hterm : term < P.cs.length) (hidx : index.Upto P.cs.length (max term 1) (IsN (Kernel.mkIndex P.nc))) :
    Ok (nextIndex p index term) (fun b => b.Upto P.cs.length (term + 1) (IsN (Kernel.mkIndex P.nc))) := by
  unfold nextIndex
  have hlen := c.nc_len
  split
  · rename_i hne
    have hi1 : ((term : Int) - 1).toNat = term - 1 := by omega
    have hm : max term 1 = term := by omega
    rw [hm] at hidx
    refine Ok.bind (rd_int_ok hidx _ (by omega) (by omega)) fun a ha => ?_
    refine Ok.bind (rd_int_ok c.ncB _ (by omega) (by omega)) fun b' hb' => ?_
    rw [hi1] at ha hb'
    have ha' : a = (((Kernel.mkIndex P.nc).getD (term - 1) 0 : Nat) : Int) := ha
    have hb'' : b' = ((P.nc.getD (term - 1) 0 : Nat) : Int) := hb'
    subst ha' hb''
    have hs := take_sum_succ (l := P.nc) (i := term - 1) (by omega)
    have e : term - 1 + 1 = term := by omega
    rw [e] at hs
    have hle := take_sum_le P.nc term
    have hsum := c.nc_sum
    have hL := c.terms_le
    rw [mkIndex_getD (by omega)]
    refine Ok.bind (ladd_ok (by omega)) fun c' hc' => ?_
    subst hc'
    refine wr_next hidx hterm _ ?_
    show _ = (((Kernel.mkIndex P.nc).getD term 0 : Nat) : Int)
    rw [mkIndex_getD (by omega), hs]
    simp
  · rename_i hne
    have : term = 0 := by omega
    subst this
    exact Ok.pure (by simpa using hidx)

omit [Add α] [Mul α] in
theorem mkIndexSubgraphs_sim {p : PusoB α} {N : Nat} {P : Kernel.Puso α} (c : PCtxR p N P) {sg : Buf (Buf Int)}
    (hsg : SgR N P.cs.length sg (List.replicate N []) 0) :
    Ok (mkIndexSubgraphs true p P.cs.length sg)
      (fun r => IndexP P r.1 ∧
        SgR N P.cs.length r.2 (Kernel.mkSubgraphs P (Kernel.mkIndex P.nc) N) P.terms.length) := by
  unfold mkIndexSubgraphs IndexP Kernel.mkSubgraphs
  have hTle := c.T_le
  have hlen := c.nc_len
  refine Ok.bind (malloc_nat_ok P.cs.length 8 (IsN (Kernel.mkIndex P.nc)) (by omega)) fun index0 h0 => ?_
  by_cases hT0 : P.cs.length = 0
  · rw [hT0] at h0 ⊢
    simp only [Bool.true_and, beq_self_eq_true, ↓reduceIte]
    refine Ok.bind (P := fun b : Buf Int => b.Upto 0 0 (IsN (Kernel.mkIndex P.nc))) ⟨index0, rfl, h0⟩
      fun index hindex => ?_
    exact Ok.ok ⟨hindex, by rw [hT0] at hsg; exact hsg.mono (Nat.zero_le _)⟩
  · have hcond : (true && P.cs.length == 0) = false := by
      have : (P.cs.length == 0) = false := by simpa using hT0
      simp [this]
    rw [hcond]
    simp only [Bool.false_eq_true, ↓reduceIte]
    refine Ok.bind (wr_next h0 (by omega) 0 (by
      show (0 : Int) = (((Kernel.mkIndex P.nc).getD 0 0 : Nat) : Int)
      rw [mkIndex_getD (by omega)]; simp)) fun index1 h1 => ?_
    refine (forNM_sim (fun term (s : Buf Int × Buf (Buf Int)) (L : List (List Nat)) =>
        s.1.Upto P.cs.length (max term 1) (IsN (Kernel.mkIndex P.nc)) ∧
        SgR N P.cs.length s.2 L (P.nc.take term).sum) P.cs.length (index1, sg) (List.replicate N []) _
      (fun term sg => forN (P.nc.getD term 0) sg fun i sg =>
        sg.set (P.terms.getD ((Kernel.mkIndex P.nc).getD term 0 + i) 0)
          (sg.getD (P.terms.getD ((Kernel.mkIndex P.nc).getD term 0 + i) 0) [] ++ [term]))
      ⟨by simpa using h1, by simpa using hsg⟩ fun term s L hterm hI => ?_).mono fun r hr => ?_
    · obtain ⟨hidx, hsgs⟩ := hI
      have hterm' : term < P.nc.length := by omega
      refine Ok.bind (nextIndex_sim c term hterm hidx) fun index hindex => ?_
      refine Ok.bind (rd_ok c.ncB term hterm) fun cnt hcnt => ?_
      refine Ok.bind (rd_ok hindex term (by omega)) fun start hstart => ?_
      have hcnt' : cnt = ((P.nc.getD term 0 : Nat) : Int) := hcnt
      have hstart' : start = (((Kernel.mkIndex P.nc).getD term 0 : Nat) : Int) := hstart
      subst hcnt' hstart'
      rw [Int.toNat_natCast]
      refine Ok.bind (forNM_sim (fun i (sg : Buf (Buf Int)) (L : List (List Nat)) =>
          SgR N P.cs.length sg L ((P.nc.take term).sum + i)) _ _ _ _ _ (by simpa using hsgs)
        fun i sg L hi hI => addToSubgraph_sim c hI term hterm i hi (Nat.le_of_eq (by rw [mkIndex_getD hterm'])))
        fun sg' hsg' => ?_
      refine Ok.pure ⟨by
        have hm : max (term + 1) 1 = term + 1 := by omega
        rw [hm]; exact hindex, ?_⟩
      rw [take_sum_succ hterm']
      exact hsg'
    · obtain ⟨h1', h2'⟩ := hr
      refine ⟨h1'.weaken (by omega) (fun _ _ _ h => h), ?_⟩
      have e : (P.nc.take P.cs.length).sum = P.terms.length := by
        rw [List.take_of_length_le (by omega), c.nc_sum]
      rw [e] at h2'
      exact h2'

/-- `anneal_puso` on `WF` buffers: `states`/`values` end up holding `Kernel.annealPuso`'s result -/
theorem annealPuso_sim {p : PusoB α} {N : Nat} {P : Kernel.Puso α} (c : PCtxR p N P)
    {src : Src ρ α} (hsrc : IndexOK src N) (inOrder : Bool) (init : List Int) {Ts : List α} {TsB : Buf α}
    (hT : TsB.Upto Ts.length Ts.length (Is Ts (ofInt 0))) (na : Nat) (htot : na * N ≤ 2147483647)
    {states : Buf Int} (hl : states.live = true) (hsz : states.cells.size = na * N)
    (hinit : init.length ≠ 0 → Kernel.GoodState N init)
    (hrows : init.length ≠ 0 → ∀ r, r < na → RowIs states N r init) {values : Buf α} {p0 : Nat → α → Prop}
    (hv : values.Upto na 0 p0) (rng : ρ) :
    Ok (annealPuso true src (na : Int) states values (N : Int) P.cs.length p Ts.length TsB inOrder
        (decide (init.length ≠ 0)) rng)
      (fun r => OutR na N r.1 r.2 (Kernel.annealPuso src P N Ts inOrder init na rng)) := by
  unfold annealPuso
  have hN := c.N_le
  refine Ok.bind (malloc_nat_ok N 4 Spins (by omega)) fun state0 hs0 => ?_
  simp only [Int.toNat_natCast]
  refine Ok.bind (initSubgraphs_sim P.cs.length hN) fun sg0 hsg0 => ?_
  refine Ok.bind (mkIndexSubgraphs_sim c hsg0) fun is his => ?_
  obtain ⟨hx, hsg⟩ := his
  refine Ok.bind (annealLoop_sim src init na htot
    (singleAnnealPuso src p is.1 is.2 N Ts.length TsB inOrder) (pusoValue p P.cs.length)
    (Kernel.singleAnnealPuso src P (Kernel.mkIndex P.nc) (Kernel.mkSubgraphs P (Kernel.mkIndex P.nc) N) N Ts inOrder)
    (Kernel.pusoValueC P)
    (fun state st rng hs => singleAnnealPuso_sim c hx hsg hsrc inOrder hT hs rng)
    (fun state st hs => pusoValue_sim c hs) hl hsz hinit hrows hv hs0 rng) fun s hI => ?_
  obtain ⟨hout, ks, ps, hstate⟩ := hI
  refine Ok.bind (free_ok hstate.live) fun state' hs' => ?_
  refine Ok.bind (free_ok hx.live) fun index' hi' => ?_
  have hsgW : is.2.Upto N N (Rows P.cs.length (P.terms.length : Int)) :=
    hsg.2.1.weaken (Nat.le_refl N) fun j row _ hr => by
      obtain ⟨hrl, hrsz, hr0, hrm⟩ := hr
      have hb := hsg.2.2 _ (Kernel.getD_mem [] (by rw [hsg.1]; assumption))
      refine ⟨hrl, _, by exact_mod_cast hb.1, hrsz, hr0, fun m h1 h2 => ?_⟩
      have hm : m - 1 < (List.getD (Kernel.mkSubgraphs P (Kernel.mkIndex P.nc) N) j []).length := by omega
      have := hrm (m - 1) hm
      have e : m - 1 + 1 = m := by omega
      rw [e] at this
      exact ⟨_, this, by omega, by exact_mod_cast hb.2 _ (Kernel.getD_mem 0 hm)⟩
  refine Ok.bind (freeRows_ok hsgW) fun sg1 hsg1 => ?_
  refine Ok.bind (free_ok hsg1.1) fun sg2 hsg2 => ?_
  have hrl : rowsLive sg2 = false := by
    refine rowsLive_false (N := N) (by rw [hsg2.2]; exact hsg1.2.1) fun m hm => ?_
    rw [hsg2.2]
    exact hsg1.2.2 m hm
  refine Ok.bind (noLeak_ok (by
    intro b hb
    simp at hb
    rcases hb with rfl | rfl | rfl | rfl
    · exact hs'.1
    · exact hi'.1
    · exact hsg2.1
    · exact hrl)) fun _ _ => ?_
  exact Ok.pure hout

/-- **Refinement (PUSO).**  On `WF` arguments the checked `c_anneal_puso` (the code as it is now) returns exactly
what the unchecked kernel model `Kernel.annealPuso` returns on the same arrays. -/
theorem cAnnealPuso_refines (src : Src ρ α) (N : Nat) (P : Kernel.Puso α) (Ts : List α) (numAnneals : Int)
    (inOrder : Bool) (init : List Int) (rng : ρ) (hsrc : IndexOK src N)
    (wf : WFPuso (N : Int) (P.nc.map Int.ofNat) (P.terms.map Int.ofNat) P.cs Ts numAnneals init) :
    cAnnealPuso true src (N : Int) (P.nc.map Int.ofNat) (P.terms.map Int.ofNat) P.cs Ts numAnneals inOrder init rng =
      .ok (Kernel.annealPuso src P N Ts inOrder init numAnneals.toNat rng) := by
  suffices hOk : Ok (cAnnealPuso true src (N : Int) (P.nc.map Int.ofNat) (P.terms.map Int.ofNat) P.cs Ts numAnneals
      inOrder init rng) (fun out => out = Kernel.annealPuso src P N Ts inOrder init numAnneals.toNat rng) by
    obtain ⟨out, e, h⟩ := hOk
    rw [e, h]
  obtain ⟨hN1, hnclen, hncpos, hncsum, htermslt, hinit, hna, htot, hterms, hTs⟩ := wf
  obtain ⟨na, rfl⟩ : ∃ na : Nat, numAnneals = (na : Int) := ⟨numAnneals.toNat, by omega⟩
  simp only [INT_MAX, List.length_map] at htot hterms hTs hnclen hncsum
  rw [sum_map_ofNat] at hncsum
  have htot' : na * N ≤ 2147483647 := by
    have : ((na * N : Nat) : Int) = (na : Int) * (N : Int) := by simp
    omega
  have hna' : 1 ≤ na := by omega
  have hN1' : 1 ≤ N := by omega
  have hNle : N ≤ 2147483647 := Nat.le_trans (le_mul_right' hna') htot'
  have hnale : na ≤ 2147483647 := Nat.le_trans (le_mul_left' hN1') htot'
  have hncsum' : P.nc.sum = P.terms.length := by exact_mod_cast hncsum
  have htermslt' : ∀ x ∈ P.terms, x < N := fun x hx => by
    have := (htermslt (Int.ofNat x) (List.mem_map.mpr ⟨x, hx, rfl⟩)).2
    exact Int.ofNat_lt.mp this
  have hT : P.cs.length ≤ P.terms.length := by
    have h := length_le_sum_of_pos hncpos
    rw [sum_map_ofNat] at h
    simp only [List.length_map] at h
    omega
  unfold cAnnealPuso
  refine Ok.bind (toInt_ok (by omega)) fun lenState e => ?_
  subst e
  refine Ok.bind (toInt_ok (by omega)) fun lenTs e => ?_
  subst e
  refine Ok.bind (malloc_nat_ok Ts.length 8 Any (by omega)) fun TsB0 hTsB0 => ?_
  refine Ok.bind (chkLong_ok (by omega)) fun numTerms e => ?_
  subst e
  refine Ok.bind (malloc_nat_ok P.cs.length 4 Any (by omega)) fun ncB0 hncB0 => ?_
  simp only [List.length_map]
  refine Ok.bind (chkLong_ok (by omega)) fun lenTerms e => ?_
  subst e
  refine Ok.bind (malloc_nat_ok P.terms.length 4 Any (by omega)) fun termsB0 htermsB0 => ?_
  refine Ok.bind (malloc_nat_ok P.cs.length 8 Any (by omega)) fun csB0 hcsB0 => ?_
  simp only [Int.toNat_natCast]
  have hnat : ∀ (l : List Nat) (i : Nat) (v : Int), (l.map Int.ofNat)[i]? = some v → v = ((l.getD i 0 : Nat) : Int) := by
    intro l i v hv
    rw [List.getElem?_map] at hv
    cases hli : l[i]? with
    | none => rw [hli] at hv; cases hv
    | some x =>
      rw [hli] at hv
      simp only [Option.map_some, Option.some.injEq] at hv
      rw [getD_of_getElem? 0 hli, ← hv]
      rfl
  refine Ok.bind (marshal_ok (p := IsN P.terms) htermsB0 (by simp) fun i v hi hv => ?_) fun termsB htermsB => ?_
  · have hv' := hnat P.terms i v hv
    have hmem : P.terms.getD i 0 ∈ P.terms := Kernel.getD_mem 0 (by omega)
    have := htermslt' _ hmem
    refine (toInt_ok (by omega)).mono fun w hw => by rw [hw]; exact hv'
  refine Ok.bind (marshal_ok (p := IsN P.nc) hncB0 (by simp; omega) fun i v hi hv => ?_) fun ncB hncB => ?_
  · have hv' := hnat P.nc i v hv
    have hmem : P.nc.getD i 0 ∈ P.nc := Kernel.getD_mem 0 (by omega)
    have := nat_le_sum_of_mem hmem
    refine (toInt_ok (by omega)).mono fun w hw => by rw [hw]; exact hv'
  refine Ok.bind (marshal_ok (p := Is P.cs (ofInt 0)) hcsB0 (by omega) fun i v _ hv =>
    Ok.pure (getD_of_getElem? _ hv).symm) fun csB hcsB => ?_
  refine Ok.bind (marshal_ok (p := Is Ts (ofInt 0)) hTsB0 (by omega) fun i v _ hv =>
    Ok.pure (getD_of_getElem? _ hv).symm) fun TsB hTsB => ?_
  refine Ok.bind (malloc_nat_ok na 8 Any (by omega)) fun values0 hvalues0 => ?_
  refine Ok.bind (imul_flat (Nat.le_refl _) htot') fun total e => ?_
  subst e
  refine Ok.bind (malloc_nat_ok (na * N) 4 Spins (by omega)) fun states0 hstates0 => ?_
  have hinitlen : init.length ≤ 2147483647 := by
    rcases hinit with rfl | ⟨hl, _⟩
    · simp
    · omega
  refine Ok.bind (toInt_ok (by omega)) fun provided e => ?_
  subst e
  have ctx : PCtxR { nc := ncB, terms := termsB, cs := csB } N P :=
    { ncB := hncB, terms := htermsB, cs := hcsB, nc_len := hnclen, nc_sum := hncsum', terms_lt := htermslt',
      terms_le := by omega, T_le := by omega, N_le := hNle }
  have hdec : decide ((init.length : Int) ≠ 0) = decide (init.length ≠ 0) := by simp
  rw [hdec]
  have rest : ∀ (states : Buf Int), states.live = true → states.cells.size = na * N →
      (init.length ≠ 0 → ∀ r, r < na → RowIs states N r init) →
      Ok (do
        let sv ← annealPuso true src (na : Int) states values0 (N : Int) P.cs.length
          { nc := ncB, terms := termsB, cs := csB } Ts.length TsB inOrder (decide (init.length ≠ 0)) rng
        let out ← buildPy (na : Int) N sv.1 sv.2
        let ncB ← ncB.free
        let termsB ← termsB.free
        let csB ← csB.free
        let TsB ← TsB.free
        let states ← sv.1.free
        let values ← sv.2.free
        noLeak [ncB.live, termsB.live, csB.live, TsB.live, states.live, values.live]
        pure out) (fun out => out = Kernel.annealPuso src P N Ts inOrder init (na : Int).toNat rng) := by
    intro states hsl hssz hrows
    have hgi : init.length ≠ 0 → Kernel.GoodState N init := by
      intro hne
      rcases hinit with h | ⟨h1, h2⟩
      · rw [h] at hne; exact absurd rfl hne
      · exact ⟨by exact_mod_cast h1, h2⟩
    refine Ok.bind (annealPuso_sim ctx hsrc inOrder init hTsB na htot' hsl hssz hgi hrows hvalues0 rng)
      fun sv hsv => ?_
    refine Ok.bind (buildPy_sim htot' hsv) fun out hout => ?_
    refine Ok.bind (free_ok hncB.live) fun b1 h1 => ?_
    refine Ok.bind (free_ok htermsB.live) fun b2 h2 => ?_
    refine Ok.bind (free_ok hcsB.live) fun b3 h3 => ?_
    refine Ok.bind (free_ok hTsB.live) fun b5 h5 => ?_
    refine Ok.bind (free_ok hsv.1) fun b6 h6 => ?_
    refine Ok.bind (free_ok hsv.2.2.1.live) fun b7 h7 => ?_
    refine Ok.bind (noLeak_ok (by
      intro b hb
      simp at hb
      rcases hb with rfl | rfl | rfl | rfl | rfl | rfl
      · exact h1.1
      · exact h2.1
      · exact h3.1
      · exact h5.1
      · exact h6.1
      · exact h7.1)) fun _ _ => ?_
    rw [Int.toNat_natCast]
    exact Ok.pure hout
  split
  · rename_i hp
    have hne : init ≠ [] := fun e => hp (by simp [e])
    obtain ⟨hl, hsp⟩ := hinit.resolve_left hne
    refine Ok.bind (encodeInit_sim true (by omega) hsp htot' hstates0) fun states hst => ?_
    exact rest states hst.1 hst.2.1 (fun _ => hst.2.2)
  · rename_i hp
    have hz : init.length = 0 := by
      have : ¬ ((init.length : Int) ≠ 0) := hp
      omega
    exact rest states0 hstates0.live hstates0.size (fun h => absurd hz h)

end

end Qv.KMem
