import Qv.Proofs.Expr
import Qv.Model.PcboLogic
import Mathlib.Tactic.Tauto
/-!
# T6.2 (labels): the logic methods introduce no label (namespace `Qv.Logic`)

`VarsIn S p`: every label occurring in a key of `p` satisfies the predicate `S`.  Every arithmetic operation, gate
and constraint method maps inputs whose labels are in `S` to outputs whose labels are in `S`, for *every* `S`
(take `S = (· < ANC)` for "no ancilla label", or membership in the operands' variables for "a function of the
operands' variables only").
-/
namespace Qv.Logic
open Qv

def KeyIn (S : Var → Prop) (k : Key) : Prop := ∀ i ∈ k, S i
def VarsIn (S : Var → Prop) (p : Poly) : Prop := ∀ kv ∈ p, KeyIn S kv.1

def ValIn (S : Var → Prop) : Val → Prop
  | .num _ => True
  | .raw p => VarsIn S p
  | .mdl _ p => VarsIn S p

def SValIn (S : Var → Prop) : SVal → Prop
  | .lbl i => S i
  | .val v => ValIn S v

section
variable {S : Var → Prop}

theorem keyIn_nil : KeyIn S [] := fun _ h => by cases h
theorem varsIn_nil : VarsIn S [] := fun _ h => by cases h

theorem keyIn_append {k k' : Key} (h : KeyIn S k) (h' : KeyIn S k') : KeyIn S (k ++ k') := fun i hi => by
  rcases List.mem_append.1 hi with h1 | h1
  · exact h i h1
  · exact h' i h1

theorem mem_insertU {a i : Var} {l : Key} (h : i ∈ insertU a l) : i = a ∨ i ∈ l := by
  induction l with
  | nil => simp [insertU] at h; exact Or.inl h
  | cons b r ih =>
    unfold insertU at h
    split at h
    · rcases List.mem_cons.1 h with h | h
      · exact Or.inl h
      · exact Or.inr h
    · split at h
      · exact Or.inr h
      · rcases List.mem_cons.1 h with h | h
        · exact Or.inr (h ▸ List.mem_cons_self)
        · rcases ih h with h | h
          · exact Or.inl h
          · exact Or.inr (List.mem_cons_of_mem _ h)

theorem mem_toggleU {a i : Var} {l : Key} (h : i ∈ toggleU a l) : i = a ∨ i ∈ l := by
  induction l with
  | nil => simp [toggleU] at h; exact Or.inl h
  | cons b r ih =>
    unfold toggleU at h
    split at h
    · rcases List.mem_cons.1 h with h | h
      · exact Or.inl h
      · exact Or.inr h
    · split at h
      · exact Or.inr (List.mem_cons_of_mem _ h)
      · rcases List.mem_cons.1 h with h | h
        · exact Or.inr (h ▸ List.mem_cons_self)
        · rcases ih h with h | h
          · exact Or.inl h
          · exact Or.inr (List.mem_cons_of_mem _ h)

theorem keyIn_squashB {k : Key} (h : KeyIn S k) : KeyIn S (squashB k) := by
  induction k with
  | nil => exact keyIn_nil
  | cons a k ih =>
    intro i hi
    rcases mem_insertU (show i ∈ insertU a (squashB k) from hi) with h1 | h1
    · exact h1 ▸ h a List.mem_cons_self
    · exact ih (fun j hj => h j (List.mem_cons_of_mem _ hj)) i h1

theorem keyIn_squashS {k : Key} (h : KeyIn S k) : KeyIn S (squashS k) := by
  induction k with
  | nil => exact keyIn_nil
  | cons a k ih =>
    intro i hi
    rcases mem_toggleU (show i ∈ toggleU a (squashS k) from hi) with h1 | h1
    · exact h1 ▸ h a List.mem_cons_self
    · exact ih (fun j hj => h j (List.mem_cons_of_mem _ hj)) i h1

/-- `sq` only drops / reorders labels -/
def SqSub (sq : Sq) : Prop := ∀ (S : Var → Prop) (k k' : Key), sq k = .ok k' → KeyIn S k → KeyIn S k'

theorem sqSub_squash (κ : Kind) : SqSub (squash κ) := by
  intro S k k' h hk
  rcases squash_ok_cases h with ⟨_, rfl⟩ | ⟨_, _, rfl⟩ | ⟨_, _, rfl⟩
  · exact hk
  · exact keyIn_squashS hk
  · exact keyIn_squashB hk

theorem varsIn_set {p : Poly} (h : VarsIn S p) {k : Key} (hk : KeyIn S k) (v : Rat) : VarsIn S (set p k v) := by
  unfold set
  split
  · exact fun kv hkv => h kv (mem_erase_sub p k kv hkv)
  · intro kv hkv
    rcases mem_put p k v kv hkv with h' | h'
    · subst h'; exact hk
    · exact h kv h'

theorem keyIn_of_mem {p : Poly} (h : VarsIn S p) {k : Key} (hk : k ∈ p.map Prod.fst) : KeyIn S k := by
  obtain ⟨kv, hkv, rfl⟩ := List.mem_map.1 hk
  exact h kv hkv

variable {sq : Sq} (hq : SqSub sq)
include hq

theorem varsIn_addTerm {p p' : Poly} {k : Key} {v : Rat} (h : VarsIn S p) (hk : KeyIn S k)
    (ha : addTerm sq p k v = .ok p') : VarsIn S p' := by
  simp only [addTerm, bind_ok_iff, pure, Except.pure] at ha
  obtain ⟨k', hk', ha⟩ := ha
  injection ha with ha; subst ha
  exact varsIn_set h (hq S k k' hk' hk) _

theorem varsIn_mulItem {p p' : Poly} {k : Key} {c : Rat} (h : VarsIn S p) (hk : KeyIn S k)
    (ha : mulItem sq p k c = .ok p') : VarsIn S p' := by
  simp only [mulItem, bind_ok_iff, pure, Except.pure] at ha
  obtain ⟨k', hk', ha⟩ := ha
  injection ha with ha; subst ha
  exact varsIn_set h (hq S k k' hk' hk) _

theorem varsIn_iaddD {q p p' : Poly} (h : VarsIn S p) (h' : VarsIn S q) (ha : iaddD sq p q = .ok p') :
    VarsIn S p' := by
  induction q generalizing p with
  | nil => simp [iaddD] at ha; subst ha; exact h
  | cons kv r ih =>
    simp only [iaddD, bind_ok_iff] at ha
    obtain ⟨p1, h1, ha⟩ := ha
    exact ih (varsIn_addTerm hq h (h' kv List.mem_cons_self) h1)
      (fun kv' hkv' => h' kv' (List.mem_cons_of_mem _ hkv')) ha

theorem varsIn_isubD {q p p' : Poly} (h : VarsIn S p) (h' : VarsIn S q) (ha : isubD sq p q = .ok p') :
    VarsIn S p' := by
  induction q generalizing p with
  | nil => simp [isubD] at ha; subst ha; exact h
  | cons kv r ih =>
    simp only [isubD, bind_ok_iff] at ha
    obtain ⟨p1, h1, ha⟩ := ha
    exact ih (varsIn_addTerm hq h (h' kv List.mem_cons_self) h1)
      (fun kv' hkv' => h' kv' (List.mem_cons_of_mem _ hkv')) ha

theorem varsIn_iaddC {p p' : Poly} {c : Rat} (h : VarsIn S p) (ha : iaddC sq p c = .ok p') : VarsIn S p' :=
  varsIn_addTerm hq h keyIn_nil ha

theorem varsIn_construct {d p : Poly} (h : VarsIn S d) (ha : construct sq d = .ok p) : VarsIn S p :=
  varsIn_iaddD hq varsIn_nil h ha

theorem varsIn_mulRow {q acc acc' : Poly} {k : Key} {v : Rat} (h : VarsIn S acc) (hk : KeyIn S k)
    (h' : VarsIn S q) (ha : mulRow sq acc k v q = .ok acc') : VarsIn S acc' := by
  induction q generalizing acc with
  | nil => simp [mulRow] at ha; subst ha; exact h
  | cons kv r ih =>
    simp only [mulRow, bind_ok_iff] at ha
    obtain ⟨a1, h1, ha⟩ := ha
    exact ih (varsIn_addTerm hq h (keyIn_append hk (h' kv List.mem_cons_self)) h1)
      (fun kv' hkv' => h' kv' (List.mem_cons_of_mem _ hkv')) ha

theorem varsIn_mulRows {p q acc acc' : Poly} (h : VarsIn S acc) (hp : VarsIn S p) (h' : VarsIn S q)
    (ha : mulRows sq acc p q = .ok acc') : VarsIn S acc' := by
  induction p generalizing acc with
  | nil => simp [mulRows] at ha; subst ha; exact h
  | cons kv r ih =>
    simp only [mulRows, bind_ok_iff] at ha
    obtain ⟨a1, h1, ha⟩ := ha
    exact ih (varsIn_mulRow hq h (hp kv List.mem_cons_self) h' h1)
      (fun kv' hkv' => hp kv' (List.mem_cons_of_mem _ hkv')) ha

theorem varsIn_imulD {p q p' : Poly} (hp : VarsIn S p) (h' : VarsIn S q) (ha : imulD sq p q = .ok p') :
    VarsIn S p' :=
  varsIn_mulRows hq varsIn_nil hp h' ha

theorem varsIn_scaleKeys {ks : List Key} {p p' : Poly} {c : Rat} (h : VarsIn S p)
    (hks : ∀ k ∈ ks, KeyIn S k) (ha : scaleKeys sq p ks c = .ok p') : VarsIn S p' := by
  induction ks generalizing p with
  | nil => simp [scaleKeys] at ha; subst ha; exact h
  | cons k r ih =>
    simp only [scaleKeys, bind_ok_iff] at ha
    obtain ⟨p1, h1, ha⟩ := ha
    exact ih (varsIn_mulItem hq h (hks k List.mem_cons_self) h1)
      (fun k' hk' => hks k' (List.mem_cons_of_mem _ hk')) ha

theorem varsIn_imulC {p p' : Poly} {c : Rat} (h : VarsIn S p) (ha : imulC sq p c = .ok p') : VarsIn S p' :=
  varsIn_scaleKeys hq h (fun _ hk => keyIn_of_mem h hk) ha

theorem varsIn_powLoop {n : Nat} {p old p' : Poly} (h : VarsIn S p) (ho : VarsIn S old)
    (ha : powLoop sq p old n = .ok p') : VarsIn S p' := by
  induction n generalizing p with
  | zero => simp [powLoop] at ha; subst ha; exact h
  | succ n ih =>
    simp only [powLoop, bind_ok_iff] at ha
    obtain ⟨p1, h1, ha⟩ := ha
    exact ih (varsIn_imulD hq h ho h1) ha

theorem varsIn_ipow {p p' : Poly} {e : Int} (h : VarsIn S p) (ha : ipow sq p e = .ok p') : VarsIn S p' := by
  unfold ipow at ha
  split at ha
  · cases ha
  · simp only [bind_ok_iff] at ha
    obtain ⟨old, ho, ha⟩ := ha
    exact varsIn_powLoop hq h (varsIn_construct hq h ho) ha

end

/-! ### values -/

section
variable {S : Var → Prop}

theorem valIn_poly {v : Val} (h : ValIn S v) : ∀ {κ p}, v = .mdl κ p → VarsIn S p := by
  intro κ p e; subst e; exact h

theorem mulModel_vars {κ : Kind} {p : Poly} {b v : Val} (hp : VarsIn S p) (hb : ValIn S b)
    (h : mulModel κ p b = .ok v) : ValIn S v := by
  have hq := sqSub_squash κ
  cases b <;> simp only [mulModel, bind_ok_iff, pure, Except.pure] at h <;>
    obtain ⟨d, hd, r, hr, h⟩ := h <;> injection h with h <;> subst h
  · exact varsIn_imulC hq (varsIn_construct hq hp hd) hr
  · exact varsIn_imulD hq (varsIn_construct hq hp hd) hb hr
  · exact varsIn_imulD hq (varsIn_construct hq hp hd) hb hr

theorem Val.mul_vars {a b v : Val} (ha : ValIn S a) (hb : ValIn S b) (h : Val.mul a b = .ok v) : ValIn S v := by
  cases a with
  | num c =>
    cases b with
    | num c2 => simp [Val.mul] at h; subst h; trivial
    | raw q => simp [Val.mul] at h
    | mdl κ p => exact mulModel_vars hb (b := .num c) trivial h
  | raw q =>
    cases b with
    | num c2 => simp [Val.mul] at h
    | raw q2 => simp [Val.mul] at h
    | mdl κ p => exact mulModel_vars hb (b := .raw q) ha h
  | mdl κ p => exact mulModel_vars ha hb h

theorem Val.add_vars {a b v : Val} (ha : ValIn S a) (hb : ValIn S b) (h : Val.add a b = .ok v) : ValIn S v := by
  cases a <;> cases b <;> simp only [Val.add, bind_ok_iff, pure, Except.pure, reduceCtorEq] at h
  · injection h with h; subst h; trivial
  all_goals
    obtain ⟨d, hd, r, hr, h⟩ := h
    injection h with h; subst h
    first
      | exact varsIn_iaddC (sqSub_squash _) (varsIn_construct (sqSub_squash _) (by assumption) hd) hr
      | exact varsIn_iaddD (sqSub_squash _) (varsIn_construct (sqSub_squash _) hb hd) ha hr
      | exact varsIn_iaddD (sqSub_squash _) (varsIn_construct (sqSub_squash _) ha hd) hb hr

theorem Val.sub_vars {a b v : Val} (ha : ValIn S a) (hb : ValIn S b) (h : Val.sub a b = .ok v) : ValIn S v := by
  cases a with
  | num c =>
    cases b with
    | num c2 => simp [Val.sub] at h; subst h; trivial
    | raw q => simp [Val.sub] at h
    | mdl κ p =>
      simp only [Val.sub, bind_ok_iff] at h
      obtain ⟨m, hm, h⟩ := h
      exact Val.add_vars (mulModel_vars hb (b := .num (-1)) trivial hm) (b := .num c) trivial h
  | raw q =>
    cases b with
    | num c2 => simp [Val.sub] at h
    | raw q2 => simp [Val.sub] at h
    | mdl κ p =>
      simp only [Val.sub, bind_ok_iff] at h
      obtain ⟨m, hm, h⟩ := h
      exact Val.add_vars (mulModel_vars hb (b := .num (-1)) trivial hm) (b := .raw q) ha h
  | mdl κ p =>
    cases b <;> simp only [Val.sub, bind_ok_iff, pure, Except.pure] at h <;>
      obtain ⟨d, hd, r, hr, h⟩ := h <;> injection h with h <;> subst h
    · exact varsIn_iaddC (sqSub_squash _) (varsIn_construct (sqSub_squash _) ha hd) hr
    · exact varsIn_isubD (sqSub_squash _) (varsIn_construct (sqSub_squash _) ha hd) hb hr
    · exact varsIn_isubD (sqSub_squash _) (varsIn_construct (sqSub_squash _) ha hd) hb hr

theorem Val.pow_vars {a v : Val} {e : Int} (ha : ValIn S a) (h : Val.pow a e = .ok v) : ValIn S v := by
  cases a with
  | num c => simp [Val.pow] at h
  | raw q => simp [Val.pow] at h
  | mdl κ p =>
    simp only [Val.pow, bind_ok_iff, pure, Except.pure] at h
    obtain ⟨d, hd, r, hr, h⟩ := h
    injection h with h; subst h
    exact varsIn_ipow (sqSub_squash _) (varsIn_construct (sqSub_squash _) ha hd) hr

theorem Val.pos_vars {a v : Val} (ha : ValIn S a) (h : Val.pos a = .ok v) : ValIn S v := by
  cases a with
  | num c => simp [Val.pos] at h; subst h; trivial
  | raw q => simp [Val.pos] at h
  | mdl κ p =>
    simp only [Val.pos, bind_ok_iff, pure, Except.pure] at h
    obtain ⟨r, hr, h⟩ := h
    injection h with h; subst h
    exact varsIn_construct (sqSub_squash _) ha hr

theorem Val.cast_vars {κ : Kind} {a v : Val} (ha : ValIn S a) (h : Val.cast κ a = .ok v) : ValIn S v := by
  cases a with
  | num c => simp [Val.cast] at h
  | raw q =>
    simp only [Val.cast, bind_ok_iff, pure, Except.pure] at h
    obtain ⟨r, hr, h⟩ := h
    injection h with h; subst h
    exact varsIn_construct (sqSub_squash _) ha hr
  | mdl κ2 q =>
    simp only [Val.cast, bind_ok_iff, pure, Except.pure] at h
    obtain ⟨r, hr, h⟩ := h
    injection h with h; subst h
    exact varsIn_construct (sqSub_squash _) ha hr

/-! ### source-shaped arithmetic and gates -/

def VEIn (S : Var → Prop) : VE → Prop
  | .leaf v => ValIn S v
  | .add a b => VEIn S a ∧ VEIn S b
  | .sub a b => VEIn S a ∧ VEIn S b
  | .mul a b => VEIn S a ∧ VEIn S b

theorem VE.run_vars : ∀ (e : VE) {v : Val}, VEIn S e → e.run = .ok v → ValIn S v := by
  intro e
  induction e with
  | leaf w => intro v hg h; simp only [VE.run] at h; injection h with h; subst h; exact hg
  | add a b iha ihb =>
    intro v hg h
    simp only [VE.run, bind_ok_iff] at h
    obtain ⟨va, hva, vb, hvb, h⟩ := h
    exact Val.add_vars (iha hg.1 hva) (ihb hg.2 hvb) h
  | sub a b iha ihb =>
    intro v hg h
    simp only [VE.run, bind_ok_iff] at h
    obtain ⟨va, hva, vb, hvb, h⟩ := h
    exact Val.sub_vars (iha hg.1 hva) (ihb hg.2 hvb) h
  | mul a b iha ihb =>
    intro v hg h
    simp only [VE.run, bind_ok_iff] at h
    obtain ⟨va, hva, vb, hvb, h⟩ := h
    exact Val.mul_vars (iha hg.1 hva) (ihb hg.2 hvb) h

theorem bufferV_vars {v : SVal} {b : Val} (hv : SValIn S v) (h : bufferV v = .ok b) : ValIn S b := by
  cases v with
  | lbl i =>
    simp only [bufferV, bind_ok_iff, pure, Except.pure] at h
    obtain ⟨r, hr, h⟩ := h
    injection h with h; subst h
    refine varsIn_construct (sqSub_squash _) ?_ hr
    intro kv hkv
    simp only [List.mem_singleton] at hkv
    subst hkv
    intro j hj
    simp only [List.mem_singleton] at hj
    subst hj; exact hv
  | val w =>
    cases w with
    | num c => simp [bufferV] at h
    | raw p => simp only [bufferV] at h; exact Val.cast_vars (a := .raw p) hv h
    | mdl κ p => simp only [bufferV] at h; exact Val.pos_vars (a := .mdl κ p) hv h

theorem notV_vars {v : SVal} {b : Val} (hv : SValIn S v) (h : notV v = .ok b) : ValIn S b := by
  simp only [notV, bind_ok_iff] at h
  obtain ⟨w, hw, h⟩ := h
  exact Val.sub_vars (a := .num 1) trivial (bufferV_vars hv hw) h

theorem andLoop_vars : ∀ (r : List SVal) {acc v : Val}, ValIn S acc → (∀ u ∈ r, SValIn S u) →
    andLoop acc r = .ok v → ValIn S v := by
  intro r
  induction r with
  | nil => intro acc v ha _ h; simp only [andLoop] at h; injection h with h; subst h; exact ha
  | cons u r ih =>
    intro acc v ha hr h
    simp only [andLoop, bind_ok_iff] at h
    obtain ⟨b, hb, m, hm, h⟩ := h
    exact ih (Val.mul_vars ha (bufferV_vars (hr u List.mem_cons_self) hb) hm)
      (fun w hw => hr w (List.mem_cons_of_mem _ hw)) h

theorem satOne_vars {v : Val} (h : satOne = .ok v) : ValIn S v :=
  Val.add_vars (a := .mdl .pubo []) (b := .num 1) varsIn_nil trivial h

theorem andV_vars {vs : List SVal} {g : Val} (hvs : ∀ u ∈ vs, SValIn S u) (h : andV vs = .ok g) : ValIn S g := by
  cases vs with
  | nil => exact satOne_vars (by simpa [andV] using h)
  | cons u r => simp only [andV] at h; exact andLoop_vars (u :: r) (acc := .num 1) trivial hvs h

theorem orFold_vars : ∀ (r : List SVal) {acc v : Val}, ValIn S acc → (∀ u ∈ r, SValIn S u) →
    foldSteps orStep acc r = .ok v → ValIn S v := by
  intro r
  induction r with
  | nil => intro acc v ha _ h; simp only [foldSteps] at h; injection h with h; subst h; exact ha
  | cons u r ih =>
    intro acc v ha hr h
    simp only [foldSteps, orStep, bind_ok_iff] at h
    obtain ⟨m, ⟨b, hb, d, hd, t, ht, hm⟩, h⟩ := h
    have vb := bufferV_vars (hr u List.mem_cons_self) hb
    have vd := Val.sub_vars (a := .num 1) trivial ha hd
    exact ih (Val.add_vars ha (Val.mul_vars vb vd ht) hm) (fun w hw => hr w (List.mem_cons_of_mem _ hw)) h

theorem xorFold_vars : ∀ (r : List SVal) {acc v : Val}, ValIn S acc → (∀ u ∈ r, SValIn S u) →
    foldSteps xorStep acc r = .ok v → ValIn S v := by
  intro r
  induction r with
  | nil => intro acc v ha _ h; simp only [foldSteps] at h; injection h with h; subst h; exact ha
  | cons u r ih =>
    intro acc v ha hr h
    simp only [foldSteps, xorStep, bind_ok_iff] at h
    obtain ⟨m, ⟨b, hb, d, hd, hm⟩, h⟩ := h
    have vb := bufferV_vars (hr u List.mem_cons_self) hb
    exact ih (Val.pow_vars (Val.sub_vars ha vb hd) hm) (fun w hw => hr w (List.mem_cons_of_mem _ hw)) h

theorem orV_vars {vs : List SVal} {g : Val} (hvs : ∀ u ∈ vs, SValIn S u) (h : orV vs = .ok g) : ValIn S g := by
  cases vs with
  | nil => exact satOne_vars (by simpa [orV] using h)
  | cons u r =>
    simp only [orV, bind_ok_iff] at h
    obtain ⟨b, hb, h⟩ := h
    exact orFold_vars r (bufferV_vars (hvs u List.mem_cons_self) hb)
      (fun w hw => hvs w (List.mem_cons_of_mem _ hw)) h

theorem xorV_vars {vs : List SVal} {g : Val} (hvs : ∀ u ∈ vs, SValIn S u) (h : xorV vs = .ok g) : ValIn S g := by
  cases vs with
  | nil => exact satOne_vars (by simpa [xorV] using h)
  | cons u r =>
    simp only [xorV, bind_ok_iff] at h
    obtain ⟨b, hb, h⟩ := h
    exact xorFold_vars r (bufferV_vars (hvs u List.mem_cons_self) hb)
      (fun w hw => hvs w (List.mem_cons_of_mem _ hw)) h

end

end Qv.Logic
